package main

// Scenario "extinfo" of C19: concurrent first use of FRESH hand-built legacy extension descriptors.
//
// A legacy (v1-style) *ExtensionInfo that was never passed to RegisterExtension starts in state
// "uninitialized"; its first use — TypeDescriptor, New, Zero, ValueOf, InterfaceOf, IsValid*, or
// proto.Get/Set/HasExtension — runs ExtensionInfo.lazyInitSlow (initFromLegacy, converter, field
// info) under xi.mu, while other goroutines read the stage word lock-free.  Every value gives one
// chance per process, so every round builds fresh values (distinct field numbers and names): both
// the fully specified form (ExtendedType, ExtensionType, Field, Name, Tag) on a legacy and on a
// generated extendee, and the "type incomplete" form {Field: n}.

import (
	"fmt"
	"math/rand"
	"os"
	"runtime"
	"strings"
	"sync"
	"sync/atomic"

	legacy2 "google.golang.org/protobuf/internal/testprotos/legacy/proto2_20180125_92554152"
	testpb "google.golang.org/protobuf/internal/testprotos/test"
	"google.golang.org/protobuf/proto"
	"google.golang.org/protobuf/reflect/protoreflect"
	"google.golang.org/protobuf/runtime/protoimpl"
)

type extForm struct {
	name     string
	mk       func(round int) *protoimpl.ExtensionInfo
	newMsg   func() proto.Message // a fresh message of the extendee type (nil: placeholder form)
	setValue any                  // value for proto.SetExtension
}

// field numbers far away from every registered extension number of the extendees
func extBase(round, k int) int32 { return int32(1000000 + 16*round + k) }
func extName(round int, s string) string {
	return fmt.Sprintf("verif.conc.ext.r%d.%s", round, s)
}

var extForms = []extForm{
	{"legacy/opt_bool", func(r int) *protoimpl.ExtensionInfo {
		return &protoimpl.ExtensionInfo{ExtendedType: (*legacy2.Message)(nil), ExtensionType: (*bool)(nil), Field: extBase(r, 0),
			Name: extName(r, "opt_bool"), Tag: fmt.Sprintf("varint,%d,opt,name=opt_bool,def=1", extBase(r, 0))}
	}, func() proto.Message { return protoimpl.X.ProtoMessageV2Of(new(legacy2.Message)) }, true},
	{"legacy/opt_string", func(r int) *protoimpl.ExtensionInfo {
		return &protoimpl.ExtensionInfo{ExtendedType: (*legacy2.Message)(nil), ExtensionType: (*string)(nil), Field: extBase(r, 1),
			Name: extName(r, "opt_string"), Tag: fmt.Sprintf("bytes,%d,opt,name=opt_string,def=hi", extBase(r, 1))}
	}, func() proto.Message { return protoimpl.X.ProtoMessageV2Of(new(legacy2.Message)) }, "s"},
	{"legacy/rep_int32", func(r int) *protoimpl.ExtensionInfo {
		return &protoimpl.ExtensionInfo{ExtendedType: (*legacy2.Message)(nil), ExtensionType: ([]int32)(nil), Field: extBase(r, 2),
			Name: extName(r, "rep_int32"), Tag: fmt.Sprintf("varint,%d,rep,name=rep_int32", extBase(r, 2))}
	}, func() proto.Message { return protoimpl.X.ProtoMessageV2Of(new(legacy2.Message)) }, []int32{1, 2, 3}},
	{"legacy/opt_enum", func(r int) *protoimpl.ExtensionInfo {
		return &protoimpl.ExtensionInfo{ExtendedType: (*legacy2.Message)(nil), ExtensionType: (*legacy2.Message_ChildEnum)(nil), Field: extBase(r, 3),
			Name: extName(r, "opt_enum"), Tag: fmt.Sprintf("varint,%d,opt,name=opt_enum,enum=google.golang.org.proto2_20180125.Message_ChildEnum,def=0", extBase(r, 3))}
	}, func() proto.Message { return protoimpl.X.ProtoMessageV2Of(new(legacy2.Message)) }, legacy2.Message_BRAVO},
	{"legacy/opt_message", func(r int) *protoimpl.ExtensionInfo {
		return &protoimpl.ExtensionInfo{ExtendedType: (*legacy2.Message)(nil), ExtensionType: (*legacy2.Message_ChildMessage)(nil), Field: extBase(r, 4),
			Name: extName(r, "opt_message"), Tag: fmt.Sprintf("bytes,%d,opt,name=opt_message", extBase(r, 4))}
	}, func() proto.Message { return protoimpl.X.ProtoMessageV2Of(new(legacy2.Message)) }, &legacy2.Message_ChildMessage{F1: proto.String("x")}},
	{"generated/opt_int64", func(r int) *protoimpl.ExtensionInfo {
		return &protoimpl.ExtensionInfo{ExtendedType: (*testpb.TestAllExtensions)(nil), ExtensionType: (*int64)(nil), Field: extBase(r, 5),
			Name: extName(r, "opt_int64"), Tag: fmt.Sprintf("varint,%d,opt,name=opt_int64", extBase(r, 5))}
	}, func() proto.Message { return new(testpb.TestAllExtensions) }, int64(-7)},
	{"generated/opt_message", func(r int) *protoimpl.ExtensionInfo {
		return &protoimpl.ExtensionInfo{ExtendedType: (*testpb.TestAllExtensions)(nil), ExtensionType: (*testpb.TestAllTypes_NestedMessage)(nil), Field: extBase(r, 6),
			Name: extName(r, "opt_message"), Tag: fmt.Sprintf("bytes,%d,opt,name=opt_message", extBase(r, 6))}
	}, func() proto.Message { return new(testpb.TestAllExtensions) }, &testpb.TestAllTypes_NestedMessage{A: proto.Int32(5)}},
	{"generated/rep_bytes", func(r int) *protoimpl.ExtensionInfo {
		return &protoimpl.ExtensionInfo{ExtendedType: (*testpb.TestAllExtensions)(nil), ExtensionType: ([][]byte)(nil), Field: extBase(r, 7),
			Name: extName(r, "rep_bytes"), Tag: fmt.Sprintf("bytes,%d,rep,name=rep_bytes", extBase(r, 7))}
	}, func() proto.Message { return new(testpb.TestAllExtensions) }, [][]byte{[]byte("a"), nil}},
	{"type-incomplete", func(r int) *protoimpl.ExtensionInfo {
		return &protoimpl.ExtensionInfo{Field: extBase(r, 8)}
	}, nil, nil},
	{"type-incomplete/named", func(r int) *protoimpl.ExtensionInfo {
		return &protoimpl.ExtensionInfo{Field: extBase(r, 9), Name: extName(r, "incomplete")}
	}, nil, nil},
}

const (
	xopTypeDescriptor = iota
	xopNew
	xopZero
	xopIsValid
	xopValueOf
	xopSetGetHas
	numXops
)

// extObserve performs the operations in the order given by first (the first use differs per goroutine)
// and returns everything observable, with the round-specific name and number normalised.
func extObserve(f *extForm, xi *protoimpl.ExtensionInfo, round, k, first int) (obs string, xtd protoreflect.ExtensionTypeDescriptor) {
	var xt protoreflect.ExtensionType = xi
	parts := make([]string, numXops)
	norm := func(s string) string {
		s = strings.ReplaceAll(s, fmt.Sprintf("verif.conc.ext.r%d.", round), "verif.conc.ext.rN.")
		return strings.ReplaceAll(s, fmt.Sprint(extBase(round, k)), "<num>")
	}
	for j := 0; j < numXops; j++ {
		op := (first + j) % numXops
		if f.newMsg == nil && op != xopTypeDescriptor {
			continue // the type-incomplete form has no Go type: only its descriptor can be used
		}
		parts[op] = safe(func() string {
			switch op {
			case xopTypeDescriptor:
				d := xt.TypeDescriptor()
				xtd = d
				s := fmt.Sprintf("desc %s #%d ph=%v", d.FullName(), d.Number(), d.IsPlaceholder())
				if !d.IsPlaceholder() {
					s += fmt.Sprintf(" %v %v ext-of=%s json=%s def=%v/%v list=%v packed=%v type-back=%v", d.Kind(), d.Cardinality(), d.ContainingMessage().FullName(),
						d.JSONName(), d.HasDefault(), d.Default().Interface(), d.IsList(), d.IsPacked(), d.Type() == xt)
					if d.Message() != nil {
						s += " msg=" + string(d.Message().FullName())
					}
					if d.Enum() != nil {
						s += " enum=" + string(d.Enum().FullName())
					}
				}
				return s
			case xopNew:
				v := xt.New()
				return fmt.Sprintf("new %T valid=%v", v.Interface(), xt.IsValidValue(v))
			case xopZero:
				z := xt.Zero()
				return fmt.Sprintf("zero %T go=%T", z.Interface(), xt.InterfaceOf(z))
			case xopIsValid:
				return fmt.Sprintf("isvalid %v %v %v", xt.IsValidInterface(f.setValue), xt.IsValidInterface(struct{}{}), xt.IsValidInterface(nil))
			case xopValueOf:
				v := xt.ValueOf(f.setValue)
				back := xt.InterfaceOf(v)
				return fmt.Sprintf("valueof %T back=%T", v.Interface(), back)
			case xopSetGetHas:
				m := f.newMsg()
				before := proto.HasExtension(m, xt)
				def := proto.GetExtension(m, xt)
				proto.SetExtension(m, xt, f.setValue)
				got := proto.GetExtension(m, xt)
				b, err := proto.MarshalOptions{Deterministic: true, AllowPartial: true}.Marshal(m)
				m2 := f.newMsg()
				err2 := proto.UnmarshalOptions{AllowPartial: true}.Unmarshal(b, m2)
				return fmt.Sprintf("ext has=%v/%v default=%T get=%T size=%d err=%v/%v unknown-on-reparse=%d", before, proto.HasExtension(m, xt), def, got,
					len(b), err != nil, err2 != nil, len(m2.ProtoReflect().GetUnknown()))
			}
			return ""
		})
	}
	return norm(strings.Join(parts, "\n")), xtd
}

// childExtInfo: rounds × forms; n goroutines make first use of one fresh value at the same instant.
func childExtInfo(res *childResult, n int, seed int64) {
	runtime.GOMAXPROCS(runtime.NumCPU())
	r := rand.New(rand.NewSource(seed))
	rounds := 60
	if n == 1 {
		rounds = 3
	}
	fail := func(s string) {
		if len(res.Fails) < 6 {
			res.Fails = append(res.Fails, s)
		}
	}
	// the sequential observations: one goroutine, a value of its own (round 5000: same tag size class as the rounds)
	seq := make([]string, len(extForms))
	for k := range extForms {
		seq[k], _ = extObserve(&extForms[k], extForms[k].mk(5000), 5000, k, 0)
		if strings.Contains(seq[k], "panic:") {
			fail("harness: the sequential use of form " + extForms[k].name + " panics: " + seq[k])
		}
	}
	for round := 0; round < rounds; round++ {
		for k := range extForms {
			f := &extForms[k]
			fmt.Fprintf(os.Stderr, "#conc-round scenario=extinfo round=%d form=%s goroutines=%d\n", round, f.name, n)
			xi := f.mk(round)
			obs := make([]string, n)
			xtds := make([]protoreflect.ExtensionTypeDescriptor, n)
			firsts := make([]int, n)
			var ready, wg sync.WaitGroup
			var start int32
			ready.Add(n)
			wg.Add(n)
			for g := 0; g < n; g++ {
				firsts[g] = (g + r.Intn(2)) % numXops
				go func(g int) {
					defer wg.Done()
					ready.Done()
					for atomic.LoadInt32(&start) == 0 {
						if n >= runtime.GOMAXPROCS(0) {
							runtime.Gosched()
						}
					}
					obs[g], xtds[g] = extObserve(f, xi, round, k, firsts[g])
				}(g)
			}
			ready.Wait()
			atomic.StoreInt32(&start, 1)
			wg.Wait()
			res.Evals += n
			res.Hist["extinfo:"+f.name]++
			for g := 0; g < n; g++ {
				what := fmt.Sprintf("extinfo round %d, form %s, %d goroutines: goroutine %d (first operation %d)", round, f.name, n, g, firsts[g])
				if obs[g] != seq[k] {
					fail(what + " observed something else than the sequential program: " + firstDiff(seq[k], obs[g]))
				}
				if xtds[g] != xtds[0] {
					fail(what + " obtained a different TypeDescriptor object than goroutine 0")
				}
			}
		}
		res.Rounds++
	}
	h := shortHash(strings.Join(seq, "\n"))
	res.Digests = make([]string, n)
	for i := range res.Digests {
		res.Digests[i] = h
	}
	res.Detail = []string{h + "\x00sequential=" + h}
}
