//go:build verifhooks

package main

import "google.golang.org/protobuf/internal/verifhook"

// Built with the event hooks of internal/verifhook (tag verif records, tag verifhooks links them in here).
const hooksAvailable = verifhook.Enabled

func hookStart() { verifhook.Start() }

func hookStop() []hookEvent {
	evs := verifhook.Stop()
	out := make([]hookEvent, len(evs))
	for i, e := range evs {
		out[i] = hookEvent{Seq: e.Seq, G: e.G, Ev: e.Ev, Kind: e.Kind, Phase: e.Phase, Num: e.Num, Obj: e.Obj, Mine: e.Mine, Cell: e.Cell}
		out[i].K, out[i].N = entryKN(e)
	}
	return out
}
func hookTick() uint64 { return verifhook.Tick() }
func hookGoID() uint64 { return verifhook.GoID() }
