package main

import (
	"fmt"
	"math/rand"
	"runtime"
	"sort"
	"sync"
	"sync/atomic"
	"unsafe"

	lazyopaque "google.golang.org/protobuf/internal/testprotos/lazy/lazy_opaque"
	edopaque "google.golang.org/protobuf/internal/testprotos/testeditions/testeditions_opaque"
	"google.golang.org/protobuf/proto"
)

// hookEvent mirrors verifhook.Event (kept separate so that this file builds without the hook package).
type hookEvent struct {
	Seq, G          uint64
	Ev, Kind, Phase uint8
	Num             int32
	Obj, Mine, Cell uintptr
	K, N            int32 // evLazyEntry
}

const (
	evLazyEnter     = 1
	evLazyDecoded   = 2
	evLazyPublished = 3
	evInit          = 4
	evLazyEntry     = 5

	phEnter       = 1
	phLocked      = 2
	phRecheckHit  = 3
	phRecheckMiss = 4
	phBodyDone    = 5
	phStored      = 6
	phUnlocking   = 7
)

// ---------------------------------------------------------------------------- C19: initialisation traces

// initTraces turns the recorded events of MessageInfo.initOnce / File.lazyInitOnce into request lines
// for the model (`dcl msginfo 2 …` / `dcl file 1 …`), one per initialised object.
//
// All events except Enter are recorded while the lock is held, so their recorded order is their
// real order.  Enter (= the fast-path load returned 0) is recorded after the load; the load itself
// happened somewhere between the goroutine's previous recorded event and the Enter record.  Each
// Enter is therefore placed as early as that interval allows when it would otherwise follow the
// store of the flag; if even the interval's lower bound lies after the store, the event stays
// where it is and the model rejects the trace (a fast-path miss after the flag was published).
func initTraces(evs []hookEvent, res *childResult) [][]string {
	type key struct {
		kind uint8
		obj  uintptr
	}
	groups := map[key][]hookEvent{}
	perG := map[uint64][]uint64{}
	for _, e := range evs {
		perG[e.G] = append(perG[e.G], e.Seq)
		if e.Ev == evInit {
			k := key{e.Kind, e.Obj}
			groups[k] = append(groups[k], e)
		}
	}
	prevOf := func(g, seq uint64) uint64 {
		s := perG[g]
		i := sort.Search(len(s), func(i int) bool { return s[i] >= seq })
		if i == 0 {
			return 0
		}
		return s[i-1]
	}
	keys := make([]key, 0, len(groups))
	for k := range groups {
		keys = append(keys, k)
	}
	sort.Slice(keys, func(i, j int) bool { return groups[keys[i]][0].Seq < groups[keys[j]][0].Seq })
	var out [][]string
	for _, k := range keys {
		g := groups[k]
		var stored uint64
		hasMiss := false
		for _, e := range g {
			if e.Phase == phStored && stored == 0 {
				stored = e.Seq
			}
			if e.Phase == phRecheckMiss {
				hasMiss = true
			}
		}
		if !hasMiss {
			res.Hist["trace:init-before-recording"]++
			continue
		}
		type placed struct {
			at float64
			e  hookEvent
		}
		ps := make([]placed, 0, len(g))
		for _, e := range g {
			at := float64(e.Seq)
			if e.Phase == phEnter && stored != 0 && e.Seq > stored && prevOf(e.G, e.Seq) < stored {
				at = float64(stored) - 0.5
				res.Hist["trace:enter-moved-before-store"]++
			}
			ps = append(ps, placed{at, e})
		}
		sort.SliceStable(ps, func(i, j int) bool { return ps[i].at < ps[j].at })
		tid := map[uint64]int{}
		t := func(g uint64) int {
			if _, ok := tid[g]; !ok {
				tid[g] = len(tid)
			}
			return tid[g]
		}
		var line []string
		if k.kind == 1 {
			line = []string{"dcl", "msginfo", "2"}
		} else {
			line = []string{"dcl", "file", "1"}
		}
		pendingRecheck := map[uint64]bool{}
		for _, p := range ps {
			e := p.e
			id := fmt.Sprint(t(e.G))
			switch e.Phase {
			case phEnter:
				line = append(line, "F", id, "0")
			case phLocked:
				line = append(line, "K", id)
				pendingRecheck[e.G] = true
			case phRecheckHit:
				line = append(line, "R", id, "1")
				pendingRecheck[e.G] = false
			case phRecheckMiss:
				line = append(line, "R", id, "0")
				pendingRecheck[e.G] = false
			case phBodyDone:
				line = append(line, "W", id, "0", "W", id, "1", "E", id)
			case phStored:
				if pendingRecheck[e.G] { // File.lazyInitOnce: `if fd.L2 == nil` was false
					line = append(line, "R", id, "1")
					pendingRecheck[e.G] = false
				}
				line = append(line, "S", id)
			case phUnlocking:
				line = append(line, "U", id, "G", id)
			}
		}
		res.Hist[fmt.Sprintf("trace:init-threads:%d", len(tid))]++
		out = append(out, line)
		if len(out) >= 600 {
			break
		}
	}
	return out
}

// ---------------------------------------------------------------------------- C18: lazy-field traces

type getterCall struct {
	g         int     // harness goroutine
	gid       uint64  // runtime goroutine id (as the hooks see it)
	msg       uintptr // the message whose lazy field is read
	num       int32
	call, ret uint64  // stamps around the generated getter
	res       uintptr // returned submessage (0 = nil)
	content   string  // what the reader saw in the returned submessage right after the getter returned
}

// walk follows the lazy chain with the generated getters, stamping every call.
func walk(g int, gid uint64, m proto.Message, calls *[]getterCall) {
	switch x := m.(type) {
	case *lazyopaque.Node:
		for n := x; n != nil; {
			c := hookTick()
			next := n.GetNested()
			r := hookTick()
			content := ""
			if next != nil {
				content = fmt.Sprintf("%d/%s/%s/%d/%d", next.GetInt32(), short([]byte(next.GetString())), short(next.GetBytes()), next.GetSint64(), next.GetUint32())
			}
			*calls = append(*calls, getterCall{g, gid, uintptr(unsafe.Pointer(n)), 99, c, r, uintptr(unsafe.Pointer(next)), content})
			n = next
		}
	case *edopaque.TestAllTypes:
		for t := x; t != nil; {
			c := hookTick()
			nm := t.GetOptionalLazyNestedMessage()
			r := hookTick()
			content := ""
			var co *edopaque.TestAllTypes
			if nm != nil {
				co = nm.GetCorecursive()
				content = fmt.Sprintf("%d/%s/%d/%s/%d", nm.GetA(), sumInts(co.GetRepeatedInt32()), len(co.GetRepeatedString()), short(co.GetOptionalBytes()), co.GetOptionalInt32())
			}
			*calls = append(*calls, getterCall{g, gid, uintptr(unsafe.Pointer(t)), 24, c, r, uintptr(unsafe.Pointer(nm)), content})
			if nm == nil {
				break
			}
			t = co
		}
	}
}

// lazyTraces builds, per lazy cell (message, field), a candidate linearisation of the recorded
// getter calls and lazyUnmarshal events in which every step lies inside its recorded real-time
// interval, as a request line for the model's acceptsTrace (`lazy P i b N i b D i obj C i won L i obj …`).
//
// Intervals: the presence check and the nil check of a call lie between the call stamp and the
// LazyEnter record (nil seen) resp. the return stamp (non-nil seen); the decode ends at the
// LazyDecoded record; the CAS lies between the LazyDecoded and the LazyPublished record; the final
// load lies before the return stamp.  Nil checks that saw nil are placed as early as possible,
// those that saw non-nil as late as possible, the winning CAS as early as possible after all
// nil-seeing checks, losing CASes as late as possible.  If the real execution violated the
// protocol no placement inside the intervals is a run of the model, and this one is rejected.
func lazyTraces(calls []getterCall, evs []hookEvent, res *childResult) [][]string {
	type cell struct {
		msg uintptr
		num int32
	}
	byCell := map[cell][]int{}
	for i, c := range calls {
		k := cell{c.msg, c.num}
		byCell[k] = append(byCell[k], i)
	}
	evByG := map[uint64][]hookEvent{}
	for _, e := range evs {
		if e.Ev != evInit {
			evByG[e.G] = append(evByG[e.G], e)
		}
	}
	var cells []cell
	for k := range byCell {
		cells = append(cells, k)
	}
	sort.Slice(cells, func(i, j int) bool { return calls[byCell[cells[i]][0]].call < calls[byCell[cells[j]][0]].call })
	var out [][]string
	for _, k := range cells {
		type step struct {
			at  float64
			tok []string
			dec uintptr // decode step: the object
		}
		var steps []step
		type th struct {
			c               getterCall
			entered         bool
			decoded         []uint64    // one per LazyDecoded record (the code's shape has exactly one per call)
			entries         []hookEvent // LazyEntry records (one per merged index entry), in recorded order
			published       uint64
			mine, cellAfter uintptr
		}
		var ths []th
		for _, ci := range byCell[k] {
			c := calls[ci]
			t := th{c: c}
			for _, e := range evByG[c.gid] {
				if e.Seq > c.call && e.Seq < c.ret && e.Obj == k.msg && e.Num == k.num {
					switch e.Ev {
					case evLazyEnter:
						t.entered = true
					case evLazyDecoded:
						t.decoded, t.mine = append(t.decoded, e.Seq), e.Mine
					case evLazyEntry:
						t.entries, t.mine = append(t.entries, e), e.Mine
					case evLazyPublished:
						t.published, t.cellAfter = e.Seq, e.Cell
					}
				}
			}
			ths = append(ths, t)
		}
		// lazyUnmarshal calls on this cell that did not come from one of the stamped getters: the field of a
		// not yet published object is force-decoded while a later wire occurrence is merged into that object
		// (unmarshalPointerLazy: `f.isLazy && !lazyDecode && Present → lazyUnmarshal`).  Each is a reader of its
		// own: presence and nil check at its LazyEnter record, result = the cell after its CAS.
		for gid, es := range evByG {
			var cur *th
			flush := func() {
				if cur != nil && cur.published != 0 {
					ths = append(ths, *cur)
					res.Hist["trace:internal-lazyUnmarshal"]++
				}
				cur = nil
			}
			for _, e := range es {
				if e.Obj != k.msg || e.Num != k.num {
					continue
				}
				inCall := false
				for _, ci := range byCell[k] {
					if c := calls[ci]; c.gid == gid && e.Seq > c.call && e.Seq < c.ret {
						inCall = true
						break
					}
				}
				if inCall {
					continue
				}
				switch e.Ev {
				case evLazyEnter:
					flush()
					cur = &th{c: getterCall{gid: gid, msg: k.msg, num: k.num, call: e.Seq}, entered: true}
				case evLazyDecoded:
					if cur != nil {
						cur.decoded, cur.mine = append(cur.decoded, e.Seq), e.Mine
					}
				case evLazyEntry:
					if cur != nil {
						cur.entries, cur.mine = append(cur.entries, e), e.Mine
					}
				case evLazyPublished:
					if cur != nil {
						cur.published, cur.cellAfter = e.Seq, e.Cell
						cur.c.ret, cur.c.res = e.Seq+1, e.Cell
					}
				}
			}
			flush()
		}
		// a cell nobody lazily decoded during the recording: the submessage was decoded eagerly (a later wire
		// occurrence merged into a non-empty object is not decoded lazily) before the message was shared.
		// Not an instance of the lazy protocol; the readers must still agree.
		anyEntered := false
		for _, t := range ths {
			anyEntered = anyEntered || t.entered
		}
		if !anyEntered && len(ths) > 0 && ths[0].c.res != 0 {
			for _, t := range ths {
				if t.c.res != ths[0].c.res && len(res.Fails) < 5 {
					res.Fails = append(res.Fails, fmt.Sprintf("readers of an eagerly decoded submessage (field %d) obtained different instances", k.num))
				}
			}
			res.Hist["trace:eager-cell-skipped"]++
			continue
		}
		// the winner's CAS: after every nil-seeing check (call stamps), inside its own interval
		var latestNilSeer float64
		nWinners := 0
		for _, t := range ths {
			if t.entered && float64(t.c.call) > latestNilSeer {
				latestNilSeer = float64(t.c.call)
			}
			if t.entered && t.cellAfter == t.mine {
				nWinners++
			}
		}
		objID := map[uintptr]int{}
		nEntries := 0 // number of index entries of this field, as recorded by LazyEntry
		for i, t := range ths {
			id := fmt.Sprint(i)
			if t.c.res == 0 && !t.entered {
				steps = append(steps, step{at: float64(t.c.call) + 0.1, tok: []string{"P", id, "0"}})
				continue
			}
			steps = append(steps, step{at: float64(t.c.call) + 0.1, tok: []string{"P", id, "1"}})
			if t.entered {
				steps = append(steps, step{at: float64(t.c.call) + 0.2, tok: []string{"N", id, "1"}})
				lastDecoded := float64(t.c.call) + 0.3
				if hookHasEntry {
					// the tree records every merged index entry (verifhook.LazyEntry): allocation, one merge step per
					// record, and "left the loop" at the LazyDecoded record.  The model (run with the recorded number
					// of entries n) accepts the LazyDecoded record and the CAS only after entries 0..n-1.
					steps = append(steps, step{at: float64(t.c.call) + 0.3, tok: []string{"A", id}, dec: t.mine})
					for j, e := range t.entries {
						if int(e.K) != j || e.Mine != t.mine || (nEntries != 0 && int(e.N) != nEntries) {
							if len(res.Fails) < 5 {
								res.Fails = append(res.Fails, fmt.Sprintf("LazyEntry records of one lazyUnmarshal call are inconsistent: record %d says entry %d of %d (other calls on this field: %d entries)", j, e.K, e.N, nEntries))
							}
						}
						nEntries = int(e.N)
						steps = append(steps, step{at: float64(e.Seq), tok: []string{"M", id}})
					}
					for _, d := range t.decoded {
						steps = append(steps, step{at: float64(d), tok: []string{"E", id}})
						lastDecoded = float64(d)
					}
					res.Hist[fmt.Sprintf("trace:entries-per-call:%d", len(t.entries))]++
				} else {
					// every LazyDecoded record stands for "all index entries merged, about to publish": a call that
					// records it more than once published before its decoding was finished — the model rejects the second one
					for _, d := range t.decoded {
						steps = append(steps, step{at: float64(d), tok: []string{"D", id}, dec: t.mine})
						lastDecoded = float64(d)
					}
				}
				if len(t.decoded) != 1 {
					res.Hist[fmt.Sprintf("trace:decoded-records-per-call:%d", len(t.decoded))]++
				}
				won := t.cellAfter == t.mine
				at := float64(t.published) - 0.3
				if won && nWinners == 1 {
					at = lastDecoded + 0.1
					if latestNilSeer+0.3 > at {
						at = latestNilSeer + 0.3
					}
					if at > float64(t.published)-0.3 {
						at = float64(t.published) - 0.3
					}
				}
				w := "0"
				if won {
					w = "1"
				}
				steps = append(steps, step{at: at, tok: []string{"C", id, w}})
			} else {
				steps = append(steps, step{at: float64(t.c.ret) - 0.2, tok: []string{"N", id, "0"}})
			}
			steps = append(steps, step{at: float64(t.c.ret) - 0.1, tok: []string{"L", id, fmt.Sprintf("@%d", t.c.res)}})
		}
		sort.SliceStable(steps, func(i, j int) bool { return steps[i].at < steps[j].at })
		// number the objects in the order of their decode steps, as the model's allocator does
		// (keyed by the decoding call, not by the address: the object of a losing CAS is garbage and its address
		// may be handed out again to a later decoder of the same recording)
		objOfThread := map[string]int{}
		for _, s := range steps {
			if s.tok[0] == "D" || s.tok[0] == "A" {
				if _, seen := objOfThread[s.tok[1]]; !seen {
					objOfThread[s.tok[1]] = len(objOfThread)
				}
			}
		}
		// an address that a reader obtained: the object of the call that published it (CAS winner), else of the
		// latest call that decoded into that address
		for i, t := range ths {
			if id, ok := objOfThread[fmt.Sprint(i)]; ok && t.entered {
				if _, isWinner := objID[t.mine]; !isWinner || t.cellAfter == t.mine {
					objID[t.mine] = id
				}
			}
		}
		for i, t := range ths {
			if id, ok := objOfThread[fmt.Sprint(i)]; ok && t.entered && t.cellAfter == t.mine {
				objID[t.mine] = id
			}
		}
		line := []string{"lazy"}
		if hookHasEntry {
			if nEntries == 0 {
				nEntries = 1 // nobody recorded an entry: a decoder (if any) is rejected at its LazyDecoded record
			}
			line = []string{"lazyn", fmt.Sprint(nEntries)}
		}
		for _, s := range steps {
			switch s.tok[0] {
			case "D", "A":
				line = append(line, s.tok[0], s.tok[1], fmt.Sprint(objOfThread[s.tok[1]]))
			case "L":
				var p uintptr
				fmt.Sscanf(s.tok[2], "@%d", &p)
				id, ok := objID[p]
				if !ok {
					id = 999999 // an object nobody decoded in this recording
				}
				line = append(line, "L", s.tok[1], fmt.Sprint(id))
			default:
				line = append(line, s.tok...)
			}
		}
		res.Hist[fmt.Sprintf("trace:cell-readers:%d", len(ths))]++
		res.Hist[fmt.Sprintf("trace:cell-decoders:%d", len(objOfThread))]++
		out = append(out, line)
	}
	return out
}

// childC18Trace runs getter-only rounds with the hooks recording and returns the cell histories.
func childC18Trace(res *childResult, seed int64, rounds int) {
	if !hooksAvailable {
		res.Notes = append(res.Notes, "built without hooks")
		return
	}
	runtime.GOMAXPROCS(runtime.NumCPU())
	r := rand.New(rand.NewSource(seed))
	for round := 0; round < rounds && len(res.Traces) < 4000; round++ {
		k := &kinds[r.Intn(2)] // Node, TestAllTypes
		wire, shape := genWire(r, k)
		res.Hist["trace:wire:"+shape]++
		shared := k.zero()
		if err := proto.Unmarshal(wire, shared); err != nil {
			res.Fails = append(res.Fails, "decode: "+err.Error())
			return
		}
		// the sequential walk on a separate copy: what every reader must see at each level
		ref := k.zero()
		proto.Unmarshal(wire, ref)
		var seqCalls []getterCall
		walk(0, 0, ref, &seqCalls)
		n := []int{2, 3, 4, 8, 16, 32}[r.Intn(6)]
		calls := make([][]getterCall, n)
		var ready, wg sync.WaitGroup
		var start int32
		ready.Add(n)
		wg.Add(n)
		hookStart()
		for g := 0; g < n; g++ {
			go func(g int) {
				defer wg.Done()
				gid := hookGoID()
				ready.Done()
				for atomic.LoadInt32(&start) == 0 {
					if n >= runtime.GOMAXPROCS(0) {
						runtime.Gosched()
					}
				}
				walk(g, gid, shared, &calls[g])
				if g%2 == 0 {
					walk(g, gid, shared, &calls[g]) // a second pass: must find everything decoded
				}
			}(g)
		}
		ready.Wait()
		atomic.StoreInt32(&start, 1)
		wg.Wait()
		evs := hookStop()
		var all []getterCall
		for g, cs := range calls {
			all = append(all, cs...)
			for i, c := range cs {
				want := seqCalls[i%len(seqCalls)].content
				if c.content != want && len(res.Fails) < 5 {
					res.Fails = append(res.Fails, fmt.Sprintf("goroutine %d of %d: getter of field %d at depth %d returned a submessage with content %s, the sequential result is %s (kind %s, %s wire %x…, %d bytes)",
						g, n, c.num, i%len(seqCalls)+1, c.content, want, k.name, shape, wire[:min(len(wire), 24)], len(wire)))
				}
			}
		}
		res.Traces = append(res.Traces, lazyTraces(all, evs, res)...)
		res.Rounds++
	}
}
