//go:build !verifhooks

package main

// Built without the event hooks (internal/verifhook is not in the tree, see /verif/fixes/hook-conc.diff).
const hooksAvailable = false
const hookHasEntry = false

func hookStart()            {}
func hookStop() []hookEvent { return nil }
func hookTick() uint64      { return 0 }
func hookGoID() uint64      { return 0 }
