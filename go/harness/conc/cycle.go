package main

// Scenario "cycle" of C19: concurrent first use of DIFFERENT members of a reference cycle of hand-written,
// tag-only legacy ("aberrant") messages.  A legacy type can be used for the first time only once per
// process; every round therefore uses a fresh instantiation of the generic types below (each instantiation
// is a distinct Go type, hence a distinct message type), so one child process runs many rounds.
//
//	CycOuter { CycInner in = 1; E e = 2; int64 f3 … f48 }     (many fields: its derivation takes a while)
//	CycInner { CycOuter out = 1; CycThird third = 2 }
//	CycThird { CycOuter back = 1; string h2 … h20 }
//
// The library derives the descriptors re-entrantly under one lock; every goroutine — whichever member it
// starts from and whichever entry point it uses — must see all three descriptors complete, exactly as a
// sequential program does, and everybody must get the same descriptor objects.

import (
	"crypto/sha256"
	"encoding/hex"
	"fmt"
	"math/rand"
	"reflect"
	"runtime"
	"sort"
	"strings"
	"sync"
	"sync/atomic"
	"time"

	"google.golang.org/protobuf/encoding/prototext"
	"google.golang.org/protobuf/internal/impl"
	"google.golang.org/protobuf/proto"
	"google.golang.org/protobuf/reflect/protoreflect"
	"google.golang.org/protobuf/runtime/protoimpl"
	"google.golang.org/protobuf/types/descriptorpb"
)

const cycNumFields = 48

// CycEnum is a legacy (v1) enum: it only has an EnumDescriptor method, which the library calls while it
// derives CycOuter (field 2, i.e. after CycInner and CycThird have been derived re-entrantly).
type CycEnum[T any] int32

func (CycEnum[T]) EnumDescriptor() ([]byte, []int) {
	if f, _ := cycEnumHook.Load().(func()); f != nil {
		f()
	}
	return cycEnumFD, []int{0}
}

var cycEnumHook atomic.Value // func()

var cycEnumFD = func() []byte {
	b, err := proto.Marshal(&descriptorpb.FileDescriptorProto{
		Name:    proto.String("verif_cyc_enum.proto"),
		Syntax:  proto.String("proto3"),
		Package: proto.String("verifcyc"),
		EnumType: []*descriptorpb.EnumDescriptorProto{{
			Name:  proto.String("E"),
			Value: []*descriptorpb.EnumValueDescriptorProto{{Name: proto.String("E_ZERO"), Number: proto.Int32(0)}},
		}},
	})
	if err != nil {
		panic(err)
	}
	return protoimpl.X.CompressGZIP(b)
}()

type CycOuter[T any] struct {
	In  *CycInner[T] `protobuf:"bytes,1,opt,name=in,proto3"`
	E   CycEnum[T]   `protobuf:"varint,2,opt,name=e,proto3,enum=verifcyc.E"`
	F3  int64        `protobuf:"varint,3,opt,name=f3,proto3"`
	F4  int64        `protobuf:"varint,4,opt,name=f4,proto3"`
	F5  int64        `protobuf:"varint,5,opt,name=f5,proto3"`
	F6  int64        `protobuf:"varint,6,opt,name=f6,proto3"`
	F7  int64        `protobuf:"varint,7,opt,name=f7,proto3"`
	F8  int64        `protobuf:"varint,8,opt,name=f8,proto3"`
	F9  int64        `protobuf:"varint,9,opt,name=f9,proto3"`
	F10 int64        `protobuf:"varint,10,opt,name=f10,proto3"`
	F11 int64        `protobuf:"varint,11,opt,name=f11,proto3"`
	F12 int64        `protobuf:"varint,12,opt,name=f12,proto3"`
	F13 int64        `protobuf:"varint,13,opt,name=f13,proto3"`
	F14 int64        `protobuf:"varint,14,opt,name=f14,proto3"`
	F15 int64        `protobuf:"varint,15,opt,name=f15,proto3"`
	F16 int64        `protobuf:"varint,16,opt,name=f16,proto3"`
	F17 int64        `protobuf:"varint,17,opt,name=f17,proto3"`
	F18 int64        `protobuf:"varint,18,opt,name=f18,proto3"`
	F19 int64        `protobuf:"varint,19,opt,name=f19,proto3"`
	F20 int64        `protobuf:"varint,20,opt,name=f20,proto3"`
	F21 int64        `protobuf:"varint,21,opt,name=f21,proto3"`
	F22 int64        `protobuf:"varint,22,opt,name=f22,proto3"`
	F23 int64        `protobuf:"varint,23,opt,name=f23,proto3"`
	F24 int64        `protobuf:"varint,24,opt,name=f24,proto3"`
	F25 int64        `protobuf:"varint,25,opt,name=f25,proto3"`
	F26 int64        `protobuf:"varint,26,opt,name=f26,proto3"`
	F27 int64        `protobuf:"varint,27,opt,name=f27,proto3"`
	F28 int64        `protobuf:"varint,28,opt,name=f28,proto3"`
	F29 int64        `protobuf:"varint,29,opt,name=f29,proto3"`
	F30 int64        `protobuf:"varint,30,opt,name=f30,proto3"`
	F31 int64        `protobuf:"varint,31,opt,name=f31,proto3"`
	F32 int64        `protobuf:"varint,32,opt,name=f32,proto3"`
	F33 int64        `protobuf:"varint,33,opt,name=f33,proto3"`
	F34 int64        `protobuf:"varint,34,opt,name=f34,proto3"`
	F35 int64        `protobuf:"varint,35,opt,name=f35,proto3"`
	F36 int64        `protobuf:"varint,36,opt,name=f36,proto3"`
	F37 int64        `protobuf:"varint,37,opt,name=f37,proto3"`
	F38 int64        `protobuf:"varint,38,opt,name=f38,proto3"`
	F39 int64        `protobuf:"varint,39,opt,name=f39,proto3"`
	F40 int64        `protobuf:"varint,40,opt,name=f40,proto3"`
	F41 int64        `protobuf:"varint,41,opt,name=f41,proto3"`
	F42 int64        `protobuf:"varint,42,opt,name=f42,proto3"`
	F43 int64        `protobuf:"varint,43,opt,name=f43,proto3"`
	F44 int64        `protobuf:"varint,44,opt,name=f44,proto3"`
	F45 int64        `protobuf:"varint,45,opt,name=f45,proto3"`
	F46 int64        `protobuf:"varint,46,opt,name=f46,proto3"`
	F47 int64        `protobuf:"varint,47,opt,name=f47,proto3"`
	F48 int64        `protobuf:"varint,48,opt,name=f48,proto3"`
}

func (m *CycOuter[T]) Reset()         { *m = CycOuter[T]{} }
func (m *CycOuter[T]) String() string { return "CycOuter" }
func (m *CycOuter[T]) ProtoMessage()  {}

type CycInner[T any] struct {
	Out   *CycOuter[T] `protobuf:"bytes,1,opt,name=out,proto3"`
	Third *CycThird[T] `protobuf:"bytes,2,opt,name=third,proto3"`
}

func (m *CycInner[T]) Reset()         { *m = CycInner[T]{} }
func (m *CycInner[T]) String() string { return "CycInner" }
func (m *CycInner[T]) ProtoMessage()  {}

type CycThird[T any] struct {
	Back *CycOuter[T] `protobuf:"bytes,1,opt,name=back,proto3"`
	H2   string       `protobuf:"bytes,2,opt,name=h2,proto3"`
	H3   string       `protobuf:"bytes,3,opt,name=h3,proto3"`
	H4   string       `protobuf:"bytes,4,opt,name=h4,proto3"`
	H5   string       `protobuf:"bytes,5,opt,name=h5,proto3"`
	H6   string       `protobuf:"bytes,6,opt,name=h6,proto3"`
	H7   string       `protobuf:"bytes,7,opt,name=h7,proto3"`
	H8   string       `protobuf:"bytes,8,opt,name=h8,proto3"`
	H9   string       `protobuf:"bytes,9,opt,name=h9,proto3"`
	H10  string       `protobuf:"bytes,10,opt,name=h10,proto3"`
	H11  string       `protobuf:"bytes,11,opt,name=h11,proto3"`
	H12  string       `protobuf:"bytes,12,opt,name=h12,proto3"`
	H13  string       `protobuf:"bytes,13,opt,name=h13,proto3"`
	H14  string       `protobuf:"bytes,14,opt,name=h14,proto3"`
	H15  string       `protobuf:"bytes,15,opt,name=h15,proto3"`
	H16  string       `protobuf:"bytes,16,opt,name=h16,proto3"`
	H17  string       `protobuf:"bytes,17,opt,name=h17,proto3"`
	H18  string       `protobuf:"bytes,18,opt,name=h18,proto3"`
	H19  string       `protobuf:"bytes,19,opt,name=h19,proto3"`
	H20  string       `protobuf:"bytes,20,opt,name=h20,proto3"`
}

func (m *CycThird[T]) Reset()         { *m = CycThird[T]{} }
func (m *CycThird[T]) String() string { return "CycThird" }
func (m *CycThird[T]) ProtoMessage()  {}

// cycTriple: one fresh instantiation; members 0 = Outer, 1 = Inner, 2 = Third.
type cycTriple struct {
	types [3]reflect.Type
	news  [3]func() any
}

func mkCyc[T any]() cycTriple {
	return cycTriple{
		types: [3]reflect.Type{reflect.TypeOf((*CycOuter[T])(nil)), reflect.TypeOf((*CycInner[T])(nil)), reflect.TypeOf((*CycThird[T])(nil))},
		news:  [3]func() any{func() any { return new(CycOuter[T]) }, func() any { return new(CycInner[T]) }, func() any { return new(CycThird[T]) }},
	}
}

// every entry can be used for exactly one round per process
var cycTriples = []cycTriple{
	mkCyc[[0]byte](),
	mkCyc[[1]byte](),
	mkCyc[[2]byte](),
	mkCyc[[3]byte](),
	mkCyc[[4]byte](),
	mkCyc[[5]byte](),
	mkCyc[[6]byte](),
	mkCyc[[7]byte](),
	mkCyc[[8]byte](),
	mkCyc[[9]byte](),
	mkCyc[[10]byte](),
	mkCyc[[11]byte](),
	mkCyc[[12]byte](),
	mkCyc[[13]byte](),
	mkCyc[[14]byte](),
	mkCyc[[15]byte](),
	mkCyc[[16]byte](),
	mkCyc[[17]byte](),
	mkCyc[[18]byte](),
	mkCyc[[19]byte](),
	mkCyc[[20]byte](),
	mkCyc[[21]byte](),
	mkCyc[[22]byte](),
	mkCyc[[23]byte](),
	mkCyc[[24]byte](),
	mkCyc[[25]byte](),
	mkCyc[[26]byte](),
	mkCyc[[27]byte](),
	mkCyc[[28]byte](),
	mkCyc[[29]byte](),
	mkCyc[[30]byte](),
	mkCyc[[31]byte](),
	mkCyc[[32]byte](),
	mkCyc[[33]byte](),
	mkCyc[[34]byte](),
	mkCyc[[35]byte](),
	mkCyc[[36]byte](),
	mkCyc[[37]byte](),
	mkCyc[[38]byte](),
	mkCyc[[39]byte](),
	mkCyc[[40]byte](),
	mkCyc[[41]byte](),
	mkCyc[[42]byte](),
	mkCyc[[43]byte](),
}

var cycRoles = [3]string{"OUTER", "INNER", "THIRD"}

// cycWalk collects the three descriptors reachable from md (the descriptor of member `from`).
func cycWalk(md protoreflect.MessageDescriptor, from int) (mds [3]protoreflect.MessageDescriptor) {
	mds[from] = md
	follow := func(m protoreflect.MessageDescriptor, name protoreflect.Name) protoreflect.MessageDescriptor {
		if m == nil {
			return nil
		}
		fs := m.Fields()
		for i := 0; i < fs.Len(); i++ { // by iteration, not ByName: a lookup would freeze the lazily built tables
			if fs.Get(i).Name() == name {
				return fs.Get(i).Message()
			}
		}
		return nil
	}
	for pass := 0; pass < 3; pass++ {
		if mds[1] == nil {
			mds[1] = follow(mds[0], "in")
		}
		if mds[0] == nil {
			mds[0] = follow(mds[1], "out")
		}
		if mds[0] == nil {
			mds[0] = follow(mds[2], "back")
		}
		if mds[2] == nil {
			mds[2] = follow(mds[1], "third")
		}
	}
	return mds
}

// cycDigest: everything a user can see of the three descriptors, without their (instantiation
// dependent) full names.  The cheap, order-sensitive reads come first, the table lookups last.
func cycDigest(mds [3]protoreflect.MessageDescriptor) string {
	role := func(m protoreflect.MessageDescriptor) string {
		for r, x := range mds {
			if x != nil && x == m {
				return cycRoles[r]
			}
		}
		if m == nil {
			return "nil"
		}
		return "OTHER"
	}
	var sb strings.Builder
	for r, md := range mds {
		if md == nil {
			fmt.Fprintf(&sb, "%s: unreachable\n", cycRoles[r])
			continue
		}
		fs := md.Fields()
		n := fs.Len()
		fmt.Fprintf(&sb, "%s: %d fields syntax=%v", cycRoles[r], n, md.Syntax())
		for i := 0; i < n; i++ {
			fd := fs.Get(i)
			fmt.Fprintf(&sb, " [%s#%d %v %v", fd.Name(), fd.Number(), fd.Kind(), fd.Cardinality())
			if fd.Message() != nil {
				fmt.Fprintf(&sb, " msg=%s", role(fd.Message()))
			}
			if fd.Enum() != nil {
				fmt.Fprintf(&sb, " enum=%s/%d", fd.Enum().FullName(), fd.Enum().Values().Len())
			}
			fmt.Fprintf(&sb, " parent=%s idx=%d]", role(fd.ContainingMessage()), fd.Index())
		}
		for i := 0; i < n; i++ {
			fd := fs.Get(i)
			ok := fs.ByName(fd.Name()) == fd && fs.ByNumber(fd.Number()) == fd && fs.ByJSONName(fd.JSONName()) == fd && fs.ByTextName(fd.TextName()) == fd
			fmt.Fprintf(&sb, " %v", ok)
		}
		sb.WriteString("\n")
	}
	// the last field of OUTER must be usable by the text format
	fmt.Fprintf(&sb, "outer.f%d by name: %v\n", cycNumFields, mds[0] != nil && mds[0].Fields().ByName(protoreflect.Name(fmt.Sprintf("f%d", cycNumFields))) != nil)
	return sb.String()
}

func shortHash(s string) string {
	h := sha256.Sum256([]byte(s))
	return hex.EncodeToString(h[:6])
}

// firstUse makes first use of member `from` of triple t through one of the library's entry points.
func firstUse(t cycTriple, from, api int) protoreflect.MessageDescriptor {
	switch api % 3 {
	case 0:
		return impl.LegacyLoadMessageDesc(t.types[from])
	case 1:
		return protoimpl.X.ProtoMessageV2Of(t.news[from]()).ProtoReflect().Descriptor()
	default:
		return protoimpl.X.MessageTypeOf(t.news[from]()).Descriptor()
	}
}

// childCycle: rounds over the fresh triples; n goroutines per round.
func childCycle(res *childResult, n int, seed int64) {
	runtime.GOMAXPROCS(runtime.NumCPU())
	r := rand.New(rand.NewSource(seed))
	// the sequential observation, on an instantiation of its own
	seq := cycDigest(cycWalk(firstUse(cycTriples[0], 0, 0), 0))
	seqHash := shortHash(seq)
	fail := func(s string) {
		if len(res.Fails) < 6 {
			res.Fails = append(res.Fails, s)
		}
	}
	if !strings.Contains(seq, fmt.Sprintf("OUTER: %d fields", cycNumFields)) {
		fail("harness: the sequential digest does not show the complete Outer: " + seq[:min(len(seq), 200)])
	}
	for ti := 1; ti < len(cycTriples); ti++ {
		t := cycTriples[ti]
		forced := ti%2 == 1 && n > 1
		type obs struct {
			from, api int
			digest    string
			mds       [3]protoreflect.MessageDescriptor
			panic     string
		}
		out := make([]obs, n)
		var ready, wg, observers sync.WaitGroup
		var start int32
		release := make(chan struct{})
		var once sync.Once
		if forced {
			// the derivation of Outer calls CycEnum.EnumDescriptor after Inner and Third have been derived:
			// let the observers run exactly then (a correct library makes them wait for the lock; give up after 15 ms)
			cycEnumHook.Store(func() {
				once.Do(func() {
					close(release)
					if ti%4 == 3 {
						// no synchronisation back from the observers: the deriving goroutine's later writes are
						// then unordered with the observers' reads, which is what the race detector needs to see
						time.Sleep(3 * time.Millisecond)
						return
					}
					done := make(chan struct{})
					go func() { observers.Wait(); close(done) }()
					select {
					case <-done:
					case <-time.After(15 * time.Millisecond):
					}
				})
			})
		} else {
			cycEnumHook.Store(func() {})
			close(release)
		}
		ready.Add(n)
		wg.Add(n)
		for g := 0; g < n; g++ {
			from, api, spin := r.Intn(3), r.Intn(3), r.Intn(40)
			if g == 0 && (forced || r.Intn(2) == 0) {
				from = 0
			}
			if forced && g > 0 {
				from = 1 + r.Intn(2)
				observers.Add(1)
			}
			out[g].from, out[g].api = from, api
			go func(g, from, api, spin int) {
				defer wg.Done()
				if forced && g > 0 {
					defer observers.Done()
				}
				defer func() {
					if e := recover(); e != nil {
						out[g].panic = fmt.Sprint(e)
					}
				}()
				ready.Done()
				for atomic.LoadInt32(&start) == 0 {
					if n >= runtime.GOMAXPROCS(0) {
						runtime.Gosched()
					}
				}
				if forced && g > 0 {
					<-release
				} else if g > 0 {
					for t0 := time.Now(); time.Since(t0) < time.Duration(spin)*time.Microsecond; { // microsecond staggering
					}
				}
				md := firstUse(t, from, api)
				out[g].mds = cycWalk(md, from)
				out[g].digest = cycDigest(out[g].mds)
			}(g, from, api, spin)
		}
		ready.Wait()
		atomic.StoreInt32(&start, 1)
		wg.Wait()
		res.Rounds++
		mode := "stagger"
		if forced {
			mode = "forced"
		}
		res.Hist["cycle:"+mode]++
		for g := range out {
			res.Evals++
			what := fmt.Sprintf("cycle round %d (%s, %d goroutines): goroutine %d, first use of %s through entry point %d", ti, mode, n, g, cycRoles[out[g].from], out[g].api)
			if out[g].panic != "" {
				fail(what + " panicked: " + out[g].panic)
				continue
			}
			if out[g].digest != seq {
				fail(what + " observed other descriptors than the sequential program: " + firstDiff(seq, out[g].digest))
			}
			for role := 0; role < 3; role++ {
				if out[g].mds[role] != out[0].mds[role] {
					fail(what + " obtained a different descriptor object for " + cycRoles[role] + " than goroutine 0")
				}
			}
		}
		// afterwards the types must be fully usable by everybody (lookup tables not frozen on a partial field list)
		in := t.news[1]()
		if err := (prototext.UnmarshalOptions{}).Unmarshal([]byte(fmt.Sprintf("out:{f%d:7 in:{third:{h20:\"x\"}}}", cycNumFields)), protoimpl.X.ProtoMessageV2Of(in)); err != nil {
			fail(fmt.Sprintf("cycle round %d (%s): prototext.Unmarshal into Inner after the concurrent first use: %v", ti, mode, err))
		}
	}
	cycEnumHook.Store(func() {})
	res.Digests = make([]string, n)
	for i := range res.Digests {
		res.Digests[i] = seqHash
	}
	var ks []string
	ks = append(ks, seqHash, "sequential="+seqHash)
	sort.Strings(ks[1:])
	res.Detail = []string{strings.Join(ks, "\x00")}
}

// firstDiff shows where two digests differ.
func firstDiff(want, got string) string {
	wl, gl := strings.Split(want, "\n"), strings.Split(got, "\n")
	for i := range wl {
		if i >= len(gl) {
			return "missing line: " + wl[i][:min(len(wl[i]), 120)]
		}
		if wl[i] != gl[i] {
			w, g := wl[i], gl[i]
			return fmt.Sprintf("line %d: got %q…, sequential %q…", i+1, g[:min(len(g), 90)], w[:min(len(w), 90)])
		}
	}
	return "extra lines"
}
