// conc harness: C18 (concurrent readers of a lazily decoded message) and C19 (concurrent first use
// of types, descriptors, legacy wrappers and the global registries).
//
// The same binary runs in several roles:
//
//	parent   started by bin/check (vh.Main): in-process concurrency rounds (C18), spawns children
//	child    VERIF_CONC_CHILD=<mode>:… — a fresh process; prints one JSON line on stdout:
//	         c19:<scenario>:<n>:<seed>   concurrent first use, one digest per goroutine
//	         c18:<seed>:<rounds>          the C18 rounds (used for the -race build)
//	         c18trace:<seed>:<rounds>     C18 getter rounds with the event hooks on; prints traces
//	         c19trace:<scenario>:<n>:<seed>  c19 with the event hooks on; prints init traces
//
// The race-detector build (bin/build-conc-race → .work/bin/h_conc_race) and the hooked build
// (tag verifhooks, only when /repo contains internal/verifhook, see fixes/hook-conc.diff) are the
// same sources.
package main

import (
	"bytes"
	"encoding/json"
	"fmt"
	"os"
	"os/exec"
	"path/filepath"
	"runtime/pprof"
	"strconv"
	"strings"
	"time"

	vh "google.golang.org/protobuf/internal/zz_verif_vh"
)

type C = vh.Ctx

func main() {
	if spec := os.Getenv("VERIF_CONC_CHILD"); spec != "" {
		if pf := os.Getenv("VERIF_CONC_PROF"); pf != "" {
			if f, err := os.Create(pf); err == nil {
				pprof.StartCPUProfile(f)
				rc := childMain(spec)
				pprof.StopCPUProfile()
				f.Close()
				os.Exit(rc)
			}
		}
		os.Exit(childMain(spec))
	}
	vh.Main("conc", run)
}

func run(c *C) {
	switch c.Prop {
	case "C18":
		runC18(c)
	case "C19":
		runC19(c)
	default:
		panic("conc harness: unknown property " + c.Prop)
	}
}

// ---------------------------------------------------------------------------- children

type childResult struct {
	Mode    string         `json:"mode"`
	N       int            `json:"n"`
	Seed    int64          `json:"seed"`
	Digests []string       `json:"digests,omitempty"` // c19: one per goroutine
	Detail  []string       `json:"detail,omitempty"`  // c19: first differing items (diagnostics)
	Fails   []string       `json:"fails,omitempty"`   // property failures seen inside the child
	Rounds  int            `json:"rounds,omitempty"`  // c18
	Evals   int            `json:"evals,omitempty"`   // c18
	Traces  [][]string     `json:"traces,omitempty"`  // model request lines (hooked builds)
	Hooks   bool           `json:"hooks"`             // built with the event hooks
	Entry   bool           `json:"hook_entry"`        // … including verifhook.LazyEntry (per index entry)
	Notes   []string       `json:"notes,omitempty"`
	Hist    map[string]int `json:"hist,omitempty"`
}

func childMain(spec string) int {
	parts := strings.Split(spec, ":")
	res := &childResult{Mode: parts[0], Hooks: hooksAvailable, Entry: hookHasEntry, Hist: map[string]int{}}
	atoi := func(i int) int64 {
		if i >= len(parts) {
			return 0
		}
		v, _ := strconv.ParseInt(parts[i], 10, 64)
		return v
	}
	func() {
		defer func() {
			if e := recover(); e != nil {
				res.Fails = append(res.Fails, fmt.Sprintf("panic in child: %v", e))
			}
		}()
		switch parts[0] {
		case "c19", "c19trace":
			res.N, res.Seed = int(atoi(2)), atoi(3)
			childC19(res, parts[1], res.N, res.Seed, parts[0] == "c19trace")
		case "c18":
			res.Seed = atoi(1)
			childC18(res, res.Seed, int(atoi(2)))
		case "c18trace":
			res.Seed = atoi(1)
			childC18Trace(res, res.Seed, int(atoi(2)))
		default:
			res.Fails = append(res.Fails, "unknown child mode "+spec)
		}
	}()
	data, _ := json.Marshal(res)
	os.Stdout.Write(append(data, '\n'))
	return 0
}

// runChild runs bin (this binary, or the race / hooked build of it) as a fresh process.
func runChild(bin, spec string, timeout time.Duration) (*childResult, string, error) {
	cmd := exec.Command(bin)
	cmd.Env = append(os.Environ(), "VERIF_CONC_CHILD="+spec, "GORACE=halt_on_error=0 exitcode=66 history_size=2")
	var out, errb bytes.Buffer
	cmd.Stdout, cmd.Stderr = &out, &errb
	if err := cmd.Start(); err != nil {
		return nil, "", err
	}
	done := make(chan error, 1)
	go func() { done <- cmd.Wait() }()
	var err error
	select {
	case err = <-done:
	case <-time.After(timeout):
		cmd.Process.Kill()
		err = fmt.Errorf("child timed out after %v (deadlock?)", timeout)
	}
	stderr := errb.String()
	var res childResult
	line := strings.TrimSpace(out.String())
	if i := strings.LastIndexByte(line, '\n'); i >= 0 {
		line = line[i+1:]
	}
	if jerr := json.Unmarshal([]byte(line), &res); jerr != nil {
		if err == nil {
			err = fmt.Errorf("child printed no result: %v", jerr)
		}
		return nil, stderr, err
	}
	return &res, stderr, err
}

func tail(s string, n int) string {
	if len(s) > n {
		return "…" + s[len(s)-n:]
	}
	return s
}

// raceReport extracts the first data-race report of a -race child's stderr.
func raceReport(stderr string) string {
	i := strings.Index(stderr, "WARNING: DATA RACE")
	if i < 0 {
		return ""
	}
	r := stderr[i:]
	if j := strings.Index(r[1:], "=================="); j >= 0 {
		r = r[:j+1]
	}
	if len(r) > 1800 {
		r = r[:1800] + "…"
	}
	return r
}

// variantBuilds asks bin/build-conc-race for the -race build and (when the hook package exists in
// the tree) the hooked build of this harness.
type variants struct {
	Race      string `json:"race"`
	RaceError string `json:"race_error"`
	Hooks     string `json:"hooks"`
	HooksErr  string `json:"hooks_error"`
	HookPkg   bool   `json:"hook_package_present"`
}

func buildVariants(c *C) variants {
	var v variants
	if p := os.Getenv("VERIF_RACE_BIN"); p != "" {
		v.Race = p
		v.Hooks = os.Getenv("VERIF_HOOKS_BIN")
		return v
	}
	dir := os.Getenv("VERIF_DIR")
	if dir == "" {
		dir = "/verif"
	}
	cmd := exec.Command(filepath.Join(dir, "bin", "build-conc-race"))
	cmd.Env = os.Environ()
	var out, errb bytes.Buffer
	cmd.Stdout, cmd.Stderr = &out, &errb
	if err := cmd.Run(); err != nil {
		v.RaceError = "bin/build-conc-race failed: " + err.Error() + " " + tail(errb.String(), 300)
		return v
	}
	if err := json.Unmarshal(out.Bytes(), &v); err != nil {
		v.RaceError = "bin/build-conc-race printed no JSON: " + tail(out.String(), 200)
	}
	return v
}

func self() string {
	p, err := os.Executable()
	if err != nil {
		return os.Args[0]
	}
	return p
}
