// defval harness: C39 — textual default values round-trip exactly.
//
// Implementation under test (called in-process): internal/encoding/defval (Marshal, Unmarshal, both formats),
// reflect/protodesc (NewFile -> FieldDescriptor.Default -> ToFileDescriptorProto: the glue around it), and —
// because the Lean model takes them as parameters or carries its own copy — strconv (FormatFloat/ParseFloat,
// the FloatCodec laws) and the float32<->float64 conversions.
//
// Streams (all derived from c.Rand):
//   ints      every integer kind, both formats: every boundary ±2, random values of random bit length
//   inttext   what Unmarshal accepts: signs, prefixes, underscores, blanks, overflow boundaries, mutations
//   bool/str  both formats
//   bytes     ALL single bytes and ALL byte pairs; random strings (C0/C1, quotes, backslashes, digits after
//             low bytes, invalid and valid UTF-8); arbitrary escape text through Unmarshal (model vs impl)
//   enums     every enum registered by the imported test protos (negative numbers, aliases) and synthetic ones
//   float64   boundary and random bit patterns; float32: boundary + random (+ ALL 2^32 in the thorough tier)
//   convert   widen/narrow of the model against Go's conversions
//   glue      FileDescriptorProto{default_value} -> NewFile -> Default -> ToFileDescriptorProto -> NewFile
package main

import (
	"encoding/json"
	"fmt"
	"math"
	"sort"
	"strconv"
	"strings"
	"sync"

	_ "google.golang.org/protobuf/cmd/protoc-gen-go/testdata/proto2"
	"google.golang.org/protobuf/internal/encoding/defval"
	_ "google.golang.org/protobuf/internal/testprotos/enums"
	_ "google.golang.org/protobuf/internal/testprotos/test"
	_ "google.golang.org/protobuf/internal/testprotos/test3"
	_ "google.golang.org/protobuf/internal/testprotos/testeditions"
	"google.golang.org/protobuf/internal/zz_verif_vh"
	"google.golang.org/protobuf/proto"
	"google.golang.org/protobuf/reflect/protodesc"
	"google.golang.org/protobuf/reflect/protoreflect"
	"google.golang.org/protobuf/reflect/protoregistry"
	"google.golang.org/protobuf/types/descriptorpb"
	_ "google.golang.org/protobuf/types/pluginpb"
)

type C = vh.Ctx

func main() { vh.Main("defval", run) }

func run(c *C) {
	switch c.Prop {
	case "C39":
		runC39(c)
	default:
		panic("defval harness: unknown property " + c.Prop)
	}
}

var scalarKinds = []protoreflect.Kind{
	protoreflect.BoolKind, protoreflect.EnumKind, protoreflect.Int32Kind, protoreflect.Sint32Kind,
	protoreflect.Uint32Kind, protoreflect.Int64Kind, protoreflect.Sint64Kind, protoreflect.Uint64Kind,
	protoreflect.Sfixed32Kind, protoreflect.Fixed32Kind, protoreflect.FloatKind, protoreflect.Sfixed64Kind,
	protoreflect.Fixed64Kind, protoreflect.DoubleKind, protoreflect.StringKind, protoreflect.BytesKind,
}

func kindByName(s string) protoreflect.Kind {
	for _, k := range append(scalarKinds, protoreflect.MessageKind, protoreflect.GroupKind) {
		if k.String() == s {
			return k
		}
	}
	panic("unknown kind " + s)
}

func fmtName(f defval.Format) string {
	if f == defval.GoTag {
		return "G"
	}
	return "D"
}
func fmtByName(s string) defval.Format {
	if s == "G" {
		return defval.GoTag
	}
	return defval.Descriptor
}

var formats = []defval.Format{defval.Descriptor, defval.GoTag}

// ---------------------------------------------------------------- value <-> canonical string

func isInt32Kind(k protoreflect.Kind) bool {
	return k == protoreflect.Int32Kind || k == protoreflect.Sint32Kind || k == protoreflect.Sfixed32Kind
}
func isInt64Kind(k protoreflect.Kind) bool {
	return k == protoreflect.Int64Kind || k == protoreflect.Sint64Kind || k == protoreflect.Sfixed64Kind
}
func isUint32Kind(k protoreflect.Kind) bool {
	return k == protoreflect.Uint32Kind || k == protoreflect.Fixed32Kind
}
func isUint64Kind(k protoreflect.Kind) bool {
	return k == protoreflect.Uint64Kind || k == protoreflect.Fixed64Kind
}

// valStr renders a value by the Go type it holds; NaNs are canonicalised (all NaNs equal).
func valStr(v protoreflect.Value) string {
	switch x := v.Interface().(type) {
	case bool:
		if x {
			return "b:1"
		}
		return "b:0"
	case int32:
		return fmt.Sprintf("i32:%d", x)
	case int64:
		return fmt.Sprintf("i64:%d", x)
	case uint32:
		return fmt.Sprintf("u32:%d", x)
	case uint64:
		return fmt.Sprintf("u64:%d", x)
	case float32:
		if x != x {
			return "f32:nan"
		}
		return fmt.Sprintf("f32:%08x", math.Float32bits(x))
	case float64:
		if x != x {
			return "f64:nan"
		}
		return fmt.Sprintf("f64:%016x", math.Float64bits(x))
	case string:
		return "s:" + vh.Hex([]byte(x))
	case []byte:
		return "y:" + vh.Hex(x)
	case protoreflect.EnumNumber:
		return fmt.Sprintf("e:%d", x)
	}
	return fmt.Sprintf("?:%T", v.Interface())
}

// rawValStr is valStr without NaN canonicalisation (request to the model, replay input).
func rawValStr(v protoreflect.Value) string {
	switch x := v.Interface().(type) {
	case float32:
		return fmt.Sprintf("f32:%08x", math.Float32bits(x))
	case float64:
		return fmt.Sprintf("f64:%016x", math.Float64bits(x))
	}
	return valStr(v)
}

func parseVal(s string) protoreflect.Value {
	i := strings.IndexByte(s, ':')
	tag, body := s[:i], s[i+1:]
	switch tag {
	case "b":
		return protoreflect.ValueOfBool(body == "1")
	case "i32":
		n, _ := strconv.ParseInt(body, 10, 32)
		return protoreflect.ValueOfInt32(int32(n))
	case "i64":
		n, _ := strconv.ParseInt(body, 10, 64)
		return protoreflect.ValueOfInt64(n)
	case "u32":
		n, _ := strconv.ParseUint(body, 10, 32)
		return protoreflect.ValueOfUint32(uint32(n))
	case "u64":
		n, _ := strconv.ParseUint(body, 10, 64)
		return protoreflect.ValueOfUint64(n)
	case "f32":
		n, _ := strconv.ParseUint(body, 16, 32)
		return protoreflect.ValueOfFloat32(math.Float32frombits(uint32(n)))
	case "f64":
		n, _ := strconv.ParseUint(body, 16, 64)
		return protoreflect.ValueOfFloat64(math.Float64frombits(n))
	case "s":
		return protoreflect.ValueOfString(string(vh.UnHex(body)))
	case "y":
		return protoreflect.ValueOfBytes(vh.UnHex(body))
	case "e":
		n, _ := strconv.ParseInt(body, 10, 32)
		return protoreflect.ValueOfEnum(protoreflect.EnumNumber(n))
	}
	panic("bad value " + s)
}

func evStr(ev protoreflect.EnumValueDescriptor) string {
	if ev == nil {
		return "_"
	}
	return fmt.Sprintf("%s:%d", vh.Hex([]byte(ev.Name())), ev.Number())
}

func evsStr(evs protoreflect.EnumValueDescriptors) string {
	if evs == nil || evs.Len() == 0 {
		return "_"
	}
	var sb strings.Builder
	for i := 0; i < evs.Len(); i++ {
		if i > 0 {
			sb.WriteByte(',')
		}
		sb.WriteString(evStr(evs.Get(i)))
	}
	return sb.String()
}

// ---------------------------------------------------------------- implementation wrappers

func implMarshal(v protoreflect.Value, ev protoreflect.EnumValueDescriptor, k protoreflect.Kind, f defval.Format) (res string, text string, ok bool) {
	defer func() {
		if e := recover(); e != nil {
			res, ok = fmt.Sprint("panic: ", e), false
		}
	}()
	s, err := defval.Marshal(v, ev, k, f)
	if err != nil {
		return "err", "", false
	}
	return "ok " + vh.Hex([]byte(s)), s, true
}

func implUnmarshal(s string, k protoreflect.Kind, evs protoreflect.EnumValueDescriptors, f defval.Format) (res string, v protoreflect.Value, ev protoreflect.EnumValueDescriptor, ok bool) {
	defer func() {
		if e := recover(); e != nil {
			res, ok = fmt.Sprint("panic: ", e), false
		}
	}()
	v, ev, err := defval.Unmarshal(s, k, evs, f)
	if err != nil {
		return "err", v, nil, false
	}
	return "ok " + valStr(v) + " " + evStr(ev), v, ev, true
}

// strconv results handed to the model as its FloatCodec
func fmtFloatFor(k protoreflect.Kind, v protoreflect.Value) string {
	switch k {
	case protoreflect.FloatKind:
		if f, ok := v.Interface().(float32); ok {
			return vh.Hex([]byte(strconv.FormatFloat(float64(f), 'g', -1, 32)))
		}
	case protoreflect.DoubleKind:
		if f, ok := v.Interface().(float64); ok {
			return vh.Hex([]byte(strconv.FormatFloat(f, 'g', -1, 64)))
		}
	}
	return "-"
}

func parse64For(k protoreflect.Kind, s string) string {
	if k != protoreflect.FloatKind && k != protoreflect.DoubleKind {
		return "_"
	}
	v, err := strconv.ParseFloat(s, 64)
	if err != nil {
		return "_"
	}
	return fmt.Sprintf("%016x", math.Float64bits(v))
}

// parse32For: the float64 that `v, _ = strconv.ParseFloat(s, 32)` leaves in v (the code discards the error).
func parse32For(k protoreflect.Kind, s string) string {
	if k != protoreflect.FloatKind {
		return "_"
	}
	v, _ := strconv.ParseFloat(s, 32)
	return fmt.Sprintf("%016x", math.Float64bits(v))
}

// ---------------------------------------------------------------- the round trip

type rtIn struct {
	Op   string `json:"op"`
	Kind string `json:"kind,omitempty"`
	Fmt  string `json:"fmt,omitempty"`
	Val  string `json:"val,omitempty"`
	Enum string `json:"enum,omitempty"` // full name of the enum (registry or synthetic "synth.<n>")
	Name string `json:"name,omitempty"` // enum value name
	Text string `json:"text,omitempty"` // hex
}

func isZero(v protoreflect.Value) bool {
	switch x := v.Interface().(type) {
	case bool:
		return !x
	case int32:
		return x == 0
	case int64:
		return x == 0
	case uint32:
		return x == 0
	case uint64:
		return x == 0
	case float32:
		return math.Float32bits(x) == 0
	case float64:
		return math.Float64bits(x) == 0
	case string:
		return x == ""
	case []byte:
		return len(x) == 0
	case protoreflect.EnumNumber:
		return x == 0
	}
	return false
}

// roundTrip: Marshal -> Unmarshal on the implementation (property), and the same two steps on the model.
// wantEv is the enum value descriptor expected back (nil for non-enums).
func roundTrip(c *C, k protoreflect.Kind, f defval.Format, v protoreflect.Value, ev protoreflect.EnumValueDescriptor,
	ed protoreflect.EnumDescriptor, model bool) {
	in := rtIn{Op: "rt", Kind: k.String(), Fmt: fmtName(f), Val: rawValStr(v)}
	var evs protoreflect.EnumValueDescriptors
	if ed != nil {
		in.Enum, in.Name = string(ed.FullName()), string(ev.Name())
		evs = ed.Values()
	}
	const sig = "" // no known findings: every failure is reported
	mres, text, ok := implMarshal(v, ev, k, f)
	if !c.Check(ok, "Marshal failed on a well-typed value: "+mres, in, "") {
		c.Case("", false)
		return
	}
	ures, v2, ev2, ok := implUnmarshal(text, k, evs, f)
	c.Case(in.Kind+in.Fmt+in.Val+in.Name, ok && !isZero(v))
	c.Hist("rt:" + in.Kind)
	if c.Check(ok, fmt.Sprintf("Unmarshal rejects Marshal's own text %q", text), in, sig) {
		same := valStr(v) == valStr(v2)
		c.Check(same, fmt.Sprintf("Unmarshal(Marshal(v)) != v: text %q, got %s want %s", text, valStr(v2), valStr(v)), in, sig)
		if ed != nil {
			// Descriptor format: the very value descriptor (by name); GoTag: the first value with that number
			want := ev
			if f == defval.GoTag {
				want = evs.ByNumber(ev.Number())
			}
			c.Check(ev2 != nil && want != nil && ev2.Name() == want.Name() && ev2.Number() == ev.Number(),
				fmt.Sprintf("enum value descriptor does not round-trip: got %s want %s", evStr(ev2), evStr(want)), in, "")
		} else {
			c.Check(ev2 == nil, "non-enum Unmarshal returned an enum value descriptor", in, "")
		}
	}
	if model && c.HasModel() {
		mm := c.Ask("marshal %s %s %s %s %s", in.Fmt, in.Kind, in.Val, evStr(ev), fmtFloatFor(k, v))
		c.Compare("Marshal: model vs implementation", in, mres, mm)
		mu := c.Ask("unmarshal %s %s %s %s %s %s", in.Fmt, in.Kind, vh.Hex([]byte(text)), evsStr(evs), parse64For(k, text), parse32For(k, text))
		c.Compare("Unmarshal(Marshal): model vs implementation", in, ures, mu)
	}
}

// unmarshalText: arbitrary text through Unmarshal, implementation vs model.
func unmarshalText(c *C, k protoreflect.Kind, f defval.Format, text string, ed protoreflect.EnumDescriptor) {
	in := rtIn{Op: "unm", Kind: k.String(), Fmt: fmtName(f), Text: vh.Hex([]byte(text))}
	var evs protoreflect.EnumValueDescriptors
	if ed != nil {
		in.Enum = string(ed.FullName())
		evs = ed.Values()
	} else if k == protoreflect.EnumKind {
		return // Unmarshal's contract requires a value list for enums
	}
	ures, _, _, ok := implUnmarshal(text, k, evs, f)
	c.Check(!strings.HasPrefix(ures, "panic"), "Unmarshal panics: "+ures, in, "")
	c.Case("unm"+in.Kind+in.Fmt+in.Text, ok)
	if ok {
		c.Hist("unm-ok:" + in.Kind)
	} else {
		c.Hist("unm-err:" + in.Kind)
	}
	if c.HasModel() {
		mu := c.Ask("unmarshal %s %s %s %s %s %s", in.Fmt, in.Kind, in.Text, evsStr(evs), parse64For(k, text), parse32For(k, text))
		if k == protoreflect.BytesKind && mu == "err" {
			// the model's unmarshal maps `unsupported` (\u, \U escapes) to err: ask the parser itself
			if c.Ask("unmarshalBytes %s", in.Text) == "unsupported" {
				c.Hist("unm-model-unsupported")
				return
			}
		}
		c.Compare("Unmarshal(text): model vs implementation", in, ures, mu)
	}
}

// ---------------------------------------------------------------- enums

var synthEnums = map[string]protoreflect.EnumDescriptor{}
var synthList []protoreflect.EnumDescriptor

func findEnum(name string) protoreflect.EnumDescriptor {
	if ed, ok := synthEnums[name]; ok {
		return ed
	}
	d, err := protoregistry.GlobalFiles.FindDescriptorByName(protoreflect.FullName(name))
	if err != nil {
		return nil
	}
	ed, _ := d.(protoreflect.EnumDescriptor)
	return ed
}

func allEnums() []protoreflect.EnumDescriptor {
	var out []protoreflect.EnumDescriptor
	var walkM func(ms protoreflect.MessageDescriptors)
	addE := func(es protoreflect.EnumDescriptors) {
		for i := 0; i < es.Len(); i++ {
			out = append(out, es.Get(i))
		}
	}
	walkM = func(ms protoreflect.MessageDescriptors) {
		for i := 0; i < ms.Len(); i++ {
			addE(ms.Get(i).Enums())
			walkM(ms.Get(i).Messages())
		}
	}
	protoregistry.GlobalFiles.RangeFiles(func(fd protoreflect.FileDescriptor) bool {
		addE(fd.Enums())
		walkM(fd.Messages())
		return true
	})
	sort.Slice(out, func(i, j int) bool { return out[i].FullName() < out[j].FullName() })
	return out
}

// makeSynthEnums builds enums through protodesc.NewFile: aliases, negative numbers, int32 limits.
func makeSynthEnums(c *C) []protoreflect.EnumDescriptor {
	if synthList != nil {
		return synthList
	}
	specs := [][]struct {
		n string
		v int32
	}{
		{{"A", 0}, {"B", -1}, {"C", 0}, {"D", math.MaxInt32}, {"E", math.MinInt32}, {"F", -1}},
		{{"ZERO", 0}, {"one", 1}, {"One", 1}, {"ONE", 1}, {"inf", 7}, {"nan", 8}, {"true", 9}},
		{{"X0", 5}, {"X1", 4}, {"X2", 3}, {"X3", 4}, {"X4", -2147483647}, {"X5", 2147483646}},
	}
	var out []protoreflect.EnumDescriptor
	for i, spec := range specs {
		ed := &descriptorpb.EnumDescriptorProto{Name: proto.String("SynthEnum"), Options: &descriptorpb.EnumOptions{AllowAlias: proto.Bool(true)}}
		for _, s := range spec {
			ed.Value = append(ed.Value, &descriptorpb.EnumValueDescriptorProto{Name: proto.String(s.n), Number: proto.Int32(s.v)})
		}
		fdp := &descriptorpb.FileDescriptorProto{
			Name: proto.String(fmt.Sprintf("synth%d.proto", i)), Package: proto.String(fmt.Sprintf("synth%d", i)),
			Syntax: proto.String("proto2"), EnumType: []*descriptorpb.EnumDescriptorProto{ed},
		}
		fd, err := protodesc.NewFile(fdp, nil)
		if !c.Check(err == nil, fmt.Sprint("protodesc.NewFile rejects a synthetic enum file: ", err), rtIn{Op: "synth"}, "") {
			continue
		}
		e := fd.Enums().Get(0)
		synthEnums[string(e.FullName())] = e
		out = append(out, e)
	}
	synthList = out
	return out
}

func runEnums(c *C) {
	enums := append(makeSynthEnums(c), allEnums()...)
	c.Hist(fmt.Sprintf("enums-visited=%d", len(enums)))
	nvals, neg, alias := 0, 0, 0
	for _, ed := range enums {
		evs := ed.Values()
		seen := map[protoreflect.EnumNumber]bool{}
		for i := 0; i < evs.Len(); i++ {
			ev := evs.Get(i)
			nvals++
			if ev.Number() < 0 {
				neg++
			}
			if seen[ev.Number()] {
				alias++
			}
			seen[ev.Number()] = true
			for _, f := range formats {
				roundTrip(c, protoreflect.EnumKind, f, protoreflect.ValueOfEnum(ev.Number()), ev, ed, true)
			}
			if c.Failed() {
				return
			}
		}
		// look-ups that must fail or hit: names/numbers around the declared ones
		texts := []string{"", "0", "-1", "1", "+1", "01", "2147483647", "-2147483648", "2147483648", "0x1", "NOPE", " A", "A ", "a"}
		for i := 0; i < evs.Len() && i < 4; i++ {
			ev := evs.Get(i)
			texts = append(texts, string(ev.Name()), strings.ToLower(string(ev.Name())), string(ev.Name())+"_", fmt.Sprint(ev.Number()), fmt.Sprint(int64(ev.Number())+1))
		}
		for _, t := range texts {
			for _, f := range formats {
				unmarshalText(c, protoreflect.EnumKind, f, t, ed)
			}
		}
	}
	c.Hist(fmt.Sprintf("enum-values=%d negative=%d aliases=%d", nvals, neg, alias))
}

// ---------------------------------------------------------------- integers

func intValue(k protoreflect.Kind, x uint64) protoreflect.Value {
	switch {
	case isInt32Kind(k):
		return protoreflect.ValueOfInt32(int32(x))
	case isInt64Kind(k):
		return protoreflect.ValueOfInt64(int64(x))
	case isUint32Kind(k):
		return protoreflect.ValueOfUint32(uint32(x))
	default:
		return protoreflect.ValueOfUint64(x)
	}
}

var intKinds = []protoreflect.Kind{
	protoreflect.Int32Kind, protoreflect.Sint32Kind, protoreflect.Sfixed32Kind, protoreflect.Int64Kind, protoreflect.Sint64Kind,
	protoreflect.Sfixed64Kind, protoreflect.Uint32Kind, protoreflect.Fixed32Kind, protoreflect.Uint64Kind, protoreflect.Fixed64Kind,
}

// boundaries: ±(2^k) ± {0,1,2} for every k, powers of ten ± {0,1,2}, as 64-bit patterns (truncated per kind).
func intBoundaries() []uint64 {
	set := map[uint64]bool{}
	add := func(x uint64) {
		for d := uint64(0); d <= 2; d++ {
			set[x+d], set[x-d], set[-x+d], set[-x-d] = true, true, true, true
		}
	}
	add(0)
	for k := 0; k < 64; k++ {
		add(uint64(1) << uint(k))
	}
	p := uint64(1)
	for i := 0; i < 20; i++ {
		add(p)
		p *= 10
	}
	out := make([]uint64, 0, len(set))
	for x := range set {
		out = append(out, x)
	}
	sort.Slice(out, func(i, j int) bool { return out[i] < out[j] })
	return out
}

func randBits(c *C) uint64 {
	x := c.Rand.Uint64()
	switch c.Rand.Intn(4) {
	case 0:
		return x
	case 1:
		return x >> uint(c.Rand.Intn(64)) // random bit length
	case 2:
		return -(x >> uint(c.Rand.Intn(64))) // negative of a random bit length
	default:
		return uint64(int64(int32(x))) // sign-extended 32-bit
	}
}

func runInts(c *C) {
	bs := intBoundaries()
	for _, k := range intKinds {
		for _, x := range bs {
			for _, f := range formats {
				roundTrip(c, k, f, intValue(k, x), nil, nil, true)
			}
		}
		c.Hist("int-boundaries:" + k.String())
		if c.Failed() {
			return
		}
	}
	n := c.N(100000, 10000000)
	nm := c.N(4000, 40000)
	for i := 0; i < n; i++ {
		k := intKinds[c.Rand.Intn(len(intKinds))]
		f := formats[c.Rand.Intn(2)]
		roundTrip(c, k, f, intValue(k, randBits(c)), nil, nil, i < nm)
		if i&1023 == 0 && c.Failed() {
			return
		}
	}
	// the primitive forms of the model against strconv
	for i := 0; i < c.N(2000, 20000) && c.HasModel(); i++ {
		x := randBits(c)
		if i < len(bs) {
			x = bs[i]
		}
		in := rtIn{Op: "fmtint", Val: fmt.Sprint(x)}
		c.Compare("formatUint vs strconv.FormatUint", in, vh.Hex([]byte(strconv.FormatUint(x, 10))), c.Ask("formatUint %d", x))
		c.Compare("formatInt vs strconv.FormatInt", in, vh.Hex([]byte(strconv.FormatInt(int64(x), 10))), c.Ask("formatInt %d", int64(x)))
	}
}

func intTexts(c *C) []string {
	fixed := []string{
		"", "+", "-", "+5", "-5", "-0", "+0", "0", "00", "00012", "-00012", "0x10", "0X1F", "-0x1", "010", "0b1", "0o7", "1_000", "_1", "1_",
		" 1", "1 ", "1\n", "\t1", "1e3", "1.0", "1.", ".1", "-+1", "+-1", "--1", "++1", "1-", "1+", "٣", "１", "0x", "x", "a", "true", "false",
		"127", "128", "255", "256", "32767", "32768", "65535", "65536",
		"2147483646", "2147483647", "2147483648", "2147483649", "-2147483647", "-2147483648", "-2147483649", "+2147483647", "+2147483648",
		"4294967294", "4294967295", "4294967296", "4294967297", "-4294967295", "+4294967295",
		"9223372036854775806", "9223372036854775807", "9223372036854775808", "9223372036854775809",
		"-9223372036854775807", "-9223372036854775808", "-9223372036854775809", "+9223372036854775807", "+9223372036854775808",
		"18446744073709551614", "18446744073709551615", "18446744073709551616", "18446744073709551617", "+18446744073709551615", "-18446744073709551615",
		"99999999999999999999", "-99999999999999999999", "340282366920938463463374607431768211456", "-340282366920938463463374607431768211456",
		"0000000000000000000000000000000000000000002147483647", "0000000000000000000000000000000000000000002147483648",
		"-000000000000000000000000000000000009223372036854775808", "000000000000000000000000000000018446744073709551615",
		"1\x00", "\x001", "1\xff",
	}
	out := append([]string{}, fixed...)
	muts := []byte("+-_0123456789xXbo eE.,\x00\xff")
	for i := 0; i < c.N(3000, 60000); i++ {
		var s string
		if c.Rand.Intn(2) == 0 {
			s = strconv.FormatInt(int64(randBits(c)), 10)
		} else {
			s = strconv.FormatUint(randBits(c), 10)
		}
		b := []byte(s)
		for m := c.Rand.Intn(3); m > 0 && len(b) > 0; m-- {
			p := c.Rand.Intn(len(b) + 1)
			switch c.Rand.Intn(3) {
			case 0: // insert
				b = append(b[:p], append([]byte{muts[c.Rand.Intn(len(muts))]}, b[p:]...)...)
			case 1: // replace
				if p < len(b) {
					b[p] = muts[c.Rand.Intn(len(muts))]
				}
			default: // delete
				if p < len(b) {
					b = append(b[:p], b[p+1:]...)
				}
			}
		}
		out = append(out, string(b))
	}
	return out
}

func runIntTexts(c *C, anyEnum protoreflect.EnumDescriptor) {
	texts := intTexts(c)
	for i, t := range texts {
		if i < 120 { // the fixed list: every integer kind, bool, and the numeric enum form
			for _, k := range intKinds {
				unmarshalText(c, k, formats[i%2], t, nil)
			}
			for _, f := range formats {
				unmarshalText(c, protoreflect.BoolKind, f, t, nil)
				unmarshalText(c, protoreflect.EnumKind, f, t, anyEnum)
			}
			unmarshalText(c, protoreflect.MessageKind, defval.Descriptor, t, nil)
			unmarshalText(c, protoreflect.GroupKind, defval.GoTag, t, nil)
		} else {
			k := intKinds[c.Rand.Intn(len(intKinds))]
			unmarshalText(c, k, formats[c.Rand.Intn(2)], t, nil)
		}
		if c.Failed() {
			return
		}
	}
	if c.HasModel() {
		for _, t := range texts[:200] {
			for _, bits := range []int{32, 64} {
				in := rtIn{Op: "parseint", Text: vh.Hex([]byte(t)), Val: fmt.Sprint(bits)}
				want := "err"
				if v, err := strconv.ParseInt(t, 10, bits); err == nil {
					want = fmt.Sprintf("ok %d", v)
				}
				c.Compare("parseInt vs strconv.ParseInt", in, want, c.Ask("parseInt %d %s", bits, vh.Hex([]byte(t))))
				want = "err"
				if v, err := strconv.ParseUint(t, 10, bits); err == nil {
					want = fmt.Sprintf("ok %d", v)
				}
				c.Compare("parseUint vs strconv.ParseUint", in, want, c.Ask("parseUint %d %s", bits, vh.Hex([]byte(t))))
			}
		}
	}
}

// ---------------------------------------------------------------- bool, string

func runBoolString(c *C) {
	for _, f := range formats {
		roundTrip(c, protoreflect.BoolKind, f, protoreflect.ValueOfBool(true), nil, nil, true)
		roundTrip(c, protoreflect.BoolKind, f, protoreflect.ValueOfBool(false), nil, nil, true)
		for _, t := range []string{"true", "false", "1", "0", "True", "TRUE", "t", "f", "", "yes", "01", "true ", " false", "2"} {
			unmarshalText(c, protoreflect.BoolKind, f, t, nil)
		}
	}
	for i := 0; i < c.N(3000, 100000); i++ {
		s := string(randomBytes(c))
		roundTrip(c, protoreflect.StringKind, formats[i%2], protoreflect.ValueOfString(s), nil, nil, i < 600)
	}
}

// ---------------------------------------------------------------- bytes

func bytesRT(c *C, b []byte, f defval.Format, model bool) {
	roundTrip(c, protoreflect.BytesKind, f, protoreflect.ValueOfBytes(b), nil, nil, model)
}

// randomBytes: every C0/C1 byte, quotes, backslashes, digits after low bytes, invalid and valid UTF-8.
func randomBytes(c *C) []byte {
	n := c.Rand.Intn(40)
	if c.Rand.Intn(20) == 0 {
		n = c.Rand.Intn(600)
	}
	mode := c.Rand.Intn(7)
	c.Hist(fmt.Sprintf("bytes-mode-%d", mode))
	var b []byte
	for len(b) < n {
		switch mode {
		case 0: // uniform
			b = append(b, byte(c.Rand.Intn(256)))
		case 1: // C0 / C1 / DEL heavy
			switch c.Rand.Intn(3) {
			case 0:
				b = append(b, byte(c.Rand.Intn(0x20)))
			case 1:
				b = append(b, byte(0x7f+c.Rand.Intn(0x21)))
			default:
				b = append(b, byte(0x20+c.Rand.Intn(0x5f)))
			}
		case 2: // quotes, backslashes and the letters of escapes
			b = append(b, `\"'?nrtabfvxuU0123456789\\"`[c.Rand.Intn(27)])
		case 3: // a low/high byte followed by digits ("\x01" + "7")
			b = append(b, []byte{0, 1, 7, 8, 0x1f, 0x7f, 0x80, 0xff, 0x3f}[c.Rand.Intn(9)])
			for k := c.Rand.Intn(4); k > 0; k-- {
				b = append(b, byte('0'+c.Rand.Intn(10)))
			}
		case 4: // invalid UTF-8: stray continuation bytes, truncated sequences, overlongs, surrogates
			seqs := [][]byte{{0x80}, {0xbf}, {0xc0, 0x80}, {0xc1, 0xbf}, {0xc2}, {0xe0, 0x80, 0x80}, {0xe0, 0xa0}, {0xed, 0xa0, 0x80},
				{0xf0, 0x80, 0x80, 0x80}, {0xf4, 0x90, 0x80, 0x80}, {0xf5}, {0xff}, {0xfe}, {0xe2, 0x82}, {0xf0, 0x9f, 0x98}}
			b = append(b, seqs[c.Rand.Intn(len(seqs))]...)
			if c.Rand.Intn(2) == 0 {
				b = append(b, byte(0x20+c.Rand.Intn(0x5f)))
			}
		case 5: // valid UTF-8 of every length, incl. U+FFFD and the range edges
			rs := []rune{0x7f, 0x80, 0x7ff, 0x800, 0xd7ff, 0xe000, 0xfffd, 0xffff, 0x10000, 0x10ffff, 'é', '€', '😀', rune(c.Rand.Intn(0xd800))}
			b = append(b, string(rs[c.Rand.Intn(len(rs))])...)
		default: // printable
			b = append(b, byte(0x20+c.Rand.Intn(0x5f)))
		}
	}
	return b
}

// escapeText: text over the alphabet of escapes, for Unmarshal(BytesKind) (model vs implementation).
func escapeText(c *C) string {
	n := 1 + c.Rand.Intn(12)
	var b []byte
	frag := []string{`\`, `\\`, `\"`, `\'`, `\?`, `\n`, `\r`, `\t`, `\a`, `\b`, `\f`, `\v`, `\x`, `\X`, `\0`, `\1`, `\3`, `\4`, `\7`, `\8`, `\9`,
		`\377`, `\400`, `\777`, `\0000`, `\1234`, `\x0`, `\xf`, `\xFF`, `\xfff`, `\xg`, `\x-`, `A`, `\U00000041`, `😀`, `\z`, `\ `, `\N`,
		`"`, `'`, `"x`, `?`, "\n", "\x00", "\x7f", "\x80", "\xc3\xa9", "\xe2\x82\xac", "\xf0\x9f\x98\x80", "\xc3", "\xff", "\xed\xa0\x80", "\xef\xbf\xbd"}
	for i := 0; i < n; i++ {
		switch c.Rand.Intn(4) {
		case 0:
			b = append(b, byte(0x20+c.Rand.Intn(0x5f)))
		case 1:
			b = append(b, byte('0'+c.Rand.Intn(10)))
		default:
			b = append(b, frag[c.Rand.Intn(len(frag))]...)
		}
	}
	return string(b)
}

func runBytes(c *C) {
	// ALL single bytes and ALL byte pairs, both through the implementation and the model
	for x := 0; x < 256; x++ {
		for _, f := range formats {
			bytesRT(c, []byte{byte(x)}, f, true)
		}
	}
	for x := 0; x < 65536; x++ {
		// the model sees every pair in the thorough tier, a seeded quarter plus all pairs whose second byte is a digit,
		// quote or backslash in the quick tier
		y := byte(x)
		model := c.Thorough() || (y >= '0' && y <= '9') || y == '"' || y == '\'' || y == '\\' || c.Rand.Intn(4) == 0
		bytesRT(c, []byte{byte(x >> 8), y}, formats[x&1], model)
		if x&4095 == 0 && c.Failed() {
			return
		}
	}
	c.Hist("bytes-all-singles-and-pairs")
	bytesRT(c, nil, defval.Descriptor, true)
	bytesRT(c, []byte{}, defval.GoTag, true)
	bytesRT(c, []byte("\x017"), defval.Descriptor, true)
	bytesRT(c, []byte("\x00\x000\x7f9\xff\\\\'\"\n\r\t?"), defval.Descriptor, true)
	// all triples (low byte, digit, digit) and (byte, backslash-ish, byte) shapes
	for x := 0; x < 256; x++ {
		for d := 0; d < 100; d += 7 {
			bytesRT(c, []byte{byte(x), byte('0' + d/10), byte('0' + d%10)}, formats[x&1], x%16 == 0)
		}
	}
	n := c.N(20000, 1000000)
	nm := c.N(3000, 30000)
	for i := 0; i < n; i++ {
		bytesRT(c, randomBytes(c), formats[i&1], i < nm)
		if i&1023 == 0 && c.Failed() {
			return
		}
	}
	for i := 0; i < c.N(6000, 100000); i++ {
		unmarshalText(c, protoreflect.BytesKind, formats[i&1], escapeText(c), nil)
		if i&1023 == 0 && c.Failed() {
			return
		}
	}
	for i := 0; i < c.N(1500, 20000); i++ {
		unmarshalText(c, protoreflect.BytesKind, formats[i&1], string(randomBytes(c)), nil)
	}
	// the primitive marshalBytes of the model against the implementation's text
	if c.HasModel() {
		for i := 0; i < c.N(1500, 20000); i++ {
			b := randomBytes(c)
			in := rtIn{Op: "rt", Kind: "bytes", Fmt: "D", Val: "y:" + vh.Hex(b)}
			s, err := defval.Marshal(protoreflect.ValueOfBytes(b), nil, protoreflect.BytesKind, defval.Descriptor)
			if c.Check(err == nil, "Marshal(bytes) failed", in, "") {
				c.Compare("marshalBytes: model vs implementation", in, vh.Hex([]byte(s)), c.Ask("marshalBytes %s", vh.Hex(b)))
			}
		}
	}
}

// ---------------------------------------------------------------- floats

func f64Boundaries() []uint64 {
	set := map[uint64]bool{}
	add := func(x uint64) {
		for d := uint64(0); d <= 2; d++ {
			set[x+d], set[x-d] = true, true
			set[(x+d)^(1<<63)], set[(x-d)^(1<<63)] = true, true
		}
	}
	for _, x := range []uint64{0, 1, 0x000fffffffffffff, 0x0010000000000000, 0x3ff0000000000000, 0x7fefffffffffffff, 0x7ff0000000000000,
		0x7ff8000000000000, 0x7ff8000000000001, 0x7ff0000000000001, 0x7fffffffffffffff, 0x4340000000000000, 0x433fffffffffffff,
		0x3ab5c87fb0000000, 0x3ab5c87fa0000000, 0x36a0000000000000, 0x47efffffe0000000, 0x47effffff0000000, 0x3810000000000000} {
		add(x)
	}
	for e := uint64(0); e < 2047; e += 13 {
		add(e << 52)
	}
	for p := -330; p <= 310; p += 3 {
		add(math.Float64bits(math.Pow(10, float64(p))))
	}
	for _, f := range []float64{0.1, 0.2, 0.3, 1.0 / 3, math.Pi, math.E, 5e-324, 2.2250738585072014e-308, 1.7976931348623157e308, 123456789.125, 1e21, 1e20, 1e-7, 0.000001, 100000, 1e23, 9007199254740993} {
		add(math.Float64bits(f))
	}
	out := make([]uint64, 0, len(set))
	for x := range set {
		out = append(out, x)
	}
	sort.Slice(out, func(i, j int) bool { return out[i] < out[j] })
	return out
}

func f32Boundaries() []uint32 {
	set := map[uint32]bool{}
	add := func(x uint32) {
		for d := uint32(0); d <= 2; d++ {
			set[x+d], set[x-d] = true, true
			set[(x+d)^(1<<31)], set[(x-d)^(1<<31)] = true, true
		}
	}
	for _, x := range []uint32{0, 1, 0x007fffff, 0x00800000, 0x3f800000, 0x7f7fffff, 0x7f800000, 0x7fc00000, 0x7fc00001, 0x7f800001, 0x7fffffff,
		0x15AE43FD, 0x95AE43FD, 0x4b000000, 0x4b800000, 0x3dcccccd, 0x00000001} {
		add(x)
	}
	for e := uint32(0); e < 256; e++ {
		add(e << 23)
	}
	for p := -46; p <= 39; p++ {
		add(math.Float32bits(float32(math.Pow(10, float64(p)))))
	}
	out := make([]uint32, 0, len(set))
	for x := range set {
		out = append(out, x)
	}
	sort.Slice(out, func(i, j int) bool { return out[i] < out[j] })
	return out
}

// law32 validates the hypothesis Law32 of the Lean theorems against strconv for one float32 pattern: the shortest
// 32-bit text of a finite value is not a special token, ParseFloat accepts it at 64 bits, and at 32 bits gives the value back.
func law32(b uint32) bool {
	f := math.Float32frombits(b)
	if f != f || math.IsInf(float64(f), 0) {
		return true
	}
	s := strconv.FormatFloat(float64(f), 'g', -1, 32)
	special := s == "inf" || s == "-inf" || s == "nan"
	v32, _ := strconv.ParseFloat(s, 32)
	_, e64 := strconv.ParseFloat(s, 64)
	return !special && e64 == nil && math.Float32bits(float32(v32)) == b
}

func runFloats(c *C) {
	// float64
	b64 := f64Boundaries()
	check64 := func(x uint64, model bool) {
		f := math.Float64frombits(x)
		for _, fm := range formats {
			roundTrip(c, protoreflect.DoubleKind, fm, protoreflect.ValueOfFloat64(f), nil, nil, model)
		}
		if f == f && !math.IsInf(f, 0) { // Law64 directly on strconv
			s := strconv.FormatFloat(f, 'g', -1, 64)
			v, err := strconv.ParseFloat(s, 64)
			c.Check(err == nil && math.Float64bits(v) == x && s != "inf" && s != "-inf" && s != "nan",
				"Law64 (hypothesis of C39.double_roundtrip) fails for strconv: "+s, rtIn{Op: "law64", Val: fmt.Sprintf("f64:%016x", x)}, "")
		}
	}
	for _, x := range b64 {
		check64(x, true)
	}
	n := c.N(100000, 10000000)
	for i := 0; i < n; i++ {
		x := c.Rand.Uint64()
		if c.Rand.Intn(4) == 0 { // a float32-representable double or a small decimal
			x = math.Float64bits(float64(math.Float32frombits(c.Rand.Uint32())))
		} else if c.Rand.Intn(8) == 0 {
			x = math.Float64bits(float64(c.Rand.Intn(2000000)-1000000) / math.Pow(10, float64(c.Rand.Intn(8))))
		}
		check64(x, i < c.N(1500, 15000))
		if i&1023 == 0 && c.Failed() {
			return
		}
	}
	// float32
	check32 := func(b uint32, model bool) {
		f := math.Float32frombits(b)
		for _, fm := range formats {
			roundTrip(c, protoreflect.FloatKind, fm, protoreflect.ValueOfFloat32(f), nil, nil, model)
		}
		c.Check(law32(b), "Law32 (hypothesis of C39.float_roundtrip) fails for strconv", rtIn{Op: "law32", Val: fmt.Sprintf("f32:%08x", b)}, "")
	}
	for _, b := range f32Boundaries() {
		check32(b, true)
	}
	check32(0x15AE43FD, true)
	check32(0x95AE43FD, true)
	if !c.Thorough() {
		n32 := 2000000
		for i := 0; i < n32; i++ {
			check32(c.Rand.Uint32(), i < 1500)
			if i&4095 == 0 && c.Failed() {
				return
			}
		}
	} else {
		sweepFloat32(c)
	}
	// the strconv facts that C39.float_former_witness takes as hypotheses
	{
		in := rtIn{Op: "witness", Val: "f32:15ae43fd"}
		s := strconv.FormatFloat(float64(math.Float32frombits(0x15AE43FD)), 'g', -1, 32)
		_, err := strconv.ParseFloat("7.038531e-26", 64)
		v32, _ := strconv.ParseFloat("7.038531e-26", 32)
		c.Check(s == "7.038531e-26", "witness hypothesis hfmt no longer holds: FormatFloat gives "+s, in, "")
		c.Check(err == nil, "witness hypothesis hparse64 no longer holds", in, "")
		c.Check(math.Float64bits(v32) == 0x3AB5C87FA0000000, fmt.Sprintf("witness hypothesis hparse32 no longer holds: %016x", math.Float64bits(v32)), in, "")
	}
	// special tokens and other float texts through Unmarshal (model vs implementation)
	texts := []string{"inf", "-inf", "nan", "+inf", "Inf", "-Inf", "INF", "NaN", "NAN", "-nan", "+nan", "infinity", "-infinity", "Infinity", "", " ", "0", "-0", "+0",
		"1", "1.", ".5", "5.", "1e", "e1", "1e3", "1E3", "1e+3", "1e-3", "0x1p-2", "0x1.8p1", "0x10", "1_0", "1_000.5", "1e-45", "1e-46", "7e-46", "3.4028235e+38",
		"3.4028236e+38", "3.5e+38", "1e39", "1e308", "1.7976931348623157e308", "1.7976931348623159e308", "1e309", "-1e309", "5e-324", "2e-324", "1e-400",
		"7.038531e-26", "-7.038531e-26", "7.0385313e-26", "0.1", "0.10000000149011612", "1f", "1d", "1.0f", " 1", "1 ", "--1", "+-1", "1,5", "١", "1e99999999999"}
	for _, t := range texts {
		for _, fm := range formats {
			unmarshalText(c, protoreflect.FloatKind, fm, t, nil)
			unmarshalText(c, protoreflect.DoubleKind, fm, t, nil)
		}
	}
	// widen / narrow of the model against the Go conversions
	if c.HasModel() {
		for i := 0; i < c.N(3000, 60000); i++ {
			var x uint64
			switch {
			case i < len(b64):
				x = b64[i]
			case i%3 == 0: // around the float32 range and its subnormals: exponents 874-23 .. 1151
				x = (c.Rand.Uint64() & 0x800fffffffffffff) | (uint64(840+c.Rand.Intn(320)) << 52)
			case i%3 == 1: // exact ties and near-ties at bit 28
				x = (c.Rand.Uint64() &^ 0x1fffffff) | []uint64{0x10000000, 0x0fffffff, 0x10000001, 0, 0x1fffffff}[c.Rand.Intn(5)]
				if c.Rand.Intn(2) == 0 {
					x = (x & 0x800fffffffffffff) | (uint64(860+c.Rand.Intn(300)) << 52)
				}
			default:
				x = c.Rand.Uint64()
			}
			in := rtIn{Op: "narrow", Val: fmt.Sprintf("f64:%016x", x)}
			c.Compare("narrow vs float32(float64)", in, valStr(protoreflect.ValueOfFloat32(float32(math.Float64frombits(x)))), c.Ask("narrow %016x", x))
		}
		b32 := f32Boundaries()
		for i := 0; i < c.N(3000, 60000); i++ {
			y := c.Rand.Uint32()
			if i < len(b32) {
				y = b32[i]
			} else if i%4 == 0 {
				y &= 0x807fffff >> uint(c.Rand.Intn(23)) // subnormals of every length
			}
			in := rtIn{Op: "widen", Val: fmt.Sprintf("f32:%08x", y)}
			c.Compare("widen vs float64(float32)", in, valStr(protoreflect.ValueOfFloat64(float64(math.Float32frombits(y)))), c.Ask("widen %08x", y))
		}
	}
}

// sweepFloat32 pushes ALL 2^32 float32 bit patterns through defval.Marshal -> defval.Unmarshal(FloatKind)
// (Descriptor format; GoTag shares the code path and is covered by the sampled streams) on 16 goroutines and
// validates Law32 against strconv on every pattern.
func sweepFloat32(c *C) {
	const workers = 16
	type bad struct {
		bits uint32
		what string
	}
	var mu sync.Mutex
	var bads []bad
	var wg sync.WaitGroup
	var total, nontrivial uint64
	for w := 0; w < workers; w++ {
		wg.Add(1)
		go func(w int) {
			defer wg.Done()
			var local []bad
			var cnt, nt uint64
			lo := uint64(w) << 28
			for x := lo; x < lo+(1<<28); x++ {
				b := uint32(x)
				f := math.Float32frombits(b)
				s, err := defval.Marshal(protoreflect.ValueOfFloat32(f), nil, protoreflect.FloatKind, defval.Descriptor)
				ok := err == nil
				if ok {
					v, _, err := defval.Unmarshal(s, protoreflect.FloatKind, nil, defval.Descriptor)
					ok = err == nil
					if ok {
						g, isf := v.Interface().(float32)
						ok = isf && (math.Float32bits(g) == b || (g != g && f != f))
					}
				}
				l32 := law32(b)
				cnt++
				if b != 0 {
					nt++
				}
				if !ok || !l32 {
					if len(local) < 64 {
						local = append(local, bad{b, fmt.Sprintf("roundtrip=%v law32=%v", ok, l32)})
					}
				}
			}
			mu.Lock()
			bads = append(bads, local...)
			total += cnt
			nontrivial += nt
			mu.Unlock()
		}(w)
	}
	wg.Wait()
	c.R.Evaluations += int(total)
	c.R.DistinctNontrivial += int(nontrivial)
	c.R.Exhaustive = true
	c.R.Notes = append(c.R.Notes, fmt.Sprintf("float32 sweep: all %d bit patterns through defval.Marshal -> defval.Unmarshal(FloatKind) and through the strconv laws; %d patterns flagged (each re-run through the full per-value check below); the %d sweep cases are added to the counters directly (distinct by construction)", total, len(bads), total))
	sort.Slice(bads, func(i, j int) bool { return bads[i].bits < bads[j].bits })
	c.Hist(fmt.Sprintf("float32-sweep-flagged=%d", len(bads)))
	for _, b := range bads {
		// re-run sequentially through the ordinary path, which classifies and records the failure
		f := math.Float32frombits(b.bits)
		for _, fm := range formats {
			roundTrip(c, protoreflect.FloatKind, fm, protoreflect.ValueOfFloat32(f), nil, nil, true)
		}
		c.Check(law32(b.bits), "Law32 (hypothesis of C39.float_roundtrip) fails for strconv", rtIn{Op: "law32", Val: fmt.Sprintf("f32:%08x", b.bits)}, "")
	}
}

// ---------------------------------------------------------------- glue: descriptors

type glueField struct {
	kind protoreflect.Kind
	text string // default_value
	want string // valStr of the expected value ("" = whatever the first parse gives)
}

var fdpType = map[protoreflect.Kind]descriptorpb.FieldDescriptorProto_Type{
	protoreflect.BoolKind: descriptorpb.FieldDescriptorProto_TYPE_BOOL, protoreflect.EnumKind: descriptorpb.FieldDescriptorProto_TYPE_ENUM,
	protoreflect.Int32Kind: descriptorpb.FieldDescriptorProto_TYPE_INT32, protoreflect.Sint32Kind: descriptorpb.FieldDescriptorProto_TYPE_SINT32,
	protoreflect.Uint32Kind: descriptorpb.FieldDescriptorProto_TYPE_UINT32, protoreflect.Int64Kind: descriptorpb.FieldDescriptorProto_TYPE_INT64,
	protoreflect.Sint64Kind: descriptorpb.FieldDescriptorProto_TYPE_SINT64, protoreflect.Uint64Kind: descriptorpb.FieldDescriptorProto_TYPE_UINT64,
	protoreflect.Sfixed32Kind: descriptorpb.FieldDescriptorProto_TYPE_SFIXED32, protoreflect.Fixed32Kind: descriptorpb.FieldDescriptorProto_TYPE_FIXED32,
	protoreflect.FloatKind: descriptorpb.FieldDescriptorProto_TYPE_FLOAT, protoreflect.Sfixed64Kind: descriptorpb.FieldDescriptorProto_TYPE_SFIXED64,
	protoreflect.Fixed64Kind: descriptorpb.FieldDescriptorProto_TYPE_FIXED64, protoreflect.DoubleKind: descriptorpb.FieldDescriptorProto_TYPE_DOUBLE,
	protoreflect.StringKind: descriptorpb.FieldDescriptorProto_TYPE_STRING, protoreflect.BytesKind: descriptorpb.FieldDescriptorProto_TYPE_BYTES,
}

var glueEnum = []struct {
	n string
	v int32
}{{"G_ZERO", 0}, {"G_NEG", -1}, {"G_ALIAS", 0}, {"G_MAX", math.MaxInt32}, {"G_MIN", math.MinInt32}, {"G_ALIAS2", -1}}

func buildGlueFile(fields []glueField) *descriptorpb.FileDescriptorProto {
	ed := &descriptorpb.EnumDescriptorProto{Name: proto.String("E"), Options: &descriptorpb.EnumOptions{AllowAlias: proto.Bool(true)}}
	for _, s := range glueEnum {
		ed.Value = append(ed.Value, &descriptorpb.EnumValueDescriptorProto{Name: proto.String(s.n), Number: proto.Int32(s.v)})
	}
	md := &descriptorpb.DescriptorProto{Name: proto.String("M")}
	for i, f := range fields {
		fp := &descriptorpb.FieldDescriptorProto{
			Name: proto.String(fmt.Sprintf("f%d", i)), JsonName: proto.String(fmt.Sprintf("f%d", i)), Number: proto.Int32(int32(i + 1)),
			Label: descriptorpb.FieldDescriptorProto_LABEL_OPTIONAL.Enum(), Type: fdpType[f.kind].Enum(),
			DefaultValue: proto.String(f.text),
		}
		if f.kind == protoreflect.EnumKind {
			fp.TypeName = proto.String(".glue.E")
		}
		md.Field = append(md.Field, fp)
	}
	return &descriptorpb.FileDescriptorProto{
		Name: proto.String("glue.proto"), Package: proto.String("glue"), Syntax: proto.String("proto2"),
		EnumType: []*descriptorpb.EnumDescriptorProto{ed}, MessageType: []*descriptorpb.DescriptorProto{md},
	}
}

func defaultStr(fd protoreflect.FieldDescriptor) string {
	s := valStr(fd.Default())
	if ev := fd.DefaultEnumValue(); ev != nil {
		s += " " + evStr(ev)
	}
	return s
}

// glueOne: one field of one kind with one default text through
// NewFile -> Default -> ToFileDescriptorProto -> NewFile -> Default -> ToFileDescriptorProto.
func glueOne(c *C, f glueField) {
	in := rtIn{Op: "glue", Kind: f.kind.String(), Text: vh.Hex([]byte(f.text))}
	const sig = ""
	defer c.Recover("descriptor glue", in, "")
	fd1, err := protodesc.NewFile(buildGlueFile([]glueField{f}), nil)
	c.Case("glue"+in.Kind+in.Text, err == nil)
	c.Hist("glue:" + in.Kind)
	if !c.Check(err == nil, fmt.Sprint("NewFile rejects a default_value that defval.Marshal printed / a documented form: ", err), in, sig) {
		return
	}
	fld1 := fd1.Messages().Get(0).Fields().Get(0)
	c.Check(fld1.HasDefault(), "HasDefault false", in, "")
	d1 := defaultStr(fld1)
	if f.want != "" {
		c.Check(strings.HasPrefix(d1, f.want), fmt.Sprintf("FieldDescriptor.Default after NewFile: got %s want %s", d1, f.want), in, sig)
	}
	p2 := protodesc.ToFileDescriptorProto(fd1)
	t2 := p2.GetMessageType()[0].GetField()[0].GetDefaultValue()
	fd2, err := protodesc.NewFile(p2, nil)
	if !c.Check(err == nil, fmt.Sprintf("NewFile rejects ToFileDescriptorProto's own default_value %q: %v", t2, err), in, sig) {
		return
	}
	fld2 := fd2.Messages().Get(0).Fields().Get(0)
	d2 := defaultStr(fld2)
	c.Check(d1 == d2, fmt.Sprintf("default changes across ToFileDescriptorProto/NewFile: %s -> text %q -> %s", d1, t2, d2), in, sig)
	t3 := protodesc.ToFileDescriptorProto(fd2).GetMessageType()[0].GetField()[0].GetDefaultValue()
	c.Check(t2 == t3, fmt.Sprintf("default_value text not stable: %q -> %q", t2, t3), in, sig)
	if f.want != "" && f.kind != protoreflect.BytesKind && f.kind != protoreflect.FloatKind && f.kind != protoreflect.DoubleKind {
		c.Check(t2 == f.text, fmt.Sprintf("default_value text changes: %q -> %q", f.text, t2), in, "")
	}
}

func runGlue(c *C) {
	fixed := []glueField{
		{protoreflect.FloatKind, "inf", "f32:7f800000"}, {protoreflect.FloatKind, "-inf", "f32:ff800000"}, {protoreflect.FloatKind, "nan", "f32:nan"},
		{protoreflect.FloatKind, "1e-45", "f32:00000001"}, {protoreflect.FloatKind, "3.4028235e+38", "f32:7f7fffff"}, {protoreflect.FloatKind, "-0", "f32:80000000"},
		{protoreflect.FloatKind, "1.5", "f32:3fc00000"}, {protoreflect.FloatKind, "7.038531e-26", "f32:15ae43fd"}, {protoreflect.FloatKind, "-7.038531e-26", "f32:95ae43fd"},
		{protoreflect.FloatKind, "0.1", "f32:3dcccccd"}, {protoreflect.FloatKind, "1e+38", ""}, {protoreflect.FloatKind, "16777217", ""},
		{protoreflect.DoubleKind, "inf", "f64:7ff0000000000000"}, {protoreflect.DoubleKind, "-inf", "f64:fff0000000000000"}, {protoreflect.DoubleKind, "nan", "f64:nan"},
		{protoreflect.DoubleKind, "5e-324", "f64:0000000000000001"}, {protoreflect.DoubleKind, "1.7976931348623157e+308", "f64:7fefffffffffffff"},
		{protoreflect.DoubleKind, "1e-45", ""}, {protoreflect.DoubleKind, "3.4028235e+38", ""}, {protoreflect.DoubleKind, "-0", "f64:8000000000000000"},
		{protoreflect.BytesKind, `\000\001\377`, "y:0001ff"}, {protoreflect.BytesKind, `\0017`, "y:0137"}, {protoreflect.BytesKind, `\x01\x7f\?\a\b\f\v`, "y:017f3f07080c0b"},
		{protoreflect.BytesKind, `\"\'\\\n\r\t`, "y:22275c0a0d09"}, {protoreflect.BytesKind, `a'b`, "y:612762"}, {protoreflect.BytesKind, "", "y:-"},
		{protoreflect.BytesKind, `\1\12\123`, "y:010a53"}, {protoreflect.BytesKind, "caf\xc3\xa9", "y:636166c3a9"},
		{protoreflect.StringKind, `\000 is not an escape here`, ""}, {protoreflect.StringKind, "", "s:-"}, {protoreflect.StringKind, "héllo \"w\" \\", ""},
		{protoreflect.BoolKind, "true", "b:1"}, {protoreflect.BoolKind, "false", "b:0"},
		{protoreflect.EnumKind, "G_ZERO", "e:0 " + vh.Hex([]byte("G_ZERO")) + ":0"}, {protoreflect.EnumKind, "G_ALIAS", "e:0 " + vh.Hex([]byte("G_ALIAS")) + ":0"},
		{protoreflect.EnumKind, "G_NEG", "e:-1"}, {protoreflect.EnumKind, "G_ALIAS2", "e:-1 " + vh.Hex([]byte("G_ALIAS2")) + ":-1"},
		{protoreflect.EnumKind, "G_MAX", "e:2147483647"}, {protoreflect.EnumKind, "G_MIN", "e:-2147483648"},
		{protoreflect.Int32Kind, "-2147483648", "i32:-2147483648"}, {protoreflect.Int32Kind, "2147483647", "i32:2147483647"},
		{protoreflect.Sint64Kind, "-9223372036854775808", "i64:-9223372036854775808"}, {protoreflect.Fixed64Kind, "18446744073709551615", "u64:18446744073709551615"},
		{protoreflect.Uint32Kind, "4294967295", "u32:4294967295"}, {protoreflect.Sfixed32Kind, "-1", "i32:-1"},
	}
	for _, f := range fixed {
		glueOne(c, f)
	}
	// generated: a value of every kind, printed by defval.Marshal, must come back from the descriptor round trip
	bs64, bs32, ib := f64Boundaries(), f32Boundaries(), intBoundaries()
	n := c.N(2500, 60000)
	for i := 0; i < n; i++ {
		k := scalarKinds[c.Rand.Intn(len(scalarKinds))]
		var v protoreflect.Value
		var ev protoreflect.EnumValueDescriptor
		switch {
		case k == protoreflect.BoolKind:
			v = protoreflect.ValueOfBool(c.Rand.Intn(2) == 0)
		case k == protoreflect.EnumKind:
			continue // covered by the fixed list (needs the file's own descriptors)
		case k == protoreflect.FloatKind:
			b := c.Rand.Uint32()
			if c.Rand.Intn(3) == 0 {
				b = bs32[c.Rand.Intn(len(bs32))]
			}
			v = protoreflect.ValueOfFloat32(math.Float32frombits(b))
		case k == protoreflect.DoubleKind:
			b := c.Rand.Uint64()
			if c.Rand.Intn(3) == 0 {
				b = bs64[c.Rand.Intn(len(bs64))]
			}
			v = protoreflect.ValueOfFloat64(math.Float64frombits(b))
		case k == protoreflect.StringKind:
			v = protoreflect.ValueOfString(strings.ToValidUTF8(string(randomBytes(c)), "?"))
		case k == protoreflect.BytesKind:
			v = protoreflect.ValueOfBytes(randomBytes(c))
		default:
			x := randBits(c)
			if c.Rand.Intn(3) == 0 {
				x = ib[c.Rand.Intn(len(ib))]
			}
			v = intValue(k, x)
		}
		s, err := defval.Marshal(v, ev, k, defval.Descriptor)
		if !c.Check(err == nil, "Marshal failed", rtIn{Op: "rt", Kind: k.String(), Fmt: "D", Val: rawValStr(v)}, "") {
			continue
		}
		glueOne(c, glueField{k, s, valStr(v)})
		if i&255 == 0 && c.Failed() {
			return
		}
	}
}

// ---------------------------------------------------------------- replay

func replayOne(c *C, in rtIn) {
	var ed protoreflect.EnumDescriptor
	if in.Enum != "" {
		ed = findEnum(in.Enum)
	}
	switch in.Op {
	case "rt":
		k, f, v := kindByName(in.Kind), fmtByName(in.Fmt), parseVal(in.Val)
		var ev protoreflect.EnumValueDescriptor
		if k == protoreflect.EnumKind {
			if ed == nil {
				return
			}
			ev = ed.Values().ByName(protoreflect.Name(in.Name))
			if ev == nil {
				return
			}
		}
		roundTrip(c, k, f, v, ev, ed, true)
	case "unm":
		unmarshalText(c, kindByName(in.Kind), fmtByName(in.Fmt), string(vh.UnHex(in.Text)), ed)
	case "glue":
		glueOne(c, glueField{kindByName(in.Kind), string(vh.UnHex(in.Text)), ""})
	case "law32":
		v := parseVal(in.Val)
		for _, fm := range formats {
			roundTrip(c, protoreflect.FloatKind, fm, v, nil, nil, true)
		}
	case "law64":
		v := parseVal(in.Val)
		for _, fm := range formats {
			roundTrip(c, protoreflect.DoubleKind, fm, v, nil, nil, true)
		}
	}
}

func runC39(c *C) {
	c.R.Rule = "one case = one (kind, format, value) pushed through defval.Marshal -> defval.Unmarshal, or one text through Unmarshal, or one " +
		"default_value through NewFile -> Default -> ToFileDescriptorProto -> NewFile; non-trivial = both calls succeed and the value is not the " +
		"zero value of its kind (round trips) / the text is accepted (Unmarshal and glue streams); distinct by (kind, format, value or text)"
	synth := makeSynthEnums(c)
	for _, raw := range c.ReplayInputs() {
		var in rtIn
		if json.Unmarshal(raw, &in) == nil && in.Op != "" {
			replayOne(c, in)
		}
	}
	if c.Failed() {
		return
	}
	steps := []func(){
		func() { runBoolString(c) },
		func() { runInts(c) },
		func() { runIntTexts(c, synth[1]) },
		func() { runBytes(c) },
		func() { runEnums(c) },
		func() { runFloats(c) },
		func() { runGlue(c) },
	}
	for _, s := range steps {
		s()
		if c.Failed() {
			return
		}
	}
	c.Sample(map[string]string{"kind": "bytes", "value": "01 37", "text": `\0017`})
	c.Sample(map[string]string{"kind": "float", "value": "0x15AE43FD", "text": "7.038531e-26", "back": "0x15AE43FD (finding 16, fixed)"})
	c.Sample(map[string]string{"kind": "enum (GoTag)", "value": "G_NEG", "text": "-1"})
}
