// alias harness: the dynamic half of C14 ("decoded and cloned messages never alias caller memory").
//
// The Lean side proves the property on a heap abstraction whose copy/alias table is extracted from
// the Go sources; this harness looks for the aliasing itself in the running implementation:
//
//	overwrite        Unmarshal(b); observe; overwrite every byte of b (0xFF, random, zero); observe again
//	overwrite-force  Unmarshal(b) lazily; overwrite b; only then access everything; compare with an
//	                 independent decoding of an untouched copy
//	clone            c := Clone(m); mutate c in place everywhere (through the []byte values the getters
//	                 return, list elements, map values, submessages, unknown fields) → m unchanged; and vice versa
//	merge            Merge(dst, src); mutate src likewise → dst unchanged; mutate dst → src unchanged
//	delim            protodelim.UnmarshalFrom through a bufio.Reader with a small buffer; read on, then
//	                 clobber the reader's buffer → messages decoded earlier unchanged
//	control          the same overwrite experiment with the internal UnmarshalAliasBuffer flag switched on
//	                 MUST show a difference (the experiment can see aliasing when it is there)
//
// for about 40 corpus root types × {generated, dynamicpb} × {lazy, eager}.  An observation is the
// reflection snapshot of the whole message plus its deterministic Marshal bytes.
package main

import (
	"bufio"
	"bytes"
	"encoding/json"
	"fmt"
	"math/rand"
	"reflect"
	"sort"
	"strings"

	"google.golang.org/protobuf/encoding/protodelim"
	"google.golang.org/protobuf/encoding/protowire"
	vh "google.golang.org/protobuf/internal/zz_verif_vh"
	"google.golang.org/protobuf/proto"
	"google.golang.org/protobuf/reflect/protoreflect"
	"google.golang.org/protobuf/reflect/protoregistry"
	"google.golang.org/protobuf/runtime/protoiface"
	"google.golang.org/protobuf/types/dynamicpb"

	_ "google.golang.org/protobuf/cmd/protoc-gen-go/testdata/proto2"
	_ "google.golang.org/protobuf/cmd/protoc-gen-go/testdata/proto3"
	_ "google.golang.org/protobuf/cmd/protoc-gen-go/testdata/protoeditions"
	_ "google.golang.org/protobuf/internal/testprotos/lazy"
	_ "google.golang.org/protobuf/internal/testprotos/lazy/lazy_opaque"
	_ "google.golang.org/protobuf/internal/testprotos/required"
	_ "google.golang.org/protobuf/internal/testprotos/required/required_opaque"
	_ "google.golang.org/protobuf/internal/testprotos/test"
	_ "google.golang.org/protobuf/internal/testprotos/test3"
	_ "google.golang.org/protobuf/internal/testprotos/test3/test3_hybrid"
	_ "google.golang.org/protobuf/internal/testprotos/test3/test3_opaque"
	_ "google.golang.org/protobuf/internal/testprotos/testeditions"
	_ "google.golang.org/protobuf/internal/testprotos/testeditions/testeditions_hybrid"
	_ "google.golang.org/protobuf/internal/testprotos/testeditions/testeditions_opaque"
	_ "google.golang.org/protobuf/internal/testprotos/textpb2"
	_ "google.golang.org/protobuf/internal/testprotos/textpb3"
)

type C = vh.Ctx

func main() { vh.Main("alias", run) }

// root message types exercised (the list of go/harness/msg/main.go); every one is driven as generated type and as dynamicpb
var rootTypes = []string{
	"goproto.proto.test.TestAllTypes",
	"goproto.proto.test.TestAllExtensions",
	"goproto.proto.test.TestRequired",
	"goproto.proto.test.TestRequiredForeign",
	"goproto.proto.test.TestPackedTypes",
	"goproto.proto.test.TestUnpackedTypes",
	"goproto.proto.test.TestManyMessageFieldsMessage",
	"goproto.proto.test3.TestAllTypes",
	"hybrid.goproto.proto.test3.TestAllTypes",
	"opaque.goproto.proto.test3.TestAllTypes",
	"goproto.proto.testeditions.TestAllTypes",
	"hybrid.goproto.proto.testeditions.TestAllTypes",
	"opaque.goproto.proto.testeditions.TestAllTypes",
	"goproto.proto.testeditions.TestRequired",
	"goproto.proto.testeditions.TestRequiredForeign",
	"goproto.proto.testeditions.TestRequiredLazy",
	"opaque.goproto.proto.testeditions.TestRequiredLazy",
	"goproto.proto.testeditions.TestOneofWithRequired",
	"goproto.proto.testeditions.TestPackedTypes",
	"goproto.proto.testeditions.TestPackedExtensions",
	"goproto.proto.testrequired.Message",
	"opaque.goproto.proto.testrequired.Message",
	"pb2.Scalars", "pb2.Repeats", "pb2.Nests", "pb2.Maps", "pb2.Requireds", "pb2.NestedWithRequired", "pb2.IndirectRequired", "pb2.Extensions",
	"pb3.Scalars", "pb3.Repeats", "pb3.Nests", "pb3.Maps", "pb3.Oneofs",
	"lazy_tree.Node",
	"opaque.lazy_tree.Node",
	"lazy_normalized_wire_test.FTop",
	"goproto.protoc.proto2.FieldTestMessage",
	"goproto.protoc.proto3.FieldTestMessage",
	"goproto.protoc.protoeditions.FieldTestMessage",
}

type Root struct {
	Name string
	MT   protoreflect.MessageType
	DT   protoreflect.MessageType
	Exts []protoreflect.ExtensionType
}

var rootByName = map[string]*Root{}

func roots(c *C) []*Root {
	var out []*Root
	var allExts []protoreflect.ExtensionType
	protoregistry.GlobalTypes.RangeExtensions(func(xt protoreflect.ExtensionType) bool {
		allExts = append(allExts, xt)
		return true
	})
	sort.Slice(allExts, func(i, j int) bool {
		return allExts[i].TypeDescriptor().FullName() < allExts[j].TypeDescriptor().FullName()
	})
	for _, n := range rootTypes {
		mt, err := protoregistry.GlobalTypes.FindMessageByName(protoreflect.FullName(n))
		if err != nil {
			c.R.Notes = append(c.R.Notes, "type not linked: "+n)
			continue
		}
		r := &Root{Name: n, MT: mt, DT: dynamicpb.NewMessageType(mt.Descriptor())}
		// extensions of any message type reachable from the root
		seen := map[protoreflect.FullName]bool{}
		var walk func(md protoreflect.MessageDescriptor)
		walk = func(md protoreflect.MessageDescriptor) {
			if seen[md.FullName()] {
				return
			}
			seen[md.FullName()] = true
			for i := 0; i < md.Fields().Len(); i++ {
				if sub := md.Fields().Get(i).Message(); sub != nil {
					walk(sub)
				}
			}
		}
		walk(mt.Descriptor())
		for _, xt := range allExts {
			if seen[xt.TypeDescriptor().ContainingMessage().FullName()] {
				r.Exts = append(r.Exts, xt)
				if sub := xt.TypeDescriptor().Message(); sub != nil {
					walk(sub)
				}
			}
		}
		rootByName[n] = r
		out = append(out, r)
	}
	return out
}

// Case is one replayable experiment.
type Case struct {
	Stage   string   `json:"stage"`
	Type    string   `json:"type"`
	Dyn     bool     `json:"dynamic"`
	Lazy    bool     `json:"lazy"`
	Discard bool     `json:"discard_unknown,omitempty"`
	Prefill string   `json:"merge_into,omitempty"` // Unmarshal with Merge into a message decoded from these bytes
	In      string   `json:"in,omitempty"`         // wire bytes (input / source message)
	Dst     string   `json:"dst,omitempty"`        // wire bytes of the destination (merge)
	Built   bool     `json:"built,omitempty"`      // the source was built through the reflection API (a replay decodes it from `in`)
	Pattern string   `json:"pattern,omitempty"`    // ff | rand | zero
	Stream  []string `json:"stream,omitempty"`     // delim: the messages of the stream
	BufSize int      `json:"bufsize,omitempty"`    // delim: bufio.Reader size
	Defer   bool     `json:"deferred,omitempty"`   // delim: do not touch the messages before the reader moved on
	Seed    int64    `json:"seed"`                 // randomness of the mutation / overwrite

	liveSrc protoreflect.Message
	liveDst protoreflect.Message
}

func family(dyn bool) string {
	if dyn {
		return "dynamicpb"
	}
	return "generated"
}

func (cs *Case) key() string {
	return fmt.Sprintf("%s|%s|%v|%v|%v|%s|%s|%s|%v|%d", cs.Stage, cs.Type, cs.Dyn, cs.Lazy, cs.Discard, cs.Prefill, cs.In, cs.Dst, cs.Stream, cs.BufSize)
}

func (cs *Case) newMsg() protoreflect.Message {
	r := rootByName[cs.Type]
	if cs.Dyn {
		return r.DT.New()
	}
	return r.MT.New()
}

func (cs *Case) opts() proto.UnmarshalOptions {
	return proto.UnmarshalOptions{AllowPartial: true, NoLazyDecoding: !cs.Lazy, DiscardUnknown: cs.Discard}
}

// decode unmarshals b (which the caller owns and may overwrite afterwards) as the case says.
func (cs *Case) decode(b []byte) (protoreflect.Message, error) {
	m := cs.newMsg()
	o := cs.opts()
	if cs.Prefill != "" {
		pre := append([]byte{}, vh.UnHex(cs.Prefill)...)
		if err := (proto.UnmarshalOptions{AllowPartial: true, NoLazyDecoding: true}).Unmarshal(pre, m.Interface()); err != nil {
			return nil, err
		}
		o.Merge = true
	}
	if err := o.Unmarshal(b, m.Interface()); err != nil {
		return nil, err
	}
	return m, nil
}

func clobber(r *rand.Rand, b []byte, pattern string) {
	for i := range b {
		switch pattern {
		case "ff":
			b[i] = 0xff
		case "zero":
			b[i] = 0
		default:
			b[i] = byte(r.Intn(256))
		}
	}
}

func fail(c *C, cs *Case, what, before, after string) {
	snapshot := *cs // the caller reuses its Case variable
	snapshot.liveSrc, snapshot.liveDst = nil, nil
	c.Check(false, fmt.Sprintf("%s [%s %s lazy=%v]: %s", what, cs.Type, family(cs.Dyn), cs.Lazy, firstDiff(before, after)), snapshot, "alias:"+cs.Stage)
}

func runCase(c *C, cs *Case) {
	if rootByName[cs.Type] == nil && cs.Stage != "delim" {
		return
	}
	{
		snapshot := *cs
		snapshot.liveSrc, snapshot.liveDst = nil, nil
		defer c.Recover(cs.Stage, snapshot, "panic:"+cs.Stage)
	}
	c.Hist("stage:" + cs.Stage)
	switch cs.Stage {
	case "overwrite":
		caseOverwrite(c, cs)
	case "overwrite-force":
		caseOverwriteForce(c, cs)
	case "clone":
		caseClone(c, cs)
	case "merge":
		caseMerge(c, cs)
	case "delim":
		caseDelim(c, cs)
	}
}

// (i) overwrite the input after decoding
func caseOverwrite(c *C, cs *Case) {
	rnd := rand.New(rand.NewSource(cs.Seed))
	b := append([]byte{}, vh.UnHex(cs.In)...)
	m, err := cs.decode(b)
	if err != nil {
		c.Case(cs.key(), false)
		c.Hist("decode-error")
		return
	}
	before := observe(m)
	c.Case(cs.key(), hasRefs(m))
	for _, pat := range []string{"ff", "rand", "zero"} {
		clobber(rnd, b, pat)
		after := observe(m)
		if after != before {
			cs.Pattern = pat
			fail(c, cs, "overwriting the input buffer after Unmarshal changed the message", before, after)
			return
		}
	}
}

// (i') decode lazily, overwrite the buffer, and only then access everything
func caseOverwriteForce(c *C, cs *Case) {
	rnd := rand.New(rand.NewSource(cs.Seed))
	b1 := append([]byte{}, vh.UnHex(cs.In)...)
	ref, err := cs.decode(b1)
	if err != nil {
		c.Case(cs.key(), false)
		c.Hist("decode-error")
		return
	}
	b := append([]byte{}, vh.UnHex(cs.In)...)
	m, err := cs.decode(b)
	if err != nil {
		c.Check(false, "decoding the same bytes twice gave different errors", *cs, "nondeterministic-decode")
		return
	}
	clobber(rnd, b, cs.Pattern)
	// first what does not need the fields: Size and Marshal may copy straight out of a retained buffer
	if s1, s2 := proto.Size(m.Interface()), proto.Size(ref.Interface()); s1 != s2 {
		fail(c, cs, "Size after overwriting the input differs from Size of an untouched decoding", fmt.Sprint(s2), fmt.Sprint(s1))
		return
	}
	d1, _ := partialDet.Marshal(m.Interface())
	d2, _ := partialDet.Marshal(ref.Interface())
	if !bytes.Equal(d1, d2) {
		fail(c, cs, "Marshal after overwriting the input differs from Marshal of an untouched decoding", vh.Hex(d2), vh.Hex(d1))
		return
	}
	want := observe(ref)
	got := observe(m)
	c.Case(cs.key(), hasRefs(ref))
	if got != want {
		fail(c, cs, "fields accessed after overwriting the input differ from an untouched decoding", want, got)
	}
}

// scramble mutates everything reachable in m in place.
func scramble(r *rand.Rand, m protoreflect.Message, depth int) {
	type fv struct {
		fd protoreflect.FieldDescriptor
		v  protoreflect.Value
	}
	var fs []fv
	m.Range(func(fd protoreflect.FieldDescriptor, v protoreflect.Value) bool {
		fs = append(fs, fv{fd, v})
		return true
	})
	flip := func(b []byte) {
		for i := range b {
			b[i] ^= 0x5a
		}
	}
	other := func(fd protoreflect.FieldDescriptor, old protoreflect.Value) protoreflect.Value {
		for k := 0; k < 8; k++ {
			v := scalar(r, fd)
			if fd.Kind() == protoreflect.BytesKind {
				return protoreflect.ValueOfBytes(append([]byte("replaced:"), v.Bytes()...))
			}
			if !v.Equal(old) {
				return v
			}
		}
		return old
	}
	for _, x := range fs {
		fd, v := x.fd, x.v
		switch {
		case fd.IsMap():
			mp := v.Map()
			var keys []protoreflect.MapKey
			mp.Range(func(k protoreflect.MapKey, _ protoreflect.Value) bool { keys = append(keys, k); return true })
			sort.Slice(keys, func(i, j int) bool { return mapKeyString(keys[i]) < mapKeyString(keys[j]) })
			for i, k := range keys {
				mv := mp.Get(k)
				switch {
				case fd.MapValue().Message() != nil:
					scramble(r, mv.Message(), depth+1)
				case fd.MapValue().Kind() == protoreflect.BytesKind:
					flip(mv.Bytes())
					if i%2 == 1 {
						mp.Set(k, other(fd.MapValue(), mv))
					}
				default:
					mp.Set(k, other(fd.MapValue(), mv))
				}
			}
			if len(keys) > 1 {
				mp.Clear(keys[0])
			}
			if fd.MapValue().Message() == nil {
				mp.Set(scalar(r, fd.MapKey()).MapKey(), scalar(r, fd.MapValue()))
			}
		case fd.IsList():
			l := v.List()
			for i := 0; i < l.Len(); i++ {
				e := l.Get(i)
				switch {
				case fd.Message() != nil:
					scramble(r, e.Message(), depth+1)
				case fd.Kind() == protoreflect.BytesKind:
					flip(e.Bytes())
					if i%2 == 1 {
						l.Set(i, other(fd, e))
					}
				default:
					l.Set(i, other(fd, e)) // writes into the backing array
				}
			}
			if l.Len() > 1 && r.Intn(2) == 0 {
				l.Truncate(l.Len() - 1)
			}
			if fd.Message() == nil {
				l.Append(scalar(r, fd)) // may write into spare capacity of the backing array
			} else {
				l.Append(l.NewElement())
			}
		case fd.Message() != nil:
			scramble(r, v.Message(), depth+1)
		case fd.Kind() == protoreflect.BytesKind:
			flip(v.Bytes())
		default:
			m.Set(fd, other(fd, v))
		}
	}
	if u := m.GetUnknown(); len(u) > 0 {
		flip(u)
		m.SetUnknown(append(u, 0x08, 0x01)) // may write into spare capacity
	}
}

// source message of a clone / merge case: the live one, or decoded from cs.In
func (cs *Case) source() (src protoreflect.Message, want string, ok bool) {
	if cs.liveSrc != nil {
		return cs.liveSrc, observe(cs.liveSrc), true
	}
	b1 := append([]byte{}, vh.UnHex(cs.In)...)
	ref, err := cs.decode(b1)
	if err != nil {
		return nil, "", false
	}
	b := append([]byte{}, vh.UnHex(cs.In)...)
	src, err = cs.decode(b)
	if err != nil {
		return nil, "", false
	}
	// src stays untouched (lazy fields undecoded) until the operation under test has run
	return src, observe(ref), true
}

// (ii) clone
func caseClone(c *C, cs *Case) {
	rnd := rand.New(rand.NewSource(cs.Seed))
	src, want, ok := cs.source()
	if !ok {
		c.Case(cs.key(), false)
		c.Hist("decode-error")
		return
	}
	cl := proto.Clone(src.Interface()).ProtoReflect()
	scramble(rnd, cl, 0)
	got := observe(src)
	c.Case(cs.key(), hasRefs(src))
	if got != want {
		fail(c, cs, "mutating a clone changed its source", want, got)
		return
	}
	cl2 := proto.Clone(src.Interface()).ProtoReflect()
	wantC := observe(cl2)
	scramble(rnd, src, 0)
	if gotC := observe(cl2); gotC != wantC {
		fail(c, cs, "mutating the source changed its clone", wantC, gotC)
	}
}

// (iii) merge
func caseMerge(c *C, cs *Case) {
	rnd := rand.New(rand.NewSource(cs.Seed))
	var dst protoreflect.Message
	if cs.liveDst != nil {
		dst = cs.liveDst
	} else {
		dst = cs.newMsg()
		if err := (proto.UnmarshalOptions{AllowPartial: true, NoLazyDecoding: !cs.Lazy}).Unmarshal(append([]byte{}, vh.UnHex(cs.Dst)...), dst.Interface()); err != nil {
			c.Case(cs.key(), false)
			return
		}
	}
	src, wantS, ok := cs.source()
	if !ok {
		c.Case(cs.key(), false)
		c.Hist("decode-error")
		return
	}
	proto.Merge(dst.Interface(), src.Interface())
	wantD := observe(dst)
	c.Case(cs.key(), hasRefs(src))
	if gotS := observe(src); gotS != wantS {
		fail(c, cs, "Merge changed its source", wantS, gotS)
		return
	}
	scramble(rnd, src, 0)
	if gotD := observe(dst); gotD != wantD {
		fail(c, cs, "mutating src after Merge(dst, src) changed dst", wantD, gotD)
		return
	}
	wantS2 := observe(src)
	scramble(rnd, dst, 0)
	if gotS2 := observe(src); gotS2 != wantS2 {
		fail(c, cs, "mutating dst after Merge(dst, src) changed src", wantS2, gotS2)
	}
}

// (iv) protodelim through a small bufio.Reader
func caseDelim(c *C, cs *Case) {
	var stream bytes.Buffer
	var raws [][]byte
	for _, h := range cs.Stream {
		b := vh.UnHex(h)
		raws = append(raws, b)
		stream.Write(protowire.AppendVarint(nil, uint64(len(b))))
		stream.Write(b)
	}
	br := bufio.NewReaderSize(bytes.NewReader(stream.Bytes()), cs.BufSize)
	o := protodelim.UnmarshalOptions{MaxSize: -1, UnmarshalOptions: cs.opts()}
	var msgs []protoreflect.Message
	var obs []string
	peeked := 0
	for i := range raws {
		m := cs.newMsg()
		if len(raws[i]) <= br.Size() {
			peeked++
		}
		if err := o.UnmarshalFrom(br, m.Interface()); err != nil {
			c.Case(cs.key(), false)
			c.Hist("decode-error")
			return
		}
		msgs = append(msgs, m)
		if cs.Defer {
			obs = append(obs, "")
		} else {
			obs = append(obs, observe(m))
		}
	}
	// move the reader on and clobber its internal buffer
	junk := bytes.Repeat([]byte{0xAA}, 4*br.Size()+16)
	br.Reset(bytes.NewReader(junk))
	for {
		if _, err := br.Peek(br.Size()); err != nil {
			break
		}
		br.Discard(br.Size())
	}
	nontrivial := false
	for i, m := range msgs {
		want := obs[i]
		if cs.Defer {
			ref := cs.newMsg()
			if err := cs.opts().Unmarshal(append([]byte{}, raws[i]...), ref.Interface()); err != nil {
				continue
			}
			want = observe(ref)
		}
		got := observe(m)
		nontrivial = nontrivial || hasRefs(m)
		if got != want {
			fail(c, cs, fmt.Sprintf("message %d of a protodelim stream changed after the reader moved on (bufio size %d, message size %d)", i, br.Size(), len(raws[i])), want, got)
			return
		}
	}
	if peeked > 0 {
		c.Hist("delim:some-message-fits-reader-buffer")
	}
	if peeked < len(raws) {
		c.Hist("delim:some-message-exceeds-reader-buffer")
	}
	c.Case(cs.key(), nontrivial)
}

// positive control: with the internal UnmarshalAliasBuffer flag the same experiment must see aliasing
func control(c *C, rs []*Root) {
	rnd := rand.New(rand.NewSource(c.Seed))
	seen := 0
	tried := 0
	for _, r := range rs {
		if !strings.HasPrefix(r.Name, "opaque.") {
			continue
		}
		for i := 0; i < 20 && seen < 3; i++ {
			src := r.MT.New()
			fill(rnd, src, 0, 3, 2, r.Exts)
			b, err := partial.Marshal(src.Interface())
			if err != nil || len(b) == 0 {
				continue
			}
			run := func(flags protoiface.UnmarshalInputFlags) (string, bool) {
				buf := append([]byte{}, b...)
				m := r.MT.New()
				meth := m.ProtoMethods()
				if meth == nil || meth.Unmarshal == nil {
					return "", false
				}
				if _, err := meth.Unmarshal(protoiface.UnmarshalInput{Message: m, Buf: buf, Flags: flags, Resolver: protoregistry.GlobalTypes, Depth: protowire.DefaultRecursionLimit}); err != nil {
					return "", false
				}
				clobber(rnd, buf, "ff")
				defer func() { recover() }()
				return observe(m), true
			}
			plain, ok1 := run(0)
			aliased, ok2 := run(protoiface.UnmarshalAliasBuffer)
			if !ok1 || !ok2 {
				continue
			}
			tried++
			if plain != aliased {
				seen++
				c.Hist("control:aliasing-observed")
			}
		}
	}
	c.R.Notes = append(c.R.Notes, fmt.Sprintf("positive control: with protoiface.UnmarshalAliasBuffer set through ProtoMethods().Unmarshal, overwriting the buffer changed %d of %d lazily decoded opaque messages (the experiment can see aliasing)", seen, tried))
	c.Check(seen > 0, "positive control failed: the overwrite experiment did not see aliasing although UnmarshalAliasBuffer was set on lazily decoding messages", map[string]any{"stage": "control"}, "control")
}

// (v) no public alias flag
func publicFlags(c *C) {
	var names []string
	bad := false
	for _, t := range []reflect.Type{reflect.TypeOf(proto.UnmarshalOptions{}), reflect.TypeOf(protodelim.UnmarshalOptions{})} {
		for i := 0; i < t.NumField(); i++ {
			f := t.Field(i)
			if !f.IsExported() {
				continue
			}
			names = append(names, t.String()+"."+f.Name)
			if strings.Contains(strings.ToLower(f.Name), "alias") {
				bad = true
			}
		}
	}
	c.R.Notes = append(c.R.Notes, "public unmarshal options (no alias flag among them): "+strings.Join(names, ", "))
	c.Check(!bad, "a public UnmarshalOptions field asks for aliasing; C14 has to be restated for it", map[string]any{"stage": "public-flags", "fields": names}, "public-alias-flag")
}

func wire(c *C, r *Root, dyn bool, prob int) ([]byte, protoreflect.Message) {
	mt := r.MT
	if dyn {
		mt = r.DT
	}
	m := mt.New()
	fill(c.Rand, m, 0, 3, prob, r.Exts)
	b, err := partial.Marshal(m.Interface())
	if err != nil {
		return nil, nil
	}
	return b, m
}

func run(c *C) {
	if c.Prop != "C14" {
		return
	}
	c.R.Rule = "random messages over about 40 corpus root types (proto2/proto3/editions; open/hybrid/opaque API; lazy fields; extensions incl. lazily kept ones; maps; oneofs; groups; unknown fields), each as generated type and as dynamicpb, decoded lazily and eagerly (also merged into a non-empty message, also with DiscardUnknown; inputs also as concatenation of two encodings so that lazy fields occur twice). Stages: overwrite input after decode; decode lazily / overwrite / then force; mutate clone vs source; mutate src vs dst after Merge; protodelim through a small bufio.Reader. Non-trivial = the message holds a bytes/string value, a list, an unknown field or a nested message; distinct by stage, type, family, options and input bytes."
	rs := roots(c)
	for _, raw := range c.ReplayInputs() {
		var cs Case
		if err := json.Unmarshal(raw, &cs); err != nil || cs.Stage == "" {
			continue
		}
		c.Hist("replayed")
		runCase(c, &cs)
	}
	publicFlags(c)
	control(c, rs)
	per := c.N(3, 60)
	pats := []string{"ff", "rand", "zero"}
	for _, r := range rs {
		for _, dyn := range []bool{false, true} {
			for _, lazy := range []bool{true, false} {
				for i := 0; i < per && !c.Failed(); i++ {
					b, m := wire(c, r, dyn, 3)
					if b == nil {
						continue
					}
					if c.Rand.Intn(3) == 0 {
						if b2, _ := wire(c, r, dyn, 4); b2 != nil {
							b = append(b, b2...)
						}
					}
					base := Case{Type: r.Name, Dyn: dyn, Lazy: lazy, In: vh.Hex(b)}
					if c.Rand.Intn(6) == 0 {
						base.Discard = true
					}
					if c.Rand.Intn(5) == 0 {
						if pb, _ := wire(c, r, dyn, 5); len(pb) > 0 {
							base.Prefill = vh.Hex(pb)
						}
					}
					c.Hist(fmt.Sprintf("family:%s lazy:%v", family(dyn), lazy))
					cs := base
					cs.Stage, cs.Seed = "overwrite", c.Rand.Int63()
					runCase(c, &cs)
					cs = base
					cs.Stage, cs.Seed, cs.Pattern = "overwrite-force", c.Rand.Int63(), pats[c.Rand.Intn(3)]
					runCase(c, &cs)
					// clone / merge: of a message built through the API, and of a decoded one
					cs = base
					cs.Stage, cs.Seed, cs.Discard, cs.Prefill = "clone", c.Rand.Int63(), false, ""
					if i%2 == 0 {
						cs.Built, cs.liveSrc = true, m
						if mb, err := partial.Marshal(m.Interface()); err == nil {
							cs.In = vh.Hex(mb)
						}
					}
					runCase(c, &cs)
					db, dm := wire(c, r, dyn, 3)
					sb, sm := wire(c, r, dyn, 3)
					if db == nil || sb == nil {
						continue
					}
					cs = Case{Stage: "merge", Type: r.Name, Dyn: dyn, Lazy: lazy, In: vh.Hex(sb), Dst: vh.Hex(db), Seed: c.Rand.Int63()}
					if i%2 == 1 {
						cs.Built, cs.liveSrc, cs.liveDst = true, sm, dm
					}
					runCase(c, &cs)
				}
				// protodelim
				for i := 0; i < c.N(4, 40) && !c.Failed(); i++ {
					cs := Case{Stage: "delim", Type: r.Name, Dyn: dyn, Lazy: lazy, Seed: c.Rand.Int63(), Defer: c.Rand.Intn(2) == 0}
					cs.BufSize = []int{16, 32, 64, 128, 256, 512, 4096}[c.Rand.Intn(7)]
					maxLen := 0
					for k := 2 + c.Rand.Intn(3); k > 0; k-- {
						prob := 2 + c.Rand.Intn(8)
						if b, _ := wire(c, r, dyn, prob); b != nil {
							cs.Stream = append(cs.Stream, vh.Hex(b))
							if len(b) > maxLen {
								maxLen = len(b)
							}
						}
					}
					if i%2 == 0 {
						// every message fits the reader's buffer: UnmarshalFrom decodes from the Peek window
						cs.BufSize = 16
						for cs.BufSize < maxLen+4 {
							cs.BufSize *= 2
						}
					}
					runCase(c, &cs)
				}
			}
		}
	}
	c.Sample(map[string]any{"roots": len(rs), "stages": []string{"overwrite", "overwrite-force", "clone", "merge", "delim", "control", "public-flags"}})
}
