package main

// Random message generator (copied from go/harness/msg/gen.go and trimmed) and canonical snapshot.

import (
	"fmt"
	"math"
	"math/rand"
	"sort"
	"strings"

	"google.golang.org/protobuf/encoding/protowire"
	vh "google.golang.org/protobuf/internal/zz_verif_vh"
	"google.golang.org/protobuf/proto"
	"google.golang.org/protobuf/reflect/protoreflect"
)

var ints = []int64{0, 1, -1, 127, 128, -128, 255, 16383, 16384, math.MaxInt32, math.MinInt32, math.MaxInt64, math.MinInt64, 1 << 35, -(1 << 35), math.MaxUint32}
var strsv = []string{"a", "hello", "héllo", "日本", "\x00", "\"quote\\", "line\nbreak", " ", "tab\t", "😀", strings.Repeat("x", 130), "bytes-that-are-long-enough-to-matter", ""}

func scalar(r *rand.Rand, fd protoreflect.FieldDescriptor) protoreflect.Value {
	i := ints[r.Intn(len(ints))]
	if r.Intn(3) == 0 {
		i = r.Int63() >> uint(r.Intn(63))
		if r.Intn(2) == 0 {
			i = -i
		}
	}
	switch fd.Kind() {
	case protoreflect.BoolKind:
		return protoreflect.ValueOfBool(r.Intn(2) == 0)
	case protoreflect.EnumKind:
		vs := fd.Enum().Values()
		return protoreflect.ValueOfEnum(vs.Get(r.Intn(vs.Len())).Number())
	case protoreflect.Int32Kind, protoreflect.Sint32Kind, protoreflect.Sfixed32Kind:
		return protoreflect.ValueOfInt32(int32(i))
	case protoreflect.Int64Kind, protoreflect.Sint64Kind, protoreflect.Sfixed64Kind:
		return protoreflect.ValueOfInt64(i)
	case protoreflect.Uint32Kind, protoreflect.Fixed32Kind:
		return protoreflect.ValueOfUint32(uint32(i))
	case protoreflect.Uint64Kind, protoreflect.Fixed64Kind:
		return protoreflect.ValueOfUint64(uint64(i))
	case protoreflect.FloatKind:
		return protoreflect.ValueOfFloat32(float32(i%1000) / 8)
	case protoreflect.DoubleKind:
		return protoreflect.ValueOfFloat64(float64(i%100000) / 16)
	case protoreflect.StringKind:
		return protoreflect.ValueOfString(strsv[r.Intn(len(strsv))])
	case protoreflect.BytesKind:
		s := strsv[r.Intn(len(strsv))]
		if r.Intn(2) == 0 {
			s += "\xff\xfe"
		}
		return protoreflect.ValueOfBytes([]byte(s))
	}
	panic("scalar: kind")
}

// fill populates m randomly through the reflection API. prob: 1/prob of populating each field;
// bytes, string and message fields are populated twice as often (they are what can alias).
func fill(r *rand.Rand, m protoreflect.Message, depth, maxDepth, prob int, exts []protoreflect.ExtensionType) {
	fds := m.Descriptor().Fields()
	var all []protoreflect.FieldDescriptor
	for i := 0; i < fds.Len(); i++ {
		all = append(all, fds.Get(i))
	}
	for _, xt := range exts {
		if xt.TypeDescriptor().ContainingMessage().FullName() == m.Descriptor().FullName() {
			all = append(all, xt.TypeDescriptor())
		}
	}
	r.Shuffle(len(all), func(i, j int) { all[i], all[j] = all[j], all[i] })
	for _, fd := range all {
		p := prob
		k := fd.Kind()
		if fd.IsMap() {
			k = fd.MapValue().Kind()
		}
		if k == protoreflect.BytesKind || k == protoreflect.StringKind || k == protoreflect.MessageKind || k == protoreflect.GroupKind {
			p = (prob + 1) / 2
		}
		if fd.Cardinality() == protoreflect.Required {
			p = 1
		}
		if r.Intn(p) != 0 {
			continue
		}
		switch {
		case fd.IsMap():
			mp := m.Mutable(fd).Map()
			for k := r.Intn(3); k >= 0; k-- {
				key := scalar(r, fd.MapKey()).MapKey()
				if fd.MapValue().Message() != nil {
					if depth >= maxDepth {
						continue
					}
					v := mp.NewValue()
					fill(r, v.Message(), depth+1, maxDepth, prob, exts)
					mp.Set(key, v)
				} else {
					mp.Set(key, scalar(r, fd.MapValue()))
				}
			}
		case fd.IsList():
			l := m.Mutable(fd).List()
			for k := r.Intn(3); k >= 0; k-- {
				if fd.Message() != nil {
					if depth >= maxDepth {
						continue
					}
					e := l.NewElement()
					fill(r, e.Message(), depth+1, maxDepth, prob, exts)
					l.Append(e)
				} else {
					l.Append(scalar(r, fd))
				}
			}
		case fd.Message() != nil:
			if depth >= maxDepth {
				continue
			}
			fill(r, m.Mutable(fd).Message(), depth+1, maxDepth, prob, exts)
		default:
			m.Set(fd, scalar(r, fd))
		}
	}
	if r.Intn(3) == 0 {
		m.SetUnknown(randUnknown(r, m.Descriptor()))
	}
}

// randUnknown builds well-formed unknown fields with numbers that md does not declare.
func randUnknown(r *rand.Rand, md protoreflect.MessageDescriptor) []byte {
	var b []byte
	n := 1 + r.Intn(3)
	for i := 0; i < n; i++ {
		num := protowire.Number(100000 + r.Intn(50))
		if md.Fields().ByNumber(num) != nil || md.ExtensionRanges().Has(num) {
			num = protowire.Number(536870000 + r.Intn(50))
			if md.Fields().ByNumber(num) != nil || md.ExtensionRanges().Has(num) {
				continue
			}
		}
		switch r.Intn(4) {
		case 0:
			b = protowire.AppendTag(b, num, protowire.VarintType)
			b = protowire.AppendVarint(b, r.Uint64()>>uint(r.Intn(64)))
		case 1:
			b = protowire.AppendTag(b, num, protowire.Fixed64Type)
			b = protowire.AppendFixed64(b, r.Uint64())
		case 2:
			b = protowire.AppendTag(b, num, protowire.BytesType)
			b = protowire.AppendBytes(b, []byte(strsv[r.Intn(len(strsv))]))
		case 3:
			b = protowire.AppendTag(b, num, protowire.StartGroupType)
			b = protowire.AppendTag(b, 1, protowire.BytesType)
			b = protowire.AppendBytes(b, []byte("in-group"))
			b = protowire.AppendTag(b, num, protowire.EndGroupType)
		}
	}
	return b
}

// ---------- observation ----------

func mapKeyString(k protoreflect.MapKey) string {
	switch v := k.Interface().(type) {
	case string:
		return "s" + vh.Hex([]byte(v))
	case bool:
		if v {
			return "n1"
		}
		return "n0"
	default:
		return fmt.Sprintf("n%020v", v)
	}
}

func snapVal(sb *strings.Builder, fd protoreflect.FieldDescriptor, v protoreflect.Value) {
	switch fd.Kind() {
	case protoreflect.MessageKind, protoreflect.GroupKind:
		snapMsg(sb, v.Message())
	case protoreflect.StringKind:
		sb.WriteString("s" + vh.Hex([]byte(v.String())))
	case protoreflect.BytesKind:
		sb.WriteString("b" + vh.Hex(v.Bytes()))
	case protoreflect.FloatKind:
		fmt.Fprintf(sb, "f%08x", math.Float32bits(float32(v.Float())))
	case protoreflect.DoubleKind:
		fmt.Fprintf(sb, "d%016x", math.Float64bits(v.Float()))
	case protoreflect.EnumKind:
		fmt.Fprintf(sb, "e%d", v.Enum())
	default:
		fmt.Fprintf(sb, "n%v", v.Interface())
	}
}

// snapMsg renders every populated field reachable through the reflection API: fields ascending by
// number, map entries ascending by key, bytes/strings/unknown fields in hex.
func snapMsg(sb *strings.Builder, m protoreflect.Message) {
	type fv struct {
		fd protoreflect.FieldDescriptor
		v  protoreflect.Value
	}
	var fs []fv
	m.Range(func(fd protoreflect.FieldDescriptor, v protoreflect.Value) bool {
		fs = append(fs, fv{fd, v})
		return true
	})
	sort.Slice(fs, func(i, j int) bool { return fs[i].fd.Number() < fs[j].fd.Number() })
	sb.WriteString("(")
	for _, x := range fs {
		fd := x.fd
		fmt.Fprintf(sb, " %d:", fd.Number())
		switch {
		case fd.IsMap():
			var es []string
			x.v.Map().Range(func(k protoreflect.MapKey, v protoreflect.Value) bool {
				var t strings.Builder
				t.WriteString(mapKeyString(k) + "=")
				snapVal(&t, fd.MapValue(), v)
				es = append(es, t.String())
				return true
			})
			sort.Strings(es)
			sb.WriteString("{" + strings.Join(es, ",") + "}")
		case fd.IsList():
			l := x.v.List()
			sb.WriteString("[")
			for i := 0; i < l.Len(); i++ {
				if i > 0 {
					sb.WriteString(",")
				}
				snapVal(sb, fd, l.Get(i))
			}
			sb.WriteString("]")
		default:
			snapVal(sb, fd, x.v)
		}
	}
	sb.WriteString(" u:" + vh.Hex(m.GetUnknown()) + ")")
}

var partialDet = proto.MarshalOptions{AllowPartial: true, Deterministic: true}
var partial = proto.MarshalOptions{AllowPartial: true}

// observe = reflection snapshot + deterministic Marshal bytes (+ error text)
func observe(m protoreflect.Message) string {
	var sb strings.Builder
	snapMsg(&sb, m)
	b, err := partialDet.Marshal(m.Interface())
	sb.WriteString(" | det:" + vh.Hex(b))
	if err != nil {
		sb.WriteString(" err:" + err.Error())
	}
	return sb.String()
}

// hasRefs reports whether the message holds anything that could alias: bytes, strings, unknown
// fields or nested messages.
func hasRefs(m protoreflect.Message) bool {
	found := len(m.GetUnknown()) > 0
	m.Range(func(fd protoreflect.FieldDescriptor, v protoreflect.Value) bool {
		k := fd.Kind()
		if fd.IsMap() {
			k = fd.MapValue().Kind()
			if fd.MapKey().Kind() == protoreflect.StringKind {
				found = true
			}
		}
		switch k {
		case protoreflect.BytesKind, protoreflect.StringKind, protoreflect.MessageKind, protoreflect.GroupKind:
			found = true
		}
		if fd.IsList() {
			found = true // shared backing arrays
		}
		return !found
	})
	return found
}

func firstDiff(a, b string) string {
	n := len(a)
	if len(b) < n {
		n = len(b)
	}
	i := 0
	for i < n && a[i] == b[i] {
		i++
	}
	lo := i - 40
	if lo < 0 {
		lo = 0
	}
	cut := func(s string) string {
		hi := i + 40
		if hi > len(s) {
			hi = len(s)
		}
		if lo > len(s) {
			return ""
		}
		return s[lo:hi]
	}
	return fmt.Sprintf("at %d: before …%s… after …%s…", i, cut(a), cut(b))
}
