package main

// C26, special-cased message types: google.protobuf.Any in prototext (type_url/value fields, expanded `[url] {…}` form,
// mixed) and in protojson ("@type" / "value" / inlined payload fields), with every field named twice and
// first/second occurrence drawn from {empty, non-empty, equal, different}; at top level, as a field value, in a list
// and Any-in-Any.  The documents go through feedText / feedJSON: the duplicate oracles (textHasDup / jsonHasDup,
// decided on the token tree alone) demand rejection, every document runs generated vs dynamicpb under recover().
//
// The other well-known types have no duplication that a document can express: in text they are ordinary messages
// (covered by the ordinary oracle), in JSON wrappers / Duration / Timestamp / FieldMask are scalars, ListValue is an
// array, and the members of a Struct object are map entries (map-key uniqueness is not part of the property).

import (
	"fmt"
	"strings"
)

const (
	urlString = "type.googleapis.com/google.protobuf.StringValue"
	urlEmpty  = "type.googleapis.com/google.protobuf.Empty"
	urlDur    = "type.googleapis.com/google.protobuf.Duration"
	urlAny    = "type.googleapis.com/google.protobuf.Any"
	urlScal   = "type.googleapis.com/pb2.Scalars"
	urlOneof  = "type.googleapis.com/pb3.Oneofs"
)

type anyElem struct {
	kind byte // T V E
	src  string
}

func anyTextElems() map[byte][]anyElem {
	return map[byte][]anyElem{
		'T': {
			{'T', `type_url: ""`},
			{'T', `type_url: "` + urlString + `"`},
			{'T', `type_url: "` + urlEmpty + `"`},
		},
		'V': {
			{'V', `value: ""`},
			{'V', `value: "\n\003abc"`},
			{'V', `value: "\n\001x"`},
		},
		'E': {
			{'E', `[` + urlString + `]: {value: "abc"}`},
			{'E', `[` + urlString + `] {}`},
			{'E', `[` + urlEmpty + `]: {}`},
		},
	}
}

type anyCtx struct {
	root string
	note string
	wrap func(body string) string
}

func anyTextContexts() []anyCtx {
	id := func(b string) string { return b }
	inAny := func(b string) string { return "[" + urlAny + "]: {" + b + "}" }
	return []anyCtx{
		{"google.protobuf.Any", "top level", id},
		{"google.protobuf.Any", "Any in Any (expanded), top level", inAny},
		{"pb2.KnownTypes", "field value", func(b string) string { return "opt_any: {" + b + "}" }},
		{"pb2.KnownTypes", "field value, <> delimiters, no separator", func(b string) string { return "opt_any <" + b + ">" }},
		{"pb2.KnownTypes", "Any in Any, field value", func(b string) string { return "opt_any {" + inAny(b) + "}" }},
		{"protobuf_test_messages.proto3.TestAllTypesProto3", "field value", func(b string) string { return "optional_any {" + b + "}" }},
		{"protobuf_test_messages.proto3.TestAllTypesProto3", "list syntax", func(b string) string { return "repeated_any: [{" + b + "}]" }},
		{"protobuf_test_messages.proto3.TestAllTypesProto3", "second list element", func(b string) string {
			return `repeated_any: [{type_url: "` + urlEmpty + `"}, {` + b + `}]`
		}},
		{"protobuf_test_messages.proto3.TestAllTypesProto3", "repeated field, second occurrence", func(b string) string {
			return `repeated_any {[` + urlEmpty + `] {}} repeated_any {` + b + `}`
		}},
		{"protobuf_test_messages.proto3.TestAllTypesProto3", "inside a nested message", func(b string) string {
			return "recursive_message {optional_nested_message {corecursive {optional_any {" + b + "}}}}"
		}},
	}
}

func anyTextStream(c *C, rs []*Root) {
	elems := anyTextElems()
	pairs := []string{"TT", "VV", "EE", "TE", "ET", "VE", "EV"}
	var bodies []struct{ body, note string }
	add := func(note string, parts ...string) {
		bodies = append(bodies, struct{ body, note string }{strings.Join(parts, " "), note})
	}
	for _, p := range pairs {
		for i, a := range elems[p[0]] {
			for j, b := range elems[p[1]] {
				note := fmt.Sprintf("Any %c(%d) then %c(%d)", p[0], i, p[1], j)
				add(note, a.src, b.src)
				// the other field before / between / after, where that is not a duplicate itself
				var filler string
				switch p {
				case "TT":
					filler = `value: "\n\003abc"`
				case "VV":
					filler = `type_url: "` + urlString + `"`
				}
				if filler != "" {
					add(note+", other field first", filler, a.src, b.src)
					add(note+", other field between", a.src, filler, b.src)
					add(note+", other field last", a.src, b.src, filler)
				}
			}
		}
	}
	// controls without a duplicate (no oracle claim; they keep the stream honest: some must be accepted)
	for _, t := range elems['T'] {
		add("control: type_url only", t.src)
		for _, v := range elems['V'] {
			add("control: type_url and value", t.src, v.src)
			add("control: value and type_url", v.src, t.src)
		}
	}
	for _, e := range elems['E'] {
		add("control: expanded only", e.src)
	}
	add("control: empty", "")
	// separators between the two occurrences are irrelevant to the property: vary them
	seps := []string{" ", ", ", "; ", "\n"}
	for _, ctx := range anyTextContexts() {
		r := rootByName(rs, ctx.root)
		if r == nil {
			continue
		}
		for k, b := range bodies {
			if c.Failed() {
				return
			}
			body := b.body
			if sep := seps[k%len(seps)]; sep != " " {
				body = strings.ReplaceAll(body, `" type_url`, `"`+sep+`type_url`)
				body = strings.ReplaceAll(body, `" value`, `"`+sep+`value`)
			}
			doc := []byte(ctx.wrap(body))
			c.Hist("any-text:doc")
			feedText(c, r, doc, 0, k%2 == 1, "Any, "+ctx.note+": "+b.note)
		}
	}
}

func anyJSONStream(c *C, rs []*Root) {
	q := jstr
	type obj struct{ src, note string }
	var objs []obj
	add := func(note string, members ...string) {
		objs = append(objs, obj{"{" + strings.Join(members, ",") + "}", note})
	}
	ty := func(u string) string { return `"@type":` + q(u) }
	// "@type" twice
	for _, a := range []string{"", urlDur, urlString} {
		for _, b := range []string{"", urlDur, urlString} {
			add(fmt.Sprintf("@type %q then %q", a, b), ty(a), ty(b), `"value":"1s"`)
			add(fmt.Sprintf("@type %q, value, @type %q", a, b), ty(a), `"value":"1s"`, ty(b))
			add(fmt.Sprintf("value, @type %q, @type %q", a, b), `"value":"1s"`, ty(a), ty(b))
		}
	}
	// "value" twice under a payload type with a special JSON form
	type pv struct {
		url  string
		vals []string
	}
	for _, p := range []pv{
		{urlDur, []string{`"1s"`, `"2s"`, `"0s"`}},
		{urlString, []string{`""`, `"abc"`, `"x"`}},
		{urlEmpty, []string{`{}`}},
		{"type.googleapis.com/google.protobuf.Value", []string{`null`, `1`, `"s"`, `{}`}},
		{"type.googleapis.com/google.protobuf.Struct", []string{`{}`, `{"a":1}`}},
		{"type.googleapis.com/google.protobuf.ListValue", []string{`[]`, `[1]`}},
		{"type.googleapis.com/google.protobuf.FieldMask", []string{`""`, `"a.b"`}},
		{"type.googleapis.com/google.protobuf.Timestamp", []string{`"1970-01-01T00:00:00Z"`, `"2000-01-01T00:00:00Z"`}},
		{"type.googleapis.com/google.protobuf.Int32Value", []string{`0`, `7`}},
		{"type.googleapis.com/google.protobuf.BytesValue", []string{`""`, `"YQ=="`}},
	} {
		for _, a := range p.vals {
			for _, b := range p.vals {
				n := fmt.Sprintf("%s value %s then %s", p.url[strings.LastIndex(p.url, ".")+1:], a, b)
				add(n+", @type first", ty(p.url), `"value":`+a, `"value":`+b)
				add(n+", @type between", `"value":`+a, ty(p.url), `"value":`+b)
				add(n+", @type last", `"value":`+a, `"value":`+b, ty(p.url))
			}
			add("control: "+p.url+" value "+a, ty(p.url), `"value":`+a)
		}
	}
	// an ordinary payload: its fields are inlined
	for _, m := range [][2]string{
		{`"optInt32":1`, `"optInt32":2`}, {`"optInt32":0`, `"optInt32":0`}, {`"optInt32":1`, `"opt_int32":1`},
		{`"optString":""`, `"optString":"x"`}, {`"optString":"x"`, `"optString":""`}, {`"optBytes":""`, `"opt_bytes":"YQ=="`},
	} {
		add("payload pb2.Scalars "+m[0]+" then "+m[1]+", @type first", ty(urlScal), m[0], m[1])
		add("payload pb2.Scalars "+m[0]+" then "+m[1]+", @type between", m[0], ty(urlScal), m[1])
		add("payload pb2.Scalars "+m[0]+" then "+m[1]+", @type last", m[0], m[1], ty(urlScal))
	}
	add("payload pb2.Scalars null then value (not a duplicate)", ty(urlScal), `"optInt32":null`, `"optInt32":2`)
	add("payload pb3.Oneofs two members", ty(urlOneof), `"oneofString":""`, `"oneofEnum":"ZERO"`)
	add("payload pb3.Oneofs same member twice", `"oneofString":""`, ty(urlOneof), `"oneofString":"x"`)
	add("control: payload pb2.Scalars", ty(urlScal), `"optInt32":1`, `"optString":""`)
	add("control: empty object")
	type ctx struct {
		root, note string
		wrap       func(string) string
	}
	inAny := func(o string) string { return `{"@type":` + q(urlAny) + `,"value":` + o + `}` }
	ctxs := []ctx{
		{"google.protobuf.Any", "top level", func(o string) string { return o }},
		{"google.protobuf.Any", "Any in Any", inAny},
		{"google.protobuf.Any", "Any in Any in Any", func(o string) string { return inAny(inAny(o)) }},
		{"pb2.KnownTypes", "field value", func(o string) string { return `{"optAny":` + o + `}` }},
		{"pb2.KnownTypes", "Any in Any, field value", func(o string) string { return `{"opt_any":` + inAny(o) + `}` }},
		{"protobuf_test_messages.proto3.TestAllTypesProto3", "field value", func(o string) string { return `{"optionalAny":` + o + `}` }},
		{"protobuf_test_messages.proto3.TestAllTypesProto3", "list element", func(o string) string { return `{"repeatedAny":[{},` + o + `]}` }},
		{"protobuf_test_messages.proto3.TestAllTypesProto3", "inside a nested message", func(o string) string {
			return `{"recursiveMessage":{"optionalNestedMessage":{"corecursive":{"optionalAny":` + o + `}}}}`
		}},
	}
	for _, cx := range ctxs {
		r := rootByName(rs, cx.root)
		if r == nil {
			continue
		}
		for k, o := range objs {
			if c.Failed() {
				return
			}
			c.Hist("any-json:doc")
			feedJSON(c, r, []byte(cx.wrap(o.src)), 0, k%2 == 1, "Any, "+cx.note+": "+o.note)
		}
	}
}
