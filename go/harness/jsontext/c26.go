package main

import (
	"bytes"
	stdjson "encoding/json"
	"fmt"
	"os"
	"os/exec"
	"runtime/debug"
	"strconv"
	"strings"

	"google.golang.org/protobuf/encoding/protojson"
	"google.golang.org/protobuf/encoding/prototext"
	"google.golang.org/protobuf/internal/encoding/json"
	"google.golang.org/protobuf/internal/encoding/text"
	"google.golang.org/protobuf/internal/set"
	"google.golang.org/protobuf/proto"
	"google.golang.org/protobuf/reflect/protoreflect"
	"google.golang.org/protobuf/reflect/protoregistry"
	"google.golang.org/protobuf/types/dynamicpb"
)

const sigSkip10 = "prototext-skip-ignores-recursion-limit"

// ---------------------------------------------------------------- verdict classes

func classJSON(err error) string {
	if err == nil {
		return "ok"
	}
	s := err.Error()
	switch {
	case strings.Contains(s, "duplicate field"):
		return "err dup"
	case strings.Contains(s, "is already set"):
		return "err dupOneof"
	case strings.Contains(s, "duplicate map key"):
		return "err dupKey"
	case strings.Contains(s, "exceeded max recursion depth"):
		return "err depth"
	case strings.Contains(s, "unknown field"):
		return "err unknown"
	case strings.Contains(s, "invalid value for"):
		return "err value"
	case strings.Contains(s, "cannot be extended by"):
		return "err badExt"
	case strings.Contains(s, "unexpected token"):
		return "err syntax"
	}
	return "err lex"
}

func classText(err error) string {
	if err == nil {
		return "ok"
	}
	s := err.Error()
	switch {
	case strings.Contains(s, "is repeated"):
		return "err dup"
	case strings.Contains(s, "is already set"):
		return "err dupOneof"
	case strings.Contains(s, "cannot be repeated"):
		return "err dupEntry"
	case strings.Contains(s, "exceeded maximum recursion depth"):
		return "err depth"
	case strings.Contains(s, "unknown field"), strings.Contains(s, "unknown map entry field"):
		return "err unknown"
	case strings.Contains(s, "invalid value for"):
		return "err value"
	case strings.Contains(s, "cannot be extended by"):
		return "err badExt"
	case strings.Contains(s, "cannot specify field by number"):
		return "err byNumber"
	case strings.Contains(s, "invalid field number"):
		return "err badNum"
	case strings.Contains(s, "missing field separator"):
		return "err noSep"
	case strings.Contains(s, "contains invalid UTF-8"):
		return "err utf8"
	case strings.Contains(s, "unexpected token"):
		return "err syntax"
	}
	return "err lex"
}

// ---------------------------------------------------------------- JSON trees (ordered, duplicates kept)

type jn struct {
	kind  byte // N T F n s [ {
	lit   string
	elems []*jn
	keys  []string
}

func parseJN(b []byte) (*jn, error) {
	dec := json.NewDecoder(b)
	var val func(tok json.Token) (*jn, error)
	val = func(tok json.Token) (*jn, error) {
		switch tok.Kind() {
		case json.Null:
			return &jn{kind: 'N'}, nil
		case json.Bool:
			if tok.Bool() {
				return &jn{kind: 'T'}, nil
			}
			return &jn{kind: 'F'}, nil
		case json.Number:
			return &jn{kind: 'n', lit: tok.RawString()}, nil
		case json.String:
			return &jn{kind: 's', lit: tok.ParsedString()}, nil
		case json.ArrayOpen:
			n := &jn{kind: '['}
			for {
				t, err := dec.Read()
				if err != nil {
					return nil, err
				}
				if t.Kind() == json.ArrayClose {
					return n, nil
				}
				e, err := val(t)
				if err != nil {
					return nil, err
				}
				n.elems = append(n.elems, e)
			}
		case json.ObjectOpen:
			n := &jn{kind: '{'}
			for {
				t, err := dec.Read()
				if err != nil {
					return nil, err
				}
				if t.Kind() == json.ObjectClose {
					return n, nil
				}
				if t.Kind() != json.Name {
					return nil, fmt.Errorf("unexpected")
				}
				v, err := dec.Read()
				if err != nil {
					return nil, err
				}
				e, err := val(v)
				if err != nil {
					return nil, err
				}
				n.keys = append(n.keys, t.Name())
				n.elems = append(n.elems, e)
			}
		}
		return nil, fmt.Errorf("unexpected token")
	}
	tok, err := dec.Read()
	if err != nil {
		return nil, err
	}
	return val(tok)
}

func jstr(s string) string {
	b, _ := stdjson.Marshal(s)
	return string(b)
}

func (n *jn) render(sb *strings.Builder) {
	switch n.kind {
	case 'N':
		sb.WriteString("null")
	case 'T':
		sb.WriteString("true")
	case 'F':
		sb.WriteString("false")
	case 'n':
		sb.WriteString(n.lit)
	case 's':
		sb.WriteString(jstr(n.lit))
	case '[':
		sb.WriteByte('[')
		for i, e := range n.elems {
			if i > 0 {
				sb.WriteByte(',')
			}
			e.render(sb)
		}
		sb.WriteByte(']')
	case '{':
		sb.WriteByte('{')
		for i, e := range n.elems {
			if i > 0 {
				sb.WriteByte(',')
			}
			sb.WriteString(jstr(n.keys[i]))
			sb.WriteByte(':')
			e.render(sb)
		}
		sb.WriteByte('}')
	}
}

func (n *jn) String() string {
	var sb strings.Builder
	n.render(&sb)
	return sb.String()
}

func (n *jn) clone() *jn {
	c := &jn{kind: n.kind, lit: n.lit, keys: append([]string(nil), n.keys...)}
	for _, e := range n.elems {
		c.elems = append(c.elems, e.clone())
	}
	return c
}

// resolveJ: the field a JSON member name denotes (descriptor lookups only)
func resolveJ(md protoreflect.MessageDescriptor, name string) protoreflect.FieldDescriptor {
	if strings.HasPrefix(name, "[") && strings.HasSuffix(name, "]") {
		xt, err := protoregistry.GlobalTypes.FindExtensionByName(protoreflect.FullName(name[1 : len(name)-1]))
		if err != nil || xt.TypeDescriptor().ContainingMessage().FullName() != md.FullName() {
			return nil
		}
		return xt.TypeDescriptor()
	}
	if fd := md.Fields().ByJSONName(name); fd != nil {
		return fd
	}
	return md.Fields().ByTextName(name)
}

type jobj struct {
	n  *jn
	md protoreflect.MessageDescriptor
}

// anyObjectJSON: the JSON form of google.protobuf.Any, decided on the token tree alone: the object names the field
// type_url with every "@type" member; for a payload type with a special JSON form the payload is the "value" member
// (named twice = Any.value set twice; a payload of type Any is another Any object), otherwise the remaining members
// are the fields of the payload message.
func anyObjectJSON(n *jn, out *[]jobj, dup *bool) {
	if n.kind != '{' {
		return
	}
	var urls []*jn
	nval := 0
	for i, k := range n.keys {
		switch k {
		case "@type":
			urls = append(urls, n.elems[i])
		case "value":
			nval++
		}
	}
	if len(urls) > 1 {
		*dup = true
		return
	}
	if len(urls) == 0 || urls[0].kind != 's' {
		return
	}
	mt, err := protoregistry.GlobalTypes.FindMessageByURL(urls[0].lit)
	if err != nil {
		return
	}
	md := mt.Descriptor()
	if isWKT(md) {
		if nval > 1 {
			*dup = true
			return
		}
		if md.FullName() == "google.protobuf.Any" {
			for i, k := range n.keys {
				if k == "value" {
					anyObjectJSON(n.elems[i], out, dup)
				}
			}
		}
		return
	}
	rest := &jn{kind: '{'}
	for i, k := range n.keys {
		if k != "@type" {
			rest.keys = append(rest.keys, k)
			rest.elems = append(rest.elems, n.elems[i])
		}
	}
	objects(rest, md, out, dup)
}

// objects lists the object nodes that the decoder will read as plain messages, with their types
// (and looks into google.protobuf.Any objects: anyObjectJSON).
func objects(n *jn, md protoreflect.MessageDescriptor, out *[]jobj, dup *bool) {
	if md.FullName() == "google.protobuf.Any" {
		anyObjectJSON(n, out, dup)
		return
	}
	if n.kind != '{' || isWKT(md) {
		return
	}
	*out = append(*out, jobj{n, md})
	for i, k := range n.keys {
		fd := resolveJ(md, k)
		if fd == nil {
			continue
		}
		v := n.elems[i]
		switch {
		case fd.IsMap():
			if sub := fd.MapValue().Message(); sub != nil && v.kind == '{' {
				for _, e := range v.elems {
					objects(e, sub, out, dup)
				}
			}
		case fd.IsList():
			if sub := fd.Message(); sub != nil && v.kind == '[' {
				for _, e := range v.elems {
					objects(e, sub, out, dup)
				}
			}
		default:
			if sub := fd.Message(); sub != nil {
				objects(v, sub, out, dup)
			}
		}
	}
}

// oracle of the property: some plain message object sets a non-repeated field twice (under any accepted
// name) or two members of one oneof (JSON null does not set a field unless its type is Value/NullValue)
func jsonHasDup(n *jn, md protoreflect.MessageDescriptor) bool {
	var objs []jobj
	dup := false
	objects(n, md, &objs, &dup)
	if dup {
		return true
	}
	for _, o := range objs {
		seen := map[protoreflect.FieldNumber]bool{}
		oneofs := map[int]bool{}
		for i, k := range o.n.keys {
			fd := resolveJ(o.md, k)
			if fd == nil || fd.IsList() || fd.IsMap() {
				continue
			}
			v := o.n.elems[i]
			nullish := (fd.Message() != nil && fd.Message().FullName() == "google.protobuf.Value") ||
				(fd.Enum() != nil && fd.Enum().FullName() == "google.protobuf.NullValue")
			sets := v.kind != 'N' || nullish
			if !sets {
				continue
			}
			if seen[fd.Number()] {
				return true
			}
			seen[fd.Number()] = true
			if od := fd.ContainingOneof(); od != nil {
				if oneofs[od.Index()] {
					return true
				}
				oneofs[od.Index()] = true
			}
		}
	}
	return false
}

// message nesting through known fields (top message = 1); values of unknown members and of well-known types
// count their JSON container nesting
func jsonDepth(n *jn, md protoreflect.MessageDescriptor) int {
	if n.kind != '{' {
		return 1
	}
	if isWKT(md) {
		return 1
	}
	d := 1
	for i, k := range n.keys {
		fd := resolveJ(md, k)
		if fd == nil {
			continue
		}
		v := n.elems[i]
		var sub protoreflect.MessageDescriptor
		var vals []*jn
		switch {
		case fd.IsMap():
			sub = fd.MapValue().Message()
			if v.kind == '{' {
				vals = v.elems
			}
		case fd.IsList():
			sub = fd.Message()
			if v.kind == '[' {
				vals = v.elems
			}
		default:
			sub = fd.Message()
			vals = []*jn{v}
		}
		if sub == nil {
			continue
		}
		for _, e := range vals {
			if e.kind == 'N' {
				continue
			}
			if x := 1 + jsonDepth(e, sub); x > d {
				d = x
			}
		}
	}
	return d
}

// ---------------------------------------------------------------- JSON document generation

// valueJSON: the JSON value protojson prints for field fd of a freshly filled message
func valueJSON(c *C, md protoreflect.MessageDescriptor, fd protoreflect.FieldDescriptor) *jn {
	m := dynamicpb.NewMessage(md)
	switch {
	case fd.IsMap():
		mp := m.Mutable(fd).Map()
		k := scalar(c, fd.MapKey(), Opts{}).MapKey()
		if fd.MapValue().Message() != nil {
			v := mp.NewValue()
			fill(c, v.Message(), 2, Opts{MaxDepth: 2, NoUnknown: true}, nil)
			mp.Set(k, v)
		} else {
			mp.Set(k, scalar(c, fd.MapValue(), Opts{}))
		}
	case fd.IsList():
		l := m.Mutable(fd).List()
		if fd.Message() != nil {
			e := l.NewElement()
			fill(c, e.Message(), 2, Opts{MaxDepth: 2, NoUnknown: true}, nil)
			l.Append(e)
		} else {
			l.Append(scalar(c, fd, Opts{}))
		}
	case fd.Message() != nil:
		fill(c, m.Mutable(fd).Message(), 2, Opts{MaxDepth: 2, NoUnknown: true}, nil)
	default:
		m.Set(fd, scalar(c, fd, Opts{}))
	}
	b, err := protojson.MarshalOptions{AllowPartial: true}.Marshal(m)
	if err != nil {
		return &jn{kind: 'N'}
	}
	t, err := parseJN(b)
	if err != nil || t.kind != '{' || len(t.elems) == 0 {
		return &jn{kind: 'N'}
	}
	return t.elems[0]
}

func randJSONValue(c *C, depth int) *jn {
	r := c.Rand
	switch k := r.Intn(9); {
	case k == 0:
		return &jn{kind: 'N'}
	case k == 1:
		return &jn{kind: 'T'}
	case k == 2:
		return &jn{kind: 'n', lit: []string{"0", "-1", "1e2", "1.5", "18446744073709551616", "1e400", "-0", "0.000001e21", "123456789012345678901234567890"}[r.Intn(9)]}
	case k == 3:
		return &jn{kind: 's', lit: strsv[r.Intn(len(strsv))]}
	case k <= 5 && depth > 0:
		n := &jn{kind: '['}
		for i := r.Intn(3); i > 0; i-- {
			n.elems = append(n.elems, randJSONValue(c, depth-1))
		}
		return n
	case depth > 0:
		n := &jn{kind: '{'}
		for i := r.Intn(3); i > 0; i-- {
			n.keys = append(n.keys, []string{"a", "b", "a", "@type", "value", ""}[r.Intn(6)])
			n.elems = append(n.elems, randJSONValue(c, depth-1))
		}
		return n
	}
	return &jn{kind: 'F'}
}

func altNames(fd protoreflect.FieldDescriptor) []string {
	return []string{fd.JSONName(), fd.TextName(), string(fd.Name())}
}

// mutateJSON applies one grammar-aware mutation; returns its name.
func mutateJSON(c *C, t *jn, md protoreflect.MessageDescriptor) string {
	r := c.Rand
	var objs []jobj
	var ignored bool
	objects(t, md, &objs, &ignored)
	if len(objs) == 0 {
		return "none"
	}
	o := objs[r.Intn(len(objs))]
	insert := func(k string, v *jn) {
		i := r.Intn(len(o.n.keys) + 1)
		o.n.keys = append(o.n.keys[:i], append([]string{k}, o.n.keys[i:]...)...)
		o.n.elems = append(o.n.elems[:i], append([]*jn{v}, o.n.elems[i:]...)...)
	}
	fds := o.md.Fields()
	switch r.Intn(12) {
	case 0, 1: // name an existing member again, under one of the accepted names
		if len(o.n.keys) == 0 {
			return "none"
		}
		i := r.Intn(len(o.n.keys))
		fd := resolveJ(o.md, o.n.keys[i])
		if fd == nil {
			return "none"
		}
		names := altNames(fd)
		v := o.n.elems[i].clone()
		switch r.Intn(3) {
		case 0:
			v = &jn{kind: 'N'}
		case 1:
			v = valueJSON(c, o.md, fd)
		}
		insert(names[r.Intn(len(names))], v)
		return "dup-name"
	case 2: // a member of the descriptor twice, json_name and proto name
		if fds.Len() == 0 {
			return "none"
		}
		fd := fds.Get(r.Intn(fds.Len()))
		insert(fd.JSONName(), valueJSON(c, o.md, fd))
		insert(fd.TextName(), valueJSON(c, o.md, fd))
		return "dup-both-names"
	case 3, 4: // two members of one oneof
		ods := o.md.Oneofs()
		var real []protoreflect.OneofDescriptor
		for i := 0; i < ods.Len(); i++ {
			if ods.Get(i).Fields().Len() >= 2 {
				real = append(real, ods.Get(i))
			}
		}
		if len(real) == 0 {
			return "none"
		}
		od := real[r.Intn(len(real))]
		a := od.Fields().Get(r.Intn(od.Fields().Len()))
		b := od.Fields().Get(r.Intn(od.Fields().Len()))
		va, vb := valueJSON(c, o.md, a), valueJSON(c, o.md, b)
		if r.Intn(4) == 0 {
			va = &jn{kind: 'N'}
		}
		insert(a.JSONName(), va)
		insert(b.TextName(), vb)
		return "oneof-two"
	case 5: // unknown member
		insert([]string{"zzUnknown", "[not.an.ext]", "@type", "[goproto.proto.test.optional_int32]", "[pb2.opt_ext_bool]"}[r.Intn(5)], randJSONValue(c, 3))
		return "unknown-member"
	case 6: // null
		if len(o.n.elems) == 0 {
			return "none"
		}
		o.n.elems[r.Intn(len(o.n.elems))] = &jn{kind: 'N'}
		return "null-value"
	case 7: // wrong shape
		if len(o.n.elems) == 0 {
			return "none"
		}
		o.n.elems[r.Intn(len(o.n.elems))] = randJSONValue(c, 2)
		return "random-value"
	case 8: // add a valid member
		if fds.Len() == 0 {
			return "none"
		}
		fd := fds.Get(r.Intn(fds.Len()))
		insert(altNames(fd)[r.Intn(3)], valueJSON(c, o.md, fd))
		return "add-member"
	case 9: // list / map nulls and duplicates inside
		for i, k := range o.n.keys {
			fd := resolveJ(o.md, k)
			if fd == nil {
				continue
			}
			v := o.n.elems[i]
			if fd.IsMap() && v.kind == '{' && len(v.keys) > 0 {
				j := r.Intn(len(v.keys))
				v.keys = append(v.keys, v.keys[j])
				v.elems = append(v.elems, v.elems[j].clone())
				return "dup-map-key"
			}
			if fd.IsList() && v.kind == '[' {
				v.elems = append(v.elems, &jn{kind: 'N'})
				return "null-in-list"
			}
		}
		return "none"
	case 10: // numbers as strings and strings as numbers
		for i := range o.n.elems {
			v := o.n.elems[i]
			if v.kind == 'n' {
				o.n.elems[i] = &jn{kind: 's', lit: []string{v.lit, " " + v.lit, v.lit + " ", "+" + v.lit}[r.Intn(4)]}
				return "number-as-string"
			}
			if v.kind == 's' && r.Intn(2) == 0 {
				if _, err := strconv.ParseFloat(v.lit, 64); err == nil {
					o.n.elems[i] = &jn{kind: 'n', lit: v.lit}
					return "string-as-number"
				}
			}
		}
		return "none"
	default:
		return "none"
	}
}

// mutateBytes: structure-unaware damage
func mutateBytes(c *C, b []byte) ([]byte, string) {
	r := c.Rand
	b = append([]byte{}, b...)
	if len(b) == 0 {
		return []byte{byte(r.Intn(256))}, "single"
	}
	switch r.Intn(9) {
	case 0:
		return b[:r.Intn(len(b))], "truncate"
	case 1:
		b[r.Intn(len(b))] ^= byte(1 << uint(r.Intn(8)))
		return b, "bitflip"
	case 2:
		i := r.Intn(len(b))
		inss := []string{"\"", "\\", "\\u12", "\\x", "\xff", "\xc0\x80", "{", "}", "[", "]", ",", ":", "1e999999", "99999999999999999999999999", "\\ud800", "'", "<", ">", "#", ";", "- ", "0x", "08", "1f", ".", "\"\n\""}
		ins := inss[r.Intn(len(inss))]
		return append(b[:i:i], append([]byte(ins), b[i:]...)...), "insert"
	case 3:
		i := r.Intn(len(b))
		return append(b[:i:i], b[i+1:]...), "drop"
	case 4:
		i := r.Intn(len(b))
		j := i + r.Intn(len(b)-i)
		return append(b[:j:j], append(append([]byte{}, b[i:j]...), b[j:]...)...), "dup-slice"
	case 5:
		i := r.Intn(len(b))
		return append(append([]byte{}, b[i:]...), b[:i]...), "rotate"
	case 6:
		pn := []byte("\"\\{}[],: \x00\xff'<>#;")
		b[r.Intn(len(b))] = pn[r.Intn(len(pn))]
		return b, "punct"
	case 7:
		return append(b, b...), "double"
	default:
		return b, "none"
	}
}

var jsonSoup = []string{"{", "}", "[", "]", ",", ":", "null", "true", "false", "0", "-1", "1e5", "\"a\"", "\"optionalInt32\"", "\"optional_nested_message\"", "\"@type\"", "\"value\"", " ", "\"\\u0000\"", "1.", "\"", "\\"}
var textSoup = []string{"{", "}", "<", ">", "[", "]", ",", ";", ":", "optional_int32", "optional_nested_message", "a", "key", "value", "1", "-1", "0x1f", "1.5e3", "inf", "-inf", "nan", "true", "FOO", "\"s\"", "'s'", "[pb2.opt_ext_bool]", "[type.googleapis.com/pb2.Nested]", "#c\n", " ", "5", "-", "\"", "\\"}

func soup(c *C, toks []string) []byte {
	var sb strings.Builder
	for i := c.Rand.Intn(14); i >= 0; i-- {
		sb.WriteString(toks[c.Rand.Intn(len(toks))])
		if c.Rand.Intn(3) == 0 {
			sb.WriteByte(' ')
		}
	}
	return []byte(sb.String())
}

type c26input struct {
	Format  string `json:"format"`
	Type    string `json:"type"`
	Doc     string `json:"doc,omitempty"`
	DocHex  string `json:"doc_hex,omitempty"`
	Limit   int    `json:"recursion_limit"`
	Discard bool   `json:"discard_unknown"`
	Note    string `json:"note,omitempty"`
}

func docInput(format string, r *Root, doc []byte, limit int, discard bool, note string) c26input {
	in := c26input{Format: format, Type: r.Name, Limit: limit, Discard: discard, Note: note}
	if len(doc) <= 2000 {
		in.Doc = string(doc)
		in.DocHex = fmt.Sprintf("%x", doc)
	} else {
		in.Doc = string(doc[:300]) + "…"
		in.Note += fmt.Sprintf(" (document of %d bytes, regenerate from the note)", len(doc))
	}
	return in
}

// feedJSON runs one document through protojson (generated + dynamicpb), the model and the oracles.
func feedJSON(c *C, r *Root, doc []byte, limit int, discard bool, note string) {
	in := docInput("json", r, doc, limit, discard, note)
	opts := protojson.UnmarshalOptions{AllowPartial: true, DiscardUnknown: discard, RecursionLimit: limit}
	var classes [2]string
	var snaps [2]string
	for i, mt := range []protoreflect.MessageType{r.MT, r.DT} {
		m := mt.New().Interface()
		var err error
		panicked := true
		func() {
			defer c.Recover("protojson.Unmarshal panics", in, "")
			err = opts.Unmarshal(doc, m)
			panicked = false
		}()
		if panicked {
			return
		}
		classes[i] = classJSON(err)
		if err == nil {
			snaps[i] = Snap(m.ProtoReflect())
		}
	}
	c.Hist("json:" + classes[0])
	c.Compare("protojson.Unmarshal verdict generated vs dynamicpb", in, classes[0], classes[1])
	if classes[0] == "ok" && classes[1] == "ok" {
		c.Compare("protojson.Unmarshal result generated vs dynamicpb", in, snaps[0], snaps[1])
	}
	t, perr := parseJN(doc)
	effLimit := limit
	if effLimit == 0 {
		effLimit = 10000
	}
	nontrivial := false
	if perr == nil {
		md := r.MT.Descriptor()
		// the property, evaluated on the implementation
		if jsonHasDup(t, md) {
			c.Hist("json-oracle:dup")
			c.Check(classes[0] != "ok", "protojson.Unmarshal accepts a document that sets a non-repeated field twice or two members of a oneof", in, "")
		}
		if d := jsonDepth(t, md); d > effLimit {
			c.Hist("json-oracle:too-deep")
			c.Check(classes[0] != "ok", fmt.Sprintf("protojson.Unmarshal accepts a document nested %d deep with RecursionLimit %d", d, effLimit), in, "")
		}
		if _, depth, terr := jsonTree(doc, false); terr == nil && depth > 2*effLimit+2 {
			c.Hist("json-oracle:containers-too-deep")
			c.Check(classes[0] != "ok", fmt.Sprintf("protojson.Unmarshal accepts %d nested JSON containers with RecursionLimit %d", depth, effLimit), in, "")
		}
		// the model
		if install(c, r) {
			if tree, _, terr := jsonTree(doc, true); terr == nil && len(tree) < 400000 {
				ans := c.Ask("fromjson 0 %d %d %s", effLimit, b2i(discard), tree)
				switch {
				case ans == "err delegated":
					c.Hist("json-model:delegated")
				case classes[0] == "err lex":
					// the tokenizer accepted the document but the decoder reports an error the model does not know
					c.Hist("json-model:impl-lex")
					c.Compare("fromJSON verdict", in, classes[0], ans)
				default:
					c.Hist("json-model:" + strings.SplitN(ans, " (", 2)[0])
					impl := classes[0]
					if impl == "ok" {
						impl = "ok " + snaps[0]
					}
					nontrivial = true
					c.Compare("fromJSON verdict and message", in, impl, ans)
				}
			}
		}
	}
	c.Case("json:"+r.Name+hashKey(string(doc))+fmt.Sprint(limit, discard), nontrivial)
}

// ---------------------------------------------------------------- text trees

type tn struct {
	kind byte   // s(calar) m(essage) l(ist)
	raw  string // scalar as written
}
type tfield struct {
	nameKind byte // i t #
	name     string
	sep      bool
	val      *tv
}
type tv struct {
	kind   byte // 's' scalar, '{' message, '[' list
	raw    string
	fields []*tfield
	elems  []*tv
}

func parseTV(b []byte) ([]*tfield, error) {
	dec := text.NewDecoder(b)
	var fields func(top bool) ([]*tfield, error)
	var value func() (*tv, error)
	value = func() (*tv, error) {
		tok, err := dec.Read()
		if err != nil {
			return nil, err
		}
		switch tok.Kind() {
		case text.Scalar:
			return &tv{kind: 's', raw: tok.RawString()}, nil
		case text.MessageOpen:
			fs, err := fields(false)
			if err != nil {
				return nil, err
			}
			return &tv{kind: '{', fields: fs}, nil
		case text.ListOpen:
			l := &tv{kind: '['}
			for {
				t, err := dec.Peek()
				if err != nil {
					return nil, err
				}
				if t.Kind() == text.ListClose {
					dec.Read()
					return l, nil
				}
				if t.Kind() != text.Scalar && t.Kind() != text.MessageOpen {
					return nil, fmt.Errorf("unexpected token in list")
				}
				e, err := value()
				if err != nil {
					return nil, err
				}
				l.elems = append(l.elems, e)
			}
		}
		return nil, fmt.Errorf("unexpected token")
	}
	fields = func(top bool) ([]*tfield, error) {
		var out []*tfield
		for {
			tok, err := dec.Read()
			if err != nil {
				return nil, err
			}
			switch tok.Kind() {
			case text.EOF:
				if top {
					return out, nil
				}
				return nil, text.ErrUnexpectedEOF
			case text.MessageClose:
				if top {
					return nil, fmt.Errorf("unexpected }")
				}
				return out, nil
			case text.Name:
			default:
				return nil, fmt.Errorf("unexpected token")
			}
			f := &tfield{sep: tok.HasSeparator()}
			switch tok.NameKind() {
			case text.IdentName:
				f.nameKind, f.name = 'i', tok.IdentName()
			case text.TypeName:
				f.nameKind, f.name = 't', tok.TypeName()
			case text.FieldNumber:
				f.nameKind, f.name = '#', strconv.Itoa(int(tok.FieldNumber()))
			}
			v, err := value()
			if err != nil {
				return nil, err
			}
			f.val = v
			out = append(out, f)
		}
	}
	return fields(true)
}

func (v *tv) render(sb *strings.Builder, c *C) {
	switch v.kind {
	case 's':
		sb.WriteString(v.raw)
	case '{':
		open, cl := "{", "}"
		if c != nil && c.Rand.Intn(8) == 0 {
			open, cl = "<", ">"
		}
		sb.WriteString(open)
		renderFields(sb, v.fields, c)
		sb.WriteString(cl)
	case '[':
		sb.WriteByte('[')
		for i, e := range v.elems {
			if i > 0 {
				sb.WriteByte(',')
			}
			e.render(sb, c)
		}
		sb.WriteByte(']')
	}
}

func renderFields(sb *strings.Builder, fs []*tfield, c *C) {
	for i, f := range fs {
		if i > 0 {
			if c != nil && c.Rand.Intn(6) == 0 {
				sb.WriteString([]string{", ", "; ", "\n"}[c.Rand.Intn(3)])
			} else {
				sb.WriteByte(' ')
			}
		}
		switch f.nameKind {
		case 't':
			sb.WriteString("[" + f.name + "]")
		default:
			sb.WriteString(f.name)
		}
		if f.sep {
			sb.WriteByte(':')
		}
		sb.WriteByte(' ')
		f.val.render(sb, c)
	}
}

func (v *tv) clone() *tv {
	c := &tv{kind: v.kind, raw: v.raw}
	for _, f := range v.fields {
		c.fields = append(c.fields, &tfield{f.nameKind, f.name, f.sep, f.val.clone()})
	}
	for _, e := range v.elems {
		c.elems = append(c.elems, e.clone())
	}
	return c
}

// resolveT: the field a text name denotes
func resolveT(md protoreflect.MessageDescriptor, f *tfield) protoreflect.FieldDescriptor {
	switch f.nameKind {
	case 'i':
		return md.Fields().ByTextName(f.name)
	case 't':
		xt, err := protoregistry.GlobalTypes.FindExtensionByName(protoreflect.FullName(f.name))
		if err != nil || xt.TypeDescriptor().ContainingMessage().FullName() != md.FullName() {
			return nil
		}
		return xt.TypeDescriptor()
	}
	return nil
}

type tobj struct {
	fs *[]*tfield
	md protoreflect.MessageDescriptor
}

// tobjects lists the message bodies with their types.  google.protobuf.Any has its own spelling rules, decided on the
// token tree alone: `type_url:` names Any.type_url, `value:` names Any.value, the expanded form `[url] {…}` names BOTH
// (and its body is a message of the type the URL resolves to); a field named twice sets *dup.  So does a map entry
// that names `key` or `value` twice.
func tobjects(fs *[]*tfield, md protoreflect.MessageDescriptor, out *[]tobj, dup *bool) {
	if md.FullName() == "google.protobuf.Any" {
		nt, nv := 0, 0
		seq := ""
		for _, f := range *fs {
			switch {
			case f.nameKind == 'i' && f.name == "type_url":
				nt++
				seq += "T"
			case f.nameKind == 'i' && f.name == "value":
				nv++
				seq += "V"
			case f.nameKind == 't':
				nt++
				nv++
				seq += "E"
				if f.val.kind == '{' {
					if mt, err := protoregistry.GlobalTypes.FindMessageByURL(f.name); err == nil {
						tobjects(&f.val.fields, mt.Descriptor(), out, dup)
					}
				}
			}
		}
		if seq == "VE" && exceptValueThenExpanded {
			// classifier of the former finding prototext-any-value-then-expanded-accepted (fixed in /repo 9e1c44b): `value: … [url] {…}` and nothing else
			return
		}
		if nt > 1 || nv > 1 {
			*dup = true
		}
		return
	}
	*out = append(*out, tobj{fs, md})
	for _, f := range *fs {
		fd := resolveT(md, f)
		if fd == nil {
			continue
		}
		var vals []*tv
		if f.val.kind == '[' {
			vals = f.val.elems
		} else {
			vals = []*tv{f.val}
		}
		for _, v := range vals {
			if v.kind != '{' {
				continue
			}
			switch {
			case fd.IsMap():
				nk, nv := 0, 0
				for _, ef := range v.fields {
					if ef.nameKind == 'i' && ef.name == "key" {
						nk++
					}
					if ef.nameKind == 'i' && ef.name == "value" {
						nv++
					}
				}
				if nk > 1 || nv > 1 {
					*dup = true
				}
				if sub := fd.MapValue().Message(); sub != nil {
					for _, ef := range v.fields {
						if ef.nameKind == 'i' && ef.name == "value" && ef.val.kind == '{' {
							tobjects(&ef.val.fields, sub, out, dup)
						}
					}
				}
			default:
				if sub := fd.Message(); sub != nil {
					tobjects(&v.fields, sub, out, dup)
				}
			}
		}
	}
}

// exceptValueThenExpanded makes the oracle overlook the one pattern of the former finding sigAnyVE (fixed in /repo
// 9e1c44b; classifier only, kept so that a regression is reported under the old signature)
var exceptValueThenExpanded bool

const sigAnyVE = "prototext-any-value-then-expanded-accepted"

// textDupSig: "" unless every duplicate of the document is an Any body of the form `value: … [url] {…}`
func textDupSig(fs []*tfield, md protoreflect.MessageDescriptor) string {
	exceptValueThenExpanded = true
	other := textHasDup(fs, md)
	exceptValueThenExpanded = false
	if !other {
		return sigAnyVE
	}
	return ""
}

// oracle: a singular field named twice or two members of a oneof in one message
func textHasDup(fs []*tfield, md protoreflect.MessageDescriptor) bool {
	var objs []tobj
	dup := false
	tobjects(&fs, md, &objs, &dup)
	if dup {
		return true
	}
	for _, o := range objs {
		seen := map[protoreflect.FieldNumber]bool{}
		oneofs := map[int]bool{}
		for _, f := range *o.fs {
			fd := resolveT(o.md, f)
			if fd == nil || fd.IsList() || fd.IsMap() {
				continue
			}
			if seen[fd.Number()] {
				return true
			}
			seen[fd.Number()] = true
			if od := fd.ContainingOneof(); od != nil {
				if oneofs[od.Index()] {
					return true
				}
				oneofs[od.Index()] = true
			}
		}
	}
	return false
}

// message nesting through known fields (top = 1; a map entry counts as a message)
func textDepth(fs []*tfield, md protoreflect.MessageDescriptor) int {
	d := 1
	if md.FullName() == "google.protobuf.Any" {
		return 1
	}
	for _, f := range fs {
		fd := resolveT(md, f)
		if fd == nil {
			continue
		}
		var vals []*tv
		if f.val.kind == '[' {
			vals = f.val.elems
		} else {
			vals = []*tv{f.val}
		}
		for _, v := range vals {
			if v.kind != '{' {
				continue
			}
			x := 0
			switch {
			case fd.IsMap():
				x = 2
				if sub := fd.MapValue().Message(); sub != nil {
					for _, ef := range v.fields {
						if ef.nameKind == 'i' && ef.name == "value" && ef.val.kind == '{' {
							if y := 2 + textDepth(ef.val.fields, sub); y > x {
								x = y
							}
						}
					}
				}
			default:
				if sub := fd.Message(); sub != nil {
					x = 1 + textDepth(v.fields, sub)
				}
			}
			if x > d {
				d = x
			}
		}
	}
	return d
}

// syntactic nesting of message braces (top = 1)
func textBraces(fs []*tfield) int {
	d := 1
	for _, f := range fs {
		var vals []*tv
		if f.val.kind == '[' {
			vals = f.val.elems
		} else {
			vals = []*tv{f.val}
		}
		for _, v := range vals {
			if v.kind == '{' {
				if x := 1 + textBraces(v.fields); x > d {
					d = x
				}
			}
		}
	}
	return d
}

func valueText(c *C, md protoreflect.MessageDescriptor, fd protoreflect.FieldDescriptor) *tfield {
	m := dynamicpb.NewMessage(md)
	switch {
	case fd.IsMap():
		mp := m.Mutable(fd).Map()
		k := scalar(c, fd.MapKey(), Opts{}).MapKey()
		if fd.MapValue().Message() != nil {
			v := mp.NewValue()
			fill(c, v.Message(), 2, Opts{MaxDepth: 2, NoUnknown: true}, nil)
			mp.Set(k, v)
		} else {
			mp.Set(k, scalar(c, fd.MapValue(), Opts{}))
		}
	case fd.IsList():
		l := m.Mutable(fd).List()
		if fd.Message() != nil {
			e := l.NewElement()
			fill(c, e.Message(), 2, Opts{MaxDepth: 2, NoUnknown: true}, nil)
			l.Append(e)
		} else {
			l.Append(scalar(c, fd, Opts{}))
		}
	case fd.Message() != nil:
		fill(c, m.Mutable(fd).Message(), 2, Opts{MaxDepth: 2, NoUnknown: true}, nil)
	default:
		m.Set(fd, scalar(c, fd, Opts{}))
	}
	b, err := prototext.MarshalOptions{AllowPartial: true}.Marshal(m)
	if err != nil {
		return nil
	}
	fs, err := parseTV(b)
	if err != nil || len(fs) == 0 {
		return nil
	}
	return fs[0]
}

func randTextValue(c *C, depth int) *tv {
	r := c.Rand
	switch k := r.Intn(8); {
	case k <= 2:
		return &tv{kind: 's', raw: []string{"1", "-5", "0x1F", "017", "1.5", "1e3", "inf", "-inf", "nan", "true", "f", "FOO", "\"str\"", "'a' \"b\"", "18446744073709551616", "1f", "-0"}[r.Intn(17)]}
	case k <= 4 && depth > 0:
		v := &tv{kind: '{'}
		for i := r.Intn(3); i > 0; i-- {
			v.fields = append(v.fields, &tfield{'i', []string{"a", "b", "key", "value"}[r.Intn(4)], r.Intn(3) != 0, randTextValue(c, depth-1)})
		}
		return v
	case depth > 0:
		v := &tv{kind: '['}
		msgs := r.Intn(2) == 0
		for i := r.Intn(3); i > 0; i-- {
			e := randTextValue(c, depth-1)
			if e.kind == '[' || (msgs && e.kind != '{') || (!msgs && e.kind != 's') {
				continue
			}
			v.elems = append(v.elems, e)
		}
		return v
	}
	return &tv{kind: 's', raw: "0"}
}

func mutateText(c *C, fs *[]*tfield, md protoreflect.MessageDescriptor) string {
	r := c.Rand
	var objs []tobj
	var ignored bool
	tobjects(fs, md, &objs, &ignored)
	if len(objs) == 0 {
		return "none"
	}
	o := objs[r.Intn(len(objs))]
	insert := func(f *tfield) {
		if f == nil {
			return
		}
		i := r.Intn(len(*o.fs) + 1)
		*o.fs = append((*o.fs)[:i], append([]*tfield{f}, (*o.fs)[i:]...)...)
	}
	fds := o.md.Fields()
	switch r.Intn(12) {
	case 0, 1: // an existing field again
		if len(*o.fs) == 0 {
			return "none"
		}
		f := (*o.fs)[r.Intn(len(*o.fs))]
		insert(&tfield{f.nameKind, f.name, f.sep, f.val.clone()})
		return "repeat-field"
	case 2: // a singular field twice with fresh values
		if fds.Len() == 0 {
			return "none"
		}
		fd := fds.Get(r.Intn(fds.Len()))
		insert(valueText(c, o.md, fd))
		insert(valueText(c, o.md, fd))
		return "field-twice"
	case 3, 4: // two members of a oneof
		ods := o.md.Oneofs()
		var real []protoreflect.OneofDescriptor
		for i := 0; i < ods.Len(); i++ {
			if ods.Get(i).Fields().Len() >= 2 {
				real = append(real, ods.Get(i))
			}
		}
		if len(real) == 0 {
			return "none"
		}
		od := real[r.Intn(len(real))]
		insert(valueText(c, o.md, od.Fields().Get(r.Intn(od.Fields().Len()))))
		insert(valueText(c, o.md, od.Fields().Get(r.Intn(od.Fields().Len()))))
		return "oneof-two"
	case 5: // list syntax on some field
		if len(*o.fs) == 0 {
			return "none"
		}
		f := (*o.fs)[r.Intn(len(*o.fs))]
		if f.val.kind == '[' {
			return "none"
		}
		l := &tv{kind: '['}
		for i := r.Intn(3); i > 0; i-- {
			l.elems = append(l.elems, f.val.clone())
		}
		f.val = l
		return "list-syntax"
	case 6: // drop or add the separator
		if len(*o.fs) == 0 {
			return "none"
		}
		f := (*o.fs)[r.Intn(len(*o.fs))]
		f.sep = !f.sep
		return "flip-separator"
	case 7: // unknown / reserved / numbered / extension names
		nm := []tfield{{'i', "zz_unknown", true, nil}, {'i', "reserved_field", true, nil}, {'#', "1", true, nil}, {'#', "99999", true, nil},
			{'#', "0", true, nil}, {'#', "536870912", true, nil}, {'t', "not.an.ext", true, nil}, {'t', "pb2.opt_ext_bool", true, nil},
			{'t', "goproto.proto.test.optional_int32", true, nil}, {'i', "OptGroup", false, nil}, {'i', "optgroup", false, nil}}[r.Intn(11)]
		nm.val = randTextValue(c, 3)
		if nm.val.kind == '{' && r.Intn(2) == 0 {
			nm.sep = false
		}
		insert(&nm)
		return "unknown-name"
	case 8: // random value
		if len(*o.fs) == 0 {
			return "none"
		}
		(*o.fs)[r.Intn(len(*o.fs))].val = randTextValue(c, 2)
		return "random-value"
	case 9: // map entry damage
		for _, f := range *o.fs {
			fd := resolveT(o.md, f)
			if fd != nil && fd.IsMap() && f.val.kind == '{' && len(f.val.fields) > 0 {
				e := f.val.fields[r.Intn(len(f.val.fields))]
				switch r.Intn(3) {
				case 0:
					f.val.fields = append(f.val.fields, &tfield{e.nameKind, e.name, e.sep, e.val.clone()})
				case 1:
					f.val.fields = f.val.fields[:len(f.val.fields)-1]
				case 2:
					f.val.fields = append(f.val.fields, &tfield{'i', "other", true, randTextValue(c, 2)})
				}
				return "map-entry"
			}
		}
		return "none"
	case 10: // add a valid field
		if fds.Len() == 0 {
			return "none"
		}
		insert(valueText(c, o.md, fds.Get(r.Intn(fds.Len()))))
		return "add-field"
	default:
		return "none"
	}
}

func feedText(c *C, r *Root, doc []byte, limit int, discard bool, note string) {
	in := docInput("text", r, doc, limit, discard, note)
	opts := prototext.UnmarshalOptions{AllowPartial: true, DiscardUnknown: discard, RecursionLimit: limit}
	var classes [2]string
	var snaps [2]string
	for i, mt := range []protoreflect.MessageType{r.MT, r.DT} {
		m := mt.New().Interface()
		var err error
		panicked := true
		func() {
			defer c.Recover("prototext.Unmarshal panics", in, "")
			err = opts.Unmarshal(doc, m)
			panicked = false
		}()
		if panicked {
			return
		}
		classes[i] = classText(err)
		if err == nil {
			snaps[i] = Snap(m.ProtoReflect())
		}
	}
	c.Hist("text:" + classes[0])
	c.Compare("prototext.Unmarshal verdict generated vs dynamicpb", in, classes[0], classes[1])
	if classes[0] == "ok" && classes[1] == "ok" {
		c.Compare("prototext.Unmarshal result generated vs dynamicpb", in, snaps[0], snaps[1])
	}
	effLimit := limit
	if effLimit == 0 {
		effLimit = 10000
	}
	fs, perr := parseTV(doc)
	nontrivial := false
	if perr == nil {
		md := r.MT.Descriptor()
		if textHasDup(fs, md) {
			c.Hist("text-oracle:dup")
			checkSig(c, classes[0] != "ok", "prototext.Unmarshal accepts a document that sets a non-repeated field twice or two members of a oneof", in, textDupSig(fs, md))
		}
		known := textDepth(fs, md)
		braces := textBraces(fs)
		if known > effLimit {
			c.Hist("text-oracle:too-deep-known")
			c.Check(classes[0] != "ok", fmt.Sprintf("prototext.Unmarshal accepts a document nested %d deep through known fields with RecursionLimit %d", known, effLimit), in, "")
		} else if braces > effLimit {
			c.Hist("text-oracle:too-deep-skipped")
			// the excess nesting lies in values that are skipped (unknown or reserved names): skipMessageValue counts
			// them since /repo 5d21ab7 (DESIGN finding 10, fixed); a regression is reported under the old signature
			checkSig(c, classes[0] != "ok", fmt.Sprintf("prototext.Unmarshal accepts a document nested %d deep (inside skipped values) with RecursionLimit %d", braces, effLimit), in, sigSkip10)
		}
		if install(c, r) {
			if tree, _, terr := textTree(doc, true); terr == nil && len(tree) < 400000 {
				ans := c.Ask("fromtext 0 %d %d %s", effLimit, b2i(discard), tree)
				switch {
				case ans == "err delegated":
					c.Hist("text-model:delegated")
				default:
					c.Hist("text-model:" + strings.SplitN(ans, " (", 2)[0])
					impl := classes[0]
					if impl == "ok" {
						impl = "ok " + snaps[0]
					}
					nontrivial = true
					c.Compare("fromText verdict and message", in, impl, ans)
				}
			}
		}
	}
	c.Case("text:"+r.Name+hashKey(string(doc))+fmt.Sprint(limit, discard), nontrivial)
}

// ---------------------------------------------------------------- nesting around the limit

type hop struct {
	fd   protoreflect.FieldDescriptor
	next protoreflect.MessageDescriptor
}

// cycle finds a path of message-typed fields from md back to md (length <= 3)
func cycle(md protoreflect.MessageDescriptor, want func(fd protoreflect.FieldDescriptor) bool) []hop {
	var best []hop
	var dfs func(cur protoreflect.MessageDescriptor, path []hop)
	dfs = func(cur protoreflect.MessageDescriptor, path []hop) {
		if len(path) > 0 && cur.FullName() == md.FullName() {
			if best == nil || len(path) < len(best) {
				best = append([]hop(nil), path...)
			}
			return
		}
		if len(path) >= 3 || isWKT(cur) {
			return
		}
		fds := cur.Fields()
		for i := 0; i < fds.Len(); i++ {
			fd := fds.Get(i)
			var sub protoreflect.MessageDescriptor
			if fd.IsMap() {
				sub = fd.MapValue().Message()
			} else {
				sub = fd.Message()
			}
			if sub == nil || !want(fd) || fd.ContainingOneof() != nil && len(path) > 0 && path[0].fd == fd {
				continue
			}
			dfs(sub, append(path, hop{fd, sub}))
		}
	}
	dfs(md, nil)
	return best
}

func nestJSON(path []hop, levels int) []byte {
	var open, cl strings.Builder
	n := 1
	open.WriteString("{")
	cl.WriteString("}")
	closers := []string{"}"}
	for n < levels {
		h := path[(n-1)%len(path)]
		switch {
		case h.fd.IsMap():
			open.WriteString(jstr(h.fd.JSONName()) + ":{" + mapKeyJSON(h.fd) + ":{")
			closers = append(closers, "}}")
		case h.fd.IsList():
			open.WriteString(jstr(h.fd.JSONName()) + ":[{")
			closers = append(closers, "}]")
		default:
			open.WriteString(jstr(h.fd.JSONName()) + ":{")
			closers = append(closers, "}")
		}
		n++
	}
	var sb strings.Builder
	sb.WriteString(open.String())
	for i := len(closers) - 1; i >= 0; i-- {
		sb.WriteString(closers[i])
	}
	return []byte(sb.String())
}

func mapKeyJSON(fd protoreflect.FieldDescriptor) string {
	switch fd.MapKey().Kind() {
	case protoreflect.StringKind:
		return `"k"`
	case protoreflect.BoolKind:
		return `"true"`
	}
	return `"1"`
}

func mapKeyText(fd protoreflect.FieldDescriptor) string {
	switch fd.MapKey().Kind() {
	case protoreflect.StringKind:
		return `"k"`
	case protoreflect.BoolKind:
		return `true`
	}
	return `1`
}

func nestText(path []hop, levels int, listSyntax bool) []byte {
	var open strings.Builder
	var closers []string
	n := 1
	for n < levels {
		h := path[(n-1)%len(path)]
		switch {
		case h.fd.IsMap():
			open.WriteString(h.fd.TextName() + ":{key:" + mapKeyText(h.fd) + " value:{")
			closers = append(closers, "}}")
		case h.fd.IsList() && listSyntax:
			open.WriteString(h.fd.TextName() + ":[{")
			closers = append(closers, "}]")
		default:
			open.WriteString(h.fd.TextName() + "{")
			closers = append(closers, "}")
		}
		n++
	}
	var sb strings.Builder
	sb.WriteString(open.String())
	for i := len(closers) - 1; i >= 0; i-- {
		sb.WriteString(closers[i])
	}
	return []byte(sb.String())
}

func depthStreams(c *C, rs []*Root) {
	limits := []int{1, 2, 3, 5, 8, 33}
	if c.Thorough() {
		limits = append(limits, 100, 1000, 0)
	}
	kinds := map[string]func(fd protoreflect.FieldDescriptor) bool{
		"singular": func(fd protoreflect.FieldDescriptor) bool { return !fd.IsList() && !fd.IsMap() },
		"list":     func(fd protoreflect.FieldDescriptor) bool { return fd.IsList() || (!fd.IsMap() && fd.ContainingMessage().FullName() != "") },
		"map":      func(fd protoreflect.FieldDescriptor) bool { return true },
	}
	for _, r := range rs {
		md := r.MT.Descriptor()
		if isWKT(md) {
			continue
		}
		for _, kn := range []string{"singular", "list", "map"} {
			want := kinds[kn]
			var path []hop
			switch kn {
			case "singular":
				path = cycle(md, want)
			case "list":
				// prefer a cycle that goes through a repeated field
				path = cycle(md, func(fd protoreflect.FieldDescriptor) bool { return !fd.IsMap() })
				if p := cycleThrough(md, func(fd protoreflect.FieldDescriptor) bool { return fd.IsList() }); p != nil {
					path = p
				}
			case "map":
				path = cycleThrough(md, func(fd protoreflect.FieldDescriptor) bool { return fd.IsMap() })
			}
			if path == nil {
				continue
			}
			c.Hist("depth-path:" + kn)
			for _, L := range limits {
				eff := L
				if eff == 0 {
					eff = 10000
				}
				for _, lv := range []int{eff - 1, eff, eff + 1, eff + 2, 2*eff + 1} {
					if lv < 1 {
						continue
					}
					note := fmt.Sprintf("%d message levels through %s fields (%s…), limit %d", lv, kn, path[0].fd.Name(), eff)
					feedJSON(c, r, nestJSON(path, lv), L, false, note)
					feedText(c, r, nestText(path, lv, false), L, false, note)
					if kn == "list" {
						feedText(c, r, nestText(path, lv, true), L, false, note+" list syntax")
					}
					if c.Failed() {
						return
					}
				}
				// through unknown members with DiscardUnknown
				for _, n := range []int{eff - 2, eff - 1, eff, eff + 1, 3 * eff} {
					if n < 1 {
						continue
					}
					doc := `{"zzUnknown":` + strings.Repeat("[", n) + strings.Repeat("]", n) + `}`
					feedJSON(c, r, []byte(doc), L, true, fmt.Sprintf("unknown member holding %d nested arrays, DiscardUnknown, limit %d", n, eff))
					doc = `{"zzUnknown":` + strings.Repeat(`{"a":`, n) + "1" + strings.Repeat("}", n) + `}`
					feedJSON(c, r, []byte(doc), L, true, fmt.Sprintf("unknown member holding %d nested objects, DiscardUnknown, limit %d", n, eff))
					tdoc := strings.Repeat("zz_unknown{", n) + strings.Repeat("}", n)
					feedText(c, r, []byte(tdoc), L, true, fmt.Sprintf("unknown field holding %d nested messages, DiscardUnknown, limit %d", n, eff))
					tdoc = "zz_unknown:[" + strings.Repeat("{a:[{", n/2) + strings.Repeat("}]}", n/2) + "]"
					feedText(c, r, []byte(tdoc), L, true, fmt.Sprintf("unknown field holding a list of %d nested messages, DiscardUnknown, limit %d", n, eff))
				}
			}
		}
	}
	// inside well-known types (JSON), direct checks only
	for _, name := range []string{"google.protobuf.Value", "google.protobuf.ListValue", "google.protobuf.Struct", "google.protobuf.Any", "pb2.KnownTypes"} {
		r := rootByName(rs, name)
		if r == nil {
			continue
		}
		for _, L := range []int{2, 5, 20} {
			for _, n := range []int{1, L / 2, L - 1, L, L + 1, 2*L + 3, 4*L + 5} {
				if n < 1 {
					continue
				}
				var docs []string
				arr := strings.Repeat("[", n) + strings.Repeat("]", n)
				obj := strings.Repeat(`{"a":`, n) + "null" + strings.Repeat("}", n)
				anyv := strings.Repeat(`{"@type":"type.googleapis.com/google.protobuf.Any","value":`, n) + `{}` + strings.Repeat("}", n)
				switch name {
				case "google.protobuf.Value":
					docs = []string{arr, obj}
				case "google.protobuf.ListValue":
					docs = []string{arr}
				case "google.protobuf.Struct":
					docs = []string{obj}
				case "google.protobuf.Any":
					docs = []string{anyv, `{"@type":"type.googleapis.com/google.protobuf.Value","value":` + arr + `}`}
				case "pb2.KnownTypes":
					docs = []string{`{"optValue":` + arr + `}`, `{"optStruct":` + obj + `}`, `{"optList":` + arr + `}`, `{"optAny":` + anyv + `}`}
				}
				for _, d := range docs {
					feedJSON(c, r, []byte(d), L, false, fmt.Sprintf("%d nested containers inside a well-known type, limit %d", n, L))
				}
			}
		}
	}
}

// cycleThrough: a cycle from md to md whose first hop satisfies first
func cycleThrough(md protoreflect.MessageDescriptor, first func(fd protoreflect.FieldDescriptor) bool) []hop {
	fds := md.Fields()
	for i := 0; i < fds.Len(); i++ {
		fd := fds.Get(i)
		if !first(fd) {
			continue
		}
		var sub protoreflect.MessageDescriptor
		if fd.IsMap() {
			sub = fd.MapValue().Message()
		} else {
			sub = fd.Message()
		}
		if sub == nil || isWKT(sub) {
			continue
		}
		if sub.FullName() == md.FullName() {
			return []hop{{fd, sub}}
		}
		// one more hop back
		sf := sub.Fields()
		for j := 0; j < sf.Len(); j++ {
			g := sf.Get(j)
			if g.Message() != nil && !g.IsMap() && !g.IsList() && g.Message().FullName() == md.FullName() {
				return []hop{{fd, sub}, {g, md}}
			}
		}
	}
	return nil
}

// ---------------------------------------------------------------- regression of finding 10 (fixed in /repo 5d21ab7): the child process

func child(kind string) {
	switch kind {
	case "textskip":
		// VERIF_N levels of `a{` skipped with DiscardUnknown and RecursionLimit 5, under a stack cap
		n, _ := strconv.Atoi(os.Getenv("VERIF_N"))
		mb, _ := strconv.Atoi(os.Getenv("VERIF_STACK_MB"))
		if mb > 0 {
			debug.SetMaxStack(mb << 20)
		}
		doc := []byte(strings.Repeat("a{", n) + strings.Repeat("}", n))
		mt, _ := protoregistry.GlobalTypes.FindMessageByName("pb2.Scalars")
		err := prototext.UnmarshalOptions{DiscardUnknown: true, RecursionLimit: 5}.Unmarshal(doc, mt.New().Interface())
		fmt.Printf("RESULT %s\n", classText(err))
		os.Exit(0)
	case "jsonskip":
		n, _ := strconv.Atoi(os.Getenv("VERIF_N"))
		mb, _ := strconv.Atoi(os.Getenv("VERIF_STACK_MB"))
		if mb > 0 {
			debug.SetMaxStack(mb << 20)
		}
		doc := []byte(`{"x":` + strings.Repeat("[", n) + strings.Repeat("]", n) + `}`)
		mt, _ := protoregistry.GlobalTypes.FindMessageByName("pb2.Scalars")
		err := protojson.UnmarshalOptions{DiscardUnknown: true, RecursionLimit: 5}.Unmarshal(doc, mt.New().Interface())
		fmt.Printf("RESULT %s\n", classJSON(err))
		os.Exit(0)
	}
	os.Exit(3)
}

func runChild(kind string, n, stackMB int) (string, string) {
	exe, err := os.Executable()
	if err != nil {
		return "", "cannot find own executable: " + err.Error()
	}
	cmd := exec.Command(exe)
	cmd.Env = append(os.Environ(), "VERIF_CHILD="+kind, fmt.Sprintf("VERIF_N=%d", n), fmt.Sprintf("VERIF_STACK_MB=%d", stackMB), "GOMEMLIMIT=2GiB")
	var out bytes.Buffer
	cmd.Stdout = &out
	cmd.Stderr = &out
	err = cmd.Run()
	s := out.String()
	if i := strings.Index(s, "RESULT "); i >= 0 && err == nil {
		return strings.TrimSpace(s[i+7:]), ""
	}
	first := s
	if i := strings.IndexByte(first, '\n'); i >= 0 {
		first = first[:i]
	}
	if strings.Contains(s, "stack overflow") {
		first = "fatal error: stack overflow"
	}
	return "", fmt.Sprintf("child died (%v): %s", err, short(first, 200))
}

// skipRegression replays the old witnesses of finding 10: skipped values nested far beyond the limit must be rejected
// with the recursion-depth error, in process and (very deep, would overflow the stack if walked) in a child process
func skipRegression(c *C, rs []*Root) {
	r := rootByName(rs, "pb2.Scalars")
	if r == nil {
		return
	}
	// in process: 20000 levels with RecursionLimit 5
	doc := []byte(strings.Repeat("a{", 20000) + strings.Repeat("}", 20000))
	feedText(c, r, doc, 5, true, "`a{` x 20000 `}` x 20000, DiscardUnknown, RecursionLimit 5")
	// child process with a stack cap: the crash of the child is the failure
	n, mb := 3000000, 128
	if c.Thorough() {
		n, mb = 12000000, 0 // the default 1 GB stack limit: 24 MB of `a{` overflowed it before the repair
	}
	res, died := runChild("textskip", n, mb)
	in := c26input{Format: "text", Type: "pb2.Scalars", Limit: 5, Discard: true,
		Note: fmt.Sprintf("`a{` x %d `}` x %d in a child process (max stack %d MB, 0 = Go default)", n, n, mb)}
	c.Hist("child:textskip:" + res + died)
	if died != "" {
		c.Check(false, "prototext.Unmarshal with DiscardUnknown and RecursionLimit 5 kills the process on deeply nested unknown fields: "+died, in, sigSkip10)
	} else {
		c.Check(res == "err depth", "prototext.Unmarshal with DiscardUnknown and RecursionLimit 5 returns "+res+" for deeply nested unknown fields", in, sigSkip10)
	}
	// the JSON skip path honours the limit
	res, died = runChild("jsonskip", n, mb)
	in = c26input{Format: "json", Type: "pb2.Scalars", Limit: 5, Discard: true, Note: fmt.Sprintf(`{"x": "[" x %d …} in a child process`, n)}
	c.Hist("child:jsonskip:" + res + died)
	c.Check(died == "" && res == "err depth", "protojson.Unmarshal with DiscardUnknown and RecursionLimit 5 on deeply nested unknown arrays: "+res+died, in, "")
}

// ---------------------------------------------------------------- set.Ints

func intsStream(c *C) {
	n := c.N(300, 5000)
	for i := 0; i < n; i++ {
		var s set.Ints
		var ops, want []string
		pool := []uint64{0, 1, 2, 31, 32, 62, 63, 64, 65, 100, 1000, 536870911, 1 << 40}
		for k := c.Rand.Intn(30); k >= 0; k-- {
			x := pool[c.Rand.Intn(len(pool))]
			if c.Rand.Intn(4) == 0 {
				x = uint64(c.Rand.Intn(130))
			}
			switch c.Rand.Intn(4) {
			case 0, 1:
				s.Set(x)
				ops = append(ops, fmt.Sprintf("s%d", x))
			case 2:
				s.Clear(x)
				ops = append(ops, fmt.Sprintf("c%d", x))
			case 3:
				ops = append(ops, fmt.Sprintf("h%d", x))
				want = append(want, strconv.Itoa(b2i(s.Has(x))))
			}
			if c.Rand.Intn(5) == 0 {
				ops = append(ops, "l")
				want = append(want, strconv.Itoa(s.Len()))
			}
		}
		ops = append(ops, "l")
		want = append(want, strconv.Itoa(s.Len()))
		if c.HasModel() {
			ans := c.Ask("ints %s", strings.Join(ops, " "))
			c.Compare("set.Ints trace", strings.Join(ops, " "), "r "+strings.Join(want, " "), norm(ans))
		}
		c.Hist("ints:trace")
	}
}

// ---------------------------------------------------------------- driver

func replayC26(c *C, rs []*Root, raw stdjson.RawMessage) {
	var in c26input
	if err := stdjson.Unmarshal(raw, &in); err != nil || in.Type == "" {
		return
	}
	r := rootByName(rs, in.Type)
	if r == nil || in.DocHex == "" && in.Doc == "" {
		return
	}
	doc := []byte(in.Doc)
	if in.DocHex != "" {
		doc = make([]byte, len(in.DocHex)/2)
		fmt.Sscanf(in.DocHex, "%x", &doc)
	}
	c.Hist("replay")
	if in.Format == "json" {
		feedJSON(c, r, doc, in.Limit, in.Discard, "replay")
	} else {
		feedText(c, r, doc, in.Limit, in.Discard, "replay")
	}
}

func runC26(c *C) {
	c.R.Rule = "a case = one document for one message type, limit and DiscardUnknown setting, fed to the generated type and to dynamicpb; non-trivial = the document tokenizes completely and the Lean model gave a verdict (ok with message, or an error class) that was compared; distinct by document"
	rs := roots(c)
	for _, in := range c.ReplayInputs() {
		replayC26(c, rs, in)
	}
	intsStream(c)
	skipRegression(c, rs)
	anyTextStream(c, rs)
	anyJSONStream(c, rs)
	depthStreams(c, rs)
	n := c.N(13, 1200)
	limits := []int{0, 0, 0, 1, 2, 3, 4}
	for _, r := range rs {
		md := r.MT.Descriptor()
		for i := 0; i < n && !c.Failed(); i++ {
			m := r.MT.New()
			fill(c, m, 0, Opts{MaxDepth: 1 + c.Rand.Intn(3), FieldProb: 1 + c.Rand.Intn(4), NoUnknown: true}, r.Exts)
			limit := limits[c.Rand.Intn(len(limits))]
			discard := c.Rand.Intn(3) == 0
			// JSON
			jo := allJOpts()[c.Rand.Intn(64)]
			if jb, err := jo.mo().Marshal(m.Interface()); err == nil {
				feedJSON(c, r, jb, limit, discard, "valid")
				if t, err := parseJN(jb); err == nil {
					for k := 0; k < 4; k++ {
						t2 := t.clone()
						mut := mutateJSON(c, t2, md)
						if c.Rand.Intn(3) == 0 {
							mut += "+" + mutateJSON(c, t2, md)
						}
						c.Hist("json-mutation:" + mut)
						feedJSON(c, r, []byte(t2.String()), limit, discard, mut)
					}
				}
				for k := 0; k < 2; k++ {
					b2, mut := mutateBytes(c, jb)
					c.Hist("json-bytes:" + mut)
					feedJSON(c, r, b2, limit, discard, "bytes:"+mut)
				}
			}
			// text
			to := allTOpts()[c.Rand.Intn(8)]
			if tb, err := to.mo().Marshal(m.Interface()); err == nil {
				feedText(c, r, tb, limit, discard, "valid")
				if fs, err := parseTV(tb); err == nil {
					for k := 0; k < 4; k++ {
						top := (&tv{kind: '{', fields: fs}).clone()
						mut := mutateText(c, &top.fields, md)
						if c.Rand.Intn(3) == 0 {
							mut += "+" + mutateText(c, &top.fields, md)
						}
						c.Hist("text-mutation:" + mut)
						var sb strings.Builder
						renderFields(&sb, top.fields, c)
						feedText(c, r, []byte(sb.String()), limit, discard, mut)
					}
				}
				for k := 0; k < 2; k++ {
					b2, mut := mutateBytes(c, tb)
					c.Hist("text-bytes:" + mut)
					feedText(c, r, b2, limit, discard, "bytes:"+mut)
				}
			}
			feedJSON(c, r, soup(c, jsonSoup), limit, discard, "soup")
			feedText(c, r, soup(c, textSoup), limit, discard, "soup")
			if i == 0 {
				c.Sample(map[string]string{"type": r.Name, "msg": short(fmt.Sprint(m.Interface()), 200)})
			}
		}
	}
	_ = proto.Equal
}
