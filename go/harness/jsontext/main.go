// jsontext harness: message-level protojson / prototext properties (C20 C24 C26) against the Lean model
// JT (lean/PbVerif/Model/JsonText.lean) and directly against the property predicates.
package main

import (
	"fmt"
	"hash/fnv"
	"os"
	"strings"

	vh "google.golang.org/protobuf/internal/zz_verif_vh"
	"google.golang.org/protobuf/reflect/protoreflect"
	"google.golang.org/protobuf/reflect/protoregistry"
	"google.golang.org/protobuf/types/dynamicpb"

	_ "google.golang.org/protobuf/internal/testprotos/conformance"
	_ "google.golang.org/protobuf/internal/testprotos/test"
	_ "google.golang.org/protobuf/internal/testprotos/test3"
	_ "google.golang.org/protobuf/internal/testprotos/testeditions"
	_ "google.golang.org/protobuf/internal/testprotos/textpb2"
	_ "google.golang.org/protobuf/internal/testprotos/textpb3"
	_ "google.golang.org/protobuf/types/known/anypb"
	_ "google.golang.org/protobuf/types/known/durationpb"
	_ "google.golang.org/protobuf/types/known/emptypb"
	_ "google.golang.org/protobuf/types/known/fieldmaskpb"
	_ "google.golang.org/protobuf/types/known/structpb"
	_ "google.golang.org/protobuf/types/known/timestamppb"
	_ "google.golang.org/protobuf/types/known/wrapperspb"
)

type C = vh.Ctx

func main() {
	if k := os.Getenv("VERIF_CHILD"); k != "" {
		child(k)
		return
	}
	vh.Main("jsontext", run)
}

// root message types exercised (full names); every one is driven as generated type and as dynamicpb
var rootTypes = []string{
	"goproto.proto.test.TestAllTypes",
	"goproto.proto.test.TestAllExtensions",
	"goproto.proto.test3.TestAllTypes",
	"goproto.proto.testeditions.TestAllTypes",
	"pb2.Scalars", "pb2.Enums", "pb2.Repeats", "pb2.Maps", "pb2.Nests", "pb2.Requireds", "pb2.IndirectRequired",
	"pb2.Extensions", "pb2.KnownTypes", "pb2.ReservedFieldNames",
	"pb3.Scalars", "pb3.Repeats", "pb3.Proto3Optional", "pb3.Enums", "pb3.Nests", "pb3.Oneofs", "pb3.Maps", "pb3.JSONNames",
	"pb3.ReservedFieldNames",
	"protobuf_test_messages.proto3.TestAllTypesProto3",
	"protobuf_test_messages.proto2.TestAllTypesProto2",
	"google.protobuf.Struct", "google.protobuf.Value", "google.protobuf.ListValue", "google.protobuf.Any",
}

type Root struct {
	Name string
	MT   protoreflect.MessageType // generated
	DT   protoreflect.MessageType // dynamicpb of the same descriptor
	Flat *Flat
	Exts []protoreflect.ExtensionType
	sent bool
}

func roots(c *C) []*Root {
	var out []*Root
	for _, n := range rootTypes {
		mt, err := protoregistry.GlobalTypes.FindMessageByName(protoreflect.FullName(n))
		if err != nil {
			c.R.Notes = append(c.R.Notes, "type not linked: "+n)
			continue
		}
		r := &Root{Name: n, MT: mt, DT: dynamicpb.NewMessageType(mt.Descriptor())}
		r.Flat = Flatten(mt.Descriptor(), protoregistry.GlobalTypes)
		for _, xs := range r.Flat.Exts {
			r.Exts = append(r.Exts, xs...)
		}
		out = append(out, r)
	}
	return out
}

func rootByName(rs []*Root, n string) *Root {
	for _, r := range rs {
		if r.Name == n {
			return r
		}
	}
	return nil
}

// install makes r's schema the current schema of the model (and checks the name hypothesis of the theorems)
var current *Root

func install(c *C, r *Root) bool {
	if !c.HasModel() {
		return false
	}
	if current == r {
		return true
	}
	if !r.Flat.Send(c) {
		current = nil
		return false
	}
	current = r
	for mi := range r.Flat.Descs {
		if ans := c.Ask("namesok %d", mi); ans != "1" {
			c.Hist("schema:names-not-ok")
			c.R.Notes = append(c.R.Notes, fmt.Sprintf("%s: output names of %s do not resolve to their own field (hypothesis NamesOK of the round-trip theorems fails): %s", r.Name, r.Flat.Descs[mi].FullName(), ans))
		}
	}
	return true
}

func hashKey(s string) string {
	h := fnv.New64a()
	h.Write([]byte(s))
	return fmt.Sprintf("%x", h.Sum64())
}

func run(c *C) {
	switch c.Prop {
	case "C20":
		runC20(c)
	case "C24":
		runC24(c)
	case "C26":
		runC26(c)
	default:
		c.R.Notes = append(c.R.Notes, "unknown property "+c.Prop)
		c.Check(false, "unknown property "+c.Prop, nil, "")
	}
}

func short(s string, n int) string {
	if len(s) > n {
		return s[:n] + "…"
	}
	return s
}

func containsAny(s string, subs ...string) bool {
	for _, x := range subs {
		if strings.Contains(s, x) {
			return true
		}
	}
	return false
}

// checkSig records a failure that carries a known-finding signature at most a few times per signature
// (vh stops a run after 200 recorded failures); further occurrences are only counted.
var sigCount = map[string]int{}

func checkSig(c *C, ok bool, what string, input any, sig string) bool {
	if ok || sig == "" {
		return c.Check(ok, what, input, sig)
	}
	sigCount[sig]++
	c.Hist("known-sig:" + sig)
	if sigCount[sig] <= 3 {
		return c.Check(false, what, input, sig)
	}
	return false
}
