package main

import (
	"fmt"
	"math"
	"sort"
	"strings"

	"google.golang.org/protobuf/internal/encoding/messageset"
	"google.golang.org/protobuf/internal/strs"
	vh "google.golang.org/protobuf/internal/zz_verif_vh"
	"google.golang.org/protobuf/reflect/protoreflect"
	"google.golang.org/protobuf/reflect/protoregistry"
)

// Flat is a message-descriptor graph flattened for the Lean model (JT.SchemaX): every reachable
// message descriptor (nested types, map entries, groups, extension message types) gets an index.
// (Adapted copy of go/harness/msg/schema.go, extended with names, enum tables and flags.)
type Flat struct {
	Root  protoreflect.MessageDescriptor
	Index map[protoreflect.FullName]int
	Descs []protoreflect.MessageDescriptor
	Exts  map[protoreflect.FullName][]protoreflect.ExtensionType
	Lines []string
	// HasSpecial: some reachable message has a delegated form (well-known type, Any, MessageSet)
	HasSpecial bool
}

func cardName(fd protoreflect.FieldDescriptor) string {
	switch {
	case fd.ContainingMessage() != nil && fd.ContainingMessage().IsMapEntry():
		return "optional"
	case fd.IsMap():
		return "map"
	case fd.IsList():
		return "repeated"
	case fd.Cardinality() == protoreflect.Required:
		return "required"
	case fd.HasPresence():
		return "optional"
	default:
		return "implicit"
	}
}

func b2i(b bool) int {
	if b {
		return 1
	}
	return 0
}

var wktJSON = map[protoreflect.FullName]bool{
	"google.protobuf.Any": true, "google.protobuf.Timestamp": true, "google.protobuf.Duration": true,
	"google.protobuf.BoolValue": true, "google.protobuf.Int32Value": true, "google.protobuf.Int64Value": true,
	"google.protobuf.UInt32Value": true, "google.protobuf.UInt64Value": true, "google.protobuf.FloatValue": true,
	"google.protobuf.DoubleValue": true, "google.protobuf.StringValue": true, "google.protobuf.BytesValue": true,
	"google.protobuf.Struct": true, "google.protobuf.ListValue": true, "google.protobuf.Value": true,
	"google.protobuf.FieldMask": true, "google.protobuf.Empty": true,
}

func isWKT(md protoreflect.MessageDescriptor) bool { return wktJSON[md.FullName()] }

// Flatten walks the descriptor graph from root; the resolver supplies known extensions.
func Flatten(root protoreflect.MessageDescriptor, resolver *protoregistry.Types) *Flat {
	f := &Flat{Root: root, Index: map[protoreflect.FullName]int{}, Exts: map[protoreflect.FullName][]protoreflect.ExtensionType{}}
	var add func(md protoreflect.MessageDescriptor)
	add = func(md protoreflect.MessageDescriptor) {
		if _, ok := f.Index[md.FullName()]; ok {
			return
		}
		f.Index[md.FullName()] = len(f.Descs)
		f.Descs = append(f.Descs, md)
		if isWKT(md) || messageset.IsMessageSet(md) {
			f.HasSpecial = true
		}
		fds := md.Fields()
		for i := 0; i < fds.Len(); i++ {
			if sub := fds.Get(i).Message(); sub != nil {
				add(sub)
			}
		}
		if resolver != nil && md.ExtensionRanges().Len() > 0 {
			var xts []protoreflect.ExtensionType
			resolver.RangeExtensionsByMessage(md.FullName(), func(xt protoreflect.ExtensionType) bool {
				xts = append(xts, xt)
				return true
			})
			// order.IndexNameFieldOrder: extensions by full name
			sort.Slice(xts, func(i, j int) bool {
				return xts[i].TypeDescriptor().FullName() < xts[j].TypeDescriptor().FullName()
			})
			f.Exts[md.FullName()] = xts
			for _, xt := range xts {
				if sub := xt.TypeDescriptor().Message(); sub != nil {
					add(sub)
				}
			}
		}
	}
	add(root)
	f.Lines = append(f.Lines, fmt.Sprintf("schema %d", len(f.Descs)))
	if resolver != nil {
		var names []string
		resolver.RangeExtensions(func(xt protoreflect.ExtensionType) bool {
			names = append(names, xt.TypeDescriptor().TextName())
			return true
		})
		sort.Strings(names)
		for _, n := range names {
			f.Lines = append(f.Lines, "extname "+vh.Hex([]byte(n)))
		}
	}
	for mi, md := range f.Descs {
		special := isWKT(md) || messageset.IsMessageSet(md)
		isAny := md.FullName() == "google.protobuf.Any" || messageset.IsMessageSet(md)
		f.Lines = append(f.Lines, fmt.Sprintf("msgflags %d %d %d", mi, b2i(special), b2i(isAny)))
		rn := md.ReservedNames()
		for i := 0; i < rn.Len(); i++ {
			f.Lines = append(f.Lines, fmt.Sprintf("reserved %d %s", mi, vh.Hex([]byte(rn.Get(i)))))
		}
		fds := md.Fields()
		for i := 0; i < fds.Len(); i++ {
			f.Lines = append(f.Lines, f.fieldLine(mi, md, fds.Get(i), false))
		}
		for _, xt := range f.Exts[md.FullName()] {
			f.Lines = append(f.Lines, f.fieldLine(mi, md, xt.TypeDescriptor(), true))
		}
	}
	return f
}

func hexList(ss []string) string {
	if len(ss) == 0 {
		return "-"
	}
	var out []string
	for _, s := range ss {
		h := vh.Hex([]byte(s))
		if h == "-" {
			h = ""
		}
		out = append(out, h)
	}
	return strings.Join(out, ",")
}

// acceptedNames probes the real lookup tables: which spellings does ByJSONName / ByTextName map to fd?
func acceptedNames(md protoreflect.MessageDescriptor, fd protoreflect.FieldDescriptor) (js, ts []string) {
	if fd.IsExtension() {
		return []string{fd.JSONName()}, []string{fd.TextName()}
	}
	cands := []string{fd.JSONName(), fd.TextName(), string(fd.Name()), strings.ToLower(fd.JSONName()), strings.ToLower(fd.TextName()),
		strings.ToUpper(string(fd.Name())), strs.JSONCamelCase(string(fd.Name()))}
	if m := fd.Message(); m != nil {
		cands = append(cands, string(m.Name()), strings.ToLower(string(m.Name())))
	}
	seenJ, seenT := map[string]bool{}, map[string]bool{}
	fds := md.Fields()
	for _, c := range cands {
		if x := fds.ByJSONName(c); x != nil && x.Number() == fd.Number() && !seenJ[c] {
			seenJ[c] = true
			js = append(js, c)
		}
		if x := fds.ByTextName(c); x != nil && x.Number() == fd.Number() && !seenT[c] {
			seenT[c] = true
			ts = append(ts, c)
		}
	}
	// the head of each list must be the output name even when the table maps it elsewhere (clash)
	if len(js) == 0 || js[0] != fd.JSONName() {
		js = append([]string{fd.JSONName()}, js...)
	}
	if len(ts) == 0 || ts[0] != fd.TextName() {
		ts = append([]string{fd.TextName()}, ts...)
	}
	return
}

func (f *Flat) fieldLine(mi int, md protoreflect.MessageDescriptor, fd protoreflect.FieldDescriptor, ext bool) string {
	oneof := -1
	oneofIdx := -1
	if od := fd.ContainingOneof(); od != nil {
		oneofIdx = od.Index()
		if !od.IsSynthetic() {
			oneof = od.Index()
		}
	}
	sub := 0
	if m := fd.Message(); m != nil {
		sub = f.Index[m.FullName()]
	}
	utf8 := fd.Kind() == protoreflect.StringKind && strs.EnforceUTF8(fd)
	var dflt uint64
	if fd.Kind() == protoreflect.EnumKind && !fd.IsList() {
		dflt = uint64(int64(fd.Default().Enum()))
	}
	js, ts := acceptedNames(md, fd)
	enums := "-"
	nullEnum := false
	if ed := fd.Enum(); ed != nil {
		var es []string
		vs := ed.Values()
		for i := 0; i < vs.Len(); i++ {
			es = append(es, fmt.Sprintf("%s:%d", vh.Hex([]byte(vs.Get(i).Name())), vs.Get(i).Number()))
		}
		enums = strings.Join(es, ",")
		nullEnum = ed.FullName() == "google.protobuf.NullValue"
	}
	valueMsg := fd.Message() != nil && fd.Message().FullName() == "google.protobuf.Value"
	return fmt.Sprintf("field %d %d %s %s %d %d %d %d %d %d %d %d %d %d %s %s %s", mi, fd.Number(), fd.Kind().String(), cardName(fd),
		b2i(fd.IsPacked()), oneof, sub, b2i(utf8), b2i(ext), dflt,
		b2i(fd.HasPresence()), oneofIdx, b2i(valueMsg), b2i(nullEnum), hexList(js), hexList(ts), enums)
}

// Send installs the schema in the model.
func (f *Flat) Send(c *vh.Ctx) bool {
	if !c.HasModel() {
		return false
	}
	for _, l := range f.Lines {
		if ans := c.Ask("%s", l); ans != "ok" {
			c.Compare("schema line", l, "ok", ans)
			return false
		}
	}
	return true
}

// ---------- snapshot: protoreflect.Message -> MSG tokens (copy of go/harness/msg) ----------

func canonNum(fd protoreflect.FieldDescriptor, v protoreflect.Value, canonNaN bool) uint64 {
	switch fd.Kind() {
	case protoreflect.BoolKind:
		if v.Bool() {
			return 1
		}
		return 0
	case protoreflect.EnumKind:
		return uint64(int64(v.Enum()))
	case protoreflect.Int32Kind, protoreflect.Sint32Kind, protoreflect.Sfixed32Kind,
		protoreflect.Int64Kind, protoreflect.Sint64Kind, protoreflect.Sfixed64Kind:
		return uint64(v.Int())
	case protoreflect.Uint32Kind, protoreflect.Fixed32Kind, protoreflect.Uint64Kind, protoreflect.Fixed64Kind:
		return v.Uint()
	case protoreflect.FloatKind:
		x := float32(v.Float())
		if canonNaN && x != x {
			return 0x7fc00000
		}
		return uint64(math.Float32bits(x))
	case protoreflect.DoubleKind:
		x := v.Float()
		if canonNaN && x != x {
			return 0x7ff8000000000001
		}
		return math.Float64bits(x)
	}
	panic("canonNum: kind " + fd.Kind().String())
}

type snapper struct {
	canonNaN  bool // all NaNs one value
	noUnknown bool // drop unknown fields
}

func (s snapper) val(sb *strings.Builder, fd protoreflect.FieldDescriptor, v protoreflect.Value) {
	switch fd.Kind() {
	case protoreflect.MessageKind, protoreflect.GroupKind:
		s.msg(sb, v.Message())
	case protoreflect.StringKind:
		sb.WriteString("b " + vh.Hex([]byte(v.String())))
	case protoreflect.BytesKind:
		sb.WriteString("b " + vh.Hex(v.Bytes()))
	default:
		fmt.Fprintf(sb, "n %d", canonNum(fd, v, s.canonNaN))
	}
}

type entry struct {
	num  uint64
	str  string
	text string
}

// Snap renders m in the canonical token form of the model (fields ascending by number,
// map entries ascending by canonical key).
func Snap(m protoreflect.Message) string {
	var sb strings.Builder
	snapper{}.msg(&sb, m)
	return sb.String()
}

// SnapNorm: unknown fields dropped, all NaNs equal — the normal form of the round-trip theorems.
func SnapNorm(m protoreflect.Message) string {
	var sb strings.Builder
	snapper{canonNaN: true, noUnknown: true}.msg(&sb, m)
	return sb.String()
}

func (s snapper) msg(sb *strings.Builder, m protoreflect.Message) {
	type fv struct {
		fd protoreflect.FieldDescriptor
		v  protoreflect.Value
	}
	var fs []fv
	m.Range(func(fd protoreflect.FieldDescriptor, v protoreflect.Value) bool {
		fs = append(fs, fv{fd, v})
		return true
	})
	sort.Slice(fs, func(i, j int) bool { return fs[i].fd.Number() < fs[j].fd.Number() })
	sb.WriteString("( ")
	for _, x := range fs {
		fd := x.fd
		switch {
		case fd.IsMap():
			mp := x.v.Map()
			var es []entry
			mp.Range(func(k protoreflect.MapKey, v protoreflect.Value) bool {
				var e entry
				var t strings.Builder
				t.WriteString("( 1 s ")
				if fd.MapKey().Kind() == protoreflect.StringKind {
					e.str = k.String()
				} else {
					e.num = canonNum(fd.MapKey(), k.Value(), false)
				}
				s.val(&t, fd.MapKey(), k.Value())
				t.WriteString(" 2 s ")
				s.val(&t, fd.MapValue(), v)
				t.WriteString(" u - )")
				e.text = t.String()
				es = append(es, e)
				return true
			})
			sort.Slice(es, func(i, j int) bool {
				if es[i].num != es[j].num {
					return es[i].num < es[j].num
				}
				return es[i].str < es[j].str
			})
			fmt.Fprintf(sb, "%d r %d ", fd.Number(), len(es))
			for _, e := range es {
				sb.WriteString(e.text + " ")
			}
		case fd.IsList():
			l := x.v.List()
			fmt.Fprintf(sb, "%d r %d ", fd.Number(), l.Len())
			for i := 0; i < l.Len(); i++ {
				s.val(sb, fd, l.Get(i))
				sb.WriteString(" ")
			}
		default:
			fmt.Fprintf(sb, "%d s ", fd.Number())
			s.val(sb, fd, x.v)
			sb.WriteString(" ")
		}
	}
	if s.noUnknown {
		sb.WriteString("u - )")
	} else {
		sb.WriteString("u " + vh.Hex(m.GetUnknown()) + " )")
	}
}
