package main

import (
	"math"
	"strings"
	"unicode/utf8"

	"google.golang.org/protobuf/encoding/protowire"
	"google.golang.org/protobuf/internal/encoding/messageset"
	"google.golang.org/protobuf/internal/strs"
	vh "google.golang.org/protobuf/internal/zz_verif_vh"
	"google.golang.org/protobuf/proto"
	"google.golang.org/protobuf/reflect/protoreflect"
	"google.golang.org/protobuf/reflect/protoregistry"
)

// (random message generator: adapted copy of go/harness/msg/gen.go, extended with well-known types)

var ints = []int64{0, 1, -1, 127, 128, -128, 255, 16383, 16384, math.MaxInt32, math.MinInt32, math.MaxInt64, math.MinInt64, 1 << 35, -(1 << 35), math.MaxUint32, 1 << 53, (1 << 53) + 1}
var f32s = []uint32{0, 0x80000000, 0x3f800000, 0x7f800000, 0xff800000, 0x7fc00000, 0x00000001, 0x7f7fffff, 0x15ae43fc, 0x15ae43fd, 0x95ae43fd, 0x33d6bf95, 0xffc00000, 0x358637bd, 0x60ad78ec, 0x00800000, 0x3dcccccd}
var f64s = []uint64{0, 0x8000000000000000, 0x3ff0000000000000, 0x7ff0000000000000, 0xfff0000000000000, 0x7ff8000000000001, 1, 0x7fefffffffffffff, 0x3fb999999999999a, 0x3eb0c6f7a0b5ed8d, 0x444b1ae4d6e2ef50, 0x0010000000000000}
var strsv = []string{"", "a", "hello", "héllo", "日本", "\x00", "\"quote\\", "line\nbreak", " ", "tab\t", "😀", "</script>", " ", "\x7f", "true", "null", "123", "[x]", "a.b", strings.Repeat("x", 130)}

var specials = specialStrings()

// Opts steers the random message generator.
type Opts struct {
	MaxDepth  int
	BadUTF8   bool // may put invalid UTF-8 into string fields
	BadWKT    bool // may generate well-known-type content that has no JSON form
	FieldProb int  // 1/FieldProb of populating each field
	NoUnknown bool // never attach unknown fields
	CanonNaN  bool // only the canonical NaN (content that is re-encoded as bytes inside an Any)
}

func scalar(c *vh.Ctx, fd protoreflect.FieldDescriptor, o Opts) protoreflect.Value {
	r := c.Rand
	i := ints[r.Intn(len(ints))]
	if r.Intn(3) == 0 {
		i = r.Int63() >> uint(r.Intn(63))
		if r.Intn(2) == 0 {
			i = -i
		}
	}
	switch fd.Kind() {
	case protoreflect.BoolKind:
		return protoreflect.ValueOfBool(r.Intn(2) == 0)
	case protoreflect.EnumKind:
		vs := fd.Enum().Values()
		if fd.Enum().FullName() == "google.protobuf.NullValue" {
			if o.BadWKT && r.Intn(4) == 0 {
				return protoreflect.ValueOfEnum(protoreflect.EnumNumber(1 + r.Intn(3))) // no JSON form
			}
			return protoreflect.ValueOfEnum(0)
		}
		if r.Intn(5) == 0 {
			return protoreflect.ValueOfEnum(protoreflect.EnumNumber(int32(i))) // possibly unlisted, possibly negative
		}
		return protoreflect.ValueOfEnum(vs.Get(r.Intn(vs.Len())).Number())
	case protoreflect.Int32Kind, protoreflect.Sint32Kind, protoreflect.Sfixed32Kind:
		return protoreflect.ValueOfInt32(int32(i))
	case protoreflect.Int64Kind, protoreflect.Sint64Kind, protoreflect.Sfixed64Kind:
		return protoreflect.ValueOfInt64(i)
	case protoreflect.Uint32Kind, protoreflect.Fixed32Kind:
		return protoreflect.ValueOfUint32(uint32(i))
	case protoreflect.Uint64Kind, protoreflect.Fixed64Kind:
		return protoreflect.ValueOfUint64(uint64(i))
	case protoreflect.FloatKind:
		b := f32s[r.Intn(len(f32s))]
		if r.Intn(2) == 0 {
			b = r.Uint32()
		}
		// signaling NaNs are quieted by the float64 round trip of protoreflect.Value (finding 12); the two former
		// double-rounding values of finding 15 (0x15ae43fd, 0x95ae43fd; fixed in /repo e864d0a) are in the pool
		if b&0x7f800000 == 0x7f800000 && b&0x007fffff != 0 {
			b |= 0x00400000
			if o.CanonNaN {
				b = 0x7fc00000
			}
		}
		return protoreflect.ValueOfFloat32(math.Float32frombits(b))
	case protoreflect.DoubleKind:
		b := f64s[r.Intn(len(f64s))]
		if r.Intn(2) == 0 {
			b = r.Uint64()
		}
		if o.CanonNaN && b&0x7ff0000000000000 == 0x7ff0000000000000 && b&0x000fffffffffffff != 0 {
			b = 0x7ff8000000000001
		}
		return protoreflect.ValueOfFloat64(math.Float64frombits(b))
	case protoreflect.StringKind:
		s := strsv[r.Intn(len(strsv))]
		if r.Intn(4) == 0 {
			// control characters, U+2028/2029, quoting and HTML characters, supplementary runes … (strings.go)
			s = specials[r.Intn(len(specials))]
		}
		if o.BadUTF8 && r.Intn(6) == 0 {
			s += []string{"\xff", "\xc0\x80", "\xed\xa0\x80", "\xe2\x82", "\x80", "\xf4\x90\x80\x80"}[r.Intn(6)]
		}
		return protoreflect.ValueOfString(s)
	case protoreflect.BytesKind:
		s := strsv[r.Intn(len(strsv))]
		if r.Intn(2) == 0 {
			s += "\xff\xfe"
		}
		return protoreflect.ValueOfBytes([]byte(s))
	}
	panic("scalar: kind")
}

// types that may be packed into an Any
var anyTypes = []string{"pb2.Nested", "pb3.Scalars", "pb2.Scalars", "pb3.Nested", "google.protobuf.Duration", "google.protobuf.Timestamp",
	"google.protobuf.StringValue", "google.protobuf.Int64Value", "google.protobuf.Struct", "google.protobuf.Value", "google.protobuf.Any",
	"google.protobuf.FieldMask", "google.protobuf.Empty", "pb3.Maps", "pb2.Enums"}
var urlPrefixes = []string{"type.googleapis.com/", "/", "example.com/x/", "a-b.c_d/"}

func fieldByName(m protoreflect.Message, n string) protoreflect.FieldDescriptor {
	return m.Descriptor().Fields().ByName(protoreflect.Name(n))
}

// fillWKT populates a well-known-type message; mostly with content that has a JSON form.
func fillWKT(c *vh.Ctx, m protoreflect.Message, depth int, o Opts) {
	r := c.Rand
	bad := o.BadWKT && r.Intn(5) == 0
	switch m.Descriptor().FullName() {
	case "google.protobuf.Timestamp":
		secs := []int64{0, 1, -1, -62135596800, 253402300799, 1700000000, -1000000000}[r.Intn(7)]
		if r.Intn(2) == 0 {
			secs = r.Int63n(253402300799+62135596800) - 62135596800
		}
		nanos := []int64{0, 1, 999999999, 1000, 1000000, 123456789, 120000000}[r.Intn(7)]
		if bad {
			switch r.Intn(4) {
			case 0:
				secs = 253402300800
			case 1:
				secs = -62135596801
			case 2:
				nanos = -1
			case 3:
				nanos = 1000000000
			}
		}
		if secs != 0 || r.Intn(2) == 0 {
			m.Set(fieldByName(m, "seconds"), protoreflect.ValueOfInt64(secs))
		}
		if nanos != 0 {
			m.Set(fieldByName(m, "nanos"), protoreflect.ValueOfInt32(int32(nanos)))
		}
	case "google.protobuf.Duration":
		secs := []int64{0, 1, -1, 315576000000, -315576000000, 3, -3, 1 << 40}[r.Intn(8)]
		if secs > 315576000000 {
			secs = 315576000000 - 5
		}
		nanos := []int64{0, 1, 999999999, 1000, 1000000, 123456789, 500000000}[r.Intn(7)]
		if secs < 0 || (secs == 0 && r.Intn(2) == 0) {
			nanos = -nanos
		}
		if bad {
			switch r.Intn(4) {
			case 0:
				secs = 315576000001
			case 1:
				secs = -315576000001
			case 2:
				nanos = 1000000000
			case 3:
				secs, nanos = 5, -5
			}
		}
		if secs != 0 {
			m.Set(fieldByName(m, "seconds"), protoreflect.ValueOfInt64(secs))
		}
		if nanos != 0 {
			m.Set(fieldByName(m, "nanos"), protoreflect.ValueOfInt32(int32(nanos)))
		}
	case "google.protobuf.BoolValue", "google.protobuf.Int32Value", "google.protobuf.Int64Value", "google.protobuf.UInt32Value",
		"google.protobuf.UInt64Value", "google.protobuf.FloatValue", "google.protobuf.DoubleValue", "google.protobuf.StringValue",
		"google.protobuf.BytesValue":
		fd := fieldByName(m, "value")
		if r.Intn(4) != 0 {
			m.Set(fd, scalar(c, fd, o))
		}
	case "google.protobuf.Struct":
		fd := fieldByName(m, "fields")
		mp := m.Mutable(fd).Map()
		for k := r.Intn(3); k > 0; k-- {
			key := scalar(c, fd.MapKey(), o).MapKey()
			v := mp.NewValue()
			fillWKT(c, v.Message(), depth+1, o)
			mp.Set(key, v)
		}
	case "google.protobuf.ListValue":
		fd := fieldByName(m, "values")
		l := m.Mutable(fd).List()
		for k := r.Intn(3); k > 0; k-- {
			e := l.NewElement()
			fillWKT(c, e.Message(), depth+1, o)
			l.Append(e)
		}
	case "google.protobuf.Value":
		k := r.Intn(6)
		if depth >= o.MaxDepth+2 && k >= 4 {
			k = r.Intn(4)
		}
		if bad && r.Intn(2) == 0 {
			if r.Intn(2) == 0 {
				return // no kind set: no JSON form
			}
			m.Set(fieldByName(m, "number_value"), protoreflect.ValueOfFloat64([]float64{math.NaN(), math.Inf(1), math.Inf(-1)}[r.Intn(3)]))
			return
		}
		switch k {
		case 0:
			m.Set(fieldByName(m, "null_value"), protoreflect.ValueOfEnum(0))
		case 1:
			x := math.Float64frombits(f64s[r.Intn(len(f64s))])
			if math.IsNaN(x) || math.IsInf(x, 0) {
				x = 1.5
			}
			m.Set(fieldByName(m, "number_value"), protoreflect.ValueOfFloat64(x))
		case 2:
			m.Set(fieldByName(m, "string_value"), scalar(c, fieldByName(m, "string_value"), o))
		case 3:
			m.Set(fieldByName(m, "bool_value"), protoreflect.ValueOfBool(r.Intn(2) == 0))
		case 4:
			fillWKT(c, m.Mutable(fieldByName(m, "struct_value")).Message(), depth+1, o)
		case 5:
			fillWKT(c, m.Mutable(fieldByName(m, "list_value")).Message(), depth+1, o)
		}
	case "google.protobuf.FieldMask":
		fd := fieldByName(m, "paths")
		l := m.Mutable(fd).List()
		good := []string{"foo", "foo_bar", "a.b_c", "x1.y2", "f", "foo_bar.baz_qux"}
		for k := r.Intn(3); k > 0; k-- {
			l.Append(protoreflect.ValueOfString(good[r.Intn(len(good))]))
		}
		if bad {
			l.Append(protoreflect.ValueOfString([]string{"fooBar", "foo__bar", "foo_", "1a", "a..b", "", "foo_3bar", "a b"}[r.Intn(8)]))
		}
	case "google.protobuf.Empty":
	case "google.protobuf.Any":
		if r.Intn(6) == 0 {
			return // the empty Any
		}
		if depth >= o.MaxDepth+2 {
			return
		}
		name := anyTypes[r.Intn(len(anyTypes))]
		mt, err := protoregistry.GlobalTypes.FindMessageByName(protoreflect.FullName(name))
		if err != nil {
			return
		}
		em := mt.New()
		eo := o
		eo.NoUnknown, eo.CanonNaN, eo.BadUTF8 = true, true, o.BadUTF8
		fill(c, em, depth+1, eo, nil)
		b, err := proto.MarshalOptions{AllowPartial: true, Deterministic: true}.Marshal(em.Interface())
		if err != nil {
			return
		}
		url := urlPrefixes[r.Intn(len(urlPrefixes))] + name
		if bad {
			switch r.Intn(3) {
			case 0:
				url = "type.googleapis.com/not.Registered"
			case 1:
				b = append(b, 0x0f) // stray end-group tag with field number 1: malformed
			case 2:
				url = ""
				if len(b) == 0 {
					b = []byte{0x08, 0x01}
				}
			}
		}
		if url != "" {
			m.Set(fieldByName(m, "type_url"), protoreflect.ValueOfString(url))
		}
		if len(b) > 0 {
			m.Set(fieldByName(m, "value"), protoreflect.ValueOfBytes(b))
		}
	}
}

// fill populates m randomly through the reflection API.
func fill(c *vh.Ctx, m protoreflect.Message, depth int, o Opts, exts []protoreflect.ExtensionType) {
	if isWKT(m.Descriptor()) {
		fillWKT(c, m, depth, o)
		return
	}
	r := c.Rand
	fds := m.Descriptor().Fields()
	var all []protoreflect.FieldDescriptor
	for i := 0; i < fds.Len(); i++ {
		all = append(all, fds.Get(i))
	}
	for _, xt := range exts {
		if xt.TypeDescriptor().ContainingMessage().FullName() == m.Descriptor().FullName() {
			all = append(all, xt.TypeDescriptor())
		}
	}
	r.Shuffle(len(all), func(i, j int) { all[i], all[j] = all[j], all[i] })
	for _, fd := range all {
		p := o.FieldProb
		if p == 0 {
			p = 4
		}
		if fd.Cardinality() == protoreflect.Required {
			p = 1
		}
		if r.Intn(p) != 0 {
			continue
		}
		if sub := fd.Message(); sub != nil && messageset.IsMessageSet(sub) {
			continue
		}
		switch {
		case fd.IsMap():
			mp := m.Mutable(fd).Map()
			for k := r.Intn(3); k >= 0; k-- {
				key := scalar(c, fd.MapKey(), Opts{BadUTF8: o.BadUTF8}).MapKey()
				if fd.MapValue().Message() != nil {
					if depth >= o.MaxDepth {
						continue
					}
					v := mp.NewValue()
					fill(c, v.Message(), depth+1, o, exts)
					mp.Set(key, v)
				} else {
					mp.Set(key, scalar(c, fd.MapValue(), o))
				}
			}
		case fd.IsList():
			l := m.Mutable(fd).List()
			for k := r.Intn(3); k >= 0; k-- {
				if fd.Message() != nil {
					if depth >= o.MaxDepth {
						continue
					}
					e := l.NewElement()
					fill(c, e.Message(), depth+1, o, exts)
					l.Append(e)
				} else {
					l.Append(scalar(c, fd, o))
				}
			}
		case fd.Message() != nil:
			if depth >= o.MaxDepth && !isWKT(fd.Message()) {
				continue
			}
			fill(c, m.Mutable(fd).Message(), depth+1, o, exts)
		default:
			m.Set(fd, scalar(c, fd, o))
		}
	}
	if !o.NoUnknown && r.Intn(6) == 0 {
		m.SetUnknown(randUnknown(c, m.Descriptor()))
	}
}

func randUnknown(c *vh.Ctx, md protoreflect.MessageDescriptor) []byte {
	var b []byte
	n := 1 + c.Rand.Intn(3)
	for i := 0; i < n; i++ {
		num := protowire.Number(100000 + c.Rand.Intn(50))
		if md.Fields().ByNumber(num) != nil {
			continue
		}
		switch c.Rand.Intn(4) {
		case 0:
			b = protowire.AppendTag(b, num, protowire.VarintType)
			b = protowire.AppendVarint(b, c.Rand.Uint64()>>uint(c.Rand.Intn(64)))
		case 1:
			b = protowire.AppendTag(b, num, protowire.Fixed32Type)
			b = protowire.AppendFixed32(b, c.Rand.Uint32())
		case 2:
			b = protowire.AppendTag(b, num, protowire.BytesType)
			b = protowire.AppendBytes(b, []byte(strsv[c.Rand.Intn(len(strsv)-1)]))
		case 3:
			b = protowire.AppendTag(b, num, protowire.StartGroupType)
			b = protowire.AppendTag(b, 1, protowire.VarintType)
			b = protowire.AppendVarint(b, uint64(c.Rand.Intn(300)))
			b = protowire.AppendTag(b, num, protowire.EndGroupType)
		}
	}
	return b
}

// stripUnknown removes unknown fields at every level (in place).
func stripUnknown(m protoreflect.Message) {
	m.SetUnknown(nil)
	m.Range(func(fd protoreflect.FieldDescriptor, v protoreflect.Value) bool {
		switch {
		case fd.IsMap():
			if fd.MapValue().Message() != nil {
				v.Map().Range(func(_ protoreflect.MapKey, x protoreflect.Value) bool {
					stripUnknown(x.Message())
					return true
				})
			}
		case fd.IsList():
			if fd.Message() != nil {
				l := v.List()
				for i := 0; i < l.Len(); i++ {
					stripUnknown(l.Get(i).Message())
				}
			}
		case fd.Message() != nil:
			stripUnknown(v.Message())
		}
		return true
	})
}

// ---------- the independent `representable` predicate of C20 ----------

// Repr is the verdict of the predicate: Marshalable = protojson.Marshal must succeed;
// Exact = the JSON form determines the content (round trip must be Equal).
type Repr struct {
	Marshalable bool
	Exact       bool
	Why         string
}

func (r *Repr) fail(why string) {
	if r.Marshalable {
		r.Why = why
	}
	r.Marshalable, r.Exact = false, false
}

func getInt(m protoreflect.Message, n string) int64 { return m.Get(fieldByName(m, n)).Int() }

// representable walks m and decides, from the documented JSON mapping alone, whether m has a JSON form.
func representable(m protoreflect.Message) Repr {
	r := Repr{Marshalable: true, Exact: true}
	reprMsg(m, &r, 0)
	return r
}

func reprScalar(fd protoreflect.FieldDescriptor, v protoreflect.Value, r *Repr) {
	switch fd.Kind() {
	case protoreflect.StringKind:
		if !utf8.ValidString(v.String()) {
			r.fail("invalid UTF-8 in " + string(fd.FullName()))
		}
	case protoreflect.EnumKind:
		if fd.Enum().FullName() == "google.protobuf.NullValue" && v.Enum() != 0 {
			r.Exact = false // printed as null, which means NULL_VALUE
			if r.Why == "" {
				r.Why = "NullValue number without a JSON form"
			}
		}
	}
}

func reprMsg(m protoreflect.Message, r *Repr, depth int) {
	if depth > 200 {
		return
	}
	md := m.Descriptor()
	if messageset.IsMessageSet(md) {
		r.fail("MessageSet")
		return
	}
	switch md.FullName() {
	case "google.protobuf.Timestamp":
		s, n := getInt(m, "seconds"), getInt(m, "nanos")
		if s < -62135596800 || s > 253402300799 || n < 0 || n > 999999999 {
			r.fail("Timestamp out of range")
		}
		return
	case "google.protobuf.Duration":
		s, n := getInt(m, "seconds"), getInt(m, "nanos")
		if s < -315576000000 || s > 315576000000 || n < -999999999 || n > 999999999 || (s > 0 && n < 0) || (s < 0 && n > 0) {
			r.fail("Duration out of range")
		}
		return
	case "google.protobuf.Value":
		od := md.Oneofs().ByName("kind")
		fd := m.WhichOneof(od)
		if fd == nil {
			r.fail("Value without kind")
			return
		}
		if fd.Name() == "number_value" {
			if x := m.Get(fd).Float(); math.IsNaN(x) || math.IsInf(x, 0) {
				r.fail("non-finite Value number")
			}
			return
		}
		if fd.Message() != nil {
			reprMsg(m.Get(fd).Message(), r, depth+1)
		} else {
			reprScalar(fd, m.Get(fd), r)
		}
		return
	case "google.protobuf.FieldMask":
		l := m.Get(fieldByName(m, "paths")).List()
		for i := 0; i < l.Len(); i++ {
			s := l.Get(i).String()
			if !protoreflect.FullName(s).IsValid() || strs.JSONSnakeCase(strs.JSONCamelCase(s)) != s {
				r.fail("irreversible FieldMask path")
			}
		}
		return
	case "google.protobuf.Any":
		fdT, fdV := fieldByName(m, "type_url"), fieldByName(m, "value")
		if !m.Has(fdT) {
			if m.Has(fdV) {
				r.fail("Any value without type_url")
			}
			return
		}
		url := m.Get(fdT).String()
		name := url
		if i := strings.LastIndexByte(url, '/'); i >= 0 {
			name = url[i+1:]
		}
		mt, err := protoregistry.GlobalTypes.FindMessageByName(protoreflect.FullName(name))
		if err != nil {
			r.fail("Any with unresolvable type URL")
			return
		}
		em := mt.New()
		if err := (proto.UnmarshalOptions{AllowPartial: true}).Unmarshal(m.Get(fdV).Bytes(), em.Interface()); err != nil {
			r.fail("Any with malformed value")
			return
		}
		if !utf8.ValidString(url) {
			r.fail("invalid UTF-8 in type URL")
		}
		reprMsg(em, r, depth+1)
		return
	}
	m.Range(func(fd protoreflect.FieldDescriptor, v protoreflect.Value) bool {
		switch {
		case fd.IsMap():
			v.Map().Range(func(k protoreflect.MapKey, x protoreflect.Value) bool {
				reprScalar(fd.MapKey(), k.Value(), r)
				if fd.MapValue().Message() != nil {
					reprMsg(x.Message(), r, depth+1)
				} else {
					reprScalar(fd.MapValue(), x, r)
				}
				return true
			})
		case fd.IsList():
			l := v.List()
			for i := 0; i < l.Len(); i++ {
				if fd.Message() != nil {
					reprMsg(l.Get(i).Message(), r, depth+1)
				} else {
					reprScalar(fd, l.Get(i), r)
				}
			}
		case fd.Message() != nil:
			reprMsg(v.Message(), r, depth+1)
		default:
			reprScalar(fd, v, r)
		}
		return true
	})
}

// hasUnsetNullish: some reachable plain message has an *unset* presence field, outside oneofs, whose type is
// google.protobuf.Value or google.protobuf.NullValue (classifier of DESIGN finding 18).
func hasUnsetNullish(m protoreflect.Message) bool {
	if isWKT(m.Descriptor()) {
		if m.Descriptor().FullName() == "google.protobuf.Any" {
			fdT, fdV := fieldByName(m, "type_url"), fieldByName(m, "value")
			url := m.Get(fdT).String()
			if i := strings.LastIndexByte(url, '/'); i >= 0 {
				if mt, err := protoregistry.GlobalTypes.FindMessageByName(protoreflect.FullName(url[i+1:])); err == nil {
					em := mt.New()
					if (proto.UnmarshalOptions{AllowPartial: true}).Unmarshal(m.Get(fdV).Bytes(), em.Interface()) == nil {
						return hasUnsetNullish(em)
					}
				}
			}
		}
		return false
	}
	fds := m.Descriptor().Fields()
	for i := 0; i < fds.Len(); i++ {
		fd := fds.Get(i)
		if m.Has(fd) || fd.ContainingOneof() != nil || !fd.HasPresence() || fd.IsList() || fd.IsMap() {
			continue
		}
		if md := fd.Message(); md != nil && md.FullName() == "google.protobuf.Value" {
			return true
		}
		if ed := fd.Enum(); ed != nil && ed.FullName() == "google.protobuf.NullValue" {
			return true
		}
	}
	found := false
	m.Range(func(fd protoreflect.FieldDescriptor, v protoreflect.Value) bool {
		switch {
		case fd.IsMap():
			if fd.MapValue().Message() != nil {
				v.Map().Range(func(_ protoreflect.MapKey, x protoreflect.Value) bool {
					found = found || hasUnsetNullish(x.Message())
					return !found
				})
			}
		case fd.IsList():
			if fd.Message() != nil {
				l := v.List()
				for i := 0; i < l.Len(); i++ {
					found = found || hasUnsetNullish(l.Get(i).Message())
				}
			}
		case fd.Message() != nil:
			found = found || hasUnsetNullish(v.Message())
		}
		return !found
	})
	return found
}

// floats collects the float32/float64 values of plain fields (bits), for the formatting tables.
func floats(m protoreflect.Message, f32 map[uint32]bool, f64 map[uint64]bool) {
	one := func(fd protoreflect.FieldDescriptor, v protoreflect.Value) {
		switch fd.Kind() {
		case protoreflect.FloatKind:
			f32[math.Float32bits(float32(v.Float()))] = true
		case protoreflect.DoubleKind:
			f64[math.Float64bits(v.Float())] = true
		case protoreflect.MessageKind, protoreflect.GroupKind:
			floats(v.Message(), f32, f64)
		}
	}
	m.Range(func(fd protoreflect.FieldDescriptor, v protoreflect.Value) bool {
		switch {
		case fd.IsMap():
			v.Map().Range(func(k protoreflect.MapKey, x protoreflect.Value) bool {
				one(fd.MapValue(), x)
				return true
			})
		case fd.IsList():
			l := v.List()
			for i := 0; i < l.Len(); i++ {
				one(fd, l.Get(i))
			}
		default:
			one(fd, v)
		}
		return true
	})
}
