package main

import (
	"fmt"
	"math"
	"strings"

	"google.golang.org/protobuf/encoding/protojson"
	"google.golang.org/protobuf/internal/encoding/json"
	vh "google.golang.org/protobuf/internal/zz_verif_vh"
	"google.golang.org/protobuf/proto"
	"google.golang.org/protobuf/reflect/protoreflect"
)

const sigNull18 = "json-emitunpopulated-null-for-value"

type jopt struct {
	Multiline       bool
	Indent          string
	UseProtoNames   bool
	UseEnumNumbers  bool
	EmitUnpopulated bool
	EmitDefault     bool
}

func (o jopt) mo() protojson.MarshalOptions {
	return protojson.MarshalOptions{Multiline: o.Multiline, Indent: o.Indent, UseProtoNames: o.UseProtoNames,
		UseEnumNumbers: o.UseEnumNumbers, EmitUnpopulated: o.EmitUnpopulated, EmitDefaultValues: o.EmitDefault, AllowPartial: true}
}

func (o jopt) bits() string {
	return fmt.Sprintf("%d%d%d%d", b2i(o.UseProtoNames), b2i(o.UseEnumNumbers), b2i(o.EmitUnpopulated), b2i(o.EmitDefault))
}

func (o jopt) String() string {
	return fmt.Sprintf("Multiline=%v Indent=%q UseProtoNames=%v UseEnumNumbers=%v EmitUnpopulated=%v EmitDefaultValues=%v",
		o.Multiline, o.Indent, o.UseProtoNames, o.UseEnumNumbers, o.EmitUnpopulated, o.EmitDefault)
}

// all 2^6 combinations
func allJOpts() []jopt {
	var out []jopt
	for i := 0; i < 64; i++ {
		o := jopt{Multiline: i&1 != 0, UseProtoNames: i&4 != 0, UseEnumNumbers: i&8 != 0, EmitUnpopulated: i&16 != 0, EmitDefault: i&32 != 0}
		if i&2 != 0 {
			o.Indent = "  "
		}
		out = append(out, o)
	}
	return out
}

// jsonFloatText is json.Encoder.WriteFloat (the delegated lexical layer)
func jsonFloatText(v float64, bits int) string {
	e, _ := json.NewEncoder(nil, "")
	e.WriteFloat(v, bits)
	return string(e.Bytes())
}

func finite(v float64) bool { return !math.IsNaN(v) && !math.IsInf(v, 0) }

// sendFloatTables tells the model how the real encoders print the finite floats of m.
func sendFloatTables(c *C, m protoreflect.Message, which string, f func(v float64, bits int) string) {
	if !c.HasModel() {
		return
	}
	f32, f64 := map[uint32]bool{}, map[uint64]bool{}
	floats(m, f32, f64)
	c.Ask("fclear")
	for b := range f32 {
		v := float64(math.Float32frombits(b))
		if finite(v) {
			c.Ask("ffmt %s 32 %d %s", which, b, vh.Hex([]byte(f(v, 32))))
		}
	}
	for b := range f64 {
		v := math.Float64frombits(b)
		if finite(v) {
			c.Ask("ffmt %s 64 %d %s", which, b, vh.Hex([]byte(f(v, 64))))
		}
	}
	// implicit-presence float fields print 0 when unpopulated (EmitUnpopulated / EmitDefaultValues)
	c.Ask("ffmt %s 32 0 %s", which, vh.Hex([]byte(f(0, 32))))
	c.Ask("ffmt %s 64 0 %s", which, vh.Hex([]byte(f(0, 64))))
}

type c20input struct {
	Type string `json:"type"`
	Msg  string `json:"msg_prototext"`
	Wire string `json:"msg_wire_hex"`
	Opts string `json:"options"`
	JSON string `json:"json,omitempty"`
	Why  string `json:"why,omitempty"`
}

func mkInput(r *Root, m proto.Message, o fmt.Stringer, out []byte, why string) c20input {
	w, _ := proto.MarshalOptions{AllowPartial: true, Deterministic: true}.Marshal(m)
	return c20input{Type: r.Name, Msg: short(fmt.Sprint(m), 600), Wire: vh.Hex(w), Opts: o.String(), JSON: short(string(out), 600), Why: why}
}

func errClassJ(err error) string {
	if err == nil {
		return "ok"
	}
	if strings.Contains(err.Error(), "invalid UTF-8") {
		return "err utf8"
	}
	return "err other"
}

// oneC20 checks one message under all 64 option combinations.
func oneC20(c *C, r *Root, m proto.Message, tag string) {
	mr := m.ProtoReflect()
	rep := representable(mr)
	base := proto.Clone(m)
	stripUnknown(base.ProtoReflect())
	baseSnap := SnapNorm(base.ProtoReflect())
	msgTok := Snap(mr)
	useModel := install(c, r)
	if useModel {
		sendFloatTables(c, mr, "j", jsonFloatText)
	}
	modelAns := map[string]string{}
	nontrivial := false
	for _, o := range allJOpts() {
		if c.Failed() {
			return
		}
		var out []byte
		var err error
		func() {
			defer c.Recover("protojson.Marshal", mkInput(r, m, o, nil, ""), "")
			out, err = o.mo().Marshal(m)
		}()
		c.Hist("marshal:" + errClassJ(err))
		// Marshal fails exactly for content without a JSON form
		if (err == nil) != rep.Marshalable {
			why := rep.Why
			if err != nil {
				why = "Marshal failed: " + err.Error()
			}
			c.Check(false, "protojson.Marshal verdict differs from the representable predicate", mkInput(r, m, o, out, why), "")
			continue
		}
		// model: the JSON tree
		if useModel {
			ans, ok := modelAns[o.bits()]
			if !ok {
				ans = c.Ask("tojson %s 0 %s", o.bits(), msgTok)
				modelAns[o.bits()] = ans
			}
			switch {
			case ans == "err delegated":
				c.Hist("model:delegated")
			case err != nil:
				c.Hist("model:compared-error")
				c.Compare("toJSON verdict", mkInput(r, m, o, nil, ""), errClassJ(err), ans)
			default:
				tree, _, terr := jsonTree(out, false)
				if terr != nil {
					c.Check(false, "protojson.Marshal output is not one JSON value for the real tokenizer: "+terr.Error(), mkInput(r, m, o, out, ""), "")
				} else {
					c.Hist("model:compared-tree")
					c.Compare("toJSON tree", mkInput(r, m, o, out, ""), tree, norm(ans))
				}
			}
		}
		if err != nil {
			continue
		}
		nontrivial = nontrivial || len(out) > 2
		// round trip, generated and dynamicpb
		for i, mt := range []protoreflect.MessageType{r.MT, r.DT} {
			got := mt.New().Interface()
			var uerr error
			func() {
				defer c.Recover("protojson.Unmarshal", mkInput(r, m, o, out, ""), "")
				uerr = protojson.UnmarshalOptions{AllowPartial: true}.Unmarshal(out, got)
			}()
			impl := []string{"generated", "dynamicpb"}[i]
			sig := ""
			if o.EmitUnpopulated && hasUnsetNullish(mr) {
				sig = sigNull18
			}
			if uerr != nil {
				checkSig(c, false, "protojson.Unmarshal ("+impl+") rejects Marshal output: "+uerr.Error(), mkInput(r, m, o, out, rep.Why), sig)
				continue
			}
			if !rep.Exact {
				c.Hist("roundtrip:not-exact-by-predicate")
				continue
			}
			eq := proto.Equal(base, got)
			if !eq || SnapNorm(got.ProtoReflect()) != baseSnap {
				c.Hist("roundtrip:differs")
				checkSig(c, false, "protojson round trip ("+impl+"): Unmarshal(Marshal(m)) differs from m without unknown fields",
					mkInput(r, m, o, out, fmt.Sprintf("Equal=%v got=%s", eq, short(fmt.Sprint(got), 300))), sig)
			} else {
				c.Hist("roundtrip:equal")
			}
		}
	}
	// the executed model-level round trip (the statement of C20.fromJSON_toJSON_partial on this message)
	if useModel && c.Rand.Intn(4) == 0 {
		o := allJOpts()[c.Rand.Intn(64)]
		ans := c.Ask("rtjson %s 0 %s", o.bits(), msgTok)
		switch {
		case ans == "1":
			c.Hist("model-rt:ok")
		case strings.HasPrefix(ans, "err delegated"), strings.HasPrefix(ans, "err utf8"):
			c.Hist("model-rt:" + ans)
		default:
			c.Compare("model-level round trip fromJSON(toJSON m) = norm m", mkInput(r, m, o, nil, ""), "1", short(ans, 300))
		}
	}
	c.Case(tag+r.Name+hashKey(msgTok), nontrivial)
}

func runC20(c *C) {
	c.R.Rule = "a case = one message under all 64 option combinations, generated and dynamicpb; non-trivial = Marshal succeeded with a non-empty object; distinct by type and content"
	rs := roots(c)
	// DESIGN finding 18 first: the empty pb2.KnownTypes
	if r := rootByName(rs, "pb2.KnownTypes"); r != nil {
		oneC20(c, r, r.MT.New().Interface(), "finding18:")
		c.Sample(map[string]string{"stream": "finding18", "type": r.Name, "msg": "{}"})
	}
	for _, in := range c.ReplayInputs() {
		replayC20(c, rs, in)
	}
	stringStream(c, rs, oneC20)
	n := c.N(7, 400)
	for _, r := range rs {
		for i := 0; i < n && !c.Failed(); i++ {
			m := r.MT.New()
			o := Opts{MaxDepth: 1 + c.Rand.Intn(3), FieldProb: 1 + c.Rand.Intn(5)}
			switch c.Rand.Intn(4) {
			case 0:
				o.BadUTF8 = true
			case 1:
				o.BadWKT = true
			}
			fill(c, m, 0, o, r.Exts)
			c.Hist(fmt.Sprintf("gen:badutf8=%v,badwkt=%v", o.BadUTF8, o.BadWKT))
			oneC20(c, r, m.Interface(), "")
			if i == 0 {
				c.Sample(map[string]string{"type": r.Name, "msg": short(fmt.Sprint(m.Interface()), 300)})
			}
		}
	}
}
