package main

import (
	"encoding/base64"
	"errors"
	"fmt"
	"math"
	"strconv"
	"strings"

	"google.golang.org/protobuf/internal/encoding/json"
	"google.golang.org/protobuf/internal/encoding/text"
	vh "google.golang.org/protobuf/internal/zz_verif_vh"
)

// The lexical layers are delegated: documents are cut into tokens by the real tokenizers
// (internal/encoding/json.Decoder, internal/encoding/text.Decoder) and the trees the Lean model works on
// are built from those tokens.  Scalar tokens carry the interpretation the real accessors give them.

func norm(s string) string { return strings.Join(strings.Fields(s), " ") }

func optI(v int64, ok bool) string {
	if !ok {
		return "-"
	}
	return strconv.FormatInt(v, 10)
}
func optU(v uint64, ok bool) string {
	if !ok {
		return "-"
	}
	return strconv.FormatUint(v, 10)
}

// interpretation of a JSON Number token as an integer: Int(64), else Uint(64)
func jsonIntOf(tok json.Token) string {
	if v, ok := tok.Int(64); ok {
		return optI(v, true)
	}
	if v, ok := tok.Uint(64); ok {
		return optU(v, true)
	}
	return "-"
}

func jsonF32Of(tok json.Token) string {
	if v, ok := tok.Float(32); ok {
		return optU(uint64(math.Float32bits(float32(v))), true)
	}
	return "-"
}

func jsonF64Of(tok json.Token) string {
	if v, ok := tok.Float(64); ok {
		return optU(math.Float64bits(v), true)
	}
	return "-"
}

// number-in-string: what protojson.unmarshalInt / unmarshalUint / unmarshalFloat do with a String token
// (apart from the NaN / Infinity spellings, which the model handles itself)
func jsonStrNum(s string) (i, f32, f64 string) {
	i, f32, f64 = "-", "-", "-"
	if len(strings.TrimSpace(s)) != len(s) {
		return
	}
	dec := json.NewDecoder([]byte(s))
	tok, err := dec.Read()
	if err != nil {
		return
	}
	if next, err := dec.Read(); err != nil || next.Kind() != json.EOF {
		return
	}
	if tok.Kind() != json.Number {
		return
	}
	return jsonIntOf(tok), jsonF32Of(tok), jsonF64Of(tok)
}

// protojson.unmarshalBytes
func jsonB64(s string) string {
	enc := base64.StdEncoding
	if strings.ContainsAny(s, "-_") {
		enc = base64.URLEncoding
	}
	if len(s)%4 != 0 {
		enc = enc.WithPadding(base64.NoPadding)
	}
	b, err := enc.DecodeString(s)
	if err != nil {
		return "!"
	}
	return vh.Hex(b)
}

// strconv.ParseInt / ParseUint(name, 10, 64) of a map key
func jsonKeyInt(s string) string {
	if v, err := strconv.ParseInt(s, 10, 64); err == nil {
		return optI(v, true)
	}
	if v, err := strconv.ParseUint(s, 10, 64); err == nil {
		return optU(v, true)
	}
	return "-"
}

var errTrailing = errors.New("trailing tokens")

// jsonTree tokenizes b and renders the value tree in the line-protocol grammar; annot adds the
// interpretation columns. Returns an error when the document is not one complete JSON value.
func jsonTree(b []byte, annot bool) (string, int, error) {
	dec := json.NewDecoder(b)
	var sb strings.Builder
	maxDepth := 0
	var val func(tok json.Token, depth int) error
	val = func(tok json.Token, depth int) error {
		if depth > maxDepth {
			maxDepth = depth
		}
		switch tok.Kind() {
		case json.Null:
			sb.WriteString("N ")
		case json.Bool:
			if tok.Bool() {
				sb.WriteString("T ")
			} else {
				sb.WriteString("F ")
			}
		case json.Number:
			sb.WriteString("n " + vh.Hex([]byte(tok.RawString())) + " ")
			if annot {
				sb.WriteString(jsonIntOf(tok) + " " + jsonF32Of(tok) + " " + jsonF64Of(tok) + " ")
			}
		case json.String:
			s := tok.ParsedString()
			sb.WriteString("s " + vh.Hex([]byte(s)) + " ")
			if annot {
				i, a, b := jsonStrNum(s)
				sb.WriteString(i + " " + a + " " + b + " " + jsonB64(s) + " ")
			}
		case json.ArrayOpen:
			sb.WriteString("[ ")
			for {
				t, err := dec.Read()
				if err != nil {
					return err
				}
				if t.Kind() == json.ArrayClose {
					break
				}
				if err := val(t, depth+1); err != nil {
					return err
				}
			}
			sb.WriteString("] ")
		case json.ObjectOpen:
			sb.WriteString("{ ")
			for {
				t, err := dec.Read()
				if err != nil {
					return err
				}
				if t.Kind() == json.ObjectClose {
					break
				}
				if t.Kind() != json.Name {
					return fmt.Errorf("unexpected token %v", t.Kind())
				}
				sb.WriteString("k " + vh.Hex([]byte(t.Name())) + " ")
				if annot {
					sb.WriteString(jsonKeyInt(t.Name()) + " ")
				}
				v, err := dec.Read()
				if err != nil {
					return err
				}
				if err := val(v, depth+1); err != nil {
					return err
				}
			}
			sb.WriteString("} ")
		default:
			return fmt.Errorf("unexpected token %v", tok.Kind())
		}
		return nil
	}
	tok, err := dec.Read()
	if err != nil {
		return "", 0, err
	}
	if err := val(tok, 0); err != nil {
		return "", 0, err
	}
	end, err := dec.Read()
	if err != nil {
		return "", 0, err
	}
	if end.Kind() != json.EOF {
		return "", 0, errTrailing
	}
	return norm(sb.String()), maxDepth, nil
}

func isLetter(c byte) bool { return c == '_' || 'a' <= c && c <= 'z' || 'A' <= c && c <= 'Z' }

// textTree tokenizes a text-format document and renders the top-level field list.
func textTree(b []byte, annot bool) (string, int, error) {
	dec := text.NewDecoder(b)
	var sb strings.Builder
	maxDepth := 0
	scalar := func(tok text.Token) {
		if s, ok := tok.String(); ok {
			sb.WriteString("s " + vh.Hex([]byte(s)) + " ")
			return
		}
		raw := tok.RawString()
		lit := len(raw) > 0 && (isLetter(raw[0]) || (raw[0] == '-' && len(raw) > 1 && isLetter(raw[1])))
		if lit {
			sb.WriteString("l " + vh.Hex([]byte(raw)) + " ")
			return
		}
		sb.WriteString("n " + vh.Hex([]byte(raw)) + " ")
		if annot {
			i, iok := tok.Int64()
			u, uok := tok.Uint64()
			bv, bok := tok.Bool()
			bs := "-"
			if bok {
				bs = strconv.Itoa(b2i(bv))
			}
			f32, fok := tok.Float32()
			f64, dok := tok.Float64()
			sb.WriteString(optI(i, iok) + " " + optU(u, uok) + " " + bs + " " +
				optU(uint64(math.Float32bits(f32)), fok) + " " + optU(math.Float64bits(f64), dok) + " ")
		}
	}
	var fields func(depth int, top bool) error
	var value func(depth int) error
	value = func(depth int) error {
		tok, err := dec.Read()
		if err != nil {
			return err
		}
		switch tok.Kind() {
		case text.Scalar:
			scalar(tok)
		case text.MessageOpen:
			sb.WriteString("{ ")
			if err := fields(depth+1, false); err != nil {
				return err
			}
			sb.WriteString("} ")
		case text.ListOpen:
			sb.WriteString("[ ")
			for {
				t, err := dec.Peek()
				if err != nil {
					return err
				}
				if t.Kind() == text.ListClose {
					dec.Read()
					break
				}
				if t.Kind() != text.Scalar && t.Kind() != text.MessageOpen {
					return fmt.Errorf("unexpected token in list: %v", t.Kind())
				}
				if err := value(depth); err != nil {
					return err
				}
			}
			sb.WriteString("] ")
		default:
			return fmt.Errorf("unexpected token %v", tok.Kind())
		}
		return nil
	}
	fields = func(depth int, top bool) error {
		if depth > maxDepth {
			maxDepth = depth
		}
		for {
			tok, err := dec.Read()
			if err != nil {
				return err
			}
			switch tok.Kind() {
			case text.EOF:
				if top {
					return nil
				}
				return text.ErrUnexpectedEOF
			case text.MessageClose:
				if top {
					return fmt.Errorf("unexpected }")
				}
				return nil
			case text.Name:
			default:
				return fmt.Errorf("unexpected token %v", tok.Kind())
			}
			switch tok.NameKind() {
			case text.IdentName:
				sb.WriteString("i " + vh.Hex([]byte(tok.IdentName())) + " ")
			case text.TypeName:
				sb.WriteString("t " + vh.Hex([]byte(tok.TypeName())) + " ")
			case text.FieldNumber:
				sb.WriteString("# " + strconv.Itoa(int(tok.FieldNumber())) + " ")
			}
			sb.WriteString(strconv.Itoa(b2i(tok.HasSeparator())) + " ")
			if err := value(depth); err != nil {
				return err
			}
		}
	}
	if err := fields(0, true); err != nil {
		return "", 0, err
	}
	return norm(sb.String()), maxDepth, nil
}
