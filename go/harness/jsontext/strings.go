package main

// Exhaustive string stream for C20 / C24: every control character U+0000–U+001F and U+007F individually, U+2028/2029,
// the HTML-sensitive and quoting characters, supplementary-plane runes (surrogate pairs in JSON escapes), U+FFFD and
// a few Latin-1 / BMP neighbours — each alone, followed by hex digits, followed by non-hex characters, at the end of
// a string and doubled — in EVERY string position of the small corpus types: singular, repeated, map key, map value,
// oneof member, nested message, Struct key, Value.string_value, ListValue element, StringValue wrapper, packed in an
// Any.  Exhaustive over the character set in the quick tier; the thorough tier also rotates every variant through
// every position.

import (
	"fmt"

	"google.golang.org/protobuf/proto"
	"google.golang.org/protobuf/reflect/protoreflect"
	"google.golang.org/protobuf/reflect/protoregistry"
)

func specialRunes() []rune {
	var rs []rune
	for r := rune(0); r < 0x20; r++ {
		rs = append(rs, r)
	}
	rs = append(rs, 0x7f, 0x80, 0x9f, 0xa0, 0xba, 0xff, 0x2028, 0x2029, '<', '>', '&', '"', '\'', '\\', '/', 0xfffd, 0xfffe, 0xffff,
		0xd7ff, 0xe000, 0x10000, 0x1f600, 0x10ffff)
	return rs
}

// the variants of one character: alone, followed by hex digits (two shapes), followed by non-hex characters,
// at the end of a string, doubled
func runeVariants(r rune) []string {
	s := string(r)
	return []string{s, s + "AB", s + "0f9", s + " zg", "x" + s, s + s}
}

// specialStrings: a sample of the variants for the random generators
func specialStrings() []string {
	var out []string
	for _, r := range specialRunes() {
		out = append(out, runeVariants(r)...)
	}
	return out
}

var stringRoots = []string{
	"pb2.Scalars", "pb3.Scalars", "pb2.Repeats", "pb3.Repeats", "pb2.Maps", "pb3.Maps", "pb2.Nests", "pb3.Nests", "pb3.Oneofs",
	"pb3.JSONNames", "pb3.Proto3Optional", "pb2.KnownTypes", "google.protobuf.Struct", "google.protobuf.Value", "google.protobuf.ListValue",
	"google.protobuf.Any",
}

// setStrings puts next() into every string position reachable from m (depth levels of plain messages);
// of every real oneof the member number oneofK (mod its size) is set when it is a string or a message.
func setStrings(m protoreflect.Message, depth int, next func() string, oneofK int) {
	md := m.Descriptor()
	switch md.FullName() {
	case "google.protobuf.StringValue":
		m.Set(fieldByName(m, "value"), protoreflect.ValueOfString(next()))
		return
	case "google.protobuf.Value":
		m.Set(fieldByName(m, "string_value"), protoreflect.ValueOfString(next()))
		return
	case "google.protobuf.ListValue":
		l := m.Mutable(fieldByName(m, "values")).List()
		for i := 0; i < 2; i++ {
			e := l.NewElement()
			setStrings(e.Message(), depth, next, oneofK)
			l.Append(e)
		}
		return
	case "google.protobuf.Struct":
		mp := m.Mutable(fieldByName(m, "fields")).Map()
		for i := 0; i < 3; i++ {
			v := mp.NewValue()
			if i == 2 && depth > 0 {
				// a nested Struct under a special key
				sv := v.Message().Mutable(fieldByName(v.Message(), "struct_value")).Message()
				setStrings(sv, depth-1, next, oneofK)
			} else {
				setStrings(v.Message(), depth, next, oneofK)
			}
			mp.Set(protoreflect.ValueOfString(next()).MapKey(), v)
		}
		return
	case "google.protobuf.Any":
		mt, err := protoregistry.GlobalTypes.FindMessageByName("google.protobuf.StringValue")
		if err != nil {
			return
		}
		inner := mt.New()
		setStrings(inner, 0, next, oneofK)
		b, err := proto.MarshalOptions{Deterministic: true}.Marshal(inner.Interface())
		if err != nil {
			return
		}
		m.Set(fieldByName(m, "type_url"), protoreflect.ValueOfString("type.googleapis.com/google.protobuf.StringValue"))
		m.Set(fieldByName(m, "value"), protoreflect.ValueOfBytes(b))
		return
	}
	if isWKT(md) {
		return
	}
	fds := md.Fields()
	for i := 0; i < fds.Len(); i++ {
		fd := fds.Get(i)
		if od := fd.ContainingOneof(); od != nil && !od.IsSynthetic() {
			if od.Fields().Get(oneofK%od.Fields().Len()).Number() != fd.Number() {
				continue
			}
		}
		switch {
		case fd.IsMap():
			k, v := fd.MapKey(), fd.MapValue()
			keyStr, valStr := k.Kind() == protoreflect.StringKind, v.Kind() == protoreflect.StringKind
			if !keyStr && !valStr && (v.Message() == nil || depth == 0) {
				continue
			}
			mp := m.Mutable(fd).Map()
			for j := 0; j < 3; j++ {
				var key protoreflect.MapKey
				switch {
				case keyStr:
					key = protoreflect.ValueOfString(next()).MapKey()
				case k.Kind() == protoreflect.BoolKind:
					if j == 2 {
						continue
					}
					key = protoreflect.ValueOfBool(j == 1).MapKey()
				default:
					key = intKey(k, j)
				}
				val := mp.NewValue()
				switch {
				case valStr:
					val = protoreflect.ValueOfString(next())
				case v.Message() != nil:
					if depth > 0 {
						setStrings(val.Message(), depth-1, next, oneofK)
					}
				}
				mp.Set(key, val)
			}
		case fd.IsList():
			switch {
			case fd.Kind() == protoreflect.StringKind:
				l := m.Mutable(fd).List()
				for j := 0; j < 3; j++ {
					l.Append(protoreflect.ValueOfString(next()))
				}
			case fd.Message() != nil && depth > 0:
				l := m.Mutable(fd).List()
				e := l.NewElement()
				setStrings(e.Message(), depth-1, next, oneofK)
				l.Append(e)
			}
		case fd.Kind() == protoreflect.StringKind:
			m.Set(fd, protoreflect.ValueOfString(next()))
		case fd.Message() != nil && depth > 0:
			setStrings(m.Mutable(fd).Message(), depth-1, next, oneofK)
		}
	}
}

func intKey(k protoreflect.FieldDescriptor, j int) protoreflect.MapKey {
	switch k.Kind() {
	case protoreflect.Int32Kind, protoreflect.Sint32Kind, protoreflect.Sfixed32Kind:
		return protoreflect.ValueOfInt32(int32(j)).MapKey()
	case protoreflect.Int64Kind, protoreflect.Sint64Kind, protoreflect.Sfixed64Kind:
		return protoreflect.ValueOfInt64(int64(j)).MapKey()
	case protoreflect.Uint32Kind, protoreflect.Fixed32Kind:
		return protoreflect.ValueOfUint32(uint32(j)).MapKey()
	default:
		return protoreflect.ValueOfUint64(uint64(j)).MapKey()
	}
}

func maxOneof(md protoreflect.MessageDescriptor) int {
	n := 1
	for i := 0; i < md.Oneofs().Len(); i++ {
		if od := md.Oneofs().Get(i); !od.IsSynthetic() && od.Fields().Len() > n {
			n = od.Fields().Len()
		}
	}
	return n
}

// stringStream runs one(r, m, tag) on the exhaustive messages
func stringStream(c *C, rs []*Root, one func(c *C, r *Root, m proto.Message, tag string)) {
	runes := specialRunes()
	shifts := 1
	if c.Thorough() {
		shifts = 6
	}
	for ri, name := range stringRoots {
		r := rootByName(rs, name)
		if r == nil {
			continue
		}
		nk := maxOneof(r.MT.Descriptor())
		for ci, ch := range runes {
			vs := runeVariants(ch)
			for shift := 0; shift < shifts; shift++ {
				for k := 0; k < nk; k++ {
					if c.Failed() {
						return
					}
					i := ri + ci + shift + k // rotate the variants over the positions
					next := func() string { s := vs[i%len(vs)]; i++; return s }
					m := r.MT.New()
					setStrings(m, 2, next, k)
					c.Hist("strings:message")
					one(c, r, m.Interface(), fmt.Sprintf("strings:U+%04X:", ch))
				}
			}
		}
	}
}
