package main

import (
	"encoding/json"
	"fmt"
	"math"
	"runtime"
	"strconv"
	"strings"
	"sync"
	"sync/atomic"
	"unicode/utf8"

	"google.golang.org/protobuf/encoding/prototext"
	"google.golang.org/protobuf/internal/encoding/messageset"
	"google.golang.org/protobuf/internal/encoding/text"
	"google.golang.org/protobuf/internal/strs"
	vh "google.golang.org/protobuf/internal/zz_verif_vh"
	"google.golang.org/protobuf/proto"
	"google.golang.org/protobuf/reflect/protoreflect"
)

const sigF32 = "prototext-float32-double-rounding"

type topt struct {
	Multiline bool
	Indent    string
	EmitASCII bool
}

func (o topt) mo() prototext.MarshalOptions {
	return prototext.MarshalOptions{Multiline: o.Multiline, Indent: o.Indent, EmitASCII: o.EmitASCII, AllowPartial: true}
}

func (o topt) String() string {
	return fmt.Sprintf("Multiline=%v Indent=%q EmitASCII=%v EmitUnknown=false", o.Multiline, o.Indent, o.EmitASCII)
}

func allTOpts() []topt {
	var out []topt
	for i := 0; i < 8; i++ {
		o := topt{Multiline: i&1 != 0, EmitASCII: i&4 != 0}
		if i&2 != 0 {
			o.Indent = "  "
		}
		out = append(out, o)
	}
	return out
}

// textFloatText is text.Encoder.WriteFloat (the delegated lexical layer)
func textFloatText(v float64, bits int) string {
	e, _ := text.NewEncoder(nil, "", [2]byte{'{', '}'}, false)
	e.WriteFloat(v, bits)
	return string(e.Bytes())
}

// textValid: the content prototext.Marshal accepts — valid UTF-8 in every string field that enforces it
// (Any values are expanded only when that succeeds, so they never make Marshal fail).
func textValid(m protoreflect.Message) bool {
	if messageset.IsMessageSet(m.Descriptor()) {
		return false
	}
	ok := true
	one := func(fd protoreflect.FieldDescriptor, v protoreflect.Value) {
		switch fd.Kind() {
		case protoreflect.StringKind:
			if strs.EnforceUTF8(fd) && !utf8.ValidString(v.String()) {
				ok = false
			}
		case protoreflect.MessageKind, protoreflect.GroupKind:
			if !textValid(v.Message()) {
				ok = false
			}
		}
	}
	m.Range(func(fd protoreflect.FieldDescriptor, v protoreflect.Value) bool {
		switch {
		case fd.IsMap():
			v.Map().Range(func(k protoreflect.MapKey, x protoreflect.Value) bool {
				one(fd.MapKey(), k.Value())
				one(fd.MapValue(), x)
				return true
			})
		case fd.IsList():
			l := v.List()
			for i := 0; i < l.Len(); i++ {
				one(fd, l.Get(i))
			}
		default:
			one(fd, v)
		}
		return true
	})
	return ok
}

// doubleRounds: the classifier of DESIGN finding 15 (fixed in /repo e864d0a; kept so that a regression is reported
// under the old signature) on one float32 value:
// float32(ParseFloat(text, 64)) != ParseFloat(text, 32) for the shortest text of v
func doubleRounds(v float32) bool {
	if v != v || math.IsInf(float64(v), 0) {
		return false
	}
	s := strconv.FormatFloat(float64(v), 'g', -1, 32)
	a, _ := strconv.ParseFloat(s, 64)
	b, _ := strconv.ParseFloat(s, 32)
	return math.Float32bits(float32(a)) != math.Float32bits(float32(b))
}

func hasDoubleRounding(m protoreflect.Message) bool {
	f32, f64 := map[uint32]bool{}, map[uint64]bool{}
	floats(m, f32, f64)
	for b := range f32 {
		if doubleRounds(math.Float32frombits(b)) {
			return true
		}
	}
	return false
}

func oneC24(c *C, r *Root, m proto.Message, tag string) {
	mr := m.ProtoReflect()
	valid := textValid(mr)
	base := proto.Clone(m)
	stripUnknown(base.ProtoReflect())
	baseSnap := SnapNorm(base.ProtoReflect())
	msgTok := Snap(mr)
	useModel := install(c, r)
	modelAns := ""
	if useModel {
		sendFloatTables(c, mr, "t", textFloatText)
		modelAns = c.Ask("totext 0 %s", msgTok)
	}
	nontrivial := false
	sig := ""
	if hasDoubleRounding(mr) {
		sig = sigF32
	}
	for _, o := range allTOpts() {
		if c.Failed() {
			return
		}
		var out []byte
		var err error
		func() {
			defer c.Recover("prototext.Marshal", mkInput(r, m, o, nil, ""), "")
			out, err = o.mo().Marshal(m)
		}()
		c.Hist("marshal:" + errClassJ(err))
		if (err == nil) != valid {
			why := "content is valid"
			if err != nil {
				why = "Marshal failed: " + err.Error()
			}
			c.Check(false, "prototext.Marshal verdict differs from the validity predicate", mkInput(r, m, o, out, why), "")
			continue
		}
		if useModel {
			switch {
			case modelAns == "err delegated":
				c.Hist("model:delegated")
			case err != nil:
				c.Hist("model:compared-error")
				c.Compare("toText verdict", mkInput(r, m, o, nil, ""), errClassJ(err), modelAns)
			default:
				tree, _, terr := textTree(out, false)
				if terr != nil {
					c.Check(false, "prototext.Marshal output is rejected by the real tokenizer: "+terr.Error(), mkInput(r, m, o, out, ""), "")
				} else {
					c.Hist("model:compared-tree")
					c.Compare("toText tree", mkInput(r, m, o, out, ""), tree, norm(modelAns))
				}
			}
		}
		if err != nil {
			continue
		}
		nontrivial = nontrivial || len(out) > 0
		for i, mt := range []protoreflect.MessageType{r.MT, r.DT} {
			got := mt.New().Interface()
			var uerr error
			func() {
				defer c.Recover("prototext.Unmarshal", mkInput(r, m, o, out, ""), "")
				uerr = prototext.UnmarshalOptions{AllowPartial: true}.Unmarshal(out, got)
			}()
			impl := []string{"generated", "dynamicpb"}[i]
			if uerr != nil {
				c.Check(false, "prototext.Unmarshal ("+impl+") rejects Marshal output: "+uerr.Error(), mkInput(r, m, o, out, ""), "")
				continue
			}
			eq := proto.Equal(base, got)
			if !eq || SnapNorm(got.ProtoReflect()) != baseSnap {
				c.Hist("roundtrip:differs")
				checkSig(c, false, "prototext round trip ("+impl+"): Unmarshal(Marshal(m)) differs from m without unknown fields (floats bit for bit, NaNs equal)",
					mkInput(r, m, o, out, fmt.Sprintf("Equal=%v got=%s", eq, short(fmt.Sprint(got), 300))), sig)
			} else {
				c.Hist("roundtrip:equal")
			}
		}
	}
	if useModel && c.Rand.Intn(4) == 0 {
		ans := c.Ask("rttext 0 %s", msgTok)
		switch {
		case ans == "1":
			c.Hist("model-rt:ok")
		case strings.HasPrefix(ans, "err delegated"), strings.HasPrefix(ans, "err utf8"):
			c.Hist("model-rt:" + ans)
		default:
			c.Compare("model-level round trip fromText(toText m) = norm m", mkInput(r, m, topt{}, nil, ""), "1", short(ans, 300))
		}
	}
	c.Case(tag+r.Name+hashKey(msgTok), nontrivial)
}

// regression of finding 15 (fixed in /repo e864d0a): the two float32 values that used to come back one ulp off,
// placed in every float32 position of the small types; they must round-trip bit for bit
func f32Regression(c *C, rs []*Root) {
	for _, bits := range []uint32{0x15AE43FD, 0x95AE43FD} {
		v := protoreflect.ValueOfFloat32(math.Float32frombits(bits))
		for _, r := range rs {
			if r.Flat.HasSpecial && r.Name != "pb2.KnownTypes" {
				continue
			}
			fds := r.MT.Descriptor().Fields()
			for i := 0; i < fds.Len(); i++ {
				fd := fds.Get(i)
				m := r.MT.New()
				switch {
				case fd.IsMap() && fd.MapValue().Kind() == protoreflect.FloatKind:
					m.Mutable(fd).Map().Set(scalar(c, fd.MapKey(), Opts{}).MapKey(), v)
				case fd.IsList() && fd.Kind() == protoreflect.FloatKind:
					m.Mutable(fd).List().Append(v)
				case !fd.IsList() && !fd.IsMap() && fd.Kind() == protoreflect.FloatKind:
					m.Set(fd, v)
				default:
					continue
				}
				c.Hist("f32-regression:case")
				oneC24(c, r, m.Interface(), "f32-regression:")
			}
		}
	}
}

// exhaustive: all 2^32 float32 patterns through text.Encoder.WriteFloat -> text.Decoder -> Token.Float32
func sweepFloat32(c *C) {
	workers := 16
	if n := runtime.NumCPU(); n < workers {
		workers = n
	}
	var bad sync.Map
	var nbad int64
	var wg sync.WaitGroup
	chunk := uint64(1<<32) / uint64(workers)
	for w := 0; w < workers; w++ {
		wg.Add(1)
		go func(lo, hi uint64) {
			defer wg.Done()
			buf := make([]byte, 0, 64)
			for x := lo; x < hi; x++ {
				b := uint32(x)
				v := math.Float32frombits(b)
				if v != v {
					continue // NaNs are one value
				}
				e, _ := text.NewEncoder(buf[:0], "", [2]byte{'{', '}'}, false)
				e.WriteName("f")
				e.WriteFloat(float64(v), 32)
				d := text.NewDecoder(e.Bytes())
				if _, err := d.Read(); err != nil {
					bad.Store(b, "name: "+err.Error())
					atomic.AddInt64(&nbad, 1)
					continue
				}
				tok, err := d.Read()
				if err != nil {
					bad.Store(b, "value: "+err.Error())
					atomic.AddInt64(&nbad, 1)
					continue
				}
				got, ok := tok.Float32()
				if !ok || math.Float32bits(got) != b {
					if atomic.AddInt64(&nbad, 1) < 64 {
						bad.Store(b, fmt.Sprintf("text %s parsed as %08x ok=%v", tok.RawString(), math.Float32bits(got), ok))
					}
				}
			}
		}(uint64(w)*chunk, uint64(w+1)*chunk)
	}
	wg.Wait()
	c.R.Evaluations += 1 << 32
	c.R.Exhaustive = true
	c.Hist("sweep32:values")
	bad.Range(func(k, v any) bool {
		b := k.(uint32)
		sig := ""
		if doubleRounds(math.Float32frombits(b)) {
			sig = sigF32
		}
		c.Check(false, "float32 text round trip (WriteFloat -> Token.Float32) changes the value",
			map[string]string{"float32_bits": fmt.Sprintf("%08x", b), "detail": v.(string)}, sig)
		return true
	})
	c.R.Notes = append(c.R.Notes, fmt.Sprintf("float32 sweep: all 2^32 patterns through text WriteFloat/Token.Float32, %d differing", nbad))
}

func runC24(c *C) {
	c.R.Rule = "a case = one message under all 8 combinations of Multiline/Indent/EmitASCII, generated and dynamicpb; non-trivial = Marshal succeeded with non-empty output; distinct by type and content"
	rs := roots(c)
	f32Regression(c, rs)
	for _, in := range c.ReplayInputs() {
		replayC24(c, rs, in)
	}
	stringStream(c, rs, oneC24)
	n := c.N(24, 1500)
	for _, r := range rs {
		for i := 0; i < n && !c.Failed(); i++ {
			m := r.MT.New()
			o := Opts{MaxDepth: 1 + c.Rand.Intn(3), FieldProb: 1 + c.Rand.Intn(5)}
			switch c.Rand.Intn(5) {
			case 0:
				o.BadUTF8 = true
			case 1:
				o.BadWKT = true
			}
			fill(c, m, 0, o, r.Exts)
			oneC24(c, r, m.Interface(), "")
			if i == 0 {
				c.Sample(map[string]string{"type": r.Name, "msg": short(fmt.Sprint(m.Interface()), 300)})
			}
		}
	}
	if c.Thorough() {
		sweepFloat32(c)
	}
}

func loadReplay(c *C, rs []*Root, raw json.RawMessage) (*Root, proto.Message) {
	var in c20input
	if err := json.Unmarshal(raw, &in); err != nil || in.Type == "" {
		return nil, nil
	}
	r := rootByName(rs, in.Type)
	if r == nil {
		return nil, nil
	}
	m := r.MT.New().Interface()
	if err := (proto.UnmarshalOptions{AllowPartial: true}).Unmarshal(vh.UnHex(in.Wire), m); err != nil {
		c.R.Notes = append(c.R.Notes, "replay: cannot load message: "+err.Error())
		return nil, nil
	}
	return r, m
}

func replayC24(c *C, rs []*Root, raw json.RawMessage) {
	if r, m := loadReplay(c, rs, raw); r != nil {
		c.Hist("replay")
		oneC24(c, r, m, "replay:")
	}
}

func replayC20(c *C, rs []*Root, raw json.RawMessage) {
	if r, m := loadReplay(c, rs, raw); r != nil {
		c.Hist("replay")
		oneC20(c, r, m, "replay:")
	}
}
