package main

// Abstract schema: the harness' own representation of a .proto file.  It is rendered (a) to a
// FileDescriptorProto for the real implementation and (b) to request lines for the Lean model
// (modelproto.go), so that both sides see the same input.  Type references are fully-qualified.

import (
	"google.golang.org/protobuf/proto"
	"google.golang.org/protobuf/types/descriptorpb"
	"google.golang.org/protobuf/types/gofeaturespb"
)

// AFeat is a FeatureSet with explicit presence per feature (0 = not mentioned).
type AFeat struct {
	FP, ET, RFE, UTF8, ME, JF int32 // descriptorpb enum numbers; 0 = unset
	ENS, DSV                  int32 // enforce_naming_style, default_symbol_visibility (ignored by Go)
	GoLegacyJSON              int32 // 0 unset, 1 false, 2 true
	GoAPI                     int32 // 0 unset, else value+1
	GoStrip                   int32 // 0 unset, else value+1
}

func (f *AFeat) empty() bool { return f == nil || *f == AFeat{} }

type ARange struct{ Start, End int32 }

type AField struct {
	Name        string
	Number      int32
	HasNumber   bool
	Label       int32 // 0 = unset
	Type        int32 // 0 = unset
	TypeName    string
	HasTypeName bool
	Extendee    string
	HasExtendee bool
	OneofIndex  *int32
	JSONName    *string
	P3Opt       bool
	Default     *string
	DefClass    string // "" none | ok | bad | enum:<name>   (what the literal is, for the model)
	Packed      int32  // 0 unset, 1 false, 2 true
	Lazy        bool
	Deprecated  bool
	Feat        *AFeat
	EmptyOpts   bool // options message present but empty
}

type AOneof struct {
	Name string
	Feat *AFeat
	Opts int32 // 0 none, 1 present-but-empty OneofOptions, 2 uninterpreted_option
}

type AEnumValue struct {
	Name       string
	Number     int32
	HasNumber  bool
	Deprecated bool
}

type AEnum struct {
	Name       string
	Values     []*AEnumValue
	ResRanges  []ARange // inclusive ends
	ResNames   []string
	AllowAlias int32 // 0 unset 1 false 2 true
	Deprecated bool
	Feat       *AFeat
	Visibility int32
}

type AMsg struct {
	Name       string
	Fields     []*AField
	Oneofs     []*AOneof
	Nested     []*AMsg
	Enums      []*AEnum
	Exts       []*AField
	ExtRanges  []ARange // end exclusive
	// ExtRangeOpts[i] selects the ExtensionRangeOptions of ExtRanges[i] (0 / missing = no options message; see rangeOptions)
	ExtRangeOpts []int32
	ResRanges  []ARange // end exclusive
	ResNames   []string
	MapEntry   bool
	MessageSet bool
	Deprecated bool
	Feat       *AFeat
	Visibility int32
}

type AMethod struct {
	Name, In, Out    string
	CStream, SStream bool
	Deprecated       bool
}

type ASvc struct {
	Name       string
	Methods    []*AMethod
	Deprecated bool
}

type ALoc struct {
	Path     []int32
	Span     []int32
	Lead     string
	Trail    string
	Detached []string
}

type AFile struct {
	Path       string
	Pkg        string
	Syntax     string // "", proto2, proto3, editions
	Edition    int32
	HasEdition bool
	Deps       []string
	PublicDeps []int32
	OptionDeps []string
	Msgs       []*AMsg
	Enums      []*AEnum
	Exts       []*AField
	Svcs       []*ASvc
	Feat       *AFeat
	JavaPkg    string
	Deprecated bool
	Locs       []ALoc
}

// ---------- rendering to descriptorpb ----------

func (f *AFeat) toProto() *descriptorpb.FeatureSet {
	if f == nil {
		return nil
	}
	fs := &descriptorpb.FeatureSet{}
	if f.FP != 0 {
		fs.FieldPresence = descriptorpb.FeatureSet_FieldPresence(f.FP).Enum()
	}
	if f.ET != 0 {
		fs.EnumType = descriptorpb.FeatureSet_EnumType(f.ET).Enum()
	}
	if f.RFE != 0 {
		fs.RepeatedFieldEncoding = descriptorpb.FeatureSet_RepeatedFieldEncoding(f.RFE).Enum()
	}
	if f.UTF8 != 0 {
		fs.Utf8Validation = descriptorpb.FeatureSet_Utf8Validation(f.UTF8).Enum()
	}
	if f.ME != 0 {
		fs.MessageEncoding = descriptorpb.FeatureSet_MessageEncoding(f.ME).Enum()
	}
	if f.JF != 0 {
		fs.JsonFormat = descriptorpb.FeatureSet_JsonFormat(f.JF).Enum()
	}
	if f.ENS != 0 {
		fs.EnforceNamingStyle = descriptorpb.FeatureSet_EnforceNamingStyle(f.ENS).Enum()
	}
	if f.DSV != 0 {
		fs.DefaultSymbolVisibility = descriptorpb.FeatureSet_VisibilityFeature_DefaultSymbolVisibility(f.DSV).Enum()
	}
	if f.GoLegacyJSON != 0 || f.GoAPI != 0 || f.GoStrip != 0 {
		gf := &gofeaturespb.GoFeatures{}
		if f.GoLegacyJSON != 0 {
			gf.LegacyUnmarshalJsonEnum = proto.Bool(f.GoLegacyJSON == 2)
		}
		if f.GoAPI != 0 {
			gf.ApiLevel = gofeaturespb.GoFeatures_APILevel(f.GoAPI - 1).Enum()
		}
		if f.GoStrip != 0 {
			gf.StripEnumPrefix = gofeaturespb.GoFeatures_StripEnumPrefix(f.GoStrip - 1).Enum()
		}
		proto.SetExtension(fs, gofeaturespb.E_Go, gf)
	}
	return fs
}

func (f *AField) toProto() *descriptorpb.FieldDescriptorProto {
	p := &descriptorpb.FieldDescriptorProto{Name: proto.String(f.Name)}
	if f.HasNumber {
		p.Number = proto.Int32(f.Number)
	}
	if f.Label != 0 {
		p.Label = descriptorpb.FieldDescriptorProto_Label(f.Label).Enum()
	}
	if f.Type != 0 {
		p.Type = descriptorpb.FieldDescriptorProto_Type(f.Type).Enum()
	}
	if f.HasTypeName {
		p.TypeName = proto.String(f.TypeName)
	}
	if f.HasExtendee {
		p.Extendee = proto.String(f.Extendee)
	}
	if f.OneofIndex != nil {
		p.OneofIndex = proto.Int32(*f.OneofIndex)
	}
	if f.JSONName != nil {
		p.JsonName = proto.String(*f.JSONName)
	}
	if f.P3Opt {
		p.Proto3Optional = proto.Bool(true)
	}
	if f.Default != nil {
		p.DefaultValue = proto.String(*f.Default)
	}
	if f.Packed != 0 || f.Lazy || f.Deprecated || f.Feat != nil || f.EmptyOpts {
		o := &descriptorpb.FieldOptions{}
		if f.Packed != 0 {
			o.Packed = proto.Bool(f.Packed == 2)
		}
		if f.Lazy {
			o.Lazy = proto.Bool(true)
		}
		if f.Deprecated {
			o.Deprecated = proto.Bool(true)
		}
		o.Features = f.Feat.toProto()
		p.Options = o
	}
	return p
}

func (e *AEnum) toProto() *descriptorpb.EnumDescriptorProto {
	p := &descriptorpb.EnumDescriptorProto{Name: proto.String(e.Name)}
	for _, v := range e.Values {
		vp := &descriptorpb.EnumValueDescriptorProto{Name: proto.String(v.Name)}
		if v.HasNumber {
			vp.Number = proto.Int32(v.Number)
		}
		if v.Deprecated {
			vp.Options = &descriptorpb.EnumValueOptions{Deprecated: proto.Bool(true)}
		}
		p.Value = append(p.Value, vp)
	}
	for _, r := range e.ResRanges {
		p.ReservedRange = append(p.ReservedRange, &descriptorpb.EnumDescriptorProto_EnumReservedRange{Start: proto.Int32(r.Start), End: proto.Int32(r.End)})
	}
	p.ReservedName = append(p.ReservedName, e.ResNames...)
	if e.AllowAlias != 0 || e.Deprecated || e.Feat != nil {
		o := &descriptorpb.EnumOptions{}
		if e.AllowAlias != 0 {
			o.AllowAlias = proto.Bool(e.AllowAlias == 2)
		}
		if e.Deprecated {
			o.Deprecated = proto.Bool(true)
		}
		o.Features = e.Feat.toProto()
		p.Options = o
	}
	if e.Visibility != 0 {
		p.Visibility = descriptorpb.SymbolVisibility(e.Visibility).Enum()
	}
	return p
}

func (m *AMsg) toProto() *descriptorpb.DescriptorProto {
	p := &descriptorpb.DescriptorProto{Name: proto.String(m.Name)}
	for _, f := range m.Fields {
		p.Field = append(p.Field, f.toProto())
	}
	for _, o := range m.Oneofs {
		op := &descriptorpb.OneofDescriptorProto{Name: proto.String(o.Name)}
		if o.Feat != nil {
			op.Options = &descriptorpb.OneofOptions{Features: o.Feat.toProto()}
		} else if o.Opts == 1 {
			op.Options = &descriptorpb.OneofOptions{}
		} else if o.Opts == 2 {
			op.Options = &descriptorpb.OneofOptions{UninterpretedOption: []*descriptorpb.UninterpretedOption{uninterpreted("oneof_opt")}}
		}
		p.OneofDecl = append(p.OneofDecl, op)
	}
	for _, n := range m.Nested {
		p.NestedType = append(p.NestedType, n.toProto())
	}
	for _, e := range m.Enums {
		p.EnumType = append(p.EnumType, e.toProto())
	}
	for _, x := range m.Exts {
		p.Extension = append(p.Extension, x.toProto())
	}
	for i, r := range m.ExtRanges {
		xr := &descriptorpb.DescriptorProto_ExtensionRange{Start: proto.Int32(r.Start), End: proto.Int32(r.End)}
		if i < len(m.ExtRangeOpts) {
			xr.Options = rangeOptions(m.ExtRangeOpts[i], r)
		}
		p.ExtensionRange = append(p.ExtensionRange, xr)
	}
	for _, r := range m.ResRanges {
		p.ReservedRange = append(p.ReservedRange, &descriptorpb.DescriptorProto_ReservedRange{Start: proto.Int32(r.Start), End: proto.Int32(r.End)})
	}
	p.ReservedName = append(p.ReservedName, m.ResNames...)
	if m.MapEntry || m.MessageSet || m.Deprecated || m.Feat != nil {
		o := &descriptorpb.MessageOptions{}
		if m.MapEntry {
			o.MapEntry = proto.Bool(true)
		}
		if m.MessageSet {
			o.MessageSetWireFormat = proto.Bool(true)
		}
		if m.Deprecated {
			o.Deprecated = proto.Bool(true)
		}
		o.Features = m.Feat.toProto()
		p.Options = o
	}
	if m.Visibility != 0 {
		p.Visibility = descriptorpb.SymbolVisibility(m.Visibility).Enum()
	}
	return p
}

func (f *AFile) toProto() *descriptorpb.FileDescriptorProto {
	p := &descriptorpb.FileDescriptorProto{Name: proto.String(f.Path)}
	if f.Pkg != "" {
		p.Package = proto.String(f.Pkg)
	}
	if f.Syntax != "" {
		p.Syntax = proto.String(f.Syntax)
	}
	if f.HasEdition {
		p.Edition = descriptorpb.Edition(f.Edition).Enum()
	}
	p.Dependency = append(p.Dependency, f.Deps...)
	p.PublicDependency = append(p.PublicDependency, f.PublicDeps...)
	p.OptionDependency = append(p.OptionDependency, f.OptionDeps...)
	for _, m := range f.Msgs {
		p.MessageType = append(p.MessageType, m.toProto())
	}
	for _, e := range f.Enums {
		p.EnumType = append(p.EnumType, e.toProto())
	}
	for _, x := range f.Exts {
		p.Extension = append(p.Extension, x.toProto())
	}
	for _, s := range f.Svcs {
		sp := &descriptorpb.ServiceDescriptorProto{Name: proto.String(s.Name)}
		for _, m := range s.Methods {
			mp := &descriptorpb.MethodDescriptorProto{Name: proto.String(m.Name), InputType: proto.String(m.In), OutputType: proto.String(m.Out)}
			if m.CStream {
				mp.ClientStreaming = proto.Bool(true)
			}
			if m.SStream {
				mp.ServerStreaming = proto.Bool(true)
			}
			if m.Deprecated {
				mp.Options = &descriptorpb.MethodOptions{Deprecated: proto.Bool(true), IdempotencyLevel: descriptorpb.MethodOptions_IDEMPOTENT.Enum()}
			}
			sp.Method = append(sp.Method, mp)
		}
		if s.Deprecated {
			sp.Options = &descriptorpb.ServiceOptions{Deprecated: proto.Bool(true)}
		}
		p.Service = append(p.Service, sp)
	}
	if f.Feat != nil || f.JavaPkg != "" || f.Deprecated {
		o := &descriptorpb.FileOptions{}
		if f.JavaPkg != "" {
			o.JavaPackage = proto.String(f.JavaPkg)
		}
		if f.Deprecated {
			o.Deprecated = proto.Bool(true)
		}
		o.Features = f.Feat.toProto()
		p.Options = o
	}
	if len(f.Locs) > 0 {
		sci := &descriptorpb.SourceCodeInfo{}
		for _, l := range f.Locs {
			lp := &descriptorpb.SourceCodeInfo_Location{Path: l.Path, Span: l.Span, LeadingDetachedComments: l.Detached}
			if l.Lead != "" {
				lp.LeadingComments = proto.String(l.Lead)
			}
			if l.Trail != "" {
				lp.TrailingComments = proto.String(l.Trail)
			}
			sci.Location = append(sci.Location, lp)
		}
		p.SourceCodeInfo = sci
	}
	return p
}

// walkMsgs visits every message of the file in declaration (pre-)order with its scope full name.
func (f *AFile) walkMsgs(fn func(scope string, m *AMsg)) {
	var rec func(scope string, ms []*AMsg)
	rec = func(scope string, ms []*AMsg) {
		for _, m := range ms {
			fn(scope, m)
			rec(join(scope, m.Name), m.Nested)
		}
	}
	rec(f.Pkg, f.Msgs)
}

func join(scope, name string) string {
	if scope == "" {
		return name
	}
	return scope + "." + name
}

func uninterpreted(name string) *descriptorpb.UninterpretedOption {
	return &descriptorpb.UninterpretedOption{
		Name:            []*descriptorpb.UninterpretedOption_NamePart{{NamePart: proto.String(name), IsExtension: proto.Bool(false)}},
		IdentifierValue: proto.String("x"),
	}
}

// rangeOptions: the ExtensionRangeOptions variants (each range of a message picks one independently, so that ranges
// with and without options, and with DIFFERENT options, stand next to each other in every order).
func rangeOptions(variant int32, r ARange) *descriptorpb.ExtensionRangeOptions {
	switch variant {
	case 1:
		return &descriptorpb.ExtensionRangeOptions{} // present but empty
	case 2:
		return &descriptorpb.ExtensionRangeOptions{Verification: descriptorpb.ExtensionRangeOptions_UNVERIFIED.Enum()}
	case 3:
		return &descriptorpb.ExtensionRangeOptions{
			Verification: descriptorpb.ExtensionRangeOptions_DECLARATION.Enum(),
			Declaration: []*descriptorpb.ExtensionRangeOptions_Declaration{
				{Number: proto.Int32(r.Start), FullName: proto.String(".decl.ext_a"), Type: proto.String("int32")},
				{Number: proto.Int32(r.End - 1), Reserved: proto.Bool(true)},
			}}
	case 4:
		return &descriptorpb.ExtensionRangeOptions{UninterpretedOption: []*descriptorpb.UninterpretedOption{uninterpreted("range_opt")}}
	case 5:
		return &descriptorpb.ExtensionRangeOptions{Features: &descriptorpb.FeatureSet{JsonFormat: descriptorpb.FeatureSet_ALLOW.Enum()}}
	}
	return nil
}
