package main

func runC35(c *C) {}
func runC38(c *C) {}
