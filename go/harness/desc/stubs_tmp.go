package main

func runC35(c *C) {}
