package main

// C37: the compact builder (internal/filedesc.Builder: unmarshalSeed + lazy unmarshalFull) and
// protodesc.NewFile produce descriptors that agree on every accessor, for the same FileDescriptorProto.
//
//	A (exhaustive) every linked file: (1) the linked descriptor itself (built by filedesc through filetype, dependencies
//	  resolved by index) vs NewFile(ToProto(fd)); (2) a fresh standalone filedesc.Builder over the marshalled proto
//	  (dependencies resolved by name) vs the same NewFile result, with the L1 (non-lazy) accessors dumped BEFORE
//	  lazy initialisation is forced, forced through a randomly chosen accessor, and dumped again.
//	B random valid schemas marshalled to raw form: standalone Builder vs NewFile.

import (
	"fmt"
	"strings"

	"google.golang.org/protobuf/proto"
	"google.golang.org/protobuf/reflect/protodesc"
	"google.golang.org/protobuf/reflect/protoreflect"
	"google.golang.org/protobuf/reflect/protoregistry"
	"google.golang.org/protobuf/types/descriptorpb"
)

func runC37(c *C) {
	c.R.Rule = "A case is one file built twice: by internal/filedesc.Builder from the marshalled FileDescriptorProto (standalone, dependencies by name; for linked files also the linked descriptor itself, dependencies by index) and by protodesc.NewFile from the same proto; the full accessor snapshots must be equal, and the L1 accessors read before lazy initialisation must equal those read after it was forced through a random accessor. " +
		"Stream A is exhaustive over all linked files; stream B random valid schemas. Non-trivial = declares a message, enum, extension or service; distinct by descriptor bytes."
	for _, raw := range c.ReplayInputs() {
		if in, ok := parseReplay(raw); ok {
			replayC37(c, in)
		}
	}
	witnessesC37(c)
	fds := linkedFiles()
	for _, fd := range fds {
		checkLinkedC37(c, fd)
		if c.Failed() {
			return
		}
	}
	c.R.Exhaustive = true
	c.R.Notes = append(c.R.Notes, fmt.Sprintf("stream A enumerated all %d linked files exhaustively; stream B is random", len(fds)))
	n := c.N(900, 30000)
	for i := 0; i < n && !c.Failed(); i++ {
		reg := &protoregistry.Files{}
		a := genFile(c.Rand, genOpts{}, i)
		checkProtoC37(c, a.toProto(), nil, reg, "random")
	}
}

func replayC37(c *C, in replayIn) {
	switch in.Kind {
	case "linked":
		fd, err := protoregistry.GlobalFiles.FindFileByPath(in.Path)
		if err != nil {
			chk(c, false, "replay: linked file not found: "+in.Path, in, "")
			return
		}
		checkLinkedC37(c, fd)
	case "fdp":
		reg := &protoregistry.Files{}
		for _, d := range in.Deps {
			dfd, err, pn := newFile(fdpOfHex(d), depResolver{reg}, false)
			if err != nil || pn != nil {
				chk(c, false, "replay: dependency does not build: "+errClass(err, pn), in, "")
				return
			}
			reg.RegisterFile(dfd)
		}
		checkProtoC37(c, fdpOfHex(in.FDP), in.Deps, reg, in.Note)
	}
}

func checkLinkedC37(c *C, fd protoreflect.FileDescriptor) {
	in := replayIn{Kind: "linked", Path: fd.Path()}
	defer c.Recover("C37 linked file "+fd.Path(), in, "")
	p := protodesc.ToFileDescriptorProto(fd)
	c.Case("linked:"+fd.Path(), nontrivialFile(p))
	c.Hist("A:syntax=" + fd.Syntax().String())
	for i := 0; i < fd.Imports().Len(); i++ {
		if _, err := protoregistry.GlobalFiles.FindFileByPath(fd.Imports().Get(i).Path()); err != nil {
			// irregular/test.proto, legacy/legacy.proto: an import is hand-written / golang/protobuf-v1 era and not in the registry
			c.Hist("A:import-not-linked(skipped)")
			return
		}
	}
	ref, err, pn := newFile(p, protoregistry.GlobalFiles, false)
	if !chk(c, err == nil && pn == nil, "NewFile(ToProto(fd)) fails for linked file "+fd.Path()+": "+errClass(err, pn), in, "") {
		return
	}
	sRef := snapshotFile(ref)
	if s := snapshotFile(fd); s != sRef {
		reportSnapshotDiff(c, "linked descriptor (filedesc via filetype) and protodesc.NewFile disagree for "+fd.Path(), p, s, sRef, in)
	}
	standaloneC37(c, p, depResolver{}, sRef, in)
}

func checkProtoC37(c *C, p *descriptorpb.FileDescriptorProto, deps []string, reg *protoregistry.Files, note string) {
	in := replayIn{Kind: "fdp", FDP: hexOf(p), Deps: deps, Note: note}
	defer c.Recover("C37 schema", in, "")
	c.Case(in.FDP, nontrivialFile(p))
	c.Hist("B:syntax=" + p.GetSyntax() + fmt.Sprint(p.GetEdition()))
	r := depResolver{reg}
	ref, err, pn := newFile(p, r, false)
	if !chk(c, err == nil && pn == nil, "NewFile rejects a valid generated schema: "+errClass(err, pn), in, "") {
		return
	}
	// filedesc.Builder "assumes that the inputs are well-formed" = as protoc emits them: every field carries its type,
	// names are fully qualified.  ToProto(NewFile(p)) is that canonical spelling of p (C34 checks it describes the same file).
	if !strings.HasPrefix(note, "witness:") {
		p = protodesc.ToFileDescriptorProto(ref)
		in.FDP = hexOf(p)
		ref, err, pn = newFile(p, r, false)
		if !chk(c, err == nil && pn == nil, "NewFile rejects ToProto(NewFile(p)): "+errClass(err, pn), in, "") {
			return
		}
	}
	standaloneC37(c, p, r, snapshotFile(ref), in)
	histShape(c, ref)
}

// standaloneC37 builds p with a fresh filedesc.Builder and compares with the reference snapshot.
func standaloneC37(c *C, p *descriptorpb.FileDescriptorProto, r depResolver, sRef string, in replayIn) {
	// Raw descriptors embedded in generated code carry no SourceCodeInfo and filedesc never decodes it
	// (SourceLocations() of a filedesc-built file is always empty): compare without it.
	if p.SourceCodeInfo != nil {
		p = proto.Clone(p).(*descriptorpb.FileDescriptorProto)
		p.SourceCodeInfo = nil
		ref, err, pn := newFile(p, r, false)
		if !chk(c, err == nil && pn == nil, "NewFile rejects p without source info: "+errClass(err, pn), in, "") {
			return
		}
		sRef = snapshotFile(ref)
		c.Hist("source-info-stripped")
	}
	raw, err := proto.MarshalOptions{Deterministic: true}.Marshal(p)
	if err != nil {
		chk(c, false, "marshal: "+err.Error(), in, "")
		return
	}
	built, pn := buildRaw(raw, r)
	if !chk(c, pn == nil, fmt.Sprintf("filedesc.Builder panics on a descriptor protodesc.NewFile accepts: %v", pn), in, "") {
		return
	}
	var pre, post, s string
	func() {
		defer func() {
			if e := recover(); e != nil {
				chk(c, false, fmt.Sprintf("accessor of a filedesc-built descriptor panics: %v", e), in, "")
			}
		}()
		pre = snapshotL1(built)
		forceLazy(c, built)
		post = snapshotL1(built)
		s = snapshotFile(built)
	}()
	if s == "" {
		return
	}
	chk(c, pre == post, "L1 accessors change when lazy initialisation is forced: "+firstDiff(pre, post), in, "")
	if s != sRef {
		reportSnapshotDiff(c, "standalone filedesc.Builder and protodesc.NewFile disagree", p, s, sRef, in)
	}
}

// snapshotL1 dumps only what filedesc computes eagerly (unmarshalSeed): names, indexes, the declaration tree,
// extension number/cardinality/kind/extendee/packed/lazy, message map-entry / MessageSet flags, enum closedness,
// top-level enum values.  It must not trigger lazy initialisation.
func snapshotL1(fd protoreflect.FileDescriptor) string {
	s := &snapper{file: fd}
	s.p(0, "file path=%q package=%q syntax=%v", fd.Path(), fd.Package(), fd.Syntax())
	if e, ok := fd.(interface{ Edition() int32 }); ok {
		s.p(1, "edition=%d", e.Edition())
	}
	var enums func(d int, es protoreflect.EnumDescriptors, top bool)
	enums = func(d int, es protoreflect.EnumDescriptors, top bool) {
		for i := 0; i < es.Len(); i++ {
			e := es.Get(i)
			s.base(d, "enum", e)
			s.p(d+1, "closed=%v", e.IsClosed())
			if top {
				vs := e.Values()
				for j := 0; j < vs.Len(); j++ {
					s.p(d+1, "value %s=%d index=%d", vs.Get(j).FullName(), vs.Get(j).Number(), vs.Get(j).Index())
				}
			}
		}
	}
	exts := func(d int, xs protoreflect.ExtensionDescriptors) {
		for i := 0; i < xs.Len(); i++ {
			x := xs.Get(i)
			s.base(d, "extension", x)
			lazy := "n/a"
			if v, ok := x.(interface{ IsLazy() bool }); ok {
				lazy = fmt.Sprint(v.IsLazy())
			}
			s.p(d+1, "number=%d cardinality=%v kind=%v extendee=%s packed=%v presence=%v list=%v lazy=%s", x.Number(), x.Cardinality(), x.Kind(), x.ContainingMessage().FullName(), x.IsPacked(), x.HasPresence(), x.IsList(), lazy)
		}
	}
	var msgs func(d int, ms protoreflect.MessageDescriptors)
	msgs = func(d int, ms protoreflect.MessageDescriptors) {
		for i := 0; i < ms.Len(); i++ {
			m := ms.Get(i)
			s.base(d, "message", m)
			mset := "n/a"
			if v, ok := m.(interface{ IsMessageSet() bool }); ok {
				mset = fmt.Sprint(v.IsMessageSet())
			}
			s.p(d+1, "mapentry=%v messageset=%s", m.IsMapEntry(), mset)
			enums(d+1, m.Enums(), false)
			msgs(d+1, m.Messages())
			exts(d+1, m.Extensions())
		}
	}
	enums(1, fd.Enums(), true)
	msgs(1, fd.Messages())
	exts(1, fd.Extensions())
	for i := 0; i < fd.Services().Len(); i++ {
		s.base(1, "service", fd.Services().Get(i))
	}
	return s.sb.String()
}

// forceLazy triggers File.lazyInit through one randomly chosen L2 accessor somewhere in the file.
func forceLazy(c *C, fd protoreflect.FileDescriptor) {
	var triggers []func()
	triggers = append(triggers,
		func() { fd.Options() },
		func() { fd.Imports().Len() },
		func() { fd.SourceLocations().Len() },
	)
	var walk func(ms protoreflect.MessageDescriptors)
	walk = func(ms protoreflect.MessageDescriptors) {
		for i := 0; i < ms.Len(); i++ {
			m := ms.Get(i)
			triggers = append(triggers,
				func() { m.Fields().Len() },
				func() { m.Oneofs().Len() },
				func() { m.Options() },
				func() { m.ReservedNames().Len() },
				func() { m.ExtensionRanges().Len() },
				func() { m.RequiredNumbers().Len() },
			)
			for j := 0; j < m.Enums().Len(); j++ {
				e := m.Enums().Get(j)
				triggers = append(triggers, func() { e.Values().Len() }, func() { e.Options() })
			}
			for j := 0; j < m.Extensions().Len(); j++ {
				x := m.Extensions().Get(j)
				triggers = append(triggers, func() { x.JSONName() }, func() { x.Message() }, func() { x.HasDefault() })
			}
			walk(m.Messages())
		}
	}
	walk(fd.Messages())
	for j := 0; j < fd.Enums().Len(); j++ {
		e := fd.Enums().Get(j)
		triggers = append(triggers, func() { e.ReservedRanges().Len() }, func() { e.Options() })
	}
	for j := 0; j < fd.Extensions().Len(); j++ {
		x := fd.Extensions().Get(j)
		triggers = append(triggers, func() { x.Options() }, func() { x.Enum() }, func() { x.HasOptionalKeyword() })
	}
	for j := 0; j < fd.Services().Len(); j++ {
		sv := fd.Services().Get(j)
		triggers = append(triggers, func() { sv.Methods().Len() })
	}
	k := c.Rand.Intn(len(triggers))
	c.Hist(fmt.Sprintf("force-lazy-through:%d", k%8))
	triggers[k]()
}
