package main

// Hand-written probes / witnesses of refuted obligations.  They run first on every invocation.

import (
	"strings"

	"google.golang.org/protobuf/proto"
	"google.golang.org/protobuf/reflect/protoregistry"
	"google.golang.org/protobuf/types/descriptorpb"
)

func edFile(name string, feat *descriptorpb.FeatureSet, msgs ...*descriptorpb.DescriptorProto) *descriptorpb.FileDescriptorProto {
	p := &descriptorpb.FileDescriptorProto{
		Name: proto.String(name), Package: proto.String("w"), Syntax: proto.String("editions"),
		Edition: descriptorpb.Edition_EDITION_2023.Enum(), MessageType: msgs,
	}
	if feat != nil {
		p.Options = &descriptorpb.FileOptions{Features: feat}
	}
	return p
}

func fld(name string, num int32, label descriptorpb.FieldDescriptorProto_Label, typ descriptorpb.FieldDescriptorProto_Type, typeName string) *descriptorpb.FieldDescriptorProto {
	f := &descriptorpb.FieldDescriptorProto{Name: proto.String(name), Number: proto.Int32(num), Label: label.Enum()}
	if typ != 0 {
		f.Type = typ.Enum()
	}
	if typeName != "" {
		f.TypeName = proto.String(typeName)
	}
	return f
}

const (
	lOpt = descriptorpb.FieldDescriptorProto_LABEL_OPTIONAL
	lReq = descriptorpb.FieldDescriptorProto_LABEL_REQUIRED
	lRep = descriptorpb.FieldDescriptorProto_LABEL_REPEATED
	tI32 = descriptorpb.FieldDescriptorProto_TYPE_INT32
	tStr = descriptorpb.FieldDescriptorProto_TYPE_STRING
	tMsg = descriptorpb.FieldDescriptorProto_TYPE_MESSAGE
	tGrp = descriptorpb.FieldDescriptorProto_TYPE_GROUP
)

func c34Witnesses() []c34Witness {
	xr := func(s, e int32, v int32) *descriptorpb.DescriptorProto_ExtensionRange {
		return &descriptorpb.DescriptorProto_ExtensionRange{Start: proto.Int32(s), End: proto.Int32(e), Options: rangeOptions(v, ARange{s, e})}
	}
	return []c34Witness{
		// per-range ExtensionRangeOptions: ranges with options followed by ranges without, different contents side by side
		// (a range must not inherit its neighbour's options; seeded change C34-2)
		{"extension-range-options", &descriptorpb.FileDescriptorProto{Name: proto.String("w/xr_options.proto"), Package: proto.String("w"),
			MessageType: []*descriptorpb.DescriptorProto{
				{Name: proto.String("M"), ExtensionRange: []*descriptorpb.DescriptorProto_ExtensionRange{
					xr(100, 200, 0), xr(200, 300, 2), xr(300, 400, 0), xr(400, 500, 3), xr(500, 600, 4), xr(700, 800, 0), xr(800, 900, 1), xr(900, 1000, 0)}},
				{Name: proto.String("N"), ExtensionRange: []*descriptorpb.DescriptorProto_ExtensionRange{xr(10, 20, 2), xr(20, 30, 0)},
					NestedType: []*descriptorpb.DescriptorProto{{Name: proto.String("I"), ExtensionRange: []*descriptorpb.DescriptorProto_ExtensionRange{xr(1, 2, 0), xr(5, 6, 4), xr(3, 4, 0)}}}},
			}}},
		// editions file that spells a delimited field as TYPE_GROUP without the DELIMITED feature
		{"editions-type-group", edFile("w/editions_group.proto", nil,
			&descriptorpb.DescriptorProto{Name: proto.String("M"),
				Field:      []*descriptorpb.FieldDescriptorProto{fld("g", 1, lOpt, tGrp, ".w.M.G")},
				NestedType: []*descriptorpb.DescriptorProto{{Name: proto.String("G")}}})},
		// editions file that spells a required field as LABEL_REQUIRED without the LEGACY_REQUIRED feature
		{"editions-label-required", edFile("w/editions_required.proto", nil,
			&descriptorpb.DescriptorProto{Name: proto.String("M"),
				Field: []*descriptorpb.FieldDescriptorProto{fld("r", 1, lReq, tI32, "")}})},
		// unspecified field type (allowed by descriptor.proto when type_name is set) under inherited DELIMITED
		{"editions-untyped-delimited", edFile("w/editions_untyped.proto", &descriptorpb.FeatureSet{MessageEncoding: descriptorpb.FeatureSet_DELIMITED.Enum()},
			&descriptorpb.DescriptorProto{Name: proto.String("M"),
				Field: []*descriptorpb.FieldDescriptorProto{fld("n", 1, lOpt, 0, ".w.N")}},
			&descriptorpb.DescriptorProto{Name: proto.String("N")})},
	}
}

func witnessesC37(c *C) {
	probes := []c34Witness{
		// packed option and repeated_field_encoding feature on the same field (wire order: packed=2 before features=21)
		{"packed-and-feature", edFile("w/packed_and_feature.proto", nil,
			&descriptorpb.DescriptorProto{Name: proto.String("M"),
				Field: []*descriptorpb.FieldDescriptorProto{func() *descriptorpb.FieldDescriptorProto {
					f := fld("r", 1, lRep, tI32, "")
					f.Options = &descriptorpb.FieldOptions{Packed: proto.Bool(false), Features: &descriptorpb.FeatureSet{RepeatedFieldEncoding: descriptorpb.FeatureSet_PACKED.Enum()}}
					return f
				}()}})},
		// lazy message-typed extension
		{"lazy-extension", &descriptorpb.FileDescriptorProto{Name: proto.String("w/lazy_ext.proto"), Package: proto.String("w"),
			MessageType: []*descriptorpb.DescriptorProto{{Name: proto.String("M"), ExtensionRange: []*descriptorpb.DescriptorProto_ExtensionRange{{Start: proto.Int32(10), End: proto.Int32(20)}}}},
			Extension: []*descriptorpb.FieldDescriptorProto{func() *descriptorpb.FieldDescriptorProto {
				f := fld("x", 10, lOpt, tMsg, ".w.M")
				f.Extendee = proto.String(".w.M")
				f.Options = &descriptorpb.FieldOptions{Lazy: proto.Bool(true)}
				return f
			}()}}},
	}
	for _, w := range probes {
		checkProtoC37(c, w.p, nil, &protoregistry.Files{}, "witness:"+w.name)
	}
}

var _ = strings.Contains
