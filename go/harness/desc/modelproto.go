package main

// Rendering of the abstract schema to the model's token grammar (lean/PbVerif/Driver/DescWire.lean), the
// inverse conversion FileDescriptorProto -> AFile on the modelled accessors, and the mapping from Go error
// texts to the model's rule names.

import (
	"fmt"
	"strings"

	"google.golang.org/protobuf/internal/encoding/defval"
	"google.golang.org/protobuf/proto"
	"google.golang.org/protobuf/reflect/protoreflect"
	"google.golang.org/protobuf/types/descriptorpb"
	"google.golang.org/protobuf/types/gofeaturespb"
)

func hx(s string) string {
	if s == "" {
		return "-"
	}
	return fmt.Sprintf("%x", s)
}

func optHx(s string, has bool) string {
	if !has {
		return "~"
	}
	return hx(s)
}

func b01(b bool) string {
	if b {
		return "1"
	}
	return "0"
}

func tri(v int32) string { // 0 unset, 1 false, 2 true
	switch v {
	case 1:
		return "0"
	case 2:
		return "1"
	}
	return "~"
}

func (f *AField) tokens(sb *strings.Builder) {
	num, label, oneof, json := "~", "~", "~", "~"
	if f.HasNumber {
		num = fmt.Sprint(f.Number)
	}
	if f.Label != 0 {
		label = fmt.Sprint(f.Label)
	}
	if f.OneofIndex != nil {
		oneof = fmt.Sprint(*f.OneofIndex)
	}
	if f.JSONName != nil {
		json = hx(*f.JSONName)
	}
	def, lit := "~", "-"
	if f.Default != nil {
		lit = hx(*f.Default)
		def = "0"
		k := protoreflect.Kind(f.Type)
		if k.IsValid() && k != protoreflect.EnumKind && k != protoreflect.MessageKind && k != protoreflect.GroupKind {
			// is the literal a valid scalar of the declared kind?  (defval.Unmarshal is C39's subject)
			if _, _, err := defval.Unmarshal(*f.Default, k, nil, defval.Descriptor); err == nil {
				def = "1"
			}
		}
	}
	fmt.Fprintf(sb, " fld %s %s %s %d %s %s %s %s %s %s %s %s %s %s", hx(f.Name), num, label, f.Type,
		optHx(f.TypeName, f.HasTypeName), optHx(f.Extendee, f.HasExtendee), oneof, json, b01(f.P3Opt), def, lit, tri(f.Packed), b01(f.Lazy), ovToken(f.Feat))
}

func rangesTokens(sb *strings.Builder, kw string, rs []ARange) {
	fmt.Fprintf(sb, " %s %d", kw, len(rs))
	for _, r := range rs {
		fmt.Fprintf(sb, " %d %d", r.Start, r.End)
	}
}

func namesTokens(sb *strings.Builder, kw string, ns []string) {
	fmt.Fprintf(sb, " %s %d", kw, len(ns))
	for _, n := range ns {
		sb.WriteString(" " + hx(n))
	}
}

func (e *AEnum) tokens(sb *strings.Builder) {
	fmt.Fprintf(sb, " enum %s %s %s vals %d", hx(e.Name), b01(e.AllowAlias == 2), ovToken(e.Feat), len(e.Values))
	for _, v := range e.Values {
		n := "~"
		if v.HasNumber {
			n = fmt.Sprint(v.Number)
		}
		fmt.Fprintf(sb, " %s %s", hx(v.Name), n)
	}
	rangesTokens(sb, "rr", e.ResRanges)
	namesTokens(sb, "rn", e.ResNames)
}

func (m *AMsg) tokens(sb *strings.Builder) {
	fmt.Fprintf(sb, " msg %s %s %s %s flds %d", hx(m.Name), b01(m.MapEntry), b01(m.MessageSet), ovToken(m.Feat), len(m.Fields))
	for _, f := range m.Fields {
		f.tokens(sb)
	}
	fmt.Fprintf(sb, " oneofs %d", len(m.Oneofs))
	for _, o := range m.Oneofs {
		fmt.Fprintf(sb, " %s %s", hx(o.Name), ovToken(o.Feat))
	}
	fmt.Fprintf(sb, " nested %d", len(m.Nested))
	for _, n := range m.Nested {
		n.tokens(sb)
	}
	fmt.Fprintf(sb, " enums %d", len(m.Enums))
	for _, e := range m.Enums {
		e.tokens(sb)
	}
	fmt.Fprintf(sb, " exts %d", len(m.Exts))
	for _, x := range m.Exts {
		x.tokens(sb)
	}
	rangesTokens(sb, "xr", m.ExtRanges)
	rangesTokens(sb, "rr", m.ResRanges)
	namesTokens(sb, "rn", m.ResNames)
}

func synCode(s string) int {
	switch s {
	case "":
		return 0
	case "proto2":
		return 2
	case "proto3":
		return 3
	case "editions":
		return 9
	}
	return 1
}

// fileTokens renders "file …" (no leading space).
func (f *AFile) fileTokens() string {
	var sb strings.Builder
	ed := int32(0)
	if f.HasEdition {
		ed = f.Edition
	}
	fmt.Fprintf(&sb, "file %s %s %d %d %s enums %d", hx(f.Path), hx(f.Pkg), synCode(f.Syntax), ed, ovToken(f.Feat), len(f.Enums))
	for _, e := range f.Enums {
		e.tokens(&sb)
	}
	fmt.Fprintf(&sb, " msgs %d", len(f.Msgs))
	for _, m := range f.Msgs {
		m.tokens(&sb)
	}
	fmt.Fprintf(&sb, " exts %d", len(f.Exts))
	for _, x := range f.Exts {
		x.tokens(&sb)
	}
	fmt.Fprintf(&sb, " svcs %d", len(f.Svcs))
	for _, s := range f.Svcs {
		fmt.Fprintf(&sb, " svc %s %d", hx(s.Name), len(s.Methods))
		for _, m := range s.Methods {
			fmt.Fprintf(&sb, " %s %s %s", hx(m.Name), hx(m.In), hx(m.Out))
		}
	}
	return sb.String()
}

// externTokens: what the resolver knows beyond the file: the nine descriptor.proto options messages
// (extension range 1000 to max) and google.protobuf.Timestamp; `imported` says whether the file imports them.
func (f *AFile) externTokens() string {
	hasDesc, hasTS := false, false
	for _, d := range f.Deps {
		if d == "google/protobuf/descriptor.proto" {
			hasDesc = true
		}
		if d == "google/protobuf/timestamp.proto" {
			hasTS = true
		}
	}
	var sb strings.Builder
	fmt.Fprintf(&sb, "externs %d", len(optionMsgs)+1)
	for _, o := range optionMsgs {
		fmt.Fprintf(&sb, " xmsg %s 0 0 %s xr 1 1000 536870912", hx("google.protobuf."+o), b01(hasDesc))
	}
	fmt.Fprintf(&sb, " xmsg %s 0 0 %s xr 0", hx("google.protobuf.Timestamp"), b01(hasTS))
	return sb.String()
}

func (f *AFile) newfileRequest(allow, legacy, dump bool) string {
	return fmt.Sprintf("newfile %s %s %s %s %s", b01(allow), b01(legacy), b01(dump), f.externTokens(), f.fileTokens())
}

// inModelVocabulary: the model resolves fully-qualified references only and knows only the externs above.
func (f *AFile) inModelVocabulary() bool {
	ok := true
	ref := func(s string, has bool) {
		if has && s != "" && !strings.HasPrefix(s, ".") {
			ok = false
		}
	}
	f.walkFields(func(x *AField) {
		ref(x.TypeName, x.HasTypeName)
		ref(x.Extendee, x.HasExtendee)
	})
	for _, s := range f.Svcs {
		for _, m := range s.Methods {
			ref(m.In, true)
			ref(m.Out, true)
		}
	}
	for _, d := range f.Deps {
		if d != "google/protobuf/descriptor.proto" && d != "google/protobuf/timestamp.proto" {
			ok = false
		}
	}
	return ok
}

// ---------- FileDescriptorProto -> AFile (modelled accessors only) ----------

func featFromProto(fs *descriptorpb.FeatureSet) *AFeat {
	if fs == nil {
		return nil
	}
	f := &AFeat{FP: int32(fs.GetFieldPresence()), ET: int32(fs.GetEnumType()), RFE: int32(fs.GetRepeatedFieldEncoding()),
		UTF8: int32(fs.GetUtf8Validation()), ME: int32(fs.GetMessageEncoding()), JF: int32(fs.GetJsonFormat()),
		ENS: int32(fs.GetEnforceNamingStyle()), DSV: int32(fs.GetDefaultSymbolVisibility())}
	if proto.HasExtension(fs, gofeaturespb.E_Go) {
		gf := proto.GetExtension(fs, gofeaturespb.E_Go).(*gofeaturespb.GoFeatures)
		if gf.LegacyUnmarshalJsonEnum != nil {
			f.GoLegacyJSON = 1
			if gf.GetLegacyUnmarshalJsonEnum() {
				f.GoLegacyJSON = 2
			}
		}
		if gf.ApiLevel != nil {
			f.GoAPI = int32(gf.GetApiLevel()) + 1
		}
		if gf.StripEnumPrefix != nil {
			f.GoStrip = int32(gf.GetStripEnumPrefix()) + 1
		}
	}
	return f
}

func fieldFromProto(p *descriptorpb.FieldDescriptorProto) *AField {
	f := &AField{Name: p.GetName(), Number: p.GetNumber(), HasNumber: p.Number != nil, Type: int32(p.GetType()),
		TypeName: p.GetTypeName(), HasTypeName: p.TypeName != nil, Extendee: p.GetExtendee(), HasExtendee: p.Extendee != nil,
		P3Opt: p.GetProto3Optional(), Lazy: p.GetOptions().GetLazy()}
	if p.Type == nil {
		f.Type = 0
	}
	if p.Label != nil {
		f.Label = int32(p.GetLabel())
	}
	if p.OneofIndex != nil {
		v := p.GetOneofIndex()
		f.OneofIndex = &v
	}
	if p.JsonName != nil {
		v := p.GetJsonName()
		f.JSONName = &v
	}
	if p.DefaultValue != nil {
		v := p.GetDefaultValue()
		f.Default = &v
	}
	if o := p.GetOptions(); o != nil && o.Packed != nil {
		f.Packed = 1
		if o.GetPacked() {
			f.Packed = 2
		}
	}
	f.Feat = featFromProto(p.GetOptions().GetFeatures())
	return f
}

func enumFromProto(p *descriptorpb.EnumDescriptorProto) *AEnum {
	e := &AEnum{Name: p.GetName(), ResNames: p.ReservedName, Feat: featFromProto(p.GetOptions().GetFeatures())}
	if p.GetOptions() != nil && p.GetOptions().AllowAlias != nil {
		e.AllowAlias = 1
		if p.GetOptions().GetAllowAlias() {
			e.AllowAlias = 2
		}
	}
	for _, v := range p.Value {
		e.Values = append(e.Values, &AEnumValue{Name: v.GetName(), Number: v.GetNumber(), HasNumber: v.Number != nil})
	}
	for _, r := range p.ReservedRange {
		e.ResRanges = append(e.ResRanges, ARange{r.GetStart(), r.GetEnd()})
	}
	return e
}

func msgFromProto(p *descriptorpb.DescriptorProto) *AMsg {
	m := &AMsg{Name: p.GetName(), ResNames: p.ReservedName, MapEntry: p.GetOptions().GetMapEntry(), MessageSet: p.GetOptions().GetMessageSetWireFormat(),
		Feat: featFromProto(p.GetOptions().GetFeatures())}
	for _, f := range p.Field {
		m.Fields = append(m.Fields, fieldFromProto(f))
	}
	for _, o := range p.OneofDecl {
		m.Oneofs = append(m.Oneofs, &AOneof{Name: o.GetName(), Feat: featFromProto(o.GetOptions().GetFeatures())})
	}
	for _, n := range p.NestedType {
		m.Nested = append(m.Nested, msgFromProto(n))
	}
	for _, e := range p.EnumType {
		m.Enums = append(m.Enums, enumFromProto(e))
	}
	for _, x := range p.Extension {
		m.Exts = append(m.Exts, fieldFromProto(x))
	}
	for _, r := range p.ExtensionRange {
		m.ExtRanges = append(m.ExtRanges, ARange{r.GetStart(), r.GetEnd()})
	}
	for _, r := range p.ReservedRange {
		m.ResRanges = append(m.ResRanges, ARange{r.GetStart(), r.GetEnd()})
	}
	return m
}

func fileFromProto(p *descriptorpb.FileDescriptorProto) *AFile {
	f := &AFile{Path: p.GetName(), Pkg: p.GetPackage(), Syntax: p.GetSyntax(), Edition: int32(p.GetEdition()), HasEdition: p.Edition != nil,
		Deps: p.Dependency, Feat: featFromProto(p.GetOptions().GetFeatures())}
	for _, m := range p.MessageType {
		f.Msgs = append(f.Msgs, msgFromProto(m))
	}
	for _, e := range p.EnumType {
		f.Enums = append(f.Enums, enumFromProto(e))
	}
	for _, x := range p.Extension {
		f.Exts = append(f.Exts, fieldFromProto(x))
	}
	for _, s := range p.Service {
		as := &ASvc{Name: s.GetName()}
		for _, m := range s.Method {
			as.Methods = append(as.Methods, &AMethod{Name: m.GetName(), In: m.GetInputType(), Out: m.GetOutputType()})
		}
		f.Svcs = append(f.Svcs, as)
	}
	return f
}

// ---------- Go error text -> model rule name ----------

var ruleTable = []struct{ sub, rule string }{
	{"invalid syntax", "invalidSyntax"},
	{"file path must be populated", "emptyPath"},
	{"not yet supported by the Go Protobuf runtime", "unsupportedEdition"},
	{"invalid package", "invalidPackage"},
	{"has an invalid nested name", "invalidName"},
	{"already declared", "duplicateDecl"},
	{"has an invalid oneof index", "badOneofIndex"},
	{"cannot resolve type", "unresolvedType"},
	{"has invalid default", "badDefault"},
	{"cannot resolve extendee", "unresolvedExtendee"},
	{"cannot resolve input", "unresolvedMethod"},
	{"cannot resolve output", "unresolvedMethod"},
	{"reserved and extension ranges has", "msgRangesOverlap"},
	{"\" reserved names has", "ReservedNames"},
	{"\" reserved ranges has", "ReservedRanges"},
	{"extension ranges has", "msgExtensionRanges"},
	{"must contain at least one value declaration", "enumEmpty"},
	{"has conflicting non-aliased values", "enumAlias"},
	{"allows aliases, but none were found", "enumNoAlias"},
	{"using open semantics must have zero number", "enumOpenFirstZero"},
	{"using open semantics has conflict", "enumPrefixConflict(unmodelled)"},
	{"must have a specified number", "enumValueNoNumber"},
	{"must not use reserved name", "ReservedName"},
	{"must not use reserved number", "ReservedNumber"},
	{"has conflicting fields", "fieldConflict"},
	{"is a MessageSet, which is a legacy", "messageSetUnsupported"},
	{"is an invalid proto1 MessageSet", "messageSetInvalid"},
	{"using proto3 semantics cannot have extension ranges", "proto3ExtensionRanges"},
	{"has an invalid number", "BadNumber"},
	{"has an invalid cardinality", "BadCardinality"},
	{"in extension range", "fieldInExtensionRange"},
	{"may not have extendee", "fieldHasExtendee"},
	{"must be specified in the proto3 syntax", "proto3OptionalSyntax"},
	{"must have optional cardinality", "proto3OptionalCardinality"},
	{"must be within a single element oneof", "proto3OptionalOneof"},
	{"is not packable", "notPackable"},
	{"is an invalid group", "badGroup"},
	{"is an invalid map", "badMap"},
	{"using proto3 semantics cannot be required", "proto3Required"},
	{"using proto3 semantics may only depend on open enums", "proto3ClosedEnum"},
	{"with implicit presence may only use open enums", "implicitClosedEnum"},
	{"must contain at least one field declaration", "oneofEmpty"},
	{"must have consecutively declared fields", "oneofNotConsecutive"},
	{"must be declared before synthetic oneofs", "oneofAfterSynthetic"},
	{"belongs in a oneof and must be optional", "oneofMemberNotOptional"},
	{"may not have an explicitly set JSON name", "extJsonName"},
	{"may not be part of a oneof", "extInOneof"},
	{"with non-extension field number", "extNotInRange"},
	{"extends MessageSet and must be an optional message", "extMessageSetType"},
	{"cannot be a map entry", "extMapEntry"},
	{"cannot be declared in proto3 unless", "extProto3Extendee"},
}

// goRule maps an error of protodesc.NewFile to the model's rule vocabulary ("?" when unknown).
func goRule(err error) string {
	if err == nil {
		return "ok"
	}
	s := err.Error()
	for _, r := range ruleTable {
		if strings.Contains(s, r.sub) {
			rule := r.rule
			who := ""
			switch {
			case strings.Contains(s, "enum value "):
				who = "enumValue"
			case strings.Contains(s, "proto: enum ") || strings.Contains(s, "proto: enum "):
				who = "enum"
			case strings.Contains(s, "extension field "):
				who = "ext"
			case strings.Contains(s, "message field "):
				who = "field"
			case strings.Contains(s, "message "):
				who = "msg"
			}
			if rule[0] >= 'A' && rule[0] <= 'Z' {
				rule = who + rule
			}
			return rule
		}
	}
	return "?" + s
}

// normRule collapses the model's rule names that share one Go error text.
func normRule(r string) string {
	if r == "extBadNumberNonMessageSet" {
		return "extBadNumber"
	}
	return r
}
