// desc harness: C34 (descriptor protos <-> file descriptors lossless), C35 (validation never crashes,
// rejects invalid schemas), C37 (filedesc.Builder agrees with protodesc.NewFile), C38 (editions feature
// resolution and legacy equivalence).
//
// The real implementation (reflect/protodesc, internal/filedesc) is driven in-process; the Lean model
// (pbmodel_desc) answers `resolve`, `validate`, `newfile` requests for the abstract schema the harness renders
// both to a FileDescriptorProto and to the line protocol (aschema.go).
package main

import (
	"encoding/hex"
	"encoding/json"
	"fmt"
	"os"
	"reflect"
	"sort"

	"google.golang.org/protobuf/internal/filedesc"
	vh "google.golang.org/protobuf/internal/zz_verif_vh"
	"google.golang.org/protobuf/proto"
	"google.golang.org/protobuf/reflect/protodesc"
	"google.golang.org/protobuf/reflect/protoreflect"
	"google.golang.org/protobuf/reflect/protoregistry"
	"google.golang.org/protobuf/types/descriptorpb"
)

type C = vh.Ctx

func main() {
	if os.Getenv("VERIF_DESC_EXITPROBE") == "1" {
		exitProbeChild()
		return
	}
	vh.Main("desc", run)
}

func run(c *C) {
	switch c.Prop {
	case "C34":
		runC34(c)
	case "C35":
		runC35(c)
	case "C37":
		runC37(c)
	case "C38":
		runC38(c)
	default:
		panic("desc harness: unknown property " + c.Prop)
	}
}

// ---------- replay inputs (shared shape) ----------

type replayIn struct {
	Kind   string   `json:"kind"`             // linked | fdp | aschema | feat | pair
	Path   string   `json:"path,omitempty"`   // linked: file path in GlobalFiles
	FDP    string   `json:"fdp,omitempty"`    // hex of a FileDescriptorProto
	Deps   []string `json:"deps,omitempty"`   // hex of FileDescriptorProtos that must be registered first (in order)
	Allow  bool     `json:"allow,omitempty"`  // AllowUnresolvable
	Note   string   `json:"note,omitempty"`   // what was injected / which stream
	Lines  []string `json:"lines,omitempty"`  // model request lines
	Msg    string   `json:"msg,omitempty"`    // pair: message pair name
	Wire   string   `json:"wire,omitempty"`   // pair: input bytes
	Expect string   `json:"expect,omitempty"` // expected verdict of a targeted injection
}

func hexOf(m proto.Message) string {
	b, err := proto.MarshalOptions{Deterministic: true, AllowPartial: true}.Marshal(m)
	if err != nil {
		panic(err)
	}
	return hex.EncodeToString(b)
}

func fdpOfHex(h string) *descriptorpb.FileDescriptorProto {
	b, err := hex.DecodeString(h)
	if err != nil {
		panic(err)
	}
	p := &descriptorpb.FileDescriptorProto{}
	if err := (proto.UnmarshalOptions{AllowPartial: true}).Unmarshal(b, p); err != nil {
		panic(err)
	}
	return p
}

func parseReplay(raw json.RawMessage) (replayIn, bool) {
	var in replayIn
	if err := json.Unmarshal(raw, &in); err != nil || in.Kind == "" {
		return in, false
	}
	return in, true
}

// ---------- linked files ----------

func linkedFiles() []protoreflect.FileDescriptor {
	var fds []protoreflect.FileDescriptor
	protoregistry.GlobalFiles.RangeFiles(func(fd protoreflect.FileDescriptor) bool {
		fds = append(fds, fd)
		return true
	})
	sort.Slice(fds, func(i, j int) bool { return fds[i].Path() < fds[j].Path() })
	return fds
}

// rawDescriptorOf reads the embedded raw descriptor bytes of a generated file (unexported builder field; read-only
// reflection).
func rawDescriptorOf(fd protoreflect.FileDescriptor) []byte {
	f, ok := fd.(*filedesc.File)
	if !ok {
		return nil
	}
	v := reflect.ValueOf(f).Elem().FieldByName("fileRaw")
	if !v.IsValid() {
		return nil
	}
	b := v.FieldByName("builder").FieldByName("RawDescriptor")
	if !b.IsValid() || b.Len() == 0 {
		return nil
	}
	return append([]byte(nil), b.Bytes()...)
}

// depResolver resolves through a private registry first and the global one second.
type depResolver struct {
	local *protoregistry.Files
}

func (r depResolver) FindFileByPath(p string) (protoreflect.FileDescriptor, error) {
	if r.local != nil {
		if fd, err := r.local.FindFileByPath(p); err == nil {
			return fd, nil
		}
	}
	return protoregistry.GlobalFiles.FindFileByPath(p)
}
func (r depResolver) FindDescriptorByName(n protoreflect.FullName) (protoreflect.Descriptor, error) {
	if r.local != nil {
		if d, err := r.local.FindDescriptorByName(n); err == nil {
			return d, nil
		}
	}
	return protoregistry.GlobalFiles.FindDescriptorByName(n)
}

// RegisterFile makes depResolver usable as filedesc.Builder.FileRegistry: the built file is NOT registered.
func (r depResolver) RegisterFile(protoreflect.FileDescriptor) error { return nil }

func newFile(p *descriptorpb.FileDescriptorProto, r protodesc.Resolver, allow bool) (fd protoreflect.FileDescriptor, err error, panicked any) {
	defer func() {
		if e := recover(); e != nil {
			panicked = e
		}
	}()
	// (Regression note: before 4beace6 an editions file named cmd/protoc-gen-go/testdata/… without an edition reached
	// os.Exit(1) in getFeatureSetFor; witnessesC35 replays that input in a child process on every run.)
	fd, err = protodesc.FileOptions{AllowUnresolvable: allow}.New(p, r)
	return
}

func buildRaw(raw []byte, r depResolver) (fd protoreflect.FileDescriptor, panicked any) {
	defer func() {
		if e := recover(); e != nil {
			panicked = e
		}
	}()
	out := filedesc.Builder{RawDescriptor: raw, FileRegistry: r}.Build()
	return out.File, nil
}

func errClass(err error, panicked any) string {
	switch {
	case panicked != nil:
		return fmt.Sprintf("panic: %v", panicked)
	case err != nil:
		return "error: " + err.Error()
	}
	return "ok"
}

func jsonUnmarshal(s string, v any) error { return json.Unmarshal([]byte(s), v) }
func vhHex(b []byte) string                { return vh.Hex(b) }
func vhUnHex(s string) []byte              { return vh.UnHex(s) }

// lazyA is a replay input (kind "aschema") whose JSON is produced only when a failure is written out.
type lazyA struct {
	a            *AFile
	note, expect string
}

func (l lazyA) MarshalJSON() ([]byte, error) {
	return json.Marshal(replayIn{Kind: "aschema", FDP: mustJSON(l.a), Note: l.note, Expect: l.expect})
}
