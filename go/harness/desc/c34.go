package main

// C34: descriptor protos and file descriptors convert losslessly.
//
//	A (exhaustive) every linked file fd:  p1 = ToProto(fd);  p1 = embedded raw descriptor;  fd2 = NewFile(p1) ok;
//	              ToProto(fd2) = p1;  snapshot(fd) = snapshot(fd2)
//	B random valid schemas p: NewFile(p) ok; ToProto(NewFile(p)) = normalize(p); second round trip is the identity;
//	              snapshot(NewFile(p)) = snapshot(NewFile(ToProto(NewFile(p))))
//	C the model's newFile/toProto on the modelled accessor subset vs the real one (modelproto.go)

import (
	"encoding/json"
	"fmt"
	"strings"

	"google.golang.org/protobuf/internal/encoding/defval"
	"google.golang.org/protobuf/internal/flags"
	"google.golang.org/protobuf/proto"
	"google.golang.org/protobuf/reflect/protodesc"
	"google.golang.org/protobuf/reflect/protoreflect"
	"google.golang.org/protobuf/reflect/protoregistry"
	"google.golang.org/protobuf/types/descriptorpb"
)

func runC34(c *C) {
	c.R.Rule = "A case is one file: a linked file (stream A, exhaustive over protoregistry.GlobalFiles) or a random valid schema (stream B: proto2/proto3/editions 2023+2024, nested types, maps, groups/delimited, real+synthetic oneofs, extensions, MessageSet, services, reserved, defaults of every kind, JSON names, options, source locations, imports, multi-file). " +
		"Each case checks NewFile ok, ToProto∘NewFile = normalize, second round trip = identity, accessor snapshot (every public accessor of every descriptor, options as deterministic bytes, lookups) equal between original and rebuilt; the model's toProto∘newFile on the modelled subset is compared for stream B. " +
		"Non-trivial = the file declares at least one message, enum, extension or service; distinct by descriptor bytes."
	for _, raw := range c.ReplayInputs() {
		if in, ok := parseReplay(raw); ok {
			replayC34(c, in)
		}
	}
	witnessesC34(c)
	// A
	fds := linkedFiles()
	for _, fd := range fds {
		checkLinkedC34(c, fd)
		if c.Failed() {
			return
		}
	}
	c.R.Exhaustive = true
	c.R.Notes = append(c.R.Notes, fmt.Sprintf("stream A enumerated all %d linked files exhaustively; stream B is random", len(fds)))
	// B
	n := c.N(900, 30000)
	for i := 0; i < n && !c.Failed(); i++ {
		randomC34(c, i)
	}
}

func replayC34(c *C, in replayIn) {
	switch in.Kind {
	case "linked":
		fd, err := protoregistry.GlobalFiles.FindFileByPath(in.Path)
		if err != nil {
			chk(c, false, "replay: linked file not found: "+in.Path, in, "")
			return
		}
		checkLinkedC34(c, fd)
	case "fdp":
		reg := &protoregistry.Files{}
		for _, d := range in.Deps {
			dp := fdpOfHex(d)
			dfd, err, pn := newFile(dp, depResolver{reg}, false)
			if err != nil || pn != nil {
				chk(c, false, "replay: dependency does not build: "+errClass(err, pn), in, "")
				return
			}
			reg.RegisterFile(dfd)
		}
		checkProtoC34(c, fdpOfHex(in.FDP), in.Deps, reg, in.Note, nil)
	}
}

func nontrivialFile(p *descriptorpb.FileDescriptorProto) bool {
	return len(p.MessageType)+len(p.EnumType)+len(p.Extension)+len(p.Service) > 0
}

func checkLinkedC34(c *C, fd protoreflect.FileDescriptor) {
	in := replayIn{Kind: "linked", Path: fd.Path()}
	defer c.Recover("C34 linked file "+fd.Path(), in, "")
	p1 := protodesc.ToFileDescriptorProto(fd)
	c.Case("linked:"+fd.Path(), nontrivialFile(p1))
	c.Hist("A:syntax=" + fd.Syntax().String())
	if raw := rawDescriptorOf(fd); raw != nil {
		pr := &descriptorpb.FileDescriptorProto{}
		if err := proto.Unmarshal(raw, pr); err != nil {
			chk(c, false, "embedded raw descriptor does not parse: "+err.Error(), in, "")
		} else {
			if fd.Path() == "internal/testprotos/irregular/test.proto" {
				// deliberately irregular fixture: the hand-written IrregularMessage reports a descriptor from another package
				c.Hist("A:raw-exempt(irregular fixture)")
			} else {
				chk(c, proto.Equal(p1, pr), "ToFileDescriptorProto(fd) differs from the embedded raw descriptor of "+fd.Path()+": "+protoDiff(pr, p1), in, "")
				c.Hist("A:raw-compared")
			}
		}
	} else {
		c.Hist("A:raw-unavailable")
	}
	// Files whose imports are not linked (hand-written irregular.proto; golang/protobuf-v1 era legacy packages that do
	// not register with protoregistry) can only be rebuilt with placeholders: round trip of the proto only.
	unresolvable := false
	for i := 0; i < fd.Imports().Len(); i++ {
		if _, err := protoregistry.GlobalFiles.FindFileByPath(fd.Imports().Get(i).Path()); err != nil {
			unresolvable = true
		}
	}
	fd2, err, pn := newFile(p1, protoregistry.GlobalFiles, unresolvable)
	if unresolvable && err != nil && pn == nil {
		// legacy.proto: its golang/protobuf-v1 era imports are linked under other paths and cannot be imported by name
		c.Hist("A:import-not-linked(skipped)")
		return
	}
	if !chk(c, err == nil && pn == nil, "NewFile(ToFileDescriptorProto(fd)) fails for linked file "+fd.Path()+": "+errClass(err, pn), in, "") {
		return
	}
	p2 := protodesc.ToFileDescriptorProto(fd2)
	chk(c, proto.Equal(p1, p2), "ToProto(NewFile(ToProto(fd))) != ToProto(fd) for "+fd.Path()+": "+protoDiff(p1, p2), in, "")
	if unresolvable {
		c.Hist("A:import-not-linked(proto round trip only)")
		return
	}
	s1, s2 := snapshotFile(fd), snapshotFile(fd2)
	if s1 != s2 {
		reportSnapshotDiff(c, "accessor snapshot of NewFile(ToProto(fd)) differs from fd ("+fd.Path()+")", p1, s1, s2, in)
	}
	c.Hist(fmt.Sprintf("A:snapshot-lines<=10^%d", len(fmt.Sprint(strings.Count(s1, "\n")))))
}

// protoDiff names the first path at which two messages differ (best effort, for the failure text).
func protoDiff(a, b proto.Message) string {
	return firstProtoDiff("", a.ProtoReflect(), b.ProtoReflect())
}

func firstProtoDiff(path string, a, b protoreflect.Message) string {
	fds := a.Descriptor().Fields()
	for i := 0; i < fds.Len(); i++ {
		fd := fds.Get(i)
		p := path + "." + string(fd.Name())
		if a.Has(fd) != b.Has(fd) {
			return fmt.Sprintf("%s presence %v vs %v", p, a.Has(fd), b.Has(fd))
		}
		if !a.Has(fd) {
			continue
		}
		va, vb := a.Get(fd), b.Get(fd)
		switch {
		case fd.IsList():
			la, lb := va.List(), vb.List()
			if la.Len() != lb.Len() {
				return fmt.Sprintf("%s length %d vs %d", p, la.Len(), lb.Len())
			}
			for j := 0; j < la.Len(); j++ {
				if fd.Message() != nil {
					if d := firstProtoDiff(fmt.Sprintf("%s[%d]", p, j), la.Get(j).Message(), lb.Get(j).Message()); d != "" {
						return d
					}
				} else if !la.Get(j).Equal(lb.Get(j)) {
					return fmt.Sprintf("%s[%d] %v vs %v", p, j, la.Get(j), lb.Get(j))
				}
			}
		case fd.IsMap():
			if !va.Equal(vb) {
				return p + " map differs"
			}
		case fd.Message() != nil:
			if d := firstProtoDiff(p, va.Message(), vb.Message()); d != "" {
				return d
			}
		default:
			if !va.Equal(vb) {
				return fmt.Sprintf("%s %v vs %v", p, va, vb)
			}
		}
	}
	if !proto.Equal(a.Interface(), b.Interface()) {
		return path + " (unknown fields / extensions differ)"
	}
	return ""
}

// normalizeFDP is the documented normalisation of ToProto∘NewFile, written independently of proto.go:
//   - syntax "proto2" is dropped (absent = proto2)
//   - default values are re-spelt canonically (defval.Marshal∘Unmarshal: e.g. "1e3" -> "1000", "+1" -> "1")
//   - an unspecified field type with a type_name is filled in (TYPE_ENUM / TYPE_MESSAGE)
//   - json_name of an extension is re-derived (it must equal the camel-case name anyway)
//   - empty (present) SourceCodeInfo without locations is dropped
//
// everything else must be preserved verbatim.  kindOf resolves a full type name to enum/message.
func normalizeFDP(p *descriptorpb.FileDescriptorProto, isEnum func(string) (bool, bool)) *descriptorpb.FileDescriptorProto {
	q := proto.Clone(p).(*descriptorpb.FileDescriptorProto)
	if q.GetSyntax() == "proto2" {
		q.Syntax = nil
	}
	if q.SourceCodeInfo != nil && len(q.SourceCodeInfo.Location) == 0 {
		q.SourceCodeInfo = nil
	}
	var fixField func(f *descriptorpb.FieldDescriptorProto)
	fixField = func(f *descriptorpb.FieldDescriptorProto) {
		if f.Type == nil && f.TypeName != nil {
			if e, ok := isEnum(strings.TrimPrefix(f.GetTypeName(), ".")); ok {
				if e {
					f.Type = descriptorpb.FieldDescriptorProto_TYPE_ENUM.Enum()
				} else {
					f.Type = descriptorpb.FieldDescriptorProto_TYPE_MESSAGE.Enum()
				}
			}
		}
		if f.DefaultValue != nil && f.Type != nil && f.GetType() != descriptorpb.FieldDescriptorProto_TYPE_ENUM {
			k := protoreflect.Kind(f.GetType())
			if v, _, err := defval.Unmarshal(f.GetDefaultValue(), k, nil, defval.Descriptor); err == nil {
				if s, err := defval.Marshal(v, nil, k, defval.Descriptor); err == nil {
					f.DefaultValue = proto.String(s)
				}
			}
		}
	}
	var fixMsg func(m *descriptorpb.DescriptorProto)
	fixMsg = func(m *descriptorpb.DescriptorProto) {
		for _, f := range m.Field {
			fixField(f)
		}
		for _, f := range m.Extension {
			fixField(f)
		}
		for _, n := range m.NestedType {
			fixMsg(n)
		}
	}
	for _, m := range q.MessageType {
		fixMsg(m)
	}
	for _, f := range q.Extension {
		fixField(f)
	}
	return q
}

func randomC34(c *C, i int) {
	// one in four cases is a two-file case: the second file imports the first
	var deps []string
	reg := &protoregistry.Files{}
	if c.Rand.Intn(4) == 0 {
		a := genFile(c.Rand, genOpts{Small: true, PathPrefix: "dep/"}, 2*i)
		ap := a.toProto()
		afd, err, pn := newFile(ap, depResolver{reg}, false)
		if err == nil && pn == nil {
			reg.RegisterFile(afd)
			deps = append(deps, hexOf(ap))
		}
	}
	a := genFile(c.Rand, genOpts{}, 2*i+1)
	if len(deps) > 0 {
		// import the dependency and use one of its messages
		dp := fdpOfHex(deps[0])
		a.Deps = append(a.Deps, dp.GetName())
		if len(dp.MessageType) > 0 && len(a.Msgs) > 0 {
			full := "." + join(dp.GetPackage(), dp.MessageType[0].GetName())
			m := a.Msgs[0]
			if !m.MessageSet {
				if n, ok := freeNumber(m); ok {
					m.Fields = append(m.Fields, &AField{Name: "imported_dep", Number: n, HasNumber: true, Label: 1, Type: 11, TypeName: full, HasTypeName: true})
				}
			}
		}
	}
	checkProtoC34(c, a.toProto(), deps, reg, "random", a)
}

func checkProtoC34(c *C, p *descriptorpb.FileDescriptorProto, deps []string, reg *protoregistry.Files, note string, a *AFile) {
	in := replayIn{Kind: "fdp", FDP: hexOf(p), Deps: deps, Note: note}
	defer c.Recover("C34 schema", in, "")
	c.Case(in.FDP, nontrivialFile(p))
	c.Hist("B:syntax=" + p.GetSyntax() + fmt.Sprint(p.GetEdition()))
	r := depResolver{reg}
	fd, err, pn := newFile(p, r, false)
	if !chk(c, err == nil && pn == nil, "NewFile rejects a valid generated schema: "+errClass(err, pn), in, "") {
		return
	}
	p1 := protodesc.ToFileDescriptorProto(fd)
	isEnum := func(full string) (bool, bool) {
		d, err := resolveAny(fd, r, protoreflect.FullName(full))
		if err != nil {
			return false, false
		}
		_, e := d.(protoreflect.EnumDescriptor)
		return e, true
	}
	want := normalizeFDP(p, isEnum)
	if !proto.Equal(p1, want) {
		chk(c, false, "ToProto(NewFile(p)) != normalize(p): "+protoDiff(want, p1), in, classifyProtoDiff(p, protoDiff(want, p1)))
	}
	// the model's toProto∘newFile on the modelled accessors
	if a != nil && c.HasModel() && a.inModelVocabulary() && len(deps) == 0 {
		ans := c.Ask("%s", a.newfileRequest(false, flags.ProtoLegacy, true))
		if ans == "error unsupported" {
			c.Hist("model:unsupported")
		} else {
			c.Compare("toProto(newFile(p)) on the modelled accessors", in, "ok "+fileFromProto(p1).fileTokens(), ans)
			c.Hist("model:toproto-compared")
		}
	}
	fd2, err, pn := newFile(p1, r, false)
	if !chk(c, err == nil && pn == nil, "NewFile(ToProto(NewFile(p))) fails: "+errClass(err, pn), in, "") {
		return
	}
	p2 := protodesc.ToFileDescriptorProto(fd2)
	chk(c, proto.Equal(p1, p2), "second round trip is not the identity: "+protoDiff(p1, p2), in, "")
	s1, s2 := snapshotFile(fd), snapshotFile(fd2)
	if s1 != s2 {
		reportSnapshotDiff(c, "accessor snapshot of NewFile(ToProto(d)) differs from d", p, s1, s2, in)
	}
	if a != nil && c.Rand.Intn(3) == 0 {
		c.Sample(map[string]any{"path": p.GetName(), "syntax": p.GetSyntax(), "edition": p.GetEdition().String(), "messages": len(p.MessageType), "bytes": len(in.FDP) / 2})
	}
	histShape(c, fd)
}

func resolveAny(fd protoreflect.FileDescriptor, r depResolver, n protoreflect.FullName) (protoreflect.Descriptor, error) {
	reg := &protoregistry.Files{}
	reg.RegisterFile(fd)
	if d, err := reg.FindDescriptorByName(n); err == nil {
		return d, nil
	}
	return r.FindDescriptorByName(n)
}

// histShape records which constructs a built file contains (generator coverage).
func histShape(c *C, fd protoreflect.FileDescriptor) {
	var walk func(ms protoreflect.MessageDescriptors)
	seen := map[string]bool{}
	mark := func(k string) {
		if !seen[k] {
			seen[k] = true
			c.Hist("shape:" + k)
		}
	}
	fld := func(f protoreflect.FieldDescriptor) {
		mark("kind=" + f.Kind().String())
		mark("card=" + f.Cardinality().String())
		if f.HasDefault() {
			mark("default:" + f.Kind().String())
		}
		if f.IsPacked() {
			mark("packed")
		}
		if f.IsMap() {
			mark("map")
		}
		if f.HasJSONName() && f.JSONName() != string(f.Name()) {
			mark("jsonname")
		}
		if f.ContainingOneof() != nil {
			if f.ContainingOneof().IsSynthetic() {
				mark("synthetic-oneof")
			} else {
				mark("oneof")
			}
		}
		if f.IsExtension() {
			mark("extension")
		}
	}
	walk = func(ms protoreflect.MessageDescriptors) {
		for i := 0; i < ms.Len(); i++ {
			m := ms.Get(i)
			for j := 0; j < m.Fields().Len(); j++ {
				fld(m.Fields().Get(j))
			}
			for j := 0; j < m.Extensions().Len(); j++ {
				fld(m.Extensions().Get(j))
			}
			if m.ExtensionRanges().Len() > 0 {
				mark("extension-range")
			}
			if m.ReservedRanges().Len() > 0 {
				mark("reserved-range")
			}
			if m.ReservedNames().Len() > 0 {
				mark("reserved-name")
			}
			if x, ok := m.(interface{ IsMessageSet() bool }); ok && x.IsMessageSet() {
				mark("messageset")
			}
			if m.Messages().Len() > 0 {
				mark("nested")
			}
			walk(m.Messages())
		}
	}
	walk(fd.Messages())
	for j := 0; j < fd.Extensions().Len(); j++ {
		fld(fd.Extensions().Get(j))
	}
	if fd.Services().Len() > 0 {
		mark("service")
	}
	if fd.Imports().Len() > 0 {
		mark("import")
	}
	if fd.SourceLocations().Len() > 0 {
		mark("source-locations")
	}
}

// ---------- witnesses of refuted obligations / known findings (run on every invocation) ----------

// witnessesC34 replays the lossy-conversion witnesses; see Props/C34.lean.
func witnessesC34(c *C) {
	for _, w := range c34Witnesses() {
		reg := &protoregistry.Files{}
		checkProtoC34(c, w.p, nil, reg, "witness:"+w.name, nil)
	}
}

type c34Witness struct {
	name string
	p    *descriptorpb.FileDescriptorProto
}

func mustJSON(v any) string {
	b, _ := json.Marshal(v)
	return string(b)
}

// freeNumber finds a field number of m that is unused and outside its extension / reserved ranges.
func freeNumber(m *AMsg) (int32, bool) {
	for n := int32(21); n < 200; n++ {
		ok := true
		for _, f := range m.Fields {
			if f.Number == n {
				ok = false
			}
		}
		for _, r := range append(append([]ARange(nil), m.ExtRanges...), m.ResRanges...) {
			if r.Start <= n && n < r.End {
				ok = false
			}
		}
		if ok {
			return n, true
		}
	}
	return 0, false
}
