package main

// Accessor snapshot: a deterministic, recursive dump of every public accessor (and the
// pseudo-internal ones: Edition, OptionImports, Visibility, IsMessageSet, IsLazy, EnforceUTF8) of every
// descriptor reachable from a file.  Two constructions of "the same file" must produce equal dumps.
//
// Cross references are printed as full names plus a locality tag (local = the target's ParentFile is the
// file being dumped, by pointer; otherwise the path of the file it lives in; placeholder), so that a
// rebuilt file that points into the *original* file instead of itself is noticed.

import (
	"fmt"
	"math"
	"strings"

	"google.golang.org/protobuf/proto"
	"google.golang.org/protobuf/reflect/protoreflect"
)

type snapper struct {
	file protoreflect.FileDescriptor
	sb   strings.Builder
	// selfPath: descriptors living in a file with this path count as local even if the pointer differs
	// (used when comparing a registered original against an unregistered rebuild: never set for C34/C37
	// where locality must be by pointer).
	lookups bool
}

func (s *snapper) p(depth int, format string, args ...any) {
	for i := 0; i < depth; i++ {
		s.sb.WriteString("  ")
	}
	fmt.Fprintf(&s.sb, format, args...)
	s.sb.WriteByte('\n')
}

func optBytes(m protoreflect.ProtoMessage) string {
	if m == nil {
		return "nil-iface"
	}
	if !m.ProtoReflect().IsValid() {
		return "unset"
	}
	b, err := proto.MarshalOptions{Deterministic: true, AllowPartial: true}.Marshal(m)
	if err != nil {
		return "ERR:" + err.Error()
	}
	return fmt.Sprintf("set:%x", b)
}

func (s *snapper) ref(d protoreflect.Descriptor) string {
	if d == nil {
		return "<nil>"
	}
	loc := ""
	switch {
	case d.IsPlaceholder():
		loc = "placeholder"
	case d.ParentFile() == nil:
		loc = "nofile"
	case d.ParentFile() == s.file:
		loc = "local"
	default:
		loc = "in:" + d.ParentFile().Path()
	}
	return fmt.Sprintf("%s(%s)", d.FullName(), loc)
}

func valueString(k protoreflect.Kind, v protoreflect.Value) string {
	if !v.IsValid() {
		return "invalid"
	}
	switch k {
	case protoreflect.BoolKind:
		return fmt.Sprintf("b:%v", v.Bool())
	case protoreflect.EnumKind:
		return fmt.Sprintf("e:%d", v.Enum())
	case protoreflect.Int32Kind, protoreflect.Sint32Kind, protoreflect.Sfixed32Kind,
		protoreflect.Int64Kind, protoreflect.Sint64Kind, protoreflect.Sfixed64Kind:
		return fmt.Sprintf("i:%d", v.Int())
	case protoreflect.Uint32Kind, protoreflect.Fixed32Kind, protoreflect.Uint64Kind, protoreflect.Fixed64Kind:
		return fmt.Sprintf("u:%d", v.Uint())
	case protoreflect.FloatKind:
		return fmt.Sprintf("f32:%08x", math.Float32bits(float32(v.Float())))
	case protoreflect.DoubleKind:
		return fmt.Sprintf("f64:%016x", math.Float64bits(v.Float()))
	case protoreflect.StringKind:
		return fmt.Sprintf("s:%x", v.String())
	case protoreflect.BytesKind:
		return fmt.Sprintf("y:%x", v.Bytes())
	}
	return fmt.Sprintf("?:%v", v.Interface())
}

func snapshotFile(fd protoreflect.FileDescriptor) string {
	s := &snapper{file: fd, lookups: true}
	s.fileDesc(fd)
	return s.sb.String()
}

func (s *snapper) base(depth int, what string, d protoreflect.Descriptor) {
	parent := "<nil>"
	if d.Parent() != nil {
		parent = string(d.Parent().FullName())
		if _, ok := d.Parent().(protoreflect.FileDescriptor); ok {
			parent = "file:" + d.Parent().(protoreflect.FileDescriptor).Path()
		}
	}
	pf := "<nil>"
	if d.ParentFile() != nil {
		pf = d.ParentFile().Path()
		if d.ParentFile() != s.file {
			pf += "(FOREIGN)"
		}
	}
	s.p(depth, "%s %s name=%s index=%d parent=%s file=%s syntax=%v placeholder=%v", what, d.FullName(), d.Name(), d.Index(), parent, pf, d.Syntax(), d.IsPlaceholder())
}

func (s *snapper) fileDesc(fd protoreflect.FileDescriptor) {
	s.p(0, "file path=%q package=%q syntax=%v name=%s fullname=%s index=%d placeholder=%v", fd.Path(), fd.Package(), fd.Syntax(), fd.Name(), fd.FullName(), fd.Index(), fd.IsPlaceholder())
	if e, ok := fd.(interface{ Edition() int32 }); ok {
		s.p(1, "edition=%d", e.Edition())
	} else {
		s.p(1, "edition=n/a")
	}
	s.p(1, "options=%s", optBytes(fd.Options()))
	imps := fd.Imports()
	for i := 0; i < imps.Len(); i++ {
		imp := imps.Get(i)
		s.p(1, "import %d path=%q public=%v placeholder=%v", i, imp.Path(), imp.IsPublic, imp.IsPlaceholder())
	}
	if oi, ok := fd.(interface {
		OptionImports() protoreflect.FileImports
	}); ok {
		ois := oi.OptionImports()
		for i := 0; i < ois.Len(); i++ {
			imp := ois.Get(i)
			s.p(1, "option-import %d path=%q placeholder=%v", i, imp.Path(), imp.IsPlaceholder())
		}
	}
	locs := fd.SourceLocations()
	for i := 0; i < locs.Len(); i++ {
		l := locs.Get(i)
		s.p(1, "loc %d path=%v span=%d:%d-%d:%d next=%d lead=%q trail=%q detached=%q", i, []int32(l.Path), l.StartLine, l.StartColumn, l.EndLine, l.EndColumn, l.Next, l.LeadingComments, l.TrailingComments, l.LeadingDetachedComments)
		if s.lookups {
			l2 := locs.ByPath(l.Path)
			s.p(2, "bypath-first span=%d:%d-%d:%d", l2.StartLine, l2.StartColumn, l2.EndLine, l2.EndColumn)
		}
	}
	s.enums(1, fd.Enums())
	s.messages(1, fd.Messages())
	s.extensions(1, fd.Extensions())
	svcs := fd.Services()
	s.p(1, "services len=%d", svcs.Len())
	for i := 0; i < svcs.Len(); i++ {
		sd := svcs.Get(i)
		s.base(2, "service", sd)
		s.p(3, "options=%s", optBytes(sd.Options()))
		if s.lookups {
			s.p(3, "byname-ok=%v", svcs.ByName(sd.Name()) != nil && svcs.ByName(sd.Name()).Index() <= i)
		}
		ms := sd.Methods()
		for j := 0; j < ms.Len(); j++ {
			m := ms.Get(j)
			s.base(3, "method", m)
			s.p(4, "input=%s output=%s cstream=%v sstream=%v options=%s", s.ref(m.Input()), s.ref(m.Output()), m.IsStreamingClient(), m.IsStreamingServer(), optBytes(m.Options()))
		}
	}
	if s.lookups {
		// source location of every top-level declaration through ByDescriptor
		for i := 0; i < fd.Messages().Len(); i++ {
			l := locs.ByDescriptor(fd.Messages().Get(i))
			s.p(1, "loc-of-message %d span=%d:%d-%d:%d", i, l.StartLine, l.StartColumn, l.EndLine, l.EndColumn)
		}
	}
}

func (s *snapper) enums(depth int, es protoreflect.EnumDescriptors) {
	s.p(depth, "enums len=%d", es.Len())
	for i := 0; i < es.Len(); i++ {
		e := es.Get(i)
		s.base(depth+1, "enum", e)
		vis := "n/a"
		if v, ok := e.(interface{ Visibility() int32 }); ok {
			vis = fmt.Sprint(v.Visibility())
		}
		s.p(depth+2, "closed=%v visibility=%s options=%s", e.IsClosed(), vis, optBytes(e.Options()))
		rn := e.ReservedNames()
		for j := 0; j < rn.Len(); j++ {
			s.p(depth+2, "reserved-name %q has=%v", rn.Get(j), rn.Has(rn.Get(j)))
		}
		rr := e.ReservedRanges()
		for j := 0; j < rr.Len(); j++ {
			r := rr.Get(j)
			s.p(depth+2, "reserved-range %d..%d has-start=%v has-end=%v", r[0], r[1], rr.Has(r[0]), rr.Has(r[1]))
		}
		vs := e.Values()
		for j := 0; j < vs.Len(); j++ {
			v := vs.Get(j)
			s.base(depth+2, "value", v)
			s.p(depth+3, "number=%d options=%s", v.Number(), optBytes(v.Options()))
			if s.lookups {
				bn := vs.ByNumber(v.Number())
				s.p(depth+3, "bynumber=%s byname=%s", bn.Name(), vs.ByName(v.Name()).Name())
			}
		}
		if s.lookups {
			s.p(depth+2, "byname-index=%d", es.ByName(e.Name()).Index())
		}
	}
}

func (s *snapper) messages(depth int, ms protoreflect.MessageDescriptors) {
	s.p(depth, "messages len=%d", ms.Len())
	for i := 0; i < ms.Len(); i++ {
		m := ms.Get(i)
		s.base(depth+1, "message", m)
		vis, mset := "n/a", "n/a"
		if v, ok := m.(interface{ Visibility() int32 }); ok {
			vis = fmt.Sprint(v.Visibility())
		}
		if v, ok := m.(interface{ IsMessageSet() bool }); ok {
			mset = fmt.Sprint(v.IsMessageSet())
		}
		s.p(depth+2, "mapentry=%v messageset=%s visibility=%s options=%s", m.IsMapEntry(), mset, vis, optBytes(m.Options()))
		rn := m.ReservedNames()
		for j := 0; j < rn.Len(); j++ {
			s.p(depth+2, "reserved-name %q has=%v", rn.Get(j), rn.Has(rn.Get(j)))
		}
		rr := m.ReservedRanges()
		for j := 0; j < rr.Len(); j++ {
			r := rr.Get(j)
			s.p(depth+2, "reserved-range %d..%d has-start=%v has-end=%v has-last=%v", r[0], r[1], rr.Has(r[0]), rr.Has(r[1]), rr.Has(r[1]-1))
		}
		xr := m.ExtensionRanges()
		for j := 0; j < xr.Len(); j++ {
			r := xr.Get(j)
			s.p(depth+2, "extension-range %d..%d has-start=%v has-end=%v has-last=%v options=%s", r[0], r[1], xr.Has(r[0]), xr.Has(r[1]), xr.Has(r[1]-1), optBytes(m.ExtensionRangeOptions(j)))
		}
		rq := m.RequiredNumbers()
		var req []string
		for j := 0; j < rq.Len(); j++ {
			req = append(req, fmt.Sprintf("%d(has=%v)", rq.Get(j), rq.Has(rq.Get(j))))
		}
		s.p(depth+2, "required=%v", req)
		fs := m.Fields()
		s.p(depth+2, "fields len=%d", fs.Len())
		for j := 0; j < fs.Len(); j++ {
			f := fs.Get(j)
			s.field(depth+3, f)
			if s.lookups {
				s.p(depth+4, "lookups byname=%d bynumber=%d byjson=%d bytext=%d", idx(fs.ByName(f.Name())), idx(fs.ByNumber(f.Number())), idx(fs.ByJSONName(f.JSONName())), idx(fs.ByTextName(f.TextName())))
			}
		}
		os := m.Oneofs()
		s.p(depth+2, "oneofs len=%d", os.Len())
		for j := 0; j < os.Len(); j++ {
			o := os.Get(j)
			s.base(depth+3, "oneof", o)
			var members []string
			for k := 0; k < o.Fields().Len(); k++ {
				members = append(members, fmt.Sprintf("%s#%d", o.Fields().Get(k).Name(), o.Fields().Get(k).Index()))
			}
			s.p(depth+4, "synthetic=%v members=%v options=%s", o.IsSynthetic(), members, optBytes(o.Options()))
		}
		s.enums(depth+2, m.Enums())
		s.messages(depth+2, m.Messages())
		s.extensions(depth+2, m.Extensions())
		if s.lookups {
			s.p(depth+2, "byname-index=%d", ms.ByName(m.Name()).Index())
		}
	}
}

func idx(d protoreflect.Descriptor) int {
	if d == nil {
		return -1
	}
	return d.Index()
}

func (s *snapper) extensions(depth int, xs protoreflect.ExtensionDescriptors) {
	s.p(depth, "extensions len=%d", xs.Len())
	for i := 0; i < xs.Len(); i++ {
		s.field(depth+1, xs.Get(i))
	}
}

func (s *snapper) field(depth int, f protoreflect.FieldDescriptor) {
	what := "field"
	if f.IsExtension() {
		what = "extension"
	}
	s.base(depth, what, f)
	s.p(depth+1, "number=%d cardinality=%v kind=%v hasjson=%v json=%q text=%q", f.Number(), f.Cardinality(), f.Kind(), f.HasJSONName(), f.JSONName(), f.TextName())
	lazy, utf8 := "n/a", "n/a"
	if v, ok := f.(interface{ IsLazy() bool }); ok {
		lazy = fmt.Sprint(v.IsLazy())
	}
	if v, ok := f.(interface{ EnforceUTF8() bool }); ok {
		utf8 = fmt.Sprint(v.EnforceUTF8())
	}
	s.p(depth+1, "presence=%v optkw=%v ext=%v weak=%v packed=%v list=%v map=%v lazy=%s utf8=%s", f.HasPresence(), f.HasOptionalKeyword(), f.IsExtension(), f.IsWeak(), f.IsPacked(), f.IsList(), f.IsMap(), lazy, utf8)
	def := "invalid"
	if f.Default().IsValid() {
		def = valueString(f.Kind(), f.Default())
	}
	dev := "<nil>"
	if ev := f.DefaultEnumValue(); ev != nil {
		dev = fmt.Sprintf("%s=%d placeholder=%v", ev.FullName(), ev.Number(), ev.IsPlaceholder())
	}
	s.p(depth+1, "hasdefault=%v default=%s defaultenum=%s", f.HasDefault(), def, dev)
	oneof := "<nil>"
	if o := f.ContainingOneof(); o != nil {
		oneof = fmt.Sprintf("%s#%d", s.ref(o), o.Index())
	}
	s.p(depth+1, "oneof=%s containing=%s enum=%s message=%s", oneof, s.ref(f.ContainingMessage()), s.refT(f.Enum()), s.refT(f.Message()))
	mk, mv := "<nil>", "<nil>"
	if f.MapKey() != nil {
		mk = fmt.Sprintf("%s:%v", f.MapKey().FullName(), f.MapKey().Kind())
	}
	if f.MapValue() != nil {
		mv = fmt.Sprintf("%s:%v", f.MapValue().FullName(), f.MapValue().Kind())
	}
	s.p(depth+1, "mapkey=%s mapvalue=%s options=%s", mk, mv, optBytes(f.Options()))
}

// refT handles typed-nil-free printing of Enum()/Message() results.
func (s *snapper) refT(d protoreflect.Descriptor) string {
	switch x := d.(type) {
	case nil:
		return "<nil>"
	case protoreflect.EnumDescriptor:
		if x == nil {
			return "<nil>"
		}
	case protoreflect.MessageDescriptor:
		if x == nil {
			return "<nil>"
		}
	}
	return s.ref(d)
}

// firstDiff returns the first differing line of two snapshots with a little context.
func firstDiff(a, b string) string {
	la, lb := strings.Split(a, "\n"), strings.Split(b, "\n")
	n := len(la)
	if len(lb) < n {
		n = len(lb)
	}
	ctx := func(ls []string, i int) string {
		// nearest enclosing declaration line above i
		for j := i; j >= 0; j-- {
			t := strings.TrimSpace(ls[j])
			if strings.HasPrefix(t, "field ") || strings.HasPrefix(t, "extension ") || strings.HasPrefix(t, "message ") || strings.HasPrefix(t, "enum ") || strings.HasPrefix(t, "oneof ") || strings.HasPrefix(t, "file ") || strings.HasPrefix(t, "value ") || strings.HasPrefix(t, "method ") {
				f := strings.Fields(t)
				if len(f) > 1 {
					return f[0] + " " + f[1]
				}
				return t
			}
		}
		return ""
	}
	for i := 0; i < n; i++ {
		if la[i] != lb[i] {
			return fmt.Sprintf("line %d [%s]: %q  VS  %q", i, ctx(la, i), strings.TrimSpace(la[i]), strings.TrimSpace(lb[i]))
		}
	}
	if len(la) != len(lb) {
		return fmt.Sprintf("length %d vs %d lines", len(la), len(lb))
	}
	return ""
}

