package main

// C35: descriptor validation never crashes and rejects invalid schemas.
//
//	A valid base family (generator restricted to the model's vocabulary): accepted by NewFile under both
//	  AllowUnresolvable settings and by the model
//	B targeted injections, one (or several variants) per rule of the statement, each planted into a valid base:
//	  NewFile must reject (direct property), the model must give the same verdict and the same rule
//	C random structured mutations of the abstract schema (names, numbers, labels, types, references, oneof
//	  indexes, ranges, reserved, option bits, features): never a panic; verdict and rule = the model's
//	D raw mutation fuzz of the FileDescriptorProto through protoreflect (any field, any depth, including options,
//	  source info, unknown enum numbers, huge lists): never a panic (no model)
//	W witnesses of the refuted obligations (findings 13, 14, the testdata-path edition panic) on every run

import (
	"encoding/json"
	"fmt"
	"math"
	"math/rand"
	"os"
	"os/exec"
	"strings"

	"google.golang.org/protobuf/internal/flags"
	"google.golang.org/protobuf/internal/strs"
	"google.golang.org/protobuf/proto"
	"google.golang.org/protobuf/reflect/protodesc"
	"google.golang.org/protobuf/reflect/protoreflect"
	"google.golang.org/protobuf/reflect/protoregistry"
	"google.golang.org/protobuf/types/descriptorpb"
)

func runC35(c *C) {
	c.R.Rule = "A case is one FileDescriptorProto given to protodesc.FileOptions.New under recover(), with both AllowUnresolvable settings. Streams: valid bases (must be accepted), targeted injections (one per rule; must be rejected), random structured mutations (verdict and rule compared with the Lean checker), raw protoreflect mutation fuzz (never panics). " +
		"Non-trivial = the proto carries at least one declaration and (streams A-C) lies in the model's vocabulary so that the verdict was compared; distinct by descriptor bytes + option."
	for _, raw := range c.ReplayInputs() {
		if in, ok := parseReplay(raw); ok {
			switch in.Kind {
			case "aschema":
				var a AFile
				if err := jsonUnmarshal(in.FDP, &a); err == nil {
					verdictCase(c, &a, in.Note, in.Expect)
				}
			case "fdp":
				rawCase(c, fdpOfHex(in.FDP), in.Note)
			}
		}
	}
	witnessesC35(c)
	n := c.N(50, 1500)
	for i := 0; i < n && !c.Failed(); i++ {
		base := genFile(c.Rand, genOpts{ForModel: true, Syntax: []string{"proto2", "proto3", "editions", ""}[c.Rand.Intn(4)]}, i)
		if !verdictCase(c, base, "base", "ok") {
			continue
		}
		// B: every injection on this base
		for _, inj := range injections {
			a := cloneA(base)
			if !inj.apply(c.Rand, a) {
				c.Hist("B:n/a:" + inj.name)
				continue
			}
			c.Hist("B:" + inj.name)
			verdictCase(c, a, "inject:"+inj.name, inj.rule)
		}
		// C: random structured mutations
		for j := 0; j < 12; j++ {
			a := cloneA(base)
			what := mutateA(c.Rand, a)
			if c.Rand.Intn(3) == 0 {
				what += "+" + mutateA(c.Rand, a)
			}
			verdictCase(c, a, "mutate:"+what, "")
		}
		// D: raw fuzz
		for j := 0; j < 25; j++ {
			p := base.toProto()
			k := 1 + c.Rand.Intn(4)
			for ; k > 0; k-- {
				rawMutate(c.Rand, p.ProtoReflect(), 0)
			}
			rawCase(c, p, "raw")
		}
	}
}

func cloneA(a *AFile) *AFile {
	b, _ := json.Marshal(a)
	var out AFile
	if err := json.Unmarshal(b, &out); err != nil {
		panic(err)
	}
	return &out
}

// verdictCase runs NewFile on the rendered schema (both AllowUnresolvable settings) and the model; `expect` is
// "ok", a rule name the injection aims at ("" = no expectation, "reject" = any error).
func verdictCase(c *C, a *AFile, note, expect string) bool {
	p := a.toProto()
	in := lazyA{a: a, note: note, expect: expect}
	inModel := a.inModelVocabulary()
	accepted := true
	for _, allow := range []bool{false, true} {
		_, err, pn := newFile(p, depResolver{&protoregistry.Files{}}, allow)
		c.Case(fmt.Sprintf("%s|%v", hexOf(p), allow), nontrivialFile(p) && inModel)
		if !chk(c, pn == nil, fmt.Sprintf("protodesc.NewFile panics (%s, AllowUnresolvable=%v): %v", note, allow, pn), in, classifyPanic(a, pn)) {
			accepted = false
			continue
		}
		got := goRule(err)
		if err != nil {
			accepted = false
		}
		c.Hist("verdict:" + strings.SplitN(got, "\"", 2)[0])
		// direct property
		switch {
		case expect == "ok":
			chk(c, err == nil, fmt.Sprintf("valid base schema rejected (AllowUnresolvable=%v): %v", allow, err), in, "")
		case expect == "":
		case allow && resolvabilityRule(expect):
			// unresolvable references are what AllowUnresolvable permits
		default:
			chk(c, err != nil, fmt.Sprintf("invalid schema ACCEPTED (%s, AllowUnresolvable=%v): expected rule %s", note, allow, expect), in, classifyAccepted(note))
		}
		// correspondence
		if c.HasModel() && inModel {
			ans := c.Ask("%s", a.newfileRequest(allow, flags.ProtoLegacy, false))
			want := "ok"
			if err != nil {
				want = "error " + got
			}
			m := ans
			if strings.HasPrefix(ans, "error ") {
				m = "error " + normRule(strings.TrimPrefix(ans, "error "))
			}
			if m == "error unsupported" {
				c.Hist("model:unsupported")
				continue
			}
			if strings.Contains(got, "(unmodelled)") {
				c.Hist("model:rule-not-modelled")
				continue
			}
			c.Compare(fmt.Sprintf("NewFile verdict (%s, AllowUnresolvable=%v)", note, allow), in, want, m)
		}
	}
	return accepted
}

func resolvabilityRule(r string) bool {
	return r == "unresolvedType" || r == "unresolvedExtendee" || r == "unresolvedMethod" || r == "unresolvedEnumDefault"
}

func classifyAccepted(note string) string {
	switch {
	case strings.HasPrefix(note, "inject:packed-on-") || strings.HasPrefix(note, "witness:packed-on-"):
		return sigPackedDead
	case strings.HasPrefix(note, "inject:dup-extension-number") || strings.HasPrefix(note, "witness:dup-extension-number"):
		return sigDupExtension
	}
	return ""
}

const sigEditionPanic = "testdata-path-edition-panic"

func classifyPanic(a *AFile, pn any) string {
	if pn == nil {
		return ""
	}
	if strings.HasPrefix(a.Path, "cmd/protoc-gen-go/testdata/") && a.Syntax == "editions" && strings.Contains(fmt.Sprint(pn), "unknown value for edition") {
		return sigEditionPanic
	}
	return ""
}

func rawCase(c *C, p *descriptorpb.FileDescriptorProto, note string) {
	in := replayIn{Kind: "fdp", FDP: hexOf(p), Note: note}
	for _, allow := range []bool{false, true} {
		_, err, pn := newFile(p, depResolver{&protoregistry.Files{}}, allow)
		c.Case(fmt.Sprintf("%s|%v", in.FDP, allow), false)
		sig := ""
		if pn != nil && strings.HasPrefix(p.GetName(), "cmd/protoc-gen-go/testdata/") && strings.Contains(fmt.Sprint(pn), "unknown value for edition") {
			sig = sigEditionPanic
		}
		chk(c, pn == nil, fmt.Sprintf("protodesc.NewFile panics (raw mutation, AllowUnresolvable=%v): %v", allow, pn), in, sig)
		if err != nil {
			c.Hist("D:rejected")
		} else {
			c.Hist("D:accepted")
		}
	}
}

// ---------- targeted injections ----------

type injection struct {
	name  string
	rule  string
	apply func(r *rand.Rand, a *AFile) bool
}

func i32p(v int32) *int32 { return &v }
func strp(s string) *string { return &s }

func fresh(a *AFile, name string) *AMsg {
	m := &AMsg{Name: name}
	a.Msgs = append(a.Msgs, m)
	return m
}
func fld1(name string, num, label, typ int32) *AField {
	return &AField{Name: name, Number: num, HasNumber: true, Label: label, Type: typ}
}
func full(a *AFile, names ...string) string {
	s := a.Pkg
	for _, n := range names {
		s = join(s, n)
	}
	return "." + s
}
func isP3(a *AFile) bool { return a.Syntax == "proto3" }
func isP2(a *AFile) bool { return a.Syntax == "proto2" || a.Syntax == "" }
func isEd(a *AFile) bool { return a.Syntax == "editions" }

func simpleEnum(name string, nums ...int32) *AEnum {
	e := &AEnum{Name: name}
	for i, n := range nums {
		e.Values = append(e.Values, &AEnumValue{Name: fmt.Sprintf("%s_X%d", strings.ToUpper(name), i), Number: n, HasNumber: true})
	}
	return e
}

func mapEntry(fieldName string, keyType, valType int32) (*AField, *AMsg) {
	en := strs.MapEntryName(fieldName)
	e := &AMsg{Name: en, MapEntry: true, Fields: []*AField{fld1("key", 1, 1, keyType), fld1("value", 2, 1, valType)}}
	f := fld1(fieldName, 1, 3, 11)
	return f, e
}

var injections = []injection{
	{"dup-message-name", "duplicateDecl", func(r *rand.Rand, a *AFile) bool { fresh(a, "Inj"); fresh(a, "Inj"); return true }},
	{"dup-field-name", "duplicateDecl", func(r *rand.Rand, a *AFile) bool {
		m := fresh(a, "Inj")
		m.Fields = []*AField{fld1("x", 1, 1, 5), fld1("x", 2, 1, 5)}
		return true
	}},
	{"dup-field-and-oneof-name", "duplicateDecl", func(r *rand.Rand, a *AFile) bool {
		m := fresh(a, "Inj")
		m.Fields = []*AField{fld1("x", 1, 1, 5)}
		m.Fields[0].OneofIndex = i32p(0)
		m.Oneofs = []*AOneof{{Name: "x"}}
		return true
	}},
	{"dup-enum-value-across-sibling-enums", "duplicateDecl", func(r *rand.Rand, a *AFile) bool {
		e1, e2 := simpleEnum("InjA", 0), simpleEnum("InjB", 0)
		e2.Values[0].Name = e1.Values[0].Name
		a.Enums = append(a.Enums, e1, e2)
		return true
	}},
	{"dup-nested-and-field-name", "duplicateDecl", func(r *rand.Rand, a *AFile) bool {
		m := fresh(a, "Inj")
		m.Fields = []*AField{fld1("N", 1, 1, 5)}
		m.Nested = []*AMsg{{Name: "N"}}
		return true
	}},
	{"invalid-name", "invalidName", func(r *rand.Rand, a *AFile) bool {
		fresh(a, []string{"1abc", "", "a-b", "a.b", "héllo", " x"}[r.Intn(6)])
		return true
	}},
	{"invalid-field-name", "invalidName", func(r *rand.Rand, a *AFile) bool {
		fresh(a, "Inj").Fields = []*AField{fld1([]string{"", "9", "a b"}[r.Intn(3)], 1, 1, 5)}
		return true
	}},
	{"dup-field-number", "fieldConflict", func(r *rand.Rand, a *AFile) bool {
		n := []int32{1, 7, 536870911}[r.Intn(3)]
		fresh(a, "Inj").Fields = []*AField{fld1("x", n, 1, 5), fld1("y", 3, 1, 5), fld1("z", n, 1, 9)}
		return true
	}},
	{"field-number-out-of-range", "fieldBadNumber", func(r *rand.Rand, a *AFile) bool {
		n := []int32{0, -1, 536870912, math.MaxInt32, math.MinInt32}[r.Intn(5)]
		fresh(a, "Inj").Fields = []*AField{fld1("x", n, 1, 5)}
		return true
	}},
	{"field-number-missing", "fieldBadNumber", func(r *rand.Rand, a *AFile) bool {
		f := fld1("x", 0, 1, 5)
		f.HasNumber = false
		fresh(a, "Inj").Fields = []*AField{f}
		return true
	}},
	{"extension-range-invalid", "msgExtensionRanges", func(r *rand.Rand, a *AFile) bool {
		if isP3(a) {
			return false
		}
		fresh(a, "Inj").ExtRanges = [][]ARange{{{5, 5}}, {{7, 3}}, {{0, 3}}, {{1, 536870913}}, {{-5, 2}}, {{10, 20}, {19, 30}}, {{10, 20}, {10, 12}}, {{100, 200}, {5, 101}}, {{1, math.MinInt32}}}[r.Intn(9)]
		return true
	}},
	{"reserved-range-invalid", "msgReservedRanges", func(r *rand.Rand, a *AFile) bool {
		fresh(a, "Inj").ResRanges = [][]ARange{{{5, 5}}, {{7, 3}}, {{0, 3}}, {{1, 536870913}}, {{10, 20}, {19, 30}}, {{30, 40}, {10, 31}}, {{3, 4}, {3, 4}}}[r.Intn(7)]
		return true
	}},
	{"reserved-overlaps-extension-range", "msgRangesOverlap", func(r *rand.Rand, a *AFile) bool {
		if isP3(a) {
			return false
		}
		m := fresh(a, "Inj")
		m.ExtRanges = []ARange{{100, 200}, {300, 400}}
		m.ResRanges = [][]ARange{{{150, 160}}, {{50, 101}}, {{10, 20}, {399, 500}}, {{199, 200}}}[r.Intn(4)]
		return true
	}},
	{"field-in-extension-range", "fieldInExtensionRange", func(r *rand.Rand, a *AFile) bool {
		if isP3(a) {
			return false
		}
		m := fresh(a, "Inj")
		m.ExtRanges = []ARange{{100, 200}}
		m.Fields = []*AField{fld1("x", []int32{100, 150, 199}[r.Intn(3)], 1, 5)}
		return true
	}},
	{"field-in-reserved-range", "fieldReservedNumber", func(r *rand.Rand, a *AFile) bool {
		m := fresh(a, "Inj")
		m.ResRanges = []ARange{{100, 200}, {5, 6}}
		m.Fields = []*AField{fld1("x", []int32{100, 199, 5}[r.Intn(3)], 1, 5)}
		return true
	}},
	{"field-name-reserved", "fieldReservedName", func(r *rand.Rand, a *AFile) bool {
		m := fresh(a, "Inj")
		m.ResNames = []string{"a", "x"}
		m.Fields = []*AField{fld1("x", 1, 1, 5)}
		return true
	}},
	{"reserved-name-twice", "msgReservedNames", func(r *rand.Rand, a *AFile) bool {
		fresh(a, "Inj").ResNames = []string{"a", "b", "a"}
		return true
	}},
	{"oneof-empty", "oneofEmpty", func(r *rand.Rand, a *AFile) bool {
		m := fresh(a, "Inj")
		m.Fields = []*AField{fld1("x", 1, 1, 5)}
		m.Oneofs = []*AOneof{{Name: "o"}}
		return true
	}},
	{"oneof-not-consecutive", "oneofNotConsecutive", func(r *rand.Rand, a *AFile) bool {
		m := fresh(a, "Inj")
		m.Fields = []*AField{fld1("x", 1, 1, 5), fld1("y", 2, 1, 5), fld1("z", 3, 1, 5)}
		m.Fields[0].OneofIndex, m.Fields[2].OneofIndex = i32p(0), i32p(0)
		m.Oneofs = []*AOneof{{Name: "o"}}
		return true
	}},
	{"oneof-member-repeated", "oneofMemberNotOptional", func(r *rand.Rand, a *AFile) bool {
		m := fresh(a, "Inj")
		m.Fields = []*AField{fld1("x", 1, 3, 5), fld1("y", 2, 1, 5)}
		m.Fields[0].OneofIndex, m.Fields[1].OneofIndex = i32p(0), i32p(0)
		m.Oneofs = []*AOneof{{Name: "o"}}
		return true
	}},
	{"oneof-index-out-of-range", "badOneofIndex", func(r *rand.Rand, a *AFile) bool {
		m := fresh(a, "Inj")
		m.Fields = []*AField{fld1("x", 1, 1, 5), fld1("y", 2, 1, 5)}
		m.Fields[0].OneofIndex = i32p(0)
		m.Fields[1].OneofIndex = i32p([]int32{1, -1, math.MaxInt32, math.MinInt32}[r.Intn(4)])
		m.Oneofs = []*AOneof{{Name: "o"}}
		return true
	}},
	{"map-entry-malformed", "badMap", func(r *rand.Rand, a *AFile) bool {
		m := fresh(a, "Inj")
		f, e := mapEntry("m_x", 5, 9)
		f.TypeName, f.HasTypeName = full(a, "Inj", e.Name), true
		switch r.Intn(9) {
		case 0:
			e.Name = "WrongEntry"
			f.TypeName = full(a, "Inj", e.Name)
		case 1:
			e.Fields[0].Number = 3
		case 2:
			e.Fields[0].Type = 2 // float key
		case 3:
			e.Fields = append(e.Fields, fld1("extra", 3, 1, 5))
		case 4:
			f.Label = 1
		case 5:
			e.Enums = []*AEnum{simpleEnum("InjE", 0)}
		case 6:
			e.Fields[1].Name = "val"
		case 7:
			e.Fields[0].Label = 3
		case 8:
			e.Fields = e.Fields[:1]
		}
		m.Fields = []*AField{f}
		m.Nested = []*AMsg{e}
		return true
	}},
	{"map-entry-in-other-scope", "badMap", func(r *rand.Rand, a *AFile) bool {
		m := fresh(a, "Inj")
		f, e := mapEntry("m_x", 5, 9)
		a.Msgs = append(a.Msgs, e) // declared at file level instead of nested
		f.TypeName, f.HasTypeName = full(a, e.Name), true
		m.Fields = []*AField{f}
		return true
	}},
	{"map-value-enum-first-nonzero", "badMap", func(r *rand.Rand, a *AFile) bool {
		if !isP2(a) {
			return false
		}
		m := fresh(a, "Inj")
		m.Enums = []*AEnum{simpleEnum("InjE", 1, 0)}
		f, e := mapEntry("m_x", 5, 14)
		e.Fields[1].TypeName, e.Fields[1].HasTypeName = full(a, "Inj", "InjE"), true
		f.TypeName, f.HasTypeName = full(a, "Inj", e.Name), true
		m.Fields = []*AField{f}
		m.Nested = []*AMsg{e}
		return true
	}},
	{"group-malformed", "badGroup", func(r *rand.Rand, a *AFile) bool {
		if isEd(a) {
			return false
		}
		m := fresh(a, "Inj")
		g := &AMsg{Name: "Grp"}
		f := fld1("grp", 1, 1, 10)
		f.TypeName, f.HasTypeName = full(a, "Inj", "Grp"), true
		m.Nested = []*AMsg{g}
		if !isP3(a) {
			switch r.Intn(3) {
			case 0:
				f.Name = "other"
			case 1:
				g.Name = "grp"
				f.TypeName = full(a, "Inj", "grp")
			case 2:
				m.Nested = nil
				a.Msgs = append(a.Msgs, g)
				f.TypeName = full(a, "Grp")
			}
		}
		m.Fields = []*AField{f}
		return true
	}},
	{"proto3-required", "proto3Required", func(r *rand.Rand, a *AFile) bool {
		if !isP3(a) {
			return false
		}
		fresh(a, "Inj").Fields = []*AField{fld1("x", 1, 2, 5)}
		return true
	}},
	{"proto3-extension-range", "proto3ExtensionRanges", func(r *rand.Rand, a *AFile) bool {
		if !isP3(a) {
			return false
		}
		fresh(a, "Inj").ExtRanges = []ARange{{100, 200}}
		return true
	}},
	{"proto3-default-value", "badDefault", func(r *rand.Rand, a *AFile) bool {
		if !isP3(a) {
			return false
		}
		f := fld1("x", 1, 1, 5)
		f.Default = strp("7")
		fresh(a, "Inj").Fields = []*AField{f}
		return true
	}},
	{"open-enum-first-value-nonzero", "enumOpenFirstZero", func(r *rand.Rand, a *AFile) bool {
		if isP2(a) {
			return false
		}
		e := simpleEnum("InjE", 1, 0)
		if isEd(a) {
			e.Feat = &AFeat{ET: 1}
		}
		a.Enums = append(a.Enums, e)
		return true
	}},
	{"implicit-presence-closed-enum", "implicitClosedEnum", func(r *rand.Rand, a *AFile) bool {
		if !isEd(a) {
			return false
		}
		e := simpleEnum("InjE", 0, 1)
		e.Feat = &AFeat{ET: 2}
		a.Enums = append(a.Enums, e)
		f := fld1("x", 1, 1, 14)
		f.TypeName, f.HasTypeName = full(a, "InjE"), true
		f.Feat = &AFeat{FP: 2}
		fresh(a, "Inj").Fields = []*AField{f}
		return true
	}},
	{"implicit-presence-default", "badDefault", func(r *rand.Rand, a *AFile) bool {
		if !isEd(a) {
			return false
		}
		f := fld1("x", 1, 1, 5)
		f.Feat = &AFeat{FP: 2}
		f.Default = strp("7")
		fresh(a, "Inj").Fields = []*AField{f}
		return true
	}},
	{"unresolvable-type", "unresolvedType", func(r *rand.Rand, a *AFile) bool {
		f := fld1("x", 1, 1, []int32{11, 14}[r.Intn(2)])
		f.TypeName, f.HasTypeName = ".nope.Missing", true
		fresh(a, "Inj").Fields = []*AField{f}
		return true
	}},
	{"type-name-of-wrong-kind", "reject", func(r *rand.Rand, a *AFile) bool {
		a.Enums = append(a.Enums, simpleEnum("InjE", 0))
		f := fld1("x", 1, 1, 11)
		f.TypeName, f.HasTypeName = full(a, "InjE"), true
		fresh(a, "Inj").Fields = []*AField{f}
		return true
	}},
	{"type-name-on-scalar", "reject", func(r *rand.Rand, a *AFile) bool {
		f := fld1("x", 1, 1, 5)
		f.TypeName, f.HasTypeName = full(a, "Inj"), true
		fresh(a, "Inj").Fields = []*AField{f}
		return true
	}},
	{"type-missing-type-name", "reject", func(r *rand.Rand, a *AFile) bool {
		fresh(a, "Inj").Fields = []*AField{fld1("x", 1, 1, []int32{11, 14, 10}[r.Intn(3)])}
		return true
	}},
	{"invalid-kind", "reject", func(r *rand.Rand, a *AFile) bool {
		fresh(a, "Inj").Fields = []*AField{fld1("x", 1, 1, []int32{19, 99, 1000}[r.Intn(3)])}
		return true
	}},
	{"invalid-label", "fieldBadCardinality", func(r *rand.Rand, a *AFile) bool {
		fresh(a, "Inj").Fields = []*AField{fld1("x", 1, []int32{4, 7, 100}[r.Intn(3)], 5)}
		return true
	}},
	{"enum-empty", "enumEmpty", func(r *rand.Rand, a *AFile) bool { a.Enums = append(a.Enums, &AEnum{Name: "InjE"}); return true }},
	{"enum-alias-without-allow-alias", "enumAlias", func(r *rand.Rand, a *AFile) bool {
		a.Enums = append(a.Enums, simpleEnum("InjE", 0, 1, 1))
		return true
	}},
	{"enum-allow-alias-without-alias", "enumNoAlias", func(r *rand.Rand, a *AFile) bool {
		e := simpleEnum("InjE", 0, 1)
		e.AllowAlias = 2
		a.Enums = append(a.Enums, e)
		return true
	}},
	{"enum-value-in-reserved-range", "enumValueReservedNumber", func(r *rand.Rand, a *AFile) bool {
		e := simpleEnum("InjE", 0, 5)
		e.ResRanges = [][]ARange{{{5, 5}}, {{1, 10}}, {{-3, -1}, {4, 5}}}[r.Intn(3)]
		a.Enums = append(a.Enums, e)
		return true
	}},
	{"enum-value-name-reserved", "enumValueReservedName", func(r *rand.Rand, a *AFile) bool {
		e := simpleEnum("InjE", 0, 5)
		e.ResNames = []string{e.Values[1].Name}
		a.Enums = append(a.Enums, e)
		return true
	}},
	{"enum-reserved-range-invalid", "enumReservedRanges", func(r *rand.Rand, a *AFile) bool {
		e := simpleEnum("InjE", 0)
		e.ResRanges = [][]ARange{{{5, 4}}, {{1, 10}, {10, 12}}, {{20, 30}, {5, 25}}}[r.Intn(3)]
		a.Enums = append(a.Enums, e)
		return true
	}},
	{"enum-reserved-name-twice", "enumReservedNames", func(r *rand.Rand, a *AFile) bool {
		e := simpleEnum("InjE", 0)
		e.ResNames = []string{"A", "A"}
		a.Enums = append(a.Enums, e)
		return true
	}},
	{"enum-value-without-number", "enumValueNoNumber", func(r *rand.Rand, a *AFile) bool {
		e := simpleEnum("InjE", 0, 1)
		e.Values[1].HasNumber = false
		e.Values[1].Number = 0
		e.AllowAlias = 2 // 0 twice is otherwise an alias error first
		a.Enums = append(a.Enums, e)
		return true
	}},
	{"enum-default-not-a-value", "badDefault", func(r *rand.Rand, a *AFile) bool {
		if isP3(a) {
			return false
		}
		a.Enums = append(a.Enums, simpleEnum("InjE", 0, 1))
		f := fld1("x", 1, 1, 14)
		f.TypeName, f.HasTypeName = full(a, "InjE"), true
		f.Default = strp([]string{"0", "", "not valid", "9X"}[r.Intn(4)])
		fresh(a, "Inj").Fields = []*AField{f}
		return true
	}},
	// an unknown but well-formed value NAME is an unresolvable reference (FileOptions.AllowUnresolvable documents it)
	{"enum-default-unknown-name", "unresolvedEnumDefault", func(r *rand.Rand, a *AFile) bool {
		if isP3(a) {
			return false
		}
		a.Enums = append(a.Enums, simpleEnum("InjE", 0, 1))
		f := fld1("x", 1, 1, 14)
		f.TypeName, f.HasTypeName = full(a, "InjE"), true
		f.Default = strp("NOPE")
		fresh(a, "Inj").Fields = []*AField{f}
		return true
	}},
	{"default-on-repeated-or-message", "badDefault", func(r *rand.Rand, a *AFile) bool {
		if isP3(a) {
			return false
		}
		f := fld1("x", 1, 3, 5)
		f.Default = strp("1")
		if r.Intn(2) == 0 {
			f = fld1("x", 1, 1, 11)
			f.TypeName, f.HasTypeName = full(a, "Inj"), true
			f.Default = strp("1")
		}
		fresh(a, "Inj").Fields = []*AField{f}
		return true
	}},
	{"default-literal-invalid", "badDefault", func(r *rand.Rand, a *AFile) bool {
		if isP3(a) {
			return false
		}
		k := r.Intn(5)
		f := fld1("x", 1, 1, []int32{5, 13, 8, 1, 12}[k])
		f.Default = strp([]string{"2147483648", "-1", "yes", "1.2.3", "\\x"}[k])
		fresh(a, "Inj").Fields = []*AField{f}
		return true
	}},
	{"extension-number-not-in-range", "extNotInRange", func(r *rand.Rand, a *AFile) bool {
		if isP3(a) {
			return false
		}
		fresh(a, "Inj").ExtRanges = []ARange{{100, 200}}
		x := fld1("inj_ext", []int32{99, 200, 1}[r.Intn(3)], 1, 5)
		x.Extendee, x.HasExtendee = full(a, "Inj"), true
		a.Exts = append(a.Exts, x)
		return true
	}},
	{"extension-required", "extBadCardinality", func(r *rand.Rand, a *AFile) bool {
		if isP3(a) {
			return false
		}
		fresh(a, "Inj").ExtRanges = []ARange{{100, 200}}
		x := fld1("inj_ext", 100, 2, 5)
		x.Extendee, x.HasExtendee = full(a, "Inj"), true
		a.Exts = append(a.Exts, x)
		return true
	}},
	{"extension-in-oneof", "extInOneof", func(r *rand.Rand, a *AFile) bool {
		if isP3(a) {
			return false
		}
		fresh(a, "Inj").ExtRanges = []ARange{{100, 200}}
		x := fld1("inj_ext", 100, 1, 5)
		x.Extendee, x.HasExtendee = full(a, "Inj"), true
		x.OneofIndex = i32p(0)
		a.Exts = append(a.Exts, x)
		return true
	}},
	{"extension-json-name", "extJsonName", func(r *rand.Rand, a *AFile) bool {
		if isP3(a) {
			return false
		}
		fresh(a, "Inj").ExtRanges = []ARange{{100, 200}}
		x := fld1("inj_ext", 100, 1, 5)
		x.Extendee, x.HasExtendee = full(a, "Inj"), true
		x.JSONName = strp("custom")
		a.Exts = append(a.Exts, x)
		return true
	}},
	{"extension-number-reserved-or-negative", "extBadNumber", func(r *rand.Rand, a *AFile) bool {
		if isP3(a) {
			return false
		}
		fresh(a, "Inj").ExtRanges = []ARange{{100, 30000}}
		x := fld1("inj_ext", []int32{19000, 19999, 19500, -1}[r.Intn(4)], 1, 5)
		x.Extendee, x.HasExtendee = full(a, "Inj"), true
		a.Exts = append(a.Exts, x)
		return true
	}},
	{"extension-of-non-message", "reject", func(r *rand.Rand, a *AFile) bool {
		a.Enums = append(a.Enums, simpleEnum("InjE", 0))
		x := fld1("inj_ext", 100, 1, 5)
		x.Extendee, x.HasExtendee = full(a, "InjE"), true
		a.Exts = append(a.Exts, x)
		return true
	}},
	{"extension-without-extendee", "reject", func(r *rand.Rand, a *AFile) bool {
		a.Exts = append(a.Exts, fld1("inj_ext", 100, 1, 5))
		return true
	}},
	{"extension-of-map-entry-type", "extMapEntry", func(r *rand.Rand, a *AFile) bool {
		if isP3(a) {
			return false
		}
		m := fresh(a, "Inj")
		m.ExtRanges = []ARange{{100, 200}}
		f, e := mapEntry("m_x", 5, 9)
		f.TypeName, f.HasTypeName = full(a, "Inj", e.Name), true
		m.Fields = []*AField{f}
		m.Nested = []*AMsg{e}
		x := fld1("inj_ext", 100, 3, 11)
		x.Extendee, x.HasExtendee = full(a, "Inj"), true
		x.TypeName, x.HasTypeName = full(a, "Inj", e.Name), true
		a.Exts = append(a.Exts, x)
		return true
	}},
	{"field-with-extendee", "fieldHasExtendee", func(r *rand.Rand, a *AFile) bool {
		f := fld1("x", 1, 1, 5)
		f.Extendee, f.HasExtendee = full(a, "Inj"), true
		fresh(a, "Inj").Fields = []*AField{f}
		return true
	}},
	{"messageset-invalid", "messageSetInvalid", func(r *rand.Rand, a *AFile) bool {
		if !isP2(a) || !flags.ProtoLegacy {
			return false
		}
		m := fresh(a, "Inj")
		m.MessageSet = true
		if r.Intn(2) == 0 {
			m.ExtRanges = []ARange{{4, math.MaxInt32}}
			m.Fields = []*AField{fld1("x", 1, 1, 5)}
		}
		return true
	}},
	{"messageset-extension-not-message", "extMessageSetType", func(r *rand.Rand, a *AFile) bool {
		if !isP2(a) || !flags.ProtoLegacy {
			return false
		}
		m := fresh(a, "Inj")
		m.MessageSet = true
		m.ExtRanges = []ARange{{4, math.MaxInt32}}
		x := fld1("inj_ext", 100, 1, 5)
		if r.Intn(2) == 0 {
			x = fld1("inj_ext", 100, 3, 11)
			x.TypeName, x.HasTypeName = full(a, "Inj"), true
		}
		x.Extendee, x.HasExtendee = full(a, "Inj"), true
		a.Exts = append(a.Exts, x)
		return true
	}},
	{"proto3-optional-outside-proto3", "proto3OptionalSyntax", func(r *rand.Rand, a *AFile) bool {
		if isP3(a) {
			return false
		}
		f := fld1("x", 1, 1, 5)
		f.P3Opt = true
		fresh(a, "Inj").Fields = []*AField{f}
		return true
	}},
	{"proto3-optional-repeated", "proto3OptionalCardinality", func(r *rand.Rand, a *AFile) bool {
		if !isP3(a) {
			return false
		}
		f := fld1("x", 1, 3, 5)
		f.P3Opt = true
		fresh(a, "Inj").Fields = []*AField{f}
		return true
	}},
	{"proto3-optional-in-shared-oneof", "proto3OptionalOneof", func(r *rand.Rand, a *AFile) bool {
		if !isP3(a) {
			return false
		}
		m := fresh(a, "Inj")
		m.Fields = []*AField{fld1("x", 1, 1, 5), fld1("y", 2, 1, 5)}
		m.Fields[0].P3Opt = true
		m.Fields[0].OneofIndex, m.Fields[1].OneofIndex = i32p(0), i32p(0)
		m.Oneofs = []*AOneof{{Name: "o"}}
		return true
	}},
	{"real-oneof-after-synthetic", "oneofAfterSynthetic", func(r *rand.Rand, a *AFile) bool {
		if !isP3(a) {
			return false
		}
		m := fresh(a, "Inj")
		m.Fields = []*AField{fld1("x", 1, 1, 5), fld1("y", 2, 1, 5)}
		m.Fields[0].P3Opt = true
		m.Fields[0].OneofIndex, m.Fields[1].OneofIndex = i32p(0), i32p(1)
		m.Oneofs = []*AOneof{{Name: "_x"}, {Name: "o"}}
		return true
	}},
	{"service-method-unresolvable", "unresolvedMethod", func(r *rand.Rand, a *AFile) bool {
		fresh(a, "Inj")
		a.Svcs = append(a.Svcs, &ASvc{Name: "InjSvc", Methods: []*AMethod{{Name: "Do", In: full(a, "Inj"), Out: ".nope.Missing"}}})
		return true
	}},
	{"service-method-type-is-enum", "reject", func(r *rand.Rand, a *AFile) bool {
		fresh(a, "Inj")
		a.Enums = append(a.Enums, simpleEnum("InjE", 0))
		a.Svcs = append(a.Svcs, &ASvc{Name: "InjSvc", Methods: []*AMethod{{Name: "Do", In: full(a, "InjE"), Out: full(a, "Inj")}}})
		return true
	}},
	{"invalid-syntax", "invalidSyntax", func(r *rand.Rand, a *AFile) bool {
		a.Syntax = []string{"proto4", "PROTO2", "edition", " "}[r.Intn(4)]
		return true
	}},
	{"empty-path", "emptyPath", func(r *rand.Rand, a *AFile) bool { a.Path = ""; return true }},
	{"invalid-package", "invalidPackage", func(r *rand.Rand, a *AFile) bool {
		a.Pkg = []string{"a..b", ".a", "a.", "1a", "a b"}[r.Intn(5)]
		return true
	}},
	{"unsupported-edition", "unsupportedEdition", func(r *rand.Rand, a *AFile) bool {
		if !isEd(a) {
			return false
		}
		a.Edition = []int32{0, 1, 2, 900, 997, 1002, 99997, 99998, 99999, math.MaxInt32}[r.Intn(10)]
		a.HasEdition = a.Edition != 0
		return true
	}},
	// ---- the two stated rules the code does not enforce (DESIGN findings 13, 14)
	{"packed-on-repeated-string", "notPackable", func(r *rand.Rand, a *AFile) bool {
		if isEd(a) {
			return false
		}
		f := fld1("x", 1, 3, []int32{9, 12}[r.Intn(2)])
		f.Packed = 2
		fresh(a, "Inj").Fields = []*AField{f}
		return true
	}},
	{"packed-on-singular-field", "notPackable", func(r *rand.Rand, a *AFile) bool {
		if isEd(a) {
			return false
		}
		f := fld1("x", 1, 1, 5)
		f.Packed = 2
		fresh(a, "Inj").Fields = []*AField{f}
		return true
	}},
	{"dup-extension-number", "reject", func(r *rand.Rand, a *AFile) bool {
		if isP3(a) {
			return false
		}
		fresh(a, "Inj").ExtRanges = []ARange{{100, 200}}
		for _, n := range []string{"inj_ext_a", "inj_ext_b"} {
			x := fld1(n, 100, 1, 5)
			x.Extendee, x.HasExtendee = full(a, "Inj"), true
			a.Exts = append(a.Exts, x)
		}
		return true
	}},
}

// ---------- random structured mutations ----------

func allMsgs(a *AFile) []*AMsg {
	var out []*AMsg
	a.walkMsgs(func(_ string, m *AMsg) { out = append(out, m) })
	return out
}

func allEnums(a *AFile) []*AEnum {
	out := append([]*AEnum(nil), a.Enums...)
	a.walkMsgs(func(_ string, m *AMsg) { out = append(out, m.Enums...) })
	return out
}

func allFields(a *AFile) []*AField {
	var out []*AField
	a.walkFields(func(f *AField) { out = append(out, f) })
	return out
}

var oddNumbers = []int32{0, 1, -1, 2, 3, 18999, 19000, 19999, 20000, 536870911, 536870912, math.MaxInt32, math.MinInt32, 100, 199, 200, 50, 59, 60}

func mutateA(r *rand.Rand, a *AFile) string {
	fs, ms, es := allFields(a), allMsgs(a), allEnums(a)
	for tries := 0; tries < 20; tries++ {
		switch r.Intn(24) {
		case 0:
			if len(fs) > 0 {
				fs[r.Intn(len(fs))].Number = oddNumbers[r.Intn(len(oddNumbers))]
				return "field-number"
			}
		case 1:
			if len(fs) > 1 {
				fs[r.Intn(len(fs))].Number = fs[r.Intn(len(fs))].Number
				return "field-number-copy"
			}
		case 2:
			if len(fs) > 0 {
				fs[r.Intn(len(fs))].Label = int32(r.Intn(5))
				return "field-label"
			}
		case 3:
			if len(fs) > 0 {
				fs[r.Intn(len(fs))].Type = int32(1 + r.Intn(19))
				return "field-type"
			}
		case 4:
			if len(fs) > 1 {
				f, g := fs[r.Intn(len(fs))], fs[r.Intn(len(fs))]
				f.TypeName, f.HasTypeName = g.TypeName, g.HasTypeName
				return "field-typename-copy"
			}
		case 5:
			if len(fs) > 1 {
				fs[r.Intn(len(fs))].Name = fs[r.Intn(len(fs))].Name
				return "field-name-copy"
			}
		case 6:
			if len(fs) > 0 {
				f := fs[r.Intn(len(fs))]
				f.OneofIndex = i32p(int32(r.Intn(4)) - 1)
				return "field-oneof-index"
			}
		case 7:
			if len(fs) > 0 {
				fs[r.Intn(len(fs))].OneofIndex = nil
				return "field-oneof-clear"
			}
		case 8:
			if len(fs) > 0 {
				f := fs[r.Intn(len(fs))]
				f.P3Opt = !f.P3Opt
				return "field-proto3-optional"
			}
		case 9:
			if len(fs) > 0 {
				fs[r.Intn(len(fs))].Packed = int32(r.Intn(3))
				return "field-packed"
			}
		case 10:
			if len(fs) > 0 {
				f := fs[r.Intn(len(fs))]
				f.Default = strp([]string{"0", "1", "true", "x", "-1", "1.5", "inf"}[r.Intn(7)])
				return "field-default"
			}
		case 11:
			if len(fs) > 0 {
				f := fs[r.Intn(len(fs))]
				f.Feat = &AFeat{FP: int32(r.Intn(4)), ET: int32(r.Intn(3)), RFE: int32(r.Intn(3)), ME: int32(r.Intn(3))}
				return "field-features"
			}
		case 12:
			if len(ms) > 0 {
				m := ms[r.Intn(len(ms))]
				m.ExtRanges = append(m.ExtRanges, ARange{oddNumbers[r.Intn(len(oddNumbers))], oddNumbers[r.Intn(len(oddNumbers))]})
				return "msg-extension-range"
			}
		case 13:
			if len(ms) > 0 {
				m := ms[r.Intn(len(ms))]
				m.ResRanges = append(m.ResRanges, ARange{oddNumbers[r.Intn(len(oddNumbers))], oddNumbers[r.Intn(len(oddNumbers))]})
				return "msg-reserved-range"
			}
		case 14:
			if len(ms) > 0 && len(fs) > 0 {
				m := ms[r.Intn(len(ms))]
				m.ResNames = append(m.ResNames, fs[r.Intn(len(fs))].Name)
				return "msg-reserved-name"
			}
		case 15:
			if len(ms) > 0 {
				m := ms[r.Intn(len(ms))]
				m.MapEntry = !m.MapEntry
				return "msg-map-entry"
			}
		case 16:
			if len(ms) > 0 {
				m := ms[r.Intn(len(ms))]
				m.MessageSet = !m.MessageSet
				return "msg-message-set"
			}
		case 17:
			if len(ms) > 1 {
				ms[r.Intn(len(ms))].Name = ms[r.Intn(len(ms))].Name
				return "msg-name-copy"
			}
		case 18:
			if len(ms) > 0 {
				m := ms[r.Intn(len(ms))]
				if len(m.Fields) > 1 {
					i, j := r.Intn(len(m.Fields)), r.Intn(len(m.Fields))
					m.Fields[i], m.Fields[j] = m.Fields[j], m.Fields[i]
					return "msg-swap-fields"
				}
			}
		case 19:
			if len(ms) > 0 {
				m := ms[r.Intn(len(ms))]
				if len(m.Fields) > 0 {
					i := r.Intn(len(m.Fields))
					m.Fields = append(m.Fields[:i:i], m.Fields[i+1:]...)
					return "msg-drop-field"
				}
			}
		case 20:
			if len(es) > 0 {
				e := es[r.Intn(len(es))]
				if len(e.Values) > 0 {
					e.Values[r.Intn(len(e.Values))].Number = int32(r.Intn(5)) - 1
					return "enum-value-number"
				}
			}
		case 21:
			if len(es) > 0 {
				e := es[r.Intn(len(es))]
				e.AllowAlias = int32(r.Intn(3))
				return "enum-allow-alias"
			}
		case 22:
			if len(es) > 0 {
				e := es[r.Intn(len(es))]
				e.ResRanges = append(e.ResRanges, ARange{int32(r.Intn(8)) - 2, int32(r.Intn(8)) - 2})
				return "enum-reserved-range"
			}
		case 23:
			switch r.Intn(4) {
			case 0:
				a.Syntax = []string{"", "proto2", "proto3", "editions", "bogus"}[r.Intn(5)]
				return "file-syntax"
			case 1:
				a.Edition, a.HasEdition = []int32{998, 999, 1000, 1001, 1002, 9999, 5}[r.Intn(7)], true
				return "file-edition"
			case 2:
				a.Feat = &AFeat{FP: int32(r.Intn(4)), ET: int32(r.Intn(3)), ME: int32(r.Intn(3)), RFE: int32(r.Intn(3))}
				return "file-features"
			case 3:
				if len(es) > 0 {
					es[r.Intn(len(es))].Feat = &AFeat{ET: int32(1 + r.Intn(2))}
					return "enum-features"
				}
			}
		}
	}
	return "none"
}

// ---------- raw protoreflect mutation ----------

func rawMutate(r *rand.Rand, m protoreflect.Message, depth int) {
	fds := m.Descriptor().Fields()
	fd := fds.Get(r.Intn(fds.Len()))
	// descend into populated sub-messages most of the time
	if fd.Message() != nil && !fd.IsMap() && depth < 6 && r.Intn(4) != 0 {
		if fd.IsList() {
			l := m.Mutable(fd).List()
			switch {
			case l.Len() > 0 && r.Intn(5) != 0:
				rawMutate(r, l.Get(r.Intn(l.Len())).Message(), depth+1)
			case r.Intn(2) == 0:
				e := l.NewElement()
				rawMutate(r, e.Message(), depth+1)
				l.Append(e)
			case l.Len() > 0:
				l.Truncate(l.Len() - 1)
			}
			return
		}
		rawMutate(r, m.Mutable(fd).Message(), depth+1)
		return
	}
	if r.Intn(6) == 0 {
		m.Clear(fd)
		return
	}
	val := func() protoreflect.Value {
		switch fd.Kind() {
		case protoreflect.BoolKind:
			return protoreflect.ValueOfBool(r.Intn(2) == 0)
		case protoreflect.EnumKind:
			return protoreflect.ValueOfEnum(protoreflect.EnumNumber([]int32{0, 1, 2, 3, 10, 11, 14, 18, 19, 998, 999, 1000, 1001, 1002, 9999, -1, math.MaxInt32}[r.Intn(17)]))
		case protoreflect.Int32Kind:
			return protoreflect.ValueOfInt32(oddNumbers[r.Intn(len(oddNumbers))])
		case protoreflect.Int64Kind:
			return protoreflect.ValueOfInt64(int64(oddNumbers[r.Intn(len(oddNumbers))]))
		case protoreflect.Uint64Kind:
			return protoreflect.ValueOfUint64(uint64(r.Intn(100)))
		case protoreflect.DoubleKind:
			return protoreflect.ValueOfFloat64(r.NormFloat64())
		case protoreflect.StringKind:
			return protoreflect.ValueOfString([]string{"", "a", "A", ".", ".a", "a.b", ".a.b", "a..b", "x_y", "1", "key", "value", "proto2", "proto3", "editions", "M1", ".google.protobuf.FieldOptions", "cmd/protoc-gen-go/testdata/x.proto", "\xff", "inf", "-0", "0x10"}[r.Intn(22)])
		case protoreflect.BytesKind:
			return protoreflect.ValueOfBytes([]byte{byte(r.Intn(256))})
		}
		return protoreflect.Value{}
	}
	v := val()
	if !v.IsValid() {
		return
	}
	switch {
	case fd.IsList():
		l := m.Mutable(fd).List()
		if l.Len() > 0 && r.Intn(2) == 0 {
			l.Set(r.Intn(l.Len()), v)
		} else {
			l.Append(v)
		}
	case fd.IsMap():
	default:
		m.Set(fd, v)
	}
}

// ---------- witnesses ----------

func witnessesC35(c *C) {
	// finding 13: [packed = true] on a repeated string / on a singular field
	for _, syn := range []string{"proto2", "proto3"} {
		a := &AFile{Path: "w/packed.proto", Pkg: "w", Syntax: syn}
		f := fld1("s", 1, 3, 9)
		f.Packed = 2
		g := fld1("i", 2, 1, 5)
		g.Packed = 2
		fresh(a, "M").Fields = []*AField{f, g}
		verdictCase(c, a, "witness:packed-on-unpackable/"+syn, "notPackable")
	}
	// finding 14: two extensions of one extendee with the same number in one file
	{
		a := &AFile{Path: "w/dupext.proto", Pkg: "w", Syntax: "proto2"}
		fresh(a, "M").ExtRanges = []ARange{{100, 200}}
		for _, n := range []string{"a", "b"} {
			x := fld1(n, 100, 1, 5)
			x.Extendee, x.HasExtendee = ".w.M", true
			a.Exts = append(a.Exts, x)
		}
		verdictCase(c, a, "witness:dup-extension-number", "reject")
	}
	// new: the cmd/protoc-gen-go/testdata/ escape hatch lets unknown editions reach toEditionProto's panic
	for _, ed := range []int32{1, 900, 1002, 99999} {
		a := &AFile{Path: "cmd/protoc-gen-go/testdata/w.proto", Pkg: "w", Syntax: "editions", Edition: ed, HasEdition: true}
		verdictCase(c, a, "witness:testdata-path-edition", "reject")
	}
	exitProbe(c)
}

// exitProbe: edition UNKNOWN (field absent) under the testdata prefix reaches os.Exit(1) inside getFeatureSetFor;
// run in a child process.
func exitProbe(c *C) {
	exe, err := os.Executable()
	if err != nil {
		return
	}
	cmd := exec.Command(exe)
	cmd.Env = append(os.Environ(), "VERIF_DESC_EXITPROBE=1")
	out, err := cmd.CombinedOutput()
	c.Case("exitprobe", true)
	in := replayIn{Kind: "aschema", Note: "witness:testdata-path-edition-unknown (child process)"}
	ok := err == nil && strings.Contains(string(out), "returned")
	chk(c, ok, fmt.Sprintf("protodesc.NewFile terminates the process (os.Exit) for syntax=editions without an edition under cmd/protoc-gen-go/testdata/: child says %q err=%v", strings.TrimSpace(string(out)), err), in, sigEditionPanic)
}

func exitProbeChild() {
	p := &descriptorpb.FileDescriptorProto{Name: proto.String("cmd/protoc-gen-go/testdata/w.proto"), Syntax: proto.String("editions")}
	defer func() {
		if e := recover(); e != nil {
			fmt.Println("returned (panic)", e)
		}
	}()
	_, err := protodesc.NewFile(p, nil) // the real call: the in-process wrapper refuses this input
	fmt.Println("returned", err)
}
