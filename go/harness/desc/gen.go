package main

// Random VALID schema generator (proto2 / proto3 / editions 2023+2024): nested types, maps, groups /
// delimited fields, real and synthetic oneofs, extension ranges and extensions (file level and nested,
// MessageSet under protolegacy), services, reserved ranges and names, defaults of every kind, custom JSON
// names, options, source locations, imports, and - for editions - feature overrides at file / message /
// field / enum / oneof level.  Everything derives from the *rand.Rand handed in.

import (
	"fmt"
	"math"
	"math/rand"
	"strings"

	"google.golang.org/protobuf/internal/encoding/defval"
	"google.golang.org/protobuf/internal/flags"
	"google.golang.org/protobuf/internal/strs"
	"google.golang.org/protobuf/reflect/protoreflect"
)

// spec-level resolved features (generator's own bookkeeping; descriptorpb enum numbers)
type rfeat struct{ FP, ET, RFE, UTF8, ME, JF int32 }

func specDefaults(syntax string) rfeat {
	switch syntax {
	case "proto3":
		return rfeat{FP: 2, ET: 1, RFE: 1, UTF8: 2, ME: 1, JF: 1}
	case "editions":
		return rfeat{FP: 1, ET: 1, RFE: 1, UTF8: 2, ME: 1, JF: 1}
	}
	return rfeat{FP: 1, ET: 2, RFE: 2, UTF8: 3, ME: 1, JF: 2}
}

func (r rfeat) over(f *AFeat) rfeat {
	if f == nil {
		return r
	}
	if f.FP != 0 {
		r.FP = f.FP
	}
	if f.ET != 0 {
		r.ET = f.ET
	}
	if f.RFE != 0 {
		r.RFE = f.RFE
	}
	if f.UTF8 != 0 {
		r.UTF8 = f.UTF8
	}
	if f.ME != 0 {
		r.ME = f.ME
	}
	if f.JF != 0 {
		r.JF = f.JF
	}
	return r
}

type gMsg struct {
	full  string
	scope string
	m     *AMsg
	feat  rfeat
	depth int
}
type gEnum struct {
	full   string
	e      *AEnum
	closed bool
}

type genOpts struct {
	Syntax     string // "" = random
	AnyTarget  bool   // features also on targets protoc would refuse (C38 stream)
	NoImports  bool
	Small      bool
	NoMsgSet   bool
	ForModel   bool // stay inside the vocabulary of the Lean validation model (no relative names, no imports but descriptor.proto)
	PathPrefix string
}

type gen struct {
	r     *rand.Rand
	o     genOpts
	f     *AFile
	ff    rfeat
	msgs  []*gMsg
	enums []*gEnum
	ed    bool
	n     int
}

func (g *gen) chance(p float64) bool { return g.r.Float64() < p }
func (g *gen) pick(n int) int        { return g.r.Intn(n) }

var scalarTypes = []int32{1, 2, 3, 4, 5, 6, 7, 8, 9, 12, 13, 15, 16, 17, 18}

func (g *gen) featFor(target string) *AFeat {
	if !g.ed {
		return nil
	}
	p := 0.25
	if g.o.AnyTarget {
		p = 0.5
	}
	if !g.chance(p) {
		return nil
	}
	f := &AFeat{}
	allow := func(t string) bool { return g.o.AnyTarget || strings.Contains(t, target) }
	if allow("file field") && g.chance(0.5) {
		f.FP = int32(1 + g.pick(2)) // EXPLICIT / IMPLICIT (LEGACY_REQUIRED handled per field)
	}
	if allow("file enum") && g.chance(0.4) {
		f.ET = int32(1 + g.pick(2))
	}
	if allow("file field") && g.chance(0.4) {
		f.RFE = int32(1 + g.pick(2))
	}
	if allow("file field") && g.chance(0.4) {
		f.UTF8 = int32(2 + g.pick(2))
	}
	if allow("file field") && g.chance(0.3) {
		f.ME = int32(1 + g.pick(2))
	}
	if allow("file message enum") && g.chance(0.3) {
		f.JF = int32(1 + g.pick(2))
	}
	if g.f.Edition >= 1001 && allow("file") && g.chance(0.2) {
		f.ENS = int32(1 + g.pick(2))
	}
	if g.f.Edition >= 1001 && allow("file") && g.chance(0.2) {
		f.DSV = int32(1 + g.pick(4))
	}
	if allow("file enum") && g.chance(0.2) {
		f.GoLegacyJSON = int32(1 + g.pick(2))
	}
	if allow("file message") && g.chance(0.25) {
		f.GoAPI = int32(1 + g.pick(4))
	}
	if allow("file enum") && g.chance(0.2) {
		f.GoStrip = int32(1 + g.pick(4))
	}
	if *f == (AFeat{}) {
		return nil
	}
	return f
}

func genFile(r *rand.Rand, o genOpts, id int) *AFile {
	g := &gen{r: r, o: o}
	f := &AFile{}
	g.f = f
	syn := o.Syntax
	if syn == "" {
		syn = []string{"proto2", "proto3", "editions", "editions", ""}[g.pick(5)]
	}
	f.Syntax = syn
	if syn == "editions" {
		g.ed = true
		f.HasEdition = true
		f.Edition = []int32{1000, 1000, 1001}[g.pick(3)]
	}
	f.Path = fmt.Sprintf("%sgen/f%d_%d.proto", o.PathPrefix, id, g.pick(1000))
	if !g.chance(0.1) {
		f.Pkg = fmt.Sprintf("vg%d", id)
		if g.chance(0.3) {
			f.Pkg += ".sub"
		}
	}
	g.ff = specDefaults(syn)
	if g.ed {
		f.Feat = g.featFor("file")
		g.ff = g.ff.over(f.Feat)
	}
	if g.chance(0.3) {
		f.JavaPkg = "com.example.gen"
	}
	f.Deprecated = g.chance(0.1)

	// imports
	useTS := !o.NoImports && !o.ForModel && g.chance(0.3)
	if useTS {
		f.Deps = append(f.Deps, "google/protobuf/timestamp.proto")
		if g.chance(0.3) {
			f.PublicDeps = append(f.PublicDeps, int32(len(f.Deps)-1))
		}
	}
	needDesc := syn == "proto3" // proto3 extensions may only extend descriptor options
	if needDesc && g.chance(0.6) || (!o.NoImports && g.chance(0.15)) {
		f.Deps = append(f.Deps, "google/protobuf/descriptor.proto")
	}

	// skeleton
	nm := 1 + g.pick(4)
	if o.Small {
		nm = 1 + g.pick(2)
	}
	for i := 0; i < nm; i++ {
		f.Msgs = append(f.Msgs, g.skeleton(f.Pkg, g.ff, 0))
	}
	ne := g.pick(3)
	for i := 0; i < ne; i++ {
		f.Enums = append(f.Enums, g.genEnum(f.Pkg, g.ff))
	}
	// fill (iterate over a snapshot: filling appends map-entry / group messages)
	for _, gm := range append([]*gMsg(nil), g.msgs...) {
		g.fill(gm, useTS)
	}
	// extensions
	g.genExtensions(f.Pkg, &f.Exts, g.ff)
	for _, gm := range append([]*gMsg(nil), g.msgs...) {
		if !gm.m.MapEntry && g.chance(0.2) {
			g.genExtensions(gm.full, &gm.m.Exts, gm.feat)
		}
	}
	// services
	if g.chance(0.35) && len(g.msgs) > 0 {
		ns := 1 + g.pick(2)
		for i := 0; i < ns; i++ {
			s := &ASvc{Name: fmt.Sprintf("Svc%d", g.next()), Deprecated: g.chance(0.2)}
			for j, k := 0, g.pick(4); j < k; j++ {
				in, out := g.anyMsgRef(useTS), g.anyMsgRef(useTS)
				s.Methods = append(s.Methods, &AMethod{Name: fmt.Sprintf("Do%d", j), In: in, Out: out, CStream: g.chance(0.3), SStream: g.chance(0.3), Deprecated: g.chance(0.2)})
			}
			f.Svcs = append(f.Svcs, s)
		}
	}
	// source locations
	if g.chance(0.4) {
		f.Locs = append(f.Locs, ALoc{Path: []int32{4, 0}, Span: []int32{1, 0, 3, 1}, Lead: " leading\n", Trail: " trailing\n", Detached: []string{" d1\n", " d2\n"}})
		f.Locs = append(f.Locs, ALoc{Path: []int32{4, 0, 1}, Span: []int32{1, 8, 10}})
		if g.chance(0.5) {
			f.Locs = append(f.Locs, ALoc{Path: []int32{4, 0}, Span: []int32{7, 0, 9}}) // duplicate path
		}
		if g.chance(0.5) {
			f.Locs = append(f.Locs, ALoc{Path: []int32{}, Span: []int32{0, 0, 100, 0}})
		}
	}
	return f
}

func (g *gen) next() int { g.n++; return g.n }

func (g *gen) skeleton(scope string, pf rfeat, depth int) *AMsg {
	m := &AMsg{Name: fmt.Sprintf("M%d", g.next()), Deprecated: g.chance(0.1)}
	m.Feat = g.featFor("message")
	if m.Feat != nil && !g.o.AnyTarget {
		// only json_format / go api_level are valid on messages
		m.Feat = &AFeat{JF: m.Feat.JF, GoAPI: m.Feat.GoAPI}
		if *m.Feat == (AFeat{}) {
			m.Feat = nil
		}
	}
	if g.ed && g.f.Edition >= 1001 && g.chance(0.15) {
		m.Visibility = int32(1 + g.pick(2))
	}
	gm := &gMsg{full: join(scope, m.Name), scope: scope, m: m, feat: pf.over(m.Feat), depth: depth}
	g.msgs = append(g.msgs, gm)
	if depth < 2 {
		for i, k := 0, g.pick(3); i < k && !g.o.Small; i++ {
			m.Nested = append(m.Nested, g.skeleton(gm.full, gm.feat, depth+1))
		}
	}
	for i, k := 0, g.pick(2); i < k; i++ {
		m.Enums = append(m.Enums, g.genEnum(gm.full, gm.feat))
	}
	return m
}

func (g *gen) genEnum(scope string, pf rfeat) *AEnum {
	e := &AEnum{Name: fmt.Sprintf("E%d", g.next()), Deprecated: g.chance(0.1)}
	e.Feat = g.featFor("enum")
	if e.Feat != nil && !g.o.AnyTarget {
		e.Feat = &AFeat{ET: e.Feat.ET, JF: e.Feat.JF, GoLegacyJSON: e.Feat.GoLegacyJSON, GoStrip: e.Feat.GoStrip}
		if *e.Feat == (AFeat{}) {
			e.Feat = nil
		}
	}
	ef := pf.over(e.Feat)
	closed := ef.ET == 2
	n := 1 + g.pick(4)
	used := map[int32]bool{}
	for i := 0; i < n; i++ {
		var num int32
		switch {
		case i == 0 && (!closed || g.chance(0.5)):
			num = 0
		default:
			for {
				num = int32(g.pick(12)) - 3
				if g.chance(0.1) {
					num = []int32{math.MaxInt32, math.MinInt32, 1 << 20}[g.pick(3)]
				}
				if !used[num] {
					break
				}
			}
		}
		used[num] = true
		e.Values = append(e.Values, &AEnumValue{Name: fmt.Sprintf("%s_V%d", strings.ToUpper(e.Name), i), Number: num, HasNumber: true, Deprecated: g.chance(0.1)})
	}
	if n >= 2 && g.chance(0.2) {
		// alias of the last value
		e.AllowAlias = 2
		e.Values = append(e.Values, &AEnumValue{Name: fmt.Sprintf("%s_ALIAS", strings.ToUpper(e.Name)), Number: e.Values[n-1].Number, HasNumber: true})
	}
	if g.chance(0.3) {
		// reserved ranges (inclusive) away from used numbers
		lo := int32(100 + g.pick(50))
		e.ResRanges = append(e.ResRanges, ARange{lo, lo + int32(g.pick(3))})
		if g.chance(0.5) {
			e.ResRanges = append(e.ResRanges, ARange{lo - 50, lo - 50})
		}
		if g.chance(0.3) {
			e.ResRanges = append(e.ResRanges, ARange{-1000, -900})
		}
	}
	if g.chance(0.2) {
		e.ResNames = append(e.ResNames, "RES_A", "RES_B")
	}
	if g.ed && g.f.Edition >= 1001 && g.chance(0.15) {
		e.Visibility = int32(1 + g.pick(2))
	}
	g.enums = append(g.enums, &gEnum{full: join(scope, e.Name), e: e, closed: closed})
	return e
}

var fieldNumberPool = []int32{1, 2, 3, 4, 5, 6, 7, 8, 9, 10, 11, 12, 15, 16, 17, 100, 1000, 18999, 20000, 65535, 536870911}

func (g *gen) freshNumber(used map[int32]bool, lo, hi int32) int32 {
	for i := 0; i < 1000; i++ {
		var n int32
		if hi-lo > 40 && g.chance(0.7) {
			n = fieldNumberPool[g.pick(len(fieldNumberPool))]
		} else {
			n = lo + int32(g.r.Int63n(int64(hi)-int64(lo)+1))
		}
		if n < lo || n > hi || used[n] || (n >= 19000 && n <= 19999) {
			continue
		}
		used[n] = true
		return n
	}
	panic("no free field number")
}

func (g *gen) anyMsgRef(ts bool) string {
	if ts && g.chance(0.2) {
		return ".google.protobuf.Timestamp"
	}
	var cands []*gMsg
	for _, m := range g.msgs {
		if !m.m.MapEntry {
			cands = append(cands, m)
		}
	}
	return "." + cands[g.pick(len(cands))].full
}

func camelJSON(s string) *string { v := strs.JSONCamelCase(s); return &v }

// fill populates the fields of one message.
func (g *gen) fill(gm *gMsg, ts bool) {
	m := gm.m
	used := map[int32]bool{}
	proto3 := g.f.Syntax == "proto3"
	proto2 := g.f.Syntax == "proto2" || g.f.Syntax == ""

	// MessageSet (proto2 only, needs protolegacy)
	if proto2 && flags.ProtoLegacy && !g.o.NoMsgSet && len(m.Nested) == 0 && g.chance(0.06) {
		m.MessageSet = true
		m.ExtRanges = append(m.ExtRanges, ARange{4, math.MaxInt32})
		if g.chance(0.5) {
			m.ExtRanges = []ARange{{4, 536870912}, {536870912, math.MaxInt32}}
			m.ExtRangeOpts = []int32{int32(g.pick(5)), int32(g.pick(3))}
		}
		return
	}

	// extension ranges / reserved first so that field numbers avoid them
	lo, hi := int32(1), int32(536870911)
	var blocked []ARange
	if !proto3 && g.chance(0.4) {
		// 1..5 extension ranges in random declaration order, each with its own (or no) ExtensionRangeOptions
		pool := []ARange{{200, 300}, {400, 401}, {500, 600}, {700, 800}, {100000, 536870912}}
		g.r.Shuffle(len(pool), func(i, j int) { pool[i], pool[j] = pool[j], pool[i] })
		k := 1 + g.pick(len(pool))
		if g.chance(0.4) {
			k = 1 + g.pick(2)
		}
		for _, xr := range pool[:k] {
			m.ExtRanges = append(m.ExtRanges, xr)
			blocked = append(blocked, xr)
			v := int32(0)
			if g.chance(0.5) {
				v = int32(1 + g.pick(5))
				if v == 5 && !g.ed {
					v = 2
				}
			}
			m.ExtRangeOpts = append(m.ExtRangeOpts, v)
		}
	}
	if g.chance(0.3) {
		m.ResRanges = append(m.ResRanges, ARange{50, 60})
		blocked = append(blocked, ARange{50, 60})
		if g.chance(0.4) {
			m.ResRanges = append(m.ResRanges, ARange{19000, 20000}, ARange{30, 31})
			blocked = append(blocked, ARange{30, 31})
		}
	}
	if g.chance(0.25) {
		m.ResNames = append(m.ResNames, "old_name", "older_name")
	}
	for _, b := range blocked {
		for n := b.Start; n < b.End && n < b.Start+200; n++ {
			used[n] = true
		}
	}
	inBlocked := func(n int32) bool {
		for _, b := range blocked {
			if b.Start <= n && n < b.End {
				return true
			}
		}
		return false
	}
	num := func() int32 {
		for {
			n := g.freshNumber(used, lo, hi)
			if !inBlocked(n) {
				return n
			}
		}
	}

	nf := g.pick(7)
	if g.o.Small {
		nf = g.pick(4)
	}
	mk := func(name string) *AField {
		f := &AField{Name: name, Number: num(), HasNumber: true, Label: 1}
		if !g.chance(0.15) {
			f.JSONName = camelJSON(name)
			if g.chance(0.15) {
				s := "custom_" + name
				f.JSONName = &s
			}
		}
		f.Deprecated = g.chance(0.05)
		return f
	}
	// plain fields
	for i := 0; i < nf; i++ {
		name := fmt.Sprintf("f_%d", g.next())
		if g.chance(0.2) {
			name = fmt.Sprintf("fooBar%d", g.next())
		}
		f := mk(name)
		g.plainField(gm, f, ts, false)
		m.Fields = append(m.Fields, f)
	}
	// real oneofs (consecutive members)
	for i, k := 0, g.pick(3); i < k; i++ {
		o := &AOneof{Name: fmt.Sprintf("o_%d", g.next())}
		if g.o.AnyTarget {
			o.Feat = g.featFor("oneof")
		}
		if o.Feat == nil && g.chance(0.3) {
			o.Opts = int32(1 + g.pick(2))
		}
		oi := int32(len(m.Oneofs))
		m.Oneofs = append(m.Oneofs, o)
		for j, nmem := 0, 1+g.pick(3); j < nmem; j++ {
			f := mk(fmt.Sprintf("om_%d", g.next()))
			f.OneofIndex = &oi
			g.plainField(gm, f, ts, true)
			m.Fields = append(m.Fields, f)
		}
	}
	// more plain fields after the oneofs
	for i, k := 0, g.pick(3); i < k; i++ {
		f := mk(fmt.Sprintf("g_%d", g.next()))
		g.plainField(gm, f, ts, false)
		m.Fields = append(m.Fields, f)
	}
	// maps
	for i, k := 0, g.pick(3); i < k && !g.o.Small; i++ {
		f := mk(fmt.Sprintf("map_%d", g.next()))
		g.mapField(gm, f, ts)
		m.Fields = append(m.Fields, f)
	}
	// groups (proto2) / delimited (editions, field-level)
	if proto2 && g.chance(0.3) {
		gn := fmt.Sprintf("Grp%d", g.next())
		sub := &AMsg{Name: gn}
		m.Nested = append(m.Nested, sub)
		sgm := &gMsg{full: join(gm.full, gn), scope: gm.full, m: sub, feat: gm.feat, depth: gm.depth + 1}
		g.msgs = append(g.msgs, sgm)
		sub.Fields = append(sub.Fields, &AField{Name: "a", Number: 1, HasNumber: true, Label: 1, Type: 5, JSONName: camelJSON("a")})
		f := mk(strings.ToLower(gn))
		f.JSONName = camelJSON(f.Name)
		f.Type = 10
		f.TypeName, f.HasTypeName = "."+sgm.full, true
		f.Label = []int32{1, 2, 3}[g.pick(3)]
		m.Fields = append(m.Fields, f)
	}
	// proto3 optional fields with synthetic oneofs (after the real oneofs)
	if proto3 {
		for _, f := range m.Fields {
			if f.OneofIndex == nil && f.Label == 1 && f.P3Opt {
				oi := int32(len(m.Oneofs))
				m.Oneofs = append(m.Oneofs, &AOneof{Name: "_" + f.Name})
				f.OneofIndex = &oi
			}
		}
	}
}

// plainField chooses type, label, default, packed, features.
func (g *gen) plainField(gm *gMsg, f *AField, ts bool, inOneof bool) {
	proto3 := g.f.Syntax == "proto3"
	proto2 := g.f.Syntax == "proto2" || g.f.Syntax == ""
	ff := gm.feat
	// kind
	switch k := g.pick(10); {
	case k < 6:
		f.Type = scalarTypes[g.pick(len(scalarTypes))]
	case k < 8 && len(g.enums) > 0:
		f.Type = 14
	default:
		f.Type = 11
	}
	// label
	if !inOneof {
		switch k := g.pick(10); {
		case k < 3:
			f.Label = 3
		case k < 4 && proto2:
			f.Label = 2
		}
	}
	// field-level features (editions)
	if g.ed {
		f.Feat = g.featFor("field")
		if f.Feat != nil && !g.o.AnyTarget {
			f.Feat = &AFeat{FP: f.Feat.FP, RFE: f.Feat.RFE, UTF8: f.Feat.UTF8, ME: f.Feat.ME}
			if f.Label == 3 || inOneof || f.Type == 11 {
				f.Feat.FP = 0 // presence cannot be set on repeated fields, oneof members; IMPLICIT not on messages
			}
			if f.Label != 3 || f.Type == 9 || f.Type == 12 || f.Type == 11 || f.Type == 10 {
				f.Feat.RFE = 0
			}
			if f.Type != 9 {
				f.Feat.UTF8 = 0
			}
			if f.Type != 11 {
				f.Feat.ME = 0
			}
			if f.Label == 1 && !inOneof && f.Type != 11 && g.chance(0.08) {
				f.Feat.FP = 3 // LEGACY_REQUIRED
			}
			if *f.Feat == (AFeat{}) {
				f.Feat = nil
			}
		}
		ff = ff.over(f.Feat)
	}
	implicit := f.Label == 1 && !inOneof && f.Type != 11 && ((proto3 && !f.P3Opt) || (g.ed && ff.FP == 2))
	if proto3 && f.Label == 1 && !inOneof && g.chance(0.3) {
		f.P3Opt = true
		implicit = false
	}
	// target
	switch f.Type {
	case 14:
		var cands []*gEnum
		for _, e := range g.enums {
			if e.closed && (proto3 || implicit) {
				continue // proto3 / implicit-presence fields may only use open enums
			}
			cands = append(cands, e)
		}
		if len(cands) == 0 {
			f.Type = 5
		} else {
			e := cands[g.pick(len(cands))]
			f.TypeName, f.HasTypeName = "."+e.full, true
			if !g.o.ForModel && g.chance(0.1) {
				f.Type = 0 // unspecified kind, resolved through the name
			}
			if (proto2 || (g.ed && !implicit)) && f.Label != 3 && g.chance(0.4) {
				v := e.e.Values[g.pick(len(e.e.Values))]
				s := v.Name
				f.Default, f.DefClass = &s, "enum:"+s
			}
		}
	case 11:
		f.TypeName, f.HasTypeName = g.anyMsgRef(ts), true
		if !g.o.ForModel && g.chance(0.1) {
			f.Type = 0
		}
		if g.chance(0.15) {
			f.Lazy = true
		}
	}
	// packed option (proto2 / proto3 only; editions use the feature)
	packable := f.Label == 3 && f.Type != 9 && f.Type != 12 && f.Type != 11 && f.Type != 10 && f.Type != 0
	if packable && !g.ed && g.chance(0.5) {
		f.Packed = int32(1 + g.pick(2))
	}
	// defaults
	scalar := f.Type != 11 && f.Type != 10 && f.Type != 14 && f.Type != 0
	if scalar && f.Label != 3 && !implicit && !proto3 && g.chance(0.4) {
		s := g.defaultLiteral(protoreflect.Kind(f.Type))
		f.Default, f.DefClass = &s, "ok"
	}
	if g.chance(0.05) && f.Feat == nil && f.Packed == 0 && !f.Lazy && !f.Deprecated {
		f.EmptyOpts = true
	}
}

func (g *gen) defaultLiteral(k protoreflect.Kind) string {
	var v protoreflect.Value
	r := g.r
	switch k {
	case protoreflect.BoolKind:
		v = protoreflect.ValueOfBool(r.Intn(2) == 0)
	case protoreflect.Int32Kind, protoreflect.Sint32Kind, protoreflect.Sfixed32Kind:
		v = protoreflect.ValueOfInt32([]int32{0, 1, -1, math.MaxInt32, math.MinInt32, int32(r.Uint32())}[r.Intn(6)])
	case protoreflect.Int64Kind, protoreflect.Sint64Kind, protoreflect.Sfixed64Kind:
		v = protoreflect.ValueOfInt64([]int64{0, 1, -1, math.MaxInt64, math.MinInt64, int64(r.Uint64())}[r.Intn(6)])
	case protoreflect.Uint32Kind, protoreflect.Fixed32Kind:
		v = protoreflect.ValueOfUint32([]uint32{0, 1, math.MaxUint32, r.Uint32()}[r.Intn(4)])
	case protoreflect.Uint64Kind, protoreflect.Fixed64Kind:
		v = protoreflect.ValueOfUint64([]uint64{0, 1, math.MaxUint64, r.Uint64()}[r.Intn(4)])
	case protoreflect.FloatKind:
		v = protoreflect.ValueOfFloat32([]float32{0, 1.5, -2.25, float32(math.Inf(1)), float32(math.Inf(-1)), float32(math.NaN()), math.MaxFloat32, math.SmallestNonzeroFloat32, float32(r.NormFloat64())}[r.Intn(9)])
	case protoreflect.DoubleKind:
		v = protoreflect.ValueOfFloat64([]float64{0, 1.5, -2.25, math.Inf(1), math.Inf(-1), math.NaN(), math.MaxFloat64, math.SmallestNonzeroFloat64, r.NormFloat64() * 1e10}[r.Intn(9)])
	case protoreflect.StringKind:
		v = protoreflect.ValueOfString([]string{"", "hello", "with \"quotes\" and \\ and \n newline", "ünicode 世界", "\x00\x01\x7f"}[r.Intn(5)])
	case protoreflect.BytesKind:
		b := make([]byte, r.Intn(6))
		r.Read(b)
		if r.Intn(3) == 0 {
			b = []byte("a\"b'c\\d\n\r\t\x00\xff?")
		}
		v = protoreflect.ValueOfBytes(b)
	default:
		panic("defaultLiteral: kind")
	}
	s, err := defval.Marshal(v, nil, k, defval.Descriptor)
	if err != nil {
		panic(err)
	}
	return s
}

var mapKeyTypes = []int32{3, 4, 5, 6, 7, 8, 9, 13, 15, 16, 17, 18}

func (g *gen) mapField(gm *gMsg, f *AField, ts bool) {
	entryName := strs.MapEntryName(f.Name)
	entry := &AMsg{Name: entryName, MapEntry: true}
	kf := &AField{Name: "key", Number: 1, HasNumber: true, Label: 1, Type: mapKeyTypes[g.pick(len(mapKeyTypes))], JSONName: camelJSON("key")}
	vf := &AField{Name: "value", Number: 2, HasNumber: true, Label: 1, JSONName: camelJSON("value")}
	switch k := g.pick(10); {
	case k < 5:
		vf.Type = scalarTypes[g.pick(len(scalarTypes))]
	case k < 7 && len(g.enums) > 0:
		var cands []*gEnum
		for _, e := range g.enums {
			// map values: first enum value must be zero; implicit presence (proto3 / inherited IMPLICIT) needs an open enum
			if e.e.Values[0].Number != 0 {
				continue
			}
			if e.closed && (g.f.Syntax == "proto3" || gm.feat.FP == 2) {
				continue
			}
			cands = append(cands, e)
		}
		if len(cands) == 0 {
			vf.Type = 5
		} else {
			vf.Type = 14
			vf.TypeName, vf.HasTypeName = "."+cands[g.pick(len(cands))].full, true
		}
	default:
		vf.Type = 11
		vf.TypeName, vf.HasTypeName = g.anyMsgRef(ts), true
	}
	entry.Fields = []*AField{kf, vf}
	gm.m.Nested = append(gm.m.Nested, entry)
	g.msgs = append(g.msgs, &gMsg{full: join(gm.full, entryName), scope: gm.full, m: entry, feat: gm.feat, depth: gm.depth + 1})
	f.Label = 3
	f.Type = 11
	f.TypeName, f.HasTypeName = "."+join(gm.full, entryName), true
}

var optionMsgs = []string{"FileOptions", "MessageOptions", "FieldOptions", "EnumOptions", "EnumValueOptions", "OneofOptions", "ServiceOptions", "MethodOptions", "ExtensionRangeOptions"}

func (g *gen) genExtensions(scope string, out *[]*AField, pf rfeat) {
	proto3 := g.f.Syntax == "proto3"
	hasDesc := false
	for _, d := range g.f.Deps {
		if d == "google/protobuf/descriptor.proto" {
			hasDesc = true
		}
	}
	type target struct {
		full   string
		ranges []ARange
		mset   bool
	}
	var targets []target
	if !proto3 {
		for _, m := range g.msgs {
			if len(m.m.ExtRanges) > 0 {
				targets = append(targets, target{m.full, m.m.ExtRanges, m.m.MessageSet})
			}
		}
	}
	if hasDesc {
		for _, o := range optionMsgs {
			targets = append(targets, target{"google.protobuf." + o, []ARange{{1000, 536870912}}, false})
		}
	}
	if len(targets) == 0 {
		return
	}
	used := map[string]bool{}
	for i, k := 0, g.pick(4); i < k; i++ {
		t := targets[g.pick(len(targets))]
		r := t.ranges[g.pick(len(t.ranges))]
		var n int32
		for tries := 0; ; tries++ {
			span := int64(r.End) - int64(r.Start)
			if span > 50 && g.chance(0.8) {
				span = 50
			}
			n = r.Start + int32(g.r.Int63n(span))
			if g.chance(0.15) {
				n = r.End - 1
			}
			if !t.mset && n > 536870911 {
				n = r.Start
			}
			key := fmt.Sprintf("%s#%d", t.full, n)
			if !used[key] && !(n >= 19000 && n <= 19999) {
				used[key] = true
				break
			}
			if tries > 100 {
				return
			}
		}
		x := &AField{Name: fmt.Sprintf("ext_%d", g.next()), Number: n, HasNumber: true, Label: 1, Extendee: "." + t.full, HasExtendee: true}
		if g.chance(0.3) {
			x.JSONName = camelJSON(x.Name) // older protoc populated it
		}
		if t.mset {
			x.Type = 11
			x.TypeName, x.HasTypeName = g.anyMsgRef(false), true
		} else {
			gm := &gMsg{full: scope, feat: pf}
			g.plainField(gm, x, false, false)
			if x.Label == 2 {
				x.Label = 1
			}
			x.P3Opt = false
			if x.Feat != nil {
				x.Feat.FP = 0
				if *x.Feat == (AFeat{}) {
					x.Feat = nil
				}
			}
			if proto3 {
				x.Default, x.DefClass = nil, ""
			}
		}
		*out = append(*out, x)
	}
}
