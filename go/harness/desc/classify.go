package main

// Classifier signatures for the findings on the unchanged tree (see /verif/known-findings.txt).
// A snapshot difference is a list of differing lines; EVERY differing line must be explained by the same
// finding for the failure to carry that finding's signature, otherwise the signature is "" (unclassified).

import (
	"fmt"
	"strings"

	"google.golang.org/protobuf/types/descriptorpb"
)

const (
	sigEnumFeatures    = "filedesc-ignores-enum-level-features"
	sigUntypedDelim    = "untyped-message-field-under-delimited-changes-kind"
	sigEditionsGroup   = "editions-type-group-without-feature-lost"
	sigEditionsReq     = "editions-label-required-without-feature-lost"
	sigPackedDead      = "packed-on-unpackable-accepted"
	sigDupExtension    = "duplicate-extension-number-accepted"
	sigPackedVsFeature = "packed-option-and-feature-order"
	sigLazyExtension   = "protodesc-ignores-lazy-on-extension"
	sigExtUTF8         = "editions-extension-utf8-validation-not-enforced"
)

type lineDiff struct {
	ctxKind, ctxName string
	toks            []string
	a, b            string
}

func declOf(ls []string, i int) (string, string) {
	for j := i; j >= 0; j-- {
		t := strings.TrimSpace(ls[j])
		for _, k := range []string{"field", "extension", "message", "enum", "oneof", "file", "value", "method", "service"} {
			if strings.HasPrefix(t, k+" ") {
				f := strings.Fields(t)
				if len(f) > 1 {
					return k, f[1]
				}
			}
		}
	}
	return "", ""
}

func lineDiffs(a, b string) (out []lineDiff, sameShape bool) {
	la, lb := strings.Split(a, "\n"), strings.Split(b, "\n")
	if len(la) != len(lb) {
		return nil, false
	}
	for i := range la {
		if la[i] == lb[i] {
			continue
		}
		ta, tb := strings.Fields(la[i]), strings.Fields(lb[i])
		d := lineDiff{a: strings.TrimSpace(la[i]), b: strings.TrimSpace(lb[i])}
		d.ctxKind, d.ctxName = declOf(la, i)
		if len(ta) != len(tb) {
			d.toks = []string{"<shape>"}
		} else {
			for j := range ta {
				if ta[j] != tb[j] {
					k := ta[j]
					if e := strings.IndexByte(k, '='); e >= 0 {
						k = k[:e]
					}
					d.toks = append(d.toks, k)
				}
			}
		}
		out = append(out, d)
	}
	return out, true
}

type declIndex struct {
	syntax string
	fields map[string]*descriptorpb.FieldDescriptorProto
	enums  map[string]*descriptorpb.EnumDescriptorProto
	msgs   map[string]*descriptorpb.DescriptorProto
}

func indexFDP(p *descriptorpb.FileDescriptorProto) *declIndex {
	ix := &declIndex{syntax: p.GetSyntax(), fields: map[string]*descriptorpb.FieldDescriptorProto{}, enums: map[string]*descriptorpb.EnumDescriptorProto{}, msgs: map[string]*descriptorpb.DescriptorProto{}}
	var msg func(scope string, m *descriptorpb.DescriptorProto)
	msg = func(scope string, m *descriptorpb.DescriptorProto) {
		full := join(scope, m.GetName())
		ix.msgs[full] = m
		for _, f := range m.Field {
			ix.fields[join(full, f.GetName())] = f
		}
		for _, f := range m.Extension {
			ix.fields[join(full, f.GetName())] = f
		}
		for _, e := range m.EnumType {
			ix.enums[join(full, e.GetName())] = e
		}
		for _, n := range m.NestedType {
			msg(full, n)
		}
	}
	for _, m := range p.MessageType {
		msg(p.GetPackage(), m)
	}
	for _, e := range p.EnumType {
		ix.enums[join(p.GetPackage(), e.GetName())] = e
	}
	for _, f := range p.Extension {
		ix.fields[join(p.GetPackage(), f.GetName())] = f
	}
	return ix
}

func onlyToks(d lineDiff, allowed ...string) bool {
	if len(d.toks) == 0 {
		return false
	}
	for _, t := range d.toks {
		ok := false
		for _, a := range allowed {
			if t == a {
				ok = true
			}
		}
		if !ok {
			return false
		}
	}
	return true
}

// classifyOne explains one differing line, or returns "".
func (ix *declIndex) classifyOne(d lineDiff) string {
	switch d.ctxKind {
	case "enum":
		if e := ix.enums[d.ctxName]; e != nil && onlyToks(d, "closed") && e.GetOptions().GetFeatures() != nil && e.GetOptions().GetFeatures().EnumType != nil {
			return sigEnumFeatures
		}
	case "field", "extension":
		f := ix.fields[d.ctxName]
		if f == nil {
			return ""
		}
		kindish := onlyToks(d, "kind", "text", "bytext", "lookups")
		switch {
		case kindish && f.Type == nil && f.TypeName != nil && ix.syntax == "editions":
			return sigUntypedDelim
		case kindish && f.GetType() == descriptorpb.FieldDescriptorProto_TYPE_GROUP && ix.syntax == "editions":
			return sigEditionsGroup
		case onlyToks(d, "cardinality", "presence") && f.GetLabel() == descriptorpb.FieldDescriptorProto_LABEL_REQUIRED && ix.syntax == "editions":
			return sigEditionsReq
		case onlyToks(d, "packed") && f.GetOptions() != nil && f.GetOptions().Packed != nil && f.GetOptions().GetFeatures() != nil && f.GetOptions().GetFeatures().RepeatedFieldEncoding != nil:
			return sigPackedVsFeature
		case onlyToks(d, "lazy") && f.Extendee != nil && f.GetOptions().GetLazy():
			return sigLazyExtension
		}
	case "message":
		if m := ix.msgs[d.ctxName]; m != nil && onlyToks(d, "required") && ix.syntax == "editions" {
			for _, f := range m.Field {
				if f.GetLabel() == descriptorpb.FieldDescriptorProto_LABEL_REQUIRED {
					return sigEditionsReq
				}
			}
		}
	}
	return ""
}

// classifySnapshots returns the finding signature explaining ALL differences between two snapshots, or "".
func classifySnapshots(p *descriptorpb.FileDescriptorProto, a, b string) string {
	ds, same := lineDiffs(a, b)
	if !same || len(ds) == 0 {
		return ""
	}
	ix := indexFDP(p)
	sig := ""
	for _, d := range ds {
		s := ix.classifyOne(d)
		if s == "" || (sig != "" && s != sig) {
			return ""
		}
		sig = s
	}
	return sig
}

// classifyProtoDiff explains a ToProto∘NewFile != normalize difference (first differing path), or "".
func classifyProtoDiff(p *descriptorpb.FileDescriptorProto, diff string) string {
	if p.GetSyntax() != "editions" {
		return ""
	}
	path := diff
	if i := strings.IndexByte(path, ' '); i > 0 {
		path = path[:i]
	}
	rest := strings.TrimSpace(strings.TrimPrefix(diff, path))
	switch {
	case strings.HasSuffix(path, ".type") && rest == "10 vs 11":
		return sigEditionsGroup
	case strings.HasSuffix(path, ".label") && rest == "2 vs 1":
		return sigEditionsReq
	}
	return ""
}

// chk is c.Check, except that failures carrying a finding signature are recorded at most twice per signature
// and run (further occurrences are only counted in the histogram), so that a frequent known finding does not
// exhaust the failure budget and hide anything else.
var sigSeen = map[string]int{}

func chk(c *C, ok bool, what string, input any, sig string) bool {
	if !ok && sig != "" {
		c.Hist("finding:" + sig)
		if sigSeen[sig] >= 2 {
			return false
		}
		sigSeen[sig]++
	}
	return c.Check(ok, what, input, sig)
}

// reportSnapshotDiff records a snapshot difference: one failure per finding signature when every differing line is
// explained by a known finding, otherwise one unclassified failure.
func reportSnapshotDiff(c *C, what string, p *descriptorpb.FileDescriptorProto, a, b string, in any) {
	ds, same := lineDiffs(a, b)
	if !same || len(ds) == 0 {
		chk(c, false, what+": "+firstDiff(a, b), in, "")
		return
	}
	ix := indexFDP(p)
	bySig := map[string]lineDiff{}
	var order []string
	for _, d := range ds {
		s := ix.classifyOne(d)
		if s == "" {
			chk(c, false, what+": "+fmt.Sprintf("[%s %s] %q VS %q", d.ctxKind, d.ctxName, d.a, d.b), in, "")
			return
		}
		if _, ok := bySig[s]; !ok {
			bySig[s] = d
			order = append(order, s)
		}
	}
	for _, s := range order {
		d := bySig[s]
		chk(c, false, what+": "+fmt.Sprintf("[%s %s] %q VS %q", d.ctxKind, d.ctxName, d.a, d.b), in, s)
	}
}
