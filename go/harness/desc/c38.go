package main

// C38: editions features resolve by inheritance and preserve semantics.
//
//	A random editions (and proto2/proto3) schemas with feature overrides at file / message / field / enum / oneof level
//	  (also on targets protoc would refuse: Go resolves them generically).  For every message, field, extension and enum
//	  of the protodesc-built AND of the filedesc-built descriptor:
//	    - the stored EditionFeatures struct (read from L1) = boolean view of "nearest override else edition default"
//	      computed by the harness' own oracle (defaults hard-coded from the language guide)      [direct property]
//	    - = the model's resolveGo over the same chain                                         [correspondence]
//	    - the public attributes (Cardinality, Kind, HasPresence, IsPacked, EnforceUTF8, IsClosed) = the model's
//	      derived attributes                                                                  [correspondence]
//	B the proto2/proto3 vs editions message pairs of internal/testprotos/editionsfuzztest: same unmarshal verdict, same
//	  deterministic bytes, same Size, same JSON and text output, JSON/text cross-parse, for random valid messages,
//	  mutated encodings and random bytes.

import (
	"bytes"
	"fmt"
	"math"
	"math/rand"
	"regexp"
	"strings"

	"google.golang.org/protobuf/encoding/protojson"
	"google.golang.org/protobuf/encoding/prototext"
	"google.golang.org/protobuf/internal/filedesc"
	"google.golang.org/protobuf/internal/strs"
	fuzzpb "google.golang.org/protobuf/internal/testprotos/editionsfuzztest"
	testeditionspb "google.golang.org/protobuf/internal/testprotos/testeditions"
	"google.golang.org/protobuf/proto"
	"google.golang.org/protobuf/reflect/protoreflect"
	"google.golang.org/protobuf/reflect/protoregistry"
	"google.golang.org/protobuf/types/descriptorpb"
	"google.golang.org/protobuf/types/dynamicpb"
)

func runC38(c *C) {
	c.R.Rule = "Stream A: a case is one descriptor node (message, field, extension, enum) of a random schema built by protodesc.NewFile and by filedesc.Builder, with its override chain; non-trivial = at least one override on its chain mentions a feature; distinct by (edition, chain, node shape). " +
		"Stream B: a case is one input (wire bytes) for one proto2/proto3-vs-editions message pair; non-trivial = both sides decode it without error and the message is non-empty; distinct by bytes."
	for _, raw := range c.ReplayInputs() {
		if in, ok := parseReplay(raw); ok {
			switch in.Kind {
			case "aschema":
				var a AFile
				if err := jsonUnmarshal(in.FDP, &a); err == nil {
					featCase(c, &a)
				}
			case "pair":
				pairCase(c, in.Msg, vhUnHex(in.Wire))
			}
		}
	}
	featWitnesses(c)
	pairsStream(c)
	n := c.N(700, 20000)
	for i := 0; i < n && !c.Failed(); i++ {
		o := genOpts{NoImports: true, NoMsgSet: true, ForModel: true}
		switch c.Rand.Intn(6) {
		case 0, 1, 2:
			o.Syntax = "editions"
		case 3:
			o.Syntax = "editions"
			o.AnyTarget = true
		}
		a := genFile(c.Rand, o, i)
		featCase(c, a)
	}
}

// ---------- oracle: nearest override else default ----------

func goView(r rfeat, g [3]int32) string {
	b := func(x bool) int {
		if x {
			return 1
		}
		return 0
	}
	return fmt.Sprintf("strip=%d fp=%d lr=%d oe=%d pk=%d u8=%d de=%d jc=%d lj=%d api=%d", g[2], b(r.FP == 1 || r.FP == 3), b(r.FP == 3), b(r.ET == 1), b(r.RFE == 1), b(r.UTF8 == 2), b(r.ME == 2), b(r.JF == 1), b(g[0] == 1), g[1])
}

// goDefaults: (legacy_unmarshal_json_enum, api_level, strip_enum_prefix) per edition, from go_features.proto.
func goDefaults(syntax string, edition int32) [3]int32 {
	switch {
	case syntax == "proto3":
		return [3]int32{0, 0, 1}
	case syntax == "editions" && edition >= 1001:
		return [3]int32{0, 3, 1}
	case syntax == "editions":
		return [3]int32{0, 0, 1}
	}
	return [3]int32{1, 0, 1}
}

func overGo(g [3]int32, f *AFeat) [3]int32 {
	if f == nil {
		return g
	}
	if f.GoLegacyJSON != 0 {
		g[0] = f.GoLegacyJSON - 1
	}
	if f.GoAPI != 0 {
		g[1] = f.GoAPI - 1
	}
	if f.GoStrip != 0 {
		g[2] = f.GoStrip - 1
	}
	return g
}

func implGo(f filedesc.EditionFeatures) string {
	b := func(x bool) int {
		if x {
			return 1
		}
		return 0
	}
	return fmt.Sprintf("strip=%d fp=%d lr=%d oe=%d pk=%d u8=%d de=%d jc=%d lj=%d api=%d", f.StripEnumPrefix, b(f.IsFieldPresence), b(f.IsLegacyRequired), b(f.IsOpenEnum), b(f.IsPacked), b(f.IsUTF8Validated), b(f.IsDelimitedEncoded), b(f.IsJSONCompliant), b(f.GenerateLegacyUnmarshalJSON), f.APILevel)
}

func ovToken(f *AFeat) string {
	if f.empty() {
		return "-"
	}
	var p []string
	add := func(code int, v int32) { p = append(p, fmt.Sprintf("%d=%d", code, v)) }
	if f.FP != 0 {
		add(1, f.FP)
	}
	if f.ET != 0 {
		add(2, f.ET)
	}
	if f.RFE != 0 {
		add(3, f.RFE)
	}
	if f.UTF8 != 0 {
		add(4, f.UTF8)
	}
	if f.ME != 0 {
		add(5, f.ME)
	}
	if f.JF != 0 {
		add(6, f.JF)
	}
	if f.ENS != 0 {
		add(7, f.ENS)
	}
	if f.DSV != 0 {
		add(8, f.DSV)
	}
	if f.GoLegacyJSON != 0 {
		add(100201, f.GoLegacyJSON-1)
	}
	if f.GoAPI != 0 {
		add(100202, f.GoAPI-1)
	}
	if f.GoStrip != 0 {
		add(100203, f.GoStrip-1)
	}
	return strings.Join(p, ",")
}

func chainToken(ch []*AFeat) string {
	if len(ch) == 0 {
		return "-"
	}
	var p []string
	for _, f := range ch {
		p = append(p, ovToken(f))
	}
	return strings.Join(p, "/")
}

func editionNumber(a *AFile) int32 {
	switch a.Syntax {
	case "proto3":
		return 999
	case "editions":
		return a.Edition
	}
	return 998
}

type featNode struct {
	what  string
	chain []*AFeat // file first, node's own last
}

func nontrivChain(ch []*AFeat) bool {
	for _, f := range ch {
		if !f.empty() {
			return true
		}
	}
	return false
}

// featCase builds a (valid) abstract schema both ways and checks every node.
func featCase(c *C, a *AFile) {
	p := a.toProto()
	in := lazyA{a: a, note: "features"}
	defer c.Recover("C38 schema", in, "")
	reg := &protoregistry.Files{}
	fdP, err, pn := newFile(p, depResolver{reg}, false)
	if err != nil || pn != nil {
		// the generator aims at valid schemas; with AnyTarget overrides a schema may still be refused
		c.Hist("A:newfile-rejected")
		chk(c, pn == nil, fmt.Sprintf("NewFile panics: %v", pn), in, "")
		return
	}
	raw, _ := proto.MarshalOptions{Deterministic: true}.Marshal(p)
	var fdF protoreflect.FileDescriptor
	untyped := false
	a.walkFields(func(f *AField) {
		if f.Type == 0 {
			untyped = true
		}
	})
	if !untyped { // filedesc needs protoc-canonical input (every field typed)
		fdF, pn = buildRaw(raw, depResolver{reg})
		if !chk(c, pn == nil, fmt.Sprintf("filedesc.Builder panics: %v", pn), in, "") {
			return
		}
	}
	ed := editionNumber(a)
	base := specDefaults(a.Syntax)
	gbase := goDefaults(a.Syntax, a.Edition)
	c.Hist(fmt.Sprintf("A:edition=%d", ed))

	resolve := func(ch []*AFeat) (rfeat, [3]int32) {
		r, g := base, gbase
		for _, f := range ch {
			r = r.over(f)
			g = overGo(g, f)
		}
		return r, g
	}
	checkStruct := func(what string, ch []*AFeat, packed int32, got filedesc.EditionFeatures, builder string, skipOwn bool) {
		r, g := resolve(ch)
		if packed != 0 {
			r.RFE = 3 - packed // packed=2(true) -> PACKED(1); packed=1(false) -> EXPANDED(2)
		}
		want := goView(r, g)
		key := fmt.Sprintf("%d|%s|%s|%d", ed, what, chainToken(ch), packed)
		c.Case(key, nontrivChain(ch))
		sig := ""
		if builder == "filedesc" && strings.HasPrefix(what, "enum") && len(ch) > 0 && !ch[len(ch)-1].empty() {
			sig = sigEnumFeatures
		}
		chk(c, implGo(got) == want, fmt.Sprintf("%s: %s-built EditionFeatures %q differ from nearest-override-else-default %q (chain %s)", what, builder, implGo(got), want, chainToken(ch)), in, sig)
		if c.HasModel() && packed == 0 {
			mch := ch // (since e5f41ee filedesc merges the enum's own features too: the model's chain is the full chain)
			ans := c.Ask("resolve %d %s", ed, chainToken(mch))
			// "spec … | protodesc … | filedesc …"
			parts := strings.Split(ans, " | ")
			if len(parts) == 3 {
				c.Compare("resolveGo("+builder+") "+what, in, builder+" "+implGoOrWant(got, builder, what, ch, want), strings.TrimSpace(parts[map[string]int{"protodesc": 1, "filedesc": 2}[builder]]))
				specWant := fmt.Sprintf("spec %d %d %d %d %d %d", r.FP, r.ET, r.RFE, r.UTF8, r.ME, r.JF)
				specGot := strings.Join(strings.Fields(parts[0])[:7], " ")
				if len(mch) == len(ch) {
					c.Compare("resolveSpec vs harness oracle "+what, in, specWant, specGot)
				}
			} else {
				c.Compare("resolve "+what, in, want, ans)
			}
		}
	}
	_ = checkStruct

	var walk func(ams []*AMsg, msP, msF protoreflect.MessageDescriptors, chain []*AFeat)
	fieldNode := func(af *AField, fP, fF protoreflect.FieldDescriptor, chain []*AFeat, isExt bool) {
		ch := append(append([]*AFeat(nil), chain...), af.Feat)
		for _, b := range []struct {
			name string
			fd   protoreflect.FieldDescriptor
		}{{"protodesc", fP}, {"filedesc", fF}} {
			if b.fd == nil {
				continue
			}
			var ef filedesc.EditionFeatures
			switch x := b.fd.(type) {
			case *filedesc.Field:
				ef = x.L1.EditionFeatures
			case *filedesc.Extension:
				ef = x.L1.EditionFeatures
			}
			what := "field"
			if isExt {
				what = "extension"
			}
			checkStruct(what, ch, af.Packed, ef, b.name, false)
			// public attributes vs the harness' own reading of the language guide (direct property)
			if af.Type != 0 {
				r, _ := resolve(ch)
				if af.Packed != 0 {
					r.RFE = 3 - af.Packed
				}
				hasMsg := b.fd.Message() != nil
				mapish := b.fd.IsMap() || (!isExt && b.fd.ContainingMessage().IsMapEntry())
				wantCard := af.Label
				if r.FP == 3 && !isExt {
					wantCard = 2
				}
				wantKind := af.Type
				if wantKind == 11 && r.ME == 2 && (isExt || !mapish) {
					wantKind = 10
				}
				packable := wantKind != 9 && wantKind != 12 && wantKind != 10 && wantKind != 11
				wantPacked := wantCard == 3 && packable && r.RFE == 1
				wantPresence := wantCard != 3 && (isExt || r.FP == 1 || r.FP == 3 || hasMsg || b.fd.ContainingOneof() != nil)
				got := fmt.Sprintf("card=%d kind=%d presence=%v packed=%v", b.fd.Cardinality(), b.fd.Kind(), b.fd.HasPresence(), b.fd.IsPacked())
				want := fmt.Sprintf("card=%d kind=%d presence=%v packed=%v", wantCard, wantKind, wantPresence, wantPacked)
				chk(c, got == want, fmt.Sprintf("%s %s (%s-built): accessors %s, resolved features say %s (chain %s)", what, b.fd.FullName(), b.name, got, want, chainToken(ch)), in, "")
			}
			// public attributes vs the model
			if c.HasModel() {
				hasMsg := b.fd.Message() != nil
				inOneof := b.fd.ContainingOneof() != nil
				mapish := b.fd.IsMap() || (!isExt && b.fd.ContainingMessage().IsMapEntry())
				typ := af.Type
				if typ == 0 { // untyped: resolved through the name
					if hasMsg {
						typ = 11
					} else {
						typ = 14
					}
				}
				packed := "-"
				if af.Packed != 0 {
					packed = fmt.Sprint(af.Packed - 1)
				}
				// what the codecs ask: message fields as they are, extensions through an ExtensionTypeDescriptor wrapper
				codecFD := b.fd
				if xd, ok := b.fd.(protoreflect.ExtensionDescriptor); ok && isExt {
					codecFD = dynamicpb.NewExtensionType(xd).TypeDescriptor()
					if m, ok := b.fd.(interface{ EnforceUTF8() bool }); ok && b.fd.Kind() == protoreflect.StringKind {
						r, _ := resolve(ch)
						chk(c, m.EnforceUTF8() == (r.UTF8 == 2), fmt.Sprintf("extension %s: (*filedesc.Extension).EnforceUTF8() = %v but the resolved utf8_validation is %d", b.fd.FullName(), m.EnforceUTF8(), r.UTF8), in, "")
					} else if !ok {
						chk(c, false, "*filedesc.Extension has no EnforceUTF8 method (regression of c1ca555)", in, "")
					}
				}
				utf8 := strs.EnforceUTF8(codecFD)
				if b.fd.Kind() == protoreflect.StringKind {
					r, _ := resolve(ch)
					sig := ""
					if isExt && a.Syntax == "editions" {
						sig = sigExtUTF8
					}
					chk(c, utf8 == (r.UTF8 == 2), fmt.Sprintf("%s %s: strs.EnforceUTF8 = %v but the resolved utf8_validation is %d (chain %s)", what, b.fd.FullName(), utf8, r.UTF8, chainToken(ch)), in, sig)
				}
				got := fmt.Sprintf("card=%d kind=%d presence=%s packed=%s utf8=%s", b.fd.Cardinality(), b.fd.Kind(), bit(b.fd.HasPresence()), bit(b.fd.IsPacked()), bit(utf8))
				ans := c.Ask("attrs %d %s %d %d %s %s %s %s %s %s", ed, bit(isExt), af.Label, typ, bit(hasMsg), bit(inOneof), bit(mapish), packed, chainToken(chain), ovToken(af.Feat))
				sig := ""
				if af.Type == 0 && hasMsg {
					sig = sigUntypedDelim
				}
				if got != ans && sig != "" {
					chk(c, false, "attributes of an untyped message field under DELIMITED differ from the model of a typed one: "+got+" vs "+ans, in, sig)
				} else {
					c.Compare("attrs("+b.name+") "+string(b.fd.FullName()), in, got, ans)
				}
			}
		}
	}
	enumNode := func(ae *AEnum, eP, eF protoreflect.EnumDescriptor, chain []*AFeat) {
		ch := append(append([]*AFeat(nil), chain...), ae.Feat)
		checkStruct("enum", ch, 0, eP.(*filedesc.Enum).L1.EditionFeatures, "protodesc", false)
		if eF != nil {
			checkStruct("enum", ch, 0, eF.(*filedesc.Enum).L1.EditionFeatures, "filedesc", false)
		}
		if c.HasModel() {
			ans := c.Ask("enum %d %s %s", ed, chainToken(chain), ovToken(ae.Feat))
			got := "protodesc=" + bit(eP.IsClosed())
			if eF != nil {
				got += " filedesc=" + bit(eF.IsClosed())
			} else {
				ans = strings.Fields(ans + " x")[0]
			}
			c.Compare("IsClosed "+string(eP.FullName()), in, got, ans)
		}
	}
	walk = func(ams []*AMsg, msP, msF protoreflect.MessageDescriptors, chain []*AFeat) {
		for i, am := range ams {
			mP := msP.Get(i)
			var mF protoreflect.MessageDescriptor
			if msF != nil {
				mF = msF.Get(i)
			}
			ch := append(append([]*AFeat(nil), chain...), am.Feat)
			checkStruct("message", ch, 0, mP.(*filedesc.Message).L1.EditionFeatures, "protodesc", false)
			if mF != nil {
				checkStruct("message", ch, 0, mF.(*filedesc.Message).L1.EditionFeatures, "filedesc", false)
			}
			for j, af := range am.Fields {
				var fF protoreflect.FieldDescriptor
				if mF != nil {
					fF = mF.Fields().Get(j)
				}
				fieldNode(af, mP.Fields().Get(j), fF, ch, false)
			}
			for j, ax := range am.Exts {
				var fF protoreflect.FieldDescriptor
				if mF != nil {
					fF = mF.Extensions().Get(j)
				}
				fieldNode(ax, mP.Extensions().Get(j), fF, ch, true)
			}
			for j, ae := range am.Enums {
				var eF protoreflect.EnumDescriptor
				if mF != nil {
					eF = mF.Enums().Get(j)
				}
				enumNode(ae, mP.Enums().Get(j), eF, ch)
			}
			var nF protoreflect.MessageDescriptors
			if mF != nil {
				nF = mF.Messages()
			}
			walk(am.Nested, mP.Messages(), nF, ch)
		}
	}
	fch := []*AFeat{a.Feat}
	checkStruct("file", fch, 0, fdP.(*filedesc.File).L1.EditionFeatures, "protodesc", false)
	var msF protoreflect.MessageDescriptors
	if fdF != nil {
		checkStruct("file", fch, 0, fdF.(*filedesc.File).L1.EditionFeatures, "filedesc", false)
		msF = fdF.Messages()
	}
	walk(a.Msgs, fdP.Messages(), msF, fch)
	for j, ae := range a.Enums {
		var eF protoreflect.EnumDescriptor
		if fdF != nil {
			eF = fdF.Enums().Get(j)
		}
		enumNode(ae, fdP.Enums().Get(j), eF, fch)
	}
	for j, ax := range a.Exts {
		var fF protoreflect.FieldDescriptor
		if fdF != nil {
			fF = fdF.Extensions().Get(j)
		}
		fieldNode(ax, fdP.Extensions().Get(j), fF, fch, true)
	}
}

func implGoOrWant(got filedesc.EditionFeatures, builder, what string, ch []*AFeat, want string) string {
	return implGo(got)
}

func bit(b bool) string {
	if b {
		return "1"
	}
	return "0"
}

func (a *AFile) walkFields(fn func(f *AField)) {
	a.walkMsgs(func(scope string, m *AMsg) {
		for _, f := range m.Fields {
			fn(f)
		}
		for _, f := range m.Exts {
			fn(f)
		}
	})
	for _, f := range a.Exts {
		fn(f)
	}
}

// featWitnesses: hand-written chains (every level overriding, none overriding, enum-level override).
func featWitnesses(c *C) {
	i1 := int32(0)
	_ = i1
	a := &AFile{Path: "w/feat.proto", Pkg: "wf", Syntax: "editions", Edition: 1000, HasEdition: true,
		Feat: &AFeat{FP: 2, ET: 2, UTF8: 3, JF: 2, GoAPI: 3},
		Msgs: []*AMsg{{Name: "M", Feat: &AFeat{FP: 1, ME: 2, GoAPI: 4},
			Fields: []*AField{
				{Name: "a", Number: 1, HasNumber: true, Label: 1, Type: 9, Feat: &AFeat{UTF8: 2, FP: 2}},
				{Name: "b", Number: 2, HasNumber: true, Label: 3, Type: 5, Feat: &AFeat{RFE: 2}},
				{Name: "c", Number: 3, HasNumber: true, Label: 1, Type: 11, TypeName: ".wf.M", HasTypeName: true},
				{Name: "d", Number: 4, HasNumber: true, Label: 1, Type: 5, Feat: &AFeat{FP: 3}},
			},
			Enums: []*AEnum{{Name: "E", Values: []*AEnumValue{{Name: "E_V0", Number: 0, HasNumber: true}}, Feat: &AFeat{ET: 1, GoStrip: 3}}},
			Nested: []*AMsg{{Name: "N", Feat: &AFeat{ME: 1},
				Fields: []*AField{{Name: "c", Number: 3, HasNumber: true, Label: 1, Type: 11, TypeName: ".wf.M", HasTypeName: true}}}},
		}},
		Enums: []*AEnum{{Name: "F", Values: []*AEnumValue{{Name: "F_V0", Number: 1, HasNumber: true}}}},
	}
	featCase(c, a)
	utf8Witness(c)
}

// utf8Witness: behavioural witness of the refuted obligation C38.runtime_utf8 — invalid UTF-8 in a string EXTENSION of an
// editions file whose resolved utf8_validation is VERIFY, against the same bytes in a string FIELD; plus the negative
// control testeditions.TestAllExtensions (test_extension.proto sets utf8_validation = NONE: accepting is correct there).
func utf8Witness(c *C) {
	p := &descriptorpb.FileDescriptorProto{Name: proto.String("w/utf8ext.proto"), Package: proto.String("w"), Syntax: proto.String("editions"), Edition: descriptorpb.Edition_EDITION_2023.Enum(),
		MessageType: []*descriptorpb.DescriptorProto{{Name: proto.String("M"), ExtensionRange: []*descriptorpb.DescriptorProto_ExtensionRange{{Start: proto.Int32(10), End: proto.Int32(20)}},
			Field: []*descriptorpb.FieldDescriptorProto{fld("f", 1, lOpt, tStr, "")}}},
		Extension: []*descriptorpb.FieldDescriptorProto{func() *descriptorpb.FieldDescriptorProto {
			x := fld("x", 14, lOpt, tStr, "")
			x.Extendee = proto.String(".w.M")
			return x
		}()}}
	in := replayIn{Kind: "fdp", FDP: hexOf(p), Note: "witness:utf8-extension", Wire: "7202fffe"}
	defer c.Recover("C38 utf8 witness", in, "")
	c.Case("utf8-extension-witness", true)
	fd, err, pn := newFile(p, depResolver{&protoregistry.Files{}}, false)
	if !chk(c, err == nil && pn == nil, "utf8 witness schema rejected: "+errClass(err, pn), in, "") {
		return
	}
	xt := dynamicpb.NewExtensionType(fd.Extensions().Get(0))
	types := &protoregistry.Types{}
	types.RegisterExtension(xt)
	uo := proto.UnmarshalOptions{Resolver: types}
	errField := uo.Unmarshal([]byte{0x0a, 0x02, 0xff, 0xfe}, dynamicpb.NewMessage(fd.Messages().Get(0)))
	chk(c, errField != nil, "invalid UTF-8 accepted in an editions (VERIFY) string FIELD", in, "")
	errExt := uo.Unmarshal([]byte{0x72, 0x02, 0xff, 0xfe}, dynamicpb.NewMessage(fd.Messages().Get(0)))
	chk(c, errExt != nil, "invalid UTF-8 accepted in an editions (VERIFY) string EXTENSION: proto.Unmarshal(7202fffe) returns nil (extend M { string x = 14; })", in, sigExtUTF8)
	// negative control: utf8_validation = NONE at file level
	errNone := proto.Unmarshal([]byte{0x72, 0x02, 0xff, 0xfe}, &testeditionspb.TestAllExtensions{})
	chk(c, errNone == nil, "invalid UTF-8 REJECTED in testeditions.optional_string although test_extension.proto sets utf8_validation = NONE", in, "")
}

// ---------- stream B: proto2/proto3 vs editions pairs ----------

type msgPair struct {
	name string
	a, b proto.Message
}

func pairs() []msgPair {
	return []msgPair{
		{"proto2", (*fuzzpb.TestAllTypesProto2)(nil), (*fuzzpb.TestAllTypesProto2Editions)(nil)},
		{"proto3", (*fuzzpb.TestAllTypesProto3)(nil), (*fuzzpb.TestAllTypesProto3Editions)(nil)},
	}
}

func pairsStream(c *C) {
	n := c.N(6000, 300000)
	ps := pairs()
	for i := 0; i < n && !c.Failed(); i++ {
		p := ps[i%2]
		var wire []byte
		switch k := c.Rand.Intn(10); {
		case k < 6:
			m := p.a.ProtoReflect().Type().New()
			if c.Rand.Intn(2) == 0 {
				m = p.b.ProtoReflect().Type().New()
			}
			randomFill(c.Rand, m, 0)
			wire, _ = proto.MarshalOptions{AllowPartial: true}.Marshal(m.Interface())
			c.Hist("B:valid")
			if k == 5 && len(wire) > 0 {
				wire = mutate(c.Rand, wire)
				c.Hist("B:mutated")
			}
		case k < 8:
			m := p.a.ProtoReflect().Type().New()
			randomFill(c.Rand, m, 0)
			wire, _ = proto.MarshalOptions{AllowPartial: true}.Marshal(m.Interface())
			wire = mutate(c.Rand, wire)
			c.Hist("B:mutated")
		default:
			wire = make([]byte, c.Rand.Intn(24))
			c.Rand.Read(wire)
			c.Hist("B:random-bytes")
		}
		pairCase(c, p.name, wire)
	}
}

func pairCase(c *C, name string, wire []byte) {
	var p msgPair
	for _, q := range pairs() {
		if q.name == name {
			p = q
		}
	}
	if p.a == nil {
		return
	}
	in := replayIn{Kind: "pair", Msg: name, Wire: vhHex(wire)}
	defer c.Recover("C38 pair "+name, in, "")
	ma := p.a.ProtoReflect().Type().New().Interface()
	mb := p.b.ProtoReflect().Type().New().Interface()
	ea := proto.Unmarshal(wire, ma)
	eb := proto.Unmarshal(wire, mb)
	okBoth := ea == nil && eb == nil
	c.Case(name+"|"+in.Wire, okBoth && len(wire) > 0)
	if !chk(c, (ea == nil) == (eb == nil), fmt.Sprintf("pair %s: unmarshal verdicts differ: %v vs %v", name, ea, eb), in, "") {
		return
	}
	if ea != nil {
		chk(c, normErr(ea.Error(), p) == normErr(eb.Error(), p), fmt.Sprintf("pair %s: unmarshal errors differ: %v vs %v", name, ea, eb), in, "")
		c.Hist("B:outcome=decode-error")
		return
	}
	c.Hist("B:outcome=ok")
	det := proto.MarshalOptions{Deterministic: true}
	ba, e1 := det.Marshal(ma)
	bb, e2 := det.Marshal(mb)
	if !chk(c, (e1 == nil) == (e2 == nil), fmt.Sprintf("pair %s: marshal verdicts differ: %v vs %v", name, e1, e2), in, "") {
		return
	}
	chk(c, bytes.Equal(ba, bb), fmt.Sprintf("pair %s: re-marshalled bytes differ: %x vs %x", name, ba, bb), in, "")
	chk(c, proto.Size(ma) == proto.Size(mb), fmt.Sprintf("pair %s: Size differs: %d vs %d", name, proto.Size(ma), proto.Size(mb)), in, "")
	chk(c, proto.CheckInitialized(ma) == nil == (proto.CheckInitialized(mb) == nil), "pair "+name+": CheckInitialized differs", in, "")
	// JSON
	// enum VALUE NAMES differ between the two files by design (same package): JSON is compared with enum numbers,
	// text after renaming the editions side's value names to the legacy side's (matched by field path and number).
	ja, e1 := protojson.MarshalOptions{UseEnumNumbers: true}.Marshal(ma)
	jb, e2 := protojson.MarshalOptions{UseEnumNumbers: true}.Marshal(mb)
	if chk(c, (e1 == nil) == (e2 == nil), fmt.Sprintf("pair %s: JSON marshal verdicts differ: %v vs %v", name, e1, e2), in, "") && e1 == nil {
		chk(c, squash(ja) == squash(jb), fmt.Sprintf("pair %s: JSON differs: %s vs %s", name, clip(ja), clip(jb)), in, "")
		// cross-parse: JSON of one side into the other type
		xa := p.a.ProtoReflect().Type().New().Interface()
		xb := p.b.ProtoReflect().Type().New().Interface()
		e1 := protojson.Unmarshal(jb, xa)
		e2 := protojson.Unmarshal(ja, xb)
		if chk(c, (e1 == nil) == (e2 == nil), fmt.Sprintf("pair %s: JSON unmarshal verdicts differ: %v vs %v", name, e1, e2), in, "") && e1 == nil {
			b1, _ := det.Marshal(xa)
			b2, _ := det.Marshal(xb)
			chk(c, bytes.Equal(b1, b2), fmt.Sprintf("pair %s: bytes after JSON round trip differ: %x vs %x", name, b1, b2), in, "")
		}
	}
	// text
	ta, e1 := prototext.MarshalOptions{}.Marshal(ma)
	tb, e2 := prototext.MarshalOptions{}.Marshal(mb)
	if chk(c, (e1 == nil) == (e2 == nil), fmt.Sprintf("pair %s: text marshal verdicts differ: %v vs %v", name, e1, e2), in, "") && e1 == nil {
		b2a, a2b := enumRenames(p)
		tbA := rename(tb, b2a) // editions side spelt with the legacy side's value names
		chk(c, squash(ta) == squash(tbA), fmt.Sprintf("pair %s: text differs: %s vs %s", name, clip(ta), clip(tbA)), in, "")
		xa := p.a.ProtoReflect().Type().New().Interface()
		xb := p.b.ProtoReflect().Type().New().Interface()
		e1 := prototext.Unmarshal(tbA, xa)
		e2 := prototext.Unmarshal(rename(ta, a2b), xb)
		if chk(c, (e1 == nil) == (e2 == nil), fmt.Sprintf("pair %s: text unmarshal verdicts differ: %v vs %v", name, e1, e2), in, "") && e1 == nil {
			b1, _ := det.Marshal(xa)
			b2, _ := det.Marshal(xb)
			chk(c, bytes.Equal(b1, b2), fmt.Sprintf("pair %s: bytes after text round trip differ: %x vs %x", name, b1, b2), in, "")
		}
	}
}

// normErr removes the message type names from an error text.
func normErr(s string, p msgPair) string {
	for _, m := range []proto.Message{p.b, p.a} {
		s = strings.ReplaceAll(s, string(m.ProtoReflect().Descriptor().FullName()), "T")
	}
	return s
}

// squash removes the random whitespace protojson / prototext insert.
func squash(b []byte) string {
	return strings.Join(strings.Fields(string(b)), " ")
}

func clip(b []byte) string {
	if len(b) > 160 {
		return string(b[:160]) + "…"
	}
	return string(b)
}

func mutate(r *rand.Rand, b []byte) []byte {
	b = append([]byte(nil), b...)
	if len(b) == 0 {
		return b
	}
	switch r.Intn(5) {
	case 0:
		return b[:r.Intn(len(b))]
	case 1:
		b[r.Intn(len(b))] ^= byte(1 << uint(r.Intn(8)))
	case 2:
		b[r.Intn(len(b))] = byte(r.Intn(256))
	case 3:
		i := r.Intn(len(b))
		return append(b[:i:i], b[i+1:]...)
	case 4:
		i := r.Intn(len(b) + 1)
		return append(append(append([]byte(nil), b[:i]...), byte(r.Intn(256))), b[i:]...)
	}
	return b
}

// randomFill populates m with random values (boundary-biased scalars, small collections, shallow nesting).
func randomFill(r *rand.Rand, m protoreflect.Message, depth int) {
	fds := m.Descriptor().Fields()
	for i := 0; i < fds.Len(); i++ {
		fd := fds.Get(i)
		if r.Intn(4) != 0 {
			continue
		}
		switch {
		case fd.IsMap():
			mp := m.Mutable(fd).Map()
			for j, n := 0, r.Intn(3); j < n; j++ {
				k := randomScalar(r, fd.MapKey()).MapKey()
				if fd.MapValue().Message() != nil {
					v := mp.NewValue()
					if depth < 2 {
						randomFill(r, v.Message(), depth+1)
					}
					mp.Set(k, v)
				} else {
					mp.Set(k, randomScalar(r, fd.MapValue()))
				}
			}
		case fd.IsList():
			l := m.Mutable(fd).List()
			for j, n := 0, r.Intn(4); j < n; j++ {
				if fd.Message() != nil {
					v := l.NewElement()
					if depth < 2 {
						randomFill(r, v.Message(), depth+1)
					}
					l.Append(v)
				} else {
					l.Append(randomScalar(r, fd))
				}
			}
		case fd.Message() != nil:
			if depth < 3 {
				randomFill(r, m.Mutable(fd).Message(), depth+1)
			}
		default:
			m.Set(fd, randomScalar(r, fd))
		}
	}
	if r.Intn(8) == 0 {
		// an unknown field
		m.SetUnknown(protoreflect.RawFields{0xf8, 0x7f, byte(r.Intn(128))})
	}
}

func randomScalar(r *rand.Rand, fd protoreflect.FieldDescriptor) protoreflect.Value {
	switch fd.Kind() {
	case protoreflect.BoolKind:
		return protoreflect.ValueOfBool(r.Intn(2) == 0)
	case protoreflect.EnumKind:
		vs := fd.Enum().Values()
		if r.Intn(5) == 0 {
			return protoreflect.ValueOfEnum(protoreflect.EnumNumber(r.Intn(2000) - 1000)) // possibly unknown
		}
		return protoreflect.ValueOfEnum(vs.Get(r.Intn(vs.Len())).Number())
	case protoreflect.Int32Kind, protoreflect.Sint32Kind, protoreflect.Sfixed32Kind:
		return protoreflect.ValueOfInt32([]int32{0, 1, -1, math.MaxInt32, math.MinInt32, int32(r.Uint32())}[r.Intn(6)])
	case protoreflect.Int64Kind, protoreflect.Sint64Kind, protoreflect.Sfixed64Kind:
		return protoreflect.ValueOfInt64([]int64{0, 1, -1, math.MaxInt64, math.MinInt64, int64(r.Uint64())}[r.Intn(6)])
	case protoreflect.Uint32Kind, protoreflect.Fixed32Kind:
		return protoreflect.ValueOfUint32([]uint32{0, 1, math.MaxUint32, r.Uint32()}[r.Intn(4)])
	case protoreflect.Uint64Kind, protoreflect.Fixed64Kind:
		return protoreflect.ValueOfUint64([]uint64{0, 1, math.MaxUint64, r.Uint64()}[r.Intn(4)])
	case protoreflect.FloatKind:
		return protoreflect.ValueOfFloat32([]float32{0, 1.5, float32(math.Inf(1)), float32(math.Copysign(0, -1)), float32(r.NormFloat64())}[r.Intn(5)])
	case protoreflect.DoubleKind:
		return protoreflect.ValueOfFloat64([]float64{0, 1.5, math.Inf(-1), math.Copysign(0, -1), r.NormFloat64()}[r.Intn(5)])
	case protoreflect.StringKind:
		return protoreflect.ValueOfString([]string{"", "a", "héllo", "\xff\xfe invalid utf8", "x y z"}[r.Intn(5)])
	case protoreflect.BytesKind:
		b := make([]byte, r.Intn(5))
		r.Read(b)
		return protoreflect.ValueOfBytes(b)
	}
	panic("randomScalar: " + fd.Kind().String())
}

// enumRenames maps enum value names of the editions message (b) to those of the legacy message (a) and back,
// matching enums through parallel field numbers and values through their numbers.
func enumRenames(p msgPair) (b2a, a2b map[string]string) {
	b2a, a2b = map[string]string{}, map[string]string{}
	seen := map[protoreflect.FullName]bool{}
	var walk func(a, b protoreflect.MessageDescriptor)
	walk = func(a, b protoreflect.MessageDescriptor) {
		if seen[a.FullName()] {
			return
		}
		seen[a.FullName()] = true
		for i := 0; i < a.Fields().Len(); i++ {
			fa := a.Fields().Get(i)
			fb := b.Fields().ByNumber(fa.Number())
			if fb == nil {
				continue
			}
			ea, eb := fa.Enum(), fb.Enum()
			if fa.IsMap() {
				ea, eb = fa.MapValue().Enum(), fb.MapValue().Enum()
			}
			if ea != nil && eb != nil {
				for j := 0; j < eb.Values().Len(); j++ {
					vb := eb.Values().Get(j)
					if va := ea.Values().ByNumber(vb.Number()); va != nil && va.Name() != vb.Name() {
						b2a[string(vb.Name())] = string(va.Name())
						a2b[string(va.Name())] = string(vb.Name())
					}
				}
			}
			ma, mb := fa.Message(), fb.Message()
			if fa.IsMap() {
				ma, mb = fa.MapValue().Message(), fb.MapValue().Message()
			}
			if ma != nil && mb != nil {
				walk(ma, mb)
			}
		}
	}
	walk(p.a.ProtoReflect().Descriptor(), p.b.ProtoReflect().Descriptor())
	return
}

var identRe = regexp.MustCompile(`[A-Za-z_][A-Za-z0-9_]*`)

func rename(text []byte, m map[string]string) []byte {
	if len(m) == 0 {
		return text
	}
	return identRe.ReplaceAllFunc(text, func(w []byte) []byte {
		if r, ok := m[string(w)]; ok {
			return []byte(r)
		}
		return w
	})
}
