// Package vh is the shared runtime of the /verif correspondence harnesses.
//
// A harness is compiled *inside* the /repo module (go build -overlay) so that it can call
// internal packages in-process.  It generates cases from one PRNG (VERIF_SEED), runs the real
// implementation and the Lean model (a pbmodel_* subprocess speaking a line protocol), compares
// canonicalised results, evaluates the property predicate directly on the implementation, and
// writes a JSON result that bin/check turns into evidence and a verdict.
package vh

import (
	"bufio"
	"encoding/hex"
	"encoding/json"
	"flag"
	"fmt"
	"hash/fnv"
	"io"
	"math/rand"
	"os"
	"os/exec"
	"sort"
	"strings"
	"time"
)

// Failure is one disagreement (model vs implementation) or one direct property failure.
type Failure struct {
	Kind  string `json:"kind"`  // "correspondence" | "property" | "panic"
	What  string `json:"what"`  // human-readable
	Input any    `json:"input"` // replayable input (request lines, hex, op list)
	Sig   string `json:"sig"`   // classifier signature used by known-findings ("" = unclassified)
	Impl  string `json:"impl,omitempty"`
	Model string `json:"model,omitempty"`
}

type Result struct {
	Engine             string         `json:"engine"`
	Property           string         `json:"property"`
	Seed               int64          `json:"seed"`
	Tier               string         `json:"tier"`
	Evaluations        int            `json:"evaluations"`
	DistinctNontrivial int            `json:"distinct_nontrivial"`
	ModelCompared      int            `json:"model_compared"`
	Rule               string         `json:"rule"`
	Samples            []any          `json:"samples"`
	Histogram          map[string]int `json:"histogram"`
	Failures           []Failure      `json:"failures"`
	ModelAvailable     bool           `json:"model_available"`
	Exhaustive         bool           `json:"exhaustive,omitempty"`
	Notes              []string       `json:"notes,omitempty"`
	WallS              float64        `json:"wall_s"`
}

type Ctx struct {
	Prop    string
	Seed    int64
	Tier    string
	Replay  string
	Rand    *rand.Rand
	R       Result
	model   *exec.Cmd
	mIn     io.WriteCloser
	mOut    *bufio.Reader
	seen    map[uint64]struct{}
	maxFail int
	nfail   int
	perWhat map[string]int
	start   time.Time
	outPath string
}

func (c *Ctx) Thorough() bool { return c.Tier == "thorough" }

// N picks the case count for the tier.
func (c *Ctx) N(quick, thorough int) int {
	if c.Thorough() {
		return thorough
	}
	return quick
}

// HasModel reports whether a model subprocess is attached.
func (c *Ctx) HasModel() bool { return c.model != nil }

// Ask sends one request line to the model and returns its one-line answer.
func (c *Ctx) Ask(format string, args ...any) string {
	if c.model == nil {
		return ""
	}
	line := fmt.Sprintf(format, args...)
	if strings.ContainsAny(line, "\n\r") {
		panic("vh: request contains newline")
	}
	if _, err := io.WriteString(c.mIn, line+"\n"); err != nil {
		c.modelDied(err)
		return ""
	}
	ans, err := c.mOut.ReadString('\n')
	if err != nil {
		c.modelDied(err)
		return ""
	}
	c.R.ModelCompared++
	return strings.TrimRight(ans, "\r\n")
}

func (c *Ctx) modelDied(err error) {
	c.R.Notes = append(c.R.Notes, "model subprocess died: "+err.Error())
	c.Fail(Failure{Kind: "correspondence", What: "model subprocess died: " + err.Error(), Sig: ""})
	c.model = nil
}

// Hist counts a branch / class of the generator or of the outcome.
func (c *Ctx) Hist(key string) { c.R.Histogram[key]++ }

// Case records one evaluated case. key identifies the case for distinctness; nontrivial says
// whether it reached a non-error, non-empty branch (rule documented in R.Rule).
func (c *Ctx) Case(key string, nontrivial bool) {
	c.R.Evaluations++
	if !nontrivial {
		return
	}
	h := fnv.New64a()
	io.WriteString(h, key)
	k := h.Sum64()
	if _, ok := c.seen[k]; !ok {
		c.seen[k] = struct{}{}
		c.R.DistinctNontrivial++
	}
}

// Sample keeps up to 12 written-out cases for the evidence file.
func (c *Ctx) Sample(x any) {
	if len(c.R.Samples) < 12 {
		c.R.Samples = append(c.R.Samples, x)
	}
}

func (c *Ctx) Fail(f Failure) {
	c.Hist("FAIL:" + f.Kind)
	c.nfail++
	// keep at most 3 failures per (kind, what, sig) so that distinct failures are not crowded out
	k := f.Kind + "|" + f.What + "|" + f.Sig
	if c.perWhat[k] >= 3 {
		return
	}
	c.perWhat[k]++
	if len(c.R.Failures) < c.maxFail {
		c.R.Failures = append(c.R.Failures, f)
	}
}

// Failed reports whether enough failures were collected to stop early.
func (c *Ctx) Failed() bool { return len(c.R.Failures) >= c.maxFail || c.nfail >= 200 }

// Compare records a correspondence failure when impl != model (and a model is attached).
func (c *Ctx) Compare(what string, input any, impl, model string) bool {
	if c.model == nil && model == "" {
		return true
	}
	if impl == model {
		return true
	}
	c.Fail(Failure{Kind: "correspondence", What: what, Input: input, Impl: impl, Model: model})
	return false
}

// Check records a direct property failure on the implementation when ok is false.
func (c *Ctx) Check(ok bool, what string, input any, sig string) bool {
	if !ok {
		c.Fail(Failure{Kind: "property", What: what, Input: input, Sig: sig})
	}
	return ok
}

// Recover turns a panic of the implementation into a failure; use as `defer c.Recover(...)`.
func (c *Ctx) Recover(what string, input any, sig string) {
	if e := recover(); e != nil {
		c.Fail(Failure{Kind: "panic", What: fmt.Sprintf("%s: panic: %v", what, e), Input: input, Sig: sig})
	}
}

func Hex(b []byte) string {
	if len(b) == 0 {
		return "-"
	}
	return hex.EncodeToString(b)
}

func UnHex(s string) []byte {
	if s == "-" || s == "" {
		return nil
	}
	b, err := hex.DecodeString(s)
	if err != nil {
		panic(err)
	}
	return b
}

// ReplayInputs returns the "input" fields of the failures stored in a replay file
// (the JSON written by bin/check), or nil.
func (c *Ctx) ReplayInputs() []json.RawMessage {
	if c.Replay == "" {
		return nil
	}
	data, err := os.ReadFile(c.Replay)
	if err != nil {
		fmt.Fprintln(os.Stderr, "replay:", err)
		os.Exit(2)
	}
	var doc struct {
		Failures []struct {
			Input json.RawMessage `json:"input"`
		} `json:"failures"`
	}
	if err := json.Unmarshal(data, &doc); err != nil {
		fmt.Fprintln(os.Stderr, "replay:", err)
		os.Exit(2)
	}
	var out []json.RawMessage
	for _, f := range doc.Failures {
		out = append(out, f.Input)
	}
	return out
}

// Main parses the common flags, attaches the model, runs the engine and writes the result.
func Main(engine string, run func(c *Ctx)) {
	prop := flag.String("prop", "", "property id")
	seed := flag.Int64("seed", 1, "PRNG seed")
	tier := flag.String("tier", "quick", "quick|thorough")
	model := flag.String("model", "", "path of the pbmodel_* executable ('' = implementation only)")
	out := flag.String("out", "", "result JSON path")
	replay := flag.String("replay", "", "replay file")
	maxFail := flag.Int("maxfail", 20, "stop collecting after this many failures")
	flag.Parse()
	c := &Ctx{Prop: *prop, Seed: *seed, Tier: *tier, Replay: *replay, Rand: rand.New(rand.NewSource(*seed)),
		seen: map[uint64]struct{}{}, perWhat: map[string]int{}, maxFail: *maxFail, start: time.Now(), outPath: *out}
	c.R = Result{Engine: engine, Property: *prop, Seed: *seed, Tier: *tier, Histogram: map[string]int{}, Samples: []any{}, Failures: []Failure{}}
	if *model != "" {
		cmd := exec.Command(*model)
		in, _ := cmd.StdinPipe()
		outp, _ := cmd.StdoutPipe()
		cmd.Stderr = os.Stderr
		if err := cmd.Start(); err != nil {
			c.R.Notes = append(c.R.Notes, "cannot start model: "+err.Error())
		} else {
			c.model, c.mIn, c.mOut = cmd, in, bufio.NewReaderSize(outp, 1<<20)
			c.R.ModelAvailable = true
		}
	}
	func() {
		defer func() {
			if e := recover(); e != nil {
				c.Fail(Failure{Kind: "panic", What: fmt.Sprintf("harness-level panic: %v", e)})
			}
		}()
		run(c)
	}()
	if c.model != nil {
		c.mIn.Close()
		c.model.Wait()
	}
	c.R.WallS = time.Since(c.start).Seconds()
	// deterministic histogram order is given by encoding/json (sorted keys)
	_ = sort.Strings
	data, _ := json.MarshalIndent(&c.R, "", " ")
	if *out == "" {
		os.Stdout.Write(data)
		fmt.Println()
	} else if err := os.WriteFile(*out, data, 0o644); err != nil {
		fmt.Fprintln(os.Stderr, err)
		os.Exit(2)
	}
}
