package main

import (
	"fmt"
	"math"
	"math/big"
	"regexp"
	"strings"

	"google.golang.org/protobuf/encoding/protojson"
	textpb2 "google.golang.org/protobuf/internal/testprotos/textpb2"
	"google.golang.org/protobuf/types/known/anypb"
	"google.golang.org/protobuf/types/known/durationpb"
)

// ---------- implementation voice ----------

func implDurMarshal(secs int64, nanos int32) string {
	b, err := protojson.Marshal(&durationpb.Duration{Seconds: secs, Nanos: nanos})
	if err != nil {
		return "err"
	}
	s, ok := unquoteJSON(b)
	if !ok {
		return "notstring " + string(b)
	}
	return "ok " + s
}

// the same value as a field of a message and inside an Any
func implDurMarshalField(secs int64, nanos int32) string {
	b, err := protojson.Marshal(&textpb2.KnownTypes{OptDuration: &durationpb.Duration{Seconds: secs, Nanos: nanos}})
	if err != nil {
		return "err"
	}
	v, ok := fieldOf(b, "optDuration")
	if !ok {
		return "nofield " + string(b)
	}
	s, ok := unquoteJSON(v)
	if !ok {
		return "notstring " + string(b)
	}
	return "ok " + s
}

func implDurMarshalAny(secs int64, nanos int32) string {
	a, err := anypb.New(&durationpb.Duration{Seconds: secs, Nanos: nanos})
	if err != nil {
		return "anyerr"
	}
	b, err := protojson.Marshal(a)
	if err != nil {
		return "err"
	}
	v, ok := fieldOf(b, "value")
	if !ok {
		return "nofield " + string(b)
	}
	s, ok := unquoteJSON(v)
	if !ok {
		return "notstring " + string(b)
	}
	return "ok " + s
}

func implDurUnmarshal(s string) string {
	var d durationpb.Duration
	if err := protojson.Unmarshal([]byte(jsonString(s)), &d); err != nil {
		return "none"
	}
	return fmt.Sprintf("%d %d", d.Seconds, d.Nanos)
}

func implDurUnmarshalField(s string) string {
	var m textpb2.KnownTypes
	if err := protojson.Unmarshal([]byte(`{"optDuration":`+jsonString(s)+`}`), &m); err != nil {
		return "none"
	}
	return fmt.Sprintf("%d %d", m.GetOptDuration().GetSeconds(), m.GetOptDuration().GetNanos())
}

func implDurUnmarshalAny(s string) string {
	var a anypb.Any
	if err := protojson.Unmarshal([]byte(`{"@type":"type.googleapis.com/google.protobuf.Duration","value":`+jsonString(s)+`}`), &a); err != nil {
		return "none"
	}
	var d durationpb.Duration
	if err := a.UnmarshalTo(&d); err != nil {
		return "unpackerr"
	}
	return fmt.Sprintf("%d %d", d.Seconds, d.Nanos)
}

// ---------- independent reference ----------

var (
	big1e9    = big.NewInt(1000000000)
	bigMaxDur = big.NewInt(315576000000)
)

// refDurMarshal: validity as duration.proto states it, text computed from the total number of
// nanoseconds (not from the two fields separately).
func refDurMarshal(secs int64, nanos int32) string {
	if secs < -315576000000 || secs > 315576000000 || nanos < -999999999 || nanos > 999999999 {
		return "err"
	}
	if (secs > 0 && nanos < 0) || (secs < 0 && nanos > 0) {
		return "err"
	}
	total := new(big.Int).Mul(big.NewInt(secs), big1e9)
	total.Add(total, big.NewInt(int64(nanos)))
	sign := ""
	if total.Sign() < 0 {
		sign = "-"
		total.Neg(total)
	}
	q, r := new(big.Int).QuoRem(total, big1e9, new(big.Int))
	out := sign + q.String()
	if r.Sign() != 0 {
		f := fmt.Sprintf("%09d", r.Int64())
		for strings.HasSuffix(f, "000") {
			f = f[:len(f)-3]
		}
		out += "." + f
	}
	return "ok " + out + "s"
}

// the documented grammar: [+-]? ( int [ '.' digit{0,9} ] | '.' digit{1,9} ) 's',  int = 0 | [1-9][0-9]*
var durRe = regexp.MustCompile(`^([+-]?)(?:(0|[1-9][0-9]*)(?:\.([0-9]{0,9}))?|\.([0-9]{1,9}))s$`)

func refDurParse(s string) string {
	m := durRe.FindStringSubmatch(s)
	if m == nil {
		return "none"
	}
	secs := new(big.Int)
	if m[2] != "" {
		secs.SetString(m[2], 10)
	}
	if secs.Cmp(bigMaxDur) > 0 {
		return "none"
	}
	frac := m[3] + m[4]
	for len(frac) < 9 {
		frac += "0"
	}
	nanos, _ := new(big.Int).SetString(frac, 10)
	if m[1] == "-" {
		secs.Neg(secs)
		nanos.Neg(nanos)
	}
	return secs.String() + " " + nanos.String()
}

// ---------- the checks ----------

var fracDigitsRe = regexp.MustCompile(`^-?[0-9]+(?:\.([0-9]+))?s$`)

func durCheckMarshal(c *C, secs int64, nanos int32) {
	in := In{Kind: "dur-fmt", Secs: secs, Nanos: nanos}
	defer c.Recover("Duration marshal", in, "")
	impl := implDurMarshal(secs, nanos)
	c.Case(fmt.Sprintf("dur-fmt %d %d", secs, nanos), impl != "err")
	if c.HasModel() {
		c.Compare("marshalDuration text vs model fmtDuration", in, impl, parseModelText(c.Ask("durfmt %d %d", secs, nanos)))
	}
	ref := refDurMarshal(secs, nanos)
	if impl != ref {
		fail(c, fmt.Sprintf("protojson.Marshal(Duration{%d,%d}) = %q, reference (validity per duration.proto, text from total nanoseconds) = %q", secs, nanos, impl, ref), in, "")
	}
	if f := implDurMarshalField(secs, nanos); f != impl {
		fail(c, fmt.Sprintf("Duration{%d,%d} as a field marshals to %q, standalone %q", secs, nanos, f, impl), in, "")
	}
	if f := implDurMarshalAny(secs, nanos); f != impl {
		fail(c, fmt.Sprintf("Duration{%d,%d} inside Any marshals to %q, standalone %q", secs, nanos, f, impl), in, "")
	}
	if !strings.HasPrefix(impl, "ok ") {
		c.Hist("dur-fmt:err")
		return
	}
	text := impl[3:]
	m := fracDigitsRe.FindStringSubmatch(text)
	if m == nil || !(len(m[1]) == 0 || len(m[1]) == 3 || len(m[1]) == 6 || len(m[1]) == 9) {
		fail(c, fmt.Sprintf("Duration{%d,%d} marshals to %q: not 0, 3, 6 or 9 fractional digits", secs, nanos, text), in, "")
	}
	c.Hist(fmt.Sprintf("dur-fmt:fracdigits=%d", len(m[1])))
	back := implDurUnmarshal(text)
	if back != fmt.Sprintf("%d %d", secs, nanos) {
		fail(c, fmt.Sprintf("Duration{%d,%d} -> %q -> {%s}: does not round-trip", secs, nanos, text, back), in, "")
	}
}

func durValid(secs int64, nanos int32) bool { return refDurMarshal(secs, nanos) != "err" }

func durCheckParse(c *C, s string) {
	in := inStr("dur-parse", s)
	defer c.Recover("Duration unmarshal", in, "")
	impl := implDurUnmarshal(s)
	c.Case("dur-parse "+s, impl != "none")
	if c.HasModel() {
		c.Compare("unmarshalDuration vs model", in, impl, c.Ask("durparse %s", hexStr(s)))
	}
	ref := refDurParse(s)
	if impl != ref {
		fail(c, fmt.Sprintf("protojson.Unmarshal(%q, Duration) = {%s}, documented grammar + range = {%s}", s, impl, ref), in, "")
	}
	if f := implDurUnmarshalField(s); f != impl {
		fail(c, fmt.Sprintf("Duration %q as a field parses to {%s}, standalone {%s}", s, f, impl), in, "")
	}
	if f := implDurUnmarshalAny(s); f != impl {
		fail(c, fmt.Sprintf("Duration %q inside Any parses to {%s}, standalone {%s}", s, f, impl), in, "")
	}
	if impl == "none" {
		return
	}
	c.Hist("dur-parse:accepted")
	var secs int64
	var nanos int32
	fmt.Sscanf(impl, "%d %d", &secs, &nanos)
	if !durValid(secs, nanos) {
		fail(c, fmt.Sprintf("protojson.Unmarshal(%q) produced the invalid Duration{%d,%d}", s, secs, nanos), in, "")
		return
	}
	re := implDurMarshal(secs, nanos)
	if !strings.HasPrefix(re, "ok ") || implDurUnmarshal(re[3:]) != impl {
		fail(c, fmt.Sprintf("%q -> Duration{%d,%d} -> %q does not parse back to the same value", s, secs, nanos, re), in, "")
	}
}

// ---------- streams ----------

func durCorpus(c *C) {
	for _, s := range []string{".s", "-.s", "+.s", "0s", "1s", "0.1s", "1.s", ".1s", "+1s", "-1s", "-.1s", "-0.5s", "-0s",
		"315576000000s", "315576000000.999999999s", "-315576000000.999999999s", "315576000001s", "-315576000001s",
		"9223372036854775807s", "9223372036854775808s", "01s", "00s", "1.0000000000s", "1.000000000s", "s", "", "1", "1S", "1 s", " 1s", "1e1s", "0x1s", "1,5s", "١s", "1.٥s", "1s\n", "--1s", "+-1s", ".", "..s", "1..s", "1.1.s"} {
		durCheckParse(c, s)
	}
	for _, p := range [][2]int64{{0, 0}, {0, -500000000}, {-1, -500000000}, {1, 500000000}, {1, -1}, {-1, 1}, {315576000000, 999999999}, {315576000001, 0}, {0, 1000000000}, {3, 1000}, {3, 1000000}, {3, 1}} {
		durCheckMarshal(c, p[0], int32(p[1]))
	}
}

func around(center int64, r int64) []int64 {
	var out []int64
	for d := -r; d <= r; d++ {
		v := center + d
		if (d < 0 && v > center) || (d > 0 && v < center) {
			continue // overflow
		}
		out = append(out, v)
	}
	return out
}

func durMarshalStream(c *C) {
	var secsB, nanosB []int64
	for _, s := range []int64{0, 1, -1, 315576000000, -315576000000, math.MaxInt64, math.MinInt64, 1000000000, -1000000000} {
		secsB = append(secsB, around(s, 2)...)
	}
	for _, n := range []int64{0, 1, -1, 999, -999, 1000, -1000, 999999, -999999, 1000000, -1000000, 999999999, -999999999, 1000000000, -1000000000, math.MaxInt32, math.MinInt32} {
		for _, v := range around(n, 2) {
			if v >= math.MinInt32 && v <= math.MaxInt32 {
				nanosB = append(nanosB, v)
			}
		}
	}
	for _, s := range secsB {
		for _, n := range nanosB {
			durCheckMarshal(c, s, int32(n))
			if c.Failed() {
				return
			}
		}
	}
	c.Hist(fmt.Sprintf("dur-fmt:boundary-pairs=%d", len(secsB)*len(nanosB)))
	n := c.N(100000, 1000000)
	for i := 0; i < n && !c.Failed(); i++ {
		s, ns := randDuration(c)
		durCheckMarshal(c, s, ns)
	}
}

func randDuration(c *C) (int64, int32) {
	r := c.Rand
	var s int64
	switch r.Intn(6) {
	case 0:
		s = r.Int63n(2*315576000000+1) - 315576000000
	case 1:
		s = int64(r.Uint64())
	case 2:
		s = r.Int63n(2001) - 1000
	case 3:
		s = 0
	case 4:
		s = []int64{315576000000, -315576000000}[r.Intn(2)] + r.Int63n(7) - 3
	default:
		s = r.Int63n(1<<uint(1+r.Intn(40))) * int64(1-2*r.Intn(2))
	}
	var n int64
	switch r.Intn(6) {
	case 0:
		n = r.Int63n(1999999999) - 999999999
	case 1:
		n = int64(int32(r.Uint32()))
	case 2:
		n = r.Int63n(1000) * []int64{1, 1000, 1000000}[r.Intn(3)]
	case 3:
		n = 0
	case 4:
		n = r.Int63n(1000000) * 1000
	default:
		n = r.Int63n(999999999 + 1)
	}
	// mostly matching signs
	if r.Intn(8) != 0 {
		if s < 0 && n > 0 || s > 0 && n < 0 {
			n = -n
		}
	} else if r.Intn(2) == 0 {
		n = -n
	}
	return s, int32(n)
}

const durAlphabet = "+-.,019se"

func durParseExhaustive(c *C) {
	maxLen := c.N(5, 6)
	buf := make([]byte, 0, maxLen)
	var rec func()
	count := 0
	rec = func() {
		if c.Failed() {
			return
		}
		durCheckParse(c, string(buf))
		count++
		if len(buf) == maxLen {
			return
		}
		for i := 0; i < len(durAlphabet); i++ {
			buf = append(buf, durAlphabet[i])
			rec()
			buf = buf[:len(buf)-1]
		}
	}
	rec()
	if !c.Failed() {
		c.R.Exhaustive = true
		c.R.Notes = append(c.R.Notes, fmt.Sprintf("Duration parse: all %d strings of length <= %d over %q enumerated", count, maxLen, durAlphabet))
	}
}

func randDigits(c *C, n int) string {
	b := make([]byte, n)
	for i := range b {
		b[i] = byte('0' + c.Rand.Intn(10))
	}
	return string(b)
}

// randDurString: grammar-directed, mostly valid.
func randDurString(c *C) string {
	r := c.Rand
	var sb strings.Builder
	switch r.Intn(5) {
	case 0:
		sb.WriteByte('-')
	case 1:
		sb.WriteByte('+')
	}
	hasInt := r.Intn(6) != 0
	if hasInt {
		switch r.Intn(8) {
		case 0:
			sb.WriteString("0")
		case 1:
			sb.WriteString(fmt.Sprint(315576000000 + r.Int63n(5) - 2))
		case 2:
			sb.WriteString([]string{"9223372036854775807", "9223372036854775808", "18446744073709551616", "315576000000", "315575999999"}[r.Intn(5)])
		case 3:
			sb.WriteString("0" + randDigits(c, 1+r.Intn(3))) // leading zero
		case 4:
			sb.WriteString(randDigits(c, 1+r.Intn(25)))
		default:
			sb.WriteString(fmt.Sprint(r.Int63n(315576000001)))
		}
	}
	if !hasInt || r.Intn(2) == 0 {
		sb.WriteByte('.')
		k := r.Intn(12)
		if r.Intn(3) == 0 {
			k = []int{0, 1, 8, 9, 10}[r.Intn(5)]
		}
		f := randDigits(c, k)
		if r.Intn(3) == 0 {
			f = strings.Repeat("0", r.Intn(k+1)) + f[:k-min(k, r.Intn(k+1))]
		}
		sb.WriteString(f)
	}
	sb.WriteByte('s')
	return sb.String()
}

var mutAtoms = []string{"+", "-", ".", ",", "0", "1", "9", "s", "e", "E", "S", " ", "\t", "\n", "x", "_", ":", "é", "١", "１", " ", "\x00", "5", "00", "ss", ".."}

func mutate(c *C, s string, atoms []string) string {
	r := c.Rand
	rs := []rune(s)
	k := 1 + r.Intn(2)
	for ; k > 0; k-- {
		switch r.Intn(4) {
		case 0: // insert
			i := r.Intn(len(rs) + 1)
			a := []rune(atoms[r.Intn(len(atoms))])
			rs = append(rs[:i], append(a, rs[i:]...)...)
		case 1: // delete
			if len(rs) > 0 {
				i := r.Intn(len(rs))
				rs = append(rs[:i], rs[i+1:]...)
			}
		case 2: // replace
			if len(rs) > 0 {
				i := r.Intn(len(rs))
				a := []rune(atoms[r.Intn(len(atoms))])
				rs = append(rs[:i], append(a, rs[i+1:]...)...)
			}
		default: // swap neighbours
			if len(rs) > 1 {
				i := r.Intn(len(rs) - 1)
				rs[i], rs[i+1] = rs[i+1], rs[i]
			}
		}
	}
	return string(rs)
}

func durParseRandom(c *C) {
	n := c.N(60000, 600000)
	for i := 0; i < n && !c.Failed(); i++ {
		s := randDurString(c)
		if i%2 == 1 {
			s = mutate(c, s, mutAtoms)
		}
		durCheckParse(c, s)
	}
}
