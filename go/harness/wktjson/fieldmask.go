package main

import (
	"fmt"
	"regexp"
	"strings"
	"unicode"

	"google.golang.org/protobuf/encoding/protojson"
	textpb2 "google.golang.org/protobuf/internal/testprotos/textpb2"
	"google.golang.org/protobuf/types/known/anypb"
	"google.golang.org/protobuf/types/known/fieldmaskpb"

	vh "google.golang.org/protobuf/internal/zz_verif_vh"
)

func init() {
	moreSteps = append(moreSteps, fmCorpus, fmStream)
	replayers["fm-marshal"] = func(c *C, i In) { fmCheckMarshal(c, i.Paths) }
	replayers["fm-unmarshal"] = func(c *C, i In) { fmCheckUnmarshal(c, string(vh.UnHex(i.Hex))) }
}

// ---------- implementation voice ----------

func implFmMarshal(paths []string) string {
	b, err := protojson.Marshal(&fieldmaskpb.FieldMask{Paths: paths})
	if err != nil {
		return "err"
	}
	s, ok := unquoteJSON(b)
	if !ok {
		return "notstring " + string(b)
	}
	return "ok " + s
}

func implFmMarshalField(paths []string) string {
	b, err := protojson.Marshal(&textpb2.KnownTypes{OptFieldmask: &fieldmaskpb.FieldMask{Paths: paths}})
	if err != nil {
		return "err"
	}
	v, ok := fieldOf(b, "optFieldmask")
	if !ok {
		return "nofield " + string(b)
	}
	s, ok := unquoteJSON(v)
	if !ok {
		return "notstring " + string(b)
	}
	return "ok " + s
}

func implFmMarshalAny(paths []string) string {
	a, err := anypb.New(&fieldmaskpb.FieldMask{Paths: paths})
	if err != nil {
		return "anyerr"
	}
	b, err := protojson.Marshal(a)
	if err != nil {
		return "err"
	}
	v, ok := fieldOf(b, "value")
	if !ok {
		return "nofield " + string(b)
	}
	s, ok := unquoteJSON(v)
	if !ok {
		return "notstring " + string(b)
	}
	return "ok " + s
}

func pathsCanon(ps []string) string {
	out := "ok"
	for _, p := range ps {
		out += " " + hexStr(p)
	}
	return out
}

func implFmUnmarshal(s string) (string, []string) {
	var m fieldmaskpb.FieldMask
	if err := protojson.Unmarshal([]byte(jsonString(s)), &m); err != nil {
		return "err", nil
	}
	return pathsCanon(m.Paths), m.Paths
}

func implFmUnmarshalField(s string) string {
	var m textpb2.KnownTypes
	if err := protojson.Unmarshal([]byte(`{"optFieldmask":`+jsonString(s)+`}`), &m); err != nil {
		return "err"
	}
	return pathsCanon(m.GetOptFieldmask().GetPaths())
}

// ---------- independent reference ----------

var (
	fullNameRe = regexp.MustCompile(`^[A-Za-z_][A-Za-z0-9_]*(\.[A-Za-z_][A-Za-z0-9_]*)*$`)
	// reversible under snake(camel(.)): no upper-case letter, every '_' followed by a lower-case letter
	irreversibleRe = regexp.MustCompile(`[A-Z]|_([^a-z]|$)`)
	underLowerRe   = regexp.MustCompile(`_([a-z])`)
	camelPathRe    = regexp.MustCompile(`^[A-Za-z][A-Za-z0-9]*(\.[A-Za-z][A-Za-z0-9]*)*$`)
	upperRe        = regexp.MustCompile(`[A-Z]`)
)

func refFmMarshal(paths []string) string {
	var out []string
	for _, p := range paths {
		if !fullNameRe.MatchString(p) || irreversibleRe.MatchString(p) {
			return "err"
		}
		out = append(out, underLowerRe.ReplaceAllStringFunc(p, func(m string) string { return strings.ToUpper(m[1:]) }))
	}
	return "ok " + strings.Join(out, ",")
}

func refFmUnmarshal(s string) string {
	s = strings.TrimFunc(s, unicode.IsSpace)
	if s == "" {
		return "ok"
	}
	var out []string
	for _, p := range strings.Split(s, ",") {
		if !camelPathRe.MatchString(p) {
			return "err"
		}
		out = append(out, upperRe.ReplaceAllStringFunc(p, func(m string) string { return "_" + strings.ToLower(m) }))
	}
	return pathsCanon(out)
}

// ---------- the checks ----------

func fmCheckMarshal(c *C, paths []string) {
	in := In{Kind: "fm-marshal", Paths: paths}
	defer c.Recover("FieldMask marshal", in, "")
	impl := implFmMarshal(paths)
	c.Case("fm-marshal "+strings.Join(paths, "\x00"), impl != "err" && len(paths) > 0)
	if c.HasModel() {
		req := "fmmarshal"
		for _, p := range paths {
			req += " " + hexStr(p)
		}
		c.Compare("marshalFieldMask vs model", in, impl, parseModelText(c.Ask("%s", req)))
	}
	if ref := refFmMarshal(paths); impl != ref {
		fail(c, fmt.Sprintf("protojson.Marshal(FieldMask%q) = %q, reference (valid full names, reversible spelling) = %q", paths, impl, ref), in, "")
	}
	if f := implFmMarshalField(paths); f != impl && len(paths) > 0 {
		fail(c, fmt.Sprintf("FieldMask%q as a field marshals to %q, standalone %q", paths, f, impl), in, "")
	}
	if f := implFmMarshalAny(paths); f != impl {
		fail(c, fmt.Sprintf("FieldMask%q inside Any marshals to %q, standalone %q", paths, f, impl), in, "")
	}
	if !strings.HasPrefix(impl, "ok ") {
		c.Hist("fm-marshal:err")
		return
	}
	c.Hist("fm-marshal:ok")
	back, _ := implFmUnmarshal(impl[3:])
	if back != pathsCanon(paths) {
		fail(c, fmt.Sprintf("FieldMask%q -> %q -> %s: does not round-trip", paths, impl[3:], back), in, "")
	}
}

func fmCheckUnmarshal(c *C, s string) {
	in := inStr("fm-unmarshal", s)
	defer c.Recover("FieldMask unmarshal", in, "")
	impl, paths := implFmUnmarshal(s)
	c.Case("fm-unmarshal "+s, impl != "err" && len(paths) > 0)
	if c.HasModel() {
		c.Compare("unmarshalFieldMask vs model", in, impl, c.Ask("fmunmarshal %s", hexStr(s)))
	}
	if ref := refFmUnmarshal(s); impl != ref {
		fail(c, fmt.Sprintf("protojson.Unmarshal(%q, FieldMask) = %s, reference = %s", s, impl, ref), in, "")
	}
	if f := implFmUnmarshalField(s); f != impl {
		fail(c, fmt.Sprintf("FieldMask %q as a field parses to %s, standalone %s", s, f, impl), in, "")
	}
	if impl == "err" {
		return
	}
	c.Hist("fm-unmarshal:ok")
	// whatever was parsed marshals again, to the trimmed input
	re := implFmMarshal(paths)
	if re != "ok "+strings.TrimFunc(s, unicode.IsSpace) {
		fail(c, fmt.Sprintf("%q -> FieldMask%q -> %q: not the (trimmed) input", s, paths, re), in, "")
	}
}

// ---------- generators ----------

func fmCorpus(c *C) {
	for _, ps := range [][]string{nil, {}, {""}, {"a"}, {"foo_bar"}, {"foo_bar.baz_qux", "a1"}, {"fooBar"}, {"foo__bar"}, {"foo_"}, {"_foo"}, {"_"}, {"foo_1"},
		{"foo_Bar"}, {"foo.bar."}, {".foo"}, {"foo..bar"}, {"1a"}, {"a,b"}, {"a b"}, {"é"}, {"a", ""}, {"x_y_z.p_q"}, {"a.b", "a.b"}, {"foo_bar", "Foo"}} {
		fmCheckMarshal(c, ps)
	}
	for _, s := range []string{"", " ", "a", "fooBar", "fooBar.bazQux,a1", " fooBar ", "\u00a0a\u2003", "\ufeffa", "a\u200b", "a,", ",a", "a,,b", "a, b", "foo_bar", "Foo", "Foo.Bar", "1a", "a.1", "a.", ".a",
		"a..b", "é", "a,é", "fooBAR", "\t\n a,b \r", "a\u0085", " a"} {
		fmCheckUnmarshal(c, s)
	}
}

var fmAtomsCommon = []string{"a", "b", "foo", "bar", "x", "z9", "q", "ab_cd", "_", "__", "_a", "a_", "_1", "1", "9x", "A", "Ab", "aB", "ID", ".", "..", ",", " ", "-", "é", "Ω", ""}

func randSnakeName(c *C) string {
	r := c.Rand
	var sb strings.Builder
	comps := 1 + r.Intn(3)
	for i := 0; i < comps; i++ {
		if i > 0 {
			sb.WriteByte('.')
		}
		words := 1 + r.Intn(3)
		for w := 0; w < words; w++ {
			if w > 0 {
				sb.WriteByte('_')
			}
			n := 1 + r.Intn(4)
			for k := 0; k < n; k++ {
				if k > 0 && r.Intn(5) == 0 {
					sb.WriteByte(byte('0' + r.Intn(10)))
				} else {
					sb.WriteByte(byte('a' + r.Intn(26)))
				}
			}
		}
	}
	return sb.String()
}

func randCamelName(c *C) string {
	s := randSnakeName(c)
	return underLowerRe.ReplaceAllStringFunc(s, func(m string) string { return strings.ToUpper(m[1:]) })
}

func fmStream(c *C) {
	r := c.Rand
	n := c.N(30000, 300000)
	for i := 0; i < n && !c.Failed(); i++ {
		k := r.Intn(5)
		paths := make([]string, 0, k)
		for j := 0; j < k; j++ {
			var p string
			switch r.Intn(4) {
			case 0: // soup of atoms
				m := 1 + r.Intn(4)
				for x := 0; x < m; x++ {
					p += fmAtomsCommon[r.Intn(len(fmAtomsCommon))]
				}
			case 1:
				p = mutate(c, randSnakeName(c), fmAtomsCommon)
			default:
				p = randSnakeName(c)
			}
			paths = append(paths, p)
		}
		fmCheckMarshal(c, paths)
	}
	spaces := []string{"", "", " ", "\t", "\n", "\u00a0", "\u2003", "\u0085", "\u3000", "\ufeff", "\u200b", "  "}
	for i := 0; i < n && !c.Failed(); i++ {
		k := r.Intn(4)
		var parts []string
		for j := 0; j < k; j++ {
			var p string
			switch r.Intn(5) {
			case 0:
				m := 1 + r.Intn(3)
				for x := 0; x < m; x++ {
					p += fmAtomsCommon[r.Intn(len(fmAtomsCommon))]
				}
			case 1:
				p = mutate(c, randCamelName(c), fmAtomsCommon)
			default:
				p = randCamelName(c)
			}
			parts = append(parts, p)
		}
		s := spaces[r.Intn(len(spaces))] + strings.Join(parts, ",") + spaces[r.Intn(len(spaces))]
		if r.Intn(10) == 0 {
			s = mutate(c, s, append([]string{"\u00a0", "\t"}, fmAtomsCommon...))
		}
		fmCheckUnmarshal(c, s)
	}
}
