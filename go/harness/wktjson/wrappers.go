package main

import (
	ejson "encoding/json"
	"fmt"
	"math"
	"strings"

	"google.golang.org/protobuf/encoding/protojson"
	textpb2 "google.golang.org/protobuf/internal/testprotos/textpb2"
	"google.golang.org/protobuf/proto"
	"google.golang.org/protobuf/reflect/protodesc"
	"google.golang.org/protobuf/reflect/protoreflect"
	"google.golang.org/protobuf/types/descriptorpb"
	"google.golang.org/protobuf/types/dynamicpb"
	"google.golang.org/protobuf/types/known/anypb"
	"google.golang.org/protobuf/types/known/emptypb"
	"google.golang.org/protobuf/types/known/wrapperspb"
)

func init() {
	moreSteps = append(moreSteps, wrapperStream, emptyChecks, dispatchChecks)
}

// ---------- wrappers = their scalar ----------

type wrapCase struct {
	name    string
	wrapper proto.Message // the wrapper holding the value
	scalar  *textpb2.Scalars
	field   string // JSON name of the scalar field
	known   *textpb2.KnownTypes
	kfield  string
}

func wrapCases(c *C) []wrapCase {
	r := c.Rand
	i32 := []int32{0, 1, -1, math.MaxInt32, math.MinInt32, int32(r.Uint32())}[r.Intn(6)]
	i64 := []int64{0, 1, -1, math.MaxInt64, math.MinInt64, 1 << 53, -(1 << 53) - 1, int64(r.Uint64())}[r.Intn(8)]
	u32 := []uint32{0, 1, math.MaxUint32, r.Uint32()}[r.Intn(4)]
	u64 := []uint64{0, 1, math.MaxUint64, 1 << 63, r.Uint64()}[r.Intn(5)]
	f32 := []float32{0, float32(math.Copysign(0, -1)), 1.5, math.MaxFloat32, math.SmallestNonzeroFloat32, float32(math.NaN()), float32(math.Inf(1)), float32(math.Inf(-1)), math.Float32frombits(r.Uint32())}[r.Intn(9)]
	f64 := []float64{0, math.Copysign(0, -1), 1.5, math.MaxFloat64, math.SmallestNonzeroFloat64, math.NaN(), math.Inf(1), math.Inf(-1), math.Float64frombits(r.Uint64())}[r.Intn(9)]
	str := valStrings[r.Intn(len(valStrings))]
	byt := []byte(valStrings[r.Intn(len(valStrings))])
	if r.Intn(3) == 0 {
		byt = []byte{0xff, 0xfe, 0x00, byte(r.Intn(256))}
	}
	b := r.Intn(2) == 0
	return []wrapCase{
		{"BoolValue", wrapperspb.Bool(b), &textpb2.Scalars{OptBool: &b}, "optBool", &textpb2.KnownTypes{OptBool: wrapperspb.Bool(b)}, "optBool"},
		{"Int32Value", wrapperspb.Int32(i32), &textpb2.Scalars{OptInt32: &i32}, "optInt32", &textpb2.KnownTypes{OptInt32: wrapperspb.Int32(i32)}, "optInt32"},
		{"Int64Value", wrapperspb.Int64(i64), &textpb2.Scalars{OptInt64: &i64}, "optInt64", &textpb2.KnownTypes{OptInt64: wrapperspb.Int64(i64)}, "optInt64"},
		{"UInt32Value", wrapperspb.UInt32(u32), &textpb2.Scalars{OptUint32: &u32}, "optUint32", &textpb2.KnownTypes{OptUint32: wrapperspb.UInt32(u32)}, "optUint32"},
		{"UInt64Value", wrapperspb.UInt64(u64), &textpb2.Scalars{OptUint64: &u64}, "optUint64", &textpb2.KnownTypes{OptUint64: wrapperspb.UInt64(u64)}, "optUint64"},
		{"FloatValue", wrapperspb.Float(f32), &textpb2.Scalars{OptFloat: &f32}, "optFloat", &textpb2.KnownTypes{OptFloat: wrapperspb.Float(f32)}, "optFloat"},
		{"DoubleValue", wrapperspb.Double(f64), &textpb2.Scalars{OptDouble: &f64}, "optDouble", &textpb2.KnownTypes{OptDouble: wrapperspb.Double(f64)}, "optDouble"},
		{"StringValue", wrapperspb.String(str), &textpb2.Scalars{OptString: &str}, "optString", &textpb2.KnownTypes{OptString: wrapperspb.String(str)}, "optString"},
		{"BytesValue", wrapperspb.Bytes(byt), &textpb2.Scalars{OptBytes: byt}, "optBytes", &textpb2.KnownTypes{OptBytes: wrapperspb.Bytes(byt)}, "optBytes"},
	}
}

// canonical form of a JSON scalar for comparison (protojson may vary insignificant whitespace only
// between members, never inside a scalar, so the raw text is comparable)
func rawOf(b []byte, err error, field string) string {
	if err != nil {
		return "err"
	}
	if field == "" {
		return "ok " + strings.TrimSpace(string(b))
	}
	v, ok := fieldOf(b, field)
	if !ok {
		return "nofield " + string(b)
	}
	return "ok " + strings.TrimSpace(string(v))
}

// bit-exact comparison (NaN payloads of float wrappers are not preserved by JSON: all NaNs print "NaN")
func sameWrapper(a, b proto.Message) bool {
	if proto.Equal(a, b) {
		return true
	}
	ab, _ := proto.MarshalOptions{Deterministic: true}.Marshal(a)
	bb, _ := proto.MarshalOptions{Deterministic: true}.Marshal(b)
	return string(ab) == string(bb)
}

func isNaNWrapper(m proto.Message) bool {
	switch x := m.(type) {
	case *wrapperspb.FloatValue:
		return x.Value != x.Value
	case *wrapperspb.DoubleValue:
		return x.Value != x.Value
	}
	return false
}

func wrapperStream(c *C) {
	n := c.N(3000, 30000)
	literals := []string{`0`, `1`, `-1`, `"1"`, `"-1"`, `1.0`, `1.5`, `1e2`, `"1e2"`, `true`, `false`, `"true"`, `null`, `"x"`, `""`, `"NaN"`, `"Infinity"`, `"-Infinity"`, `NaN`, `{}`, `[]`, `[1]`, `{"value":1}`,
		`4294967296`, `2147483648`, `-2147483649`, `9223372036854775807`, `9223372036854775808`, `18446744073709551615`, `18446744073709551616`, `"9223372036854775807"`, `1e400`, `-0`, `0.5`, `" 1"`, `"1 "`, `"AQI="`, `"AQI"`, `"_-8="`, `"!!!"`, `3.4028235e38`, `3.5e38`, `1e-50`}
	for i := 0; i < n && !c.Failed(); i++ {
		for _, w := range wrapCases(c) {
			in := In{Kind: "wrapper", Arg: w.name + " " + fmt.Sprint(w.wrapper)}
			func() {
				defer c.Recover("wrapper "+w.name, in, "")
				wb, werr := protojson.Marshal(w.wrapper)
				sb, serr := protojson.Marshal(w.scalar)
				kb, kerr := protojson.Marshal(w.known)
				ws, ss, ks := rawOf(wb, werr, ""), rawOf(sb, serr, w.field), rawOf(kb, kerr, w.kfield)
				c.Case("wrapper "+w.name+" "+ws, werr == nil)
				c.Hist("wrapper:" + w.name)
				if ws != ss || ks != ss {
					fail(c, fmt.Sprintf("%s: standalone %s, as a field %s, plain scalar field %s", w.name, ws, ks, ss), in, "")
				}
				if werr != nil {
					return
				}
				back := w.wrapper.ProtoReflect().New().Interface()
				if err := protojson.Unmarshal(wb, back); err != nil || !(sameWrapper(back, w.wrapper) || isNaNWrapper(w.wrapper) && isNaNWrapper(back)) {
					fail(c, fmt.Sprintf("%s %v -> %s -> %v (err %v): does not round-trip", w.name, w.wrapper, wb, back, err), in, "")
				}
				if a, err := anypb.New(w.wrapper); err == nil {
					ab, aerr := protojson.Marshal(a)
					if as := rawOf(ab, aerr, "value"); as != ws {
						fail(c, fmt.Sprintf("%s inside Any marshals to %s, standalone %s", w.name, as, ws), in, "")
					}
				}
			}()
			// parse side: the wrapper as a field accepts exactly what the scalar field accepts, with the same value
			lit := literals[c.Rand.Intn(len(literals))]
			func() {
				in := In{Kind: "wrapper-parse", Arg: w.name + " " + lit}
				defer c.Recover("wrapper parse "+w.name, in, "")
				var k textpb2.KnownTypes
				var s textpb2.Scalars
				kerr := protojson.Unmarshal([]byte(`{"`+w.kfield+`":`+lit+`}`), &k)
				serr := protojson.Unmarshal([]byte(`{"`+w.field+`":`+lit+`}`), &s)
				c.Case("wrapper-parse "+w.name+" "+lit, kerr == nil && lit != "null")
				if (kerr == nil) != (serr == nil) {
					fail(c, fmt.Sprintf("%s field from %s: err=%v, plain scalar field: err=%v", w.name, lit, kerr, serr), in, "")
					return
				}
				if kerr != nil {
					return
				}
				// compare through re-marshalling both
				kb, e1 := protojson.Marshal(&k)
				sb, e2 := protojson.Marshal(&s)
				if rawOf(kb, e1, w.kfield) != rawOf(sb, e2, w.field) {
					fail(c, fmt.Sprintf("%s field from %s holds %s, plain scalar field holds %s", w.name, lit, kb, sb), in, "")
				}
				// standalone: same verdict except for null (a field is left unset; a top-level wrapper has no null form)
				back := w.wrapper.ProtoReflect().New().Interface()
				terr := protojson.Unmarshal([]byte(lit), back)
				if lit != "null" && (terr == nil) != (kerr == nil) {
					fail(c, fmt.Sprintf("%s from %s standalone: err=%v, as a field: err=%v", w.name, lit, terr, kerr), in, "")
				}
			}()
		}
	}
}

// ---------- Empty ----------

func emptyChecks(c *C) {
	chk := func(ok bool, what string) {
		c.Case("empty "+what, true)
		if !ok {
			fail(c, "Empty: "+what, In{Kind: "empty", Arg: what}, "")
		}
	}
	b, err := protojson.Marshal(&emptypb.Empty{})
	chk(err == nil && string(b) == "{}", "marshals to {}")
	kb, err := protojson.Marshal(&textpb2.KnownTypes{OptEmpty: &emptypb.Empty{}})
	v, _ := fieldOf(kb, "optEmpty")
	chk(err == nil && strings.TrimSpace(string(v)) == "{}", "as a field marshals to {}")
	a, _ := anypb.New(&emptypb.Empty{})
	ab, err := protojson.Marshal(a)
	_, hasValue := fieldOf(ab, "value")
	ty, _ := fieldOf(ab, "@type")
	// wellKnownTypeMarshaler has no entry for Empty: inside Any it takes the regular form (only "@type")
	chk(err == nil && !hasValue && string(ty) == `"type.googleapis.com/google.protobuf.Empty"`, `inside Any marshals to the regular form {"@type":...} without "value"`)
	for _, t := range []struct {
		text    string
		ok, okD bool // accepted by default / with DiscardUnknown
	}{
		{`{}`, true, true}, {` { } `, true, true}, {`{"a":1}`, false, true}, {`{"a":{"b":[1,{}]}}`, false, true}, {`[]`, false, false}, {`null`, false, false},
		{`""`, false, false}, {`0`, false, false}, {`{"a":1,"a":2}`, false, true}, {`{`, false, false}, {`{}{}`, false, false},
	} {
		e1 := protojson.Unmarshal([]byte(t.text), &emptypb.Empty{})
		e2 := protojson.UnmarshalOptions{DiscardUnknown: true}.Unmarshal([]byte(t.text), &emptypb.Empty{})
		chk((e1 == nil) == t.ok, fmt.Sprintf("Unmarshal(%s) accepted=%v, expected %v", t.text, e1 == nil, t.ok))
		chk((e2 == nil) == t.okD, fmt.Sprintf("Unmarshal(%s) with DiscardUnknown accepted=%v, expected %v", t.text, e2 == nil, t.okD))
		var k textpb2.KnownTypes
		e3 := protojson.Unmarshal([]byte(`{"optEmpty":`+t.text+`}`), &k)
		if t.text != "null" && t.text != "{" && t.text != "{}{}" {
			chk((e3 == nil) == t.ok, fmt.Sprintf("as a field: Unmarshal(%s) accepted=%v, expected %v", t.text, e3 == nil, t.ok))
		}
	}
	var any1, any2 anypb.Any
	e1 := protojson.Unmarshal([]byte(`{"@type":"type.googleapis.com/google.protobuf.Empty","value":{}}`), &any1)
	e2 := protojson.Unmarshal([]byte(`{"@type":"type.googleapis.com/google.protobuf.Empty"}`), &any2)
	chk(e1 == nil && e2 == nil && proto.Equal(&any1, &any2), `inside Any: "value":{} and an omitted value both accepted, same result`)
}

// ---------- dispatch: only names directly inside package google.protobuf take the special forms ----------

func dynMessage(pkg string, outer string, short string, fields []*descriptorpb.FieldDescriptorProto) (protoreflect.MessageDescriptor, error) {
	msg := &descriptorpb.DescriptorProto{Name: proto.String(short), Field: fields}
	fdp := &descriptorpb.FileDescriptorProto{Name: proto.String("verif_dispatch.proto"), Syntax: proto.String("proto3")}
	if pkg != "" {
		fdp.Package = proto.String(pkg)
	}
	if outer != "" {
		fdp.MessageType = []*descriptorpb.DescriptorProto{{Name: proto.String(outer), NestedType: []*descriptorpb.DescriptorProto{msg}}}
	} else {
		fdp.MessageType = []*descriptorpb.DescriptorProto{msg}
	}
	fd, err := protodesc.NewFile(fdp, nil)
	if err != nil {
		return nil, err
	}
	if outer != "" {
		return fd.Messages().Get(0).Messages().Get(0), nil
	}
	return fd.Messages().Get(0), nil
}

func fld(name string, num int32, t descriptorpb.FieldDescriptorProto_Type, repeated bool) *descriptorpb.FieldDescriptorProto {
	l := descriptorpb.FieldDescriptorProto_LABEL_OPTIONAL
	if repeated {
		l = descriptorpb.FieldDescriptorProto_LABEL_REPEATED
	}
	return &descriptorpb.FieldDescriptorProto{Name: proto.String(name), Number: proto.Int32(num), Type: t.Enum(), Label: l.Enum(), JsonName: proto.String(name)}
}

func dispatchChecks(c *C) {
	type shape struct {
		short   string
		fields  []*descriptorpb.FieldDescriptorProto
		set     func(m protoreflect.Message)
		special string // the special JSON form of the value set by `set`
	}
	secNanos := []*descriptorpb.FieldDescriptorProto{fld("seconds", 1, descriptorpb.FieldDescriptorProto_TYPE_INT64, false), fld("nanos", 2, descriptorpb.FieldDescriptorProto_TYPE_INT32, false)}
	set1 := func(m protoreflect.Message) {
		m.Set(m.Descriptor().Fields().ByNumber(1), protoreflect.ValueOfInt64(1))
	}
	shapes := []shape{
		{"Duration", secNanos, set1, `"1s"`},
		{"Timestamp", secNanos, set1, `"1970-01-01T00:00:01Z"`},
		{"Int64Value", []*descriptorpb.FieldDescriptorProto{fld("value", 1, descriptorpb.FieldDescriptorProto_TYPE_INT64, false)}, set1, `"1"`},
		{"BoolValue", []*descriptorpb.FieldDescriptorProto{fld("value", 1, descriptorpb.FieldDescriptorProto_TYPE_BOOL, false)}, func(m protoreflect.Message) {
			m.Set(m.Descriptor().Fields().ByNumber(1), protoreflect.ValueOfBool(true))
		}, `true`},
		{"StringValue", []*descriptorpb.FieldDescriptorProto{fld("value", 1, descriptorpb.FieldDescriptorProto_TYPE_STRING, false)}, func(m protoreflect.Message) {
			m.Set(m.Descriptor().Fields().ByNumber(1), protoreflect.ValueOfString("x"))
		}, `"x"`},
		{"FieldMask", []*descriptorpb.FieldDescriptorProto{fld("paths", 1, descriptorpb.FieldDescriptorProto_TYPE_STRING, true)}, func(m protoreflect.Message) {
			m.Mutable(m.Descriptor().Fields().ByNumber(1)).List().Append(protoreflect.ValueOfString("a_b"))
		}, `"aB"`},
		// not in the table: same shape as Duration under other names
		{"Durations", secNanos, set1, `"1s"`},
		{"duration", secNanos, set1, `"1s"`},
	}
	places := []struct{ pkg, outer string }{
		{"google.protobuf", ""}, {"google.protobuf", "Outer"}, {"google.protobufx", ""}, {"google", ""}, {"foo", ""}, {"", ""}, {"foo.google.protobuf", ""},
	}
	for _, sh := range shapes {
		for _, pl := range places {
			md, err := dynMessage(pl.pkg, pl.outer, sh.short, sh.fields)
			in := In{Kind: "dispatch", Arg: fmt.Sprintf("%s|%s|%s", pl.pkg, pl.outer, sh.short)}
			if err != nil {
				fail(c, "cannot build descriptor: "+err.Error(), in, "")
				continue
			}
			func() {
				defer c.Recover("dispatch", in, "")
				m := dynamicpb.NewMessage(md)
				sh.set(m)
				b, merr := protojson.Marshal(m)
				special := merr == nil && strings.TrimSpace(string(b)) == sh.special
				regular := merr == nil && ejson.Valid(b) && strings.HasPrefix(strings.TrimSpace(string(b)), "{")
				// parse side: is the special form accepted?
				m2 := dynamicpb.NewMessage(md)
				uerr := protojson.Unmarshal([]byte(sh.special), m2)
				uSpecial := uerr == nil && proto.Equal(m, m2)
				parent, short := string(md.FullName().Parent()), string(md.FullName().Name())
				expM, expU := "none", "none"
				if c.HasModel() {
					ans := strings.Fields(c.Ask("dispatch %s %s", orDash(parent), short))
					if len(ans) == 2 {
						expM, expU = ans[0], ans[1]
					}
				} else if parent == "google.protobuf" && sh.short != "Durations" && sh.short != "duration" {
					expM, expU = "some", "some"
				}
				c.Case("dispatch "+in.Arg, special)
				if special != (expM != "none") || (!special && !regular) {
					fail(c, fmt.Sprintf("%s marshals to %s (err %v); model dispatch: marshaler %s", md.FullName(), b, merr, expM), in, "")
				}
				if uSpecial != (expU != "none") {
					fail(c, fmt.Sprintf("%s: special form %s accepted=%v (err %v); model dispatch: unmarshaler %s", md.FullName(), sh.special, uSpecial, uerr, expU), in, "")
				}
			}()
		}
	}
}

func orDash(s string) string {
	if s == "" {
		return "-"
	}
	return s
}
