// wktjson harness: C23 "Well-known types use their JSON forms exactly".
//
// Three voices: the implementation (protojson.Marshal/Unmarshal driven in-process on the real
// durationpb / timestamppb / fieldmaskpb / wrapperspb / structpb / emptypb types, standalone, as
// fields of textpb2.KnownTypes and inside Any), the Lean model (pbmodel_wktjson over the line
// protocol) and independent references written here (regular expressions, math/big, a day count
// that is neither Go's time package nor the model's algorithm, encoding/json).
package main

import (
	ejson "encoding/json"
	"fmt"
	"strings"
	"unicode/utf8"

	vh "google.golang.org/protobuf/internal/zz_verif_vh"
)

type C = vh.Ctx

// Classifier signatures of the known findings that remain on the current tree.  (DESIGN finding 8,
// ".s" accepted as a Duration, and the ',' part of finding 9 are repaired in /repo 5d68604 and 5508893:
// they carry no signature any more, a recurrence is a VIOLATION.)
const (
	sigTsOffset = "json-timestamp-offset-range"
	sigTsHour1  = "json-timestamp-one-digit-hour"
)

func main() { vh.Main("wktjson", run) }

func run(c *C) {
	if c.Prop != "C23" {
		panic("wktjson harness: unknown property " + c.Prop)
	}
	c.R.Rule = "Duration: all (seconds,nanos) within 2 of every boundary of the code + random pairs through protojson.Marshal (standalone, field of textpb2.KnownTypes, inside Any), text compared with the model and a big-integer reference, parsed back; EVERY string of length <= 5 (quick) / 6 (thorough) over the alphabet + - . , 0 1 9 s e plus random grammar-directed strings and mutations through protojson.Unmarshal, compared with the model and a regexp/big.Int reference. Timestamp: boundary instants + random instants formatted and parsed back; mutations of valid RFC 3339 strings (offsets, case, separators, digit counts, ranges) against the model of time.Parse and an independent RFC 3339 reference. FieldMask: random path lists, both directions. Struct/Value/ListValue: random nested values incl. NaN/Inf/unset kind, both directions; wrappers and Empty. A case is non-trivial when the implementation accepts the input (marshal produced text / unmarshal succeeded); distinct by input."
	for _, raw := range c.ReplayInputs() {
		var i In
		if ejson.Unmarshal(raw, &i) != nil {
			continue
		}
		replay(c, i)
	}
	steps := []func(*C){durCorpus, durMarshalStream, durParseExhaustive, durParseRandom,
		tsCorpus, tsMarshalStream, tsParseStream}
	steps = append(steps, moreSteps...)
	for _, f := range steps {
		if c.Failed() {
			return
		}
		f(c)
	}
}

// moreSteps is extended by the other files of this package (fieldmask.go, structval.go, wrappers.go).
var moreSteps []func(*C)

// In is the replayable form of every failing input of this harness.
type In struct {
	Kind  string   `json:"kind"`            // sub-check: dur-fmt dur-parse ts-fmt ts-parse fm-marshal fm-unmarshal val-marshal val-unmarshal wrapper
	Secs  int64    `json:"secs,omitempty"`  // dur-fmt, ts-fmt
	Nanos int32    `json:"nanos,omitempty"` // dur-fmt, ts-fmt
	Hex   string   `json:"hex,omitempty"`   // the input string (UTF-8 bytes, hex)
	Text  string   `json:"text,omitempty"`  // the same for the reader
	Paths []string `json:"paths,omitempty"` // fm-marshal
	Arg   string   `json:"arg,omitempty"`   // token stream of a Value (val-marshal), JSON text (val-unmarshal)
}

func inStr(kind, s string) In { return In{Kind: kind, Hex: vh.Hex([]byte(s)), Text: fmt.Sprintf("%q", s)} }

func replay(c *C, i In) {
	switch i.Kind {
	case "dur-fmt":
		durCheckMarshal(c, i.Secs, i.Nanos)
	case "dur-parse":
		durCheckParse(c, string(vh.UnHex(i.Hex)))
	case "ts-fmt":
		tsCheckMarshal(c, i.Secs, i.Nanos)
	case "ts-parse":
		tsCheckParse(c, string(vh.UnHex(i.Hex)))
	default:
		if f, ok := replayers[i.Kind]; ok {
			f(c, i)
		}
	}
}

var replayers = map[string]func(*C, In){}

// A failure that carries a classifier signature is recorded only twice per signature (a known
// finding occurs thousands of times in an exhaustive enumeration and vh stops after 200 failures);
// the rest is counted in the histogram.
var knownSeen = map[string]int{}

func fail(c *C, what string, input any, sig string) {
	if sig != "" {
		knownSeen[sig]++
		c.Hist("sig:" + sig)
		if knownSeen[sig] > 2 {
			return
		}
	}
	c.Check(false, what, input, sig)
}

// jsonString renders s (valid UTF-8) as a JSON string literal.
func jsonString(s string) string {
	if !utf8.ValidString(s) {
		panic("harness generated invalid UTF-8")
	}
	b, err := ejson.Marshal(s)
	if err != nil {
		panic(err)
	}
	return string(b)
}

// unquoteJSON parses a JSON document that must be a single string.
func unquoteJSON(b []byte) (string, bool) {
	var s string
	if err := ejson.Unmarshal(b, &s); err != nil {
		return "", false
	}
	return s, true
}

// fieldOf extracts the raw value of the single member `name` of a JSON object.
func fieldOf(b []byte, name string) (ejson.RawMessage, bool) {
	var m map[string]ejson.RawMessage
	if err := ejson.Unmarshal(b, &m); err != nil {
		return nil, false
	}
	v, ok := m[name]
	return v, ok
}

func hexStr(s string) string { return vh.Hex([]byte(s)) }

// parseModelText decodes the model's "ok <hex>" / "err" answer.
func parseModelText(ans string) string {
	if strings.HasPrefix(ans, "ok ") {
		return "ok " + string(vh.UnHex(ans[3:]))
	}
	return ans
}
