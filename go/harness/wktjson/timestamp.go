package main

import (
	"fmt"
	"math"
	"regexp"
	"strconv"
	"strings"

	"google.golang.org/protobuf/encoding/protojson"
	textpb2 "google.golang.org/protobuf/internal/testprotos/textpb2"
	"google.golang.org/protobuf/types/known/anypb"
	"google.golang.org/protobuf/types/known/timestamppb"
)

const (
	minTs = -62135596800
	maxTs = 253402300799
)

// ---------- implementation voice ----------

func implTsMarshal(secs int64, nanos int32) string {
	b, err := protojson.Marshal(&timestamppb.Timestamp{Seconds: secs, Nanos: nanos})
	if err != nil {
		return "err"
	}
	s, ok := unquoteJSON(b)
	if !ok {
		return "notstring " + string(b)
	}
	return "ok " + s
}

func implTsMarshalField(secs int64, nanos int32) string {
	b, err := protojson.Marshal(&textpb2.KnownTypes{OptTimestamp: &timestamppb.Timestamp{Seconds: secs, Nanos: nanos}})
	if err != nil {
		return "err"
	}
	v, ok := fieldOf(b, "optTimestamp")
	if !ok {
		return "nofield " + string(b)
	}
	s, ok := unquoteJSON(v)
	if !ok {
		return "notstring " + string(b)
	}
	return "ok " + s
}

func implTsMarshalAny(secs int64, nanos int32) string {
	a, err := anypb.New(&timestamppb.Timestamp{Seconds: secs, Nanos: nanos})
	if err != nil {
		return "anyerr"
	}
	b, err := protojson.Marshal(a)
	if err != nil {
		return "err"
	}
	v, ok := fieldOf(b, "value")
	if !ok {
		return "nofield " + string(b)
	}
	s, ok := unquoteJSON(v)
	if !ok {
		return "notstring " + string(b)
	}
	return "ok " + s
}

func implTsUnmarshal(s string) string {
	var t timestamppb.Timestamp
	if err := protojson.Unmarshal([]byte(jsonString(s)), &t); err != nil {
		return "none"
	}
	return fmt.Sprintf("%d %d", t.Seconds, t.Nanos)
}

func implTsUnmarshalField(s string) string {
	var m textpb2.KnownTypes
	if err := protojson.Unmarshal([]byte(`{"optTimestamp":`+jsonString(s)+`}`), &m); err != nil {
		return "none"
	}
	return fmt.Sprintf("%d %d", m.GetOptTimestamp().GetSeconds(), m.GetOptTimestamp().GetNanos())
}

func implTsUnmarshalAny(s string) string {
	var a anypb.Any
	if err := protojson.Unmarshal([]byte(`{"@type":"type.googleapis.com/google.protobuf.Timestamp","value":`+jsonString(s)+`}`), &a); err != nil {
		return "none"
	}
	var t timestamppb.Timestamp
	if err := a.UnmarshalTo(&t); err != nil {
		return "unpackerr"
	}
	return fmt.Sprintf("%d %d", t.Seconds, t.Nanos)
}

// ---------- independent reference: calendar by 400/100/4/1-year cycles counted from 0001-01-01 ----------

func refIsLeap(y int64) bool { return y%4 == 0 && (y%100 != 0 || y%400 == 0) }

var cumDays = [13]int64{0, 31, 59, 90, 120, 151, 181, 212, 243, 273, 304, 334, 365}

func refDaysIn(y, m int64) int64 {
	if m == 2 && refIsLeap(y) {
		return 29
	}
	return cumDays[m] - cumDays[m-1]
}

// days from 0001-01-01 to y-m-d (y >= 0; year 0 handled as a leap year before year 1)
func refDayCount(y, m, d int64) int64 {
	py := y - 1 // full years before
	var n int64
	if py >= 0 {
		n = 365*py + py/4 - py/100 + py/400
	} else { // y == 0
		n = -366
	}
	n += cumDays[m-1]
	if m > 2 && refIsLeap(y) {
		n++
	}
	return n + d - 1
}

const daysTo1970 = 719162 // 0001-01-01 .. 1970-01-01

// refCivil: (y, m, d) of the day number n counted from 0001-01-01, n >= 0
func refCivil(n int64) (int64, int64, int64) {
	q400 := n / 146097
	n %= 146097
	q100 := n / 36524
	if q100 == 4 {
		q100 = 3
	}
	n -= q100 * 36524
	q4 := n / 1461
	n %= 1461
	q1 := n / 365
	if q1 == 4 {
		q1 = 3
	}
	n -= q1 * 365
	y := 400*q400 + 100*q100 + 4*q4 + q1 + 1
	var m int64 = 1
	for n >= refDaysIn(y, m) {
		n -= refDaysIn(y, m)
		m++
	}
	return y, m, n + 1
}

func floorDiv(a, b int64) (int64, int64) {
	q, r := a/b, a%b
	if r < 0 {
		q--
		r += b
	}
	return q, r
}

func refTsMarshal(secs int64, nanos int32) string {
	if secs < minTs || secs > maxTs || nanos < 0 || nanos > 999999999 {
		return "err"
	}
	days, rem := floorDiv(secs, 86400)
	y, m, d := refCivil(days + daysTo1970)
	out := fmt.Sprintf("%04d-%02d-%02dT%02d:%02d:%02d", y, m, d, rem/3600, rem%3600/60, rem%60)
	if nanos != 0 {
		f := fmt.Sprintf("%09d", nanos)
		for strings.HasSuffix(f, "000") {
			f = f[:len(f)-3]
		}
		out += "." + f
	}
	return "ok " + out + "Z"
}

// RFC 3339 date-time as the Timestamp documentation states it (upper-case 'T' and 'Z', no leap second),
// at most nine fraction digits, instant within 0001-01-01T00:00:00Z .. 9999-12-31T23:59:59.999999999Z.
var tsRe = regexp.MustCompile(`^([0-9]{4})-([0-9]{2})-([0-9]{2})T([0-9]{2}):([0-9]{2}):([0-9]{2})(?:(\.)([0-9]+))?(Z|[+-][0-9]{2}:[0-9]{2})$`)

// the same with the two known leniencies of time.Parse that still reach unmarshalTimestamp: one-digit
// hour, offset hour 24 / minute 60.  (',' as separator is rejected since /repo 5508893.)
var tsLenientRe = regexp.MustCompile(`^([0-9]{4})-([0-9]{2})-([0-9]{2})T([0-9]{1,2}):([0-9]{2}):([0-9]{2})(?:(\.)([0-9]+))?(Z|[+-][0-9]{2}:[0-9]{2})$`)

func atoi64(s string) int64 { v, _ := strconv.ParseInt(s, 10, 64); return v }

// refTsParse returns the verdict ("none" or "secs nanos") and, in lenient mode, the deviations used.
func refTsParse(s string, lenient bool) (string, []string) {
	re := tsRe
	if lenient {
		re = tsLenientRe
	}
	g := re.FindStringSubmatch(s)
	if g == nil {
		return "none", nil
	}
	var dev []string
	y, mo, d, h, mi, sec := atoi64(g[1]), atoi64(g[2]), atoi64(g[3]), atoi64(g[4]), atoi64(g[5]), atoi64(g[6])
	if mo < 1 || mo > 12 || d < 1 || d > refDaysIn(y, mo) || h > 23 || mi > 59 || sec > 59 {
		return "none", nil
	}
	if len(g[4]) == 1 {
		dev = append(dev, sigTsHour1)
	}
	frac := g[8]
	if len(frac) > 9 {
		return "none", nil
	}
	for len(frac) < 9 {
		frac += "0"
	}
	nanos := atoi64(frac)
	var off int64
	if z := g[9]; z != "Z" {
		oh, om := atoi64(z[1:3]), atoi64(z[4:6])
		if lenient {
			if oh > 24 || om > 60 {
				return "none", nil
			}
			if oh == 24 || om == 60 {
				dev = append(dev, sigTsOffset)
			}
		} else if oh > 23 || om > 59 {
			return "none", nil
		}
		off = (oh*60 + om) * 60
		if z[0] == '-' {
			off = -off
		}
	}
	secs := (refDayCount(y, mo, d)-daysTo1970)*86400 + h*3600 + mi*60 + sec - off
	if secs < minTs || secs > maxTs {
		return "none", nil
	}
	return fmt.Sprintf("%d %d", secs, nanos), dev
}

// ---------- the checks ----------

var tsFracRe = regexp.MustCompile(`^[0-9]{4}-[0-9]{2}-[0-9]{2}T[0-9]{2}:[0-9]{2}:[0-9]{2}(?:\.([0-9]+))?Z$`)

func tsCheckMarshal(c *C, secs int64, nanos int32) {
	in := In{Kind: "ts-fmt", Secs: secs, Nanos: nanos}
	defer c.Recover("Timestamp marshal", in, "")
	impl := implTsMarshal(secs, nanos)
	c.Case(fmt.Sprintf("ts-fmt %d %d", secs, nanos), impl != "err")
	if c.HasModel() {
		c.Compare("marshalTimestamp text vs model fmtTimestamp", in, impl, parseModelText(c.Ask("tsfmt %d %d", secs, nanos)))
	}
	ref := refTsMarshal(secs, nanos)
	if impl != ref {
		fail(c, fmt.Sprintf("protojson.Marshal(Timestamp{%d,%d}) = %q, reference (own calendar, range per timestamp.proto) = %q", secs, nanos, impl, ref), in, "")
	}
	if f := implTsMarshalField(secs, nanos); f != impl {
		fail(c, fmt.Sprintf("Timestamp{%d,%d} as a field marshals to %q, standalone %q", secs, nanos, f, impl), in, "")
	}
	if f := implTsMarshalAny(secs, nanos); f != impl {
		fail(c, fmt.Sprintf("Timestamp{%d,%d} inside Any marshals to %q, standalone %q", secs, nanos, f, impl), in, "")
	}
	if !strings.HasPrefix(impl, "ok ") {
		c.Hist("ts-fmt:err")
		return
	}
	text := impl[3:]
	m := tsFracRe.FindStringSubmatch(text)
	if m == nil || !(len(m[1]) == 0 || len(m[1]) == 3 || len(m[1]) == 6 || len(m[1]) == 9) {
		fail(c, fmt.Sprintf("Timestamp{%d,%d} marshals to %q: not the Z-normalised form with 0, 3, 6 or 9 fractional digits", secs, nanos, text), in, "")
	} else {
		c.Hist(fmt.Sprintf("ts-fmt:fracdigits=%d", len(m[1])))
	}
	if back := implTsUnmarshal(text); back != fmt.Sprintf("%d %d", secs, nanos) {
		fail(c, fmt.Sprintf("Timestamp{%d,%d} -> %q -> {%s}: does not round-trip", secs, nanos, text, back), in, "")
	}
}

func tsCheckParse(c *C, s string) {
	in := inStr("ts-parse", s)
	defer c.Recover("Timestamp unmarshal", in, "")
	impl := implTsUnmarshal(s)
	c.Case("ts-parse "+s, impl != "none")
	if c.HasModel() {
		c.Compare("unmarshalTimestamp vs model (time.Parse general parser + range + fraction test)", in, impl, c.Ask("tsparse %s", hexStr(s)))
	}
	ref, _ := refTsParse(s, false)
	if impl != ref {
		lres, dev := refTsParse(s, true)
		if ref == "none" && impl == lres && dev != nil {
			for _, sig := range dev {
				fail(c, fmt.Sprintf("protojson.Unmarshal(%q, Timestamp) = {%s}; RFC 3339 (<= 9 fraction digits, years 1-9999) rejects it", s, impl), in, sig)
			}
		} else {
			fail(c, fmt.Sprintf("protojson.Unmarshal(%q, Timestamp) = {%s}, RFC 3339 reference = {%s} (with the known leniencies: {%s})", s, impl, ref, lres), in, "")
		}
	}
	if f := implTsUnmarshalField(s); f != impl {
		fail(c, fmt.Sprintf("Timestamp %q as a field parses to {%s}, standalone {%s}", s, f, impl), in, "")
	}
	if f := implTsUnmarshalAny(s); f != impl {
		fail(c, fmt.Sprintf("Timestamp %q inside Any parses to {%s}, standalone {%s}", s, f, impl), in, "")
	}
	if impl == "none" {
		return
	}
	c.Hist("ts-parse:accepted")
	var secs int64
	var nanos int32
	fmt.Sscanf(impl, "%d %d", &secs, &nanos)
	re := implTsMarshal(secs, nanos)
	if !strings.HasPrefix(re, "ok ") || implTsUnmarshal(re[3:]) != impl {
		fail(c, fmt.Sprintf("%q -> Timestamp{%d,%d} -> %q does not parse back to the same value", s, secs, nanos, re), in, "")
	}
}

// ---------- streams ----------

func tsCorpus(c *C) {
	for _, s := range []string{
		"0001-01-01T00:00:00Z", "9999-12-31T23:59:59.999999999Z", "0000-12-31T23:59:59Z", "10000-01-01T00:00:00Z",
		"2000-01-01T00:00:00,1234567891Z", "2000-01-01T00:00:00.1234567891Z", "2000-01-01T00:00:00.123456789Z",
		"2000-01-01T00:00:00-24:00", "2000-01-01T00:00:00+24:00", "2000-01-01T00:00:00+23:60", "2000-01-01T00:00:00+24:60", "2000-01-01T00:00:00+25:00", "2000-01-01T00:00:00+23:61",
		"2000-01-01T0:00:00Z", "2000-01-01T9:59:59.5+09:30", "2000-01-01t00:00:00Z", "2000-01-01T00:00:00z", "2000-01-01 00:00:00Z",
		"2000-01-01T00:00Z", " 2000-01-01T00:00:00Z", "2000-01-01T00:00:00Z ", "2000-01-01T00:00:60Z", "2000-01-01T24:00:00Z",
		"2000-02-29T00:00:00Z", "1900-02-29T00:00:00Z", "2100-02-29T00:00:00Z", "2004-02-29T23:59:59.999Z", "2001-02-29T00:00:00Z",
		"0001-01-01T00:00:00+00:01", "0001-01-01T00:00:00-00:01", "9999-12-31T23:59:59-00:01", "9999-12-31T23:59:59+00:01",
		"1969-12-31T23:59:59.999999999Z", "1970-01-01T00:00:00Z", "2000-01-01T00:00:00", "2000-01-01T00:00:00.Z", "2000-01-01T00:00:00,Z",
		"2000-01-01T00:00:00.1,2Z", "2000-01-01T00:00:00.5+01:00", "2000-01-01T00:00:00,5-01:30", "", "Z",
	} {
		tsCheckParse(c, s)
	}
}

func tsMarshalStream(c *C) {
	var secsB, nanosB []int64
	centers := []int64{0, minTs, maxTs, math.MaxInt64, math.MinInt64, 86400, -86400,
		951782400 /*2000-02-29*/, 951868800 /*2000-03-01*/, -2203891200 /*1900-03-01*/, 4107542400 /*2100-03-01*/,
		-2208988800 /*1900-01-01*/, 946684800, 978307200, 1078012800 /*2004-02-29*/, -11644473600 /*1601-01-01*/, -12219292800 /*1582-10-15*/}
	// first second of every month of a leap and a non-leap year, and of the century years around the 400-year cycle
	for _, y := range []int64{1, 4, 100, 400, 1600, 1700, 1900, 1999, 2000, 2001, 2100, 2400, 9999} {
		for m := int64(1); m <= 12; m++ {
			centers = append(centers, (refDayCount(y, m, 1)-daysTo1970)*86400)
		}
	}
	for _, s := range centers {
		secsB = append(secsB, around(s, 2)...)
	}
	for _, n := range []int64{0, 1, 999, 1000, 999999, 1000000, 999999999, 1000000000, -1, math.MaxInt32, math.MinInt32, 123000000, 123456000, 100000000} {
		for _, v := range around(n, 2) {
			if v >= math.MinInt32 && v <= math.MaxInt32 {
				nanosB = append(nanosB, v)
			}
		}
	}
	for i, s := range secsB {
		for j, n := range nanosB {
			// the full product for the first centres, a diagonal sample for the month starts
			if i < 85 || (i+j)%7 == 0 {
				tsCheckMarshal(c, s, int32(n))
				if c.Failed() {
					return
				}
			}
		}
	}
	n := c.N(100000, 1000000)
	for i := 0; i < n && !c.Failed(); i++ {
		s, ns := randInstant(c)
		tsCheckMarshal(c, s, ns)
	}
}

func randInstant(c *C) (int64, int32) {
	r := c.Rand
	var s int64
	switch r.Intn(8) {
	case 0:
		s = int64(r.Uint64())
	case 1:
		s = []int64{minTs, maxTs}[r.Intn(2)] + r.Int63n(200001) - 100000
	case 2:
		s = r.Int63n(4102444800) // 1970..2100
	case 3: // around a day boundary
		s = (r.Int63n(3652059)-719162)*86400 + r.Int63n(5) - 2
	default:
		s = minTs + r.Int63n(maxTs-minTs+1)
	}
	var n int64
	switch r.Intn(6) {
	case 0:
		n = int64(int32(r.Uint32()))
	case 1:
		n = r.Int63n(1000) * []int64{1, 1000, 1000000}[r.Intn(3)]
	case 2:
		n = 0
	case 3:
		n = r.Int63n(1000000) * 1000
	default:
		n = r.Int63n(1000000000)
	}
	return s, int32(n)
}

// randTsString: a valid RFC 3339 string for a random instant, with a random zone form and fraction length.
func randTsString(c *C) string {
	r := c.Rand
	var secs int64
	if r.Intn(4) == 0 {
		secs = []int64{minTs, maxTs}[r.Intn(2)] + r.Int63n(200001) - 100000
	} else {
		secs = minTs + r.Int63n(maxTs-minTs+1)
	}
	if secs < minTs-90000 {
		secs = minTs
	}
	days, rem := floorDiv(secs, 86400)
	if days+daysTo1970 < 0 {
		days = -daysTo1970
	}
	y, m, d := refCivil(days + daysTo1970)
	s := fmt.Sprintf("%04d-%02d-%02dT%02d:%02d:%02d", y, m, d, rem/3600, rem%3600/60, rem%60)
	if r.Intn(3) != 0 {
		k := 1 + r.Intn(9)
		if r.Intn(5) == 0 {
			k = 9 + r.Intn(4)
		}
		s += "." + randDigits(c, k)
	}
	switch r.Intn(4) {
	case 0, 1:
		s += "Z"
	default:
		s += fmt.Sprintf("%c%02d:%02d", "+-"[r.Intn(2)], []int{0, 1, 5, 12, 14, 23}[r.Intn(6)], []int{0, 15, 30, 45, 59}[r.Intn(5)])
	}
	return s
}

var tsAtoms = []string{"+", "-", ".", ",", "0", "1", "9", "Z", "z", "T", "t", ":", " ", "6", "24", "60", "00", "é", "\n", "2", "3"}

// targeted mutations of a valid string
func tsMutate(c *C, s string) string {
	r := c.Rand
	zoneAt := strings.LastIndexAny(s, "Z+-")
	if strings.HasSuffix(s, "Z") {
		zoneAt = len(s) - 1
	}
	body, zone := s[:zoneAt], s[zoneAt:]
	date, frac := body, ""
	if len(body) > 19 {
		date, frac = body[:19], body[19:]
	}
	switch r.Intn(22) {
	case 0: // offsets incl. out-of-range ones
		zone = fmt.Sprintf("%c%s:%s", "+-"[r.Intn(2)], []string{"00", "01", "12", "23", "24", "25", "99"}[r.Intn(7)], []string{"00", "30", "59", "60", "61", "99"}[r.Intn(6)])
	case 1:
		date = strings.Replace(date, "T", "t", 1)
	case 2:
		zone = strings.ToLower(zone)
	case 3: // comma fraction
		if frac == "" {
			frac = "." + randDigits(c, 1+r.Intn(12))
		}
		frac = "," + frac[1:]
	case 4: // ten and more fraction digits
		frac = string(".,"[r.Intn(6)/5]) + randDigits(c, 10+r.Intn(12))
	case 5: // missing seconds
		date = date[:16]
	case 6:
		return " " + s
	case 7:
		return s + " "
	case 8: // year 0 / 10000 / edges
		date = []string{"0000", "10000", "9999", "0001", "+2000", "-001"}[r.Intn(6)] + date[4:]
	case 9: // one-digit field
		i := []int{5, 8, 11, 14, 17}[r.Intn(5)]
		date = date[:i] + date[i+1:]
	case 10: // three-digit field
		i := []int{5, 8, 11, 14, 17}[r.Intn(5)]
		date = date[:i] + "0" + date[i:]
	case 11:
		date = date[:10] + []string{" ", "_", "", "TT"}[r.Intn(4)] + date[11:]
	case 12: // out-of-range time fields
		switch r.Intn(3) {
		case 0:
			date = date[:11] + []string{"24", "23", "25", "99"}[r.Intn(4)] + date[13:]
		case 1:
			date = date[:14] + []string{"60", "59", "99"}[r.Intn(3)] + date[16:]
		default:
			date = date[:17] + []string{"60", "59", "61"}[r.Intn(3)] + date[19:]
		}
	case 13: // day/month ranges
		date = date[:5] + []string{"01", "02", "04", "06", "12", "13", "00"}[r.Intn(7)] + "-" + []string{"00", "01", "28", "29", "30", "31", "32"}[r.Intn(7)] + date[10:]
	case 14: // Feb 29 of chosen years
		date = []string{"1900", "2000", "2100", "2004", "2001", "0004", "0100", "0400", "9996"}[r.Intn(9)] + "-02-29" + date[10:]
	case 15: // zone forms
		zone = []string{"", "ZZ", "Z+00:00", "+0000", "+00", "+00:00:00", "UTC", "GMT", "+0:00", "+00:0", " Z", "−01:00"}[r.Intn(12)]
	case 16: // empty / dangling fraction
		frac = []string{".", ",", "..1", ".1.2", ".1,2", ". 1", ".-1", ".+1"}[r.Intn(8)]
	case 17: // signs inside fields
		i := []int{5, 8, 11, 14, 17}[r.Intn(5)]
		date = date[:i] + string("+-"[r.Intn(2)]) + date[i+1:]
	case 18: // one-digit hour together with other features
		date = date[:11] + date[12:]
		if r.Intn(2) == 0 {
			zone = "-24:00"
		}
	case 19: // boundary instants with offsets pushing across the range limits
		date = []string{"0001-01-01T00:00:00", "9999-12-31T23:59:59", "0001-01-01T23:59:59", "9999-12-31T00:00:00", "0000-12-31T23:59:59"}[r.Intn(5)]
		zone = fmt.Sprintf("%c%02d:%02d", "+-"[r.Intn(2)], []int{0, 0, 1, 23, 24}[r.Intn(5)], []int{0, 1, 59, 60}[r.Intn(4)])
	default:
		return mutate(c, s, tsAtoms)
	}
	return date + frac + zone
}

func tsParseStream(c *C) {
	n := c.N(80000, 800000)
	for i := 0; i < n && !c.Failed(); i++ {
		s := randTsString(c)
		if i%4 != 0 {
			s = tsMutate(c, s)
		}
		tsCheckParse(c, s)
	}
}
