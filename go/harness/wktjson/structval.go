package main

import (
	"bytes"
	ejson "encoding/json"
	"fmt"
	"io"
	"math"
	"sort"
	"strconv"
	"strings"

	"google.golang.org/protobuf/encoding/protojson"
	textpb2 "google.golang.org/protobuf/internal/testprotos/textpb2"
	"google.golang.org/protobuf/proto"
	"google.golang.org/protobuf/types/known/anypb"
	"google.golang.org/protobuf/types/known/structpb"
)

func init() {
	moreSteps = append(moreSteps, valCorpus, valMarshalStream, valUnmarshalStream, valDepth)
	replayers["val-marshal"] = func(c *C, i In) {
		if v := valueOfTokens(strings.Fields(i.Arg)); v != nil {
			valCheckMarshal(c, v)
		}
	}
	replayers["val-unmarshal"] = func(c *C, i In) { valCheckUnmarshal(c, i.Arg) }
}

// ---------- token streams ----------

// pvTokens renders a structpb.Value as the model's PValue token stream (map entries by ascending key).
func pvTokens(v *structpb.Value, out []string) []string {
	switch k := v.GetKind().(type) {
	case nil:
		return append(out, "U")
	case *structpb.Value_NullValue:
		return append(out, "N")
	case *structpb.Value_NumberValue:
		return append(out, fmt.Sprintf("D%d", math.Float64bits(k.NumberValue)))
	case *structpb.Value_StringValue:
		return append(out, "S"+hexStr(k.StringValue))
	case *structpb.Value_BoolValue:
		if k.BoolValue {
			return append(out, "T")
		}
		return append(out, "F")
	case *structpb.Value_StructValue:
		out = append(out, "{")
		fs := k.StructValue.GetFields()
		keys := make([]string, 0, len(fs))
		for key := range fs {
			keys = append(keys, key)
		}
		sort.Strings(keys)
		for _, key := range keys {
			out = append(out, "K"+hexStr(key))
			out = pvTokens(fs[key], out)
		}
		return append(out, "}")
	case *structpb.Value_ListValue:
		out = append(out, "[")
		for _, e := range k.ListValue.GetValues() {
			out = pvTokens(e, out)
		}
		return append(out, "]")
	}
	return append(out, "?")
}

// valueOfTokens is the inverse of pvTokens (for replay).
func valueOfTokens(toks []string) *structpb.Value {
	v, rest := parsePV(toks)
	if v == nil || len(rest) != 0 {
		return nil
	}
	return v
}

func parsePV(t []string) (*structpb.Value, []string) {
	if len(t) == 0 {
		return nil, nil
	}
	h, r := t[0], t[1:]
	switch {
	case h == "U":
		return &structpb.Value{}, r
	case h == "N":
		return structpb.NewNullValue(), r
	case h == "T":
		return structpb.NewBoolValue(true), r
	case h == "F":
		return structpb.NewBoolValue(false), r
	case strings.HasPrefix(h, "D"):
		b, _ := strconv.ParseUint(h[1:], 10, 64)
		return structpb.NewNumberValue(math.Float64frombits(b)), r
	case strings.HasPrefix(h, "S"):
		return structpb.NewStringValue(string(unhex(h[1:]))), r
	case h == "{":
		st := &structpb.Struct{Fields: map[string]*structpb.Value{}}
		for len(r) > 0 && r[0] != "}" {
			if !strings.HasPrefix(r[0], "K") {
				return nil, nil
			}
			key := string(unhex(r[0][1:]))
			var e *structpb.Value
			e, r = parsePV(r[1:])
			if e == nil {
				return nil, nil
			}
			st.Fields[key] = e
		}
		if len(r) == 0 {
			return nil, nil
		}
		return structpb.NewStructValue(st), r[1:]
	case h == "[":
		l := &structpb.ListValue{}
		for len(r) > 0 && r[0] != "]" {
			var e *structpb.Value
			e, r = parsePV(r)
			if e == nil {
				return nil, nil
			}
			l.Values = append(l.Values, e)
		}
		if len(r) == 0 {
			return nil, nil
		}
		return structpb.NewListValue(l), r[1:]
	}
	return nil, nil
}

func unhex(s string) []byte {
	if s == "-" || s == "" {
		return nil
	}
	b := make([]byte, len(s)/2)
	for i := range b {
		v, _ := strconv.ParseUint(s[2*i:2*i+2], 16, 8)
		b[i] = byte(v)
	}
	return b
}

// jsonTokens renders a JSON text as the model's JValue token stream (members in text order, a number by
// the bits of the float64 its literal denotes, +-Inf on overflow).
func jsonTokens(text []byte) ([]string, error) {
	d := ejson.NewDecoder(bytes.NewReader(text))
	d.UseNumber()
	var out []string
	var rec func() error
	rec = func() error {
		t, err := d.Token()
		if err != nil {
			return err
		}
		switch x := t.(type) {
		case nil:
			out = append(out, "n")
		case bool:
			if x {
				out = append(out, "t")
			} else {
				out = append(out, "f")
			}
		case ejson.Number:
			f, _ := strconv.ParseFloat(string(x), 64)
			out = append(out, fmt.Sprintf("#%d", math.Float64bits(f)))
		case string:
			out = append(out, "s"+hexStr(x))
		case ejson.Delim:
			switch x {
			case '{':
				out = append(out, "{")
				for d.More() {
					k, err := d.Token()
					if err != nil {
						return err
					}
					ks, ok := k.(string)
					if !ok {
						return fmt.Errorf("key is not a string")
					}
					out = append(out, "k"+hexStr(ks))
					if err := rec(); err != nil {
						return err
					}
				}
				if _, err := d.Token(); err != nil {
					return err
				}
				out = append(out, "}")
			case '[':
				out = append(out, "[")
				for d.More() {
					if err := rec(); err != nil {
						return err
					}
				}
				if _, err := d.Token(); err != nil {
					return err
				}
				out = append(out, "]")
			default:
				return fmt.Errorf("unexpected delimiter")
			}
		}
		return nil
	}
	if err := rec(); err != nil {
		return nil, err
	}
	if _, err := d.Token(); err != io.EOF {
		return nil, fmt.Errorf("trailing data")
	}
	return out, nil
}

// ---------- reference ----------

// refMarshalable: every Value has a kind and every number is finite.
func refMarshalable(v *structpb.Value) bool {
	switch k := v.GetKind().(type) {
	case nil:
		return false
	case *structpb.Value_NumberValue:
		return !math.IsNaN(k.NumberValue) && !math.IsInf(k.NumberValue, 0)
	case *structpb.Value_StructValue:
		for _, e := range k.StructValue.GetFields() {
			if !refMarshalable(e) {
				return false
			}
		}
	case *structpb.Value_ListValue:
		for _, e := range k.ListValue.GetValues() {
			if !refMarshalable(e) {
				return false
			}
		}
	}
	return true
}

func refJSONTokens(v *structpb.Value) string {
	b, err := ejson.Marshal(v.AsInterface())
	if err != nil {
		return "err"
	}
	t, err := jsonTokens(b)
	if err != nil {
		return "tokerr"
	}
	return "ok " + strings.Join(t, " ")
}

// ---------- marshal side ----------

func implTokens(b []byte, err error) string {
	if err != nil {
		return "err"
	}
	t, e := jsonTokens(b)
	if e != nil {
		return "notjson " + string(b)
	}
	return "ok " + strings.Join(t, " ")
}

func valCheckMarshal(c *C, v *structpb.Value) {
	toks := strings.Join(pvTokens(v, nil), " ")
	in := In{Kind: "val-marshal", Arg: toks}
	defer c.Recover("Value marshal", in, "")
	b, err := protojson.Marshal(v)
	impl := implTokens(b, err)
	c.Case("val-marshal "+toks, err == nil && toks != "N")
	if c.HasModel() {
		c.Compare("marshalKnownValue tree vs model", in, impl, c.Ask("valmarshal %s", toks))
	}
	ok := refMarshalable(v)
	if (impl != "err") != ok {
		fail(c, fmt.Sprintf("protojson.Marshal(Value %s): error=%v, but every kind set and every number finite = %v", toks, impl == "err", ok), in, "")
	}
	if ok {
		if ref := refJSONTokens(v); ref != impl {
			fail(c, fmt.Sprintf("protojson.Marshal(Value %s) = %s, encoding/json of AsInterface() = %s", toks, impl, ref), in, "")
		}
	}
	// the same value as a field, inside Any, and (for struct / list kinds) as a top-level Struct / ListValue
	fb, ferr := protojson.Marshal(&textpb2.KnownTypes{OptValue: v})
	if ferr == nil {
		raw, _ := fieldOf(fb, "optValue")
		fb = raw
	}
	if f := implTokens(fb, ferr); f != impl {
		fail(c, fmt.Sprintf("Value %s as a field marshals to %s, standalone %s", toks, f, impl), in, "")
	}
	if a, aerr := anypb.New(v); aerr == nil {
		ab, merr := protojson.Marshal(a)
		if merr == nil {
			raw, _ := fieldOf(ab, "value")
			ab = raw
		}
		if f := implTokens(ab, merr); f != impl {
			fail(c, fmt.Sprintf("Value %s inside Any marshals to %s, standalone %s", toks, f, impl), in, "")
		}
	}
	if s := v.GetStructValue(); s != nil {
		sb, serr := protojson.Marshal(s)
		if f := implTokens(sb, serr); f != impl {
			fail(c, fmt.Sprintf("Struct %s marshals to %s, as Value %s", toks, f, impl), in, "")
		}
		c.Hist("val-marshal:struct")
	}
	if l := v.GetListValue(); l != nil {
		lb, lerr := protojson.Marshal(l)
		if f := implTokens(lb, lerr); f != impl {
			fail(c, fmt.Sprintf("ListValue %s marshals to %s, as Value %s", toks, f, impl), in, "")
		}
		c.Hist("val-marshal:list")
	}
	if err != nil {
		c.Hist("val-marshal:err")
		return
	}
	var back structpb.Value
	if uerr := protojson.Unmarshal(b, &back); uerr != nil || !proto.Equal(&back, v) {
		fail(c, fmt.Sprintf("Value %s -> %s -> %s (err %v): does not round-trip", toks, b, strings.Join(pvTokens(&back, nil), " "), uerr), in, "")
	}
}

// ---------- unmarshal side ----------

// refUnmarshal: encoding/json decoding + structpb.NewValue, rejecting duplicate keys (which
// encoding/json silently resolves) and numbers beyond float64.
func refUnmarshal(text string) string {
	toks, err := jsonTokens([]byte(text))
	if err != nil {
		return "err"
	}
	if hasDupKeysOrInf(toks) {
		return "err"
	}
	var x any
	if err := ejson.Unmarshal([]byte(text), &x); err != nil {
		return "err"
	}
	v, err := structpb.NewValue(x)
	if err != nil {
		return "err"
	}
	return "ok " + strings.Join(pvTokens(v, nil), " ")
}

func hasDupKeysOrInf(toks []string) bool {
	var stack []map[string]bool
	for _, t := range toks {
		switch {
		case t == "{":
			stack = append(stack, map[string]bool{})
		case t == "[":
			stack = append(stack, nil)
		case t == "}" || t == "]":
			stack = stack[:len(stack)-1]
		case strings.HasPrefix(t, "k"):
			m := stack[len(stack)-1]
			if m[t] {
				return true
			}
			m[t] = true
		case strings.HasPrefix(t, "#"):
			b, _ := strconv.ParseUint(t[1:], 10, 64)
			if f := math.Float64frombits(b); math.IsInf(f, 0) || math.IsNaN(f) {
				return true
			}
		}
	}
	return false
}

func valCheckUnmarshal(c *C, text string) {
	in := In{Kind: "val-unmarshal", Arg: text}
	defer c.Recover("Value unmarshal", in, "")
	jt, terr := jsonTokens([]byte(text))
	if terr != nil {
		return // not a JSON document: lexical validity is C21's subject
	}
	var v structpb.Value
	err := protojson.Unmarshal([]byte(text), &v)
	impl := "err"
	if err == nil {
		impl = "ok " + strings.Join(pvTokens(&v, nil), " ")
	}
	c.Case("val-unmarshal "+text, err == nil && text != "null")
	if c.HasModel() {
		c.Compare("unmarshalKnownValue tree vs model", in, impl, c.Ask("valunmarshal %s", strings.Join(jt, " ")))
	}
	if ref := refUnmarshal(text); ref != impl {
		fail(c, fmt.Sprintf("protojson.Unmarshal(%s, Value) = %s, encoding/json + structpb.NewValue (duplicate keys and out-of-range numbers rejected) = %s", text, impl, ref), in, "")
	}
	var m textpb2.KnownTypes
	ferr := protojson.Unmarshal([]byte(`{"optValue":`+text+`}`), &m)
	f := "err"
	if ferr == nil {
		f = "ok " + strings.Join(pvTokens(m.GetOptValue(), nil), " ")
	}
	if f != impl {
		fail(c, fmt.Sprintf("Value %s as a field parses to %s, standalone %s", text, f, impl), in, "")
	}
	if strings.HasPrefix(strings.TrimSpace(text), "{") {
		var s structpb.Struct
		serr := protojson.Unmarshal([]byte(text), &s)
		sres := "err"
		if serr == nil {
			sres = "ok " + strings.Join(pvTokens(structpb.NewStructValue(&s), nil), " ")
		}
		if sres != impl {
			fail(c, fmt.Sprintf("%s as Struct parses to %s, as Value %s", text, sres, impl), in, "")
		}
	}
	if strings.HasPrefix(strings.TrimSpace(text), "[") {
		var l structpb.ListValue
		lerr := protojson.Unmarshal([]byte(text), &l)
		lres := "err"
		if lerr == nil {
			lres = "ok " + strings.Join(pvTokens(structpb.NewListValue(&l), nil), " ")
		}
		if lres != impl {
			fail(c, fmt.Sprintf("%s as ListValue parses to %s, as Value %s", text, lres, impl), in, "")
		}
	}
	if err != nil {
		c.Hist("val-unmarshal:err")
		return
	}
	// whatever was parsed marshals again and parses to the same value
	b, merr := protojson.Marshal(&v)
	var back structpb.Value
	if merr != nil || protojson.Unmarshal(b, &back) != nil || !proto.Equal(&back, &v) {
		fail(c, fmt.Sprintf("%s -> Value -> %s (err %v) does not parse back to the same value", text, b, merr), in, "")
	}
}

// ---------- generators ----------

var valKeys = []string{"", "a", "b", "ab", "a b", "é", "z", "Z", "0", "key", "k\"q", "\u0000", "日本", "aa", "a\\", "null", "~", "\U0001F600", "￿"}
var valStrings = []string{"", "x", "NaN", "Infinity", "-Infinity", "1", "null", "true", "é", "\"", "\\", "\n", " ", "\U0001F600", "a\u0000b"}
var valNumbers = []float64{0, math.Copysign(0, -1), 1, -1, 0.5, 1e21, 1e-7, 123456789012345680, math.MaxFloat64, -math.MaxFloat64, math.SmallestNonzeroFloat64, 1 << 53, 0.1, 3.14, -2.5e-300, 100, 1e20, 999999999999999900000}

func randValue(c *C, depth int, bad bool) *structpb.Value {
	r := c.Rand
	k := r.Intn(10)
	if depth <= 0 && k >= 6 {
		k = r.Intn(6)
	}
	switch k {
	case 0:
		return structpb.NewNullValue()
	case 1, 2:
		if bad && r.Intn(4) == 0 {
			return structpb.NewNumberValue([]float64{math.NaN(), math.Inf(1), math.Inf(-1), math.Float64frombits(0x7FF0000000000001), math.Float64frombits(0xFFF8000000000000)}[r.Intn(5)])
		}
		if r.Intn(2) == 0 {
			return structpb.NewNumberValue(valNumbers[r.Intn(len(valNumbers))])
		}
		return structpb.NewNumberValue(math.Float64frombits(r.Uint64()&^(0x7FF<<52) | uint64(r.Intn(2046))<<52))
	case 3:
		return structpb.NewStringValue(valStrings[r.Intn(len(valStrings))])
	case 4:
		return structpb.NewBoolValue(r.Intn(2) == 0)
	case 5:
		if bad && r.Intn(3) == 0 {
			return &structpb.Value{} // no kind set
		}
		return structpb.NewStringValue(randSnakeName(c))
	case 6, 7:
		st := &structpb.Struct{Fields: map[string]*structpb.Value{}}
		n := r.Intn(5)
		for i := 0; i < n; i++ {
			st.Fields[valKeys[r.Intn(len(valKeys))]] = randValue(c, depth-1, bad)
		}
		if r.Intn(8) == 0 {
			st.Fields = nil
		}
		return structpb.NewStructValue(st)
	default:
		l := &structpb.ListValue{}
		n := r.Intn(5)
		for i := 0; i < n; i++ {
			l.Values = append(l.Values, randValue(c, depth-1, bad))
		}
		return structpb.NewListValue(l)
	}
}

func valCorpus(c *C) {
	for _, v := range []*structpb.Value{
		{}, structpb.NewNullValue(), structpb.NewNumberValue(math.NaN()), structpb.NewNumberValue(math.Inf(1)), structpb.NewNumberValue(math.Inf(-1)),
		structpb.NewNumberValue(math.Copysign(0, -1)), structpb.NewStringValue("NaN"), structpb.NewStructValue(&structpb.Struct{}), structpb.NewListValue(&structpb.ListValue{}),
		structpb.NewListValue(&structpb.ListValue{Values: []*structpb.Value{{}}}),
		structpb.NewStructValue(&structpb.Struct{Fields: map[string]*structpb.Value{"a": {}}}),
		structpb.NewStructValue(&structpb.Struct{Fields: map[string]*structpb.Value{"b": structpb.NewNullValue(), "a": structpb.NewNumberValue(math.NaN())}}),
		structpb.NewStructValue(&structpb.Struct{Fields: map[string]*structpb.Value{"": structpb.NewNullValue(), "é": structpb.NewBoolValue(true), "z": structpb.NewListValue(&structpb.ListValue{Values: []*structpb.Value{structpb.NewNumberValue(1)}})}}),
	} {
		valCheckMarshal(c, v)
	}
	for _, s := range []string{`null`, `true`, `1`, `-0`, `1e999`, `-1e999`, `1e308`, `1.7976931348623159e308`, `"x"`, `{}`, `[]`, `{"a":null}`, `{"a":1,"a":2}`, `{"b":1,"a":2}`, `[null,[null],{}]`,
		`{"a":{"b":{"c":[1,2,{"d":null}]}}}`, ` [ 1 , 2 ] `, `"NaN"`, `[1e999]`, `{"a":[{"x":1,"x":1}]}`, `0.000001e21`, `1E+2`, `{"":""}`, `{"a":1,"a":2}`} {
		valCheckUnmarshal(c, s)
	}
}

func valMarshalStream(c *C) {
	n := c.N(20000, 200000)
	for i := 0; i < n && !c.Failed(); i++ {
		valCheckMarshal(c, randValue(c, 1+c.Rand.Intn(4), i%3 == 0))
	}
}

// randJSON renders a random JSON document (always lexically valid).
func randJSON(c *C, depth int, sb *strings.Builder) {
	r := c.Rand
	ws := func() {
		if r.Intn(6) == 0 {
			sb.WriteString([]string{" ", "\n", "\t", "  "}[r.Intn(4)])
		}
	}
	k := r.Intn(10)
	if depth <= 0 && k >= 6 {
		k = r.Intn(6)
	}
	ws()
	switch k {
	case 0:
		sb.WriteString("null")
	case 1:
		sb.WriteString([]string{"true", "false"}[r.Intn(2)])
	case 2, 3:
		switch r.Intn(6) {
		case 0:
			sb.WriteString([]string{"0", "-0", "1", "-1", "0.5", "1e2", "1E+2", "1e-2", "1.5e300", "1e308", "1e309", "-1e309", "1e999", "1.7976931348623157e308", "1.7976931348623159e308", "4.9e-324", "1e-999", "0.000001e21", "123456789012345678901234567890", "9007199254740993"}[r.Intn(20)])
		case 1:
			sb.WriteString(strconv.FormatFloat(math.Float64frombits(r.Uint64()&^(0x7FF<<52)|uint64(r.Intn(2046))<<52), 'g', -1, 64))
		default:
			sb.WriteString(strconv.FormatInt(r.Int63n(2000)-1000, 10))
		}
	case 4, 5:
		b, _ := ejson.Marshal(valStrings[r.Intn(len(valStrings))])
		sb.Write(b)
	case 6, 7:
		sb.WriteByte('{')
		n := r.Intn(5)
		for i := 0; i < n; i++ {
			if i > 0 {
				sb.WriteByte(',')
			}
			ws()
			key := valKeys[r.Intn(len(valKeys))]
			if r.Intn(3) == 0 {
				key = randSnakeName(c)
			}
			b, _ := ejson.Marshal(key)
			sb.Write(b)
			ws()
			sb.WriteByte(':')
			randJSON(c, depth-1, sb)
		}
		ws()
		sb.WriteByte('}')
	default:
		sb.WriteByte('[')
		n := r.Intn(5)
		for i := 0; i < n; i++ {
			if i > 0 {
				sb.WriteByte(',')
			}
			randJSON(c, depth-1, sb)
		}
		ws()
		sb.WriteByte(']')
	}
	ws()
}

func valUnmarshalStream(c *C) {
	n := c.N(20000, 200000)
	for i := 0; i < n && !c.Failed(); i++ {
		var sb strings.Builder
		randJSON(c, 1+c.Rand.Intn(4), &sb)
		valCheckUnmarshal(c, sb.String())
	}
}

// valDepth: deep nesting round-trips below the recursion limit; beyond the limit unmarshalling is refused
// (protojson.UnmarshalOptions.RecursionLimit, default 10000) — direct checks, the model has no depth bound.
func valDepth(c *C) {
	for _, d := range []int{1, 10, 100, 1000, 5000} {
		v := structpb.NewNullValue()
		for i := 0; i < d; i++ {
			if i%2 == 0 {
				v = structpb.NewListValue(&structpb.ListValue{Values: []*structpb.Value{v}})
			} else {
				v = structpb.NewStructValue(&structpb.Struct{Fields: map[string]*structpb.Value{"k": v}})
			}
		}
		in := In{Kind: "val-depth", Arg: fmt.Sprint(d)}
		b, err := protojson.Marshal(v)
		var back structpb.Value
		ok := err == nil && protojson.Unmarshal(b, &back) == nil && proto.Equal(&back, v)
		c.Case(fmt.Sprintf("val-depth %d", d), true)
		if !ok {
			fail(c, fmt.Sprintf("Value nested %d deep does not round-trip (marshal err %v)", d, err), in, "")
		}
	}
	for _, d := range []int{9000, 10001, 20000} {
		text := strings.Repeat("[", d) + strings.Repeat("]", d)
		var v structpb.Value
		err := protojson.Unmarshal([]byte(text), &v)
		c.Case(fmt.Sprintf("val-depth-limit %d", d), err == nil)
		if (err == nil) != (d < 10000) {
			fail(c, fmt.Sprintf("%d nested arrays into Value: err=%v, expected acceptance exactly below the recursion limit 10000", d, err), In{Kind: "val-depth", Arg: fmt.Sprint(d)}, "")
		}
	}
}
