// registry harness: C33 — protoregistry.Files / protoregistry.Types behave like a conflict-checking
// name table.
//
// A case is a *history*: a list of op lines (the same text that the Lean model reads).  Every history is
// run on fresh local registries (new(protoregistry.Files), new(protoregistry.Types)); after every op
//   - the observable result is compared with the Lean model's answer for the same op line (the model
//     answers from its concrete map model and from its abstract specification at once),
//   - the property predicates are evaluated directly on the implementation against a small name-table
//     oracle written in Go (refSpec below), independent of the Lean model.
//
// A failing history is shrunk (delta debugging over the op list, then over the declarations inside the
// files, both sides re-run from scratch each time) before it is reported; the reported input is the
// shrunk op list, which -replay re-runs.
package main

import (
	"encoding/json"
	"fmt"
	"sort"
	"strconv"
	"strings"

	vh "google.golang.org/protobuf/internal/zz_verif_vh"
	"google.golang.org/protobuf/proto"
	"google.golang.org/protobuf/reflect/protodesc"
	"google.golang.org/protobuf/reflect/protoreflect"
	"google.golang.org/protobuf/reflect/protoregistry"
	"google.golang.org/protobuf/types/descriptorpb"
	"google.golang.org/protobuf/types/dynamicpb"
)

type C = vh.Ctx

func main() { vh.Main("registry", run) }

func run(c *C) {
	switch c.Prop {
	case "C33":
		runC33(c)
	default:
		panic("registry harness: unknown property " + c.Prop)
	}
}

// ---------------------------------------------------------------------------------------------
// descriptor trees (what the model sees of a file) and their text form

type enumT struct {
	Name   string
	Values []string
}
type extT struct {
	Name, Extendee string
	Num            int
}
type svcT struct {
	Name    string
	Methods []string
}
type msgT struct {
	Name   string
	Enums  []enumT
	Msgs   []msgT
	Exts   []extT
	Fields []string
	Oneofs []string
}
type fileT struct {
	Path, Pkg string
	Enums     []enumT
	Msgs      []msgT
	Exts      []extT
	Svcs      []svcT
}

func (e enumT) render(b *[]string) {
	*b = append(*b, "E", e.Name)
	*b = append(*b, e.Values...)
	*b = append(*b, ".")
}
func (x extT) render(b *[]string) {
	*b = append(*b, "X", x.Name, "n:"+x.Extendee, strconv.Itoa(x.Num))
}
func (m msgT) render(b *[]string) {
	*b = append(*b, "M", m.Name)
	for _, e := range m.Enums {
		e.render(b)
	}
	for _, n := range m.Msgs {
		n.render(b)
	}
	for _, x := range m.Exts {
		x.render(b)
	}
	for _, f := range m.Fields {
		*b = append(*b, "f", f)
	}
	for _, o := range m.Oneofs {
		*b = append(*b, "o", o)
	}
	*b = append(*b, ".")
}
func (f fileT) render() string {
	b := []string{"F", f.Path, "n:" + f.Pkg}
	for _, e := range f.Enums {
		e.render(&b)
	}
	for _, m := range f.Msgs {
		m.render(&b)
	}
	for _, x := range f.Exts {
		x.render(&b)
	}
	for _, s := range f.Svcs {
		b = append(b, "S", s.Name)
		b = append(b, s.Methods...)
		b = append(b, ".")
	}
	b = append(b, ".")
	return strings.Join(b, " ")
}

type parser struct {
	t   []string
	err bool
}

func (p *parser) next() string {
	if len(p.t) == 0 {
		p.err = true
		return "."
	}
	s := p.t[0]
	p.t = p.t[1:]
	return s
}
func (p *parser) names() []string {
	var out []string
	for {
		s := p.next()
		if s == "." {
			return out
		}
		out = append(out, s)
	}
}
func (p *parser) full() string {
	s := p.next()
	if !strings.HasPrefix(s, "n:") {
		p.err = true
	}
	return strings.TrimPrefix(s, "n:")
}
func (p *parser) body(m *msgT, svcs *[]svcT) {
	for !p.err {
		switch p.next() {
		case ".":
			return
		case "M":
			n := msgT{Name: p.next()}
			p.body(&n, nil)
			m.Msgs = append(m.Msgs, n)
		case "E":
			e := enumT{Name: p.next()}
			e.Values = p.names()
			m.Enums = append(m.Enums, e)
		case "X":
			x := extT{Name: p.next()}
			x.Extendee = p.full()
			x.Num, _ = strconv.Atoi(p.next())
			m.Exts = append(m.Exts, x)
		case "S":
			s := svcT{Name: p.next()}
			s.Methods = p.names()
			if svcs == nil {
				p.err = true
				return
			}
			*svcs = append(*svcs, s)
		case "f":
			m.Fields = append(m.Fields, p.next())
		case "o":
			m.Oneofs = append(m.Oneofs, p.next())
		default:
			p.err = true
		}
	}
}

func parseFile(toks []string) (*fileT, bool) {
	p := &parser{t: toks}
	if p.next() != "F" {
		return nil, false
	}
	f := &fileT{Path: p.next()}
	f.Pkg = p.full()
	var top msgT
	p.body(&top, &f.Svcs)
	if p.err || len(p.t) != 0 || len(top.Fields) != 0 || len(top.Oneofs) != 0 {
		return nil, false
	}
	f.Enums, f.Msgs, f.Exts = top.Enums, top.Msgs, top.Exts
	return f, true
}

func join(scope, name string) string {
	if scope == "" {
		return name
	}
	return scope + "." + name
}

// allDecls lists every declaration of the file with its full name and kind (enum values live in
// the scope that encloses their enum).
func (f *fileT) allDecls() map[string]string {
	out := map[string]string{}
	var enums func(scope string, es []enumT)
	enums = func(scope string, es []enumT) {
		for _, e := range es {
			out[join(scope, e.Name)] = "enum"
			for _, v := range e.Values {
				out[join(scope, v)] = "enumvalue"
			}
		}
	}
	var msgs func(scope string, ms []msgT)
	msgs = func(scope string, ms []msgT) {
		for _, m := range ms {
			full := join(scope, m.Name)
			out[full] = "message"
			enums(full, m.Enums)
			for _, x := range m.Exts {
				out[join(full, x.Name)] = "extension"
			}
			for _, fd := range m.Fields {
				out[join(full, fd)] = "field"
			}
			for _, o := range m.Oneofs {
				out[join(full, o)] = "oneof"
			}
			msgs(full, m.Msgs)
		}
	}
	enums(f.Pkg, f.Enums)
	msgs(f.Pkg, f.Msgs)
	for _, x := range f.Exts {
		out[join(f.Pkg, x.Name)] = "extension"
	}
	for _, s := range f.Svcs {
		out[join(f.Pkg, s.Name)] = "service"
		for _, m := range s.Methods {
			out[join(join(f.Pkg, s.Name), m)] = "method"
		}
	}
	return out
}

// topNames lists the names that occupy the registry's flat namespace.
func (f *fileT) topNames() []string {
	var out []string
	for _, e := range f.Enums {
		out = append(out, join(f.Pkg, e.Name))
		for _, v := range e.Values {
			out = append(out, join(f.Pkg, v))
		}
	}
	for _, m := range f.Msgs {
		out = append(out, join(f.Pkg, m.Name))
	}
	for _, x := range f.Exts {
		out = append(out, join(f.Pkg, x.Name))
	}
	for _, s := range f.Svcs {
		out = append(out, join(f.Pkg, s.Name))
	}
	return out
}

func prefixes(pkg string) []string { // non-empty prefixes of a dotted name
	var out []string
	for pkg != "" {
		out = append(out, pkg)
		if i := strings.LastIndexByte(pkg, '.'); i >= 0 {
			pkg = pkg[:i]
		} else {
			pkg = ""
		}
	}
	return out
}

// ---------------------------------------------------------------------------------------------
// building real descriptors

func enumProto(e enumT) *descriptorpb.EnumDescriptorProto {
	p := &descriptorpb.EnumDescriptorProto{Name: proto.String(e.Name)}
	for i, v := range e.Values {
		p.Value = append(p.Value, &descriptorpb.EnumValueDescriptorProto{Name: proto.String(v), Number: proto.Int32(int32(i))})
	}
	return p
}
func extProto(x extT) *descriptorpb.FieldDescriptorProto {
	return &descriptorpb.FieldDescriptorProto{
		Name: proto.String(x.Name), Number: proto.Int32(int32(x.Num)),
		Label:    descriptorpb.FieldDescriptorProto_LABEL_OPTIONAL.Enum(),
		Type:     descriptorpb.FieldDescriptorProto_TYPE_INT32.Enum(),
		Extendee: proto.String("." + x.Extendee),
	}
}
func msgProto(m msgT) *descriptorpb.DescriptorProto {
	p := &descriptorpb.DescriptorProto{Name: proto.String(m.Name)}
	p.ExtensionRange = []*descriptorpb.DescriptorProto_ExtensionRange{{Start: proto.Int32(1), End: proto.Int32(4)}}
	for i, f := range m.Fields {
		fp := &descriptorpb.FieldDescriptorProto{
			Name: proto.String(f), Number: proto.Int32(int32(10 + i)),
			Label: descriptorpb.FieldDescriptorProto_LABEL_OPTIONAL.Enum(),
			Type:  descriptorpb.FieldDescriptorProto_TYPE_INT32.Enum(),
		}
		if i < len(m.Oneofs) { // the i-th field is the member of the i-th oneof
			fp.OneofIndex = proto.Int32(int32(i))
		}
		p.Field = append(p.Field, fp)
	}
	for _, o := range m.Oneofs {
		p.OneofDecl = append(p.OneofDecl, &descriptorpb.OneofDescriptorProto{Name: proto.String(o)})
	}
	for _, e := range m.Enums {
		p.EnumType = append(p.EnumType, enumProto(e))
	}
	for _, n := range m.Msgs {
		p.NestedType = append(p.NestedType, msgProto(n))
	}
	for _, x := range m.Exts {
		p.Extension = append(p.Extension, extProto(x))
	}
	return p
}

func (f *fileT) proto(deps []string) *descriptorpb.FileDescriptorProto {
	p := &descriptorpb.FileDescriptorProto{Name: proto.String(f.Path), Syntax: proto.String("proto2"), Dependency: deps}
	if f.Pkg != "" {
		p.Package = proto.String(f.Pkg)
	}
	for _, e := range f.Enums {
		p.EnumType = append(p.EnumType, enumProto(e))
	}
	for _, m := range f.Msgs {
		p.MessageType = append(p.MessageType, msgProto(m))
	}
	for _, x := range f.Exts {
		p.Extension = append(p.Extension, extProto(x))
	}
	for _, s := range f.Svcs {
		sp := &descriptorpb.ServiceDescriptorProto{Name: proto.String(s.Name)}
		for _, m := range s.Methods {
			sp.Method = append(sp.Method, &descriptorpb.MethodDescriptorProto{Name: proto.String(m),
				InputType: proto.String(".zz.Req"), OutputType: proto.String(".zz.Rsp")})
		}
		p.Service = append(p.Service, sp)
	}
	return p
}

// ---------------------------------------------------------------------------------------------
// the name-table oracle (direct statement of the property, independent of the Lean model)

type refSpec struct {
	files []*fileT
	paths map[string]bool
	top   map[string]bool   // declarations in the flat namespace
	pkgs  map[string]bool   // non-empty package names
	all   map[string]string // every declaration -> kind
	// types
	tnames map[string]string // full name -> kind
	texts  map[string]bool   // "extendee#number"
	tlist  []string          // canonical text of every accepted type
}

func newRef() *refSpec {
	return &refSpec{paths: map[string]bool{}, top: map[string]bool{}, pkgs: map[string]bool{}, all: map[string]string{},
		tnames: map[string]string{}, texts: map[string]bool{}}
}

func (s *refSpec) conflict(f *fileT) string {
	if s.paths[f.Path] {
		return "path"
	}
	for _, p := range prefixes(f.Pkg) {
		if s.top[p] {
			return "pkg"
		}
	}
	for _, n := range f.topNames() {
		if s.top[n] || s.pkgs[n] {
			return "name"
		}
	}
	return ""
}

func (s *refSpec) accept(f *fileT) {
	s.files = append(s.files, f)
	s.paths[f.Path] = true
	for _, p := range prefixes(f.Pkg) {
		s.pkgs[p] = true
	}
	for _, n := range f.topNames() {
		s.top[n] = true
	}
	for n, k := range f.allDecls() {
		s.all[n] = k
	}
}

func (s *refSpec) tag(n string) string {
	if s.top[n] {
		return "declaration"
	}
	if n == "" || s.pkgs[n] {
		return "package"
	}
	return "free"
}

// ---------------------------------------------------------------------------------------------
// running one history on the real implementation

type failure struct {
	kind, what, sig, impl, model string
}

type world struct {
	files    *protoregistry.Files
	types    *protoregistry.Types
	resolver *protoregistry.Files // every file built so far (as far as they do not conflict), for imports
	msgs     map[string]protoreflect.MessageDescriptor
	enums    map[string]protoreflect.EnumDescriptor
	exts     map[string]protoreflect.ExtensionDescriptor // key: full|extendee|number
	ref      *refSpec
	probes   []string
	synth    int
	wfAsk    []string // encodings of files that protodesc accepted (the model must call them well-formed)
}

func newWorld(ops []string) *world {
	w := &world{files: new(protoregistry.Files), types: new(protoregistry.Types), resolver: new(protoregistry.Files),
		msgs: map[string]protoreflect.MessageDescriptor{}, enums: map[string]protoreflect.EnumDescriptor{},
		exts: map[string]protoreflect.ExtensionDescriptor{}, ref: newRef()}
	w.probes = probeNames(ops)
	return w
}

// probeNames: every declaration of every file mentioned in the history, every prefix, near-misses.
func probeNames(ops []string) []string {
	set := map[string]bool{"": true, "zz": true, ".": true}
	add := func(n string) {
		for _, p := range prefixes(n) {
			set[p] = true
		}
	}
	for _, op := range ops {
		toks := strings.Fields(op)
		if len(toks) > 0 && toks[0] == "regfile" {
			if f, ok := parseFile(toks[1:]); ok {
				add(f.Pkg)
				for n, k := range f.allDecls() {
					add(n)
					set[n+".zz"] = true
					set[n+"."] = true
					set["."+n] = true
					if k == "enum" { // values are NOT children of their enum
						for _, e := range f.Enums {
							for _, v := range e.Values {
								set[n+"."+v] = true
							}
						}
						set[n+".a"] = true
					}
					if i := strings.LastIndexByte(n, '.'); i >= 0 {
						set[n[:i]+".."+n[i+1:]] = true
						set[n[:i]+".zz"] = true
					}
				}
			}
		} else {
			for _, t := range toks[1:] {
				if strings.HasPrefix(t, "n:") {
					add(strings.TrimPrefix(t, "n:"))
				}
			}
		}
	}
	out := make([]string, 0, len(set))
	for n := range set {
		if !strings.ContainsAny(n, " ;") {
			out = append(out, n)
		}
	}
	sort.Strings(out)
	return out
}

func descKind(d protoreflect.Descriptor) string {
	switch d := d.(type) {
	case protoreflect.MessageDescriptor:
		return "message"
	case protoreflect.EnumDescriptor:
		return "enum"
	case protoreflect.EnumValueDescriptor:
		return "enumvalue"
	case protoreflect.FieldDescriptor:
		if d.IsExtension() {
			return "extension"
		}
		return "field"
	case protoreflect.OneofDescriptor:
		return "oneof"
	case protoreflect.ServiceDescriptor:
		return "service"
	case protoreflect.MethodDescriptor:
		return "method"
	case protoreflect.FileDescriptor:
		return "file"
	}
	return fmt.Sprintf("%T", d)
}

func (w *world) find(n string) string {
	d, err := w.files.FindDescriptorByName(protoreflect.FullName(n))
	if err == protoregistry.NotFound {
		if d != nil {
			return "notfound-with-descriptor"
		}
		return "notfound"
	}
	if err != nil {
		return "error " + err.Error()
	}
	if d == nil {
		return "nil-without-error"
	}
	return descKind(d) + " n:" + string(d.FullName())
}

func fileText(fd protoreflect.FileDescriptor) string { return fd.Path() + "|n:" + string(fd.Package()) }

func sortedList(xs []string) string {
	if len(xs) == 0 {
		return "-"
	}
	sort.Strings(xs)
	return strings.Join(xs, ",")
}

// canonList sorts the comma-separated list after the first word of a model answer ("files a,b").
func canonList(ans string) string {
	i := strings.IndexByte(ans, ' ')
	if i < 0 || ans[i+1:] == "-" {
		return ans
	}
	return ans[:i+1] + sortedList(strings.Split(ans[i+1:], ","))
}

func (w *world) rangeFiles() string {
	var xs []string
	w.files.RangeFiles(func(fd protoreflect.FileDescriptor) bool { xs = append(xs, fileText(fd)); return true })
	return "files " + sortedList(xs)
}
func (w *world) rangePkg(n string) string {
	var xs []string
	w.files.RangeFilesByPackage(protoreflect.FullName(n), func(fd protoreflect.FileDescriptor) bool { xs = append(xs, fileText(fd)); return true })
	return "files " + sortedList(xs)
}
func (w *world) findPath(p string) string {
	fd, err := w.files.FindFileByPath(p)
	if err == protoregistry.NotFound {
		return "notfound"
	}
	if err != nil {
		if strings.Contains(err.Error(), "multiple files") {
			return "multiple"
		}
		return "error " + err.Error()
	}
	return "file " + fileText(fd)
}

// snapshot of everything observable about the Files registry (for "a failed registration changes nothing").
func (w *world) snapshotFiles() string {
	var b strings.Builder
	for _, n := range w.probes {
		b.WriteString(n + "=" + w.find(n) + "/" + strconv.Itoa(w.files.NumFilesByPackage(protoreflect.FullName(n))) + "/" + w.rangePkg(n) + "\n")
	}
	for _, p := range paths {
		b.WriteString(p + "=" + w.findPath(p) + "\n")
	}
	b.WriteString(strconv.Itoa(w.files.NumFiles()) + " " + w.rangeFiles())
	return b.String()
}

func typeText(kind string, full protoreflect.FullName, xd protoreflect.ExtensionDescriptor) string {
	if kind == "extension" {
		return fmt.Sprintf("extension n:%s n:%s %d", full, xd.ContainingMessage().FullName(), xd.Number())
	}
	return kind + " n:" + string(full)
}

func typeResult(kind string, full protoreflect.FullName, xd protoreflect.ExtensionDescriptor, err error) string {
	if err == protoregistry.NotFound {
		return "notfound"
	}
	if err != nil {
		if strings.Contains(err.Error(), "found wrong type") {
			return "wrongtype"
		}
		return "error " + err.Error()
	}
	return typeText(kind, full, xd)
}

func (w *world) findMsg(n string) string {
	mt, err := w.types.FindMessageByName(protoreflect.FullName(n))
	if err != nil {
		return typeResult("message", "", nil, err)
	}
	return typeText("message", mt.Descriptor().FullName(), nil)
}
func (w *world) findURL(u string) string {
	mt, err := w.types.FindMessageByURL(u)
	if err != nil {
		return typeResult("message", "", nil, err)
	}
	return typeText("message", mt.Descriptor().FullName(), nil)
}
func (w *world) findEnum(n string) string {
	et, err := w.types.FindEnumByName(protoreflect.FullName(n))
	if err != nil {
		return typeResult("enum", "", nil, err)
	}
	return typeText("enum", et.Descriptor().FullName(), nil)
}
func (w *world) findExt(n string) string {
	xt, err := w.types.FindExtensionByName(protoreflect.FullName(n))
	if err != nil {
		return typeResult("extension", "", nil, err)
	}
	return typeText("extension", xt.TypeDescriptor().FullName(), xt.TypeDescriptor())
}
func (w *world) findExtNum(m string, k int) string {
	xt, err := w.types.FindExtensionByNumber(protoreflect.FullName(m), protoreflect.FieldNumber(k))
	if err != nil {
		return typeResult("extension", "", nil, err)
	}
	return typeText("extension", xt.TypeDescriptor().FullName(), xt.TypeDescriptor())
}
func bar(s string) string { return strings.ReplaceAll(s, " ", "|") }
func (w *world) rangeTypes(kind string) string {
	var xs []string
	switch kind {
	case "message":
		w.types.RangeMessages(func(mt protoreflect.MessageType) bool {
			xs = append(xs, bar(typeText("message", mt.Descriptor().FullName(), nil)))
			return true
		})
	case "enum":
		w.types.RangeEnums(func(et protoreflect.EnumType) bool {
			xs = append(xs, bar(typeText("enum", et.Descriptor().FullName(), nil)))
			return true
		})
	case "extension":
		w.types.RangeExtensions(func(xt protoreflect.ExtensionType) bool {
			xs = append(xs, bar(typeText("extension", xt.TypeDescriptor().FullName(), xt.TypeDescriptor())))
			return true
		})
	}
	return "types " + sortedList(xs)
}
func (w *world) rangeExtMsg(m string) string {
	var xs []string
	w.types.RangeExtensionsByMessage(protoreflect.FullName(m), func(xt protoreflect.ExtensionType) bool {
		xs = append(xs, bar(typeText("extension", xt.TypeDescriptor().FullName(), xt.TypeDescriptor())))
		return true
	})
	return "types " + sortedList(xs)
}

func (w *world) snapshotTypes() string {
	var b strings.Builder
	for _, n := range w.probes {
		b.WriteString(n + "=" + w.findMsg(n) + "/" + w.findEnum(n) + "/" + w.findExt(n) + "/" + w.findURL("x/"+n) + "/" + w.rangeExtMsg(n))
		for k := 0; k <= 4; k++ {
			b.WriteString("/" + w.findExtNum(n, k))
		}
		b.WriteString("/" + strconv.Itoa(w.types.NumExtensionsByMessage(protoreflect.FullName(n))) + "\n")
	}
	b.WriteString(fmt.Sprintf("%d %d %d %s %s %s", w.types.NumMessages(), w.types.NumEnums(), w.types.NumExtensions(),
		w.rangeTypes("message"), w.rangeTypes("enum"), w.rangeTypes("extension")))
	return b.String()
}

// build turns the tree into a real FileDescriptor; imports every non-conflicting file built earlier.
func (w *world) build(f *fileT) (protoreflect.FileDescriptor, error) {
	var deps []string
	w.resolver.RangeFiles(func(fd protoreflect.FileDescriptor) bool {
		if fd.Path() != f.Path {
			deps = append(deps, fd.Path())
		}
		return true
	})
	sort.Strings(deps)
	fd, err := protodesc.FileOptions{AllowUnresolvable: true}.New(f.proto(deps), w.resolver)
	if err != nil {
		return nil, err
	}
	w.resolver.RegisterFile(fd) // may fail; then later files just cannot import it
	var walk func(ms protoreflect.MessageDescriptors)
	addExts := func(xs protoreflect.ExtensionDescriptors) {
		for i := 0; i < xs.Len(); i++ {
			x := xs.Get(i)
			k := fmt.Sprintf("%s|%s|%d", x.FullName(), x.ContainingMessage().FullName(), x.Number())
			if _, ok := w.exts[k]; !ok {
				w.exts[k] = x
			}
		}
	}
	addEnums := func(es protoreflect.EnumDescriptors) {
		for i := 0; i < es.Len(); i++ {
			if _, ok := w.enums[string(es.Get(i).FullName())]; !ok {
				w.enums[string(es.Get(i).FullName())] = es.Get(i)
			}
		}
	}
	walk = func(ms protoreflect.MessageDescriptors) {
		for i := 0; i < ms.Len(); i++ {
			m := ms.Get(i)
			if _, ok := w.msgs[string(m.FullName())]; !ok {
				w.msgs[string(m.FullName())] = m
			}
			addEnums(m.Enums())
			addExts(m.Extensions())
			walk(m.Messages())
		}
	}
	addEnums(fd.Enums())
	addExts(fd.Extensions())
	walk(fd.Messages())
	return fd, nil
}

// synthesise a one-declaration file so that a type of the wanted full name exists
func (w *world) synthFile(full string, mk func(f *fileT, name string)) (protoreflect.FileDescriptor, error) {
	w.synth++
	f := &fileT{Path: fmt.Sprintf("synth%d.proto", w.synth)}
	name := full
	if i := strings.LastIndexByte(full, '.'); i >= 0 {
		f.Pkg, name = full[:i], full[i+1:]
	}
	mk(f, name)
	return protodesc.FileOptions{AllowUnresolvable: true}.New(f.proto(nil), new(protoregistry.Files))
}

func classifyFileErr(err error) string {
	if err == nil {
		return "ok"
	}
	s := err.Error()
	if i := strings.Index(s, "\n"); i >= 0 {
		s = s[:i]
	}
	// Only the class of the error is compared: which of several conflicting names the message reports
	// depends on the iteration order and is not part of the property.
	switch {
	case strings.Contains(s, "has a package name conflict over "):
		return "err-pkg"
	case strings.Contains(s, "has a name conflict over "):
		return "err-name"
	case strings.Contains(s, "is already registered"):
		return "err-path"
	}
	return "error " + s
}

func classifyTypeErr(err error) string {
	if err == nil {
		return "ok"
	}
	s := err.Error()
	switch {
	case strings.Contains(s, "is already registered on message"):
		return "err-extnum"
	case strings.Contains(s, "is already registered"):
		return "err-name"
	}
	return "error " + s
}

var paths = []string{"p1.proto", "p2.proto", "p3.proto"}

// apply runs one op on the implementation.  It returns the observable answer ("" with skip=true when the
// op cannot be carried out, e.g. protodesc rejects the file) and the first direct property failure.
func (w *world) apply(op string) (ans string, skip bool, fail *failure) {
	toks := strings.Fields(op)
	if len(toks) == 0 {
		return "", true, nil
	}
	arg := func(i int) string {
		if i < len(toks) {
			return strings.TrimPrefix(strings.TrimPrefix(toks[i], "n:"), "u:")
		}
		return ""
	}
	prop := func(ok bool, what, sig string) {
		if !ok && fail == nil {
			fail = &failure{kind: "property", what: what, sig: sig}
		}
	}
	switch toks[0] {
	case "regfile":
		f, ok := parseFile(toks[1:])
		if !ok {
			return "", true, nil
		}
		fd, err := w.build(f)
		if err != nil {
			return "", true, nil
		}
		w.wfAsk = append(w.wfAsk, strings.Join(toks[1:], " "))
		want := w.ref.conflict(f)
		var before string
		if want != "" {
			before = w.snapshotFiles()
		}
		ans = classifyFileErr(w.files.RegisterFile(fd))
		prop((ans == "ok") == (want == ""), "RegisterFile succeeds iff the file introduces no path/package/name conflict (oracle: "+want+"-conflict, got "+ans+")", "regfile-ok-iff")
		if ans == "ok" {
			if want == "" {
				w.ref.accept(f)
			}
			for n, k := range f.allDecls() {
				got := w.find(n)
				prop(got == k+" n:"+n, "every declaration of a registered file is found by its full name: "+n+" ("+k+") -> "+got, "find-declared")
			}
		} else {
			prop(before == "" || w.snapshotFiles() == before, "a failed RegisterFile leaves every lookup/count/range unchanged", "regfile-fail-unchanged")
		}
	case "find":
		ans = w.find(arg(1))
		if k, ok := w.ref.all[arg(1)]; ok {
			prop(ans == k+" n:"+arg(1), "registered declaration is found with its kind and name", "find-declared")
		} else {
			prop(ans == "notfound", "a name that no registered file declares is not found: "+arg(1)+" -> "+ans, "find-undeclared")
		}
	case "findpath":
		ans = w.findPath(arg(1))
		prop((ans != "notfound") == w.ref.paths[arg(1)], "FindFileByPath finds exactly the registered paths", "findpath")
	case "numfiles":
		ans = strconv.Itoa(w.files.NumFiles())
		prop(w.files.NumFiles() == len(w.ref.files), "NumFiles counts the registered files", "numfiles")
	case "rangefiles":
		ans = w.rangeFiles()
		var xs []string
		for _, f := range w.ref.files {
			xs = append(xs, f.Path+"|n:"+f.Pkg)
		}
		prop(ans == "files "+sortedList(xs), "RangeFiles enumerates exactly the registered files", "rangefiles")
	case "numpkg", "rangepkg":
		var xs []string
		for _, f := range w.ref.files {
			if f.Pkg == arg(1) {
				xs = append(xs, f.Path+"|n:"+f.Pkg)
			}
		}
		if toks[0] == "numpkg" {
			ans = strconv.Itoa(w.files.NumFilesByPackage(protoreflect.FullName(arg(1))))
			prop(ans == strconv.Itoa(len(xs)), "NumFilesByPackage counts the registered files of the package", "numpkg")
		} else {
			ans = w.rangePkg(arg(1))
			prop(ans == "files "+sortedList(xs), "RangeFilesByPackage enumerates the registered files of the package", "rangepkg")
		}
	case "spectag": // ties the Go oracle to the Lean specification
		ans = w.ref.tag(arg(1))
	case "regmsg", "regenum", "regext":
		full := arg(1)
		if full == "" {
			return "", true, nil
		}
		var err error
		var kind, text, extKey string
		switch toks[0] {
		case "regmsg":
			kind = "message"
			md := w.msgs[full]
			if md == nil {
				fd, e := w.synthFile(full, func(f *fileT, name string) { f.Msgs = []msgT{{Name: name}} })
				if e != nil {
					return "", true, nil
				}
				md = fd.Messages().Get(0)
			}
			text = typeText(kind, md.FullName(), nil)
			before := w.snapshotTypes()
			err = w.types.RegisterMessage(dynamicpb.NewMessageType(md))
			if err != nil {
				prop(w.snapshotTypes() == before, "a failed RegisterMessage leaves every lookup/count/range unchanged", "regtype-fail-unchanged")
			}
		case "regenum":
			kind = "enum"
			ed := w.enums[full]
			if ed == nil {
				fd, e := w.synthFile(full, func(f *fileT, name string) { f.Enums = []enumT{{Name: name, Values: []string{name + "_V"}}} })
				if e != nil {
					return "", true, nil
				}
				ed = fd.Enums().Get(0)
			}
			text = typeText(kind, ed.FullName(), nil)
			before := w.snapshotTypes()
			err = w.types.RegisterEnum(dynamicpb.NewEnumType(ed))
			if err != nil {
				prop(w.snapshotTypes() == before, "a failed RegisterEnum leaves every lookup/count/range unchanged", "regtype-fail-unchanged")
			}
		case "regext":
			kind = "extension"
			num, _ := strconv.Atoi(arg(3))
			if arg(2) == "" || num <= 0 {
				return "", true, nil
			}
			extKey = arg(2) + "#" + arg(3)
			xd := w.exts[fmt.Sprintf("%s|%s|%d", full, arg(2), num)]
			if xd == nil {
				fd, e := w.synthFile(full, func(f *fileT, name string) { f.Exts = []extT{{Name: name, Extendee: arg(2), Num: num}} })
				if e != nil {
					return "", true, nil
				}
				xd = fd.Extensions().Get(0)
			}
			text = typeText(kind, xd.FullName(), xd)
			before := w.snapshotTypes()
			err = w.types.RegisterExtension(dynamicpb.NewExtensionType(xd))
			if err != nil {
				prop(w.snapshotTypes() == before, "a failed RegisterExtension leaves every lookup/count/range unchanged", "regtype-fail-unchanged")
			}
		}
		ans = classifyTypeErr(err)
		_, nameTaken := w.ref.tnames[full]
		numTaken := extKey != "" && w.ref.texts[extKey]
		prop((ans == "ok") == (!nameTaken && !numTaken), "type registration succeeds iff there is no name conflict and no extension-number conflict (got "+ans+")", "regtype-ok-iff")
		if ans == "ok" && !nameTaken && !numTaken {
			w.ref.tnames[full] = kind
			if extKey != "" {
				w.ref.texts[extKey] = true
			}
			w.ref.tlist = append(w.ref.tlist, text)
		}
	case "findmsg", "findurl", "findenum", "findext":
		n := arg(1)
		want := map[string]string{"findmsg": "message", "findurl": "message", "findenum": "enum", "findext": "extension"}[toks[0]]
		switch toks[0] {
		case "findmsg":
			ans = w.findMsg(n)
		case "findurl":
			ans = w.findURL(n)
			if i := strings.LastIndexByte(n, '/'); i >= 0 {
				n = n[i+1:]
			}
		case "findenum":
			ans = w.findEnum(n)
		case "findext":
			ans = w.findExt(n)
		}
		k, ok := w.ref.tnames[n]
		switch {
		case !ok:
			prop(ans == "notfound", "a type name that was not registered is not found", "findtype")
		case k != want:
			prop(ans == "wrongtype", "a name registered with another kind is reported as wrong type", "findtype")
		default:
			prop(strings.HasPrefix(ans, want+" n:"+n), "a registered type is found by its full name", "findtype")
		}
	case "findextnum":
		k, _ := strconv.Atoi(arg(2))
		ans = w.findExtNum(arg(1), k)
		prop((ans != "notfound") == w.ref.texts[arg(1)+"#"+arg(2)], "FindExtensionByNumber finds exactly the registered (message, number) pairs", "findextnum")
	case "nummsgs", "numenums", "numexts", "rangemsgs", "rangeenums", "rangeexts":
		kind := map[string]string{"nummsgs": "message", "rangemsgs": "message", "numenums": "enum", "rangeenums": "enum",
			"numexts": "extension", "rangeexts": "extension"}[toks[0]]
		var xs []string
		for _, t := range w.ref.tlist {
			if strings.HasPrefix(t, kind+" ") {
				xs = append(xs, bar(t))
			}
		}
		if strings.HasPrefix(toks[0], "num") {
			n := map[string]int{"message": w.types.NumMessages(), "enum": w.types.NumEnums(), "extension": w.types.NumExtensions()}[kind]
			ans = strconv.Itoa(n)
			prop(n == len(xs), "Num"+kind+"s counts the registered types", "numtypes")
		} else {
			ans = w.rangeTypes(kind)
			prop(ans == "types "+sortedList(xs), "Range"+kind+"s enumerates exactly the registered types", "rangetypes")
		}
	case "numextmsg", "rangeextmsg":
		var xs []string
		for _, t := range w.ref.tlist {
			fs := strings.Fields(t)
			if fs[0] == "extension" && fs[2] == "n:"+arg(1) {
				xs = append(xs, bar(t))
			}
		}
		if toks[0] == "numextmsg" {
			ans = strconv.Itoa(w.types.NumExtensionsByMessage(protoreflect.FullName(arg(1))))
			prop(ans == strconv.Itoa(len(xs)), "NumExtensionsByMessage counts the registered extensions of the message", "numextmsg")
		} else {
			ans = w.rangeExtMsg(arg(1))
			prop(ans == "types "+sortedList(xs), "RangeExtensionsByMessage enumerates the registered extensions of the message", "rangeextmsg")
		}
	default:
		return "", true, nil
	}
	return ans, false, fail
}

// evalSeq runs a history on fresh registries and on the model; it returns the first failure (nil = ok),
// the implementation's answers and the ops that were actually carried out.
func evalSeq(c *C, ops []string) (fail *failure, answers []string, done []string) {
	w := newWorld(ops)
	func() {
		defer func() {
			if e := recover(); e != nil {
				fail = &failure{kind: "panic", what: fmt.Sprintf("registry call panicked: %v", e), sig: "panic"}
			}
		}()
		for _, op := range ops {
			ans, skip, f := w.apply(op)
			if skip {
				continue
			}
			done = append(done, op)
			answers = append(answers, ans)
			if f != nil && fail == nil {
				f.what = fmt.Sprintf("op %d (%s): %s", len(done), strings.Fields(op)[0], f.what)
				fail = f
			}
		}
	}()
	if fail != nil || !c.HasModel() || len(done) == 0 {
		return
	}
	manswer := c.Ask("run %s", strings.Join(done, " ; "))
	mans := strings.Split(manswer, " ; ")
	if len(mans) != len(answers) {
		return &failure{kind: "correspondence", what: "model answer count", impl: strings.Join(answers, " ; "), model: manswer}, answers, done
	}
	for i := range answers {
		m := mans[i]
		if strings.HasPrefix(m, "files ") || strings.HasPrefix(m, "types ") {
			m = canonList(m)
		}
		if strings.HasPrefix(m, "err-pkg ") || strings.HasPrefix(m, "err-name ") {
			m = m[:strings.IndexByte(m, ' ')]
		}
		if m != answers[i] {
			verb := strings.Fields(done[i])[0]
			return &failure{kind: "correspondence", what: "op " + verb + ": implementation and model answer differently", impl: answers[i], model: m, sig: "corr-" + verb}, answers, done
		}
	}
	for _, enc := range w.wfAsk {
		if a := c.Ask("wf %s", enc); a != "1" {
			return &failure{kind: "correspondence", what: "protodesc accepted a file that the model calls ill-formed", impl: "accepted", model: a, sig: "wf"}, answers, done
		}
	}
	return nil, answers, done
}

func sameFailure(a, b *failure) bool {
	if a == nil || b == nil {
		return false
	}
	strip := func(s string) string { // drop the "op N (...)" position and parenthesised details
		if i := strings.Index(s, "): "); i >= 0 {
			s = s[i+3:]
		}
		if i := strings.IndexAny(s, "(:"); i >= 0 {
			s = s[:i]
		}
		return s
	}
	return a.kind == b.kind && a.sig == b.sig && strip(a.what) == strip(b.what)
}

// shrink: ddmin over the op list, then removal of single declarations inside the files.
func shrink(c *C, ops []string, orig *failure) ([]string, *failure) {
	cur, curFail := ops, orig
	try := func(cand []string) bool {
		if len(cand) == 0 {
			return false
		}
		f, _, _ := evalSeq(c, cand)
		if sameFailure(f, orig) {
			cur, curFail = cand, f
			return true
		}
		return false
	}
	n := 2
	for len(cur) >= 2 {
		chunk := (len(cur) + n - 1) / n
		reduced := false
		for start := 0; start < len(cur); start += chunk {
			end := start + chunk
			if end > len(cur) {
				end = len(cur)
			}
			cand := append(append([]string{}, cur[:start]...), cur[end:]...)
			if try(cand) {
				reduced = true
				if n > 2 {
					n--
				}
				break
			}
		}
		if !reduced {
			if chunk == 1 {
				break
			}
			n *= 2
			if n > len(cur) {
				n = len(cur)
			}
		}
	}
	// inside the files: drop one declaration at a time while the failure persists
	for changed := true; changed; {
		changed = false
		for i, op := range cur {
			toks := strings.Fields(op)
			if len(toks) == 0 || toks[0] != "regfile" {
				continue
			}
			f, ok := parseFile(toks[1:])
			if !ok {
				continue
			}
			for _, g := range smallerFiles(f) {
				cand := append([]string{}, cur...)
				cand[i] = "regfile " + g.render()
				if try(cand) {
					changed = true
					break
				}
			}
			if changed {
				break
			}
		}
	}
	return cur, curFail
}

func smallerMsgs(ms []msgT) [][]msgT {
	var out [][]msgT
	for i := range ms {
		out = append(out, append(append([]msgT{}, ms[:i]...), ms[i+1:]...))
	}
	for i, m := range ms {
		for _, v := range smallerMsg(m) {
			cp := append([]msgT{}, ms...)
			cp[i] = v
			out = append(out, cp)
		}
	}
	return out
}
func smallerEnums(es []enumT) [][]enumT {
	var out [][]enumT
	for i := range es {
		out = append(out, append(append([]enumT{}, es[:i]...), es[i+1:]...))
	}
	for i, e := range es {
		for j := range e.Values {
			if len(e.Values) > 1 {
				cp := append([]enumT{}, es...)
				cp[i] = enumT{Name: e.Name, Values: append(append([]string{}, e.Values[:j]...), e.Values[j+1:]...)}
				out = append(out, cp)
			}
		}
	}
	return out
}
func dropOne(xs []string) [][]string {
	var out [][]string
	for i := range xs {
		out = append(out, append(append([]string{}, xs[:i]...), xs[i+1:]...))
	}
	return out
}
func smallerMsg(m msgT) []msgT {
	var out []msgT
	for _, v := range smallerEnums(m.Enums) {
		c := m
		c.Enums = v
		out = append(out, c)
	}
	for _, v := range smallerMsgs(m.Msgs) {
		c := m
		c.Msgs = v
		out = append(out, c)
	}
	for i := range m.Exts {
		c := m
		c.Exts = append(append([]extT{}, m.Exts[:i]...), m.Exts[i+1:]...)
		out = append(out, c)
	}
	for _, v := range dropOne(m.Oneofs) {
		c := m
		c.Oneofs = v
		out = append(out, c)
	}
	if len(m.Fields) > len(m.Oneofs) {
		for _, v := range dropOne(m.Fields) {
			c := m
			c.Fields = v
			out = append(out, c)
		}
	}
	return out
}
func smallerFiles(f *fileT) []*fileT {
	var out []*fileT
	for _, v := range smallerEnums(f.Enums) {
		c := *f
		c.Enums = v
		out = append(out, &c)
	}
	for _, v := range smallerMsgs(f.Msgs) {
		c := *f
		c.Msgs = v
		out = append(out, &c)
	}
	for i := range f.Exts {
		c := *f
		c.Exts = append(append([]extT{}, f.Exts[:i]...), f.Exts[i+1:]...)
		out = append(out, &c)
	}
	for i, s := range f.Svcs {
		c := *f
		c.Svcs = append(append([]svcT{}, f.Svcs[:i]...), f.Svcs[i+1:]...)
		out = append(out, &c)
		for j := range s.Methods {
			c := *f
			c.Svcs = append([]svcT{}, f.Svcs...)
			c.Svcs[i] = svcT{Name: s.Name, Methods: append(append([]string{}, s.Methods[:j]...), s.Methods[j+1:]...)}
			out = append(out, &c)
		}
	}
	return out
}

// ---------------------------------------------------------------------------------------------
// generators

var pkgPool = []string{"", "a", "a.b", "b"}
var namePool = []string{"a", "b", "M", "E", "x"}

func pick(c *C, xs []string) string { return xs[c.Rand.Intn(len(xs))] }

type scope struct{ free []string }

func newScope(c *C) *scope {
	s := &scope{free: append([]string{}, namePool...)}
	c.Rand.Shuffle(len(s.free), func(i, j int) { s.free[i], s.free[j] = s.free[j], s.free[i] })
	return s
}

// take returns an unused name of the scope ("" when exhausted); rarely a used one (an invalid file that
// protodesc must reject — such ops are skipped on both sides).
func (s *scope) take(c *C) string {
	if c.Rand.Intn(60) == 0 {
		return pick(c, namePool)
	}
	if len(s.free) == 0 {
		return ""
	}
	n := s.free[0]
	s.free = s.free[1:]
	return n
}

func extendeePool(pkg string) []string {
	return []string{"M", "a.M", "a.b.M", "b.M", "a.b", "a.M.M", join(pkg, "M"), join(pkg, "a"), join(pkg, "M.M"), join(pkg, "x"), "zz.T"}
}

func genEnum(c *C, s *scope, name string) (enumT, bool) {
	e := enumT{Name: name}
	for k := 1 + c.Rand.Intn(2); k > 0; k-- {
		if v := s.take(c); v != "" {
			e.Values = append(e.Values, v)
		}
	}
	return e, len(e.Values) > 0
}

func genExt(c *C, pkg, name string) extT {
	return extT{Name: name, Extendee: pick(c, extendeePool(pkg)), Num: 1 + c.Rand.Intn(3)}
}

func genMsg(c *C, pkg, name string, depth int) msgT {
	m := msgT{Name: name}
	s := newScope(c)
	for k := c.Rand.Intn(4); k > 0; k-- {
		n := s.take(c)
		if n == "" {
			break
		}
		switch r := c.Rand.Intn(10); {
		case r < 3 && depth < 3:
			m.Msgs = append(m.Msgs, genMsg(c, pkg, n, depth+1))
		case r < 5:
			if e, ok := genEnum(c, s, n); ok {
				m.Enums = append(m.Enums, e)
			}
		case r < 6:
			m.Exts = append(m.Exts, genExt(c, pkg, n))
		case r < 8:
			m.Fields = append(m.Fields, n)
		default: // a oneof and its member field
			if fn := s.take(c); fn != "" {
				m.Oneofs = append(m.Oneofs, n)
				m.Fields = append([]string{fn}, m.Fields...)
			}
		}
	}
	return m
}

func genFile(c *C) *fileT {
	f := &fileT{Path: pick(c, paths), Pkg: pick(c, pkgPool)}
	s := newScope(c)
	for k := c.Rand.Intn(5); k > 0; k-- {
		n := s.take(c)
		if n == "" {
			break
		}
		switch r := c.Rand.Intn(10); {
		case r < 4:
			f.Msgs = append(f.Msgs, genMsg(c, f.Pkg, n, 1))
		case r < 6:
			if e, ok := genEnum(c, s, n); ok {
				f.Enums = append(f.Enums, e)
			}
		case r < 8:
			f.Exts = append(f.Exts, genExt(c, f.Pkg, n))
		default:
			sv := svcT{Name: n}
			for j := c.Rand.Intn(3); j > 0; j-- {
				sv.Methods = append(sv.Methods, pick(c, namePool))
			}
			sv.Methods = dedup(sv.Methods)
			f.Svcs = append(f.Svcs, sv)
		}
	}
	return f
}

func dedup(xs []string) []string {
	seen := map[string]bool{}
	var out []string
	for _, x := range xs {
		if !seen[x] {
			seen[x] = true
			out = append(out, x)
		}
	}
	return out
}

func genSeq(c *C) []string {
	nfiles := 1 + c.Rand.Intn(5)
	var files []*fileT
	off, spread := c.Rand.Intn(len(paths)), c.Rand.Intn(4) != 0
	for i := 0; i < nfiles; i++ {
		f := genFile(c)
		if spread { // mostly distinct paths, so that name and package conflicts are reached
			f.Path = paths[(off+i)%len(paths)]
		}
		files = append(files, f)
	}
	var declared []string
	for _, f := range files {
		for n := range f.allDecls() {
			declared = append(declared, n)
		}
	}
	sort.Strings(declared)
	declared = append(dedup(declared), pkgPool...)
	var ops []string
	for _, f := range files {
		ops = append(ops, "regfile "+f.render())
	}
	names := probeNames(ops)
	// type names: message-ish / enum-ish / extension-ish names of the files, plus pool names
	typeNames := []string{"M", "a.M", "a.b.M", "b.M", "a", "a.b", "E", "a.E", "x", "a.x", "a.M.M", "a.M.E"}
	for _, f := range files {
		for n, k := range f.allDecls() {
			if k == "message" || k == "enum" || k == "extension" {
				typeNames = append(typeNames, n)
			}
		}
	}
	sort.Strings(typeNames)
	typeNames = dedup(typeNames)
	var extOps []string
	for _, f := range files {
		var walk func(scope string, ms []msgT)
		walk = func(scope string, ms []msgT) {
			for _, m := range ms {
				for _, x := range m.Exts {
					extOps = append(extOps, fmt.Sprintf("regext n:%s n:%s %d", join(join(scope, m.Name), x.Name), x.Extendee, x.Num))
				}
				walk(join(scope, m.Name), m.Msgs)
			}
		}
		for _, x := range f.Exts {
			extOps = append(extOps, fmt.Sprintf("regext n:%s n:%s %d", join(f.Pkg, x.Name), x.Extendee, x.Num))
		}
		walk(f.Pkg, f.Msgs)
	}
	n := 4 + c.Rand.Intn(27)
	out := []string{}
	mode := c.Rand.Intn(4) // 0: files only, 1: types only, 2,3: mixed
	for len(out) < n {
		r := c.Rand.Intn(100)
		isFile := mode == 0 || (mode >= 2 && c.Rand.Intn(2) == 0)
		name := pick(c, names)
		if c.Rand.Intn(2) == 0 {
			name = pick(c, declared)
		}
		if isFile {
			switch {
			case r < 30:
				out = append(out, ops[c.Rand.Intn(len(ops))])
			case r < 75:
				out = append(out, "find n:"+name)
			case r < 80:
				out = append(out, "findpath "+pick(c, append([]string{"p4.proto"}, paths...)))
			case r < 84:
				out = append(out, "numfiles")
			case r < 88:
				out = append(out, "rangefiles")
			case r < 92:
				out = append(out, "numpkg n:"+pick(c, append([]string{name}, pkgPool...)))
			case r < 96:
				out = append(out, "rangepkg n:"+pick(c, append([]string{name}, pkgPool...)))
			default:
				out = append(out, "spectag n:"+name)
			}
		} else {
			tn := pick(c, typeNames)
			switch {
			case r < 12:
				out = append(out, "regmsg n:"+tn)
			case r < 22:
				out = append(out, "regenum n:"+tn)
			case r < 34 && len(extOps) > 0:
				out = append(out, pick(c, extOps))
			case r < 42:
				out = append(out, fmt.Sprintf("regext n:%s n:%s %d", tn, pick(c, []string{"M", "a.M", "b.M"}), 1+c.Rand.Intn(3)))
			case r < 52:
				out = append(out, "findmsg n:"+pick(c, []string{tn, name}))
			case r < 58:
				out = append(out, "findurl u:"+pick(c, []string{"", "type.googleapis.com/", "a/b/", "/", "x.y/"})+pick(c, []string{tn, name}))
			case r < 66:
				out = append(out, "findenum n:"+pick(c, []string{tn, name}))
			case r < 74:
				out = append(out, "findext n:"+pick(c, []string{tn, name}))
			case r < 82:
				out = append(out, fmt.Sprintf("findextnum n:%s %d", pick(c, []string{"M", "a.M", "b.M", "a.b.M", tn}), c.Rand.Intn(5)))
			case r < 91:
				out = append(out, pick(c, []string{"nummsgs", "numenums", "numexts", "rangemsgs", "rangeenums", "rangeexts"}))
			case r < 96:
				out = append(out, "numextmsg n:"+pick(c, []string{"M", "a.M", "b.M", tn}))
			default:
				out = append(out, "rangeextmsg n:"+pick(c, []string{"M", "a.M", "b.M", tn}))
			}
		}
	}
	return out
}

// ---------------------------------------------------------------------------------------------

func report(c *C, ops []string, f *failure) {
	small, sf := shrink(c, ops, f)
	if sf == nil {
		small, sf = ops, f
	}
	c.Hist(fmt.Sprintf("shrunk:%d->%d ops", len(ops), len(small)))
	c.Fail(vh.Failure{Kind: sf.kind, What: sf.what, Input: small, Sig: sf.sig, Impl: sf.impl, Model: sf.model})
}

func runC33(c *C) {
	c.R.Rule = "a case is one history (<= 30 ops) on fresh local Files/Types registries over files with packages from {'',a,a.b,b}, names from {a,b,M,E,x}, " +
		"3 paths, extension numbers 1-3; lookups probe every declaration, every prefix and near-misses (trailing/leading/double dots, enum.value, unknown child). " +
		"Non-trivial: at least one registration succeeded, at least one failed with a conflict and at least one lookup found a descriptor; distinct by op list."
	for _, raw := range c.ReplayInputs() {
		var ops []string
		if err := json.Unmarshal(raw, &ops); err != nil {
			continue
		}
		if f, _, _ := evalSeq(c, ops); f != nil {
			c.Fail(vh.Failure{Kind: f.kind, What: f.what, Input: ops, Sig: f.sig, Impl: f.impl, Model: f.model})
		}
		c.Hist("replayed")
	}
	fixed := [][]string{
		{"find n:", "find n:a", "numfiles", "rangefiles", "numpkg n:", "rangepkg n:a", "findpath p1.proto", "findmsg n:a", "findurl u:", "findextnum n:a 1", "rangemsgs", "numexts"},
		{"regfile F p1.proto n:a.b M M f x E E a b . M N o q f r . . X x n:a.b.M 1 S S m . E T u . .",
			"find n:a.b.M.N.q", "find n:a.b.M.a", "find n:a.b.M.E", "find n:a.b.M.E.a", "find n:a.b.u", "find n:a.b.T.u", "find n:a.b.S.m", "find n:a.b.S.m.x", "find n:a.b", "find n:a.b.M.N.r.x",
			"numpkg n:a.b", "numpkg n:a", "numpkg n:", "regfile F p2.proto n:a M b . .", "regfile F p1.proto n: .", "regfile F p3.proto n:a.b.M .", "regfile F p3.proto n:a.b .", "rangepkg n:a.b", "rangefiles"},
		{"regext n:x n:M 1", "regext n:y n:M 1", "regext n:x n:M 2", "regmsg n:x", "regmsg n:M", "regenum n:M", "findmsg n:x", "findext n:M", "findurl u:foo/bar/M", "rangeexts", "findextnum n:M 1", "findextnum n:M 2", "numextmsg n:M"},
	}
	total := c.N(3000, 100000)
	for i := 0; i < total+len(fixed); i++ {
		if c.Failed() {
			return
		}
		var ops []string
		if i < len(fixed) {
			ops = fixed[i]
		} else {
			ops = genSeq(c)
		}
		f, answers, done := evalSeq(c, ops)
		okReg, failReg, found := false, false, false
		for j, a := range answers {
			verb := strings.Fields(done[j])[0]
			cls := a
			if k := strings.IndexByte(a, ' '); k >= 0 {
				cls = a[:k]
			}
			if _, err := strconv.Atoi(cls); err == nil {
				cls = "n"
			}
			c.Hist(verb + ":" + cls)
			if strings.HasPrefix(verb, "reg") {
				okReg = okReg || a == "ok"
				failReg = failReg || a != "ok"
			} else if strings.HasPrefix(verb, "find") {
				found = found || (a != "notfound" && a != "wrongtype")
			}
		}
		c.Hist(fmt.Sprintf("skipped-ops:%d", len(ops)-len(done)))
		c.Case(strings.Join(ops, ";"), okReg && failReg && found)
		if i%500 == 7 {
			c.Sample(map[string]any{"ops": done, "answers": answers})
		}
		if f != nil {
			report(c, ops, f)
		}
	}
}
