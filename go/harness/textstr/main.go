// textstr harness: C25 — text-format string literals encode arbitrary bytes losslessly; EmitASCII output
// is printable ASCII; prototext with EmitUnknown renders every valid unknown-field set without panicking.
//
// Implementation under test (called in-process): internal/encoding/text (Encoder.WriteString, AppendString,
// UnmarshalString, Decoder.Read), encoding/prototext (Marshal/Unmarshal/Format, EmitUnknown), and — because
// the Lean model carries its own copy of it — unicode/utf8 itself.
package main

import (
	"bytes"
	"encoding/json"
	"fmt"
	"math"
	"os"
	"strings"
	"time"
	"unicode/utf8"

	"google.golang.org/protobuf/encoding/prototext"
	"google.golang.org/protobuf/encoding/protowire"
	"google.golang.org/protobuf/internal/detrand"
	"google.golang.org/protobuf/internal/encoding/text"
	testpb "google.golang.org/protobuf/internal/testprotos/test"
	"google.golang.org/protobuf/internal/zz_verif_vh"
	"google.golang.org/protobuf/proto"
	"google.golang.org/protobuf/types/known/emptypb"
)

type C = vh.Ctx

func init() { detrand.Disable() } // no random extra spaces: the output becomes comparable byte for byte

func main() { vh.Main("textstr", run) }

func run(c *C) {
	switch c.Prop {
	case "C25":
		runC25(c)
	default:
		panic("textstr harness: unknown property " + c.Prop)
	}
}

// ---------------------------------------------------------------- implementation wrappers

// implAppend is appendString(nil, s, ascii) reached through the exported Encoder.
func implAppend(s []byte, ascii bool) (out []byte, panicked string) {
	defer func() {
		if e := recover(); e != nil {
			out, panicked = nil, fmt.Sprint(e)
		}
	}()
	enc, err := text.NewEncoder(nil, "", [2]byte{}, ascii)
	if err != nil {
		return nil, "NewEncoder: " + err.Error()
	}
	enc.WriteString(string(s))
	return enc.Bytes(), ""
}

func errKind(err error) string {
	if err == text.ErrUnexpectedEOF {
		return "eof"
	}
	return "syntax"
}

// implParse is (*Decoder).parseString on arbitrary input (UnmarshalString): "ok <hex>" | eof | syntax | panic.
func implParse(in []byte) (res string) {
	defer func() {
		if e := recover(); e != nil {
			res = "panic"
		}
	}()
	s, err := text.UnmarshalString(string(in))
	if err != nil {
		return errKind(err)
	}
	return "ok " + vh.Hex([]byte(s))
}

// implParseValue is (*Decoder).parseStringValue reached through Decoder.Read on "f:" + in (in must start with a
// quote): "ok <hex> <len(rest)>" | eof | syntax | panic.
func implParseValue(in []byte) (res string) {
	defer func() {
		if e := recover(); e != nil {
			res = "panic"
		}
	}()
	d := text.NewDecoder(append([]byte("f:"), in...))
	tok, err := d.Read()
	if err != nil || tok.Kind() != text.Name {
		return "harness-name-token"
	}
	tok, err = d.Read()
	if err != nil {
		return errKind(err)
	}
	s, ok := tok.String()
	if !ok || tok.Kind() != text.Scalar {
		return "not-a-string"
	}
	return fmt.Sprintf("ok %s %d", vh.Hex([]byte(s)), len(in)-len(tok.RawString()))
}

// ---------------------------------------------------------------- one string

type strInput struct {
	Op    string `json:"op"`
	S     string `json:"s"` // hex
	ASCII bool   `json:"ascii"`
	Rest  string `json:"rest,omitempty"` // hex, what follows the literal in the Decoder path
}

func b2i(b bool) int {
	if b {
		return 1
	}
	return 0
}

// scanLiteral checks the lexical shape of a literal written by the encoder: opening and closing '"', and in
// between no control byte, no DEL, no unescaped '"', every backslash followed by one more byte.
func scanLiteral(lit []byte) bool {
	if len(lit) < 2 || lit[0] != '"' || lit[len(lit)-1] != '"' {
		return false
	}
	in := lit[1 : len(lit)-1]
	for i := 0; i < len(in); i++ {
		switch ch := in[i]; {
		case ch < 0x20 || ch == 0x7f || ch == '"':
			return false
		case ch == '\\':
			i++
			if i >= len(in) {
				return false
			}
		}
	}
	return true
}

func classify(s []byte, out []byte) string {
	switch {
	case len(s) == 0:
		return "empty"
	case !utf8.Valid(s):
		return "invalid-utf8"
	case bytes.Contains(out, []byte(`\U`)):
		return "esc-U"
	case bytes.Contains(out, []byte(`\u`)):
		return "esc-u"
	case bytes.Contains(out, []byte(`\x`)):
		return "esc-x"
	case bytes.IndexByte(out, '\\') >= 0:
		return "esc-short"
	case len(out) != 0 && !isASCII(s):
		return "raw-multibyte"
	default:
		return "plain"
	}
}

func isASCII(b []byte) bool {
	for _, x := range b {
		if x >= 0x80 {
			return false
		}
	}
	return true
}

// checkString runs every check on one (s, ascii). level: 2 = model comparison too, 1 = implementation only.
func checkString(c *C, s []byte, ascii bool, rest []byte, level int, glue bool) {
	in := strInput{Op: "str", S: vh.Hex(s), ASCII: ascii, Rest: vh.Hex(rest)}
	out, pan := implAppend(s, ascii)
	if !c.Check(pan == "", "appendString panicked: "+pan, in, "") {
		return
	}
	// ---- the property, directly on the implementation
	got := implParse(out)
	c.Check(got == "ok "+vh.Hex(s), "UnmarshalString(appendString(s)) = s; got "+got, in, "")
	lit := append(append([]byte{}, out...), rest...)
	gotv := implParseValue(lit)
	// what the decoder leaves: rest minus leading white space / comments; computed independently here
	wantRest := len(trimWsComments(rest))
	if !startsWithQuote(trimWsComments(rest)) {
		c.Check(gotv == fmt.Sprintf("ok %s %d", vh.Hex(s), wantRest),
			"Decoder.Read(appendString(s) ++ rest) = (s, rest after white space); got "+gotv, in, "")
	}
	if ascii {
		okASCII := true
		for _, x := range out {
			if x < 0x20 || x > 0x7e {
				okASCII = false
			}
		}
		c.Check(okASCII, "EmitASCII output has a byte outside [0x20,0x7e]: "+vh.Hex(out), in, "")
	}
	c.Check(scanLiteral(out), "literal has an unescaped quote / control byte / dangling backslash: "+vh.Hex(out), in, "")
	c.Check(utf8.Valid(out), "literal is not valid UTF-8 (the parser would reject it): "+vh.Hex(out), in, "")
	if !ascii {
		c.Check(bytes.Equal(out, text.AppendString(nil, string(s))), "AppendString(nil,s) = Encoder.WriteString(s)", in, "")
		pre := []byte("xy")
		c.Check(bytes.Equal(text.AppendString(pre, string(s)), append([]byte("xy"), out...)), "AppendString(b,s) = b ++ AppendString(nil,s)", in, "")
	}
	// ---- correspondence with the Lean model
	if level >= 2 && c.HasModel() {
		c.Compare("appendString", in, vh.Hex(out), c.Ask("append %s %d", vh.Hex(s), b2i(ascii)))
		m := c.Ask("parse %s", vh.Hex(out))
		c.Compare("parseString(appendString s)", in, got, dropRest(m))
		if len(rest) > 0 || c.Rand.Intn(8) == 0 {
			c.Compare("parseStringValue(appendString s ++ rest)", in, gotv, c.Ask("parsev %s", vh.Hex(lit)))
		}
	}
	// ---- the glue: prototext.Marshal / Unmarshal of a proto2 message with a string and a bytes field
	if glue {
		checkGlue(c, s, ascii, out, in)
	}
	cl := classify(s, out)
	c.Hist("str:" + cl)
	c.Case(fmt.Sprintf("s|%x|%v", s, ascii), cl != "plain" && cl != "empty")
	if cl != "plain" && cl != "empty" && len(s) >= 3 && c.Rand.Intn(50) == 0 {
		c.Sample(map[string]any{"s": vh.Hex(s), "ascii": ascii, "literal": string(out)})
	}
}

// dropRest turns the model's "ok <hex> <restlen>" into "ok <hex>".
func dropRest(m string) string {
	f := strings.Fields(m)
	if len(f) == 3 && f[0] == "ok" {
		return f[0] + " " + f[1]
	}
	return m
}

func startsWithQuote(b []byte) bool { return len(b) > 0 && (b[0] == '"' || b[0] == '\'') }

// trimWsComments is the harness's own rendering of "white space and # comments" (oracle for the Decoder path).
func trimWsComments(b []byte) []byte {
	for len(b) > 0 {
		switch b[0] {
		case ' ', '\n', '\r', '\t':
			b = b[1:]
		case '#':
			i := bytes.IndexByte(b, '\n')
			if i < 0 {
				return nil
			}
			b = b[i+1:]
		default:
			return b
		}
	}
	return b
}

func checkGlue(c *C, s []byte, ascii bool, lit []byte, in strInput) {
	defer c.Recover("prototext glue", in, "")
	m := &testpb.TestAllTypes{OptionalString: proto.String(string(s)), OptionalBytes: append([]byte{}, s...)}
	b, err := prototext.MarshalOptions{EmitASCII: ascii}.Marshal(m)
	if !c.Check(err == nil, fmt.Sprint("prototext.Marshal(proto2 string/bytes) error: ", err), in, "") {
		return
	}
	want := "optional_string:" + string(lit) + " optional_bytes:" + string(lit)
	c.Check(string(b) == want, "prototext.Marshal output = field names + appendString literals; got "+vh.Hex(b), in, "")
	if ascii {
		for _, x := range b {
			if x < 0x20 || x > 0x7e {
				c.Check(false, "prototext.Marshal with EmitASCII has a non-printable byte", in, "")
				break
			}
		}
	}
	var m2 testpb.TestAllTypes
	err = prototext.Unmarshal(b, &m2)
	c.Check(err == nil && m2.OptionalString != nil && *m2.OptionalString == string(s) && bytes.Equal(m2.OptionalBytes, s),
		fmt.Sprint("prototext.Unmarshal(Marshal(m)) returns the same string and bytes; err=", err), in, "")
	// multi-line form (Format goes through the same appendString)
	b3, err := prototext.MarshalOptions{EmitASCII: ascii, Multiline: true}.Marshal(m)
	var m3 testpb.TestAllTypes
	if err == nil {
		err = prototext.Unmarshal(b3, &m3)
	}
	c.Check(err == nil && m3.OptionalString != nil && *m3.OptionalString == string(s) && bytes.Equal(m3.OptionalBytes, s),
		fmt.Sprint("multi-line prototext round trip; err=", err), in, "")
}

// ---------------------------------------------------------------- parser-side inputs (not produced by the encoder)

type litInput struct {
	Op  string `json:"op"`
	Lit string `json:"lit"` // hex
}

func checkLiteral(c *C, lit []byte) {
	in := litInput{Op: "lit", Lit: vh.Hex(lit)}
	got := implParse(lit)
	c.Check(got != "panic", "parseString panicked", in, "")
	gotv := ""
	if startsWithQuote(lit) {
		gotv = implParseValue(lit)
		c.Check(gotv != "panic", "parseStringValue panicked", in, "")
	}
	if c.HasModel() {
		c.Compare("parseString", in, got, dropRest(c.Ask("parse %s", vh.Hex(lit))))
		if gotv != "" {
			c.Compare("parseStringValue", in, gotv, c.Ask("parsev %s", vh.Hex(lit)))
		}
	}
	k := "err"
	if strings.HasPrefix(got, "ok") {
		k = "ok"
	}
	c.Hist("lit:" + strings.Fields(got)[0])
	c.Case("l|"+string(lit), k == "ok" && bytes.IndexByte(lit, '\\') >= 0)
}

var escChars = []byte(`"'\?abfnrtvxuU0123456789z `)
var hexChars = []byte("0123456789abcdefABCDEFgG_+-x")

func randLiteral(c *C) []byte {
	r := c.Rand
	q := []byte{'"', '\'', '"', '\'', 'a', 0xe9, 0}[r.Intn(7)]
	var b []byte
	b = append(b, q)
	n := r.Intn(8)
	for i := 0; i < n; i++ {
		switch r.Intn(12) {
		case 0, 1:
			b = append(b, '\\', escChars[r.Intn(len(escChars))])
		case 2: // octal run
			b = append(b, '\\')
			for k := r.Intn(5); k >= 0; k-- {
				b = append(b, byte('0'+r.Intn(10)))
			}
		case 3: // hex run
			b = append(b, '\\', 'x')
			for k := r.Intn(4); k > 0; k-- {
				b = append(b, hexChars[r.Intn(len(hexChars))])
			}
		case 4: // \u
			b = append(b, '\\', 'u')
			b = append(b, randHexDigits(c, []int{0, 3, 4, 4, 4, 5}[r.Intn(6)])...)
		case 5: // \U
			b = append(b, '\\', 'U')
			if r.Intn(2) == 0 {
				b = append(b, fmt.Sprintf("%08x", r.Intn(0x120000))...)
			} else {
				b = append(b, randHexDigits(c, []int{7, 8, 8, 9}[r.Intn(4)])...)
			}
		case 6: // surrogates
			hi := 0xd800 + r.Intn(0x400)
			lo := 0xdc00 + r.Intn(0x400)
			switch r.Intn(6) {
			case 0:
				b = append(b, fmt.Sprintf(`\u%04x\u%04x`, hi, lo)...)
			case 1:
				b = append(b, fmt.Sprintf(`\u%04x\u%04x`, lo, hi)...)
			case 2:
				b = append(b, fmt.Sprintf(`\u%04x`, hi)...)
			case 3:
				b = append(b, fmt.Sprintf(`\U%08x\u%04X`, hi, lo)...)
			case 4:
				b = append(b, fmt.Sprintf(`\u%04x\U%08x`, hi, lo)...)
			default:
				b = append(b, fmt.Sprintf(`\u%04x\u%04x`, hi, r.Intn(0x10000))...)
			}
		case 7:
			b = append(b, randRuneBytes(c)...)
		case 8:
			b = append(b, byte(r.Intn(256)))
		case 9:
			b = append(b, []byte{'"', '\'', '\n', 0, '\t', '#', ' '}[r.Intn(7)])
		default:
			b = append(b, byte(0x20+r.Intn(0x5f)))
		}
	}
	switch r.Intn(6) {
	case 0: // unterminated
	case 1: // adjacent literal / white space / comment
		b = append(b, q)
		b = append(b, []string{" ", "\n\t", "#c\n", "# no newline", "", " # x\n  "}[r.Intn(6)]...)
		b = append(b, randLiteral(c)...)
	default:
		b = append(b, q)
		b = append(b, []string{"", " ", "x", " g:1", "#\n", ","}[r.Intn(6)]...)
	}
	return b
}

func randHexDigits(c *C, n int) []byte {
	b := make([]byte, n)
	for i := range b {
		if c.Rand.Intn(12) == 0 {
			b[i] = hexChars[c.Rand.Intn(len(hexChars))]
		} else {
			b[i] = "0123456789abcdefABCDEF"[c.Rand.Intn(22)]
		}
	}
	return b
}

// ---------------------------------------------------------------- string generators

func randRune(c *C) rune {
	r := c.Rand
	switch r.Intn(10) {
	case 0:
		return rune(r.Intn(0x20)) // C0
	case 1:
		return rune(0x7f + r.Intn(0x22)) // DEL, C1, U+00A0
	case 2:
		return []rune{0x2028, 0x2029, 0xfffd, 0xfffe, 0xffff, 0x10000, 0x10ffff, 0xd7ff, 0xe000, 0x7ff, 0x800, 0xa0, 0x9f, 0xfeff}[r.Intn(14)]
	case 3:
		return rune(0x10000 + r.Intn(0x100000)) // astral
	case 4:
		return rune(0x800 + r.Intn(0xd000))
	case 5:
		return rune(0x80 + r.Intn(0x780))
	case 6:
		return []rune{'"', '\'', '\\', '\n', '\r', '\t', '?', 'x', 'u', '0', '7', '8', 'a', 'f', 'F'}[r.Intn(15)]
	default:
		return rune(0x20 + r.Intn(0x5f))
	}
}

func randRuneBytes(c *C) []byte { return []byte(string(randRune(c))) }

var invalidFamilies = [][]byte{
	{0x80}, {0xbf}, {0xc0, 0x80}, {0xc1, 0xbf}, {0xe0, 0x80, 0x80}, {0xe0, 0x9f, 0xbf}, {0xf0, 0x80, 0x80, 0x80}, {0xf0, 0x8f, 0xbf, 0xbf},
	{0xed, 0xa0, 0x80}, {0xed, 0xbf, 0xbf}, {0xed, 0xa0, 0x80, 0xed, 0xb0, 0x80}, {0xc3}, {0xe2, 0x82}, {0xf0, 0x9f, 0x98}, {0xf0, 0x9f},
	{0xf4, 0x90, 0x80, 0x80}, {0xf5, 0x80, 0x80, 0x80}, {0xf8, 0x88, 0x80, 0x80, 0x80}, {0xfe}, {0xff}, {0xfc, 0x84, 0x80, 0x80, 0x80, 0x80},
	{0xef, 0xbf}, {0xef, 0xbf, 0xbd}, {0xef, 0xbf, 0xbe}, {0xef, 0xbf, 0xbf}, {0xc2, 0x80}, {0xc2, 0x9f}, {0xc2, 0xa0}, {0xdf, 0xbf}, {0xe0, 0xa0, 0x80},
	{0xe2, 0x80, 0xa8}, {0xe2, 0x80, 0xa9}, {0xf0, 0x90, 0x80, 0x80}, {0xf4, 0x8f, 0xbf, 0xbf}, {0xee, 0x80, 0x80}, {0xed, 0x9f, 0xbf},
}

func randString(c *C, max int) []byte {
	r := c.Rand
	n := r.Intn(max + 1)
	var b []byte
	mode := r.Intn(5)
	for len(b) < n {
		switch mode {
		case 0: // raw random bytes
			b = append(b, byte(r.Intn(256)))
		case 1: // valid runes
			b = append(b, randRuneBytes(c)...)
		case 2: // mixture
			switch r.Intn(4) {
			case 0:
				b = append(b, invalidFamilies[r.Intn(len(invalidFamilies))]...)
			case 1:
				b = append(b, randRuneBytes(c)...)
			case 2:
				b = append(b, byte(r.Intn(256)))
			default:
				const soup = "0123456789abcdefABCDEFxuU\\\"'nrt"
				b = append(b, soup[r.Intn(len(soup))])
			}
		case 3: // an escape-needing byte followed by digits: the classic \x1 + "1" hazard
			b = append(b, byte(r.Intn(0x20)))
			b = append(b, "0123456789abcdefABCDEF"[r.Intn(22)])
		default: // bytes >= 0x80 only
			b = append(b, byte(0x80+r.Intn(0x80)))
		}
	}
	if len(b) > max {
		b = b[:max]
	}
	return b
}

func randRest(c *C) []byte {
	return []byte([]string{"", "", " ", "x", " g: 1", "\n", " # c\n", "#c", ",", "}", " \t\r\nz", "\x00", "\xff", "12", "\\"}[c.Rand.Intn(15)])
}

// ---------------------------------------------------------------- utf8 model vs unicode/utf8

func checkUtf8(c *C, b []byte) {
	if !c.HasModel() {
		return
	}
	r, n := utf8.DecodeRune(b)
	c.Compare("utf8.DecodeRune", vh.Hex(b), fmt.Sprintf("%d %d", r, n), c.Ask("decoderune %s", vh.Hex(b)))
	v := "0"
	if utf8.Valid(b) {
		v = "1"
	}
	c.Compare("utf8.Valid", vh.Hex(b), v, c.Ask("valid %s", vh.Hex(b)))
}

func checkEncodeRune(c *C, r rune) {
	if !c.HasModel() {
		return
	}
	c.Compare("utf8.AppendRune", r, vh.Hex(utf8.AppendRune(nil, r)), c.Ask("encoderune %d", r))
}

// ---------------------------------------------------------------- EmitUnknown

type unkInput struct {
	Op string `json:"op"`
	B  string `json:"b"` // hex of the unknown-field bytes
}

// nonMinimal re-encodes a varint with `pad` extra continuation bytes (still at most ten bytes).
func appendVarintPad(b []byte, v uint64, pad int) []byte {
	enc := protowire.AppendVarint(nil, v)
	if pad <= 0 || len(enc)+pad > 10 {
		return append(b, enc...)
	}
	enc[len(enc)-1] |= 0x80
	for i := 0; i < pad-1; i++ {
		enc = append(enc, 0x80)
	}
	enc = append(enc, 0x00)
	return append(b, enc...)
}

func randPad(c *C) int {
	if c.Rand.Intn(4) == 0 {
		return 1 + c.Rand.Intn(4)
	}
	return 0
}

func randNum(c *C, max int32) protowire.Number {
	nums := []int32{1, 2, 15, 16, 17, 127, 128, 2047, 2048, 2049, 16383, 16384, 18999, 19000, 19999, 20000, 1<<21 - 1, 1 << 21, 1<<28 - 1, 1 << 28, 1<<29 - 1, 1 << 29, math.MaxInt32}
	for {
		var n int32
		if c.Rand.Intn(3) == 0 {
			n = int32(1 + c.Rand.Intn(int(max)))
		} else {
			n = nums[c.Rand.Intn(len(nums))]
		}
		if n <= max {
			return protowire.Number(n)
		}
	}
}

func randU64(c *C) uint64 {
	switch c.Rand.Intn(5) {
	case 0:
		return c.Rand.Uint64()
	case 1:
		return []uint64{0, 1, 127, 128, 1<<32 - 1, 1 << 32, 1<<63 - 1, 1 << 63, math.MaxUint64}[c.Rand.Intn(9)]
	case 2:
		return uint64(1)<<uint(c.Rand.Intn(64)) - uint64(c.Rand.Intn(2))
	default:
		return uint64(c.Rand.Intn(1000))
	}
}

// genUnknown writes a random valid unknown-field set: all wire types, nested groups (possibly empty), non-minimal
// tags / lengths / end tags, large numbers.
func genUnknown(c *C, nfields, depth int, maxNum int32) []byte {
	var b []byte
	for i := 0; i < nfields; i++ {
		num := randNum(c, maxNum)
		switch k := c.Rand.Intn(7); {
		case k == 0:
			b = appendVarintPad(b, protowire.EncodeTag(num, protowire.VarintType), randPad(c))
			b = appendVarintPad(b, randU64(c), randPad(c))
			c.Hist("unk:varint")
		case k == 1:
			b = appendVarintPad(b, protowire.EncodeTag(num, protowire.Fixed32Type), randPad(c))
			b = protowire.AppendFixed32(b, uint32(randU64(c)))
			c.Hist("unk:fixed32")
		case k == 2:
			b = appendVarintPad(b, protowire.EncodeTag(num, protowire.Fixed64Type), randPad(c))
			b = protowire.AppendFixed64(b, randU64(c))
			c.Hist("unk:fixed64")
		case k == 3 || k == 4:
			b = appendVarintPad(b, protowire.EncodeTag(num, protowire.BytesType), randPad(c))
			var p []byte
			if c.Rand.Intn(3) == 0 {
				p = genUnknown(c, c.Rand.Intn(3), 0, maxNum) // looks like a message
			} else {
				p = randString(c, 24)
			}
			b = appendVarintPad(b, uint64(len(p)), randPad(c))
			b = append(b, p...)
			c.Hist("unk:bytes")
		default:
			if depth <= 0 {
				i--
				continue
			}
			b = appendVarintPad(b, protowire.EncodeTag(num, protowire.StartGroupType), randPad(c))
			b = append(b, genUnknown(c, c.Rand.Intn(4), depth-1, maxNum)...)
			pad := randPad(c)
			b = appendVarintPad(b, protowire.EncodeTag(num, protowire.EndGroupType), pad)
			if pad > 0 {
				c.Hist("unk:group-nonminimal-end")
			} else {
				c.Hist("unk:group")
			}
		}
	}
	return b
}

func nestedGroups(depth int, num protowire.Number, inner []byte) []byte {
	var b []byte
	for i := 0; i < depth; i++ {
		b = protowire.AppendTag(b, num, protowire.StartGroupType)
	}
	b = append(b, inner...)
	for i := 0; i < depth; i++ {
		b = protowire.AppendTag(b, num, protowire.EndGroupType)
	}
	return b
}

func checkUnknown(c *C, b []byte, useModel bool, light bool) {
	in := unkInput{Op: "unk", B: vh.Hex(b)}
	if len(b) > 4096 {
		in.B = fmt.Sprintf("nested:%d", len(b))
	}
	defer c.Recover("prototext EmitUnknown", in, "")
	// every top-level field must be accepted by protowire itself (that is what "valid" means here)
	for rest := b; len(rest) > 0; {
		_, _, n := protowire.ConsumeField(rest)
		if n < 0 {
			panic(fmt.Sprintf("harness: generator produced an invalid unknown-field set (%v): %x", protowire.ParseError(n), b))
		}
		rest = rest[n:]
	}
	m := &emptypb.Empty{}
	m.ProtoReflect().SetUnknown(b)
	for _, ascii := range []bool{false, true} {
		out, err := prototext.MarshalOptions{EmitUnknown: true, EmitASCII: ascii}.Marshal(m)
		c.Check(err == nil, fmt.Sprint("Marshal with EmitUnknown returned an error: ", err), in, "")
		if ascii {
			for _, x := range out {
				if x < 0x20 || x > 0x7e {
					c.Check(false, "EmitUnknown+EmitASCII output has a non-printable byte", in, "")
					break
				}
			}
		}
		if useModel && c.HasModel() {
			c.Compare("marshalUnknown", in, vh.Hex(out), c.Ask("unknown %s %d", vh.Hex(b), b2i(ascii)))
		}
		if light {
			c.Case("u|"+string(b), len(b) > 0)
			return
		}
	}
	_ = prototext.Format(m)
	_, err := prototext.MarshalOptions{EmitUnknown: true, Multiline: true}.Marshal(m)
	c.Check(err == nil, fmt.Sprint("multi-line Marshal with EmitUnknown returned an error: ", err), in, "")
	// same bytes behind populated known fields (unknown fields come last) and inside a sub-message
	t := &testpb.TestAllTypes{OptionalInt32: proto.Int32(1), OptionalNestedMessage: &testpb.TestAllTypes_NestedMessage{}}
	t.ProtoReflect().SetUnknown(b)
	t.OptionalNestedMessage.ProtoReflect().SetUnknown(b)
	_ = prototext.Format(t)
	c.Case("u|"+string(b), len(b) > 0)
}

// checkMalformedUnknown damages a valid set and compares only model and implementation: both must agree on
// "renders" (same bytes) versus "panics" (marshalUnknown assumes proper encoding; nothing is claimed here).
func checkMalformedUnknown(c *C, valid []byte) {
	if !c.HasModel() || len(valid) == 0 || len(valid) > 300 {
		return
	}
	b := append([]byte{}, valid...)
	switch c.Rand.Intn(4) {
	case 0:
		b = b[:c.Rand.Intn(len(b))]
	case 1:
		b[c.Rand.Intn(len(b))] ^= byte(1 << uint(c.Rand.Intn(8)))
	case 2:
		i := c.Rand.Intn(len(b))
		b = append(b[:i], b[i+1:]...)
	default:
		b = append(b, []byte{0x0c, 0x04, 0x07, 0x00, 0x80}[c.Rand.Intn(5)])
	}
	in := unkInput{Op: "unkmal", B: vh.Hex(b)}
	impl := func() (res string) {
		defer func() {
			if recover() != nil {
				res = "panic"
			}
		}()
		m := &emptypb.Empty{}
		m.ProtoReflect().SetUnknown(b)
		out, err := prototext.MarshalOptions{EmitUnknown: true}.Marshal(m)
		if err != nil {
			return "error"
		}
		return vh.Hex(out)
	}()
	c.Compare("marshalUnknown on a damaged set (renders vs panics)", in, impl, c.Ask("unknown %s 0", vh.Hex(b)))
	if impl == "panic" {
		c.Hist("unkmal:panic")
	} else {
		c.Hist("unkmal:renders")
	}
}

// ---------------------------------------------------------------- driver

var t0 = time.Now()

func phase(name string) {
	if os.Getenv("VERIF_PHASES") != "" {
		fmt.Fprintf(os.Stderr, "phase %s done at %.1fs\n", name, time.Since(t0).Seconds())
	}
}

func runC25(c *C) {
	c.R.Rule = "strings: ALL 1- and 2-byte strings x both EmitASCII settings; all 3-byte strings starting E0/ED/EF on the implementation (property predicates), with the model on all second bytes x 18 boundary third bytes (thorough tier: on all of them, plus all 3-byte strings starting E1/E2/EC/EE on the implementation); 4-byte strings around the F0/F4 tables; invalid-UTF-8 families; C0/C1/DEL/U+2028/U+2029/U+FFFD/astral runes; PRNG strings <= 64 bytes (five byte distributions). A string case is non-trivial when the encoder leaves the plain-copy path (an escape is written or a multi-byte rune is copied); distinct by (bytes, ascii). Literal-side cases (random escape soups, both quote kinds, adjacent literals, comments) are non-trivial when they parse and contain a backslash. Unknown-field sets: grammar-generated (all wire types, nested/empty groups, non-minimal tags, lengths and end tags, numbers up to 2^31-1), non-trivial when non-empty."
	// replayed inputs first
	for _, raw := range c.ReplayInputs() {
		var probe struct {
			Op string `json:"op"`
		}
		if json.Unmarshal(raw, &probe) != nil {
			continue
		}
		switch probe.Op {
		case "str":
			var in strInput
			if json.Unmarshal(raw, &in) == nil {
				checkString(c, vh.UnHex(in.S), in.ASCII, vh.UnHex(in.Rest), 2, true)
			}
		case "lit":
			var in litInput
			if json.Unmarshal(raw, &in) == nil {
				checkLiteral(c, vh.UnHex(in.Lit))
			}
		case "unk":
			var in unkInput
			if json.Unmarshal(raw, &in) == nil && !strings.HasPrefix(in.B, "nested:") {
				checkUnknown(c, vh.UnHex(in.B), true, false)
			}
		case "unkmal":
			var in unkInput
			if json.Unmarshal(raw, &in) == nil && c.HasModel() {
				b := vh.UnHex(in.B)
				func() {
					defer func() { recover() }()
					m := &emptypb.Empty{}
					m.ProtoReflect().SetUnknown(b)
					out, _ := prototext.MarshalOptions{EmitUnknown: true}.Marshal(m)
					c.Compare("marshalUnknown on a damaged set (renders vs panics)", in, vh.Hex(out), c.Ask("unknown %s 0", in.B))
				}()
			}
		}
	}
	both := []bool{false, true}

	// 1. all single bytes, all byte pairs (exhaustive, model + glue on singles and on a slice of the pairs)
	checkString(c, nil, false, nil, 2, true)
	checkString(c, nil, true, nil, 2, true)
	for a := 0; a < 256; a++ {
		for _, ascii := range both {
			checkString(c, []byte{byte(a)}, ascii, randRest(c), 2, true)
		}
		checkUtf8(c, []byte{byte(a)})
	}
	for a := 0; a < 256 && !c.Failed(); a++ {
		for b := 0; b < 256; b++ {
			s := []byte{byte(a), byte(b)}
			for _, ascii := range both {
				checkString(c, s, ascii, nil, 2, (a*256+b)%37 == 0)
			}
			checkUtf8(c, s)
		}
	}
	c.R.Exhaustive = true // for the spaces of 1- and 2-byte strings
	c.Hist("phase:pairs-done")
	phase("pairs")

	// 2. three-byte strings with leading E0 / ED / EF
	edge3 := []int{0x00, 0x22, 0x30, 0x5c, 0x7f, 0x80, 0x8f, 0x90, 0x9f, 0xa0, 0xa8, 0xa9, 0xbc, 0xbd, 0xbe, 0xbf, 0xc0, 0xff}
	for _, a := range []int{0xe0, 0xed, 0xef, 0xe1, 0xe2, 0xec, 0xee} {
		for b := 0; b < 256 && !c.Failed(); b++ {
			if c.Thorough() || a == 0xe0 || a == 0xed || a == 0xef {
				for d := 0; d < 256; d++ {
					s := []byte{byte(a), byte(b), byte(d)}
					level := 1
					if c.Thorough() && (a == 0xe0 || a == 0xed || a == 0xef) {
						level = 2
					}
					for _, ascii := range both {
						checkString(c, s, ascii, nil, level, false)
					}
				}
			}
			for _, d := range edge3 {
				s := []byte{byte(a), byte(b), byte(d)}
				for _, ascii := range both {
					checkString(c, s, ascii, nil, 2, false)
				}
				checkUtf8(c, s)
			}
		}
	}
	phase("three")
	// 3. four-byte strings around the F0 / F4 tables
	edge := []int{0x7f, 0x80, 0x8f, 0x90, 0x9f, 0xa0, 0xbf, 0xc0}
	for _, a := range []int{0xef, 0xf0, 0xf1, 0xf3, 0xf4, 0xf5, 0xf7, 0xf8} {
		for _, b := range edge {
			for _, d := range []int{0x7f, 0x80, 0xbf, 0xc0} {
				for _, e := range []int{0x22, 0x7f, 0x80, 0xbf, 0xc0} {
					s := []byte{byte(a), byte(b), byte(d), byte(e)}
					for _, ascii := range both {
						checkString(c, s, ascii, randRest(c), 2, true)
					}
					checkUtf8(c, s)
				}
			}
		}
	}
	// 4. families: invalid UTF-8, every family also embedded between ASCII, digits and other families
	for _, f := range invalidFamilies {
		for _, pre := range [][]byte{nil, []byte("a"), {0x01}, []byte("\\"), {0xc3}} {
			for _, post := range [][]byte{nil, []byte("1"), []byte("f"), []byte("\""), {0x80}, {0xe2, 0x80}} {
				s := append(append(append([]byte{}, pre...), f...), post...)
				for _, ascii := range both {
					checkString(c, s, ascii, randRest(c), 2, true)
				}
				checkUtf8(c, s)
			}
		}
	}
	// 5. every C0/C1 control, DEL, line separators, U+FFFD, plane boundaries, followed by a hex digit / an octal digit
	var special []rune
	for r := rune(0); r <= 0xa1; r++ {
		special = append(special, r)
	}
	special = append(special, 0x7ff, 0x800, 0x2028, 0x2029, 0xd7ff, 0xe000, 0xfeff, 0xfffd, 0xfffe, 0xffff, 0x10000, 0x1f600, 0xfffff, 0x100000, 0x10ffff)
	for _, r := range special {
		for _, post := range []string{"", "0", "7", "a", "F", "é"} {
			s := []byte(string(r) + post)
			for _, ascii := range both {
				checkString(c, s, ascii, randRest(c), 2, true)
			}
		}
		checkEncodeRune(c, r)
	}
	for _, r := range []rune{-1, 0xd800, 0xdbff, 0xdc00, 0xdfff, 0x110000, math.MaxInt32} {
		if r >= 0 {
			checkEncodeRune(c, r)
		}
	}
	for i := 0; i < c.N(3000, 200000); i++ {
		checkEncodeRune(c, rune(c.Rand.Intn(0x111000)))
	}
	c.Hist("phase:families-done")
	phase("families")
	// 6. random strings
	for i := 0; i < c.N(40000, 1500000) && !c.Failed(); i++ {
		s := randString(c, 64)
		ascii := c.Rand.Intn(2) == 0
		checkString(c, s, ascii, randRest(c), 2, i%5 == 0)
		if i%4 == 0 {
			checkUtf8(c, s)
		}
	}
	phase("random")
	// 7. literals that the encoder never writes: the parser model against the parser
	for _, l := range []string{`"`, `''`, `""`, `"\`, `"\"`, `"\x"`, `"\xg"`, `"\x1"`, `"\x123"`, `"\400"`, `"\377"`, `"\0"`, `"\08"`, `"\1234"`, `"\u00"`,
		`"é"`, `"\U0010ffff"`, `"\U00110000"`, `"😀"`, `"\ud83d"`, `"\ud83dxxxxxx"`, `"\ud83dA"`, `"\ude00\ud83d"`, `"\ud83d\U0000de00"`,
		`"\U0000d83d\ude00"`, `"\u+123"`, `"\u_123"`, `"\u 123"`, "\"a\nb\"", "\"a\x00b\"", "\"a\tb\x7f\"", `"a'b"`, `'a"b'`, `"a" "b"`, `"a"'b'"c"`, "\"a\" # c\n \"b\" x",
		"\"a\"#", `"\?\a\b\f\v\'"`, `"\z"`, "\"\xff\"", "\"\xc3\"", "\"\xc3\xa9\"", "abca", "\xe9a\xc3\xa9b", "\x00a\x00", `"\U0000fffd"`, `"�"`, `"􏿿"`} {
		checkLiteral(c, []byte(l))
	}
	for i := 0; i < c.N(40000, 1500000) && !c.Failed(); i++ {
		checkLiteral(c, randLiteral(c))
	}
	c.Hist("phase:literals-done")
	phase("literals")
	// 8. EmitUnknown
	checkUnknown(c, nil, true, false)
	for _, d := range []int{1, 2, 3, 10, 100} {
		checkUnknown(c, nestedGroups(d, 1, nil), true, false)
		checkUnknown(c, nestedGroups(d, 1<<29-1, []byte{0x08, 0x01}), true, false)
	}
	// deepest nesting protowire accepts (DefaultRecursionLimit+1 levels). One render costs ~1 s in the implementation
	// (ConsumeGroup rescans the remaining input at every level), so the quick tier renders once.
	checkUnknown(c, nestedGroups(1000, 1, nil), false, false)
	checkUnknown(c, nestedGroups(protowire.DefaultRecursionLimit+1, 3, []byte{0x08, 0x01}), false, !c.Thorough())
	if c.Thorough() {
		checkUnknown(c, nestedGroups(protowire.DefaultRecursionLimit, 1, nil), false, false)
	}
	phase("unknown-deep")
	for i := 0; i < c.N(6000, 300000) && !c.Failed(); i++ {
		maxNum := int32(math.MaxInt32)
		b := genUnknown(c, c.Rand.Intn(6), c.Rand.Intn(5), maxNum)
		checkUnknown(c, b, len(b) <= 600, false)
		if i%3 == 0 {
			checkMalformedUnknown(c, b)
		}
	}
	phase("unknown")
	// the same generator restricted to numbers proto.Unmarshal accepts: Unmarshal must agree that the set is valid
	for i := 0; i < c.N(2000, 100000) && !c.Failed(); i++ {
		b := genUnknown(c, c.Rand.Intn(6), c.Rand.Intn(5), 1<<29-1)
		var e emptypb.Empty
		err := proto.Unmarshal(b, &e)
		// (Unmarshal re-encodes the tags of unknown fields minimally, so the stored bytes may differ from b.)
		c.Check(err == nil, fmt.Sprint("proto.Unmarshal accepts a generated unknown-field set; err=", err), unkInput{Op: "unk", B: vh.Hex(b)}, "")
		func() {
			in := unkInput{Op: "unk", B: vh.Hex(b)}
			defer c.Recover("Format(Unmarshal(b))", in, "")
			_ = prototext.Format(&e)
		}()
	}
}
