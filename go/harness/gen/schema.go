package main

// Random *valid* schemas at FileDescriptorProto level — the shapes protoc emits for proto2, proto3 and
// edition 2023 sources.  One "package" is a set of .proto files sharing a proto package and a Go package:
//
//	<pfx>_p2.proto   proto2   (required, groups, defaults, extension ranges + extensions, closed enums)
//	<pfx>_p3.proto   proto3   (implicit presence, proto3 optional / synthetic oneofs, open enums)
//	<pfx>_ed.proto   editions 2023, imports the other two (feature overrides: presence, enum type, packed,
//	                 utf8, DELIMITED, json_format, (pb.go).api_level; lazy fields)
//	<pfx>_pin.proto  the two pinned schemas of DESIGN.md findings 1 and 2
//
// The proto package is the placeholder `zzpkg`; instantiate() rewrites it (one instance per API level so
// that the three generated Go packages can be linked into one program).

import (
	"fmt"
	"math/rand"
	"sort"
	"strings"

	"google.golang.org/protobuf/encoding/protowire"
	"google.golang.org/protobuf/internal/strs"
	"google.golang.org/protobuf/proto"
	"google.golang.org/protobuf/reflect/protodesc"
	"google.golang.org/protobuf/reflect/protoreflect"
	"google.golang.org/protobuf/reflect/protoregistry"
	"google.golang.org/protobuf/types/descriptorpb"
	"google.golang.org/protobuf/types/gofeaturespb"
)

type dpb = descriptorpb.FieldDescriptorProto

const pkgPlaceholder = "zzpkg"

var (
	tOptional = descriptorpb.FieldDescriptorProto_LABEL_OPTIONAL.Enum
	tRepeated = descriptorpb.FieldDescriptorProto_LABEL_REPEATED.Enum
	tRequired = descriptorpb.FieldDescriptorProto_LABEL_REQUIRED.Enum
)

var scalarTypes = []descriptorpb.FieldDescriptorProto_Type{
	descriptorpb.FieldDescriptorProto_TYPE_DOUBLE, descriptorpb.FieldDescriptorProto_TYPE_FLOAT,
	descriptorpb.FieldDescriptorProto_TYPE_INT64, descriptorpb.FieldDescriptorProto_TYPE_UINT64,
	descriptorpb.FieldDescriptorProto_TYPE_INT32, descriptorpb.FieldDescriptorProto_TYPE_FIXED64,
	descriptorpb.FieldDescriptorProto_TYPE_FIXED32, descriptorpb.FieldDescriptorProto_TYPE_BOOL,
	descriptorpb.FieldDescriptorProto_TYPE_STRING, descriptorpb.FieldDescriptorProto_TYPE_BYTES,
	descriptorpb.FieldDescriptorProto_TYPE_UINT32, descriptorpb.FieldDescriptorProto_TYPE_SFIXED32,
	descriptorpb.FieldDescriptorProto_TYPE_SFIXED64, descriptorpb.FieldDescriptorProto_TYPE_SINT32,
	descriptorpb.FieldDescriptorProto_TYPE_SINT64,
}

var mapKeyTypes = []descriptorpb.FieldDescriptorProto_Type{
	descriptorpb.FieldDescriptorProto_TYPE_INT64, descriptorpb.FieldDescriptorProto_TYPE_UINT64,
	descriptorpb.FieldDescriptorProto_TYPE_INT32, descriptorpb.FieldDescriptorProto_TYPE_FIXED64,
	descriptorpb.FieldDescriptorProto_TYPE_FIXED32, descriptorpb.FieldDescriptorProto_TYPE_BOOL,
	descriptorpb.FieldDescriptorProto_TYPE_STRING, descriptorpb.FieldDescriptorProto_TYPE_UINT32,
	descriptorpb.FieldDescriptorProto_TYPE_SFIXED32, descriptorpb.FieldDescriptorProto_TYPE_SFIXED64,
	descriptorpb.FieldDescriptorProto_TYPE_SINT32, descriptorpb.FieldDescriptorProto_TYPE_SINT64,
}

// Names chosen to meet the identifiers protoc-gen-go itself declares: methods of generated messages,
// accessor prefixes of the opaque API, builder names, Go keywords and predeclared identifiers, and
// spellings that differ only in case / underscores.
var advFieldNames = []string{
	"reset", "string", "proto_message", "descriptor", "marshal", "unmarshal", "extension_range_array", "extension_map",
	"build", "builder", "b", "x", "m0", "b0", "state", "size_cache", "unknown_fields", "extension_fields", "xxx_hidden_x",
	"type", "func", "range", "map", "chan", "select", "go", "default", "interface", "package", "var", "const", "import",
	"return", "struct", "switch", "if", "else", "for", "break", "continue", "fallthrough", "defer", "goto", "case",
	"int", "int32", "uint64", "float64", "bool", "byte", "error", "nil", "true", "false", "len", "any", "new", "make", "iota",
	"get", "set", "has", "clear", "which", "is", "oneof", "enum", "message", "value", "name", "kind", "number",
	"proto", "protoimpl", "protoreflect", "sync", "reflect", "unsafe", "file", "init",
}
var advBases = []string{"x", "foo", "foo_bar", "value", "name", "a", "get", "build"}
var advAffixes = []string{"get_%s", "set_%s", "has_%s", "clear_%s", "which_%s", "%s_", "_%s", "%s_1", "get_get_%s", "%s__", "x_%s", "is_%s"}

var advMsgNames = []string{"Reset", "String_", "Descriptor", "ProtoMessage", "Type", "Message", "Builder", "Map", "Struct", "Func",
	"reset", "string", "error", "Error", "Int32", "Value", "Entry", "Enum", "Oneof", "Has", "Get", "Set", "Clear", "Which", "M_N", "M_", "Foo_Bar", "fooBar"}

type msgRef struct {
	full   string // ".zzpkg.A.B"
	syntax string
	d      *descriptorpb.DescriptorProto
	hasReq bool // has (transitively, as known at creation time) a required field
	noExt  bool
}

type enumRef struct {
	full   string
	syntax string
	closed bool
	d      *descriptorpb.EnumDescriptorProto
}

type sgen struct {
	r            *rand.Rand
	prefix       string                     // file name prefix, e.g. "zzgen/b0"
	gopkg        string                     // go_package placeholder
	scope        map[string]map[string]bool // proto scope -> names used
	msgs         []*msgRef
	enums        []*enumRef
	hist         func(string)
	seq          int
	mapValue     bool // the type being chosen is a map value
	edFileClosed bool // the editions file under construction has enum_type = CLOSED as file default
}

func newSgen(r *rand.Rand, prefix string, hist func(string)) *sgen {
	return &sgen{r: r, prefix: prefix, scope: map[string]map[string]bool{}, hist: hist}
}

func (g *sgen) h(k string) {
	if g.hist != nil {
		g.hist("schema:" + k)
	}
}

func (g *sgen) claim(scope, name string) bool {
	s := g.scope[scope]
	if s == nil {
		s = map[string]bool{}
		g.scope[scope] = s
	}
	if name == "" || s[name] {
		return false
	}
	s[name] = true
	return true
}

func (g *sgen) pick(xs []string) string { return xs[g.r.Intn(len(xs))] }

// freshName returns a name that is unused in scope, preferring adversarial ones.
func (g *sgen) freshName(scope string, adv func() string, plain string) string {
	for try := 0; try < 6; try++ {
		if n := adv(); n != "" && g.claim(scope, n) {
			return n
		}
	}
	for {
		g.seq++
		n := fmt.Sprintf("%s%d", plain, g.seq)
		if g.claim(scope, n) {
			return n
		}
	}
}

func (g *sgen) advField() string {
	switch g.r.Intn(10) {
	case 0, 1, 2:
		return g.pick(advFieldNames)
	case 3, 4, 5:
		return fmt.Sprintf(g.pick(advAffixes), g.pick(advBases))
	case 6:
		b := g.pick(advBases)
		return []string{b, strings.ToUpper(b[:1]) + b[1:], strs.GoCamelCase(b), strings.ToUpper(b), strs.JSONCamelCase(b)}[g.r.Intn(5)]
	default:
		return ""
	}
}

// jsonNameOK implements protoc's rule for proto3/editions: default JSON names must be distinct.
func jsonConflict(md *descriptorpb.DescriptorProto, name string) bool {
	j := strs.JSONCamelCase(name)
	for _, f := range md.Field {
		if strs.JSONCamelCase(f.GetName()) == j || f.GetJsonName() == j {
			return true
		}
	}
	return false
}

var fieldNumbers = []int32{1, 2, 3, 4, 5, 6, 7, 8, 9, 10, 11, 12, 13, 14, 15, 16, 17, 31, 32, 63, 64, 127, 128, 2047, 2048, 18999, 20000, 262143, 262144, 536870911}

type mctx struct {
	g        *sgen
	syntax   string
	full     string // ".zzpkg.A"
	md       *descriptorpb.DescriptorProto
	usedNums map[int32]bool
	depth    int
	ref      *msgRef
}

func (c *mctx) num() int32 {
	for {
		var n int32
		switch c.g.r.Intn(3) {
		case 0:
			n = fieldNumbers[c.g.r.Intn(len(fieldNumbers))]
		default:
			n = int32(1 + c.g.r.Intn(40))
		}
		if c.usedNums[n] || (n >= 19000 && n <= 19999) || (n >= 1000 && n < 1100) || (n >= 40 && n < 50) {
			continue
		}
		c.usedNums[n] = true
		return n
	}
}

func (c *mctx) fieldName() string {
	for {
		n := c.g.freshName(c.full, c.g.advField, "f")
		if jsonConflict(c.md, n) {
			// keep the scope claim (harmless) and try again
			continue
		}
		return n
	}
}

func (g *sgen) enumsFor(syntax string) []*enumRef {
	var out []*enumRef
	for _, e := range g.enums {
		// protoc: an enum used as a map value must define 0 as its first value
		if g.mapValue && e.d.Value[0].GetNumber() != 0 {
			continue
		}
		// proto3 files may not use closed (proto2) enums
		if syntax == "proto3" && e.closed {
			continue
		}
		out = append(out, e)
	}
	return out
}

func (g *sgen) msgsFor(syntax string) []*msgRef { return g.msgs }

func features(fs *descriptorpb.FeatureSet) *descriptorpb.FeatureSet {
	if fs == nil {
		return &descriptorpb.FeatureSet{}
	}
	return fs
}

func (c *mctx) fopts(f *dpb) *descriptorpb.FieldOptions {
	if f.Options == nil {
		f.Options = &descriptorpb.FieldOptions{}
	}
	return f.Options
}

func isNumeric(t descriptorpb.FieldDescriptorProto_Type) bool {
	switch t {
	case descriptorpb.FieldDescriptorProto_TYPE_STRING, descriptorpb.FieldDescriptorProto_TYPE_BYTES,
		descriptorpb.FieldDescriptorProto_TYPE_MESSAGE, descriptorpb.FieldDescriptorProto_TYPE_GROUP:
		return false
	}
	return true
}

// setType picks a field type: scalar, enum or message. allowMsg=false for map keys etc.
func (c *mctx) setType(f *dpb, allowMsg bool) {
	g := c.g
	r := g.r.Intn(10)
	es := g.enumsFor(c.syntax)
	ms := g.msgsFor(c.syntax)
	switch {
	case r < 2 && len(es) > 0:
		e := es[g.r.Intn(len(es))]
		f.Type = descriptorpb.FieldDescriptorProto_TYPE_ENUM.Enum()
		f.TypeName = proto.String(e.full)
	case r < 5 && allowMsg && len(ms) > 0:
		m := ms[g.r.Intn(len(ms))]
		if g.r.Intn(3) == 0 { // bias to recent messages and to the message itself (recursion)
			m = ms[len(ms)-1-g.r.Intn(min(3, len(ms)))]
		}
		f.Type = descriptorpb.FieldDescriptorProto_TYPE_MESSAGE.Enum()
		f.TypeName = proto.String(m.full)
	default:
		f.Type = scalarTypes[g.r.Intn(len(scalarTypes))].Enum()
	}
}

func (g *sgen) enumByName(full string) *enumRef {
	for _, e := range g.enums {
		if e.full == full {
			return e
		}
	}
	return nil
}

var defInts = []string{"0", "1", "-1", "2147483647", "-2147483648", "42", "127", "-128"}
var defUints = []string{"0", "1", "4294967295", "42"}
var defI64 = []string{"9223372036854775807", "-9223372036854775808", "0", "-1", "1099511627776"}
var defU64 = []string{"18446744073709551615", "0", "1"}
var defFloats = []string{"0", "-0", "1", "-1.5", "inf", "-inf", "nan", "3.4028235e+38", "1e-45", "0.1", "1e+10", "1.5"}
var defDoubles = []string{"0", "-0", "1", "inf", "-inf", "nan", "1.7976931348623157e+308", "5e-324", "0.1", "-2.5e-10"}
var defStrings = []string{"", "hello", "a b", "\"quoted\"", "back\\slash", "new\nline", "tab\t", "héllo", "日本", "\x00nul", "`backtick`", "'", "%d %s", "*/ /*", "${x}"}
var defBytes = []string{"", "hello", "\\000\\001\\377", "\\\"q\\\"", "\\\\", "\\n\\r\\t", "\\303\\251", "a\\000b", "\\'", "?\\?"}

// setDefault gives a singular scalar/enum field an explicit default (proto2 / editions explicit presence).
func (c *mctx) setDefault(f *dpb) {
	r := c.g.r
	switch f.GetType() {
	case descriptorpb.FieldDescriptorProto_TYPE_INT32, descriptorpb.FieldDescriptorProto_TYPE_SINT32, descriptorpb.FieldDescriptorProto_TYPE_SFIXED32:
		f.DefaultValue = proto.String(defInts[r.Intn(len(defInts))])
	case descriptorpb.FieldDescriptorProto_TYPE_UINT32, descriptorpb.FieldDescriptorProto_TYPE_FIXED32:
		f.DefaultValue = proto.String(defUints[r.Intn(len(defUints))])
	case descriptorpb.FieldDescriptorProto_TYPE_INT64, descriptorpb.FieldDescriptorProto_TYPE_SINT64, descriptorpb.FieldDescriptorProto_TYPE_SFIXED64:
		f.DefaultValue = proto.String(append(defInts, defI64...)[r.Intn(len(defInts)+len(defI64))])
	case descriptorpb.FieldDescriptorProto_TYPE_UINT64, descriptorpb.FieldDescriptorProto_TYPE_FIXED64:
		f.DefaultValue = proto.String(append(defUints, defU64...)[r.Intn(len(defUints)+len(defU64))])
	case descriptorpb.FieldDescriptorProto_TYPE_FLOAT:
		f.DefaultValue = proto.String(defFloats[r.Intn(len(defFloats))])
	case descriptorpb.FieldDescriptorProto_TYPE_DOUBLE:
		f.DefaultValue = proto.String(defDoubles[r.Intn(len(defDoubles))])
	case descriptorpb.FieldDescriptorProto_TYPE_BOOL:
		f.DefaultValue = proto.String([]string{"true", "false"}[r.Intn(2)])
	case descriptorpb.FieldDescriptorProto_TYPE_STRING:
		f.DefaultValue = proto.String(defStrings[r.Intn(len(defStrings))])
	case descriptorpb.FieldDescriptorProto_TYPE_BYTES:
		f.DefaultValue = proto.String(defBytes[r.Intn(len(defBytes))])
	case descriptorpb.FieldDescriptorProto_TYPE_ENUM:
		if e := c.g.enumByName(f.GetTypeName()); e != nil {
			f.DefaultValue = proto.String(e.d.Value[r.Intn(len(e.d.Value))].GetName())
		}
	}
	if f.DefaultValue != nil {
		c.g.h("default:" + strings.ToLower(strings.TrimPrefix(f.GetType().String(), "TYPE_")))
	}
}

func (c *mctx) newField(name string, label func() *descriptorpb.FieldDescriptorProto_Label) *dpb {
	f := &dpb{Name: proto.String(name), Number: proto.Int32(c.num()), Label: label()}
	return f
}

func (c *mctx) finishField(f *dpb) {
	// json_name: protoc always fills it in; sometimes a custom one
	if f.JsonName == nil {
		f.JsonName = proto.String(strs.JSONCamelCase(f.GetName()))
		if c.g.r.Intn(12) == 0 {
			f.JsonName = proto.String(fmt.Sprintf("J%d_%s", f.GetNumber(), []string{"custom", "with space", "Ünï", "@type"}[c.g.r.Intn(4)]))
			c.g.h("json_name:custom")
		}
	}
	if c.g.r.Intn(15) == 0 {
		c.fopts(f).Deprecated = proto.Bool(true)
	}
	c.md.Field = append(c.md.Field, f)
}

func isMsg(f *dpb) bool {
	return f.GetType() == descriptorpb.FieldDescriptorProto_TYPE_MESSAGE || f.GetType() == descriptorpb.FieldDescriptorProto_TYPE_GROUP
}

func packable(f *dpb) bool {
	return isNumeric(f.GetType())
}

// singular adds one singular field with a presence discipline allowed by the syntax.
func (c *mctx) singular() {
	g := c.g
	f := c.newField(c.fieldName(), tOptional)
	c.setType(f, true)
	switch c.syntax {
	case "proto2":
		switch g.r.Intn(8) {
		case 0:
			f.Label = tRequired()
			c.ref.hasReq = true
			g.h("card:required")
		default:
			g.h("card:optional")
		}
		if !isMsg(f) && g.r.Intn(3) == 0 {
			c.setDefault(f)
		}
	case "proto3":
		if g.r.Intn(3) == 0 {
			// proto3 optional: a synthetic oneof, appended after the real oneofs by finishOneofs
			f.Proto3Optional = proto.Bool(true)
			g.h("card:proto3_optional")
		} else {
			g.h("card:implicit")
		}
	case "editions":
		switch k := g.r.Intn(8); {
		case k == 0:
			c.fopts(f).Features = &descriptorpb.FeatureSet{FieldPresence: descriptorpb.FeatureSet_LEGACY_REQUIRED.Enum()}
			c.ref.hasReq = true
			g.h("card:legacy_required")
		case k <= 2 && !isMsg(f) && !c.closedEnumField(f):
			c.fopts(f).Features = &descriptorpb.FeatureSet{FieldPresence: descriptorpb.FeatureSet_IMPLICIT.Enum()}
			g.h("card:ed_implicit")
		case k == 3:
			c.fopts(f).Features = &descriptorpb.FeatureSet{FieldPresence: descriptorpb.FeatureSet_EXPLICIT.Enum()}
			g.h("card:ed_explicit")
			if !isMsg(f) && g.r.Intn(2) == 0 {
				c.setDefault(f)
			}
		default:
			g.h("card:ed_default")
			if !isMsg(f) && g.r.Intn(4) == 0 {
				c.setDefault(f)
			}
		}
		if f.GetType() == descriptorpb.FieldDescriptorProto_TYPE_MESSAGE && g.r.Intn(5) == 0 {
			fs := features(c.fopts(f).Features)
			fs.MessageEncoding = descriptorpb.FeatureSet_DELIMITED.Enum()
			c.fopts(f).Features = fs
			g.h("ed:delimited")
		}
	}
	c.stringFeatures(f)
	if f.GetType() == descriptorpb.FieldDescriptorProto_TYPE_MESSAGE && g.r.Intn(4) == 0 {
		c.fopts(f).Lazy = proto.Bool(true)
		g.h("lazy")
		if g.r.Intn(4) == 0 {
			c.fopts(f).Lazy = nil
			c.fopts(f).UnverifiedLazy = proto.Bool(true)
		}
	}
	c.finishField(f)
}

func (c *mctx) closedEnumField(f *dpb) bool {
	if f.GetType() != descriptorpb.FieldDescriptorProto_TYPE_ENUM {
		return false
	}
	e := c.g.enumByName(f.GetTypeName())
	return e == nil || e.closed
}

func (c *mctx) stringFeatures(f *dpb) {
	if c.syntax == "editions" && f.GetType() == descriptorpb.FieldDescriptorProto_TYPE_STRING && c.g.r.Intn(3) == 0 {
		fs := features(c.fopts(f).Features)
		fs.Utf8Validation = descriptorpb.FeatureSet_NONE.Enum()
		c.fopts(f).Features = fs
		c.g.h("ed:utf8_none")
	}
}

func (c *mctx) repeated() {
	g := c.g
	f := c.newField(c.fieldName(), tRepeated)
	c.setType(f, true)
	if packable(f) {
		switch c.syntax {
		case "proto2", "proto3":
			if g.r.Intn(2) == 0 {
				c.fopts(f).Packed = proto.Bool(g.r.Intn(2) == 0)
			}
		case "editions":
			if g.r.Intn(2) == 0 {
				v := descriptorpb.FeatureSet_EXPANDED
				if g.r.Intn(2) == 0 {
					v = descriptorpb.FeatureSet_PACKED
				}
				c.fopts(f).Features = &descriptorpb.FeatureSet{RepeatedFieldEncoding: v.Enum()}
			}
		}
		g.h("card:repeated_packable")
	} else {
		g.h("card:repeated")
	}
	if c.syntax == "editions" && f.GetType() == descriptorpb.FieldDescriptorProto_TYPE_MESSAGE && g.r.Intn(6) == 0 {
		fs := features(c.fopts(f).Features)
		fs.MessageEncoding = descriptorpb.FeatureSet_DELIMITED.Enum()
		c.fopts(f).Features = fs
		g.h("ed:delimited_repeated")
	}
	c.stringFeatures(f)
	if f.GetType() == descriptorpb.FieldDescriptorProto_TYPE_MESSAGE && g.r.Intn(5) == 0 {
		c.fopts(f).Lazy = proto.Bool(true)
		g.h("lazy_repeated")
	}
	c.finishField(f)
}

// mapField adds map<K,V> with a synthesized entry message, exactly as protoc does.
func (c *mctx) mapField(keyType descriptorpb.FieldDescriptorProto_Type, valMsg string) {
	g := c.g
	var name, entry string
	for {
		name = c.fieldName()
		entry = mapEntryName(name)
		if g.claim(c.full, entry) {
			break
		}
	}
	f := c.newField(name, tRepeated)
	f.Type = descriptorpb.FieldDescriptorProto_TYPE_MESSAGE.Enum()
	f.TypeName = proto.String(c.full + "." + entry)
	k := &dpb{Name: proto.String("key"), Number: proto.Int32(1), Label: tOptional(), Type: keyType.Enum(), JsonName: proto.String("key")}
	v := &dpb{Name: proto.String("value"), Number: proto.Int32(2), Label: tOptional(), JsonName: proto.String("value")}
	if valMsg != "" {
		v.Type = descriptorpb.FieldDescriptorProto_TYPE_MESSAGE.Enum()
		v.TypeName = proto.String(valMsg)
	} else {
		sub := &mctx{g: g, syntax: c.syntax, full: c.full, md: c.md, usedNums: map[int32]bool{}, ref: c.ref}
		g.mapValue = true
		sub.setType(v, true)
		g.mapValue = false
	}
	if c.syntax == "editions" && g.r.Intn(4) == 0 &&
		(keyType == descriptorpb.FieldDescriptorProto_TYPE_STRING || v.GetType() == descriptorpb.FieldDescriptorProto_TYPE_STRING) {
		c.fopts(f).Features = &descriptorpb.FeatureSet{Utf8Validation: descriptorpb.FeatureSet_NONE.Enum()}
		g.h("ed:utf8_none_map")
	}
	c.md.NestedType = append(c.md.NestedType, &descriptorpb.DescriptorProto{
		Name: proto.String(entry), Field: []*dpb{k, v}, Options: &descriptorpb.MessageOptions{MapEntry: proto.Bool(true)},
	})
	g.h("map:key_" + strings.ToLower(strings.TrimPrefix(keyType.String(), "TYPE_")))
	g.h("map:val_" + strings.ToLower(strings.TrimPrefix(v.GetType().String(), "TYPE_")))
	c.finishField(f)
}

// mapEntryName mirrors protoc's MapEntryName: CamelCase without keeping underscores, then "Entry".
func mapEntryName(field string) string {
	var b []byte
	up := true
	for i := 0; i < len(field); i++ {
		ch := field[i]
		if ch == '_' {
			up = true
			continue
		}
		if up && ch >= 'a' && ch <= 'z' {
			ch -= 'a' - 'A'
		}
		up = false
		b = append(b, ch)
	}
	return string(b) + "Entry"
}

// group adds a proto2 group: a nested message named like the field, capitalised.
func (c *mctx) group(label func() *descriptorpb.FieldDescriptorProto_Label) *dpb {
	g := c.g
	var mname, fname string
	for {
		g.seq++
		mname = fmt.Sprintf("%s%d", []string{"Group", "G", "Data", "Item"}[g.r.Intn(4)], g.seq)
		fname = strings.ToLower(mname)
		if !jsonConflict(c.md, fname) && g.claim(c.full, mname) && g.claim(c.full, fname) {
			break
		}
	}
	sub := g.message(c.syntax, c.full, mname, c.depth+1, 1+g.r.Intn(3), c.md, nil)
	_ = sub
	f := c.newField(fname, label)
	f.Type = descriptorpb.FieldDescriptorProto_TYPE_GROUP.Enum()
	f.TypeName = proto.String(c.full + "." + mname)
	g.h("group")
	return f
}

// oneof adds a real oneof with 1-4 members.
func (c *mctx) oneof() {
	g := c.g
	oname := g.freshName(c.full, func() string {
		if g.r.Intn(2) == 0 {
			return ""
		}
		return g.advField()
	}, "o")
	idx := int32(len(c.md.OneofDecl))
	c.md.OneofDecl = append(c.md.OneofDecl, &descriptorpb.OneofDescriptorProto{Name: proto.String(oname)})
	n := 1 + g.r.Intn(4)
	for i := 0; i < n; i++ {
		var f *dpb
		if c.syntax == "proto2" && g.r.Intn(8) == 0 && c.depth < 2 {
			f = c.group(tOptional)
		} else {
			f = c.newField(c.fieldName(), tOptional)
			c.setType(f, true)
			if c.syntax == "editions" && f.GetType() == descriptorpb.FieldDescriptorProto_TYPE_MESSAGE && g.r.Intn(6) == 0 {
				c.fopts(f).Features = &descriptorpb.FeatureSet{MessageEncoding: descriptorpb.FeatureSet_DELIMITED.Enum()}
			}
			if c.syntax != "proto3" && !isMsg(f) && g.r.Intn(5) == 0 {
				c.setDefault(f)
			}
			c.stringFeatures(f)
			if f.GetType() == descriptorpb.FieldDescriptorProto_TYPE_MESSAGE && g.r.Intn(6) == 0 {
				c.fopts(f).Lazy = proto.Bool(true)
				g.h("lazy_oneof")
			}
		}
		f.OneofIndex = proto.Int32(idx)
		g.h("oneof_member:" + strings.ToLower(strings.TrimPrefix(f.GetType().String(), "TYPE_")))
		c.finishField(f)
	}
}

// message creates one message (and its nested declarations) in scope parentFull ("" + ".zzpkg" for top level).
// into: the parent DescriptorProto (nested) or nil; top: the file (top level) or nil.
func (g *sgen) message(syntax, parentFull, name string, depth, nfields int, into *descriptorpb.DescriptorProto, top *descriptorpb.FileDescriptorProto) *msgRef {
	md := &descriptorpb.DescriptorProto{Name: proto.String(name)}
	ref := &msgRef{full: parentFull + "." + name, syntax: syntax, d: md}
	c := &mctx{g: g, syntax: syntax, full: ref.full, md: md, usedNums: map[int32]bool{}, depth: depth, ref: ref}
	// the message is referable from its own fields (direct recursion) and from everything created later
	g.msgs = append(g.msgs, ref)
	if into != nil {
		into.NestedType = append(into.NestedType, md)
	} else if top != nil {
		top.MessageType = append(top.MessageType, md)
	}
	// nested declarations first so that fields can refer to them
	if depth < 2 && g.r.Intn(3) == 0 {
		ename := g.freshName(ref.full, func() string { return g.pick(advMsgNames) }, "NE")
		g.enum(syntax, ref.full, ename, md, nil)
	}
	if depth < 2 && g.r.Intn(3) == 0 {
		nn := 1 + g.r.Intn(2)
		for i := 0; i < nn; i++ {
			mname := g.freshName(ref.full, func() string { return g.pick(advMsgNames) }, "N")
			g.message(syntax, ref.full, mname, depth+1, 1+g.r.Intn(4), md, nil)
		}
	}
	if syntax != "proto3" && g.r.Intn(4) == 0 {
		md.ExtensionRange = append(md.ExtensionRange, &descriptorpb.DescriptorProto_ExtensionRange{Start: proto.Int32(1000), End: proto.Int32(1100)})
		if g.r.Intn(2) == 0 {
			md.ExtensionRange = append(md.ExtensionRange, &descriptorpb.DescriptorProto_ExtensionRange{Start: proto.Int32(40), End: proto.Int32(50)})
		}
		g.h("extension_range")
	} else {
		ref.noExt = true
	}
	for len(md.Field) < nfields {
		switch k := g.r.Intn(12); {
		case k < 5:
			c.singular()
		case k < 7:
			c.repeated()
		case k < 9:
			c.mapField(mapKeyTypes[g.r.Intn(len(mapKeyTypes))], "")
		case k < 11:
			c.oneof()
		default:
			if syntax == "proto2" && depth < 2 {
				lab := tOptional
				if g.r.Intn(3) == 0 {
					lab = tRepeated
				}
				c.finishField(c.group(lab))
			} else {
				c.singular()
			}
		}
	}
	if g.r.Intn(5) == 0 {
		md.ReservedRange = append(md.ReservedRange, &descriptorpb.DescriptorProto_ReservedRange{Start: proto.Int32(300), End: proto.Int32(310)})
		md.ReservedName = append(md.ReservedName, "zz_reserved", "reserved_2")
		g.h("reserved")
	}
	if g.r.Intn(12) == 0 {
		md.Options = &descriptorpb.MessageOptions{Deprecated: proto.Bool(true)}
	}
	if syntax == "editions" && g.r.Intn(4) == 0 {
		// per-message API level override
		if md.Options == nil {
			md.Options = &descriptorpb.MessageOptions{}
		}
		lvl := []gofeaturespb.GoFeatures_APILevel{gofeaturespb.GoFeatures_API_OPEN, gofeaturespb.GoFeatures_API_HYBRID, gofeaturespb.GoFeatures_API_OPAQUE}[g.r.Intn(3)]
		md.Options.Features = &descriptorpb.FeatureSet{}
		proto.SetExtension(md.Options.Features, gofeaturespb.E_Go, &gofeaturespb.GoFeatures{ApiLevel: lvl.Enum()})
		g.h("ed:msg_api_level_" + lvl.String())
	}
	finishOneofs(md)
	return ref
}

// finishOneofs appends the synthetic oneofs of proto3 optional fields after the real ones (protoc order).
func finishOneofs(md *descriptorpb.DescriptorProto) {
	used := map[string]bool{}
	for _, f := range md.Field {
		used[f.GetName()] = true
	}
	for _, o := range md.OneofDecl {
		used[o.GetName()] = true
	}
	for _, n := range md.NestedType {
		used[n.GetName()] = true
	}
	for _, n := range md.EnumType {
		used[n.GetName()] = true
		for _, v := range n.Value {
			used[v.GetName()] = true
		}
	}
	for _, f := range md.Field {
		if f.GetProto3Optional() && f.OneofIndex == nil {
			n := "_" + f.GetName()
			for used[n] {
				n = "X" + n // protoc's rule
			}
			used[n] = true
			f.OneofIndex = proto.Int32(int32(len(md.OneofDecl)))
			md.OneofDecl = append(md.OneofDecl, &descriptorpb.OneofDescriptorProto{Name: proto.String(n)})
		}
	}
}

var enumValuePool = []string{"UNKNOWN", "ZERO", "FOO", "BAR", "BAZ", "Name", "Value", "String", "Type", "NEG", "ALIAS", "Descriptor", "Enum", "MAX", "MIN", "A", "B"}

// enum creates an enum; value names are claimed in the *enclosing* scope (protobuf scoping rule).
func (g *sgen) enum(syntax, parentFull, name string, into *descriptorpb.DescriptorProto, top *descriptorpb.FileDescriptorProto) *enumRef {
	ed := &descriptorpb.EnumDescriptorProto{Name: proto.String(name)}
	closed := syntax == "proto2" || (syntax == "editions" && g.edFileClosed)
	if syntax == "editions" && g.r.Intn(3) == 0 {
		closed = !closed
		v := descriptorpb.FeatureSet_OPEN
		if closed {
			v = descriptorpb.FeatureSet_CLOSED
		}
		ed.Options = &descriptorpb.EnumOptions{Features: &descriptorpb.FeatureSet{EnumType: v.Enum()}}
		g.h("ed:enum_type_override")
	}
	ref := &enumRef{full: parentFull + "." + name, syntax: syntax, closed: closed, d: ed}
	n := 1 + g.r.Intn(5)
	nums := map[int32]bool{}
	for i := 0; i < n; i++ {
		vn := g.freshName(parentFull, func() string {
			return fmt.Sprintf("%s_%s", strings.ToUpper(name), g.pick(enumValuePool))
		}, strings.ToUpper(name)+"_V")
		var num int32
		switch {
		case i == 0 && (!closed || g.r.Intn(2) == 0):
			num = 0 // open enums must start with zero
		case g.r.Intn(4) == 0:
			num = []int32{-1, -2147483648, 2147483647, -5, 1 << 20}[g.r.Intn(5)]
		default:
			num = int32(g.r.Intn(12))
		}
		if nums[num] {
			if g.r.Intn(2) == 0 {
				if ed.Options == nil {
					ed.Options = &descriptorpb.EnumOptions{}
				}
				ed.Options.AllowAlias = proto.Bool(true)
				g.h("enum:alias")
			} else {
				for nums[num] {
					num++
				}
			}
		}
		if num < 0 {
			g.h("enum:negative")
		}
		nums[num] = true
		v := &descriptorpb.EnumValueDescriptorProto{Name: proto.String(vn), Number: proto.Int32(num)}
		if g.r.Intn(15) == 0 {
			v.Options = &descriptorpb.EnumValueOptions{Deprecated: proto.Bool(true)}
		}
		ed.Value = append(ed.Value, v)
	}
	if g.r.Intn(6) == 0 {
		ed.ReservedRange = append(ed.ReservedRange, &descriptorpb.EnumDescriptorProto_EnumReservedRange{Start: proto.Int32(100), End: proto.Int32(110)})
		ed.ReservedName = append(ed.ReservedName, "ZZ_RESERVED")
	}
	if into != nil {
		into.EnumType = append(into.EnumType, ed)
	} else {
		top.EnumType = append(top.EnumType, ed)
	}
	g.enums = append(g.enums, ref)
	return ref
}

// extension adds an extension field of some extendable message, declared at top level or inside scopeMsg.
func (g *sgen) extension(syntax string, scopeFull string, into *descriptorpb.DescriptorProto, top *descriptorpb.FileDescriptorProto, usedExt map[string]map[int32]bool) {
	var cands []*msgRef
	for _, m := range g.msgs {
		if len(m.d.ExtensionRange) > 0 {
			cands = append(cands, m)
		}
	}
	if len(cands) == 0 {
		return
	}
	ext := cands[g.r.Intn(len(cands))]
	if usedExt[ext.full] == nil {
		usedExt[ext.full] = map[int32]bool{}
	}
	var num int32
	for {
		num = 1000 + int32(g.r.Intn(100))
		if len(ext.d.ExtensionRange) > 1 && g.r.Intn(3) == 0 {
			num = 40 + int32(g.r.Intn(10))
		}
		if !usedExt[ext.full][num] {
			usedExt[ext.full][num] = true
			break
		}
	}
	name := g.freshName(scopeFull, func() string {
		if g.r.Intn(2) == 0 {
			return ""
		}
		return g.pick([]string{"ext", "e", "extension", "x_ext", "E_ext", "get_ext", "file"})
	}, "ext_")
	f := &dpb{Name: proto.String(name), Number: proto.Int32(num), Label: tOptional(), Extendee: proto.String(ext.full), JsonName: proto.String(strs.JSONCamelCase(name))}
	c := &mctx{g: g, syntax: syntax, full: scopeFull, md: &descriptorpb.DescriptorProto{}, usedNums: map[int32]bool{}}
	c.setType(f, true)
	if g.r.Intn(3) == 0 {
		f.Label = tRepeated()
		if packable(f) && g.r.Intn(2) == 0 {
			if syntax == "editions" {
				c.fopts(f).Features = &descriptorpb.FeatureSet{RepeatedFieldEncoding: descriptorpb.FeatureSet_EXPANDED.Enum()}
			} else {
				c.fopts(f).Packed = proto.Bool(true)
			}
		}
	} else if !isMsg(f) && g.r.Intn(3) == 0 {
		c.setDefault(f)
	}
	g.h("extension:" + strings.ToLower(strings.TrimPrefix(f.GetType().String(), "TYPE_")) + map[bool]string{true: "_nested", false: "_top"}[into != nil])
	if into != nil {
		into.Extension = append(into.Extension, f)
	} else {
		top.Extension = append(top.Extension, f)
	}
}

// motifs that the findings of DESIGN.md section 7 live in: cycles carrying required fields, and maps whose
// message values reach required fields.
func (g *sgen) motifCycleRequired(syntax string, top *descriptorpb.FileDescriptorProto) {
	scope := "." + pkgPlaceholder
	nm := func(p string) string { return g.freshName(scope, func() string { return "" }, p) }
	k := 2 + g.r.Intn(2)
	names := make([]string, k)
	for i := range names {
		names[i] = nm("Cyc")
	}
	leafName := nm("Req")
	leaf := &descriptorpb.DescriptorProto{Name: proto.String(leafName)}
	req := &dpb{Name: proto.String("x"), Number: proto.Int32(1), Label: tRequired(), Type: descriptorpb.FieldDescriptorProto_TYPE_INT32.Enum(), JsonName: proto.String("x")}
	if syntax == "editions" {
		req.Label = tOptional()
		req.Options = &descriptorpb.FieldOptions{Features: &descriptorpb.FeatureSet{FieldPresence: descriptorpb.FeatureSet_LEGACY_REQUIRED.Enum()}}
	}
	leaf.Field = append(leaf.Field, req)
	var mds []*descriptorpb.DescriptorProto
	for i := range names {
		md := &descriptorpb.DescriptorProto{Name: proto.String(names[i])}
		type fld struct {
			name, typ string
		}
		fl := []fld{{"next", scope + "." + names[(i+1)%k]}}
		if i == 0 || g.r.Intn(3) == 0 {
			fl = append(fl, fld{"leaf", scope + "." + leafName})
		}
		if g.r.Intn(3) == 0 {
			fl = append(fl, fld{"back", scope + "." + names[g.r.Intn(k)]})
		}
		g.r.Shuffle(len(fl), func(a, b int) { fl[a], fl[b] = fl[b], fl[a] })
		for j, x := range fl {
			f := &dpb{Name: proto.String(x.name), Number: proto.Int32(int32(j + 1)), Label: tOptional(), Type: descriptorpb.FieldDescriptorProto_TYPE_MESSAGE.Enum(), TypeName: proto.String(x.typ), JsonName: proto.String(x.name)}
			if g.r.Intn(4) == 0 && x.name != "leaf" {
				f.Label = tRepeated()
			}
			md.Field = append(md.Field, f)
		}
		mds = append(mds, md)
	}
	// an entry message outside the cycle, so that the cycle is first evaluated from outside
	rootName := nm("CycRoot")
	root := &descriptorpb.DescriptorProto{Name: proto.String(rootName), Field: []*dpb{
		{Name: proto.String("entry"), Number: proto.Int32(1), Label: tOptional(), Type: descriptorpb.FieldDescriptorProto_TYPE_MESSAGE.Enum(), TypeName: proto.String(scope + "." + names[g.r.Intn(k)]), JsonName: proto.String("entry")},
	}}
	all := append([]*descriptorpb.DescriptorProto{root}, mds...)
	all = append(all, leaf)
	for _, md := range all {
		top.MessageType = append(top.MessageType, md)
		g.msgs = append(g.msgs, &msgRef{full: scope + "." + md.GetName(), syntax: syntax, d: md, hasReq: true, noExt: true})
	}
	g.h("motif:cycle_required")
}

func (g *sgen) motifMapRequired(syntax string, top *descriptorpb.FileDescriptorProto) {
	scope := "." + pkgPlaceholder
	nm := func(p string) string { return g.freshName(scope, func() string { return "" }, p) }
	tn, vn, wn := nm("MapHolder"), nm("MapVal"), nm("MapLeaf")
	req := &dpb{Name: proto.String("x"), Number: proto.Int32(1), Label: tRequired(), Type: descriptorpb.FieldDescriptorProto_TYPE_INT32.Enum(), JsonName: proto.String("x")}
	if syntax == "editions" {
		req.Label = tOptional()
		req.Options = &descriptorpb.FieldOptions{Features: &descriptorpb.FeatureSet{FieldPresence: descriptorpb.FeatureSet_LEGACY_REQUIRED.Enum()}}
	}
	w := &descriptorpb.DescriptorProto{Name: proto.String(wn), Field: []*dpb{req}}
	v := &descriptorpb.DescriptorProto{Name: proto.String(vn), Field: []*dpb{
		{Name: proto.String("w"), Number: proto.Int32(1), Label: tOptional(), Type: descriptorpb.FieldDescriptorProto_TYPE_MESSAGE.Enum(), TypeName: proto.String(scope + "." + wn), JsonName: proto.String("w")},
		{Name: proto.String("n"), Number: proto.Int32(2), Label: tOptional(), Type: descriptorpb.FieldDescriptorProto_TYPE_INT32.Enum(), JsonName: proto.String("n")},
	}}
	t := &descriptorpb.DescriptorProto{Name: proto.String(tn)}
	ref := &msgRef{full: scope + "." + tn, syntax: syntax, d: t, hasReq: true, noExt: true}
	for _, md := range []*descriptorpb.DescriptorProto{w, v} {
		top.MessageType = append(top.MessageType, md)
		g.msgs = append(g.msgs, &msgRef{full: scope + "." + md.GetName(), syntax: syntax, d: md, hasReq: true, noExt: true})
	}
	top.MessageType = append(top.MessageType, t)
	g.msgs = append(g.msgs, ref)
	c := &mctx{g: g, syntax: syntax, full: ref.full, md: t, usedNums: map[int32]bool{}, ref: ref}
	c.mapField(mapKeyTypes[g.r.Intn(len(mapKeyTypes))], scope+"."+vn)
	if g.r.Intn(2) == 0 {
		c.mapField(descriptorpb.FieldDescriptorProto_TYPE_STRING, scope+"."+wn)
	}
	g.h("motif:map_required")
}

// pinnedFile holds the schemas of DESIGN.md findings 1 and 2 verbatim.
func (g *sgen) pinnedFile() *descriptorpb.FileDescriptorProto {
	scope := "." + pkgPlaceholder
	mf := func(name string, num int32, typ string) *dpb {
		return &dpb{Name: proto.String(name), Number: proto.Int32(num), Label: tOptional(), Type: descriptorpb.FieldDescriptorProto_TYPE_MESSAGE.Enum(), TypeName: proto.String(scope + "." + typ), JsonName: proto.String(name)}
	}
	reqx := func() *dpb {
		return &dpb{Name: proto.String("x"), Number: proto.Int32(1), Label: tRequired(), Type: descriptorpb.FieldDescriptorProto_TYPE_INT32.Enum(), JsonName: proto.String("x")}
	}
	fd := &descriptorpb.FileDescriptorProto{
		Name:    proto.String(g.prefix + "_pin.proto"),
		Package: proto.String(pkgPlaceholder),
		Syntax:  proto.String("proto2"),
		MessageType: []*descriptorpb.DescriptorProto{
			// finding 1
			{Name: proto.String("PinQ"), Field: []*dpb{mf("a", 1, "PinA")}},
			{Name: proto.String("PinA"), Field: []*dpb{mf("b", 1, "PinB"), mf("c", 2, "PinC")}},
			{Name: proto.String("PinB"), Field: []*dpb{mf("a", 1, "PinA")}},
			{Name: proto.String("PinC"), Field: []*dpb{reqx()}},
			// finding 2
			{Name: proto.String("PinT"), Field: []*dpb{
				{Name: proto.String("m"), Number: proto.Int32(1), Label: tRepeated(), Type: descriptorpb.FieldDescriptorProto_TYPE_MESSAGE.Enum(), TypeName: proto.String(scope + ".PinT.MEntry"), JsonName: proto.String("m")}},
				NestedType: []*descriptorpb.DescriptorProto{{Name: proto.String("MEntry"), Options: &descriptorpb.MessageOptions{MapEntry: proto.Bool(true)}, Field: []*dpb{
					{Name: proto.String("key"), Number: proto.Int32(1), Label: tOptional(), Type: descriptorpb.FieldDescriptorProto_TYPE_INT32.Enum(), JsonName: proto.String("key")},
					{Name: proto.String("value"), Number: proto.Int32(2), Label: tOptional(), Type: descriptorpb.FieldDescriptorProto_TYPE_MESSAGE.Enum(), TypeName: proto.String(scope + ".PinV"), JsonName: proto.String("value")},
				}}}},
			{Name: proto.String("PinV"), Field: []*dpb{mf("w", 1, "PinW")}},
			{Name: proto.String("PinW"), Field: []*dpb{reqx()}},
			// every name that protogen reserves or mangles, in one message: the method names of generated
			// messages (usedNames of newMessage), the Build special case of the opaque API, and a field together
			// with fields named like its accessors (hasConflictHybrid) and a oneof named like an accessor
		},
	}
	fd.MessageType = append(fd.MessageType, pinNames()...)
	for _, m := range fd.MessageType {
		g.claim(scope, m.GetName())
	}
	return fd
}

// customOptions declares custom options in the file; instantiate() gives them per-instance numbers and sets them
// on declarations of the same file (as unknown fields, the way protoc hands them to a plugin):
//
//	extend google.protobuf.FieldOptions   { optional int32  zz_src_opt = N+1 [retention = RETENTION_SOURCE];
//	                                        optional string zz_run_opt = N+2; }
//	extend google.protobuf.MessageOptions { optional int32  zz_msg_src_opt = N+3 [retention = RETENTION_SOURCE]; }
//	message ZzOpt { map<string,int32> sm = 1; map<int32,string> im = 2; repeated int32 r = 3; optional ZzOpt nested = 4;
//	                optional string s = 5; map<uint64,ZzOpt> mm = 6; }
//	extend google.protobuf.{File,Message,Field,Enum,EnumValue,Oneof,Service,Method}Options { optional ZzOpt zz_*_opt = N+4..N+11; }
//
// The message-typed options carry maps with a dozen entries each: the embedded raw descriptor is deterministic
// only if the generator marshals it with Deterministic: true (C40).
func (g *sgen) customOptions(fd *descriptorpb.FileDescriptorProto) {
	scope := "." + pkgPlaceholder
	fd.Dependency = append(fd.Dependency, "google/protobuf/descriptor.proto")
	src := &descriptorpb.FieldOptions{Retention: descriptorpb.FieldOptions_RETENTION_SOURCE.Enum()}
	for i, x := range []struct {
		name, ext string
		t         descriptorpb.FieldDescriptorProto_Type
		o         *descriptorpb.FieldOptions
	}{
		{"zz_src_opt", ".google.protobuf.FieldOptions", descriptorpb.FieldDescriptorProto_TYPE_INT32, src},
		{"zz_run_opt", ".google.protobuf.FieldOptions", descriptorpb.FieldDescriptorProto_TYPE_STRING, nil},
		{"zz_msg_src_opt", ".google.protobuf.MessageOptions", descriptorpb.FieldDescriptorProto_TYPE_INT32, src},
	} {
		g.claim(scope, x.name)
		f := &dpb{Name: proto.String(x.name), Number: proto.Int32(int32(50001 + i)), Label: tOptional(), Type: x.t.Enum(), Extendee: proto.String(x.ext), JsonName: proto.String(strs.JSONCamelCase(x.name))}
		if x.o != nil {
			f.Options = proto.Clone(x.o).(*descriptorpb.FieldOptions)
		}
		fd.Extension = append(fd.Extension, f)
	}
	// the option message type
	g.claim(scope, "ZzOpt")
	zz := scope + ".ZzOpt"
	entry := func(name string, kt, vt descriptorpb.FieldDescriptorProto_Type, vtn string) *descriptorpb.DescriptorProto {
		v := &dpb{Name: proto.String("value"), Number: proto.Int32(2), Label: tOptional(), Type: vt.Enum(), JsonName: proto.String("value")}
		if vtn != "" {
			v.TypeName = proto.String(vtn)
		}
		return &descriptorpb.DescriptorProto{Name: proto.String(name), Options: &descriptorpb.MessageOptions{MapEntry: proto.Bool(true)}, Field: []*dpb{
			{Name: proto.String("key"), Number: proto.Int32(1), Label: tOptional(), Type: kt.Enum(), JsonName: proto.String("key")}, v}}
	}
	mapf := func(name string, num int32, e string) *dpb {
		return &dpb{Name: proto.String(name), Number: proto.Int32(num), Label: tRepeated(), Type: descriptorpb.FieldDescriptorProto_TYPE_MESSAGE.Enum(), TypeName: proto.String(zz + "." + e), JsonName: proto.String(name)}
	}
	fd.MessageType = append(fd.MessageType, &descriptorpb.DescriptorProto{
		Name: proto.String("ZzOpt"),
		Field: []*dpb{
			mapf("sm", 1, "SmEntry"), mapf("im", 2, "ImEntry"),
			{Name: proto.String("r"), Number: proto.Int32(3), Label: tRepeated(), Type: descriptorpb.FieldDescriptorProto_TYPE_INT32.Enum(), JsonName: proto.String("r")},
			{Name: proto.String("nested"), Number: proto.Int32(4), Label: tOptional(), Type: descriptorpb.FieldDescriptorProto_TYPE_MESSAGE.Enum(), TypeName: proto.String(zz), JsonName: proto.String("nested")},
			{Name: proto.String("s"), Number: proto.Int32(5), Label: tOptional(), Type: descriptorpb.FieldDescriptorProto_TYPE_STRING.Enum(), JsonName: proto.String("s")},
			mapf("mm", 6, "MmEntry"),
		},
		NestedType: []*descriptorpb.DescriptorProto{
			entry("SmEntry", descriptorpb.FieldDescriptorProto_TYPE_STRING, descriptorpb.FieldDescriptorProto_TYPE_INT32, ""),
			entry("ImEntry", descriptorpb.FieldDescriptorProto_TYPE_INT32, descriptorpb.FieldDescriptorProto_TYPE_STRING, ""),
			entry("MmEntry", descriptorpb.FieldDescriptorProto_TYPE_UINT64, descriptorpb.FieldDescriptorProto_TYPE_MESSAGE, zz),
		},
	})
	for i, x := range zzOptExts {
		g.claim(scope, x.name)
		fd.Extension = append(fd.Extension, &dpb{Name: proto.String(x.name), Number: proto.Int32(int32(50004 + i)), Label: tOptional(),
			Type: descriptorpb.FieldDescriptorProto_TYPE_MESSAGE.Enum(), TypeName: proto.String(zz), Extendee: proto.String(".google.protobuf." + x.ext), JsonName: proto.String(strs.JSONCamelCase(x.name))})
	}
	g.h("custom_options")
}

var zzOptExts = []struct{ name, ext string }{
	{"zz_file_opt", "FileOptions"}, {"zz_msg_opt", "MessageOptions"}, {"zz_field_opt", "FieldOptions"}, {"zz_enum_opt", "EnumOptions"},
	{"zz_enum_value_opt", "EnumValueOptions"}, {"zz_oneof_opt", "OneofOptions"}, {"zz_service_opt", "ServiceOptions"}, {"zz_method_opt", "MethodOptions"},
}

// zzOptValue encodes a ZzOpt value: 14 string-keyed and 13 integer-keyed map entries in a scrambled order,
// a repeated field, a string and (depth 0) a nested ZzOpt and a map of ZzOpt values.
func zzOptValue(tag, depth int) []byte {
	var b []byte
	for i := 0; i < 14; i++ {
		j := (i*5 + tag) % 14
		var e []byte
		e = protowire.AppendTag(e, 1, protowire.BytesType)
		e = protowire.AppendString(e, fmt.Sprintf("k%02d_%d", j, tag%7))
		e = protowire.AppendTag(e, 2, protowire.VarintType)
		e = protowire.AppendVarint(e, uint64(j*j+tag))
		b = protowire.AppendTag(b, 1, protowire.BytesType)
		b = protowire.AppendBytes(b, e)
	}
	for i := 0; i < 13; i++ {
		j := (i*7 + tag) % 13
		var e []byte
		e = protowire.AppendTag(e, 1, protowire.VarintType)
		e = protowire.AppendVarint(e, uint64(int64(j*37-200))) // negative and positive int32 keys
		e = protowire.AppendTag(e, 2, protowire.BytesType)
		e = protowire.AppendString(e, fmt.Sprintf("v%d", j))
		b = protowire.AppendTag(b, 2, protowire.BytesType)
		b = protowire.AppendBytes(b, e)
	}
	for i := 0; i < 3; i++ {
		b = protowire.AppendTag(b, 3, protowire.VarintType)
		b = protowire.AppendVarint(b, uint64(tag+i))
	}
	b = protowire.AppendTag(b, 5, protowire.BytesType)
	b = protowire.AppendString(b, fmt.Sprintf("opt %d", tag))
	if depth == 0 {
		b = protowire.AppendTag(b, 4, protowire.BytesType)
		b = protowire.AppendBytes(b, zzOptValue(tag+1, 1))
		for i := 0; i < 3; i++ {
			var e []byte
			e = protowire.AppendTag(e, 1, protowire.VarintType)
			e = protowire.AppendVarint(e, uint64((2-i)*1000+tag))
			e = protowire.AppendTag(e, 2, protowire.BytesType)
			e = protowire.AppendBytes(e, zzOptValue(tag+2+i, 1))
			b = protowire.AppendTag(b, 6, protowire.BytesType)
			b = protowire.AppendBytes(b, e)
		}
	}
	return b
}

// applyCustomOptions renumbers the custom options of customOptions to base+1..11 and sets them on declarations of
// the file: the file itself, every second message, every fourth field, every enum and its first value, every
// real oneof, every service and method.
func applyCustomOptions(fd *descriptorpb.FileDescriptorProto, base int32) {
	has := false
	off := map[string]int32{"zz_src_opt": 1, "zz_run_opt": 2, "zz_msg_src_opt": 3}
	for i, x := range zzOptExts {
		off[x.name] = int32(4 + i)
	}
	for _, x := range fd.Extension {
		if o, ok := off[x.GetName()]; ok && strings.HasPrefix(x.GetExtendee(), ".google.protobuf.") {
			x.Number, has = proto.Int32(base+o), true
		}
	}
	if !has {
		return
	}
	addUnknown := func(m proto.Message, b []byte) {
		r := m.ProtoReflect()
		r.SetUnknown(append(append([]byte{}, r.GetUnknown()...), b...))
	}
	zzOpt := func(name string, tag, depth int) []byte {
		b := protowire.AppendTag(nil, protowire.Number(base+off[name]), protowire.BytesType)
		return protowire.AppendBytes(b, zzOptValue(tag, depth))
	}
	if fd.Options == nil {
		fd.Options = &descriptorpb.FileOptions{}
	}
	addUnknown(fd.Options, zzOpt("zz_file_opt", 1, 0))
	k := 0
	doEnum := func(ed *descriptorpb.EnumDescriptorProto) {
		k++
		if ed.Options == nil {
			ed.Options = &descriptorpb.EnumOptions{}
		}
		addUnknown(ed.Options, zzOpt("zz_enum_opt", k, 1))
		if v := ed.Value[0]; v != nil {
			if v.Options == nil {
				v.Options = &descriptorpb.EnumValueOptions{}
			}
			addUnknown(v.Options, zzOpt("zz_enum_value_opt", k+1, 1))
		}
	}
	var walk func(md *descriptorpb.DescriptorProto)
	walk = func(md *descriptorpb.DescriptorProto) {
		if md.GetOptions().GetMapEntry() {
			return
		}
		k++
		if k%2 == 0 {
			if md.Options == nil {
				md.Options = &descriptorpb.MessageOptions{}
			}
			b := protowire.AppendTag(nil, protowire.Number(base+3), protowire.VarintType)
			addUnknown(md.Options, protowire.AppendVarint(b, uint64(k)))
			addUnknown(md.Options, zzOpt("zz_msg_opt", k, (k/2)%2))
		}
		synthetic := map[int32]bool{}
		for i, f := range md.Field {
			if f.GetProto3Optional() && f.OneofIndex != nil {
				synthetic[f.GetOneofIndex()] = true
			}
			if (i+k)%4 != 0 {
				continue
			}
			if f.Options == nil {
				f.Options = &descriptorpb.FieldOptions{}
			}
			b := protowire.AppendTag(nil, protowire.Number(base+1), protowire.VarintType)
			b = protowire.AppendVarint(b, uint64(f.GetNumber()))
			b = protowire.AppendTag(b, protowire.Number(base+2), protowire.BytesType)
			b = protowire.AppendString(b, "run:"+f.GetName())
			addUnknown(f.Options, b)
			addUnknown(f.Options, zzOpt("zz_field_opt", int(f.GetNumber())%50, 1))
		}
		for i, o := range md.OneofDecl {
			if synthetic[int32(i)] {
				continue
			}
			if o.Options == nil {
				o.Options = &descriptorpb.OneofOptions{}
			}
			addUnknown(o.Options, zzOpt("zz_oneof_opt", k+i, 1))
		}
		for _, e := range md.EnumType {
			doEnum(e)
		}
		for _, n := range md.NestedType {
			walk(n)
		}
	}
	for _, md := range fd.MessageType {
		walk(md)
	}
	for _, e := range fd.EnumType {
		doEnum(e)
	}
	for i, sv := range fd.Service {
		if sv.Options == nil {
			sv.Options = &descriptorpb.ServiceOptions{}
		}
		addUnknown(sv.Options, zzOpt("zz_service_opt", i, 0))
		for j, m := range sv.Method {
			if m.Options == nil {
				m.Options = &descriptorpb.MethodOptions{}
			}
			addUnknown(m.Options, zzOpt("zz_method_opt", i+j, 1))
		}
	}
}

// pinnedEditionsFiles: closed enums in edition 2023 whose first value is not zero — once closed by an enum-level
// feature, once by the file-level default (with an enum re-opened at enum level) — used by singular
// explicit-presence fields without a default, with a default, repeated, in a oneof and as LEGACY_REQUIRED.
// The implicit default of such a field is the enum's FIRST value, not 0 (seeded change C41-2).
func (g *sgen) pinnedEditionsFiles() []*descriptorpb.FileDescriptorProto {
	scope := "." + pkgPlaceholder
	closedF := &descriptorpb.EnumOptions{Features: &descriptorpb.FeatureSet{EnumType: descriptorpb.FeatureSet_CLOSED.Enum()}}
	openF := &descriptorpb.EnumOptions{Features: &descriptorpb.FeatureSet{EnumType: descriptorpb.FeatureSet_OPEN.Enum()}}
	ev := func(n string, num int32) *descriptorpb.EnumValueDescriptorProto {
		return &descriptorpb.EnumValueDescriptorProto{Name: proto.String(n), Number: proto.Int32(num)}
	}
	msg := func(name, enum, nested string, first string, second string) *descriptorpb.DescriptorProto {
		ef := func(n string, num int32, tn string) *dpb {
			return &dpb{Name: proto.String(n), Number: proto.Int32(num), Label: tOptional(), Type: descriptorpb.FieldDescriptorProto_TYPE_ENUM.Enum(), TypeName: proto.String(tn), JsonName: proto.String(strs.JSONCamelCase(n))}
		}
		md := &descriptorpb.DescriptorProto{Name: proto.String(name), OneofDecl: []*descriptorpb.OneofDescriptorProto{{Name: proto.String("o")}}}
		e := ef("e", 1, scope+"."+enum)
		edef := ef("e_def", 2, scope+"."+enum)
		edef.DefaultValue = proto.String(second)
		re := ef("re", 3, scope+"."+enum)
		re.Label = tRepeated()
		oe := ef("oe", 4, scope+"."+enum)
		oe.OneofIndex = proto.Int32(0)
		oi := &dpb{Name: proto.String("oi"), Number: proto.Int32(5), Label: tOptional(), Type: descriptorpb.FieldDescriptorProto_TYPE_INT32.Enum(), JsonName: proto.String("oi"), OneofIndex: proto.Int32(0)}
		ereq := ef("e_req", 6, scope+"."+enum)
		ereq.Options = &descriptorpb.FieldOptions{Features: &descriptorpb.FeatureSet{FieldPresence: descriptorpb.FeatureSet_LEGACY_REQUIRED.Enum()}}
		en := ef("e_nested", 7, scope+"."+name+"."+nested)
		md.Field = []*dpb{e, edef, re, oe, oi, ereq, en}
		md.EnumType = []*descriptorpb.EnumDescriptorProto{{Name: proto.String(nested), Options: proto.Clone(closedF).(*descriptorpb.EnumOptions),
			Value: []*descriptorpb.EnumValueDescriptorProto{ev(strings.ToUpper(nested)+"_NINE", 9), ev(strings.ToUpper(nested)+"_ZERO", 0)}}}
		return md
	}
	f1 := &descriptorpb.FileDescriptorProto{
		Name: proto.String(g.prefix + "_pined.proto"), Package: proto.String(pkgPlaceholder), Syntax: proto.String("editions"), Edition: descriptorpb.Edition_EDITION_2023.Enum(),
		EnumType: []*descriptorpb.EnumDescriptorProto{
			{Name: proto.String("PinEdClosed"), Options: proto.Clone(closedF).(*descriptorpb.EnumOptions),
				Value: []*descriptorpb.EnumValueDescriptorProto{ev("PIN_ED_CLOSED_SEVEN", 7), ev("PIN_ED_CLOSED_ZERO", 0), ev("PIN_ED_CLOSED_NEG", -2)}},
			{Name: proto.String("PinEdOpen"), Value: []*descriptorpb.EnumValueDescriptorProto{ev("PIN_ED_OPEN_ZERO", 0), ev("PIN_ED_OPEN_ONE", 1)}},
		},
		MessageType: []*descriptorpb.DescriptorProto{msg("PinEdMsg", "PinEdClosed", "Inner", "PIN_ED_CLOSED_SEVEN", "PIN_ED_CLOSED_NEG")},
	}
	f1.MessageType[0].Field = append(f1.MessageType[0].Field, &dpb{Name: proto.String("e_open"), Number: proto.Int32(8), Label: tOptional(),
		Type: descriptorpb.FieldDescriptorProto_TYPE_ENUM.Enum(), TypeName: proto.String(scope + ".PinEdOpen"), JsonName: proto.String("eOpen")})
	f2 := &descriptorpb.FileDescriptorProto{
		Name: proto.String(g.prefix + "_pined2.proto"), Package: proto.String(pkgPlaceholder), Syntax: proto.String("editions"), Edition: descriptorpb.Edition_EDITION_2023.Enum(),
		Options: &descriptorpb.FileOptions{Features: &descriptorpb.FeatureSet{EnumType: descriptorpb.FeatureSet_CLOSED.Enum()}},
		EnumType: []*descriptorpb.EnumDescriptorProto{
			{Name: proto.String("PinEdFileClosed"), Value: []*descriptorpb.EnumValueDescriptorProto{ev("PIN_ED_FILE_CLOSED_NEG", -3), ev("PIN_ED_FILE_CLOSED_ZERO", 0), ev("PIN_ED_FILE_CLOSED_FIVE", 5)}},
			{Name: proto.String("PinEdReopened"), Options: proto.Clone(openF).(*descriptorpb.EnumOptions),
				Value: []*descriptorpb.EnumValueDescriptorProto{ev("PIN_ED_REOPENED_ZERO", 0), ev("PIN_ED_REOPENED_TWO", 2)}},
		},
		MessageType: []*descriptorpb.DescriptorProto{msg("PinEdMsg2", "PinEdFileClosed", "Inner", "PIN_ED_FILE_CLOSED_NEG", "PIN_ED_FILE_CLOSED_FIVE")},
	}
	f2.MessageType[0].Field = append(f2.MessageType[0].Field, &dpb{Name: proto.String("e_open"), Number: proto.Int32(8), Label: tOptional(),
		Type: descriptorpb.FieldDescriptorProto_TYPE_ENUM.Enum(), TypeName: proto.String(scope + ".PinEdReopened"), JsonName: proto.String("eOpen")})
	for _, f := range []*descriptorpb.FileDescriptorProto{f1, f2} {
		for _, m := range f.MessageType {
			g.claim(scope, m.GetName())
		}
		for _, e := range f.EnumType {
			g.claim(scope, e.GetName())
			for _, v := range e.Value {
				g.claim(scope, v.GetName())
			}
		}
	}
	return []*descriptorpb.FileDescriptorProto{f1, f2}
}

// camelGroups is a message with several DIFFERENT camelCase collision groups (`_foo`/`X_foo` -> XFoo, ...), each
// with one member inside the same oneof and one outside: resolveCamelCaseConflicts appends one `_<number>` suffix
// per group to the shared oneof name, so the names of the oneof's Has/Clear/Which methods record the order in which
// the groups were resolved (hybrid and opaque API).
func camelGroups(name string) *descriptorpb.DescriptorProto {
	md := &descriptorpb.DescriptorProto{Name: proto.String(name), OneofDecl: []*descriptorpb.OneofDescriptorProto{{Name: proto.String("u")}, {Name: proto.String("w")}}}
	add := func(n string, num int32, t descriptorpb.FieldDescriptorProto_Type, oneof int32) {
		f := &dpb{Name: proto.String(n), Number: proto.Int32(num), Label: tOptional(), Type: t.Enum(), JsonName: proto.String(strs.JSONCamelCase(n))}
		if oneof >= 0 {
			f.OneofIndex = proto.Int32(oneof)
		}
		md.Field = append(md.Field, f)
	}
	i32, str, bl := descriptorpb.FieldDescriptorProto_TYPE_INT32, descriptorpb.FieldDescriptorProto_TYPE_STRING, descriptorpb.FieldDescriptorProto_TYPE_BOOL
	add("_foo", 1, i32, 0)
	add("_bar", 2, str, 0)
	add("X_baz", 3, i32, 0)
	add("_qux", 4, bl, 0)
	add("plain_member", 5, i32, 0)
	add("X_foo", 6, i32, -1)
	add("X_bar", 7, str, -1)
	add("_baz", 8, i32, -1)
	add("X_qux", 9, bl, -1)
	add("_zip", 10, i32, 1)
	add("X_zap", 11, i32, 1)
	add("X_zip", 12, i32, -1)
	add("_zap", 13, i32, -1)
	return md
}

func pinNames() []*descriptorpb.DescriptorProto {
	mk := func(msg string, names []string, oneof string) *descriptorpb.DescriptorProto {
		md := &descriptorpb.DescriptorProto{Name: proto.String(msg)}
		for i, n := range names {
			t := descriptorpb.FieldDescriptorProto_TYPE_INT32
			if i%3 == 1 {
				t = descriptorpb.FieldDescriptorProto_TYPE_STRING
			}
			md.Field = append(md.Field, &dpb{Name: proto.String(n), Number: proto.Int32(int32(i + 1)), Label: tOptional(), Type: t.Enum(), JsonName: proto.String(strs.JSONCamelCase(n))})
		}
		if oneof != "" {
			md.OneofDecl = []*descriptorpb.OneofDescriptorProto{{Name: proto.String(oneof)}}
			for i, n := range []string{"oa", "ob"} {
				md.Field = append(md.Field, &dpb{Name: proto.String(n), Number: proto.Int32(int32(100 + i)), Label: tOptional(), Type: descriptorpb.FieldDescriptorProto_TYPE_BOOL.Enum(),
					JsonName: proto.String(n), OneofIndex: proto.Int32(0)})
			}
		}
		return md
	}
	// one message per mechanism, so that each resolution rule is needed by some message on its own
	return []*descriptorpb.DescriptorProto{
		mk("PinNames", []string{"reset", "string", "proto_message", "marshal", "unmarshal", "extension_range_array", "extension_map", "descriptor"}, ""),
		mk("PinBuild", []string{"build", "builder"}, ""),
		mk("PinSet", []string{"x", "set_x"}, ""),
		mk("PinGet", []string{"x", "get_x"}, ""),
		mk("PinHas", []string{"x", "has_x"}, ""),
		mk("PinClear", []string{"x", "clear_x"}, ""),
		mk("PinWhich", []string{"which_o"}, "o"),
		mk("PinHasO", []string{"has_o"}, "o"),
		mk("PinClearO", []string{"clear_o"}, "o"),
		mk("PinCamel", []string{"foo_bar", "FooBar_"}, ""),
		camelGroups("PinCamelGroups"),
	}
}

// file generates one file of the package.
func (g *sgen) file(syntax, suffix string, nmsgs int, deps []*descriptorpb.FileDescriptorProto, accept func(fd *descriptorpb.FileDescriptorProto, candidate string) bool) *descriptorpb.FileDescriptorProto {
	scope := "." + pkgPlaceholder
	fd := &descriptorpb.FileDescriptorProto{
		Name:    proto.String(g.prefix + "_" + suffix + ".proto"),
		Package: proto.String(pkgPlaceholder),
	}
	switch syntax {
	case "proto2":
		fd.Syntax = proto.String("proto2")
	case "proto3":
		fd.Syntax = proto.String("proto3")
	case "editions":
		g.edFileClosed = false
		fd.Syntax = proto.String("editions")
		fd.Edition = descriptorpb.Edition_EDITION_2023.Enum()
		fd.Dependency = append(fd.Dependency, "google/protobuf/go_features.proto")
		if g.r.Intn(2) == 0 {
			// file-level feature overrides
			fs := &descriptorpb.FeatureSet{}
			switch g.r.Intn(4) {
			case 0:
				fs.RepeatedFieldEncoding = descriptorpb.FeatureSet_EXPANDED.Enum()
			case 1:
				fs.JsonFormat = descriptorpb.FeatureSet_LEGACY_BEST_EFFORT.Enum()
			case 2:
				fs.Utf8Validation = descriptorpb.FeatureSet_NONE.Enum()
			case 3:
				fs.EnumType = descriptorpb.FeatureSet_CLOSED.Enum()
				g.edFileClosed = true
			}
			fd.Options = &descriptorpb.FileOptions{Features: fs}
			g.h("ed:file_features")
		}
	}
	for _, d := range deps {
		fd.Dependency = append(fd.Dependency, d.GetName())
	}
	if g.r.Intn(10) == 0 {
		if fd.Options == nil {
			fd.Options = &descriptorpb.FileOptions{}
		}
		fd.Options.Deprecated = proto.Bool(true)
	}
	if syntax == "proto2" {
		g.customOptions(fd)
	}
	usedExt := map[string]map[int32]bool{}
	// accept() may veto a declaration (steering away from the known-uncompilable classes): roll back and retry
	try := func(what string, build func(fd *descriptorpb.FileDescriptorProto) string) {
		for attempt := 0; attempt < 8; attempt++ {
			saveMsgs, saveEnums, saveSeq := len(g.msgs), len(g.enums), g.seq
			saveScope := cloneScope(g.scope)
			backup := proto.Clone(fd)
			name := build(fd)
			if accept == nil || accept(fd, name) {
				return
			}
			proto.Reset(fd)
			proto.Merge(fd, backup)
			g.msgs, g.enums, g.seq, g.scope = g.msgs[:saveMsgs], g.enums[:saveEnums], saveSeq+100, saveScope
			g.relink(fd)
			g.h("steered_away:" + what)
		}
	}
	// enums first
	ne := 1 + g.r.Intn(2)
	for i := 0; i < ne; i++ {
		try("enum", func(fd *descriptorpb.FileDescriptorProto) string {
			n := g.freshName(scope, func() string { return g.pick([]string{"", "", "Kind", "Enum", "type", "Status_Code"}) }, "E")
			g.enum(syntax, scope, n, nil, fd)
			return n
		})
	}
	{
		// camelCase collision groups sharing a oneof (C40: order of the suffixes on the oneof's method names)
		n := g.freshName(scope, func() string { return "" }, "Camel")
		md := camelGroups(n)
		fd.MessageType = append(fd.MessageType, md)
		g.msgs = append(g.msgs, &msgRef{full: scope + "." + n, syntax: syntax, d: md, noExt: true})
		g.h("motif:camel_groups")
	}
	if syntax != "proto3" {
		if g.r.Intn(2) == 0 {
			g.motifCycleRequired(syntax, fd)
		}
		if g.r.Intn(2) == 0 {
			g.motifMapRequired(syntax, fd)
		}
	}
	for i := 0; i < nmsgs; i++ {
		try("message", func(fd *descriptorpb.FileDescriptorProto) string {
			n := g.freshName(scope, func() string {
				if g.r.Intn(3) != 0 {
					return ""
				}
				return g.pick(advMsgNames)
			}, "M")
			g.message(syntax, scope, n, 0, 1+g.r.Intn(7), nil, fd)
			return n
		})
	}
	if syntax != "proto3" {
		nx := g.r.Intn(5)
		for i := 0; i < nx; i++ {
			try("extension", func(fd *descriptorpb.FileDescriptorProto) string {
				if g.r.Intn(2) == 0 && len(fd.MessageType) > 0 {
					// nested extension: declared inside some top-level message of this file
					md := fd.MessageType[g.r.Intn(len(fd.MessageType))]
					g.extension(syntax, scope+"."+md.GetName(), md, nil, usedExt)
					return md.GetName()
				}
				g.extension(syntax, scope, nil, fd, usedExt)
				return ""
			})
		}
	}
	if g.r.Intn(3) == 0 && len(g.msgs) > 0 {
		sn := g.freshName(scope, func() string { return "" }, "Svc")
		svc := &descriptorpb.ServiceDescriptorProto{Name: proto.String(sn)}
		for i := 0; i < 1+g.r.Intn(2); i++ {
			in, out := g.msgs[g.r.Intn(len(g.msgs))], g.msgs[g.r.Intn(len(g.msgs))]
			svc.Method = append(svc.Method, &descriptorpb.MethodDescriptorProto{
				Name: proto.String(fmt.Sprintf("Call%d", i)), InputType: proto.String(in.full), OutputType: proto.String(out.full),
				ClientStreaming: proto.Bool(g.r.Intn(2) == 0), ServerStreaming: proto.Bool(g.r.Intn(2) == 0)})
		}
		fd.Service = append(fd.Service, svc)
		g.h("service")
	}
	return fd
}

func cloneScope(s map[string]map[string]bool) map[string]map[string]bool {
	out := make(map[string]map[string]bool, len(s))
	for k, v := range s {
		m := make(map[string]bool, len(v))
		for a, b := range v {
			m[a] = b
		}
		out[k] = m
	}
	return out
}

// relink re-points the msgRef/enumRef descriptors of this file at the (cloned) file fd, so that nested
// declarations and extension ranges are looked up in the copy that is being extended.
func (g *sgen) relink(fd *descriptorpb.FileDescriptorProto) {
	byName := map[string]*descriptorpb.DescriptorProto{}
	var walk func(prefix string, mds []*descriptorpb.DescriptorProto)
	walk = func(prefix string, mds []*descriptorpb.DescriptorProto) {
		for _, md := range mds {
			full := prefix + "." + md.GetName()
			byName[full] = md
			walk(full, md.NestedType)
		}
	}
	walk("."+pkgPlaceholder, fd.MessageType)
	for _, m := range g.msgs {
		if md, ok := byName[m.full]; ok {
			m.d = md
		}
	}
}

// sortedKeys is a helper for deterministic iteration.
func sortedKeys[V any](m map[string]V) []string {
	ks := make([]string, 0, len(m))
	for k := range m {
		ks = append(ks, k)
	}
	sort.Strings(ks)
	return ks
}

// instantiate rewrites placeholder package, file names and go_package for one concrete instance.
func instantiate(fd *descriptorpb.FileDescriptorProto, protoPkg, goImport, goPkg string, rename func(string) string, optBase int32) *descriptorpb.FileDescriptorProto {
	out := proto.Clone(fd).(*descriptorpb.FileDescriptorProto)
	applyCustomOptions(out, optBase)
	out.Name = proto.String(rename(out.GetName()))
	for i, d := range out.Dependency {
		out.Dependency[i] = rename(d)
	}
	out.Package = proto.String(protoPkg)
	if out.Options == nil {
		out.Options = &descriptorpb.FileOptions{}
	}
	out.Options.GoPackage = proto.String(goImport + ";" + goPkg)
	fix := func(s *string) {
		if s != nil && strings.HasPrefix(*s, "."+pkgPlaceholder+".") {
			*s = "." + protoPkg + strings.TrimPrefix(*s, "."+pkgPlaceholder)
		}
	}
	var walk func(md *descriptorpb.DescriptorProto)
	fixField := func(f *dpb) {
		fix(f.TypeName)
		fix(f.Extendee)
	}
	walk = func(md *descriptorpb.DescriptorProto) {
		for _, f := range md.Field {
			fixField(f)
		}
		for _, f := range md.Extension {
			fixField(f)
		}
		for _, n := range md.NestedType {
			walk(n)
		}
	}
	for _, md := range out.MessageType {
		walk(md)
	}
	for _, f := range out.Extension {
		fixField(f)
	}
	for _, s := range out.Service {
		for _, m := range s.Method {
			fix(m.InputType)
			fix(m.OutputType)
		}
	}
	return out
}

// validate runs protodesc.NewFile over the instantiated files (in dependency order) and returns the registry.
func validate(files []*descriptorpb.FileDescriptorProto) (*protoregistry.Files, error) {
	reg := &protoregistry.Files{}
	// well-known dependencies come from the linked registry
	for _, fd := range files {
		for _, dep := range fd.Dependency {
			if _, err := reg.FindFileByPath(dep); err == nil {
				continue
			}
			if d, err := protoregistry.GlobalFiles.FindFileByPath(dep); err == nil {
				registerWithDeps(reg, d)
			}
		}
		f, err := protodesc.NewFile(fd, reg)
		if err != nil {
			return nil, fmt.Errorf("%s: %v", fd.GetName(), err)
		}
		if err := reg.RegisterFile(f); err != nil {
			return nil, err
		}
	}
	return reg, nil
}

func registerWithDeps(reg *protoregistry.Files, d protoreflect.FileDescriptor) {
	if _, err := reg.FindFileByPath(d.Path()); err == nil {
		return
	}
	imps := d.Imports()
	for i := 0; i < imps.Len(); i++ {
		registerWithDeps(reg, imps.Get(i).FileDescriptor)
	}
	reg.RegisterFile(d)
}
