package main

// The generated accessor methods (Get/Set/Has/Clear — the part of the generated code that protoreflect does
// not go through) are called with package reflect under the names protogen announces, and compared with the
// protoreflect view of the same message and with a dynamicpb message that receives the same operations.

import (
	"bytes"
	"fmt"
	"math"
	"math/rand"
	"reflect"
	"strconv"

	"google.golang.org/protobuf/encoding/protowire"
	"google.golang.org/protobuf/proto"
	"google.golang.org/protobuf/reflect/protoreflect"
	"google.golang.org/protobuf/types/dynamicpb"
)

// sigNegZeroDefault: float/double field whose declared default is -0, field unset, generated getter returns +0.
const sigNegZeroDefault = "float-default-negative-zero"

func canonPR(fd protoreflect.FieldDescriptor, v protoreflect.Value) string {
	switch fd.Kind() {
	case protoreflect.MessageKind, protoreflect.GroupKind:
		if !v.Message().IsValid() {
			return "nil"
		}
		return Snap(v.Message())
	case protoreflect.StringKind:
		return "s" + hx([]byte(v.String()))
	case protoreflect.BytesKind:
		return "s" + hx(v.Bytes())
	default:
		return "n" + strconv.FormatUint(canonNum(fd, v), 10)
	}
}

func canonGo(fd protoreflect.FieldDescriptor, rv reflect.Value) string {
	switch fd.Kind() {
	case protoreflect.MessageKind, protoreflect.GroupKind:
		if rv.Kind() == reflect.Pointer && rv.IsNil() {
			return "nil"
		}
		m, ok := rv.Interface().(proto.Message)
		if !ok {
			return "?not-a-message"
		}
		return Snap(m.ProtoReflect())
	case protoreflect.StringKind:
		return "s" + hx([]byte(rv.String()))
	case protoreflect.BytesKind:
		return "s" + hx(rv.Bytes())
	case protoreflect.BoolKind:
		if rv.Bool() {
			return "n1"
		}
		return "n0"
	case protoreflect.FloatKind:
		return "n" + strconv.FormatUint(uint64(math.Float32bits(float32(rv.Float()))), 10)
	case protoreflect.DoubleKind:
		return "n" + strconv.FormatUint(math.Float64bits(rv.Float()), 10)
	case protoreflect.Uint32Kind, protoreflect.Fixed32Kind, protoreflect.Uint64Kind, protoreflect.Fixed64Kind:
		return "n" + strconv.FormatUint(rv.Uint(), 10)
	default:
		return "n" + strconv.FormatUint(uint64(rv.Int()), 10)
	}
}

// toGo converts a protoreflect singular value into a reflect.Value assignable to type pt.
func toGo(fd protoreflect.FieldDescriptor, v protoreflect.Value, pt reflect.Type) reflect.Value {
	switch fd.Kind() {
	case protoreflect.MessageKind, protoreflect.GroupKind:
		return reflect.ValueOf(v.Message().Interface())
	case protoreflect.BytesKind:
		return reflect.ValueOf(v.Bytes())
	default:
		return reflect.ValueOf(v.Interface()).Convert(pt)
	}
}

func accessors(lv *levelCtx, md protoreflect.MessageDescriptor, gm, dm protoreflect.Message, r *rand.Rand) {
	names, ok := lv.Level.Names[string(md.FullName())]
	if !ok {
		return
	}
	curStream = "accessors"
	defer func() { curStream = "-" }()
	g2 := proto.Clone(gm.Interface()).ProtoReflect()
	d2 := proto.Clone(dm.Interface()).ProtoReflect()
	rv := reflect.ValueOf(g2.Interface())
	fs := md.Fields()
	bad := func(what string, fd protoreflect.FieldDescriptor, detail string) {
		b, _ := det.Marshal(gm.Interface())
		fail(lv, what, "", md, b, fmt.Sprintf("field %s (%d) level %s: %s", fd.Name(), fd.Number(), names.API, detail))
	}
	method := func(fd protoreflect.FieldDescriptor, n string) reflect.Value {
		if n == "" {
			return reflect.Value{}
		}
		m := rv.MethodByName(n)
		if !m.IsValid() {
			bad("generated type lacks the accessor method protogen announces", fd, n)
		}
		return m
	}
	order := r.Perm(fs.Len())
	for _, i := range order {
		fd := fs.Get(i) // descriptor of the dynamic side (the input schema)
		gfd := g2.Descriptor().Fields().ByNumber(fd.Number())
		fn, ok := names.Fields[strconv.Itoa(int(fd.Number()))]
		if !ok || gfd == nil {
			continue
		}
		out.Evals++
		// --- read side
		if get := method(fd, fn.Get); get.IsValid() && get.Type().NumIn() == 0 && get.Type().NumOut() == 1 {
			res := get.Call(nil)[0]
			want := g2.Get(gfd)
			switch {
			case fd.IsMap():
				if res.Len() != want.Map().Len() {
					bad("generated getter returns a map of different size than protoreflect", fd, fmt.Sprint(res.Len(), " vs ", want.Map().Len()))
				} else {
					it := res.MapRange()
					for it.Next() {
						k := protoreflect.ValueOf(normKey(it.Key())).MapKey()
						if !want.Map().Has(k) || canonGo(fd.MapValue(), it.Value()) != canonPR(fd.MapValue(), want.Map().Get(k)) {
							bad("generated getter returns a different map entry than protoreflect", fd, fmt.Sprint(it.Key()))
						}
					}
				}
			case fd.IsList():
				if res.Len() != want.List().Len() {
					bad("generated getter returns a list of different length than protoreflect", fd, fmt.Sprint(res.Len(), " vs ", want.List().Len()))
				} else {
					for j := 0; j < res.Len(); j++ {
						if canonGo(fd, res.Index(j)) != canonPR(fd, want.List().Get(j)) {
							bad("generated getter returns a different list element than protoreflect", fd, fmt.Sprint(j))
						}
					}
				}
			default:
				a, b := canonGo(fd, res), canonPR(fd, want)
				if fd.Message() != nil && !g2.Has(gfd) {
					b = "nil"
				}
				if a != b {
					// known on the unchanged tree: `[default = -0]` is emitted as the Go constant float64(-0), which is +0
					if k := fd.Kind(); (k == protoreflect.FloatKind || k == protoreflect.DoubleKind) && fd.HasDefault() && !g2.Has(gfd) &&
						fd.Default().Float() == 0 && math.Signbit(fd.Default().Float()) && a == "n0" {
						bg, _ := det.Marshal(gm.Interface())
						fail(lv, "generated getter of an unset float/double field with default -0 returns +0", sigNegZeroDefault, md, bg, fmt.Sprintf("field %s (%d): getter bits %s, descriptor default bits %s", fd.Name(), fd.Number(), a, b))
					} else {
						bad("generated getter disagrees with protoreflect Get", fd, a+" vs "+b)
					}
				}
			}
			hist("accessor:get")
		}
		if has := method(fd, fn.Has); has.IsValid() && has.Type().NumIn() == 0 {
			if has.Call(nil)[0].Bool() != g2.Has(gfd) {
				bad("generated Has method disagrees with protoreflect Has", fd, fn.Has)
			}
			hist("accessor:has")
		}
		// --- write side
		if set := method(fd, fn.Set); set.IsValid() && set.Type().NumIn() == 1 && r.Intn(2) == 0 {
			pt := set.Type().In(0)
			var dv protoreflect.Value // value given to the dynamic message
			var arg reflect.Value
			switch {
			case fd.IsMap():
				arg = reflect.MakeMap(pt)
				dmp := d2.NewField(fd)
				for k := r.Intn(3); k > 0; k-- {
					key := scalar(r, fd.MapKey(), Opts{})
					var gv, dvv protoreflect.Value
					if fd.MapValue().Message() != nil {
						gv = g2.NewField(gfd).Map().NewValue()
						dvv = dmp.Map().NewValue()
						seed := r.Int63()
						fill(rand.New(rand.NewSource(seed)), gv.Message(), 2, Opts{MaxDepth: 3}, nil)
						fill(rand.New(rand.NewSource(seed)), dvv.Message(), 2, Opts{MaxDepth: 3}, nil)
					} else {
						gv = scalar(r, fd.MapValue(), Opts{})
						dvv = gv
					}
					arg.SetMapIndex(toGo(fd.MapKey(), key, pt.Key()), toGo(fd.MapValue(), gv, pt.Elem()))
					dmp.Map().Set(key.MapKey(), dvv)
				}
				dv = dmp
			case fd.IsList():
				n := r.Intn(3)
				arg = reflect.MakeSlice(pt, 0, n)
				dl := d2.NewField(fd)
				for k := 0; k < n; k++ {
					var gv, dvv protoreflect.Value
					if fd.Message() != nil {
						gv = g2.NewField(gfd).List().NewElement()
						dvv = dl.List().NewElement()
						seed := r.Int63()
						fill(rand.New(rand.NewSource(seed)), gv.Message(), 2, Opts{MaxDepth: 3}, nil)
						fill(rand.New(rand.NewSource(seed)), dvv.Message(), 2, Opts{MaxDepth: 3}, nil)
					} else {
						gv = scalar(r, fd, Opts{})
						dvv = gv
					}
					arg = reflect.Append(arg, toGo(fd, gv, pt.Elem()))
					dl.List().Append(dvv)
				}
				dv = dl
			case fd.Message() != nil:
				gv, dvv := g2.NewField(gfd), d2.NewField(fd)
				seed := r.Int63()
				fill(rand.New(rand.NewSource(seed)), gv.Message(), 2, Opts{MaxDepth: 3}, nil)
				fill(rand.New(rand.NewSource(seed)), dvv.Message(), 2, Opts{MaxDepth: 3}, nil)
				arg, dv = toGo(fd, gv, pt), dvv
			default:
				v := scalar(r, fd, Opts{})
				arg, dv = toGo(fd, v, pt), v
			}
			set.Call([]reflect.Value{arg})
			d2.Set(fd, dv)
			if g2.Has(gfd) != d2.Has(fd) {
				bad("after the generated setter, protoreflect Has differs from dynamicpb after Set", fd, fmt.Sprint(g2.Has(gfd), " vs ", d2.Has(fd)))
			}
			if has := method(fd, fn.Has); has.IsValid() && has.Call(nil)[0].Bool() != d2.Has(fd) {
				bad("after the generated setter, the generated Has method differs from dynamicpb", fd, fn.Has)
			}
			hist("accessor:set")
		} else if clr := method(fd, fn.Clear); clr.IsValid() && r.Intn(3) == 0 {
			clr.Call(nil)
			d2.Clear(fd)
			if g2.Has(gfd) {
				bad("field still present after the generated Clear method", fd, fn.Clear)
			}
			hist("accessor:clear")
		}
	}
	if a, b := Snap(g2), Snap(d2); a != b {
		bg, _ := det.Marshal(gm.Interface())
		fail(lv, "generated accessors (Set/Clear) and dynamicpb (protoreflect Set/Clear) produce different messages", "", md, bg, "generated "+a+" dynamicpb "+b)
		return
	}
	b1, _ := det.Marshal(g2.Interface())
	b2, _ := det.Marshal(d2.Interface())
	if !bytes.Equal(b1, b2) {
		fail(lv, "after accessor calls the generated message marshals differently from dynamicpb", "", md, b1, fmt.Sprintf("%x vs %x", b1, b2))
	}
}

// normKey maps a Go map key of a generated map (possibly a named type) to the plain Go type protoreflect uses.
func normKey(k reflect.Value) any {
	switch k.Kind() {
	case reflect.Bool:
		return k.Bool()
	case reflect.Int32:
		return int32(k.Int())
	case reflect.Int64:
		return k.Int()
	case reflect.Uint32:
		return uint32(k.Uint())
	case reflect.Uint64:
		return k.Uint()
	default:
		return k.String()
	}
}

// emptyAccessors calls every generated getter (and Has method) on a NEW message and on a message unmarshalled from
// an encoding that carries none of its fields, and compares with dynamicpb's Get/Has of a new message — the
// defaults of the schema, e.g. the first value of a closed enum whose first value is not zero.
func emptyAccessors(lv *levelCtx, md protoreflect.MessageDescriptor) {
	names, ok := lv.Level.Names[string(md.FullName())]
	gt := lv.genType(md)
	if !ok || gt == nil {
		return
	}
	curStream = "empty-accessors"
	defer func() {
		curStream = "-"
		if e := recover(); e != nil {
			fail(lv, "panic while calling generated accessors on an empty message", "", md, nil, fmt.Sprint(e))
		}
	}()
	dm := dynamicpb.NewMessageType(md).New()
	// an encoding without any declared field: one unknown varint field
	unk := protowire.AppendVarint(protowire.AppendTag(nil, 536870000, protowire.VarintType), 1)
	fresh := gt.New()
	decoded := gt.New()
	if err := (proto.UnmarshalOptions{AllowPartial: true}).Unmarshal(unk, decoded.Interface()); err != nil {
		fail(lv, "generated type rejects an encoding that carries only an unknown field", "", md, unk, err.Error())
		return
	}
	for which, gm := range map[string]protoreflect.Message{"new message": fresh, "message unmarshalled without the field": decoded} {
		rv := reflect.ValueOf(gm.Interface())
		fs := md.Fields()
		for i := 0; i < fs.Len(); i++ {
			fd := fs.Get(i)
			fn, ok := names.Fields[strconv.Itoa(int(fd.Number()))]
			if !ok {
				continue
			}
			out.Evals++
			if fn.Get != "" {
				if get := rv.MethodByName(fn.Get); get.IsValid() && get.Type().NumIn() == 0 && get.Type().NumOut() == 1 {
					res := get.Call(nil)[0]
					switch {
					case fd.IsMap(), fd.IsList():
						if res.Len() != 0 {
							fail(lv, "generated getter of an unset repeated/map field is not empty ("+which+")", "", md, nil, string(fd.Name()))
						}
					case fd.Message() != nil:
						if !(res.Kind() == reflect.Pointer && res.IsNil()) {
							fail(lv, "generated getter of an unset message field is not nil ("+which+")", "", md, nil, string(fd.Name()))
						}
					default:
						a, b := canonGo(fd, res), canonPR(fd, dm.Get(fd))
						if a != b {
							sig := ""
							if k := fd.Kind(); (k == protoreflect.FloatKind || k == protoreflect.DoubleKind) && fd.HasDefault() &&
								fd.Default().Float() == 0 && math.Signbit(fd.Default().Float()) && a == "n0" {
								sig = sigNegZeroDefault
							}
							fail(lv, "generated getter of an unset field differs from the schema default as dynamicpb reports it ("+which+")", sig, md, nil,
								fmt.Sprintf("field %s (%d) level %s: getter %s, dynamicpb default %s", fd.Name(), fd.Number(), names.API, a, b))
						}
					}
					hist("accessor:get-on-empty")
				}
			}
			if fn.Has != "" {
				if has := rv.MethodByName(fn.Has); has.IsValid() && has.Type().NumIn() == 0 && has.Call(nil)[0].Bool() {
					fail(lv, "generated Has method reports an unset field as present ("+which+")", "", md, nil, string(fd.Name()))
				}
			}
		}
	}
}
