// Command cmp is the comparison program of check C41.  It is compiled (go build -overlay) together with
// three freshly generated Go packages — one schema at API_OPEN, API_HYBRID and API_OPAQUE — and compares, for
// every message type, the generated implementation with dynamicpb over the *input* descriptor.
//
//	cmp <input.json> <output.json>
//
// The program does not import the harness runtime; fill and Snap are copies of /verif/go/harness/msg.
package main

import (
	"bytes"
	"encoding/hex"
	"encoding/json"
	"fmt"
	"math/rand"
	"os"
	"sort"
	"strings"

	"google.golang.org/protobuf/encoding/protojson"
	"google.golang.org/protobuf/encoding/prototext"
	"google.golang.org/protobuf/encoding/protowire"
	"google.golang.org/protobuf/proto"
	"google.golang.org/protobuf/reflect/protodesc"
	"google.golang.org/protobuf/reflect/protoreflect"
	"google.golang.org/protobuf/reflect/protoregistry"
	"google.golang.org/protobuf/types/descriptorpb"
	"google.golang.org/protobuf/types/dynamicpb"
)

type FieldNames struct {
	Get, Set, Has, Clear string
	GoName               string
	Builder              string
}

type MsgNames struct {
	API    string                `json:"api"` // API_OPEN | API_HYBRID | API_OPAQUE (effective level of the message)
	GoName string                `json:"go_name"`
	Fields map[string]FieldNames `json:"fields"` // by field number
}

type Level struct {
	Level string              `json:"level"`
	Pkg   string              `json:"pkg"`
	FDS   string              `json:"fds"`   // hex FileDescriptorSet: dependencies first
	Files []string            `json:"files"` // the files whose generated code is under test
	Names map[string]MsgNames `json:"names"` // by message full name
}

type Case struct {
	Msg   string `json:"msg"` // full name with the placeholder package
	Bytes string `json:"bytes"`
}

type Input struct {
	Seed   int64   `json:"seed"`
	N      int     `json:"n"`
	Levels []Level `json:"levels"`
	Cases  []Case  `json:"cases"`
}

type Failure struct {
	What   string `json:"what"`
	Sig    string `json:"sig"`
	Level  string `json:"level"`
	Msg    string `json:"msg"`   // placeholder-package full name
	Bytes  string `json:"bytes"` // hex input, when the failure is about one encoding
	Detail string `json:"detail"`
}

type Output struct {
	Failures []Failure      `json:"failures"`
	Hist     map[string]int `json:"hist"`
	Evals    int            `json:"evals"`
	Keys     []string       `json:"keys"` // distinct non-trivial case keys (hashes)
	Samples  []any          `json:"samples"`
}

var out = Output{Hist: map[string]int{}}
var perWhat = map[string]int{}

func hist(k string) { out.Hist[k]++ }

// curStream names the input stream of the comparison in progress (evidence: which generator finds what)
var curStream = "-"

func fail(lv *levelCtx, what, sig string, md protoreflect.MessageDescriptor, b []byte, detail string) {
	hist("FAIL:" + what)
	if sig != "" {
		pinned := ""
		if md != nil && strings.Contains(string(md.FullName()), ".Pin") {
			pinned = ":pinned-schema"
		}
		hist("found:" + sig + ":by-" + curStream + pinned)
	}
	k := what + "|" + sig + "|" + lv.Level.Level
	if perWhat[k] >= 3 {
		return
	}
	perWhat[k]++
	name := ""
	if md != nil {
		name = lv.placeholder(string(md.FullName()))
	}
	if len(detail) > 600 {
		detail = detail[:600] + "…"
	}
	out.Failures = append(out.Failures, Failure{What: what, Sig: sig, Level: lv.Level.Level, Msg: name, Bytes: hex.EncodeToString(b), Detail: detail})
}

type levelCtx struct {
	Level  Level
	files  *protoregistry.Files
	dtypes *protoregistry.Types // dynamic extension types
	msgs   []protoreflect.MessageDescriptor
	exts   []protoreflect.ExtensionType // dynamic
	cyclic map[protoreflect.FullName]bool
}

func (lv *levelCtx) placeholder(full string) string {
	return "zzpkg" + strings.TrimPrefix(full, lv.Level.Pkg)
}

func main() {
	data, err := os.ReadFile(os.Args[1])
	if err != nil {
		panic(err)
	}
	var in Input
	if err := json.Unmarshal(data, &in); err != nil {
		panic(err)
	}
	var lvs []*levelCtx
	for _, l := range in.Levels {
		lv := setup(l)
		if lv != nil {
			lvs = append(lvs, lv)
		}
	}
	for _, lv := range lvs {
		checkDescriptors(lv)
		for _, md := range lv.msgs {
			checkStructTags(lv, md)
			emptyAccessors(lv, md)
		}
	}
	// explicit cases first (pinned findings, replays)
	for _, cs := range in.Cases {
		b, _ := hex.DecodeString(cs.Bytes)
		for _, lv := range lvs {
			full := lv.Level.Pkg + strings.TrimPrefix(cs.Msg, "zzpkg")
			d, err := lv.files.FindDescriptorByName(protoreflect.FullName(full))
			if err != nil {
				continue
			}
			compareBytes(lv, d.(protoreflect.MessageDescriptor), b, "explicit")
		}
	}
	// cross-level agreement: same seed => same content => same deterministic bytes
	cross := map[string]map[string]string{}
	for _, lv := range lvs {
		for mi, md := range lv.msgs {
			r := rand.New(rand.NewSource(in.Seed*1000003 + int64(mi)))
			runMessage(lv, md, r, in.N, func(i int, b []byte) {
				k := fmt.Sprintf("%s#%d", lv.placeholder(string(md.FullName())), i)
				if cross[k] == nil {
					cross[k] = map[string]string{}
				}
				cross[k][lv.Level.Level] = hex.EncodeToString(b)
			})
		}
	}
	for _, k := range sortedKeys(cross) {
		m := cross[k]
		var first, fl string
		for _, l := range sortedKeys(m) {
			if fl == "" {
				first, fl = m[l], l
			} else if m[l] != first {
				hist("FAIL:cross-level")
				out.Failures = append(out.Failures, Failure{What: "the same content has different deterministic bytes at two API levels", Level: fl + "/" + l, Msg: k, Bytes: first, Detail: m[l]})
			}
		}
	}
	sort.Strings(out.Keys)
	res, _ := json.Marshal(&out)
	if err := os.WriteFile(os.Args[2], res, 0o644); err != nil {
		panic(err)
	}
}

func sortedKeys[V any](m map[string]V) []string {
	ks := make([]string, 0, len(m))
	for k := range m {
		ks = append(ks, k)
	}
	sort.Strings(ks)
	return ks
}

func setup(l Level) *levelCtx {
	lv := &levelCtx{Level: l, dtypes: &protoregistry.Types{}, cyclic: map[protoreflect.FullName]bool{}}
	raw, _ := hex.DecodeString(l.FDS)
	fds := &descriptorpb.FileDescriptorSet{}
	if err := proto.Unmarshal(raw, fds); err != nil {
		panic(err)
	}
	files, err := protodesc.NewFiles(fds)
	if err != nil {
		panic("input descriptors rejected by protodesc: " + err.Error())
	}
	lv.files = files
	for _, name := range l.Files {
		fd, err := files.FindFileByPath(name)
		if err != nil {
			panic(err)
		}
		var walk func(mds protoreflect.MessageDescriptors)
		addExts := func(xds protoreflect.ExtensionDescriptors) {
			for i := 0; i < xds.Len(); i++ {
				xt := dynamicpb.NewExtensionType(xds.Get(i))
				lv.dtypes.RegisterExtension(xt)
				lv.exts = append(lv.exts, xt)
			}
		}
		walk = func(mds protoreflect.MessageDescriptors) {
			for i := 0; i < mds.Len(); i++ {
				md := mds.Get(i)
				if md.IsMapEntry() {
					continue
				}
				lv.msgs = append(lv.msgs, md)
				lv.dtypes.RegisterMessage(dynamicpb.NewMessageType(md))
				addExts(md.Extensions())
				walk(md.Messages())
			}
		}
		walk(fd.Messages())
		addExts(fd.Extensions())
	}
	// which messages lie on a descriptor cycle
	for _, md := range lv.msgs {
		seen := map[protoreflect.FullName]bool{}
		var reach func(x protoreflect.MessageDescriptor) bool
		reach = func(x protoreflect.MessageDescriptor) bool {
			fs := x.Fields()
			for i := 0; i < fs.Len(); i++ {
				sub := fs.Get(i).Message()
				if sub == nil {
					continue
				}
				if fs.Get(i).IsMap() {
					sub = fs.Get(i).MapValue().Message()
					if sub == nil {
						continue
					}
				}
				if sub.FullName() == md.FullName() {
					return true
				}
				if !seen[sub.FullName()] {
					seen[sub.FullName()] = true
					if reach(sub) {
						return true
					}
				}
			}
			return false
		}
		lv.cyclic[md.FullName()] = reach(md)
	}
	return lv
}

// ---------------------------------------------------------------- (i) registered descriptors

// stripSourceRetention is an independent rendering of "minus source-retention options": every populated field
// (or extension) of an options message, at any depth, whose own FieldOptions say retention = RETENTION_SOURCE.
func stripSourceRetention(m protoreflect.Message) {
	m.Range(func(fd protoreflect.FieldDescriptor, v protoreflect.Value) bool {
		if o, ok := fd.Options().(*descriptorpb.FieldOptions); ok && o.GetRetention() == descriptorpb.FieldOptions_RETENTION_SOURCE {
			m.Clear(fd)
			return true
		}
		switch {
		case fd.IsMap():
			if fd.MapValue().Message() != nil {
				v.Map().Range(func(_ protoreflect.MapKey, e protoreflect.Value) bool {
					stripSourceRetention(e.Message())
					return true
				})
			}
		case fd.IsList():
			if fd.Message() != nil {
				for i := 0; i < v.List().Len(); i++ {
					stripSourceRetention(v.List().Get(i).Message())
				}
			}
		case fd.Message() != nil:
			stripSourceRetention(v.Message())
		}
		return true
	})
}

func countSourceRetention(m protoreflect.Message) int {
	n := 0
	m.Range(func(fd protoreflect.FieldDescriptor, v protoreflect.Value) bool {
		if o, ok := fd.Options().(*descriptorpb.FieldOptions); ok && o.GetRetention() == descriptorpb.FieldOptions_RETENTION_SOURCE {
			n++
			return true
		}
		switch {
		case fd.IsMap():
		case fd.IsList():
			if fd.Message() != nil {
				for i := 0; i < v.List().Len(); i++ {
					n += countSourceRetention(v.List().Get(i).Message())
				}
			}
		case fd.Message() != nil:
			n += countSourceRetention(v.Message())
		}
		return true
	})
	return n
}

func checkDescriptors(lv *levelCtx) {
	for _, name := range lv.Level.Files {
		want0, _ := lv.files.FindFileByPath(name)
		// both sides are brought into one representation: custom options arrive as unknown fields and are
		// resolved here against the option extensions declared by the input itself
		renorm := func(p *descriptorpb.FileDescriptorProto) *descriptorpb.FileDescriptorProto {
			b, err := proto.MarshalOptions{Deterministic: true}.Marshal(p)
			q := &descriptorpb.FileDescriptorProto{}
			if err != nil || (proto.UnmarshalOptions{Resolver: lv.dtypes}).Unmarshal(b, q) != nil {
				return p
			}
			return q
		}
		want := renorm(protodesc.ToFileDescriptorProto(want0))
		want.SourceCodeInfo = nil
		nsrc := countSourceRetention(want.ProtoReflect())
		stripSourceRetention(want.ProtoReflect())
		got0, err := protoregistry.GlobalFiles.FindFileByPath(name)
		out.Evals++
		if err != nil {
			fail(lv, "generated package does not register its file descriptor", "", nil, nil, name+": "+err.Error())
			continue
		}
		got := renorm(protodesc.ToFileDescriptorProto(got0))
		if !proto.Equal(got, want) {
			fail(lv, "registered file descriptor differs from the input (minus source info / source-retention options)", "", nil, nil,
				name+": "+diffText(prototext.MarshalOptions{Multiline: true, Resolver: lv.dtypes}.Format(got), prototext.MarshalOptions{Multiline: true, Resolver: lv.dtypes}.Format(want)))
		}
		if nsrc > 0 {
			hist("descriptor-source-retention-options-stripped")
			out.Hist["source-retention-option-values"] += nsrc
		}
		hist("descriptor-equal")
	}
	// every message and enum and extension is registered with the right descriptor name, Go type resolves
	for _, md := range lv.msgs {
		mt, err := protoregistry.GlobalTypes.FindMessageByName(md.FullName())
		out.Evals++
		if err != nil {
			fail(lv, "generated message type not registered", "", md, nil, err.Error())
			continue
		}
		if mt.Descriptor().FullName() != md.FullName() || mt.Descriptor().Fields().Len() != md.Fields().Len() {
			fail(lv, "generated message type has a different descriptor", "", md, nil, "")
		}
	}
	for _, xt := range lv.exts {
		out.Evals++
		gt, err := protoregistry.GlobalTypes.FindExtensionByName(xt.TypeDescriptor().FullName())
		if err != nil {
			fail(lv, "generated extension not registered", "", nil, nil, string(xt.TypeDescriptor().FullName())+": "+err.Error())
			continue
		}
		a, b := gt.TypeDescriptor(), xt.TypeDescriptor()
		if a.Number() != b.Number() || a.Kind() != b.Kind() || a.Cardinality() != b.Cardinality() || a.IsPacked() != b.IsPacked() ||
			a.ContainingMessage().FullName() != b.ContainingMessage().FullName() {
			fail(lv, "generated extension type disagrees with the schema", "", nil, nil, string(b.FullName()))
		}
	}
}

func diffText(a, b string) string {
	la, lb := strings.Split(a, "\n"), strings.Split(b, "\n")
	for i := 0; i < len(la) && i < len(lb); i++ {
		if strings.Join(strings.Fields(la[i]), " ") != strings.Join(strings.Fields(lb[i]), " ") {
			lo := i - 3
			if lo < 0 {
				lo = 0
			}
			return fmt.Sprintf("first difference at line %d: got %q want %q (context: %q)", i+1, la[i], lb[i], strings.Join(la[lo:i], " | "))
		}
	}
	return fmt.Sprintf("lengths differ: %d vs %d lines", len(la), len(lb))
}

// ---------------------------------------------------------------- (ii) message contents

func errClass(err error) string {
	if err == nil {
		return "ok"
	}
	s := err.Error()
	switch {
	case strings.Contains(s, "required field"):
		return "required"
	case strings.Contains(s, "invalid UTF-8"):
		return "utf8"
	default:
		return "other"
	}
}

func (lv *levelCtx) genType(md protoreflect.MessageDescriptor) protoreflect.MessageType {
	mt, err := protoregistry.GlobalTypes.FindMessageByName(md.FullName())
	if err != nil {
		return nil
	}
	return mt
}

var det = proto.MarshalOptions{Deterministic: true, AllowPartial: true}

func runMessage(lv *levelCtx, md protoreflect.MessageDescriptor, r *rand.Rand, n int, record func(i int, b []byte)) {
	gt := lv.genType(md)
	if gt == nil {
		return
	}
	dt := dynamicpb.NewMessageType(md)
	// random contents
	for i := 0; i < n; i++ {
		seed := r.Int63()
		dm := dt.New()
		o := Opts{MaxDepth: 3, FieldProb: 1 + rand.New(rand.NewSource(seed)).Intn(4)}
		fill(rand.New(rand.NewSource(seed)), dm, 0, o, lv.exts)
		b, err := det.Marshal(dm.Interface())
		if err != nil {
			fail(lv, "dynamicpb cannot marshal generated content (harness)", "", md, nil, err.Error())
			continue
		}
		record(i, b)
		compareBytes(lv, md, b, "fill")
		// the same random walk over the generated type through protoreflect: Set/Mutable/NewValue/Append of the
		// generated message must build the same content
		gm := gt.New()
		gexts := lv.genExts()
		func() {
			defer func() {
				if e := recover(); e != nil {
					fail(lv, "panic while filling the generated message through protoreflect", "", md, b, fmt.Sprint(e))
				}
			}()
			fill(rand.New(rand.NewSource(seed)), gm, 0, o, gexts)
			gb, err := det.Marshal(gm.Interface())
			out.Evals++
			if err != nil || !bytes.Equal(gb, b) {
				fail(lv, "content built through protoreflect on the generated type differs from dynamicpb", "", md, b, fmt.Sprintf("generated bytes %x err %v", gb, err))
			}
			accessors(lv, md, gm, dm, rand.New(rand.NewSource(seed+1)))
		}()
	}
	// targeted encodings
	for _, b := range missingRequiredProbes(lv, md, r) {
		compareBytes(lv, md, b, "missing-required")
	}
	for _, b := range dupMapValueProbes(lv, md, r) {
		compareBytes(lv, md, b, "dup-map-value")
	}
	for _, b := range badUTF8Probes(md) {
		compareBytes(lv, md, b, "bad-utf8")
	}
}

var genExtCache = map[*levelCtx][]protoreflect.ExtensionType{}

func (lv *levelCtx) genExts() []protoreflect.ExtensionType {
	if x, ok := genExtCache[lv]; ok {
		return x
	}
	var outx []protoreflect.ExtensionType
	for _, xt := range lv.exts {
		if gt, err := protoregistry.GlobalTypes.FindExtensionByName(xt.TypeDescriptor().FullName()); err == nil {
			outx = append(outx, gt)
		}
	}
	genExtCache[lv] = outx
	return outx
}

// compareBytes decodes one encoding with the generated type and with dynamicpb and compares everything
// observable.
func compareBytes(lv *levelCtx, md protoreflect.MessageDescriptor, b []byte, stream string) {
	gt := lv.genType(md)
	if gt == nil {
		return
	}
	defer func() {
		if e := recover(); e != nil {
			fail(lv, "panic in generated-vs-dynamic comparison", "", md, b, fmt.Sprint(e))
		}
	}()
	out.Evals++
	hist("stream:" + stream)
	curStream = stream
	defer func() { curStream = "-" }()
	dt := dynamicpb.NewMessageType(md)
	dres := proto.UnmarshalOptions{Resolver: lv.dtypes}
	// strict verdicts (no AllowPartial)
	gm0, dm0 := gt.New(), dt.New()
	eg := proto.Unmarshal(b, gm0.Interface())
	ed := dres.Unmarshal(b, dm0.Interface())
	// partial decode
	gm, dm := gt.New(), dt.New()
	egp := proto.UnmarshalOptions{AllowPartial: true}.Unmarshal(b, gm.Interface())
	edp := proto.UnmarshalOptions{AllowPartial: true, Resolver: lv.dtypes}.Unmarshal(b, dm.Interface())
	if errClass(egp) != errClass(edp) {
		fail(lv, "Unmarshal(AllowPartial) verdicts differ: generated "+errClass(egp)+", dynamicpb "+errClass(edp), "", md, b, fmt.Sprint(egp, " / ", edp))
		return
	}
	if egp != nil {
		hist("decode-error:" + errClass(egp))
		if errClass(eg) != errClass(ed) {
			fail(lv, "Unmarshal verdicts differ: generated "+errClass(eg)+", dynamicpb "+errClass(ed), "", md, b, fmt.Sprint(eg, " / ", ed))
		}
		return
	}
	cg, cd := proto.CheckInitialized(gm.Interface()), proto.CheckInitialized(dm.Interface())
	ref := missingRequired(dm)
	key := fmt.Sprintf("%s|%s|%x", lv.Level.Level, md.FullName(), b)
	if len(b) > 0 {
		out.Keys = append(out.Keys, fnv(key))
	}
	hist("init:" + errClass(cd))
	if (cd == nil) != (ref == nil) {
		fail(lv, "dynamicpb CheckInitialized disagrees with the reference walk (harness oracle)", "", md, b, fmt.Sprint(cd, " / ", ref))
	}
	if errClass(cg) != errClass(cd) {
		fail(lv, "CheckInitialized verdicts differ: generated "+errClass(cg)+", dynamicpb "+errClass(cd), classifyInit(lv, md, b, ref, cg, eg), md, b, fmt.Sprint(cg, " / ", cd))
	}
	if errClass(eg) != errClass(ed) {
		fail(lv, "Unmarshal verdicts differ: generated "+errClass(eg)+", dynamicpb "+errClass(ed), classifyInit(lv, md, b, ref, cg, eg), md, b, fmt.Sprint(eg, " / ", ed))
	}
	// marshal verdict without AllowPartial
	_, mg := proto.Marshal(gm.Interface())
	_, mdd := proto.Marshal(dm.Interface())
	if errClass(mg) != errClass(mdd) {
		fail(lv, "Marshal verdicts differ: generated "+errClass(mg)+", dynamicpb "+errClass(mdd), classifyInit(lv, md, b, ref, cg, eg), md, b, fmt.Sprint(mg, " / ", mdd))
	}
	// reflection snapshots
	sg, sd := Snap(gm), Snap(dm)
	if sg != sd {
		fail(lv, "reflection snapshots differ after decoding the same bytes", "", md, b, "generated "+sg+" dynamicpb "+sd)
		return
	}
	// deterministic bytes and Size
	bg, e1 := det.Marshal(gm.Interface())
	bd, e2 := det.Marshal(dm.Interface())
	if e1 != nil || e2 != nil || !bytes.Equal(bg, bd) {
		fail(lv, "deterministic Marshal differs", "", md, b, fmt.Sprintf("generated %x (%v) dynamicpb %x (%v)", bg, e1, bd, e2))
	}
	if n := proto.Size(gm.Interface()); n != len(bg) {
		fail(lv, "Size of generated message differs from the length of its encoding", "", md, b, fmt.Sprint(n, " vs ", len(bg)))
	}
	// decode of each other's bytes
	g2, d2 := gt.New(), dt.New()
	if err := (proto.UnmarshalOptions{AllowPartial: true}).Unmarshal(bd, g2.Interface()); err != nil || Snap(g2) != sd {
		fail(lv, "generated type cannot decode dynamicpb's bytes to the same content", "", md, b, fmt.Sprint(err))
	}
	if err := (proto.UnmarshalOptions{AllowPartial: true, Resolver: lv.dtypes}).Unmarshal(bg, d2.Interface()); err != nil || Snap(d2) != sd {
		fail(lv, "dynamicpb cannot decode the generated type's bytes to the same content", "", md, b, fmt.Sprint(err))
	}
	if !proto.Equal(gm.Interface(), g2.Interface()) {
		fail(lv, "proto.Equal(generated, re-decoded generated) is false", "", md, b, "")
	}
	// JSON
	jg, ejg := protojson.MarshalOptions{AllowPartial: true}.Marshal(gm.Interface())
	jd, ejd := protojson.MarshalOptions{AllowPartial: true, Resolver: lv.dtypes}.Marshal(dm.Interface())
	if (ejg == nil) != (ejd == nil) {
		fail(lv, "protojson.Marshal verdicts differ", "", md, b, fmt.Sprint(ejg, " / ", ejd))
	} else if ejg == nil {
		if !jsonEqual(jg, jd) {
			fail(lv, "protojson output differs (compared as parsed JSON)", "", md, b, fmt.Sprintf("generated %s dynamicpb %s", jg, jd))
		}
		g3, d3 := gt.New(), dt.New()
		e3 := protojson.UnmarshalOptions{AllowPartial: true}.Unmarshal(jd, g3.Interface())
		e4 := protojson.UnmarshalOptions{AllowPartial: true, Resolver: lv.dtypes}.Unmarshal(jg, d3.Interface())
		if (e3 == nil) != (e4 == nil) {
			fail(lv, "protojson.Unmarshal verdicts differ", "", md, b, fmt.Sprint(e3, " / ", e4))
		} else if e3 == nil && Snap(g3) != Snap(d3) {
			fail(lv, "protojson.Unmarshal results differ", "", md, b, "generated "+Snap(g3)+" dynamicpb "+Snap(d3))
		}
		hist("json:ok")
	} else {
		hist("json:error")
	}
	// text
	tg, etg := prototext.MarshalOptions{AllowPartial: true}.Marshal(gm.Interface())
	td, etd := prototext.MarshalOptions{AllowPartial: true, Resolver: lv.dtypes}.Marshal(dm.Interface())
	if (etg == nil) != (etd == nil) {
		fail(lv, "prototext.Marshal verdicts differ", "", md, b, fmt.Sprint(etg, " / ", etd))
	} else if etg == nil {
		g4, d4 := gt.New(), dt.New()
		e5 := prototext.UnmarshalOptions{AllowPartial: true}.Unmarshal(td, g4.Interface())
		e6 := prototext.UnmarshalOptions{AllowPartial: true, Resolver: lv.dtypes}.Unmarshal(tg, d4.Interface())
		if e5 != nil || e6 != nil {
			fail(lv, "prototext output of one side is not parsed by the other", "", md, b, fmt.Sprint(e5, " / ", e6))
		} else {
			// text carries no unknown fields
			d4.SetUnknown(dm.GetUnknown())
			g4.SetUnknown(gm.GetUnknown())
			if Snap(g4) != Snap(d4) {
				fail(lv, "prototext round trips differ", "", md, b, "generated "+Snap(g4)+" dynamicpb "+Snap(d4))
			}
		}
		hist("text:ok")
	}
}

func fnv(s string) string {
	var h uint64 = 14695981039346656037
	for i := 0; i < len(s); i++ {
		h ^= uint64(s[i])
		h *= 1099511628211
	}
	return fmt.Sprintf("%016x", h)
}

func jsonEqual(a, b []byte) bool {
	var x, y any
	da, db := json.NewDecoder(bytes.NewReader(a)), json.NewDecoder(bytes.NewReader(b))
	da.UseNumber()
	db.UseNumber()
	if da.Decode(&x) != nil || db.Decode(&y) != nil {
		return false
	}
	ja, _ := json.Marshal(x)
	jb, _ := json.Marshal(y)
	return bytes.Equal(ja, jb)
}

// missingRequired is the reference walk: the descriptor chain to the first populated message that lacks a
// required field, or nil.
func missingRequired(m protoreflect.Message) []protoreflect.MessageDescriptor {
	md := m.Descriptor()
	fs := md.Fields()
	for i := 0; i < fs.Len(); i++ {
		if fs.Get(i).Cardinality() == protoreflect.Required && !m.Has(fs.Get(i)) {
			return []protoreflect.MessageDescriptor{md}
		}
	}
	var res []protoreflect.MessageDescriptor
	m.Range(func(fd protoreflect.FieldDescriptor, v protoreflect.Value) bool {
		var sub []protoreflect.MessageDescriptor
		switch {
		case fd.IsMap():
			if fd.MapValue().Message() != nil {
				v.Map().Range(func(_ protoreflect.MapKey, e protoreflect.Value) bool {
					sub = missingRequired(e.Message())
					return sub == nil
				})
			}
		case fd.IsList():
			if fd.Message() != nil {
				for j := 0; j < v.List().Len() && sub == nil; j++ {
					sub = missingRequired(v.List().Get(j).Message())
				}
			}
		case fd.Message() != nil:
			sub = missingRequired(v.Message())
		}
		if sub != nil {
			res = append([]protoreflect.MessageDescriptor{md}, sub...)
			return false
		}
		return true
	})
	return res
}

// Classifier signatures of the two defects known on the unchanged tree (DESIGN.md findings 1 and 2).
const (
	sigCycle  = "needsinitcheck-cycle-cached-false"
	sigMapDup = "map-message-value-init-or"
)

// classifyInit: the generated side accepted a message that lacks a required field.
//
//	sigMapDup: Unmarshal returned nil although CheckInitialized of the decoded message reports the field, and the
//	           input carries a map entry (message-valued map) with two or more occurrences of the value field;
//	sigCycle:  CheckInitialized itself returned nil and the chain of message types from the root to the message
//	           lacking the field contains a type that lies on a descriptor cycle.
func classifyInit(lv *levelCtx, md protoreflect.MessageDescriptor, b []byte, ref []protoreflect.MessageDescriptor, cg, eg error) string {
	if ref == nil {
		return ""
	}
	if cg == nil {
		for _, x := range ref {
			if lv.cyclic[x.FullName()] {
				return sigCycle
			}
		}
		return ""
	}
	if eg == nil && hasDupMapValue(md, b, 0) {
		return sigMapDup
	}
	return ""
}

// hasDupMapValue scans the wire data along the schema for a map entry of a message-valued map whose value
// field (2) occurs at least twice.
func hasDupMapValue(md protoreflect.MessageDescriptor, b []byte, depth int) bool {
	if depth > 100 {
		return false
	}
	for len(b) > 0 {
		num, typ, n := protowire.ConsumeTag(b)
		if n < 0 {
			return false
		}
		b = b[n:]
		m := protowire.ConsumeFieldValue(num, typ, b)
		if m < 0 {
			return false
		}
		val := b[:m]
		b = b[m:]
		fd := md.Fields().ByNumber(num)
		if fd == nil || fd.Message() == nil {
			continue
		}
		var payload []byte
		switch typ {
		case protowire.BytesType:
			payload, _ = protowire.ConsumeBytes(val)
		case protowire.StartGroupType:
			payload, _ = protowire.ConsumeGroup(num, val)
		default:
			continue
		}
		if fd.IsMap() && fd.MapValue().Message() != nil {
			cnt := 0
			e := payload
			for len(e) > 0 {
				n2, t2, k := protowire.ConsumeTag(e)
				if k < 0 {
					break
				}
				e = e[k:]
				k2 := protowire.ConsumeFieldValue(n2, t2, e)
				if k2 < 0 {
					break
				}
				if n2 == 2 && t2 == protowire.BytesType {
					cnt++
					v, _ := protowire.ConsumeBytes(e[:k2])
					if hasDupMapValue(fd.MapValue().Message(), v, depth+1) {
						return true
					}
				}
				e = e[k2:]
			}
			if cnt >= 2 {
				return true
			}
			continue
		}
		if !fd.IsMap() && hasDupMapValue(fd.Message(), payload, depth+1) {
			return true
		}
	}
	return false
}

// ---------------------------------------------------------------- targeted encodings

func appendMsgField(b []byte, fd protoreflect.FieldDescriptor, payload []byte) []byte {
	if fd.Kind() == protoreflect.GroupKind {
		b = protowire.AppendTag(b, fd.Number(), protowire.StartGroupType)
		b = append(b, payload...)
		return protowire.AppendTag(b, fd.Number(), protowire.EndGroupType)
	}
	b = protowire.AppendTag(b, fd.Number(), protowire.BytesType)
	return protowire.AppendBytes(b, payload)
}

func mapKeyBytes(kd protoreflect.FieldDescriptor, r *rand.Rand) []byte {
	var b []byte
	switch kd.Kind() {
	case protoreflect.StringKind:
		b = protowire.AppendTag(b, 1, protowire.BytesType)
		b = protowire.AppendString(b, "k")
	case protoreflect.Fixed32Kind, protoreflect.Sfixed32Kind:
		b = protowire.AppendTag(b, 1, protowire.Fixed32Type)
		b = protowire.AppendFixed32(b, 7)
	case protoreflect.Fixed64Kind, protoreflect.Sfixed64Kind:
		b = protowire.AppendTag(b, 1, protowire.Fixed64Type)
		b = protowire.AppendFixed64(b, 7)
	default:
		b = protowire.AppendTag(b, 1, protowire.VarintType)
		b = protowire.AppendVarint(b, 1)
	}
	return b
}

// initBytes returns an encoding of md in which every required field is set (recursively, bounded).
func initBytes(md protoreflect.MessageDescriptor, depth int) []byte {
	m := dynamicpb.NewMessage(md)
	setRequired(m, depth)
	b, _ := det.Marshal(m)
	return b
}

func setRequired(m protoreflect.Message, depth int) {
	fs := m.Descriptor().Fields()
	for i := 0; i < fs.Len(); i++ {
		fd := fs.Get(i)
		if fd.Cardinality() != protoreflect.Required {
			continue
		}
		if fd.Message() != nil {
			if depth < 6 {
				setRequired(m.Mutable(fd).Message(), depth+1)
			}
			continue
		}
		m.Set(fd, zeroish(fd))
	}
}

func zeroish(fd protoreflect.FieldDescriptor) protoreflect.Value {
	switch fd.Kind() {
	case protoreflect.EnumKind:
		return protoreflect.ValueOfEnum(fd.Enum().Values().Get(0).Number())
	case protoreflect.StringKind:
		return protoreflect.ValueOfString("r")
	case protoreflect.BytesKind:
		return protoreflect.ValueOfBytes([]byte("r"))
	case protoreflect.BoolKind:
		return protoreflect.ValueOfBool(true)
	case protoreflect.FloatKind:
		return protoreflect.ValueOfFloat32(1)
	case protoreflect.DoubleKind:
		return protoreflect.ValueOfFloat64(1)
	case protoreflect.Int32Kind, protoreflect.Sint32Kind, protoreflect.Sfixed32Kind:
		return protoreflect.ValueOfInt32(1)
	case protoreflect.Int64Kind, protoreflect.Sint64Kind, protoreflect.Sfixed64Kind:
		return protoreflect.ValueOfInt64(1)
	case protoreflect.Uint32Kind, protoreflect.Fixed32Kind:
		return protoreflect.ValueOfUint32(1)
	default:
		return protoreflect.ValueOfUint64(1)
	}
}

func hasRequiredDirect(md protoreflect.MessageDescriptor) bool {
	fs := md.Fields()
	for i := 0; i < fs.Len(); i++ {
		if fs.Get(i).Cardinality() == protoreflect.Required {
			return true
		}
	}
	return false
}

// uninitPath builds an encoding of md that follows a random chain of message-typed fields (each intermediate
// message otherwise initialized) and ends in a message with a required field left out. nil if the walk finds none.
func uninitPath(md protoreflect.MessageDescriptor, r *rand.Rand, budget int) []byte {
	if hasRequiredDirect(md) && (budget <= 0 || r.Intn(2) == 0) {
		// leave all required fields out: an empty message
		return []byte{}
	}
	if budget <= 0 {
		return nil
	}
	fs := md.Fields()
	idx := r.Perm(fs.Len())
	for _, i := range idx {
		fd := fs.Get(i)
		sub := fd.Message()
		if sub == nil {
			continue
		}
		base := initBytes(md, 0)
		if fd.IsMap() {
			vd := fd.MapValue().Message()
			if vd == nil {
				continue
			}
			p := uninitPath(vd, r, budget-1)
			if p == nil {
				continue
			}
			e := mapKeyBytes(fd.MapKey(), r)
			e = protowire.AppendTag(e, 2, protowire.BytesType)
			e = protowire.AppendBytes(e, p)
			return appendMsgField(base, fd, e)
		}
		p := uninitPath(sub, r, budget-1)
		if p == nil {
			continue
		}
		return appendMsgField(base, fd, p)
	}
	return nil
}

func missingRequiredProbes(lv *levelCtx, md protoreflect.MessageDescriptor, r *rand.Rand) [][]byte {
	var outb [][]byte
	for k := 0; k < 6; k++ {
		if p := uninitPath(md, r, 1+r.Intn(6)); p != nil && len(p) > 0 {
			outb = append(outb, p)
		}
	}
	return outb
}

// dupMapValueProbes: for every message-valued map field, one entry whose value field occurs twice
// (uninitialized then initialized, and the reverse).
func dupMapValueProbes(lv *levelCtx, md protoreflect.MessageDescriptor, r *rand.Rand) [][]byte {
	var outb [][]byte
	fs := md.Fields()
	for i := 0; i < fs.Len(); i++ {
		fd := fs.Get(i)
		if !fd.IsMap() || fd.MapValue().Message() == nil {
			continue
		}
		vd := fd.MapValue().Message()
		bad := uninitPath(vd, r, 1+r.Intn(4))
		good := initBytes(vd, 0)
		if bad == nil {
			// still exercise the duplicate-value merge
			bad = good
		}
		for _, order := range [][2][]byte{{bad, good}, {good, bad}, {bad, bad}} {
			e := mapKeyBytes(fd.MapKey(), r)
			for _, v := range order {
				e = protowire.AppendTag(e, 2, protowire.BytesType)
				e = protowire.AppendBytes(e, v)
			}
			outb = append(outb, appendMsgField(initBytes(md, 0), fd, e))
		}
	}
	return outb
}

// badUTF8Probes plants the byte ff into every string position of md (singular, repeated, oneof, map key, map value).
func badUTF8Probes(md protoreflect.MessageDescriptor) [][]byte {
	var outb [][]byte
	fs := md.Fields()
	base := initBytes(md, 0)
	for i := 0; i < fs.Len(); i++ {
		fd := fs.Get(i)
		switch {
		case fd.IsMap():
			if fd.MapKey().Kind() == protoreflect.StringKind {
				var e []byte
				e = protowire.AppendTag(e, 1, protowire.BytesType)
				e = protowire.AppendBytes(e, []byte{0xff})
				outb = append(outb, appendMsgField(append([]byte{}, base...), fd, e))
			}
			if fd.MapValue().Kind() == protoreflect.StringKind {
				e := mapKeyBytes(fd.MapKey(), nil)
				e = protowire.AppendTag(e, 2, protowire.BytesType)
				e = protowire.AppendBytes(e, []byte{0xff})
				outb = append(outb, appendMsgField(append([]byte{}, base...), fd, e))
			}
		case fd.Kind() == protoreflect.StringKind:
			b := protowire.AppendTag(append([]byte{}, base...), fd.Number(), protowire.BytesType)
			outb = append(outb, protowire.AppendBytes(b, []byte{'a', 0xff}))
		}
	}
	return outb
}
