package main

// Struct tags of the generated message structs (open API: exported fields; opaque API: xxx_hidden_ fields;
// oneof wrapper structs) against internal/encoding/tag.Marshal of the *input* field descriptor.

import (
	"fmt"
	"reflect"
	"strconv"
	"strings"

	"google.golang.org/protobuf/internal/encoding/tag"
	"google.golang.org/protobuf/reflect/protoreflect"
	"google.golang.org/protobuf/runtime/protoimpl"
)

func wantTag(fd protoreflect.FieldDescriptor) string {
	en := ""
	if fd.Kind() == protoreflect.EnumKind {
		en = protoimpl.X.LegacyEnumName(fd.Enum())
	}
	return tag.Marshal(fd, en)
}

func tagNumber(t string) int {
	p := strings.Split(t, ",")
	if len(p) < 2 {
		return -1
	}
	n, err := strconv.Atoi(p[1])
	if err != nil {
		return -1
	}
	return n
}

func checkFieldTag(lv *levelCtx, md protoreflect.MessageDescriptor, sf reflect.StructField, seen map[int]bool) {
	t, ok := sf.Tag.Lookup("protobuf")
	if !ok {
		return
	}
	out.Evals++
	n := tagNumber(t)
	fd := md.Fields().ByNumber(protoreflect.FieldNumber(n))
	if fd == nil {
		fail(lv, "struct tag of a generated field names a field number that the schema does not have", "", md, nil, sf.Name+": "+t)
		return
	}
	seen[n] = true
	if w := wantTag(fd); t != w {
		fail(lv, "struct tag of a generated field differs from tag.Marshal of the schema's field", "", md, nil, fmt.Sprintf("%s: got %q want %q", sf.Name, t, w))
	}
	if fd.IsMap() {
		k, v := sf.Tag.Get("protobuf_key"), sf.Tag.Get("protobuf_val")
		// generator convention (internal_gengo/opaque.go): the key/value tags never carry ",proto3"
		wk := strings.ReplaceAll(wantTag(fd.MapKey()), ",proto3", "")
		wv := strings.ReplaceAll(wantTag(fd.MapValue()), ",proto3", "")
		if k != wk || v != wv {
			fail(lv, "protobuf_key/protobuf_val struct tags differ from the schema's map entry fields", "", md, nil, fmt.Sprintf("%s: got %q %q want %q %q", sf.Name, k, v, wk, wv))
		}
	}
	hist("struct-tag")
}

func checkStructTags(lv *levelCtx, md protoreflect.MessageDescriptor) {
	gt := lv.genType(md)
	if gt == nil {
		return
	}
	defer func() {
		if e := recover(); e != nil {
			fail(lv, "panic while inspecting the generated struct", "", md, nil, fmt.Sprint(e))
		}
	}()
	rt := reflect.TypeOf(gt.New().Interface()).Elem()
	if rt.Kind() != reflect.Struct {
		return
	}
	seen := map[int]bool{}
	for i := 0; i < rt.NumField(); i++ {
		checkFieldTag(lv, md, rt.Field(i), seen)
	}
	// oneof members: populate each member through protoreflect and look at the wrapper type stored in the
	// interface-typed struct field
	fs := md.Fields()
	for i := 0; i < fs.Len(); i++ {
		fd := fs.Get(i)
		if od := fd.ContainingOneof(); od == nil || od.IsSynthetic() {
			continue
		}
		m := gt.New()
		gfd := m.Descriptor().Fields().ByNumber(fd.Number())
		if gfd == nil {
			continue
		}
		if gfd.Message() != nil {
			m.Set(gfd, m.NewField(gfd))
		} else {
			m.Set(gfd, gfd.Default())
		}
		rv := reflect.ValueOf(m.Interface()).Elem()
		for j := 0; j < rv.NumField(); j++ {
			f := rv.Field(j)
			if f.Kind() != reflect.Interface || f.IsNil() {
				continue
			}
			wt := f.Elem().Type()
			if wt.Kind() == reflect.Pointer {
				wt = wt.Elem()
			}
			if wt.Kind() == reflect.Struct && wt.NumField() == 1 {
				checkFieldTag(lv, md, wt.Field(0), seen)
			}
		}
	}
	for i := 0; i < fs.Len(); i++ {
		if !seen[int(fs.Get(i).Number())] {
			fail(lv, "no struct field of the generated type carries the tag of a schema field", "", md, nil, string(fs.Get(i).Name()))
		}
	}
}
