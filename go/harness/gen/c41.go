package main

// C41: generated code compiles and is faithful to its schema.
//
// Per batch: one random package (proto2 + proto3 + editions + pinned file) -> protoc-gen-go (subprocess, built
// from the tree under test) at API_OPEN / API_HYBRID / API_OPAQUE -> gofmt -l -> mounted through -overlay as
// internal/zz_verif_gen_<n>/{open,hybrid,opaque} -> `go build` of the comparison program (cmp/) that links
// the three packages -> run it.

import (
	"encoding/hex"
	"encoding/json"
	"fmt"
	"math/rand"
	"os"
	"path/filepath"
	"regexp"
	"sort"
	"strings"
	"time"

	vh "google.golang.org/protobuf/internal/zz_verif_vh"
	"google.golang.org/protobuf/proto"
	"google.golang.org/protobuf/types/descriptorpb"
)

const modulePath = "google.golang.org/protobuf"

// schemaInput is the replayable form of a C41 case.
type schemaInput struct {
	Kind     string   `json:"kind"`  // "c41-schema"
	Files    []string `json:"files"` // hex FileDescriptorProto, placeholder package zzpkg, dependency order
	Level    string   `json:"level,omitempty"`
	Msg      string   `json:"msg,omitempty"`
	Bytes    string   `json:"bytes,omitempty"`
	Detail   string   `json:"detail,omitempty"`
	Summary  string   `json:"summary,omitempty"`
	Compiler string   `json:"compiler,omitempty"`
}

func filesHex(files []*descriptorpb.FileDescriptorProto) []string {
	var out []string
	for _, f := range files {
		b, _ := proto.MarshalOptions{Deterministic: true}.Marshal(f)
		out = append(out, hex.EncodeToString(b))
	}
	return out
}

func summary(files []*descriptorpb.FileDescriptorProto) string {
	var parts []string
	for _, f := range files {
		nm := 0
		var walk func(ms []*descriptorpb.DescriptorProto)
		walk = func(ms []*descriptorpb.DescriptorProto) {
			for _, m := range ms {
				nm++
				walk(m.NestedType)
			}
		}
		walk(f.MessageType)
		parts = append(parts, fmt.Sprintf("%s(%s: %d messages, %d enums, %d extensions)", filepath.Base(f.GetName()), f.GetSyntax(), nm, len(f.EnumType), len(f.Extension)))
	}
	return strings.Join(parts, " ")
}

// genPackage builds the placeholder files of one random package, steering away from the known collisions.
func genPackage(c *vh.Ctx, r *rand.Rand, n int, nmsgs int) []*descriptorpb.FileDescriptorProto {
	g := newSgen(r, fmt.Sprintf("zzgen/b%d", n), c.Hist)
	var done []*descriptorpb.FileDescriptorProto
	accept := func(fd *descriptorpb.FileDescriptorProto, cand string) bool {
		set := append(append([]*descriptorpb.FileDescriptorProto{}, done...), fd)
		inst := instantiateSet(set, "zz.scan", "example.com/zzscan", "zzscan", func(s string) string { return s })
		var names []string
		for _, f := range inst {
			names = append(names, f.GetName())
		}
		if _, err := validate(inst); err != nil {
			// the generator itself produced something protodesc rejects: drop the candidate and count it
			c.Hist("schema:invalid-candidate")
			c.R.Notes = appendNote(c.R.Notes, "schema generator candidate rejected by protodesc: "+head(err.Error(), 200))
			return false
		}
		finds, errs := scanAllLevels(inst, names)
		if len(errs) > 0 {
			// keep: the plugin subprocess will report it with the schema as replay
			return true
		}
		for _, f := range finds {
			if f.Sig != "" {
				c.Hist("steer:" + f.Sig)
				return false
			}
		}
		return true
	}
	pin := g.pinnedFile()
	pined := g.pinnedEditionsFiles()
	p2 := g.file("proto2", "p2", nmsgs, nil, accept)
	done = append(done, p2)
	p3 := g.file("proto3", "p3", nmsgs, []*descriptorpb.FileDescriptorProto{p2}, accept)
	done = append(done, p3)
	ed := g.file("editions", "ed", nmsgs, []*descriptorpb.FileDescriptorProto{p2, p3}, accept)
	return append([]*descriptorpb.FileDescriptorProto{pin, pined[0], pined[1]}, p2, p3, ed)
}

// report records one failure. Failures carrying a classifier signature are recorded once per signature and
// run (they are re-counted in the histogram); unclassified ones count towards the early stop.
var seenSig = map[string]bool{}
var unclassified int

func report(c *vh.Ctx, what string, input any, sig string) {
	if sig != "" {
		c.Hist("classified:" + sig)
		if seenSig[sig] {
			return
		}
		seenSig[sig] = true
	} else {
		unclassified++
	}
	c.Check(false, what, input, sig)
}

func appendNote(notes []string, s string) []string {
	for _, n := range notes {
		if n == s {
			return notes
		}
	}
	if len(notes) < 20 {
		notes = append(notes, s)
	}
	return notes
}

func instantiateSet(files []*descriptorpb.FileDescriptorProto, protoPkg, goImport, goPkg string, rename func(string) string) []*descriptorpb.FileDescriptorProto {
	// custom option numbers must differ between the instances that are linked into one program
	base := int32(50000)
	switch {
	case strings.HasSuffix(protoPkg, ".hybrid"):
		base = 51000
	case strings.HasSuffix(protoPkg, ".opaque"):
		base = 52000
	}
	var out []*descriptorpb.FileDescriptorProto
	for _, f := range files {
		out = append(out, instantiate(f, protoPkg, goImport, goPkg, rename, base))
	}
	return out
}

type levelInst struct {
	level string // open | hybrid | opaque
	api   string // API_OPEN ...
	pkg   string
	goImp string
	files []*descriptorpb.FileDescriptorProto
	names []string
	srcs  map[string]string // repo-relative path -> content
}

type cmpLevel struct {
	Level string                  `json:"level"`
	Pkg   string                  `json:"pkg"`
	FDS   string                  `json:"fds"`
	Files []string                `json:"files"`
	Names map[string]msgNamesJSON `json:"names"`
}
type cmpCase struct {
	Msg   string `json:"msg"`
	Bytes string `json:"bytes"`
}
type cmpInput struct {
	Seed   int64      `json:"seed"`
	N      int        `json:"n"`
	Levels []cmpLevel `json:"levels"`
	Cases  []cmpCase  `json:"cases"`
}
type cmpFailure struct {
	What, Sig, Level, Msg, Bytes, Detail string
}
type cmpOutput struct {
	Failures []struct {
		What   string `json:"what"`
		Sig    string `json:"sig"`
		Level  string `json:"level"`
		Msg    string `json:"msg"`
		Bytes  string `json:"bytes"`
		Detail string `json:"detail"`
	} `json:"failures"`
	Hist  map[string]int `json:"hist"`
	Evals int            `json:"evals"`
	Keys  []string       `json:"keys"`
}

// the encodings of DESIGN.md findings 1 and 2 on the pinned schemas
var pinnedCases = []cmpCase{
	{Msg: "zzpkg.PinQ", Bytes: "0a060a040a021200"},               // Q.a.b.a.c = {}
	{Msg: "zzpkg.PinT", Bytes: "0a0808011202" + "0a00" + "1200"}, // T.m[1]: value V{w:{}} then value V{}
	{Msg: "zzpkg.PinA", Bytes: "0a040a021200"},                   // A.b.a.c = {}
}

var errLine = regexp.MustCompile(`(?m)^\S*?(internal/zz_verif_gen_[^:\s]+):(\d+):(\d+): (.*)$`)

// runBatch pushes one package through generation, formatting, compilation and the comparison program.
func (e *env) runBatch(c *vh.Ctx, n int, files []*descriptorpb.FileDescriptorProto, cases []cmpCase, seed int64, perMsg int, tags string) {
	in := func(level, msg, bytesHex, detail, compiler string) schemaInput {
		return schemaInput{Kind: "c41-schema", Files: filesHex(files), Level: level, Msg: msg, Bytes: bytesHex, Detail: detail, Summary: summary(files), Compiler: compiler}
	}
	dir := filepath.Join(e.scratch, fmt.Sprintf("b%d", n))
	os.MkdirAll(dir, 0o755)
	overlay := map[string]string{}
	var insts []*levelInst
	ci := cmpInput{Seed: seed, N: perMsg, Cases: cases}
	var gofmtFiles []string
	for _, api := range apiLevels {
		li := &levelInst{level: levelShort(api), api: api, srcs: map[string]string{}}
		li.pkg = fmt.Sprintf("zz.b%d.%s", n, li.level)
		li.goImp = fmt.Sprintf("%s/internal/zz_verif_gen_%d/%s", modulePath, n, li.level)
		li.files = instantiateSet(files, li.pkg, li.goImp, "zzgen"+li.level, func(s string) string {
			if strings.HasPrefix(s, "zzgen/") {
				return "zzgen/" + li.level + "/" + strings.TrimPrefix(s, "zzgen/")
			}
			return s
		})
		for _, f := range li.files {
			li.names = append(li.names, f.GetName())
		}
		if _, err := validate(li.files); err != nil {
			report(c, "schema generator produced descriptors that protodesc rejects (harness defect, not a finding)", in(li.level, "", "", err.Error(), ""), "")
			return
		}
		req := makeRequest(li.files, li.names, "default_api_level="+api)
		po := e.runPlugin(req)
		c.Case(fmt.Sprintf("gen|%d|%s|%d", seed, api, n), true)
		c.Hist("generate:" + li.level)
		if po.Exit != "" || po.Resp.Error != nil {
			msg := po.Exit + " " + po.Stderr
			if po.Resp != nil {
				msg = po.Resp.GetError()
			}
			report(c, "protoc-gen-go fails on a valid schema ("+api+")", in(li.level, "", "", head(msg, 800), ""), "")
			return
		}
		for _, rf := range po.Resp.File {
			rel := strings.TrimPrefix(rf.GetName(), modulePath+"/")
			if rel == rf.GetName() || !strings.HasPrefix(rel, fmt.Sprintf("internal/zz_verif_gen_%d/%s/", n, li.level)) {
				report(c, "generated file name is not under the go_package import path", in(li.level, "", "", rf.GetName(), ""), "")
				return
			}
			p := filepath.Join(dir, rel)
			os.MkdirAll(filepath.Dir(p), 0o755)
			if err := os.WriteFile(p, []byte(rf.GetContent()), 0o644); err != nil {
				panic(err)
			}
			overlay[filepath.Join(e.repo, rel)] = p
			li.srcs[rel] = rf.GetContent()
			gofmtFiles = append(gofmtFiles, p)
		}
		// expected file set: one .pb.go per proto (+ _protoopaque variant at the hybrid level)
		want := len(li.files)
		if api == "API_HYBRID" {
			want *= 2
		}
		if len(po.Resp.File) != want {
			report(c, fmt.Sprintf("unexpected number of generated files at %s: %d, want %d", api, len(po.Resp.File), want), in(li.level, "", "", "", ""), "")
		}
		// accessor names as protogen assigns them (in-process run of the same tree)
		res := generateInProcess(li.files, li.names, api)
		if res.Err != "" {
			report(c, "in-process protogen fails where the plugin subprocess succeeded", in(li.level, "", "", res.Err, ""), "")
			return
		}
		// in-process output must equal the subprocess output (ties the prescan to the binary under test)
		for _, rf := range po.Resp.File {
			if res.Files[rf.GetName()] != rf.GetContent() {
				report(c, "in-process generation differs from the plugin subprocess output", in(li.level, "", "", rf.GetName()+": "+firstDiff(res.Files[rf.GetName()], rf.GetContent()), ""), "")
			}
		}
		names, err := nameTable(li.files, li.names, api, tags == "protoopaque")
		if err != nil {
			report(c, "in-process protogen fails where the plugin subprocess succeeded", in(li.level, "", "", err.Error(), ""), "")
			return
		}
		fds := &descriptorpb.FileDescriptorSet{File: append(wellKnownDeps(li.files), li.files...)}
		fb, _ := proto.MarshalOptions{Deterministic: true}.Marshal(fds)
		ci.Levels = append(ci.Levels, cmpLevel{Level: li.level, Pkg: li.pkg, FDS: hex.EncodeToString(fb), Files: li.names, Names: names})
		insts = append(insts, li)
	}
	// gofmt
	so, se, err, _ := runCmd(dir, os.Environ(), nil, "gofmt", append([]string{"-l"}, gofmtFiles...)...)
	c.Case(fmt.Sprintf("gofmt|%d|%d", seed, n), true)
	if err != nil || len(strings.TrimSpace(string(so))) > 0 {
		report(c, "generated code is not gofmt-formatted (gofmt -l lists it)", in("", "", "", head(string(so)+string(se), 600), ""), "")
	} else {
		c.Hist("gofmt:clean")
	}
	// comparison program
	cmpSrc := filepath.Join(e.verif, "go", "harness", "gen", "cmp")
	ents, _ := os.ReadDir(cmpSrc)
	cmpRel := fmt.Sprintf("internal/zz_verif_gen_%d/cmp", n)
	for _, ent := range ents {
		if strings.HasSuffix(ent.Name(), ".go") {
			overlay[filepath.Join(e.repo, cmpRel, ent.Name())] = filepath.Join(cmpSrc, ent.Name())
		}
	}
	var imp strings.Builder
	imp.WriteString("package main\n\nimport (\n")
	for _, li := range insts {
		fmt.Fprintf(&imp, "\t_ %q\n", li.goImp)
	}
	imp.WriteString(")\n")
	impPath := filepath.Join(dir, "zz_imports.go")
	os.WriteFile(impPath, []byte(imp.String()), 0o644)
	overlay[filepath.Join(e.repo, cmpRel, "zz_imports.go")] = impPath
	ovPath := filepath.Join(dir, "overlay.json")
	ovb, _ := json.Marshal(map[string]any{"Replace": overlay})
	os.WriteFile(ovPath, ovb, 0o644)
	bin := filepath.Join(dir, "cmp.bin")
	args := []string{"build", "-overlay", ovPath, "-o", bin}
	if tags != "" {
		args = append(args, "-tags", tags)
	}
	args = append(args, "./"+cmpRel+"/")
	_, se, err, dt := runCmd(e.repo, goEnv(), nil, "go", args...)
	c.Case(fmt.Sprintf("build|%d|%d|%s", seed, n, tags), true)
	c.Hist(fmt.Sprintf("build_seconds:%d", int(dt.Seconds()/5)*5))
	if err != nil {
		e.classifyBuildFailure(c, files, string(se), in)
		return
	}
	c.Hist("build:ok" + map[bool]string{true: "+" + tags, false: ""}[tags != ""])
	inPath, outPath := filepath.Join(dir, "cmp_in.json"), filepath.Join(dir, "cmp_out.json")
	ib, _ := json.Marshal(&ci)
	os.WriteFile(inPath, ib, 0o644)
	so, se, err, _ = runCmd(dir, os.Environ(), nil, bin, inPath, outPath)
	if err != nil {
		report(c, "comparison program linking the generated packages crashed (init or run time)", in("", "", "", tail(string(se), 1500), ""), "")
		return
	}
	ob, err := os.ReadFile(outPath)
	var co cmpOutput
	if err != nil || json.Unmarshal(ob, &co) != nil {
		report(c, "comparison program wrote no result", in("", "", "", "", ""), "")
		return
	}
	for k, v := range co.Hist {
		c.R.Histogram["cmp:"+k] += v
	}
	for _, k := range co.Keys {
		c.Case(k, true)
	}
	for i := len(co.Keys); i < co.Evals; i++ {
		c.Case("", false)
	}
	for _, f := range co.Failures {
		report(c, f.What, in(f.Level, f.Msg, f.Bytes, f.Detail, ""), f.Sig)
	}
	if len(c.R.Samples) < 6 {
		c.Sample(map[string]any{"batch": n, "schema": summary(files), "evaluations": co.Evals, "failures": len(co.Failures)})
	}
}

// classifyBuildFailure: the schema is the replay. A collision of a class listed in known-findings.txt gets its
// signature; everything else stays unclassified (VIOLATION).
func (e *env) classifyBuildFailure(c *vh.Ctx, files []*descriptorpb.FileDescriptorProto, stderr string, in func(level, msg, bytesHex, detail, compiler string) schemaInput) {
	inst := instantiateSet(files, "zz.scan", "example.com/zzscan", "zzscan", func(s string) string { return s })
	var names []string
	for _, f := range inst {
		names = append(names, f.GetName())
	}
	finds, _ := scanAllLevels(inst, names)
	errs := errLine.FindAllStringSubmatch(stderr, -1)
	comp := head(strings.TrimSpace(stderr), 1500)
	explained := map[string]bool{}
	for _, f := range finds {
		if f.Sig == "" || f.Sig == steerSchemaIdent {
			continue
		}
		explained[f.Dup.Name] = true
		report(c, "generated code does not compile: "+f.Dup.String()+" declared twice", in(levelShort(strings.Split(f.Variant, "+")[0]), "", "", f.Dup.String(), comp), f.Sig)
	}
	// compiler errors not mentioning an identifier of a classified duplicate
	un := 0
	for _, m := range errs {
		ok := false
		for name := range explained {
			if strings.Contains(m[4], name) {
				ok = true
			}
		}
		if !ok {
			un++
			if un <= 3 {
				lvl := ""
				if p := strings.Split(m[1], "/"); len(p) > 2 {
					lvl = p[2]
				}
				report(c, "generated code does not compile", in(lvl, "", "", m[1]+":"+m[2]+": "+m[4], comp), "")
			}
		}
	}
	if len(errs) == 0 {
		report(c, "go build of the generated packages failed", in("", "", "", "", comp), "")
	}
}

// knownBad are the witness schemas of the C42 collision classes (known-findings.txt); they are generated and
// compiled on every run: still failing -> KNOWN-FINDING for C41 (same defect), compiling -> nothing to report.
type badSchema struct {
	sig, level string
	build      func() *descriptorpb.DescriptorProto
}

func i32(name string, num int32) *dpb {
	return &dpb{Name: proto.String(name), Number: proto.Int32(num), Label: tOptional(), Type: descriptorpb.FieldDescriptorProto_TYPE_INT32.Enum(), JsonName: proto.String(name)}
}
func inOneof(f *dpb, idx int32) *dpb { f.OneofIndex = proto.Int32(idx); return f }
func oneofs(names ...string) []*descriptorpb.OneofDescriptorProto {
	var out []*descriptorpb.OneofDescriptorProto
	for _, n := range names {
		out = append(out, &descriptorpb.OneofDescriptorProto{Name: proto.String(n)})
	}
	return out
}

var knownBad = []badSchema{
	{sigOpaqueSuffix, "API_OPAQUE", func() *descriptorpb.DescriptorProto {
		return &descriptorpb.DescriptorProto{Name: proto.String("M"), Field: []*dpb{i32("_foo", 1), i32("x_foo", 2), i32("XFoo_2", 3)}}
	}},
	{sigWrapper, "API_OPEN", func() *descriptorpb.DescriptorProto {
		return &descriptorpb.DescriptorProto{Name: proto.String("M"), Field: []*dpb{inOneof(i32("a", 1), 0), inOneof(i32("a_", 2), 0)},
			OneofDecl: oneofs("o"), NestedType: []*descriptorpb.DescriptorProto{{Name: proto.String("A")}}}
	}},
	{sigOneofGetter, "API_OPEN", func() *descriptorpb.DescriptorProto {
		return &descriptorpb.DescriptorProto{Name: proto.String("M"), Field: []*dpb{i32("get_x", 1), inOneof(i32("a", 2), 0)}, OneofDecl: oneofs("x")}
	}},
	{sigOneofRelease, "API_OPEN", func() *descriptorpb.DescriptorProto {
		return &descriptorpb.DescriptorProto{Name: proto.String("M"), Field: []*dpb{inOneof(i32("a", 1), 0), inOneof(i32("b", 2), 1), i32("GetX", 3)}, OneofDecl: oneofs("get_x", "x")}
	}},
	{sigOneofCamel, "API_OPAQUE", func() *descriptorpb.DescriptorProto {
		return &descriptorpb.DescriptorProto{Name: proto.String("M"), Field: []*dpb{inOneof(i32("a", 1), 0), i32("fooBar", 2)}, OneofDecl: oneofs("foo_bar")}
	}},
	{sigProtoReflect, "API_OPEN", func() *descriptorpb.DescriptorProto {
		return &descriptorpb.DescriptorProto{Name: proto.String("M"), Field: []*dpb{i32("proto_reflect", 1)}}
	}},
}

func (e *env) runKnownBad(c *vh.Ctx) {
	dir := filepath.Join(e.scratch, "known")
	os.MkdirAll(dir, 0o755)
	overlay := map[string]string{}
	var pkgs []string
	type item struct {
		b     badSchema
		files []*descriptorpb.FileDescriptorProto
		rel   string
	}
	var items []item
	for i, b := range knownBad {
		fd := &descriptorpb.FileDescriptorProto{Name: proto.String(fmt.Sprintf("zzgen/k%d.proto", i)), Package: proto.String(pkgPlaceholder), Syntax: proto.String("proto2"),
			MessageType: []*descriptorpb.DescriptorProto{b.build()}}
		rel := fmt.Sprintf("internal/zz_verif_gen_k%d", i)
		inst := instantiateSet([]*descriptorpb.FileDescriptorProto{fd}, fmt.Sprintf("zz.k%d", i), modulePath+"/"+rel, "zzk", func(s string) string { return s })
		po := e.runPlugin(makeRequest(inst, []string{inst[0].GetName()}, "default_api_level="+b.level))
		c.Case("known-bad|"+b.sig, true)
		if po.Exit != "" || po.Resp.Error != nil {
			c.Hist("known-bad:plugin-error:" + b.sig)
			continue
		}
		for _, rf := range po.Resp.File {
			r := strings.TrimPrefix(rf.GetName(), modulePath+"/")
			p := filepath.Join(dir, r)
			os.MkdirAll(filepath.Dir(p), 0o755)
			os.WriteFile(p, []byte(rf.GetContent()), 0o644)
			overlay[filepath.Join(e.repo, r)] = p
		}
		pkgs = append(pkgs, "./"+rel+"/")
		items = append(items, item{b, []*descriptorpb.FileDescriptorProto{fd}, rel})
	}
	ovPath := filepath.Join(dir, "overlay.json")
	ovb, _ := json.Marshal(map[string]any{"Replace": overlay})
	os.WriteFile(ovPath, ovb, 0o644)
	for _, it := range items {
		_, se, err, _ := runCmd(e.repo, goEnv(), nil, "go", "build", "-overlay", ovPath, "-o", os.DevNull, "./"+it.rel+"/")
		if err == nil {
			c.Hist("known-bad:compiles-now:" + it.b.sig)
			continue
		}
		c.Hist("known-bad:still-fails:" + it.b.sig)
		input := schemaInput{Kind: "c41-schema", Files: filesHex(it.files), Level: levelShort(it.b.level), Summary: "witness schema of " + it.b.sig, Compiler: head(strings.TrimSpace(string(se)), 600)}
		// classify through the same scan as random schemas
		inst := instantiateSet(it.files, "zz.scan", "example.com/zzscan", "zzscan", func(s string) string { return s })
		finds, _ := scanAllLevels(inst, []string{inst[0].GetName()})
		// the class the witness was written for, or (when that defect has been repaired and the witness now
		// fails for another listed reason) whatever listed class the scan finds
		sig := ""
		for _, f := range finds {
			if f.Sig != "" && f.Sig != steerSchemaIdent && (sig == "" || f.Sig == it.b.sig) {
				sig = f.Sig
			}
		}
		report(c, "generated code does not compile (witness schema of a known collision class)", input, sig)
	}
	_ = pkgs
}

func runC41(c *vh.Ctx) {
	c.R.Rule = "evaluations: plugin runs, gofmt runs, go builds, and every (level, message type, encoding) compared by the comparison program; " +
		"distinct non-trivial: distinct (level, message type, non-empty encoding) that both sides decoded without error, plus the toolchain steps"
	e, err := newEnv()
	if err != nil {
		panic(err)
	}
	defer e.cleanup()
	if err := e.buildPlugin(); err != nil {
		report(c, "cmd/protoc-gen-go of the tree under test does not build", map[string]string{"kind": "build", "error": err.Error()}, "")
		return
	}
	// replay: schemas (and encodings) of a replay file first
	bn := 0
	replayed := map[string]bool{}
	for _, raw := range c.ReplayInputs() {
		var si schemaInput
		if json.Unmarshal(raw, &si) != nil || si.Kind != "c41-schema" {
			continue
		}
		// one batch per distinct (schema, encoding)
		rk := strings.Join(si.Files, "|") + "|" + si.Msg + "|" + si.Bytes
		if replayed[rk] {
			continue
		}
		replayed[rk] = true
		var files []*descriptorpb.FileDescriptorProto
		for _, h := range si.Files {
			b, _ := hex.DecodeString(h)
			fd := &descriptorpb.FileDescriptorProto{}
			if proto.Unmarshal(b, fd) == nil {
				files = append(files, fd)
			}
		}
		cases := append([]cmpCase{}, pinnedCasesFor(files)...)
		if si.Msg != "" && si.Bytes != "" && !strings.Contains(si.Msg, "#") {
			cases = append(cases, cmpCase{Msg: si.Msg, Bytes: si.Bytes})
		}
		e.runBatch(c, 900+bn, files, cases, c.Seed, 10, "")
		bn++
	}
	if c.Replay != "" {
		return
	}
	e.runKnownBad(c)
	batches := c.N(2, 25)
	start := time.Now()
	budget := time.Duration(c.N(600, 3600)) * time.Second
	for b := 0; b < batches && unclassified < 6; b++ {
		if b > 0 && time.Since(start) > budget {
			c.R.Notes = appendNote(c.R.Notes, fmt.Sprintf("stopped by the wall-clock budget (%v) after %d of %d batches", budget, b, batches))
			c.Hist("stopped-by-time-budget")
			break
		}
		r := rand.New(rand.NewSource(c.Seed*7919 + int64(b)))
		nm := 3 + r.Intn(4)
		files := genPackage(c, r, b, nm)
		tags := ""
		// the hybrid level built with -tags protoopaque (its second generated file): the second batch of the quick
		// tier, every fifth batch of the thorough tier
		if (c.Thorough() && b%5 == 4) || (!c.Thorough() && b == 1) {
			tags = "protoopaque"
		}
		e.runBatch(c, b, files, pinnedCasesFor(files), c.Seed*31+int64(b), c.N(12, 25), tags)
	}
	keys := make([]string, 0, len(c.R.Histogram))
	for k := range c.R.Histogram {
		keys = append(keys, k)
	}
	sort.Strings(keys)
}

func pinnedCasesFor(files []*descriptorpb.FileDescriptorProto) []cmpCase {
	for _, f := range files {
		for _, m := range f.MessageType {
			if m.GetName() == "PinQ" {
				return pinnedCases
			}
		}
	}
	return nil
}
