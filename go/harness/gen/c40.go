package main

// C40: protoc-gen-go is deterministic.  Executed, not proved: the same request is piped through separate
// processes of the freshly built plugin; then file_to_generate is permuted, proto_file is re-ordered (another
// topological order), and every file is requested alone; responses are compared byte by byte (whole response
// for identical requests, per generated file name otherwise).

import (
	"bytes"
	"encoding/hex"
	"encoding/json"
	"fmt"
	"math/rand"
	"os"
	"path"
	"sort"
	"strings"
	"sync"
	"time"

	"google.golang.org/protobuf/cmd/protoc-gen-go/internal_gengo"
	"google.golang.org/protobuf/compiler/protogen"
	vh "google.golang.org/protobuf/internal/zz_verif_vh"
	"google.golang.org/protobuf/proto"
	"google.golang.org/protobuf/reflect/protodesc"
	"google.golang.org/protobuf/reflect/protoreflect"
	"google.golang.org/protobuf/reflect/protoregistry"
	"google.golang.org/protobuf/types/descriptorpb"
	"google.golang.org/protobuf/types/gofeaturespb"
	"google.golang.org/protobuf/types/pluginpb"
)

type c40Input struct {
	Kind    string `json:"kind"` // "c40-request"
	What    string `json:"what"`
	Request string `json:"request"` // hex CodeGeneratorRequest
	Other   string `json:"other,omitempty"`
	Param   string `json:"param"`
	Files   string `json:"files"`
	Diff    string `json:"diff,omitempty"`
}

// baseReq is one request shape before parameters are applied.
type baseReq struct {
	label string
	files []*descriptorpb.FileDescriptorProto // topological order, dependencies first
	toGen []string
}

func topoFiles(fds []protoreflect.FileDescriptor) []*descriptorpb.FileDescriptorProto {
	var out []*descriptorpb.FileDescriptorProto
	seen := map[string]bool{}
	var add func(fd protoreflect.FileDescriptor)
	add = func(fd protoreflect.FileDescriptor) {
		if seen[fd.Path()] {
			return
		}
		seen[fd.Path()] = true
		imps := fd.Imports()
		for i := 0; i < imps.Len(); i++ {
			add(imps.Get(i).FileDescriptor)
		}
		out = append(out, protodesc.ToFileDescriptorProto(fd))
	}
	for _, fd := range fds {
		add(fd)
	}
	return out
}

// linkedRequests groups the files linked into the harness by Go package.
func linkedRequests() []*baseReq {
	byPkg := map[string][]protoreflect.FileDescriptor{}
	protoregistry.GlobalFiles.RangeFiles(func(fd protoreflect.FileDescriptor) bool {
		gp := fd.Options().(*descriptorpb.FileOptions).GetGoPackage()
		if gp == "" {
			return true
		}
		if i := strings.Index(gp, ";"); i >= 0 {
			gp = gp[:i]
		}
		byPkg[gp] = append(byPkg[gp], fd)
		return true
	})
	var out []*baseReq
	for _, gp := range sortedKeys(byPkg) {
		fds := byPkg[gp]
		sort.Slice(fds, func(i, j int) bool { return fds[i].Path() < fds[j].Path() })
		br := &baseReq{label: gp, files: topoFiles(fds)}
		for _, fd := range fds {
			br.toGen = append(br.toGen, fd.Path())
		}
		out = append(out, br)
	}
	return out
}

// randomTopo returns another topological order of files (dependencies first) chosen by r.
func randomTopo(files []*descriptorpb.FileDescriptorProto, r *rand.Rand) []*descriptorpb.FileDescriptorProto {
	byName := map[string]*descriptorpb.FileDescriptorProto{}
	for _, f := range files {
		byName[f.GetName()] = f
	}
	done := map[string]bool{}
	var out []*descriptorpb.FileDescriptorProto
	for len(out) < len(files) {
		var ready []*descriptorpb.FileDescriptorProto
		for _, f := range files {
			if done[f.GetName()] {
				continue
			}
			ok := true
			for _, d := range f.Dependency {
				if byName[d] != nil && !done[d] {
					ok = false
				}
			}
			if ok {
				ready = append(ready, f)
			}
		}
		if len(ready) == 0 {
			return files
		}
		f := ready[r.Intn(len(ready))]
		done[f.GetName()] = true
		out = append(out, f)
	}
	return out
}

// params enumerates the parameter combinations of the property statement for one request.
func paramCombos(br *baseReq) []string {
	var out []string
	// the M mapping targets a dependency when there is one, else the generated file itself
	target := br.toGen[0]
	gen := map[string]bool{}
	for _, g := range br.toGen {
		gen[g] = true
	}
	for _, f := range br.files {
		if !gen[f.GetName()] {
			target = f.GetName()
		}
	}
	for _, api := range []string{"", "API_OPEN", "API_HYBRID", "API_OPAQUE"} {
		for _, paths := range []string{"", "paths=source_relative", "paths=import"} {
			for _, m := range []string{"", "M" + target + "=example.com/remapped/" + path.Base(strings.TrimSuffix(target, ".proto")) + ";zzremapped"} {
				for _, mod := range []string{"", "module=google.golang.org/protobuf"} {
					for _, ann := range []string{"", "annotate_code=true"} {
						if mod != "" && paths == "paths=source_relative" {
							continue // rejected by protogen: the combination does not exist
						}
						var p []string
						if api != "" {
							p = append(p, "default_api_level="+api)
						}
						for _, x := range []string{paths, m, mod, ann} {
							if x != "" {
								p = append(p, x)
							}
						}
						out = append(out, strings.Join(p, ","))
					}
				}
			}
		}
	}
	return out
}

type job struct {
	req *pluginpb.CodeGeneratorRequest
	raw []byte
	out *pluginOut
}

func (e *env) runJobs(jobs []*job) {
	var wg sync.WaitGroup
	sem := make(chan struct{}, 12)
	for _, j := range jobs {
		wg.Add(1)
		go func(j *job) {
			defer wg.Done()
			sem <- struct{}{}
			defer func() { <-sem }()
			j.raw, _ = proto.MarshalOptions{Deterministic: true}.Marshal(j.req)
			j.out = e.runPluginBytes(j.raw)
		}(j)
	}
	wg.Wait()
}

func mkReq(files []*descriptorpb.FileDescriptorProto, toGen []string, param string) *pluginpb.CodeGeneratorRequest {
	req := &pluginpb.CodeGeneratorRequest{FileToGenerate: toGen, ProtoFile: files}
	if param != "" {
		req.Parameter = proto.String(param)
	}
	return req
}

// checkRequest runs all variants of (br, param) and reports differences.
func (e *env) checkRequest(c *vh.Ctx, br *baseReq, param string, r *rand.Rand, singles bool, extra int) {
	base := &job{req: mkReq(br.files, br.toGen, param)}
	again := &job{req: mkReq(br.files, br.toGen, param)}
	jobs := []*job{base, again}
	// further identical runs (map-order dependence shows with probability 1/2 per pair when only two entries differ)
	var repeats []*job
	for i := 0; i < extra; i++ {
		j := &job{req: mkReq(br.files, br.toGen, param)}
		repeats = append(repeats, j)
		jobs = append(jobs, j)
	}
	type variant struct {
		what string
		j    *job
	}
	var vars []variant
	if len(br.toGen) > 1 {
		perm := append([]string{}, br.toGen...)
		for same := true; same; {
			r.Shuffle(len(perm), func(i, j int) { perm[i], perm[j] = perm[j], perm[i] })
			same = strings.Join(perm, ",") == strings.Join(br.toGen, ",")
		}
		vars = append(vars, variant{"file_to_generate permuted", &job{req: mkReq(br.files, perm, param)}})
		rev := append([]string{}, br.toGen...)
		for i, j := 0, len(rev)-1; i < j; i, j = i+1, j-1 {
			rev[i], rev[j] = rev[j], rev[i]
		}
		if strings.Join(rev, ",") != strings.Join(perm, ",") {
			vars = append(vars, variant{"file_to_generate reversed", &job{req: mkReq(br.files, rev, param)}})
		}
	}
	if len(br.files) > 1 {
		vars = append(vars, variant{"proto_file in another topological order", &job{req: mkReq(randomTopo(br.files, r), br.toGen, param)}})
	}
	for _, v := range vars {
		jobs = append(jobs, v.j)
	}
	var single []variant
	if singles && len(br.toGen) > 1 {
		for _, g := range br.toGen {
			v := variant{"single-file request for " + g, &job{req: mkReq(br.files, []string{g}, param)}}
			single = append(single, v)
			jobs = append(jobs, v.j)
		}
	}
	e.runJobs(jobs)
	in := func(what string, other *job, diff string) c40Input {
		x := c40Input{Kind: "c40-request", What: what, Request: hex.EncodeToString(base.raw), Param: param, Files: strings.Join(br.toGen, ","), Diff: diff}
		if other != nil {
			x.Other = hex.EncodeToString(other.raw)
		}
		return x
	}
	bf := base.out.files()
	nontrivial := base.out.Exit == "" && base.out.Resp.Error == nil && len(base.out.Resp.File) > 0
	c.Case("c40|"+br.label+"|"+param, nontrivial)
	switch {
	case base.out.Exit != "":
		c.Hist("response:process-failed")
	case base.out.Resp.Error != nil:
		c.Hist("response:error")
	default:
		c.Hist("response:files")
	}
	// 1. the same request in two processes: the whole response, byte for byte
	if !bytes.Equal(base.out.Raw, again.out.Raw) || base.out.Exit != again.out.Exit || base.out.Stderr != again.out.Stderr {
		d := "stdout/exit differ"
		af := again.out.files()
		for _, n := range sortedKeys(bf) {
			if af[n] != bf[n] {
				d = n + ": " + firstDiff(bf[n], af[n])
				break
			}
		}
		c.Check(false, "two runs of the same request in separate processes give different responses", in("same request twice", again, d), "")
	}
	for i, j := range repeats {
		c.Case("", false)
		if !bytes.Equal(base.out.Raw, j.out.Raw) || base.out.Exit != j.out.Exit {
			d := "stdout/exit differ"
			jf := j.out.files()
			for _, n := range sortedKeys(bf) {
				if jf[n] != bf[n] {
					d = n + ": " + firstDiff(bf[n], jf[n])
					break
				}
			}
			c.Check(false, "two runs of the same request in separate processes give different responses", in(fmt.Sprintf("same request, process %d", i+3), j, d), "")
			break
		}
	}
	// 1b. the generator run in-process (same tree, linked into the harness), two or three times: Go randomises map
	// iteration per loop, so order dependence also shows without a new process. In-process runs are compared with
	// each other only: the harness is a *different binary* from the plugin, and protoc-gen-go's output legitimately
	// depends on the binary in two ways — prototext whitespace of .meta files (internal/detrand seeds on the
	// binary), and which extensions are linked in (isTrackedMessage reads the field-tracking option from the
	// *unknown* fields of MessageOptions; a binary that links internal/testprotos/annotation parses it as a known
	// extension and generates no tracking code). Differences across the two binaries are counted, not failed.
	if base.out.Exit == "" && base.out.Resp.Error == nil {
		nin := 2
		if strings.HasPrefix(br.label, "random-") || br.label == "replay" {
			nin = 3
		}
		var first map[string]string
		for i := 0; i < nin; i++ {
			c.Case("", false)
			pf, perr := generateFromRequestBytes(base.raw)
			if perr != "" {
				c.Check(false, "in-process generation fails where the plugin subprocess succeeds", in("in-process run", nil, head(perr, 300)), "")
				break
			}
			if first == nil {
				first = pf
				same := len(pf) == len(bf)
				for _, n := range sortedKeys(bf) {
					if !strings.HasSuffix(n, ".meta") && pf[n] != bf[n] {
						if same {
							c.R.Notes = appendNote(c.R.Notes, "harness binary vs plugin binary (not a failure): "+br.label+" "+n+": "+head(firstDiff(bf[n], pf[n]), 220))
						}
						same = false
					}
				}
				if same {
					c.Hist("in-process-vs-plugin-binary:identical")
				} else {
					c.Hist("in-process-vs-plugin-binary:differs(by-design: linked extensions)")
				}
				continue
			}
			bad := len(pf) != len(first)
			d := "different file sets"
			for _, n := range sortedKeys(first) {
				if pf[n] != first[n] {
					bad, d = true, n+": "+firstDiff(first[n], pf[n])
					break
				}
			}
			if bad {
				c.Check(false, "two in-process runs of the generator on the same request give different files", in(fmt.Sprintf("in-process run %d vs run 1", i+1), nil, d), "")
				break
			}
			c.Hist("in-process-runs:identical")
		}
	}
	// 2. variants: per generated file name
	cmp := func(v variant, subset bool) {
		c.Case("", false)
		vf := v.j.out.files()
		for _, n := range sortedKeys(vf) {
			if subset && strings.HasPrefix(n, "!") && bf[n] == "" {
				// a single-file request may fail or succeed independently only if the batch did the same for that file
				c.Check(false, "a single-file request fails where the batch request succeeds", in(v.what, v.j, n+": "+head(vf[n], 300)), "")
				continue
			}
			if bf[n] != vf[n] {
				c.Check(false, "generated file differs: "+strings.SplitN(v.what, " for ", 2)[0], in(v.what, v.j, n+": "+firstDiff(bf[n], vf[n])), "")
			}
		}
		if !subset {
			for _, n := range sortedKeys(bf) {
				if _, ok := vf[n]; !ok {
					c.Check(false, "generated file missing: "+v.what, in(v.what, v.j, n), "")
				}
			}
		}
	}
	for _, v := range vars {
		cmp(v, false)
		if strings.HasPrefix(v.what, "proto_file") && !bytes.Equal(v.j.out.Raw, base.out.Raw) {
			c.Check(false, "response depends on the order of proto_file", in(v.what, v.j, ""), "")
		}
	}
	if _, failed := bf["!error"]; !failed && base.out.Exit == "" {
		union := map[string]bool{}
		for _, v := range single {
			cmp(v, true)
			for n := range v.j.out.files() {
				union[n] = true
			}
		}
		if len(single) > 0 {
			for _, n := range sortedKeys(bf) {
				if !union[n] {
					c.Check(false, "file generated by the batch request is generated by no single-file request", in("single-file requests", nil, n), "")
				}
			}
		}
	}
}

var pluginTypes *protoregistry.Types

func pluginLikeTypes() *protoregistry.Types {
	if pluginTypes == nil {
		pluginTypes = &protoregistry.Types{}
		pluginTypes.RegisterExtension(gofeaturespb.E_Go)
	}
	return pluginTypes
}

// generateFromRequestBytes runs protogen + internal_gengo in-process on a serialized request.
func generateFromRequestBytes(raw []byte) (files map[string]string, errText string) {
	defer func() {
		if e := recover(); e != nil {
			errText = fmt.Sprintf("panic: %v", e)
		}
	}()
	// parse the request the way the plugin binary does: it links descriptorpb, pluginpb and gofeaturespb only, so
	// (pb.go) features are known extensions and every other option stays in the unknown fields
	req := &pluginpb.CodeGeneratorRequest{}
	if err := (proto.UnmarshalOptions{Resolver: pluginLikeTypes()}).Unmarshal(raw, req); err != nil {
		return nil, err.Error()
	}
	gen, err := protogen.Options{}.New(req)
	if err != nil {
		return nil, err.Error()
	}
	for _, f := range gen.Files {
		if f.Generate {
			internal_gengo.GenerateFile(gen, f)
		}
	}
	resp := gen.Response()
	if resp.Error != nil {
		return nil, resp.GetError()
	}
	files = map[string]string{}
	for _, rf := range resp.File {
		files[rf.GetName()] = rf.GetContent()
	}
	return files, ""
}

// randomRequests builds requests from random valid schemas (the C41 generator): one package of three files.
func randomRequests(c *vh.Ctx, n int) []*baseReq {
	var out []*baseReq
	for i := 0; i < n; i++ {
		r := rand.New(rand.NewSource(c.Seed*104729 + int64(i)))
		g := newSgen(r, fmt.Sprintf("zzgen/r%d", i), c.Hist)
		p2 := g.file("proto2", "p2", 2+r.Intn(4), nil, nil)
		p3 := g.file("proto3", "p3", 2+r.Intn(4), []*descriptorpb.FileDescriptorProto{p2}, nil)
		ed := g.file("editions", "ed", 2+r.Intn(4), []*descriptorpb.FileDescriptorProto{p2, p3}, nil)
		// different Go packages for the three files in half of the requests (cross-package imports)
		var inst []*descriptorpb.FileDescriptorProto
		id := func(s string) string { return s }
		if r.Intn(2) == 0 {
			inst = instantiateSet([]*descriptorpb.FileDescriptorProto{p2, p3, ed}, fmt.Sprintf("zz.r%d", i), fmt.Sprintf("example.com/zz/r%d", i), "zzr", id)
		} else {
			for k, f := range []*descriptorpb.FileDescriptorProto{p2, p3, ed} {
				// package names chosen to collide after cleaning: import aliases get numeric suffixes
				inst = append(inst, instantiate(f, fmt.Sprintf("zz.r%d", i), fmt.Sprintf("example.com/zz/r%d/p%d/pkg", i, k), "pkg", id, 50000))
			}
		}
		if _, err := validate(inst); err != nil {
			c.R.Notes = appendNote(c.R.Notes, "random schema rejected by protodesc (skipped): "+head(err.Error(), 200))
			c.Hist("schema:invalid-file")
			continue
		}
		br := &baseReq{label: fmt.Sprintf("random-%d", i), files: append(wellKnownDeps(inst), inst...)}
		for _, f := range inst {
			br.toGen = append(br.toGen, f.GetName())
		}
		out = append(out, br)
	}
	return out
}

func runC40(c *vh.Ctx) {
	c.R.Rule = "evaluations: (request, parameter string) pairs plus each permuted / re-ordered / single-file variant compared; " +
		"distinct non-trivial: distinct (request, parameter string) pairs whose base response contains generated files (no error)"
	e, err := newEnv()
	if err != nil {
		panic(err)
	}
	defer e.cleanup()
	if err := e.buildPlugin(); err != nil {
		c.Check(false, "cmd/protoc-gen-go of the tree under test does not build", map[string]string{"kind": "build", "error": err.Error()}, "")
		return
	}
	r := rand.New(rand.NewSource(c.Seed))
	// replays
	for _, raw := range c.ReplayInputs() {
		var x c40Input
		if json.Unmarshal(raw, &x) != nil || x.Kind != "c40-request" {
			continue
		}
		rb, _ := hex.DecodeString(x.Request)
		req := &pluginpb.CodeGeneratorRequest{}
		if proto.Unmarshal(rb, req) != nil {
			continue
		}
		br := &baseReq{label: "replay", files: req.ProtoFile, toGen: req.FileToGenerate}
		e.checkRequest(c, br, req.GetParameter(), r, true, 6)
	}
	if c.Replay != "" {
		return
	}
	linked := linkedRequests()
	c.Hist(fmt.Sprintf("linked-go-packages:%d", len(linked)))
	nl := len(linked)
	if !c.Thorough() {
		// quick: a seed-dependent sample: three multi-file Go packages (they exercise permutation and
		// single-vs-batch) and seven others
		var multi, one []*baseReq
		for _, br := range linked {
			if len(br.toGen) > 1 {
				multi = append(multi, br)
			} else {
				one = append(one, br)
			}
		}
		r.Shuffle(len(multi), func(i, j int) { multi[i], multi[j] = multi[j], multi[i] })
		r.Shuffle(len(one), func(i, j int) { one[i], one[j] = one[j], one[i] })
		linked = append(append([]*baseReq{}, multi[:min(3, len(multi))]...), one[:min(7, len(one))]...)
		nl = len(linked)
	}
	reqs := append([]*baseReq{}, linked[:nl]...)
	if only := os.Getenv("VERIF_GEN_ONLY"); only != "" { // development aid: restrict to one linked Go package
		reqs = nil
		for _, br := range linkedRequests() {
			if strings.Contains(br.label, only) {
				reqs = append(reqs, br)
			}
		}
	}
	nlinked := len(reqs)
	reqs = append(reqs, randomRequests(c, c.N(5, 25))...)
	// thorough tier: ALL parameter combinations for a seed-dependent fifth of the requests (at least 5 multi-file
	// packages among them), six sampled combinations plus the four fixed ones for the rest
	full := map[int]bool{}
	if c.Thorough() {
		multi := 0
		for _, i := range r.Perm(len(reqs)) {
			isMulti := len(reqs[i].toGen) > 1
			if (isMulti && multi < 5) || len(full) < len(reqs)/5 {
				full[i] = true
				if isMulti {
					multi++
				}
			}
		}
	}
	_ = nlinked
	// wall-clock budget: on an overloaded machine the run degrades to fewer requests instead of running into
	// the timeout of bin/check (which would look like a violation)
	start := time.Now()
	budget := time.Duration(c.N(240, 1500)) * time.Second
	for ri, br := range reqs {
		if time.Since(start) > budget {
			c.R.Notes = appendNote(c.R.Notes, fmt.Sprintf("stopped by the wall-clock budget (%v) after %d of %d requests", budget, ri, len(reqs)))
			c.Hist("stopped-by-time-budget")
			break
		}
		combos := paramCombos(br)
		if !full[ri] {
			// the empty parameter, the three API levels, and a seed-dependent sample of the rest
			pick := []string{"", "default_api_level=API_OPEN", "default_api_level=API_HYBRID", "default_api_level=API_OPAQUE,annotate_code=true"}
			for k := 0; k < c.N(2, 6); k++ {
				pick = append(pick, combos[r.Intn(len(combos))])
			}
			combos = pick
			c.Hist("parameter-combinations:sampled")
		} else {
			c.Hist("parameter-combinations:all")
		}
		for pi, p := range combos {
			// single-file requests for every parameter string in the thorough tier, for the first one otherwise
			// random schemas carry map-valued custom options: more identical runs for their first parameter strings
			extra := 0
			if strings.HasPrefix(br.label, "random-") && pi < 2 {
				extra = 6
			}
			e.checkRequest(c, br, p, r, c.Thorough() || pi == 0, extra)
			if c.Failed() {
				return
			}
		}
		if len(c.R.Samples) < 8 {
			c.Sample(map[string]any{"request": br.label, "file_to_generate": br.toGen, "proto_files": len(br.files), "parameter_strings": len(combos)})
		}
	}
}
