package main

// Driving the Go toolchain and the freshly built protoc-gen-go as subprocesses.
//
// Everything is rebuilt from $VERIF_REPO's current working tree: the plugin binary with
// `go build -tags protolegacy ./cmd/protoc-gen-go`, generated packages through `go build -overlay`.
// Scratch output lives under $VERIF_WORK/gen_<pid>/ and is removed at exit.

import (
	"bytes"
	"fmt"
	"os"
	"os/exec"
	"path/filepath"
	"strings"
	"time"

	"google.golang.org/protobuf/proto"
	"google.golang.org/protobuf/types/pluginpb"
)

type env struct {
	repo, work, verif string
	scratch           string // $VERIF_WORK/gen_<pid>
	plugin            string // path of the built protoc-gen-go
}

func getenv(k, def string) string {
	if v := os.Getenv(k); v != "" {
		return v
	}
	return def
}

func goEnv() []string {
	e := os.Environ()
	e = append(e, "GOFLAGS=-mod=mod", "GOPROXY=off", "GOSUMDB=off", "GOTOOLCHAIN=local")
	if os.Getenv("CGO_ENABLED") == "" {
		e = append(e, "CGO_ENABLED=0")
	}
	return e
}

func newEnv() (*env, error) {
	e := &env{
		repo:  getenv("VERIF_REPO", "/repo"),
		verif: getenv("VERIF_DIR", "/verif"),
	}
	e.work = getenv("VERIF_WORK", filepath.Join(e.verif, ".work"))
	e.scratch = filepath.Join(e.work, fmt.Sprintf("gen_%d", os.Getpid()))
	// scratch directories of harness processes that were killed before their cleanup ran
	if ents, err := os.ReadDir(e.work); err == nil {
		for _, ent := range ents {
			var pid int
			if n, _ := fmt.Sscanf(ent.Name(), "gen_%d", &pid); n == 1 && ent.IsDir() {
				if _, err := os.Stat(fmt.Sprintf("/proc/%d", pid)); os.IsNotExist(err) {
					os.RemoveAll(filepath.Join(e.work, ent.Name()))
				}
			}
		}
	}
	if err := os.MkdirAll(e.scratch, 0o755); err != nil {
		return nil, err
	}
	return e, nil
}

func (e *env) cleanup() {
	if os.Getenv("VERIF_GEN_KEEP") != "" { // development aid
		return
	}
	os.RemoveAll(e.scratch)
}

// run executes a command and returns combined output, exit status and duration.
func runCmd(dir string, envv []string, stdin []byte, name string, args ...string) (stdout, stderr []byte, err error, dt time.Duration) {
	cmd := exec.Command(name, args...)
	cmd.Dir = dir
	cmd.Env = envv
	if stdin != nil {
		cmd.Stdin = bytes.NewReader(stdin)
	}
	var so, se bytes.Buffer
	cmd.Stdout, cmd.Stderr = &so, &se
	t0 := time.Now()
	err = cmd.Run()
	return so.Bytes(), se.Bytes(), err, time.Since(t0)
}

// buildPlugin builds cmd/protoc-gen-go of the tree under test (tag protolegacy: MessageSet test files).
func (e *env) buildPlugin() error {
	bin := filepath.Join(e.scratch, "protoc-gen-go")
	_, se, err, _ := runCmd(e.repo, goEnv(), nil, "go", "build", "-tags", "protolegacy", "-o", bin, "./cmd/protoc-gen-go")
	if err != nil {
		return fmt.Errorf("go build ./cmd/protoc-gen-go: %v: %s", err, tail(string(se), 1500))
	}
	e.plugin = bin
	return nil
}

func tail(s string, n int) string {
	if len(s) > n {
		return "…" + s[len(s)-n:]
	}
	return s
}

func head(s string, n int) string {
	if len(s) > n {
		return s[:n] + "…"
	}
	return s
}

// pluginOut is everything observable of one plugin run.
type pluginOut struct {
	Raw    []byte // stdout = serialized CodeGeneratorResponse
	Stderr string
	Exit   string // "" = exit 0
	Resp   *pluginpb.CodeGeneratorResponse
}

// runPlugin pipes one request through a fresh plugin process.
func (e *env) runPlugin(req *pluginpb.CodeGeneratorRequest) *pluginOut {
	b, err := proto.MarshalOptions{Deterministic: true}.Marshal(req)
	if err != nil {
		return &pluginOut{Exit: "marshal request: " + err.Error()}
	}
	return e.runPluginBytes(b)
}

func (e *env) runPluginBytes(b []byte) *pluginOut {
	so, se, err, _ := runCmd(e.scratch, os.Environ(), b, e.plugin)
	out := &pluginOut{Raw: so, Stderr: string(se)}
	if err != nil {
		out.Exit = err.Error()
		return out
	}
	out.Resp = &pluginpb.CodeGeneratorResponse{}
	if err := proto.Unmarshal(so, out.Resp); err != nil {
		out.Exit = "unparsable response: " + err.Error()
		out.Resp = nil
	}
	return out
}

// files returns name -> content of a response ("!error" holds the error text, "!exit" a failed process).
func (o *pluginOut) files() map[string]string {
	m := map[string]string{}
	if o.Exit != "" {
		m["!exit"] = o.Exit + "\n" + o.Stderr
		return m
	}
	if o.Resp.Error != nil {
		m["!error"] = o.Resp.GetError()
	}
	for _, f := range o.Resp.File {
		// a name generated twice in one response would be a defect in itself; keep both visible
		k := f.GetName()
		for {
			if _, dup := m[k]; !dup {
				break
			}
			k += "#dup"
		}
		m[k] = f.GetContent()
	}
	return m
}

func firstDiff(a, b string) string {
	la, lb := strings.Split(a, "\n"), strings.Split(b, "\n")
	for i := 0; i < len(la) && i < len(lb); i++ {
		if la[i] != lb[i] {
			return fmt.Sprintf("line %d: %q vs %q", i+1, head(la[i], 160), head(lb[i], 160))
		}
	}
	return fmt.Sprintf("length %d vs %d lines", len(la), len(lb))
}
