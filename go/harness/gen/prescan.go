package main

// In-process run of protogen + internal_gengo (the code of the tree under test, linked into the harness):
//   - the names protogen assigns (accessor method names for the comparison program),
//   - a duplicate-declaration scan of the generated code and the classifier of the collisions that are known
//     on the unchanged tree (same conditions as /verif/go/harness/names/classify.go, property C42), used to
//     steer the schema generator away from them and to classify non-compiling output.

import (
	"fmt"
	"go/ast"
	"go/parser"
	"go/token"
	"sort"
	"strconv"
	"strings"

	"google.golang.org/protobuf/cmd/protoc-gen-go/internal_gengo"
	"google.golang.org/protobuf/compiler/protogen"
	"google.golang.org/protobuf/internal/strs"
	"google.golang.org/protobuf/proto"
	"google.golang.org/protobuf/reflect/protodesc"
	"google.golang.org/protobuf/reflect/protoreflect"
	"google.golang.org/protobuf/reflect/protoregistry"
	"google.golang.org/protobuf/types/descriptorpb"
	"google.golang.org/protobuf/types/gofeaturespb"
	"google.golang.org/protobuf/types/pluginpb"
)

var apiLevels = []string{"API_OPEN", "API_HYBRID", "API_OPAQUE"}

func levelShort(l string) string { return strings.ToLower(strings.TrimPrefix(l, "API_")) }

const (
	sigOpaqueSuffix = "opaque-camelcase-suffix-collision"
	sigWrapper      = "oneof-wrapper-underscore-collision"
	sigOneofGetter  = "oneof-getter-not-reserved"
	sigOneofRelease = "oneof-releases-get-name"
	sigOneofCamel   = "opaque-oneof-camelcase-collision"
	sigProtoReflect = "protoreflect-not-reserved"
	// not a defect class of C42's list: two *declarations of the schema* (messages, enums, enum values,
	// extensions) map to one Go identifier (Foo_Bar vs Foo.Bar, enum value M.FOO vs wrapper of field f_o_o …).
	// The Go naming scheme has no resolution for these; the generator steers away and does not claim them.
	steerSchemaIdent = "schema-declarations-share-go-identifier"
)

// depsOf returns the FileDescriptorProtos of the well-known dependencies (from the linked registry), in
// topological order, that files need.
func wellKnownDeps(files []*descriptorpb.FileDescriptorProto) []*descriptorpb.FileDescriptorProto {
	own := map[string]bool{}
	for _, f := range files {
		own[f.GetName()] = true
	}
	var out []*descriptorpb.FileDescriptorProto
	seen := map[string]bool{}
	var add func(fd protoreflect.FileDescriptor)
	add = func(fd protoreflect.FileDescriptor) {
		if seen[fd.Path()] {
			return
		}
		seen[fd.Path()] = true
		imps := fd.Imports()
		for i := 0; i < imps.Len(); i++ {
			add(imps.Get(i).FileDescriptor)
		}
		out = append(out, protodesc.ToFileDescriptorProto(fd))
	}
	for _, f := range files {
		for _, d := range f.Dependency {
			if own[d] {
				continue
			}
			if fd, err := protoregistry.GlobalFiles.FindFileByPath(d); err == nil {
				add(fd)
			}
		}
	}
	return out
}

func makeRequest(files []*descriptorpb.FileDescriptorProto, toGen []string, param string) *pluginpb.CodeGeneratorRequest {
	req := &pluginpb.CodeGeneratorRequest{FileToGenerate: toGen, ProtoFile: append(wellKnownDeps(files), files...)}
	if param != "" {
		req.Parameter = proto.String(param)
	}
	return req
}

// Dup is one identifier declared twice in one generated file set of one build variant.
type Dup struct {
	Level string
	File  string
	Scope string // "" = package scope, else the type whose fields+methods clash
	Name  string
	Kinds []string // package scope: kinds of the clashing declarations (type, func, var, const)
}

func (d Dup) String() string {
	if d.Scope == "" {
		return d.Level + ":" + d.Name
	}
	return d.Level + ":" + d.Scope + "." + d.Name
}

// scanDups: package-scope identifiers declared twice across the given files (one Go package, one build
// variant) and names declared twice among the fields and methods of one type.
func scanDups(level string, srcs map[string]string) ([]Dup, error) {
	pkg := map[string][]string{}
	where := map[string]string{}
	members := map[string]map[string]int{}
	add := func(scope, name string) {
		if name == "_" {
			return
		}
		if members[scope] == nil {
			members[scope] = map[string]int{}
		}
		members[scope][name]++
	}
	for _, fname := range sortedKeys(srcs) {
		fset := token.NewFileSet()
		f, err := parser.ParseFile(fset, fname, srcs[fname], parser.SkipObjectResolution)
		if err != nil {
			return nil, err
		}
		for _, d := range f.Decls {
			switch d := d.(type) {
			case *ast.FuncDecl:
				if d.Recv == nil {
					if d.Name.Name != "init" {
						pkg[d.Name.Name] = append(pkg[d.Name.Name], "func")
						where[d.Name.Name] = fname
					}
					continue
				}
				t := d.Recv.List[0].Type
				if s, ok := t.(*ast.StarExpr); ok {
					t = s.X
				}
				if id, ok := t.(*ast.Ident); ok {
					add(id.Name, d.Name.Name)
				}
			case *ast.GenDecl:
				for _, s := range d.Specs {
					switch s := s.(type) {
					case *ast.TypeSpec:
						pkg[s.Name.Name] = append(pkg[s.Name.Name], "type")
						where[s.Name.Name] = fname
						if st, ok := s.Type.(*ast.StructType); ok {
							for _, fl := range st.Fields.List {
								for _, nm := range fl.Names {
									add(s.Name.Name, nm.Name)
								}
							}
						}
					case *ast.ValueSpec:
						k := "var"
						if d.Tok == token.CONST {
							k = "const"
						}
						for _, nm := range s.Names {
							if nm.Name != "_" {
								pkg[nm.Name] = append(pkg[nm.Name], k)
								where[nm.Name] = fname
							}
						}
					}
				}
			}
		}
	}
	var out []Dup
	for n, ks := range pkg {
		if len(ks) > 1 {
			out = append(out, Dup{Level: level, File: where[n], Name: n, Kinds: ks})
		}
	}
	for sc, mm := range members {
		for n, c := range mm {
			if c > 1 {
				out = append(out, Dup{Level: level, File: where[sc], Scope: sc, Name: n})
			}
		}
	}
	sort.Slice(out, func(i, j int) bool { return out[i].String() < out[j].String() })
	return out, nil
}

// genResult is one in-process generation.
type genResult struct {
	Level string
	Gen   *protogen.Plugin
	Files map[string]string // generated file name -> content
	Err   string
}

func generateInProcess(files []*descriptorpb.FileDescriptorProto, toGen []string, level string) (res *genResult) {
	res = &genResult{Level: level, Files: map[string]string{}}
	defer func() {
		if e := recover(); e != nil {
			res.Err = fmt.Sprintf("panic in protogen/internal_gengo: %v", e)
		}
	}()
	gen, err := protogen.Options{}.New(makeRequest(files, toGen, "default_api_level="+level))
	if err != nil {
		res.Err = err.Error()
		return res
	}
	res.Gen = gen
	for _, f := range gen.Files {
		if f.Generate {
			internal_gengo.GenerateFile(gen, f)
		}
	}
	resp := gen.Response()
	if resp.Error != nil {
		res.Err = resp.GetError()
		return res
	}
	for _, rf := range resp.File {
		res.Files[rf.GetName()] = rf.GetContent()
	}
	return res
}

// variants splits generated files into build variants (hybrid: !protoopaque / protoopaque).
func (r *genResult) variants() map[string]map[string]string {
	out := map[string]map[string]string{}
	for n, c := range r.Files {
		v := r.Level
		if strings.HasSuffix(n, "_protoopaque.pb.go") {
			v += "+protoopaque"
		}
		if out[v] == nil {
			out[v] = map[string]string{}
		}
		out[v][n] = c
	}
	return out
}

func allMessages(gen *protogen.Plugin) []*protogen.Message {
	var out []*protogen.Message
	var walk func(ms []*protogen.Message)
	walk = func(ms []*protogen.Message) {
		for _, m := range ms {
			out = append(out, m)
			walk(m.Messages)
		}
	}
	for _, f := range gen.Files {
		if f.Generate {
			walk(f.Messages)
		}
	}
	return out
}

func lowerFirst(s string) string {
	if s == "" {
		return s
	}
	return strings.ToLower(s[:1]) + s[1:]
}

func realOneof(f *protogen.Field) bool { return f.Oneof != nil && !f.Oneof.Desc.IsSynthetic() }

func oneofCamel(o *protogen.Oneof) string { return strs.GoCamelCase(string(o.Desc.Name())) }

// camelOf returns the camelCase protogen resolved for the oneof (it is unexported; the Which method name of a
// non-open message carries it).
func resolvedOneofCamel(o *protogen.Oneof) string {
	w := o.MethodName("Which")
	if w == "" {
		return oneofCamel(o)
	}
	return strings.TrimPrefix(strings.TrimPrefix(w, "Which"), "_")
}

// classify explains one duplicate declaration by one of the known signatures, or returns "".
// wrapperInvolved reports whether a package-scope duplicate involves a oneof wrapper type.
func classify(gen *protogen.Plugin, d Dup) (sig string, wrapperInvolved bool) {
	msgs := allMessages(gen)
	if d.Scope == "" || !isMsgScope(msgs, d.Scope) {
		w := d.Name
		if d.Scope != "" {
			w = d.Scope
		}
		for _, m := range msgs {
			var idx []*protogen.Field
			for _, f := range m.Fields {
				if realOneof(f) && (f.GoIdent.GoName == w || lowerFirst(f.GoIdent.GoName) == w) {
					idx = append(idx, f)
				}
			}
			if len(idx) >= 1 {
				wrapperInvolved = true
			}
			if len(idx) >= 2 {
				for _, f := range idx {
					if f.GoIdent.GoName != m.GoIdent.GoName+"_"+f.GoName || f.GoName != strs.GoCamelCase(string(f.Desc.Name())) {
						return sigWrapper, true
					}
				}
			}
		}
		return "", wrapperInvolved
	}
	var m *protogen.Message
	inBuilder := false
	for _, x := range msgs {
		if x.GoIdent.GoName == d.Scope {
			m = x
		}
		if x.GoIdent.GoName+"_builder" == d.Scope {
			m, inBuilder = x, true
		}
	}
	// (release) two struct members were given one Go name, and the duplicate identifier is built from it
	cnt := map[string]int{}
	for _, f := range m.Fields {
		cnt[f.GoName]++
	}
	for _, o := range m.Oneofs {
		cnt[o.GoName]++
	}
	for g, k := range cnt {
		if k >= 2 && strings.Contains(d.Name, g) {
			for _, o := range m.Oneofs {
				held := 0
				for _, f := range m.Fields {
					if f.GoName == "Get"+o.GoName {
						held++
					}
				}
				for _, p := range m.Oneofs {
					if p.GoName == "Get"+o.GoName {
						held++
					}
				}
				if held > 0 {
					return sigOneofRelease, false
				}
			}
		}
	}
	if inBuilder {
		return classifyCamel(m, d.Name), false
	}
	n := d.Name
	if strings.HasPrefix(d.Level, "API_OPEN") || m.APILevel == gofeaturespb.GoFeatures_API_OPEN {
		members := 0
		for _, f := range m.Fields {
			if f.GoName == n {
				members++
			}
		}
		for _, o := range m.Oneofs {
			if o.GoName == n {
				members++
			}
		}
		if n == "ProtoReflect" && members == 1 {
			return sigProtoReflect, false
		}
		other, getters := 0, 0
		for _, f := range m.Fields {
			if !realOneof(f) && f.GoName == n {
				other++
			}
			if "Get"+f.GoName == n {
				other++
			}
		}
		for _, o := range m.Oneofs {
			if o.Desc.IsSynthetic() {
				continue
			}
			if o.GoName == n {
				other++
			}
			if "Get"+o.GoName == n {
				getters++
			}
		}
		if getters >= 1 && other <= 1 {
			return sigOneofGetter, false
		}
		return "", false
	}
	for _, p := range []string{"Get", "Set", "Has", "Clear", "Which"} {
		if strings.HasPrefix(n, p) {
			if s := classifyCamel(m, strings.TrimPrefix(n[len(p):], "_")); s != "" {
				return s, false
			}
		}
	}
	return "", false
}

func isMsgScope(msgs []*protogen.Message, scope string) bool {
	for _, x := range msgs {
		if x.GoIdent.GoName == scope || x.GoIdent.GoName+"_builder" == scope {
			return true
		}
	}
	return false
}

func classifyCamel(m *protogen.Message, c string) string {
	var fi []*protogen.Field
	for _, f := range m.Fields {
		if f.BuilderFieldName() == c {
			fi = append(fi, f)
		}
	}
	no := 0
	for _, o := range m.Oneofs {
		if !o.Desc.IsSynthetic() && (resolvedOneofCamel(o) == c || oneofCamel(o) == c) {
			no++
		}
	}
	switch {
	case no >= 1 && no+len(fi) >= 2:
		return sigOneofCamel
	case len(fi) >= 2:
		for _, f := range fi {
			orig := strs.GoCamelCase(string(f.Desc.Name()))
			if orig == "Build" {
				orig = "Build_"
			}
			if orig != c {
				return sigOpaqueSuffix
			}
		}
	}
	return ""
}

// scanResult of one file set at the three API levels.
type scanFinding struct {
	Dup     Dup
	Sig     string // known signature, steerSchemaIdent, or "" (unclassified: would be a violation)
	Variant string
}

func scanAllLevels(files []*descriptorpb.FileDescriptorProto, toGen []string) (finds []scanFinding, errs []string) {
	for _, lvl := range apiLevels {
		res := generateInProcess(files, toGen, lvl)
		if res.Err != "" {
			errs = append(errs, lvl+": "+res.Err)
			continue
		}
		// names as they are before generation (generating the hybrid level rewrites every message to OPAQUE
		// for the _protoopaque variant)
		fresh, err := protogen.Options{}.New(makeRequest(files, toGen, "default_api_level="+lvl))
		if err != nil {
			errs = append(errs, lvl+": "+err.Error())
			continue
		}
		for v, srcs := range res.variants() {
			gen := fresh
			if strings.HasSuffix(v, "+protoopaque") {
				gen = res.Gen
			}
			dups, err := scanDups(v, srcs)
			if err != nil {
				errs = append(errs, v+": generated code does not parse: "+err.Error())
				continue
			}
			for _, d := range dups {
				sig, wrapper := classify(gen, d)
				if sig == "" && (d.Scope == "" || !isMsgScope(allMessages(gen), d.Scope)) && !wrapper {
					sig = steerSchemaIdent
				}
				finds = append(finds, scanFinding{Dup: d, Sig: sig, Variant: v})
			}
		}
	}
	return finds, errs
}

// nameTable extracts what the comparison program needs to call generated accessors.
type fieldNamesJSON struct {
	Get, Set, Has, Clear string
	GoName               string
	Builder              string
}
type msgNamesJSON struct {
	API    string                    `json:"api"`
	GoName string                    `json:"go_name"`
	Fields map[string]fieldNamesJSON `json:"fields"`
}

// nameTable needs a plugin on which GenerateFile has NOT run (generating the hybrid level rewrites the API
// level of every message for the _protoopaque variant). protoopaque selects that variant's names.
func nameTable(files []*descriptorpb.FileDescriptorProto, toGen []string, level string, protoopaque bool) (map[string]msgNamesJSON, error) {
	gen, err := protogen.Options{}.New(makeRequest(files, toGen, "default_api_level="+level))
	if err != nil {
		return nil, err
	}
	out := map[string]msgNamesJSON{}
	if protoopaque {
		// what internal_gengo.generateFiles does before emitting the _protoopaque variant of a hybrid file:
		// every message of the file becomes OPAQUE (also those with an explicit per-message level)
		for _, f := range gen.Files {
			if f.Generate && f.APILevel == gofeaturespb.GoFeatures_API_HYBRID {
				var walk func(ms []*protogen.Message)
				walk = func(ms []*protogen.Message) {
					for _, m := range ms {
						m.APILevel = gofeaturespb.GoFeatures_API_OPAQUE
						walk(m.Messages)
					}
				}
				walk(f.Messages)
			}
		}
	}
	for _, m := range allMessages(gen) {
		if m.Desc.IsMapEntry() {
			continue
		}
		mn := msgNamesJSON{API: m.APILevel.String(), GoName: m.GoIdent.GoName, Fields: map[string]fieldNamesJSON{}}
		for _, f := range m.Fields {
			fn := fieldNamesJSON{GoName: f.GoName, Builder: f.BuilderFieldName()}
			fn.Get, _ = f.MethodName("Get")
			fn.Set, _ = f.MethodName("Set")
			if f.Desc.HasPresence() {
				fn.Has, _ = f.MethodName("Has")
				fn.Clear, _ = f.MethodName("Clear")
			}
			mn.Fields[strconv.Itoa(int(f.Desc.Number()))] = fn
		}
		out[string(m.Desc.FullName())] = mn
	}
	return out, nil
}
