// Harness of the `gen` engine: properties C40 (code generation is deterministic) and C41 (generated code
// compiles and is faithful to its schema).  Unlike the other engines this harness drives the Go toolchain and
// the freshly built protoc-gen-go as subprocesses; see plugin.go, c40.go, c41.go, schema.go, prescan.go and
// cmp/ (the comparison program linked with the generated packages).
package main

import (
	"math/rand"

	vh "google.golang.org/protobuf/internal/zz_verif_vh"

	// files linked into the harness: the request corpus of C40
	_ "google.golang.org/protobuf/cmd/protoc-gen-go/testdata/comments"
	_ "google.golang.org/protobuf/cmd/protoc-gen-go/testdata/extensions/base"
	_ "google.golang.org/protobuf/cmd/protoc-gen-go/testdata/extensions/ext"
	_ "google.golang.org/protobuf/cmd/protoc-gen-go/testdata/extensions/extra"
	_ "google.golang.org/protobuf/cmd/protoc-gen-go/testdata/fieldnames"
	_ "google.golang.org/protobuf/cmd/protoc-gen-go/testdata/import_public"
	_ "google.golang.org/protobuf/cmd/protoc-gen-go/testdata/imports"
	_ "google.golang.org/protobuf/cmd/protoc-gen-go/testdata/imports/fmt"
	_ "google.golang.org/protobuf/cmd/protoc-gen-go/testdata/imports/test_a_1"
	_ "google.golang.org/protobuf/cmd/protoc-gen-go/testdata/imports/test_a_2"
	_ "google.golang.org/protobuf/cmd/protoc-gen-go/testdata/imports/test_b_1"
	_ "google.golang.org/protobuf/cmd/protoc-gen-go/testdata/nameclash/test_name_clash_hybrid"
	_ "google.golang.org/protobuf/cmd/protoc-gen-go/testdata/nameclash/test_name_clash_opaque"
	_ "google.golang.org/protobuf/cmd/protoc-gen-go/testdata/nameclash/test_name_clash_open"
	_ "google.golang.org/protobuf/cmd/protoc-gen-go/testdata/proto2"
	_ "google.golang.org/protobuf/cmd/protoc-gen-go/testdata/proto3"
	_ "google.golang.org/protobuf/cmd/protoc-gen-go/testdata/protoeditions"
	_ "google.golang.org/protobuf/cmd/protoc-gen-go/testdata/retention"
	_ "google.golang.org/protobuf/internal/testprotos/annotation"
	_ "google.golang.org/protobuf/internal/testprotos/conformance"
	_ "google.golang.org/protobuf/internal/testprotos/conformance/editions"
	_ "google.golang.org/protobuf/internal/testprotos/enums"
	_ "google.golang.org/protobuf/internal/testprotos/enums/enums_opaque"
	_ "google.golang.org/protobuf/internal/testprotos/fieldtrack"
	_ "google.golang.org/protobuf/internal/testprotos/fuzz"
	_ "google.golang.org/protobuf/internal/testprotos/lazy"
	_ "google.golang.org/protobuf/internal/testprotos/lazy/lazy_opaque"
	_ "google.golang.org/protobuf/internal/testprotos/messageset/messagesetpb"
	_ "google.golang.org/protobuf/internal/testprotos/messageset/msetextpb"
	_ "google.golang.org/protobuf/internal/testprotos/news"
	_ "google.golang.org/protobuf/internal/testprotos/order"
	_ "google.golang.org/protobuf/internal/testprotos/required"
	_ "google.golang.org/protobuf/internal/testprotos/required/required_opaque"
	_ "google.golang.org/protobuf/internal/testprotos/test"
	_ "google.golang.org/protobuf/internal/testprotos/test3"
	_ "google.golang.org/protobuf/internal/testprotos/testeditions"
	_ "google.golang.org/protobuf/internal/testprotos/testeditions/testeditions_hybrid"
	_ "google.golang.org/protobuf/internal/testprotos/testeditions/testeditions_opaque"
	_ "google.golang.org/protobuf/internal/testprotos/textpb2"
	_ "google.golang.org/protobuf/internal/testprotos/textpb3"
	_ "google.golang.org/protobuf/internal/testprotos/textpbeditions"
	_ "google.golang.org/protobuf/types/gofeaturespb"
	_ "google.golang.org/protobuf/types/known/anypb"
	_ "google.golang.org/protobuf/types/known/apipb"
	_ "google.golang.org/protobuf/types/known/durationpb"
	_ "google.golang.org/protobuf/types/known/emptypb"
	_ "google.golang.org/protobuf/types/known/fieldmaskpb"
	_ "google.golang.org/protobuf/types/known/structpb"
	_ "google.golang.org/protobuf/types/known/timestamppb"
	_ "google.golang.org/protobuf/types/known/wrapperspb"
	_ "google.golang.org/protobuf/types/pluginpb"
)

func main() { vh.Main("gen", run) }

func run(c *vh.Ctx) {
	switch c.Prop {
	case "C40":
		runC40(c)
	case "C41":
		runC41(c)
	case "SCHEMATEST": // development aid: validity rate of the schema generator
		schemaTest(c)
	default:
		panic("gen harness: unknown property " + c.Prop)
	}
}

func schemaTest(c *vh.Ctx) {
	for i := 0; i < c.N(30, 300); i++ {
		files := genPackage(c, rand.New(rand.NewSource(c.Seed*7919+int64(i))), i, 3+i%4)
		inst := instantiateSet(files, "zz.t", "example.com/zzt", "zzt", func(s string) string { return s })
		if _, err := validate(inst); err != nil {
			c.Check(false, "invalid", err.Error(), "")
		}
		c.Case("", false)
	}
}
