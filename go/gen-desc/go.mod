module verif/gen-desc

go 1.23
