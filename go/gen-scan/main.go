// Command gen-scan is the T2 tie of property C40 ("code generation is deterministic"): a typed AST scan of
// compiler/protogen, cmd/protoc-gen-go/internal_gengo and cmd/protoc-gen-go for iterations in unspecified
// order (`range` over a map-typed expression, `range maps.Keys(..)`, callback iteration such as
// protoreflect.Message.Range / protorange.Range / protoregistry.Range*) and for other sources of
// nondeterminism (time, randomness, environment, goroutines).
//
// Every site is classified by what its body does, transitively through the functions of the scanned packages:
//
//	emit        calls a method of *protogen.GeneratedFile / (*Plugin).Error, directly or through other functions
//	accumulate  appends to / writes into a variable that outlives the loop (the order may be emitted later)
//	mutate      calls a function of the scanned packages that writes through a parameter / receiver / package variable
//	            (the final state of shared objects may depend on the order)
//	returns     returns from the enclosing function (e.g. an error naming the current element)
//	sorted      every accumulated slice is passed to sort.* / slices.Sort* later in the same function
//
// The same is done for every call that serialises a protobuf message (proto.Marshal, proto.MarshalOptions{..}.
// Marshal/MarshalAppend/MarshalState, prototext / protojson Marshal and Format): a binary marshal whose bytes can
// reach the output must set Deterministic: true (map entries are otherwise written in Go's random map order).
//
// and compared with an explicit allow-list of the sites present today, each with the reason why it is harmless.
// A site that is not on the list and is not pure, or a listed site whose classification changed (the sort was
// removed, say), gets a non-ok status in the manifest: bin/check reports a broken tie.
//
// usage: gen-scan -repo DIR -manifest FILE
package main

import (
	"encoding/json"
	"flag"
	"fmt"
	"go/ast"
	"go/importer"
	"go/parser"
	"go/token"
	"go/types"
	"io"
	"os"
	"os/exec"
	"path/filepath"
	"sort"
	"strings"
)

const module = "google.golang.org/protobuf"

var scanned = []string{"compiler/protogen", "cmd/protoc-gen-go/internal_gengo", "cmd/protoc-gen-go"}

// allow-list: site key -> expected classification and the reason why the site is harmless.
type allowed struct{ class, why string }

var allow = map[string]allowed{
	"compiler/protogen.Options.New|range importPaths": {
		"accumulate=packageFiles",
		"groups file names by import path into packageFiles, which is read only by the consistency check that follows; " +
			"that check can only make Options.New return an error, upon which run() prints to stderr and exits 1 without writing a response"},
	"compiler/protogen.Options.New|range packageFiles": {
		"returns",
		"error path of Options.New (inconsistent package names for one import path): no CodeGeneratorResponse is produced; " +
			"with several inconsistent packages the stderr text may name any of them"},
	"compiler/protogen.GeneratedFile.Content|range g.packageNames": {
		"accumulate=importPaths sorted=importPaths",
		"collected into importPaths, which is sorted by import path before the import block is built; paths are distinct map keys, " +
			"so the sorted list is unique (Lean: C40.importBlock_perm_invariant, C40.importBlock_unique)"},
	"compiler/protogen.GeneratedFile.Content|range g.manualImports": {
		"accumulate=importPaths sorted=importPaths",
		"same list as above; blank imports are distinct from the named ones by construction (`if _, ok := g.packageNames[importPath]; !ok`)"},
	"compiler/protogen.GeneratedFile.generatedCodeInfo|range g.annotations": {
		"returns",
		"error path (an annotation names a symbol that does not exist in the generated file: a generator bug); " +
			"with several such annotations the error text names an arbitrary one; protoc-gen-go annotates only symbols it emits"},
	"cmd/protoc-gen-go/internal_gengo.stripSourceRetentionFieldsFromMessage|callback protorange.Range": {
		"pure",
		"visits every message of the descriptor tree; the callback only clears fields (order-independent)"},
	"cmd/protoc-gen-go/internal_gengo.stripSourceRetentionFieldsFromMessage|callback m2.Range": {
		"pure",
		"clears the populated fields whose options say retention = SOURCE; clearing is order-independent"},
}

// marshal call sites: key -> expected classification and why the site is harmless.
var allowMarshal = map[string]allowed{
	"cmd/protoc-gen-go/internal_gengo.genFileDescriptor|proto.MarshalOptions{…}.Marshal": {
		"binary deterministic arg=*google.golang.org/protobuf/types/descriptorpb.FileDescriptorProto",
		"the raw descriptor embedded in the generated file: Deterministic orders the map entries of custom options whose message types have map fields " +
			"(descriptor.proto itself has none); anything else than `deterministic` here breaks C40"},
	"compiler/protogen.run|proto.Marshal": {
		"binary default-options arg=*google.golang.org/protobuf/types/pluginpb.CodeGeneratorResponse",
		"the response itself: CodeGeneratorResponse (and File, GeneratedCodeInfo) has no map fields and no extension ranges, and is built field by field " +
			"without unknown fields, so non-deterministic marshalling has nothing to reorder"},
	"compiler/protogen.Options.New|proto.Marshal": {
		"binary default-options arg=google.golang.org/protobuf/reflect/protoreflect.ProtoMessage",
		"bytes are re-parsed into the same FileDescriptorProto on the next line (to resolve custom options against the request's own extensions) and never emitted"},
	"compiler/protogen.GeneratedFile.metaFile|prototext.Marshal": {
		"text arg=*google.golang.org/protobuf/types/descriptorpb.GeneratedCodeInfo",
		"the .meta file of annotate_code: GeneratedCodeInfo has no map fields; prototext orders map entries by key anyway and its whitespace " +
			"variation (detrand) is a function of the binary, not of the run"},
}

// selectors of nondeterministic inputs; os.Stdin/Stdout/Stderr/Exit/Args are the plugin protocol itself
var suspectPkgs = map[string]bool{"time": true, "math/rand": true, "math/rand/v2": true, "crypto/rand": true, "os": true,
	"runtime": true, "os/user": true, "net": true, "syscall": true, "os/exec": true, "unsafe": false}
var allowedSel = map[string]bool{"os.Stdin": true, "os.Stdout": true, "os.Stderr": true, "os.Exit": true, "os.Args": true}

type entry struct {
	Status string `json:"status"`
	Value  string `json:"value"`
	Where  string `json:"where,omitempty"`
	Why    string `json:"why,omitempty"`
}

type pkgInfo struct {
	dir   string
	files []*ast.File
	info  *types.Info
	pkg   *types.Package
}

func main() {
	repo := flag.String("repo", "/repo", "repository under test")
	manifest := flag.String("manifest", "", "manifest output")
	flag.Parse()
	man := map[string]entry{}
	fail := func(k, msg string) {
		man[k] = entry{Status: msg, Value: ""}
	}
	defer func() {
		if *manifest != "" {
			b, _ := json.MarshalIndent(man, "", " ")
			if err := os.WriteFile(*manifest, b, 0o644); err != nil {
				fmt.Fprintln(os.Stderr, err)
				os.Exit(2)
			}
		}
		keys := make([]string, 0, len(man))
		for k := range man {
			keys = append(keys, k)
		}
		sort.Strings(keys)
		for _, k := range keys {
			fmt.Printf("%-4s %s  [%s] %s\n", map[bool]string{true: "ok", false: "FAIL"}[man[k].Status == "ok"], k, man[k].Value, man[k].Where)
			if man[k].Status != "ok" {
				fmt.Printf("     -> %s\n", man[k].Status)
			}
		}
	}()

	// export data of all dependencies (fast: the build cache has them after the plugin was built)
	args := []string{"list", "-export", "-deps", "-f", "{{.ImportPath}} {{.Export}}"}
	for _, d := range scanned {
		args = append(args, "./"+d)
	}
	cmd := exec.Command("go", args...)
	cmd.Dir = *repo
	cmd.Env = append(os.Environ(), "GOFLAGS=-mod=mod", "GOPROXY=off", "GOSUMDB=off", "GOTOOLCHAIN=local")
	cmd.Stderr = os.Stderr
	outb, err := cmd.Output()
	if err != nil {
		fail("scan", "go list -export failed (the generator packages do not build): "+err.Error())
		return
	}
	exp := map[string]string{}
	for _, l := range strings.Split(string(outb), "\n") {
		if p := strings.Fields(l); len(p) == 2 {
			exp[p[0]] = p[1]
		}
	}
	fset := token.NewFileSet()
	imp := importer.ForCompiler(fset, "gc", func(path string) (io.ReadCloser, error) {
		f, ok := exp[path]
		if !ok {
			return nil, fmt.Errorf("no export data for %s", path)
		}
		return os.Open(f)
	})
	var pkgs []*pkgInfo
	for _, dir := range scanned {
		ents, err := os.ReadDir(filepath.Join(*repo, dir))
		if err != nil {
			fail("scan:"+dir, "directory disappeared: "+err.Error())
			continue
		}
		p := &pkgInfo{dir: dir, info: &types.Info{Types: map[ast.Expr]types.TypeAndValue{}, Uses: map[*ast.Ident]types.Object{}, Defs: map[*ast.Ident]types.Object{}, Selections: map[*ast.SelectorExpr]*types.Selection{}}}
		for _, e := range ents {
			if e.IsDir() || !strings.HasSuffix(e.Name(), ".go") || strings.HasSuffix(e.Name(), "_test.go") {
				continue
			}
			f, err := parser.ParseFile(fset, filepath.Join(*repo, dir, e.Name()), nil, parser.ParseComments)
			if err != nil {
				fail("scan:"+dir+"/"+e.Name(), "does not parse: "+err.Error())
				continue
			}
			p.files = append(p.files, f)
		}
		var terrs []string
		conf := types.Config{Importer: imp, Error: func(err error) { terrs = append(terrs, err.Error()) }}
		p.pkg, _ = conf.Check(module+"/"+dir, fset, p.files, p.info)
		if len(terrs) > 0 {
			fail("scan:"+dir, "type errors (cannot classify): "+strings.Join(terrs[:min(3, len(terrs))], "; "))
		}
		pkgs = append(pkgs, p)
	}
	s := &scanner{fset: fset, pkgs: pkgs, repo: *repo, decls: map[types.Object]*ast.FuncDecl{}, declPkg: map[types.Object]*pkgInfo{}, emits: map[types.Object]bool{}, mutates: map[types.Object]bool{}}
	s.index()
	s.closure()
	s.mutators()
	seen := map[string]bool{}
	for _, p := range pkgs {
		for _, f := range p.files {
			for _, d := range f.Decls {
				fd, ok := d.(*ast.FuncDecl)
				if !ok || fd.Body == nil {
					continue
				}
				for _, site := range s.sites(p, fd) {
					k := site.key
					for n := 2; seen[k]; n++ {
						k = fmt.Sprintf("%s#%d", site.key, n)
					}
					seen[k] = true
					e := entry{Value: site.class, Where: site.where}
					a, listed := allow[k]
					switch {
					case listed && a.class == site.class:
						e.Status, e.Why = "ok", a.why
					case listed:
						e.Status = fmt.Sprintf("classification of an allow-listed unordered iteration changed: expected [%s], found [%s] (%s)", a.class, site.class, site.where)
					case site.class == "pure":
						e.Status, e.Why = "ok", "new site, body has no effect on output order (no emission, no accumulation outside the loop, no return)"
					default:
						e.Status = fmt.Sprintf("new unordered iteration that can reach the output: [%s] at %s", site.class, site.where)
					}
					man["site:"+k] = e
				}
				for _, site := range s.marshalSites(p, fd) {
					k := site.key
					for n := 2; seen["m:"+k]; n++ {
						k = fmt.Sprintf("%s#%d", site.key, n)
					}
					seen["m:"+k] = true
					e := entry{Value: site.class, Where: site.where}
					a, listed := allowMarshal[k]
					switch {
					case listed && a.class == site.class:
						e.Status, e.Why = "ok", a.why
					case listed:
						e.Status = fmt.Sprintf("classification of an allow-listed Marshal call changed: expected [%s], found [%s] (%s)", a.class, site.class, site.where)
					case strings.HasPrefix(site.class, "binary deterministic") || strings.HasPrefix(site.class, "text"):
						e.Status, e.Why = "ok", "new site; deterministic binary marshal / key-ordered text marshal"
					default:
						e.Status = fmt.Sprintf("new protobuf Marshal call without Deterministic: true in the generator: [%s] at %s", site.class, site.where)
					}
					man["marshal:"+k] = e
				}
			}
		}
	}
	for k, a := range allowMarshal {
		if !seen["m:"+k] {
			st := "ok"
			if strings.Contains(k, "genFileDescriptor") {
				st = "the deterministic Marshal call of genFileDescriptor was not found (shape changed; cannot confirm that the embedded raw descriptor is marshalled deterministically)"
			}
			man["marshal:"+k] = entry{Status: st, Value: "gone", Why: "allow-listed Marshal call no longer exists (was: " + a.class + ")"}
		}
	}
	for k, a := range allow {
		if !seen[k] {
			man["site:"+k] = entry{Status: "ok", Value: "gone", Why: "allow-listed site no longer exists (was: " + a.class + ")"}
		}
	}
	s.facts(man)
}

type scanner struct {
	fset    *token.FileSet
	pkgs    []*pkgInfo
	repo    string
	decls   map[types.Object]*ast.FuncDecl
	declPkg map[types.Object]*pkgInfo
	emits   map[types.Object]bool
	mutates map[types.Object]bool // declared functions that write through a parameter / receiver / package variable
}

func (s *scanner) index() {
	for _, p := range s.pkgs {
		for _, f := range p.files {
			for _, d := range f.Decls {
				if fd, ok := d.(*ast.FuncDecl); ok && fd.Body != nil {
					if obj := p.info.Defs[fd.Name]; obj != nil {
						s.decls[obj] = fd
						s.declPkg[obj] = p
					}
				}
			}
		}
	}
}

// isEmitter: methods of *protogen.GeneratedFile that write output or change what is written, Plugin.Error.
func isEmitter(obj types.Object) bool {
	fn, ok := obj.(*types.Func)
	if !ok || fn.Pkg() == nil || fn.Pkg().Path() != module+"/compiler/protogen" {
		return false
	}
	sig := fn.Type().(*types.Signature)
	if sig.Recv() == nil {
		return false
	}
	t := sig.Recv().Type()
	if pt, ok := t.(*types.Pointer); ok {
		t = pt.Elem()
	}
	nt, ok := t.(*types.Named)
	if !ok {
		return false
	}
	switch nt.Obj().Name() {
	case "GeneratedFile":
		switch fn.Name() {
		case "P", "Write", "Import", "QualifiedGoIdent", "Annotate", "AnnotateSymbol", "Skip", "Unskip":
			return true
		}
	case "Plugin":
		switch fn.Name() {
		case "Error", "NewGeneratedFile":
			return true
		}
	}
	return false
}

func (s *scanner) callee(p *pkgInfo, call *ast.CallExpr) types.Object {
	switch f := call.Fun.(type) {
	case *ast.Ident:
		return p.info.Uses[f]
	case *ast.SelectorExpr:
		return p.info.Uses[f.Sel]
	}
	return nil
}

// nodeEmits: does the syntax tree n contain a call that (transitively) emits?
func (s *scanner) nodeEmits(p *pkgInfo, n ast.Node, closures map[types.Object]*ast.FuncLit, depth int) bool {
	found := false
	ast.Inspect(n, func(x ast.Node) bool {
		if found {
			return false
		}
		call, ok := x.(*ast.CallExpr)
		if !ok {
			return true
		}
		obj := s.callee(p, call)
		if obj == nil {
			return true
		}
		if isEmitter(obj) || s.emits[obj] {
			found = true
			return false
		}
		if lit, ok := closures[obj]; ok && depth < 5 {
			if s.nodeEmits(p, lit.Body, closures, depth+1) {
				found = true
				return false
			}
		}
		// writing through fmt.Fprint*(g, …) where g is a *GeneratedFile
		if fn, ok := obj.(*types.Func); ok && fn.Pkg() != nil && fn.Pkg().Path() == "fmt" && strings.HasPrefix(fn.Name(), "Fprint") && len(call.Args) > 0 {
			if tv, ok := p.info.Types[call.Args[0]]; ok && strings.Contains(tv.Type.String(), "protogen.GeneratedFile") {
				found = true
				return false
			}
		}
		return true
	})
	return found
}

// closure computes the set of declared functions that transitively emit.
func (s *scanner) closure() {
	for changed := true; changed; {
		changed = false
		for obj, fd := range s.decls {
			if s.emits[obj] {
				continue
			}
			if s.nodeEmits(s.declPkg[obj], fd.Body, nil, 0) {
				s.emits[obj] = true
				changed = true
			}
		}
	}
}

// mutators: a declared function "mutates" if it assigns through a selector / index / dereference rooted at one of
// its parameters, its receiver or a package-level variable, or calls a function that does. Called from the body of
// an unordered iteration, such a function makes the final state depend on the iteration order (seeded change C40-2:
// resolveCamelCaseConflict appends a suffix to the shared oneof name once per collision group).
func (s *scanner) mutators() {
	direct := func(p *pkgInfo, fd *ast.FuncDecl) bool {
		params := map[types.Object]bool{}
		add := func(fl *ast.FieldList) {
			if fl == nil {
				return
			}
			for _, f := range fl.List {
				for _, n := range f.Names {
					if obj := p.info.Defs[n]; obj != nil {
						params[obj] = true
					}
				}
			}
		}
		add(fd.Recv)
		add(fd.Type.Params)
		found := false
		check := func(l ast.Expr) {
			if _, plain := l.(*ast.Ident); plain {
				// assignment to a package-level variable
				if obj, ok := p.info.Uses[l.(*ast.Ident)].(*types.Var); ok && obj.Parent() == p.pkg.Scope() {
					found = true
				}
				return
			}
			e := l
			for {
				switch x := e.(type) {
				case *ast.SelectorExpr:
					e = x.X
					continue
				case *ast.IndexExpr:
					e = x.X
					continue
				case *ast.StarExpr:
					e = x.X
					continue
				case *ast.ParenExpr:
					e = x.X
					continue
				case *ast.Ident:
					if obj := p.info.Uses[x]; obj != nil {
						if v, ok := obj.(*types.Var); ok && (params[obj] || v.Parent() == p.pkg.Scope()) {
							found = true
						}
					}
				}
				return
			}
		}
		ast.Inspect(fd.Body, func(n ast.Node) bool {
			switch x := n.(type) {
			case *ast.AssignStmt:
				for _, l := range x.Lhs {
					check(l)
				}
			case *ast.IncDecStmt:
				check(x.X)
			}
			return !found
		})
		return found
	}
	for obj, fd := range s.decls {
		if direct(s.declPkg[obj], fd) {
			s.mutates[obj] = true
		}
	}
	for changed := true; changed; {
		changed = false
		for obj, fd := range s.decls {
			if s.mutates[obj] {
				continue
			}
			p := s.declPkg[obj]
			ast.Inspect(fd.Body, func(n ast.Node) bool {
				if call, ok := n.(*ast.CallExpr); ok {
					if c := s.callee(p, call); c != nil && s.mutates[c] {
						s.mutates[obj] = true
						changed = true
						return false
					}
				}
				return !s.mutates[obj]
			})
		}
	}
}

type site struct{ key, class, where string }

func funcName(fd *ast.FuncDecl) string {
	if fd.Recv != nil && len(fd.Recv.List) > 0 {
		t := fd.Recv.List[0].Type
		if st, ok := t.(*ast.StarExpr); ok {
			t = st.X
		}
		if id, ok := t.(*ast.Ident); ok {
			return id.Name + "." + fd.Name.Name
		}
	}
	return fd.Name.Name
}

func isMapType(t types.Type) bool {
	if t == nil {
		return false
	}
	_, ok := t.Underlying().(*types.Map)
	return ok
}

// unorderedCallback: calls whose callback is invoked in unspecified order.
func unorderedCallback(obj types.Object) bool {
	fn, ok := obj.(*types.Func)
	if !ok || fn.Pkg() == nil || !strings.HasPrefix(fn.Name(), "Range") {
		return false
	}
	switch fn.Pkg().Path() {
	case module + "/reflect/protoreflect", module + "/reflect/protoregistry", module + "/reflect/protorange", "sync",
		module + "/internal/order":
		return true
	}
	return false
}

func (s *scanner) sites(p *pkgInfo, fd *ast.FuncDecl) []site {
	var out []site
	// local closures: x := func(...) {...}
	closures := map[types.Object]*ast.FuncLit{}
	ast.Inspect(fd.Body, func(n ast.Node) bool {
		if as, ok := n.(*ast.AssignStmt); ok && len(as.Lhs) == len(as.Rhs) {
			for i, r := range as.Rhs {
				if lit, ok := r.(*ast.FuncLit); ok {
					if id, ok := as.Lhs[i].(*ast.Ident); ok {
						if obj := p.info.Defs[id]; obj != nil {
							closures[obj] = lit
						} else if obj := p.info.Uses[id]; obj != nil {
							closures[obj] = lit
						}
					}
				}
			}
		}
		return true
	})
	add := func(kind, expr string, pos token.Pos, body ast.Node, isCallback bool) {
		pp := s.fset.Position(pos)
		rel, _ := filepath.Rel(s.repo, pp.Filename)
		class := s.classify(p, fd, body, closures, isCallback)
		out = append(out, site{key: fmt.Sprintf("%s.%s|%s %s", p.dir, funcName(fd), kind, expr), class: class, where: fmt.Sprintf("%s:%d", rel, pp.Line)})
	}
	ast.Inspect(fd.Body, func(n ast.Node) bool {
		switch x := n.(type) {
		case *ast.RangeStmt:
			tv, ok := p.info.Types[x.X]
			if ok && isMapType(tv.Type) {
				add("range", types.ExprString(x.X), x.Pos(), x.Body, false)
			} else if call, ok := x.X.(*ast.CallExpr); ok {
				if obj := s.callee(p, call); obj != nil && obj.Pkg() != nil && obj.Pkg().Path() == "maps" {
					add("range", types.ExprString(x.X), x.Pos(), x.Body, false)
				}
			}
		case *ast.CallExpr:
			if obj := s.callee(p, x); obj != nil && unorderedCallback(obj) {
				for _, a := range x.Args {
					if lit, ok := a.(*ast.FuncLit); ok {
						add("callback", types.ExprString(x.Fun), x.Pos(), lit.Body, true)
					}
				}
			}
		}
		return true
	})
	return out
}

// marshalSites lists the calls in fd that serialise a protobuf message.
func (s *scanner) marshalSites(p *pkgInfo, fd *ast.FuncDecl) []site {
	var out []site
	pbPkgs := map[string]string{module + "/proto": "binary", module + "/encoding/prototext": "text", module + "/encoding/protojson": "text"}
	ast.Inspect(fd.Body, func(n ast.Node) bool {
		call, ok := n.(*ast.CallExpr)
		if !ok {
			return true
		}
		fn, ok := s.callee(p, call).(*types.Func)
		if !ok || fn.Pkg() == nil {
			return true
		}
		kind, ok := pbPkgs[fn.Pkg().Path()]
		if !ok {
			return true
		}
		switch fn.Name() {
		case "Marshal", "MarshalAppend", "MarshalState", "Format":
		default:
			return true
		}
		class := kind
		sig := fn.Type().(*types.Signature)
		if kind == "binary" {
			switch {
			case sig.Recv() == nil:
				class += " default-options"
			default:
				sel, _ := call.Fun.(*ast.SelectorExpr)
				lit, isLit := ast.Expr(nil), false
				if sel != nil {
					lit = sel.X
					for {
						if pe, ok := lit.(*ast.ParenExpr); ok {
							lit = pe.X
							continue
						}
						break
					}
					_, isLit = lit.(*ast.CompositeLit)
				}
				if !isLit {
					class += " options-not-a-literal"
					break
				}
				det := false
				for _, el := range lit.(*ast.CompositeLit).Elts {
					if kv, ok := el.(*ast.KeyValueExpr); ok {
						if id, ok := kv.Key.(*ast.Ident); ok && id.Name == "Deterministic" {
							if tv, ok := p.info.Types[kv.Value]; ok && tv.Value != nil && tv.Value.String() == "true" {
								det = true
							}
						}
					}
				}
				if det {
					class += " deterministic"
				} else {
					class += " options-without-Deterministic"
				}
			}
		}
		// the message argument: last argument for Marshal/Format, second for MarshalAppend
		if len(call.Args) > 0 {
			arg := call.Args[len(call.Args)-1]
			if tv, ok := p.info.Types[arg]; ok && tv.Type != nil {
				class += " arg=" + tv.Type.String()
			}
		}
		pp := s.fset.Position(call.Pos())
		rel, _ := filepath.Rel(s.repo, pp.Filename)
		out = append(out, site{key: fmt.Sprintf("%s.%s|%s", p.dir, funcName(fd), types.ExprString(call.Fun)), class: class, where: fmt.Sprintf("%s:%d", rel, pp.Line)})
		return true
	})
	return out
}

// classify the body of one unordered iteration.
func (s *scanner) classify(p *pkgInfo, fd *ast.FuncDecl, body ast.Node, closures map[types.Object]*ast.FuncLit, isCallback bool) string {
	var parts []string
	if s.nodeEmits(p, body, closures, 0) {
		parts = append(parts, "emit")
	}
	// variables declared inside the body
	local := map[types.Object]bool{}
	ast.Inspect(body, func(n ast.Node) bool {
		if id, ok := n.(*ast.Ident); ok {
			if obj := p.info.Defs[id]; obj != nil {
				local[obj] = true
			}
		}
		return true
	})
	root := func(e ast.Expr) (types.Object, string) {
		for {
			switch x := e.(type) {
			case *ast.Ident:
				return p.info.Uses[x], x.Name
			case *ast.SelectorExpr:
				// field of something: the root variable decides locality, the name shown is the selector
				obj, _ := func() (types.Object, string) {
					r := x.X
					for {
						switch y := r.(type) {
						case *ast.Ident:
							return p.info.Uses[y], y.Name
						case *ast.SelectorExpr:
							r = y.X
						case *ast.IndexExpr:
							r = y.X
						case *ast.StarExpr:
							r = y.X
						case *ast.ParenExpr:
							r = y.X
						default:
							return nil, ""
						}
					}
				}()
				return obj, types.ExprString(x)
			case *ast.IndexExpr:
				e = x.X
			case *ast.StarExpr:
				e = x.X
			case *ast.ParenExpr:
				e = x.X
			default:
				return nil, ""
			}
		}
	}
	// local variables that hold freshly allocated memory (writes through them stay inside the iteration)
	fresh := map[types.Object]bool{}
	isFresh := func(e ast.Expr) bool {
		switch x := e.(type) {
		case *ast.CompositeLit:
			return true
		case *ast.UnaryExpr:
			_, ok := x.X.(*ast.CompositeLit)
			return x.Op == token.AND && ok
		case *ast.CallExpr:
			if id, ok := x.Fun.(*ast.Ident); ok && (id.Name == "new" || id.Name == "make") {
				return true
			}
		}
		return false
	}
	ast.Inspect(body, func(n ast.Node) bool {
		if as, ok := n.(*ast.AssignStmt); ok && as.Tok == token.DEFINE && len(as.Lhs) == len(as.Rhs) {
			for i, l := range as.Lhs {
				if id, ok := l.(*ast.Ident); ok && isFresh(as.Rhs[i]) {
					if obj := p.info.Defs[id]; obj != nil {
						fresh[obj] = true
					}
				}
			}
		}
		return true
	})
	isRef := func(obj types.Object) bool {
		switch obj.Type().Underlying().(type) {
		case *types.Pointer, *types.Map, *types.Slice, *types.Interface:
			return true
		}
		return false
	}
	acc := map[string]bool{}
	mut := map[string]bool{}
	returns := false
	ast.Inspect(body, func(n ast.Node) bool {
		switch x := n.(type) {
		case *ast.FuncLit:
			if !isCallback {
				return true
			}
		case *ast.CallExpr:
			if obj := s.callee(p, x); obj != nil && s.mutates[obj] {
				mut[obj.Name()] = true
			}
		case *ast.AssignStmt:
			for i, l := range x.Lhs {
				obj, name := root(l)
				if obj == nil || name == "_" {
					continue
				}
				if local[obj] {
					// a write *through* a local reference that was not allocated inside the body reaches shared memory
					if _, plain := l.(*ast.Ident); plain || fresh[obj] || !isRef(obj) {
						continue
					}
					name = "*" + name
				}
				if _, isVar := obj.(*types.Var); !isVar {
					continue
				}
				// m[k] = v with v not built from the previous content of m[k] is order-independent for a map target
				if ix, ok := l.(*ast.IndexExpr); ok {
					if tv, ok := p.info.Types[ix.X]; ok && isMapType(tv.Type) {
						selfRef := false
						if i < len(x.Rhs) {
							ast.Inspect(x.Rhs[i], func(m ast.Node) bool {
								if e, ok := m.(ast.Expr); ok && types.ExprString(e) == types.ExprString(ix) {
									selfRef = true
								}
								return true
							})
						}
						if !selfRef && x.Tok == token.ASSIGN {
							continue
						}
					}
				}
				acc[name] = true
			}
		case *ast.IncDecStmt:
			// counters are order-independent
		case *ast.ReturnStmt:
			if !isCallback {
				returns = true
			}
		case *ast.SendStmt:
			acc["<channel send>"] = true
		}
		return true
	})
	if len(acc) > 0 {
		var names []string
		for n := range acc {
			names = append(names, n)
		}
		sort.Strings(names)
		parts = append(parts, "accumulate="+strings.Join(names, ","))
		// sorted later in the same function?
		var sorted []string
		for _, n := range names {
			if s.sortedIn(p, fd, n) {
				sorted = append(sorted, n)
			}
		}
		if len(sorted) > 0 {
			parts = append(parts, "sorted="+strings.Join(sorted, ","))
		}
	}
	if len(mut) > 0 {
		var names []string
		for n := range mut {
			names = append(names, n)
		}
		sort.Strings(names)
		parts = append(parts, "mutate="+strings.Join(names, ","))
	}
	if returns {
		parts = append(parts, "returns")
	}
	if len(parts) == 0 {
		return "pure"
	}
	return strings.Join(parts, " ")
}

// sortedIn: the function passes variable name to a sort.* / slices.Sort* call.
func (s *scanner) sortedIn(p *pkgInfo, fd *ast.FuncDecl, name string) bool {
	found := false
	ast.Inspect(fd.Body, func(n ast.Node) bool {
		call, ok := n.(*ast.CallExpr)
		if !ok || len(call.Args) == 0 {
			return true
		}
		obj := s.callee(p, call)
		if obj == nil || obj.Pkg() == nil {
			return true
		}
		isSort := (obj.Pkg().Path() == "sort" && (strings.HasPrefix(obj.Name(), "Slice") || obj.Name() == "Strings" || obj.Name() == "Ints" || obj.Name() == "Sort" || obj.Name() == "Stable")) ||
			(obj.Pkg().Path() == "slices" && strings.HasPrefix(obj.Name(), "Sort"))
		if isSort && types.ExprString(call.Args[0]) == name {
			found = true
		}
		return true
	})
	return found
}

// facts: other sources of nondeterminism and the facts the Lean model relies on.
func (s *scanner) facts(man map[string]entry) {
	var suspects, gos []string
	rewriteSet := false
	optionsLits := 0
	for _, p := range s.pkgs {
		for _, f := range p.files {
			ast.Inspect(f, func(n ast.Node) bool {
				switch x := n.(type) {
				case *ast.SelectorExpr:
					if id, ok := x.X.(*ast.Ident); ok {
						if pn, ok := p.info.Uses[id].(*types.PkgName); ok && suspectPkgs[pn.Imported().Path()] {
							sel := pn.Imported().Path() + "." + x.Sel.Name
							if !allowedSel[sel] {
								pp := s.fset.Position(x.Pos())
								rel, _ := filepath.Rel(s.repo, pp.Filename)
								suspects = append(suspects, fmt.Sprintf("%s at %s:%d", sel, rel, pp.Line))
							}
						}
					}
				case *ast.GoStmt:
					pp := s.fset.Position(x.Pos())
					rel, _ := filepath.Rel(s.repo, pp.Filename)
					gos = append(gos, fmt.Sprintf("%s:%d", rel, pp.Line))
				case *ast.SelectStmt:
					pp := s.fset.Position(x.Pos())
					rel, _ := filepath.Rel(s.repo, pp.Filename)
					gos = append(gos, fmt.Sprintf("select at %s:%d", rel, pp.Line))
				case *ast.CompositeLit:
					if tv, ok := p.info.Types[x]; ok && strings.HasSuffix(tv.Type.String(), "compiler/protogen.Options") && p.dir != "compiler/protogen" {
						optionsLits++
						for _, el := range x.Elts {
							if kv, ok := el.(*ast.KeyValueExpr); ok {
								if id, ok := kv.Key.(*ast.Ident); ok && id.Name == "ImportRewriteFunc" {
									rewriteSet = true
								}
							}
						}
					}
				case *ast.AssignStmt:
					for _, l := range x.Lhs {
						if se, ok := l.(*ast.SelectorExpr); ok && se.Sel.Name == "ImportRewriteFunc" {
							rewriteSet = true
						}
					}
				}
				return true
			})
		}
	}
	sort.Strings(suspects)
	st := "ok"
	if len(suspects) > 0 {
		st = "the generator reads a nondeterministic input: " + strings.Join(suspects, "; ")
	}
	man["fact:no-time-random-environment"] = entry{Status: st, Value: fmt.Sprintf("%d uses outside os.Stdin/Stdout/Stderr/Exit/Args", len(suspects)),
		Why: "time, math/rand, crypto/rand, os (beyond the plugin protocol), runtime, net, syscall are not used by the generator packages"}
	st = "ok"
	if len(gos) > 0 {
		st = "the generator starts goroutines / selects (scheduling order may reach the output): " + strings.Join(gos, "; ")
	}
	man["fact:no-goroutines"] = entry{Status: st, Value: fmt.Sprintf("%d go/select statements", len(gos))}
	st = "ok"
	switch {
	case rewriteSet:
		st = "protoc-gen-go sets ImportRewriteFunc: two import paths may be merged and the import block model (distinct paths) no longer applies"
	case optionsLits == 0:
		st = "no protogen.Options literal found in cmd/protoc-gen-go (shape changed; cannot confirm that ImportRewriteFunc is nil)"
	}
	man["fact:ImportRewriteFunc-nil"] = entry{Status: st, Value: fmt.Sprintf("%d protogen.Options literals, ImportRewriteFunc set: %v", optionsLits, rewriteSet),
		Why: "the Lean model of the import block takes rewriteImport as the identity"}
}
