module verif/gen-scan

go 1.23
