// gen-alias: copy/alias table extractor for property C14 (tie T2).
//
// It parses (go/ast only, no type checking) the places of the current tree where a value that was
// read from the input buffer (decoding) or from the source message (merge / clone) is STORED into
// the destination message, and classifies the stored expression:
//
//	copy                append(emptyBuf[:], v...), append([]byte{}, v...), append(([]byte)(nil), v...),
//	                    string(v), &localCopy, append(<dst-owned buffer>, bytes...)
//	alias               bare v / b / a sub-slice of them, a pointer or slice header loaded from src,
//	                    a []byte loaded from src and stored as it is
//	aliasOnlyUnderFlag  bare b, but the copy is skipped only when opts.AliasBuffer() holds (lazy buffer)
//	byValue             scalar loaded from src and stored (nothing shared)
//	immutableShare      Go string loaded from src and stored (shared, but immutable)
//	deep                recursive merge / proto.Clone into a message owned by dst
//	transient           the input slice is only handed to a nested unmarshal call, not stored
//	viaCoder            the stored value is whatever the element coder returned (see the coder's entry)
//
// Every site becomes a record of lean/PbVerif/Gen/AliasFacts.lean; Props/C14.lean decides over
// that list, and Model/Heap.lean is parameterised by it.  A store whose expression has none of
// the known shapes is reported in the manifest (status != ok): the tie is broken.
package main

import (
	"bytes"
	"crypto/sha1"
	"encoding/hex"
	"encoding/json"
	"flag"
	"fmt"
	"go/ast"
	"go/parser"
	"go/printer"
	"go/token"
	"os"
	"path/filepath"
	"regexp"
	"sort"
	"strings"
)

type entry struct {
	Status string `json:"status"`
	Hash   string `json:"hash"`
}

type site struct {
	Name, Kind, Path, Cls, Doc string
}

type coder struct {
	Name, Kind   string
	Fast         bool
	Dec, Mrg     string
	DecBy, MrgBy string
}

var (
	fset     = token.NewFileSet()
	manifest = map[string]*entry{}
	repo     string
	sites    []site
	coders   []coder
	// expression class (before the kind mapping) of every analysed function, by name
	funcClass = map[string]string{}
	siteCls   = map[string]string{}
)

func str(n ast.Node) string {
	if n == nil {
		return ""
	}
	var b bytes.Buffer
	printer.Fprint(&b, fset, n)
	return strings.Join(strings.Fields(b.String()), " ")
}

func hashOf(nodes ...ast.Node) string {
	h := sha1.New()
	for _, n := range nodes {
		h.Write([]byte(str(n)))
		h.Write([]byte{0})
	}
	return hex.EncodeToString(h.Sum(nil))[:16]
}

func report(name string, problems []string, nodes ...ast.Node) {
	st := "ok"
	if len(problems) > 0 {
		st = strings.Join(problems, "; ")
	}
	if e, ok := manifest[name]; ok && e.Status != "ok" {
		st = e.Status + "; " + st
	}
	manifest[name] = &entry{Status: st, Hash: hashOf(nodes...)}
}

type file struct {
	rel   string
	f     *ast.File
	funcs map[string]*ast.FuncDecl
}

func parse(rel string) *file {
	p := filepath.Join(repo, rel)
	f, err := parser.ParseFile(fset, p, nil, 0)
	if err != nil {
		manifest[rel] = &entry{Status: "cannot parse: " + err.Error()}
		return &file{rel: rel, funcs: map[string]*ast.FuncDecl{}}
	}
	stripHooks(f)
	fl := &file{rel: rel, f: f, funcs: map[string]*ast.FuncDecl{}}
	for _, d := range f.Decls {
		if fd, ok := d.(*ast.FuncDecl); ok {
			fl.funcs[fd.Name.Name] = fd
		}
	}
	return fl
}

// stripHooks removes verification event hook calls (`verifhook.X(…)`) so that shapes are matched on the code proper.
func stripHooks(f *ast.File) {
	isHook := func(s ast.Stmt) bool {
		switch v := s.(type) {
		case *ast.ExprStmt:
			if c, ok := v.X.(*ast.CallExpr); ok {
				return strings.HasPrefix(str(c.Fun), "verifhook.")
			}
		case *ast.DeferStmt:
			return strings.HasPrefix(str(v.Call.Fun), "verifhook.")
		}
		return false
	}
	ast.Inspect(f, func(x ast.Node) bool {
		if b, ok := x.(*ast.BlockStmt); ok {
			out := b.List[:0:0]
			for _, s := range b.List {
				if !isHook(s) {
					out = append(out, s)
				}
			}
			b.List = out
		}
		return true
	})
}

// ---------------------------------------------------------------------------------------------
// expression classes

const (
	cCopy     = "copy"
	cOwn      = "own"      // dst-owned / freshly allocated / constant
	cDeep     = "deep"     // recursive merge or clone
	cSpread   = "spread"   // append(<own>, <elements loaded from the source>...)
	cByValue  = "byvalue"  // value loaded from the source (whether that shares memory depends on the kind)
	cPtr      = "ptr"      // pointer loaded from the source
	cSrcSlice = "srcslice" // slice header loaded from the source
	cSrcPtr   = "srcptr"   // something that points into the source message
	cAlias    = "alias"    // the input slice itself or a sub-slice
	cNeutral  = "neutral"
	cUnknown  = "unknown"
)

func rank(c string) int {
	switch c {
	case cAlias, cPtr, cSrcSlice, cSrcPtr:
		return 6
	case cUnknown, cNeutral:
		return 5
	case cByValue:
		return 4
	case cSpread:
		return 3
	case cDeep:
		return 2
	case cCopy:
		return 1
	}
	return 0 // own
}

type ctx struct {
	fn      *ast.FuncDecl
	locals  map[string]ast.Expr
	src     map[string]string // identifier -> class when it occurs bare
	own     map[string]bool
	helpers map[string]*ast.FuncDecl
	busy    map[string]bool
}

func unparen(e ast.Expr) ast.Expr {
	for {
		p, ok := e.(*ast.ParenExpr)
		if !ok {
			return e
		}
		e = p.X
	}
}

// collectLocals records locals defined exactly once by `x := e` / `var x = e` (single value).
func collectLocals(body *ast.BlockStmt) map[string]ast.Expr {
	count := map[string]int{}
	def := map[string]ast.Expr{}
	ast.Inspect(body, func(n ast.Node) bool {
		switch s := n.(type) {
		case *ast.AssignStmt:
			for i, l := range s.Lhs {
				id, ok := l.(*ast.Ident)
				if !ok {
					continue
				}
				count[id.Name]++
				if len(s.Lhs) == len(s.Rhs) {
					def[id.Name] = s.Rhs[i]
				} else {
					count[id.Name] += 10 // multi-value: never inlined
				}
			}
		case *ast.RangeStmt:
			for _, l := range []ast.Expr{s.Key, s.Value} {
				if id, ok := l.(*ast.Ident); ok {
					count[id.Name] += 10
				}
			}
		case *ast.ValueSpec:
			for i, id := range s.Names {
				count[id.Name]++
				if i < len(s.Values) {
					def[id.Name] = s.Values[i]
				} else {
					count[id.Name] += 10
				}
			}
		case *ast.IncDecStmt:
			if id, ok := s.X.(*ast.Ident); ok {
				count[id.Name] += 10
			}
		}
		return true
	})
	out := map[string]ast.Expr{}
	for k, e := range def {
		if count[k] == 1 {
			out[k] = e
		}
	}
	return out
}

func isFreshEmpty(e ast.Expr) bool {
	switch str(unparen(e)) {
	case "emptyBuf[:]", "[]byte{}", "[]byte(nil)", "([]byte)(nil)", "nil":
		return true
	}
	return false
}

var wrappers = map[string]bool{
	"protoreflect.ValueOfBytes": true, "protoreflect.ValueOfString": true, "protoreflect.ValueOfMessage": true,
	"protoreflect.ValueOf": true, "reflect.ValueOf": true, "pointerOfValue": true, "asMessage": true,
	"protoreflect.ValueOfList": true, "protoreflect.ValueOfMap": true,
}

var fresh = map[string]bool{"new": true, "make": true, "reflect.New": true, "reflect.MakeMap": true, "reflect.Zero": true}

func (c *ctx) classify(e ast.Expr) string {
	e = unparen(e)
	switch x := e.(type) {
	case *ast.BasicLit:
		return cOwn
	case *ast.Ident:
		if x.Name == "nil" || x.Name == "true" || x.Name == "false" {
			return cOwn
		}
		if cl, ok := c.src[x.Name]; ok {
			return cl
		}
		if c.own[x.Name] {
			return cOwn
		}
		if d, ok := c.locals[x.Name]; ok && !c.busy[x.Name] {
			c.busy[x.Name] = true
			r := c.classify(d)
			delete(c.busy, x.Name)
			return r
		}
		return cNeutral
	case *ast.CompositeLit:
		if len(x.Elts) == 0 {
			return cOwn
		}
		return cUnknown
	case *ast.UnaryExpr:
		if x.Op == token.AND {
			if id, ok := unparen(x.X).(*ast.Ident); ok {
				if d, ok := c.locals[id.Name]; ok {
					// address of a local that holds a value loaded from the source: a fresh cell
					switch c.classify(d) {
					case cByValue, cCopy, cOwn:
						return cCopy
					}
				}
			}
			if cl, ok := unparen(x.X).(*ast.CompositeLit); ok {
				_ = cl
				return cOwn
			}
		}
		return cUnknown
	case *ast.StarExpr:
		inner := unparen(x.X)
		if id, ok := inner.(*ast.Ident); ok {
			if d, ok := c.locals[id.Name]; ok {
				inner = unparen(d)
			}
		}
		if call, ok := inner.(*ast.CallExpr); ok && len(call.Args) == 0 {
			if sel, ok := call.Fun.(*ast.SelectorExpr); ok {
				if c.classify(sel.X) == cSrcPtr {
					switch {
					case strings.HasSuffix(sel.Sel.Name, "Ptr"):
						return cPtr
					case strings.HasSuffix(sel.Sel.Name, "Slice"):
						return cSrcSlice
					default:
						return cByValue
					}
				}
			}
		}
		switch c.classify(x.X) {
		case cPtr, cSrcPtr:
			return cByValue
		case cOwn:
			return cOwn
		}
		return cUnknown
	case *ast.SliceExpr:
		return c.classify(x.X)
	case *ast.IndexExpr:
		return c.classify(x.X)
	case *ast.SelectorExpr:
		switch c.classify(x.X) {
		case cOwn:
			return cOwn
		case cSrcPtr, cByValue, cAlias:
			return cSrcPtr
		}
		return cNeutral
	case *ast.CallExpr:
		fn := str(x.Fun)
		switch {
		case fn == "append":
			if len(x.Args) != 2 {
				return cUnknown
			}
			if x.Ellipsis.IsValid() {
				if isFreshEmpty(x.Args[0]) {
					return cCopy
				}
				if c.classify(x.Args[0]) == cOwn {
					switch c.classify(x.Args[1]) {
					case cSrcSlice, cByValue, cAlias:
						return cSpread
					case cOwn, cCopy:
						return cOwn
					}
				}
				return cUnknown
			}
			if c.classify(x.Args[0]) == cOwn {
				return c.classify(x.Args[1])
			}
			return cUnknown
		case fn == "string" && len(x.Args) == 1:
			return cCopy
		case fn == "bytes.Clone" || fn == "slices.Clone":
			return cCopy
		case wrappers[fn] && len(x.Args) == 1:
			return c.classify(x.Args[0])
		case fn == "make":
			return cCopy // a new allocation holding (at most) copied content
		case fresh[fn]:
			return cOwn
		case fn == "protowire.AppendTag" || fn == "protowire.AppendVarint" || fn == "protowire.AppendBytes":
			if len(x.Args) > 0 && c.classify(x.Args[0]) == cOwn {
				return cOwn
			}
			return cUnknown
		case fn == "proto.Clone":
			return cDeep
		}
		if sel, ok := x.Fun.(*ast.SelectorExpr); ok {
			// helper of the same package with one parameter, e.g. o.cloneBytes(v)
			if h, ok := c.helpers[sel.Sel.Name]; ok && len(x.Args) == 1 {
				return c.helperClass(h, c.classify(x.Args[0]))
			}
			rc := c.classify(sel.X)
			switch rc {
			case cDeep:
				return cDeep
			case cOwn:
				for _, a := range x.Args {
					if r := c.classify(a); rank(r) >= rank(cByValue) && r != cNeutral {
						return cUnknown
					}
				}
				return cOwn
			case cSrcPtr, cByValue, cPtr, cSrcSlice:
				// an accessor of something that belongs to the source: a value loaded from the source
				if rc == cSrcPtr && len(x.Args) == 0 && (strings.HasSuffix(sel.Sel.Name, "Slice") || strings.HasSuffix(sel.Sel.Name, "Ptr")) {
					return cSrcPtr // pointer to the field; a StarExpr decides
				}
				if rc == cSrcPtr && (sel.Sel.Name == "Elem" || sel.Sel.Name == "Apply" || sel.Sel.Name == "AsValueOf" || sel.Sel.Name == "PointerSlice" || sel.Sel.Name == "MapRange") {
					return cSrcPtr
				}
				return cByValue
			case cAlias:
				return cAlias
			}
		}
		// plain function or method on a neutral receiver: points into the source if any argument does
		worst := cOwn
		for _, a := range x.Args {
			r := c.classify(a)
			if r == cNeutral {
				continue
			}
			if rank(r) > rank(worst) {
				worst = r
			}
		}
		switch worst {
		case cOwn:
			return cOwn
		case cSrcPtr, cPtr, cSrcSlice, cByValue:
			return cSrcPtr
		case cAlias:
			return cAlias
		}
		return cUnknown
	}
	return cUnknown
}

// helperClass classifies the single returned expression of a one-parameter helper, given the class of the argument.
func (c *ctx) helperClass(h *ast.FuncDecl, arg string) string {
	if h.Type.Params == nil || len(h.Type.Params.List) != 1 || len(h.Type.Params.List[0].Names) != 1 || h.Body == nil {
		return cUnknown
	}
	var rets []ast.Expr
	ast.Inspect(h.Body, func(n ast.Node) bool {
		if r, ok := n.(*ast.ReturnStmt); ok && len(r.Results) == 1 {
			rets = append(rets, r.Results[0])
		}
		return true
	})
	if len(rets) != 1 {
		return cUnknown
	}
	sub := &ctx{fn: h, locals: collectLocals(h.Body), src: map[string]string{h.Type.Params.List[0].Names[0].Name: arg}, own: map[string]bool{}, helpers: map[string]*ast.FuncDecl{}, busy: map[string]bool{}}
	return sub.classify(rets[0])
}

type store struct {
	what string
	expr ast.Expr
	cls  string
}

var storeMethods = map[string]bool{"Append": true, "Set": true, "SetMapIndex": true, "SetPointer": true, "AppendPointerSlice": true,
	"SetUnknown": true, "SetBuffer": true}
var deepCalls = regexp.MustCompile(`(^|\.)(mergePointer|mergeMessage|mergeList|mergeMap|Merge)$`)

// stores lists what the function writes into destination-owned memory.
func (c *ctx) stores(body ast.Node, valueResult bool) (out []store, deep bool) {
	ast.Inspect(body, func(n ast.Node) bool {
		switch s := n.(type) {
		case *ast.FuncLit:
			return true
		case *ast.AssignStmt:
			if s.Tok != token.ASSIGN || len(s.Lhs) != 1 || len(s.Rhs) != 1 {
				return true
			}
			l := unparen(s.Lhs[0])
			isStore := false
			switch lx := l.(type) {
			case *ast.StarExpr:
				isStore = true
			case *ast.SelectorExpr:
				isStore = c.classify(lx.X) == cOwn
			case *ast.IndexExpr:
				isStore = c.classify(lx.X) == cOwn
			}
			if isStore {
				out = append(out, store{str(l) + " = " + str(s.Rhs[0]), s.Rhs[0], c.classify(s.Rhs[0])})
			}
		case *ast.ExprStmt:
			call, ok := s.X.(*ast.CallExpr)
			if !ok {
				return true
			}
			if deepCalls.MatchString(str(call.Fun)) {
				deep = true
				return true
			}
			if sel, ok := call.Fun.(*ast.SelectorExpr); ok && storeMethods[sel.Sel.Name] && len(call.Args) > 0 {
				if c.classify(sel.X) == cOwn {
					// every argument is stored (map key and value, extension type and value)
					worst, wa := cOwn, call.Args[len(call.Args)-1]
					for _, a := range call.Args {
						r := c.classify(a)
						if r == cNeutral {
							continue
						}
						if rank(r) > rank(worst) {
							worst, wa = r, a
						}
					}
					if sel.Sel.Name == "SetMapIndex" || (sel.Sel.Name == "Set" && len(call.Args) == 2) {
						// the key of a map / the descriptor argument is a scalar or an immutable string: look at the value
						wa = call.Args[len(call.Args)-1]
						worst = c.classify(wa)
					}
					out = append(out, store{str(call), wa, worst})
				}
			}
		case *ast.ReturnStmt:
			if valueResult && len(s.Results) > 0 {
				r := s.Results[0]
				if str(r) == "protoreflect.Value{}" {
					return true
				}
				out = append(out, store{"return " + str(r), r, c.classify(r)})
			}
		}
		return true
	})
	return out, deep
}

// combine reduces the stores of one function to one expression class.
func combine(sts []store, deep bool) (cls string, doc string, problems []string) {
	cls = ""
	for _, s := range sts {
		if s.cls == cOwn {
			continue
		}
		if s.cls == cUnknown || s.cls == cNeutral {
			problems = append(problems, "unrecognised stored expression: "+s.what)
		}
		if cls == "" || rank(s.cls) > rank(cls) {
			cls, doc = s.cls, s.what
		}
	}
	if cls == "" {
		if deep {
			return cDeep, "recursive merge into a destination-owned message", problems
		}
		if len(sts) > 0 {
			return cOwn, sts[0].what, problems
		}
		return cUnknown, "", append(problems, "no store found")
	}
	return cls, doc, problems
}

// kindMap turns an expression class into the table class for a value of the given kind.
func kindMap(kind, ec string) string {
	switch ec {
	case cCopy, cOwn:
		return "copy"
	case cDeep:
		return "deep"
	case cSpread:
		if kind == "bytes" || kind == "message" {
			return "alias" // the elements themselves are references
		}
		return "copy"
	case cByValue:
		switch kind {
		case "string":
			return "immutableShare"
		case "scalar":
			return "byValue"
		}
		return "alias"
	}
	return "alias"
}

func addSite(name, kind, path, cls, doc string) {
	sites = append(sites, site{name, kind, path, cls, doc})
	siteCls[name] = cls
}

func valueResult(fd *ast.FuncDecl) bool {
	if fd.Type.Results == nil || len(fd.Type.Results.List) == 0 {
		return false
	}
	return str(fd.Type.Results.List[0].Type) == "protoreflect.Value"
}

func paramNames(fd *ast.FuncDecl, typ string) []string {
	var out []string
	if fd.Type.Params == nil {
		return nil
	}
	for _, p := range fd.Type.Params.List {
		if str(p.Type) == typ {
			for _, n := range p.Names {
				out = append(out, n.Name)
			}
		}
	}
	return out
}

func hasConsumeBytesOfB(fd *ast.FuncDecl) bool {
	found := false
	ast.Inspect(fd.Body, func(n ast.Node) bool {
		if a, ok := n.(*ast.AssignStmt); ok && len(a.Lhs) == 2 && len(a.Rhs) == 1 {
			if id, ok := a.Lhs[0].(*ast.Ident); ok && id.Name == "v" {
				s := str(a.Rhs[0])
				if s == "protowire.ConsumeBytes(b)" || strings.HasPrefix(s, "protowire.ConsumeGroup(") {
					found = true
				}
			}
		}
		return true
	})
	return found
}

func decodeCtx(fd *ast.FuncDecl) *ctx {
	c := &ctx{fn: fd, locals: collectLocals(fd.Body), src: map[string]string{"b": cAlias}, own: map[string]bool{}, helpers: map[string]*ast.FuncDecl{}, busy: map[string]bool{}}
	if hasConsumeBytesOfB(fd) {
		c.src["v"] = cAlias
		delete(c.locals, "v")
	}
	for _, n := range []string{"p", "f", "m", "list", "listv", "mapv", "mi", "x", "exts", "lazy", "val", "key"} {
		c.own[n] = true
	}
	if fd.Recv != nil && len(fd.Recv.List) == 1 && len(fd.Recv.List[0].Names) == 1 {
		c.own[fd.Recv.List[0].Names[0].Name] = true
	}
	return c
}

func mergeCtx(fd *ast.FuncDecl, helpers map[string]*ast.FuncDecl) *ctx {
	c := &ctx{fn: fd, locals: collectLocals(fd.Body), src: map[string]string{}, own: map[string]bool{}, helpers: helpers, busy: map[string]bool{}}
	for _, p := range fd.Type.Params.List {
		t := str(p.Type)
		for _, n := range p.Names {
			switch {
			case n.Name == "dst":
				c.own["dst"] = true
			case n.Name == "src" && t == "pointer":
				c.src["src"] = cSrcPtr
			case n.Name == "src":
				c.src["src"] = cByValue
			}
		}
	}
	return c
}

// ---------------------------------------------------------------------------------------------
// site families

func kindOfName(name string) string {
	switch {
	case strings.Contains(name, "Bytes"):
		return "bytes"
	case strings.Contains(name, "String"):
		return "string"
	case strings.Contains(name, "Message") || strings.Contains(name, "Group"):
		return "message"
	}
	return "scalar"
}

func sortedFuncs(fl *file, re *regexp.Regexp) []*ast.FuncDecl {
	var out []*ast.FuncDecl
	if fl.f == nil {
		return nil
	}
	for _, d := range fl.f.Decls {
		if fd, ok := d.(*ast.FuncDecl); ok && fd.Recv == nil && fd.Body != nil && re.MatchString(fd.Name.Name) {
			out = append(out, fd)
		}
	}
	return out
}

// consume functions of bytes and string kinds in codec_gen.go
func consumeSites(gen *file) {
	fds := sortedFuncs(gen, regexp.MustCompile(`^consume(String|Bytes)`))
	if len(fds) < 12 {
		report("impl/codec_gen.go:consume*", []string{fmt.Sprintf("only %d consume functions of string/bytes kind found", len(fds))})
	}
	for _, fd := range fds {
		name := "impl." + fd.Name.Name
		var problems []string
		if !hasConsumeBytesOfB(fd) {
			problems = append(problems, "no `v, n := protowire.ConsumeBytes(b)`")
		}
		c := decodeCtx(fd)
		sts, _ := c.stores(fd.Body, valueResult(fd))
		// `return listv, out, nil` hands back the caller's list
		var keep []store
		for _, s := range sts {
			if s.what == "return listv" {
				continue
			}
			keep = append(keep, s)
		}
		ec, doc, pr := combine(keep, false)
		problems = append(problems, pr...)
		if n := countNonOwn(keep); n != 1 {
			problems = append(problems, fmt.Sprintf("%d stores instead of 1", n))
		}
		kind := kindOfName(fd.Name.Name)
		cls := kindMap(kind, ec)
		if ec == cByValue {
			cls = "alias"
		}
		funcClass[fd.Name.Name] = ec
		addSite(name, kind, "decodeFast", cls, doc)
		report(name, problems, fd)
	}
}

func countNonOwn(sts []store) int {
	n := 0
	for _, s := range sts {
		if s.cls != cOwn {
			n++
		}
	}
	return n
}

// merge functions: merge_gen.go (all), merge.go and codec_map.go (package-level merge*)
func mergeSites(fl *file, helpers map[string]*ast.FuncDecl, skip map[string]bool) {
	for _, fd := range sortedFuncs(fl, regexp.MustCompile(`^merge[A-Z]`)) {
		if skip[fd.Name.Name] {
			continue
		}
		name := "impl." + fd.Name.Name
		c := mergeCtx(fd, helpers)
		sts, deep := c.stores(fd.Body, valueResult(fd))
		var keep []store
		for _, s := range sts {
			if s.what == "return dst" {
				continue
			}
			keep = append(keep, s)
		}
		ec, doc, problems := combine(keep, deep)
		kind := kindOfName(fd.Name.Name)
		if fd.Name.Name == "mergeMap" || fd.Name.Name == "mergeListValue" || fd.Name.Name == "mergeScalarValue" {
			kind = "scalar"
		}
		if len(keep) == 0 && !deep {
			problems = append(problems, "no store found")
		}
		funcClass[fd.Name.Name] = ec
		addSite(name, kind, "mergeFast", kindMap(kind, ec), doc)
		report(name, problems, fd)
	}
}

// coder tables of codec_gen.go: which consume and which merge function a bytes/string coder uses
func coderVars(gen *file) {
	if gen.f == nil {
		return
	}
	n := 0
	for _, d := range gen.f.Decls {
		gd, ok := d.(*ast.GenDecl)
		if !ok || gd.Tok != token.VAR {
			continue
		}
		for _, sp := range gd.Specs {
			vs := sp.(*ast.ValueSpec)
			if len(vs.Names) != 1 || len(vs.Values) != 1 {
				continue
			}
			cl, ok := vs.Values[0].(*ast.CompositeLit)
			if !ok {
				continue
			}
			t := str(cl.Type)
			if t != "pointerCoderFuncs" && t != "valueCoderFuncs" {
				continue
			}
			var un, mg string
			for _, el := range cl.Elts {
				kv, ok := el.(*ast.KeyValueExpr)
				if !ok {
					continue
				}
				switch str(kv.Key) {
				case "unmarshal":
					un = str(kv.Value)
				case "merge":
					mg = str(kv.Value)
				}
			}
			name := vs.Names[0].Name
			isBS := regexp.MustCompile(`^coder(String|Bytes)`).MatchString(name)
			unBS := regexp.MustCompile(`^consume(String|Bytes)`).MatchString(un)
			if !isBS && !unBS {
				continue
			}
			n++
			var problems []string
			kind := kindOfName(un)
			if !unBS {
				problems = append(problems, "unmarshal function "+un+" is not a string/bytes consume function")
				kind = kindOfName(name)
			}
			dec, ok := siteCls["impl."+un]
			if !ok {
				dec = "alias"
				problems = append(problems, "unmarshal function "+un+" was not analysed")
			}
			mec, ok := funcClass[mg]
			if !ok {
				mec = cUnknown
				problems = append(problems, "merge function "+mg+" was not analysed")
			}
			coders = append(coders, coder{Name: "impl." + name, Kind: kind, Fast: true, Dec: dec, Mrg: kindMap(kind, mec), DecBy: un, MrgBy: mg})
			report("impl."+name, problems, vs)
		}
	}
	if n < 12 {
		report("impl/codec_gen.go:coder tables", []string{fmt.Sprintf("only %d string/bytes coder tables found", n)})
	}
}

// findAssignsTo returns the right-hand sides of `lhs = …` statements (printed form of lhs) inside n.
func findAssignsTo(n ast.Node, lhs string) []ast.Expr {
	var out []ast.Expr
	ast.Inspect(n, func(x ast.Node) bool {
		if a, ok := x.(*ast.AssignStmt); ok && len(a.Lhs) == 1 && len(a.Rhs) == 1 && str(a.Lhs[0]) == lhs {
			out = append(out, a.Rhs[0])
		}
		return true
	})
	return out
}

func method(fl *file, name string) *ast.FuncDecl {
	if fl.f == nil {
		return nil
	}
	for _, d := range fl.f.Decls {
		if fd, ok := d.(*ast.FuncDecl); ok && fd.Name.Name == name && fd.Body != nil {
			return fd
		}
	}
	return nil
}

// unknown-field buffers: every `*u = …` in the function must append to *u itself
func unknownAppend(fl *file, fn, lhs, siteName, path string, mk func(fd *ast.FuncDecl) *ctx) {
	fd := method(fl, fn)
	if fd == nil {
		addSite(siteName, "unknown", path, "alias", "")
		report(siteName, []string{"function " + fn + " not found"})
		return
	}
	c := mk(fd)
	rhs := findAssignsTo(fd.Body, lhs)
	var problems []string
	worst, doc := cOwn, ""
	for _, r := range rhs {
		ec := c.classify(r)
		if ec == cUnknown || ec == cNeutral {
			problems = append(problems, "unrecognised stored expression: "+str(r))
		}
		if rank(ec) > rank(worst) {
			worst, doc = ec, lhs+" = "+str(r)
		}
	}
	if len(rhs) == 0 || worst == cOwn {
		problems = append(problems, "no append of input bytes to "+lhs+" found")
		worst = cUnknown
	}
	addSite(siteName, "unknown", path, kindMap("unknown", worst), doc)
	report(siteName, problems, fd)
}

// lazy.go: what (*lazy).SetBuffer receives
func lazyBufferSite(lz *file) {
	const name = "impl.unmarshalPointerLazy/SetBuffer"
	fd := method(lz, "unmarshalPointerLazy")
	if fd == nil {
		addSite(name, "buffer", "lazyBuffer", "alias", "")
		report(name, []string{"unmarshalPointerLazy not found"})
		return
	}
	var problems []string
	cls, doc := "alias", ""
	// find the block that contains the SetBuffer call and the statement before it
	var blk *ast.BlockStmt
	var idx int
	var arg ast.Expr
	nset := 0
	ast.Inspect(fd.Body, func(n ast.Node) bool {
		b, ok := n.(*ast.BlockStmt)
		if !ok {
			return true
		}
		for i, s := range b.List {
			if es, ok := s.(*ast.ExprStmt); ok {
				if call, ok := es.X.(*ast.CallExpr); ok && strings.HasSuffix(str(call.Fun), ".SetBuffer") && len(call.Args) == 1 {
					blk, idx, arg = b, i, call.Args[0]
					nset++
				}
			}
		}
		return true
	})
	switch {
	case nset != 1:
		problems = append(problems, fmt.Sprintf("%d SetBuffer calls instead of 1", nset))
	case isFreshEmpty0(arg):
		cls, doc = "copy", "SetBuffer("+str(arg)+")"
	case str(arg) != "b":
		problems = append(problems, "SetBuffer argument is not b: "+str(arg))
	default:
		// is b reassigned to a copy just before, and under which guard?
		doc = "SetBuffer(b)"
		guarded, uncond := false, false
		for i := 0; i < idx; i++ {
			switch s := blk.List[i].(type) {
			case *ast.IfStmt:
				copies := false
				for _, r := range findAssignsTo(s.Body, "b") {
					if isCopyOf(r, "b") {
						copies = true
					} else {
						problems = append(problems, "b reassigned to "+str(r))
					}
				}
				if copies {
					if str(s.Cond) == "!opts.AliasBuffer()" && s.Else == nil && s.Init == nil {
						guarded = true
						doc = "if !opts.AliasBuffer() { b = append([]byte{}, b...) }; SetBuffer(b)"
					} else {
						problems = append(problems, "buffer copy guarded by unexpected condition "+str(s.Cond))
					}
				}
			case *ast.AssignStmt:
				if len(s.Lhs) == 1 && str(s.Lhs[0]) == "b" && len(s.Rhs) == 1 {
					if isCopyOf(s.Rhs[0], "b") {
						uncond = true
					} else {
						problems = append(problems, "b reassigned to "+str(s.Rhs[0]))
					}
				}
			}
		}
		switch {
		case uncond:
			cls, doc = "copy", "b = copy of b; SetBuffer(b)"
		case guarded:
			cls = "aliasOnlyUnderFlag"
		default:
			cls = "alias"
		}
	}
	// AliasBuffer must be the flag test of decode.go
	addSite(name, "buffer", "lazyBuffer", cls, doc)
	report(name, problems, fd)
}

func isFreshEmpty0(e ast.Expr) bool {
	call, ok := unparen(e).(*ast.CallExpr)
	return ok && str(call.Fun) == "append" && len(call.Args) == 2 && call.Ellipsis.IsValid() && isFreshEmpty(call.Args[0])
}

func isCopyOf(e ast.Expr, v string) bool {
	call, ok := unparen(e).(*ast.CallExpr)
	if !ok {
		return false
	}
	if str(call.Fun) == "append" && len(call.Args) == 2 && call.Ellipsis.IsValid() && isFreshEmpty(call.Args[0]) && str(call.Args[1]) == v {
		return true
	}
	return (str(call.Fun) == "bytes.Clone" || str(call.Fun) == "slices.Clone") && len(call.Args) == 1 && str(call.Args[0]) == v
}

// usesOnlyTransient checks that the identifiers in `names` (input slices) occur in fd only in positions
// that do not retain them: arguments of protowire.* / len, re-slicing assigned to themselves, the
// buffer argument of a nested unmarshal / validate call.
var transientCallee = regexp.MustCompile(`(^|\.)(unmarshalPointer|unmarshalState|unmarshalMessage|unmarshalMessageSlow|unmarshal|Unmarshal|validate|consumeMessage|consumeGroup|skipField|skipExtension|unmarshalExtension|unmarshalField|ConsumeFieldValue|ConsumeBytes|ConsumeGroup|ConsumeTag|ConsumeVarint|ConsumeField|len|unmarshalSingular|unmarshalList|unmarshalMap|unmarshalScalar|unmarshalMessageSet|unmarshalMessageSetField|Valid)$`)

func transientUses(fd *ast.FuncDecl, names map[string]bool, allowCalls *regexp.Regexp) (bad []string) {
	var stack []ast.Node
	ast.Inspect(fd.Body, func(n ast.Node) bool {
		if n == nil {
			stack = stack[:len(stack)-1]
			return true
		}
		stack = append(stack, n)
		id, ok := n.(*ast.Ident)
		if !ok || !names[id.Name] {
			return true
		}
		// walk outwards through slicing / indexing / parens
		i := len(stack) - 2
		for i >= 0 {
			switch p := stack[i].(type) {
			case *ast.SliceExpr, *ast.ParenExpr:
				i--
				continue
			case *ast.IndexExpr:
				_ = p
				return true // a single byte is read
			}
			break
		}
		if i < 0 {
			return true
		}
		switch p := stack[i].(type) {
		case *ast.CallExpr:
			f := str(p.Fun)
			if transientCallee.MatchString(f) || (allowCalls != nil && allowCalls.MatchString(f)) || f == "string" || f == "uint64" {
				return true
			}
			if f == "append" && len(p.Args) == 2 && p.Ellipsis.IsValid() {
				return true // classified separately as a store
			}
			bad = append(bad, "input slice "+id.Name+" passed to "+f)
		case *ast.AssignStmt:
			// b = b[n:], v, n := protowire.ConsumeBytes(b), b, n := …
			for _, l := range p.Lhs {
				if lid, ok := l.(*ast.Ident); ok && names[lid.Name] {
					return true
				}
			}
			bad = append(bad, "input slice "+id.Name+" assigned: "+str(p))
		case *ast.KeyValueExpr:
			if str(p.Key) == "Buf" {
				return true
			}
			bad = append(bad, "input slice "+id.Name+" stored in composite literal field "+str(p.Key))
		case *ast.BinaryExpr, *ast.UnaryExpr, *ast.RangeStmt, *ast.ForStmt, *ast.IfStmt:
			return true
		case *ast.SelectorExpr:
			return true
		case *ast.ReturnStmt:
			bad = append(bad, "input slice "+id.Name+" returned: "+str(p))
		default:
			bad = append(bad, fmt.Sprintf("input slice %s used in %T: %s", id.Name, p, trunc(str(p))))
		}
		return true
	})
	return bad
}

func trunc(s string) string {
	if len(s) > 90 {
		return s[:90] + "…"
	}
	return s
}

// message / group consume functions of codec_field.go: the input is handed to a nested unmarshal only
func transientSites(fl *file, re *regexp.Regexp, prefix, path string) {
	fds := sortedFuncs(fl, re)
	for _, fd := range fds {
		names := map[string]bool{}
		for _, n := range paramNames(fd, "[]byte") {
			names[n] = true
		}
		if hasConsumeBytesOfB(fd) {
			names["v"] = true
		}
		if len(names) == 0 {
			continue
		}
		bad := transientUses(fd, names, nil)
		cls := "transient"
		if len(bad) > 0 {
			cls = "alias"
		}
		name := prefix + fd.Name.Name
		addSite(name, "message", path, cls, "input slice only passed to a nested unmarshal")
		report(name, bad, fd)
	}
}

// consumeMap / consumeMapOfMessage: key and value come from the element coders
func mapConsumeSites(mp *file) {
	for _, fn := range []string{"consumeMap", "consumeMapOfMessage"} {
		name := "impl." + fn
		fd := mp.funcs[fn]
		if fd == nil {
			addSite(name, "message", "decodeFast", "alias", "")
			report(name, []string{"not found"})
			continue
		}
		var problems []string
		// `b, n := protowire.ConsumeBytes(b)` shadows b; v is a protoreflect.Value returned by a coder, or the
		// []byte of a message value handed to unmarshalPointer
		names := map[string]bool{"b": true}
		allow := regexp.MustCompile(`^mapi\.(key|val)Funcs\.unmarshal$`)
		problems = append(problems, transientUses(fd, names, allow)...)
		for _, lhs := range []string{"key", "val"} {
			for _, r := range findAssignsTo(fd.Body, lhs) {
				s := str(r)
				if s != "v" && s != "mapi.keyZero" && s != "mapi.conv.valConv.New()" && !strings.HasPrefix(s, "reflect.New(") {
					problems = append(problems, lhs+" assigned from "+s)
				}
			}
		}
		// every `v, o, err = X(b, …)` must be an element coder
		ast.Inspect(fd.Body, func(n ast.Node) bool {
			a, ok := n.(*ast.AssignStmt)
			if !ok || len(a.Lhs) < 2 || len(a.Rhs) != 1 {
				return true
			}
			if id, ok := a.Lhs[0].(*ast.Ident); ok && id.Name == "v" {
				call, ok := a.Rhs[0].(*ast.CallExpr)
				if !ok {
					problems = append(problems, "v assigned from "+str(a.Rhs[0]))
					return true
				}
				f := str(call.Fun)
				if !allow.MatchString(f) && f != "protowire.ConsumeBytes" {
					problems = append(problems, "v assigned from "+f)
				}
			}
			return true
		})
		cls := "viaCoder"
		if len(problems) > 0 {
			cls = "alias"
		}
		addSite(name, "message", "decodeFast", cls, "map entry: key and value are the results of the element coders")
		report(name, problems, fd)
	}
}

// map merge dispatch: which merge function a map with bytes values gets
func mapMergeDispatch(mp *file) {
	const name = "impl.encoderFuncsForMap/merge(bytes values)"
	fd := mp.funcs["encoderFuncsForMap"]
	var problems []string
	chosen := ""
	if fd == nil {
		problems = append(problems, "encoderFuncsForMap not found")
	} else {
		ast.Inspect(fd.Body, func(n ast.Node) bool {
			sw, ok := n.(*ast.SwitchStmt)
			if !ok || str(sw.Tag) != "valField.Kind()" {
				return true
			}
			def := ""
			for _, cc := range sw.Body.List {
				cl := cc.(*ast.CaseClause)
				rhs := findAssignsTo(cl, "funcs.merge")
				if len(rhs) != 1 {
					continue
				}
				if cl.List == nil {
					def = str(rhs[0])
				}
				for _, e := range cl.List {
					if str(e) == "protoreflect.BytesKind" {
						chosen = str(rhs[0])
					}
				}
			}
			if chosen == "" {
				chosen = def
			}
			return true
		})
	}
	ec, ok := funcClass[chosen]
	if !ok {
		problems = append(problems, "merge function for maps with bytes values not determined ("+chosen+")")
		ec = cUnknown
	}
	dec := siteCls["impl.consumeBytesValue"]
	if dec == "" {
		dec = "alias"
		problems = append(problems, "consumeBytesValue was not analysed")
	}
	if siteCls["impl.consumeMap"] != "viaCoder" {
		dec = "alias"
	}
	coders = append(coders, coder{Name: "impl.map<_,bytes>", Kind: "bytes", Fast: true, Dec: dec, Mrg: kindMap("bytes", ec), DecBy: "consumeMap+consumeBytesValue", MrgBy: chosen})
	report(name, problems, fd)
}

// extension fields: unmarshalExtension stores what the extension coder returned; lazy bytes are appended to an own buffer
func extensionSites(dec, ext, mrg *file) {
	{
		const name = "impl.unmarshalExtension"
		fd := method(dec, "unmarshalExtension")
		var problems []string
		if fd == nil {
			problems = append(problems, "not found")
		} else {
			problems = append(problems, transientUses(fd, map[string]bool{"b": true}, regexp.MustCompile(`^(xi\.funcs\.unmarshal|x\.appendLazyBytes)$`))...)
			ok := false
			ast.Inspect(fd.Body, func(n ast.Node) bool {
				if a, isA := n.(*ast.AssignStmt); isA && len(a.Rhs) == 1 && strings.HasPrefix(str(a.Rhs[0]), "xi.funcs.unmarshal(b, ") && len(a.Lhs) == 3 && str(a.Lhs[0]) == "v" {
					ok = true
				}
				return true
			})
			if !ok {
				problems = append(problems, "`v, out, err := xi.funcs.unmarshal(b, …)` not found")
			}
			sets := 0
			ast.Inspect(fd.Body, func(n ast.Node) bool {
				if c, isC := n.(*ast.CallExpr); isC && str(c.Fun) == "x.Set" {
					sets++
					if len(c.Args) != 2 || str(c.Args[1]) != "v" {
						problems = append(problems, "x.Set stores "+str(c))
					}
				}
				return true
			})
			if sets != 1 {
				problems = append(problems, fmt.Sprintf("%d x.Set calls", sets))
			}
		}
		cls := "viaCoder"
		if len(problems) > 0 {
			cls = "alias"
		}
		addSite(name, "message", "decodeFast", cls, "x.Set(xt, v) with v returned by the extension's value coder")
		report(name, problems, fd)
	}
	unknownAppend(ext, "appendLazyBytes", "f.lazy.b", "impl.ExtensionField.appendLazyBytes", "decodeFast", decodeCtx)
	{
		const name = "impl.mergePointer/extensions"
		fd := method(mrg, "mergePointer")
		var problems []string
		if fd == nil {
			problems = append(problems, "not found")
		} else {
			rhs := findAssignsTo(fd.Body, "dv")
			okMerge := false
			for _, r := range rhs {
				s := str(r)
				switch {
				case s == "xi.funcs.merge(dv, sx.Value(), opts)":
					okMerge = true
				case s == "dx.Value()" || s == "xt.New()":
				default:
					problems = append(problems, "dv assigned from "+s)
				}
			}
			if !okMerge {
				problems = append(problems, "`dv = xi.funcs.merge(dv, sx.Value(), opts)` not found")
			}
			sets := 0
			ast.Inspect(fd.Body, func(n ast.Node) bool {
				if c, isC := n.(*ast.CallExpr); isC && str(c.Fun) == "dx.Set" {
					sets++
					if str(c) != "dx.Set(sx.Type(), dv)" {
						problems = append(problems, "dx.Set stores "+str(c))
					}
				}
				return true
			})
			if sets != 1 {
				problems = append(problems, fmt.Sprintf("%d dx.Set calls", sets))
			}
			for _, r := range findAssignsTo(fd.Body, "(*dext)[num]") {
				if str(r) != "dx" {
					problems = append(problems, "(*dext)[num] = "+str(r))
				}
			}
		}
		cls := "viaCoder"
		if len(problems) > 0 {
			cls = "alias"
		}
		addSite(name, "message", "mergeFast", cls, "dx.Set(sx.Type(), xi.funcs.merge(dv, sx.Value(), opts))")
		report(name, problems, fd)
	}
}

// ---------------------------------------------------------------------------------------------
// reflection path (package proto)

func caseOfKind(sw *ast.SwitchStmt, kind string) *ast.CaseClause {
	for _, cc := range sw.Body.List {
		cl := cc.(*ast.CaseClause)
		for _, e := range cl.List {
			if strings.Contains(str(e), "protoreflect."+kind) {
				return cl
			}
		}
	}
	return nil
}

func defaultCase(sw *ast.SwitchStmt) *ast.CaseClause {
	for _, cc := range sw.Body.List {
		if cl := cc.(*ast.CaseClause); cl.List == nil {
			return cl
		}
	}
	return nil
}

func kindSwitch(fd *ast.FuncDecl) *ast.SwitchStmt {
	var out *ast.SwitchStmt
	if fd == nil {
		return nil
	}
	ast.Inspect(fd.Body, func(n ast.Node) bool {
		if sw, ok := n.(*ast.SwitchStmt); ok && out == nil && str(sw.Tag) == "fd.Kind()" {
			out = sw
		}
		return true
	})
	return out
}

func reflectDecodeSites(dg, dd *file) {
	scal := method(dg, "unmarshalScalar")
	list := method(dg, "unmarshalList")
	for _, it := range []struct {
		fd   *ast.FuncDecl
		fn   string
		kind string
		k    string
	}{
		{scal, "unmarshalScalar", "StringKind", "string"}, {scal, "unmarshalScalar", "BytesKind", "bytes"},
		{scal, "unmarshalScalar", "MessageKind", "message"}, {scal, "unmarshalScalar", "GroupKind", "message"},
		{list, "unmarshalList", "StringKind", "string"}, {list, "unmarshalList", "BytesKind", "bytes"},
	} {
		name := "proto." + it.fn + "/" + it.kind
		var problems []string
		sw := kindSwitch(it.fd)
		var cl *ast.CaseClause
		if sw != nil {
			cl = caseOfKind(sw, it.kind)
		}
		if cl == nil {
			addSite(name, it.k, "decodeReflect", "alias", "")
			report(name, []string{"case not found"})
			continue
		}
		c := decodeCtx(it.fd)
		c.src["v"] = cAlias
		delete(c.locals, "v")
		sts, _ := c.stores(cl, it.fn == "unmarshalScalar")
		var keep []store
		for _, s := range sts {
			if s.what == "return val" {
				continue
			}
			keep = append(keep, s)
		}
		ec, doc, pr := combine(keep, false)
		problems = append(problems, pr...)
		if countNonOwn(keep) != 1 {
			problems = append(problems, fmt.Sprintf("%d stores instead of 1", countNonOwn(keep)))
		}
		cls := kindMap(it.k, ec)
		if ec == cByValue {
			cls = "alias"
		}
		if it.k == "message" {
			// the raw bytes of a nested message are returned to unmarshalSingular / unmarshalMap, which must only decode them
			if ec == cAlias {
				cls = "transient"
			}
		}
		addSite(name, it.k, "decodeReflect", cls, doc)
		report(name, problems, cl)
	}
	// consumers of unmarshalScalar's message bytes
	for _, fn := range []string{"unmarshalSingular", "unmarshalMap"} {
		name := "proto." + fn + "/message bytes"
		fd := method(dd, fn)
		var problems []string
		if fd == nil {
			problems = append(problems, "not found")
		} else {
			// inside a `case GroupKind, MessageKind:` clause v may only occur as o.unmarshalMessage(v.Bytes(), …)
			found := false
			ast.Inspect(fd.Body, func(n ast.Node) bool {
				cl, ok := n.(*ast.CaseClause)
				if !ok || len(cl.List) == 0 || !strings.Contains(str(cl.List[0]), "GroupKind") && !strings.Contains(str(cl.List[len(cl.List)-1]), "MessageKind") {
					return true
				}
				ast.Inspect(cl, func(m ast.Node) bool {
					if call, ok := m.(*ast.CallExpr); ok && str(call.Fun) == "o.unmarshalMessage" && len(call.Args) == 2 && str(call.Args[0]) == "v.Bytes()" {
						found = true
						return false
					}
					if id, ok := m.(*ast.Ident); ok && id.Name == "v" {
						problems = append(problems, "v used outside o.unmarshalMessage(v.Bytes(), …) in the message case")
					}
					return true
				})
				return true
			})
			if !found {
				problems = append(problems, "o.unmarshalMessage(v.Bytes(), …) not found")
			}
			problems = append(problems, transientUses(fd, map[string]bool{"b": true}, nil)...)
		}
		cls := "transient"
		if len(problems) > 0 {
			cls = "alias"
		}
		addSite(name, "message", "decodeReflect", cls, "o.unmarshalMessage(v.Bytes(), m2)")
		report(name, problems, fd)
	}
	// unknown fields
	{
		const name = "proto.unmarshalMessageSlow/unknown"
		fd := method(dd, "unmarshalMessageSlow")
		var problems []string
		cls, doc := "alias", ""
		if fd == nil {
			problems = append(problems, "not found")
		} else {
			c := decodeCtx(fd)
			sts, _ := c.stores(fd.Body, false)
			var keep []store
			for _, s := range sts {
				if strings.HasPrefix(s.what, "m.SetUnknown(") {
					keep = append(keep, s)
				}
			}
			ec, d, pr := combine(keep, false)
			problems = append(problems, pr...)
			if len(keep) != 1 {
				problems = append(problems, fmt.Sprintf("%d SetUnknown calls", len(keep)))
			}
			cls, doc = kindMap("unknown", ec), d
			problems = append(problems, transientUses(fd, map[string]bool{"b": true}, nil)...)
		}
		addSite(name, "unknown", "decodeReflect", cls, doc)
		report(name, problems, fd)
	}
}

func reflectMergeSites(mg *file) {
	helpers := map[string]*ast.FuncDecl{}
	if h := method(mg, "cloneBytes"); h != nil {
		helpers["cloneBytes"] = h
	}
	// cloneBytes itself
	{
		const name = "proto.cloneBytes"
		h := helpers["cloneBytes"]
		var problems []string
		ec := cUnknown
		if h == nil {
			problems = append(problems, "not found")
		} else {
			c := &ctx{helpers: map[string]*ast.FuncDecl{}}
			ec = c.helperClass(h, cByValue)
			if ec == cUnknown || ec == cNeutral {
				problems = append(problems, "unrecognised returned expression")
			}
		}
		addSite(name, "bytes", "mergeReflect", kindMap("bytes", ec), "return protoreflect.ValueOfBytes(append([]byte{}, v.Bytes()...))")
		report(name, problems, h)
	}
	for _, it := range []struct{ fn, sw string }{{"mergeMessage", "field"}, {"mergeList", "element"}, {"mergeMap", "value"}} {
		fd := method(mg, it.fn)
		name := "proto." + it.fn + "/bytes " + it.sw
		var problems []string
		cls, doc := "alias", ""
		var scls, sdoc string = "alias", ""
		if fd == nil {
			problems = append(problems, "not found")
		} else {
			// the tag-less switch whose cases test fd.Kind() == protoreflect.BytesKind
			var sw *ast.SwitchStmt
			ast.Inspect(fd.Body, func(n ast.Node) bool {
				if s, ok := n.(*ast.SwitchStmt); ok && sw == nil {
					sw = s
				}
				return true
			})
			if sw == nil {
				problems = append(problems, "switch not found")
			} else {
				c := &ctx{fn: fd, locals: collectLocals(fd.Body), src: map[string]string{"v": cByValue, "src": cByValue}, own: map[string]bool{"dst": true, "dstv": true}, helpers: helpers, busy: map[string]bool{}}
				delete(c.locals, "v")
				var bcl, dcl *ast.CaseClause
				seenMsg := false
				for _, cc := range sw.Body.List {
					cl := cc.(*ast.CaseClause)
					if cl.List == nil {
						dcl = cl
						continue
					}
					cond := str(cl.List[0])
					if cond == "fd.Kind() == protoreflect.BytesKind" && bcl == nil {
						bcl = cl
					}
					if strings.Contains(cond, "Message() != nil") {
						seenMsg = true
					}
				}
				if !seenMsg {
					problems = append(problems, "message case not found")
				}
				use := bcl
				if use == nil {
					use = dcl
				}
				if use == nil {
					problems = append(problems, "neither bytes case nor default case")
				} else {
					sts, _ := c.stores(use, false)
					ec, d, pr := combine(sts, false)
					problems = append(problems, pr...)
					cls, doc = kindMap("bytes", ec), d
				}
				if dcl != nil {
					sts, _ := c.stores(dcl, false)
					ec, d, pr := combine(sts, false)
					problems = append(problems, pr...)
					scls, sdoc = kindMap("string", ec), d
				}
			}
		}
		addSite(name, "bytes", "mergeReflect", cls, doc)
		addSite("proto."+it.fn+"/string "+it.sw, "string", "mergeReflect", scls, sdoc)
		report(name, problems, fd)
	}
	// unknown fields
	{
		const name = "proto.mergeMessage/unknown"
		fd := method(mg, "mergeMessage")
		var problems []string
		cls, doc := "alias", ""
		if fd != nil {
			c := &ctx{fn: fd, locals: collectLocals(fd.Body), src: map[string]string{"src": cByValue}, own: map[string]bool{"dst": true}, helpers: helpers, busy: map[string]bool{}}
			sts, _ := c.stores(fd.Body, false)
			var keep []store
			for _, s := range sts {
				if strings.HasPrefix(s.what, "dst.SetUnknown(") {
					keep = append(keep, s)
				}
			}
			ec, d, pr := combine(keep, false)
			problems = append(problems, pr...)
			if len(keep) != 1 {
				problems = append(problems, fmt.Sprintf("%d SetUnknown calls", len(keep)))
			}
			cls, doc = kindMap("unknown", ec), d
		} else {
			problems = append(problems, "not found")
		}
		addSite(name, "unknown", "mergeReflect", cls, doc)
		report(name, problems, fd)
	}
	// Clone is New + mergeMessage
	{
		const name = "proto.Clone"
		fd := method(mg, "Clone")
		var problems []string
		if fd == nil {
			problems = append(problems, "not found")
		} else {
			body := str(fd.Body)
			if !strings.Contains(body, "dst := src.New()") || !strings.Contains(body, "mergeOptions{}.mergeMessage(dst, src)") || !strings.Contains(body, "return dst.Interface()") {
				problems = append(problems, "Clone is not `dst := src.New(); mergeOptions{}.mergeMessage(dst, src); return dst.Interface()`")
			}
		}
		cls := "deep"
		if len(problems) > 0 {
			cls = "alias"
		}
		addSite(name, "message", "mergeReflect", cls, "dst := src.New(); mergeOptions{}.mergeMessage(dst, src)")
		report(name, problems, fd)
	}
}

// the pseudo coders of the reflection path
func reflectCoders() {
	get := func(n string) string {
		if c, ok := siteCls[n]; ok {
			return c
		}
		return "alias"
	}
	coders = append(coders,
		coder{Name: "proto.reflect bytes singular", Kind: "bytes", Dec: get("proto.unmarshalScalar/BytesKind"), Mrg: get("proto.mergeMessage/bytes field"), DecBy: "unmarshalScalar", MrgBy: "mergeMessage"},
		coder{Name: "proto.reflect bytes list", Kind: "bytes", Dec: get("proto.unmarshalList/BytesKind"), Mrg: get("proto.mergeList/bytes element"), DecBy: "unmarshalList", MrgBy: "mergeList"},
		coder{Name: "proto.reflect bytes map value", Kind: "bytes", Dec: get("proto.unmarshalScalar/BytesKind"), Mrg: get("proto.mergeMap/bytes value"), DecBy: "unmarshalMap+unmarshalScalar", MrgBy: "mergeMap"},
		coder{Name: "proto.reflect string singular", Kind: "string", Dec: get("proto.unmarshalScalar/StringKind"), Mrg: get("proto.mergeMessage/string field"), DecBy: "unmarshalScalar", MrgBy: "mergeMessage"},
		coder{Name: "proto.reflect string list", Kind: "string", Dec: get("proto.unmarshalList/StringKind"), Mrg: get("proto.mergeList/string element"), DecBy: "unmarshalList", MrgBy: "mergeList"},
		coder{Name: "proto.reflect string map value", Kind: "string", Dec: get("proto.unmarshalScalar/StringKind"), Mrg: get("proto.mergeMap/string value"), DecBy: "unmarshalMap+unmarshalScalar", MrgBy: "mergeMap"},
		coder{Name: "proto.reflect unknown fields", Kind: "unknown", Dec: get("proto.unmarshalMessageSlow/unknown"), Mrg: get("proto.mergeMessage/unknown"), DecBy: "unmarshalMessageSlow", MrgBy: "mergeMessage"},
		coder{Name: "impl.unknown fields", Kind: "unknown", Fast: true, Dec: worstOf(get("impl.unmarshalPointerEager/unknown"), get("impl.unmarshalPointerLazy/unknown")), Mrg: get("impl.mergePointer/unknown"), DecBy: "unmarshalPointerEager, unmarshalPointerLazy", MrgBy: "mergePointer"},
		coder{Name: "impl.lazy extension bytes", Kind: "unknown", Fast: true, Dec: get("impl.ExtensionField.appendLazyBytes"), Mrg: "copy", DecBy: "appendLazyBytes", MrgBy: "(expanded before merge: sx.Value())"},
	)
}

func worstOf(a, b string) string {
	if a == "copy" {
		return b
	}
	return a
}

// ---------------------------------------------------------------------------------------------
// protodelim and the public options

func delimSite(pd *file) {
	const name = "protodelim.UnmarshalFrom/Peek window"
	fd := method(pd, "UnmarshalFrom")
	var problems []string
	var target *ast.FuncDecl
	if pd.f != nil {
		for _, d := range pd.f.Decls {
			if f, ok := d.(*ast.FuncDecl); ok && f.Name.Name == "UnmarshalFrom" && f.Recv != nil {
				target = f
			}
		}
	}
	fd = target
	cls := "transient"
	doc := "b, err = br.Peek(int(size)); …; o.Unmarshal(b, m)"
	if fd == nil {
		problems = append(problems, "method UnmarshalFrom not found")
	} else {
		// the size loop declares its own `b` (a byte); the buffer is the `var b []byte` declared after it
		body := &ast.BlockStmt{}
		for i, st := range fd.Body.List {
			if ds, ok := st.(*ast.DeclStmt); ok && str(ds) == "var b []byte" {
				body.List = fd.Body.List[i+1:]
			}
		}
		if body.List == nil {
			problems = append(problems, "`var b []byte` not found")
		}
		fd = &ast.FuncDecl{Name: fd.Name, Type: fd.Type, Body: body}
		peek := false
		for _, r := range findAssignsToMulti(fd.Body, "b") {
			switch s := str(r); {
			case s == "br.Peek(int(size))":
				peek = true
			case s == "nil" || s == "make([]byte, size)":
			default:
				problems = append(problems, "b assigned from "+s)
			}
		}
		if !peek {
			doc = "b = make([]byte, size); io.ReadFull(r, b); o.Unmarshal(b, m)"
		}
		allow := regexp.MustCompile(`^(o\.Unmarshal|io\.ReadFull)$`)
		problems = append(problems, transientUses(fd, map[string]bool{"b": true}, allow)...)
		if strings.Contains(str(fd.Body), "AliasBuffer") {
			problems = append(problems, "UnmarshalFrom mentions AliasBuffer")
		}
		n := 0
		ast.Inspect(fd.Body, func(x ast.Node) bool {
			if c, ok := x.(*ast.CallExpr); ok && str(c.Fun) == "o.Unmarshal" {
				n++
			}
			return true
		})
		if n != 1 {
			problems = append(problems, fmt.Sprintf("%d o.Unmarshal calls", n))
		}
	}
	if len(problems) > 0 {
		cls = "alias"
	}
	addSite(name, "buffer", "delim", cls, doc)
	report(name, problems, fd)
}

func findAssignsToMulti(n ast.Node, lhs string) []ast.Expr {
	var out []ast.Expr
	ast.Inspect(n, func(x ast.Node) bool {
		switch a := x.(type) {
		case *ast.AssignStmt:
			if len(a.Lhs) >= 1 && str(a.Lhs[0]) == lhs && len(a.Rhs) == 1 {
				out = append(out, a.Rhs[0])
			}
		}
		return true
	})
	return out
}

// does the public API let a caller ask for aliasing?
func publicFlag(dd *file) bool {
	const name = "proto.UnmarshalOptions/no alias flag"
	var problems []string
	sets := false
	if dd.f == nil {
		problems = append(problems, "proto/decode.go not parsed")
		sets = true
	} else {
		if strings.Contains(str(dd.f), "UnmarshalAliasBuffer") {
			sets = true
			problems = append(problems, "proto/decode.go mentions UnmarshalAliasBuffer")
		}
		ast.Inspect(dd.f, func(n ast.Node) bool {
			ts, ok := n.(*ast.TypeSpec)
			if !ok || ts.Name.Name != "UnmarshalOptions" {
				return true
			}
			st, ok := ts.Type.(*ast.StructType)
			if !ok {
				return true
			}
			for _, f := range st.Fields.List {
				for _, nm := range f.Names {
					if strings.Contains(strings.ToLower(nm.Name), "alias") {
						sets = true
						problems = append(problems, "UnmarshalOptions has field "+nm.Name)
					}
				}
			}
			return false
		})
		// the flags that unmarshal() passes on
		fd := method(dd, "unmarshal")
		if fd == nil {
			problems = append(problems, "unmarshal not found")
			sets = true
		} else {
			ast.Inspect(fd.Body, func(n ast.Node) bool {
				a, ok := n.(*ast.AssignStmt)
				if !ok || len(a.Lhs) != 1 || str(a.Lhs[0]) != "in.Flags" {
					return true
				}
				switch str(a.Rhs[0]) {
				case "protoiface.UnmarshalDiscardUnknown", "protoiface.UnmarshalCheckRequired", "protoiface.UnmarshalNoLazyDecoding":
				default:
					sets = true
					problems = append(problems, "in.Flags receives "+str(a.Rhs[0]))
				}
				return true
			})
			// UnmarshalState must not forward caller-supplied flags
			if us := method(dd, "UnmarshalState"); us != nil && strings.Contains(str(us.Body), "in.Flags") {
				sets = true
				problems = append(problems, "UnmarshalState forwards in.Flags")
			}
		}
	}
	report(name, problems, dd.f)
	return sets
}

// ---------------------------------------------------------------------------------------------

func leanStr(s string) string {
	s = strings.ReplaceAll(s, `\`, `\\`)
	s = strings.ReplaceAll(s, `"`, `\"`)
	return `"` + s + `"`
}

func leanDoc(s string) string {
	s = strings.ReplaceAll(s, "-/", "- /")
	s = strings.ReplaceAll(s, "/-", "/ -")
	return s
}

func main() {
	out := flag.String("o", "", "output .lean")
	man := flag.String("manifest", "", "manifest json")
	flag.StringVar(&repo, "repo", "/repo", "repository root")
	flag.Parse()

	gen := parse("internal/impl/codec_gen.go")
	mgen := parse("internal/impl/merge_gen.go")
	mrg := parse("internal/impl/merge.go")
	mp := parse("internal/impl/codec_map.go")
	fld := parse("internal/impl/codec_field.go")
	ext := parse("internal/impl/codec_extension.go")
	dec := parse("internal/impl/decode.go")
	lz := parse("internal/impl/lazy.go")
	pdg := parse("proto/decode_gen.go")
	pdd := parse("proto/decode.go")
	pmg := parse("proto/merge.go")
	pd := parse("encoding/protodelim/protodelim.go")

	// decode, table-driven
	consumeSites(gen)
	transientSites(fld, regexp.MustCompile(`^consume(Message|Group)`), "impl.", "decodeFast")
	mapConsumeSites(mp)
	unknownAppend(dec, "unmarshalPointerEager", "*u", "impl.unmarshalPointerEager/unknown", "decodeFast", decodeCtx)
	unknownAppend(lz, "unmarshalPointerLazy", "*u", "impl.unmarshalPointerLazy/unknown", "decodeFast", decodeCtx)
	// merge, table-driven
	mergeSites(mgen, nil, nil)
	mergeSites(mrg, nil, nil)
	mergeSites(mp, nil, nil)
	unknownAppend(mrg, "mergePointer", "*du", "impl.mergePointer/unknown", "mergeFast", func(fd *ast.FuncDecl) *ctx { return mergeCtx(fd, nil) })
	extensionSites(dec, ext, mrg)
	coderVars(gen)
	mapMergeDispatch(mp)
	// lazy buffer
	lazyBufferSite(lz)
	// reflection path
	reflectDecodeSites(pdg, pdd)
	reflectMergeSites(pmg)
	reflectCoders()
	// protodelim, public options
	delimSite(pd)
	pub := publicFlag(pdd)

	// the input slice of the two table-driven message loops must not be retained otherwise
	for _, it := range []struct {
		fl *file
		fn string
	}{{dec, "unmarshalPointerEager"}, {lz, "unmarshalPointerLazy"}, {lz, "unmarshalField"}, {lz, "lazyUnmarshal"}} {
		fd := method(it.fl, it.fn)
		name := "impl." + it.fn + "/input uses"
		if fd == nil {
			report(name, []string{"not found"})
			continue
		}
		allow := regexp.MustCompile(`^(f\.funcs\.unmarshal|\(\*lazy\)\.SetBuffer|mi\.unmarshalExtension|mi\.skipField|mi\.unmarshalField)$`)
		report(name, transientUses(fd, map[string]bool{"b": true}, allow), fd)
	}

	var sb strings.Builder
	sb.WriteString("/- GENERATED by /verif/bin/gen-alias (go/gen-alias) from the Go sources of the current tree. Do not edit.\n")
	sb.WriteString("   Copy/alias table for property C14: where decoded or merged bytes are stored, and how. -/\n")
	sb.WriteString("namespace Gen.AliasFacts\n\n")
	sb.WriteString("/-- what is stored: a `[]byte` value, a Go string, a scalar (or a container of scalars), a message pointer, the unknown-field buffer, a retained input buffer -/\n")
	sb.WriteString("inductive Kind where\n  | bytes | string | scalar | message | unknown | buffer\n  deriving DecidableEq, Repr\n\n")
	sb.WriteString("inductive Path where\n  | decodeFast | decodeReflect | mergeFast | mergeReflect | lazyBuffer | delim\n  deriving DecidableEq, Repr\n\n")
	sb.WriteString("/-- classification of the stored expression (see go/gen-alias/main.go) -/\n")
	sb.WriteString("inductive Cls where\n  | copy | alias | aliasOnlyUnderFlag | byValue | immutableShare | deep | transient | viaCoder\n  deriving DecidableEq, Repr\n\n")
	sb.WriteString("structure Site where\n  name : String\n  kind : Kind\n  path : Path\n  cls : Cls\n  deriving Repr\n\n")
	sb.WriteString("/-- a field coder: how its decode function and its merge function store a value -/\n")
	sb.WriteString("structure Coder where\n  name : String\n  kind : Kind\n  fast : Bool\n  dec : Cls\n  mrg : Cls\n  deriving Repr, DecidableEq\n\n")
	sb.WriteString("def sites : List Site := [\n")
	for i, s := range sites {
		sep := ","
		if i == len(sites)-1 {
			sep = ""
		}
		if s.Doc != "" {
			fmt.Fprintf(&sb, "  -- %s\n", strings.ReplaceAll(leanDoc(s.Doc), "\n", " "))
		}
		fmt.Fprintf(&sb, "  { name := %s, kind := .%s, path := .%s, cls := .%s }%s\n", leanStr(s.Name), s.Kind, s.Path, s.Cls, sep)
	}
	sb.WriteString("]\n\n")
	sb.WriteString("def coders : List Coder := [\n")
	for i, c := range coders {
		sep := ","
		if i == len(coders)-1 {
			sep = ""
		}
		fmt.Fprintf(&sb, "  -- unmarshal: %s, merge: %s\n", c.DecBy, c.MrgBy)
		fmt.Fprintf(&sb, "  { name := %s, kind := .%s, fast := %v, dec := .%s, mrg := .%s }%s\n", leanStr(c.Name), c.Kind, c.Fast, c.Dec, c.Mrg, sep)
	}
	sb.WriteString("]\n\n")
	lb := siteCls["impl.unmarshalPointerLazy/SetBuffer"]
	if lb == "" {
		lb = "alias"
	}
	fmt.Fprintf(&sb, "/-- lazy.go unmarshalPointerLazy: the buffer retained by `(*lazy).SetBuffer` -/\ndef lazyBuffer : Cls := .%s\n\n", lb)
	dw := siteCls["protodelim.UnmarshalFrom/Peek window"]
	if dw == "" {
		dw = "alias"
	}
	fmt.Fprintf(&sb, "/-- protodelim.UnmarshalFrom: the bufio Peek window is only handed to o.Unmarshal -/\ndef delimWindow : Cls := .%s\n\n", dw)
	fmt.Fprintf(&sb, "/-- proto.UnmarshalOptions can make the decoder run with UnmarshalAliasBuffer -/\ndef publicUnmarshalSetsAlias : Bool := %v\n\n", pub)
	sb.WriteString("end Gen.AliasFacts\n")

	old, _ := os.ReadFile(*out)
	if string(old) != sb.String() {
		if err := os.WriteFile(*out, []byte(sb.String()), 0o644); err != nil {
			fmt.Fprintln(os.Stderr, err)
			os.Exit(2)
		}
	}
	if *man != "" {
		keys := make([]string, 0, len(manifest))
		for k := range manifest {
			keys = append(keys, k)
		}
		sort.Strings(keys)
		data, _ := json.MarshalIndent(manifest, "", " ")
		if err := os.WriteFile(*man, data, 0o644); err != nil {
			fmt.Fprintln(os.Stderr, err)
			os.Exit(2)
		}
	}
	bad := 0
	for k, e := range manifest {
		if e.Status != "ok" {
			fmt.Fprintf(os.Stderr, "gen-alias: %s: %s\n", k, e.Status)
			bad++
		}
	}
	fmt.Fprintf(os.Stderr, "gen-alias: %d sites, %d coders, %d anchors, %d not ok\n", len(sites), len(coders), len(manifest), bad)
}
