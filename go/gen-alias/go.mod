module verif/gen-alias

go 1.23
