module verif/gen-fieldorder

go 1.23
