// gen-fieldorder: T2 fact extractor for the ORDER in which the table-driven coders emit fields (C29).
//
// It parses (go/ast only, no type checking) the current tree's
//
//	internal/impl/codec_message.go         makeCoderMethods        (open / hybrid API)
//	internal/impl/codec_message_opaque.go  makeOpaqueCoderMethods  (opaque API)
//	internal/order/order.go                LegacyFieldOrder        (reflection path, dynamicpb)
//
// and checks that both coder tables are built as: append every declared field in declaration order;
// sort.Slice by field number (unconditional); build the dense table from that order; then
// `if mi.Desc.Oneofs().Len() > 0 { sort.Slice(…, order.LegacyFieldOrder on the descriptors) }`; nothing else
// writes mi.orderedCoderFields anywhere in the package.  The two comparators, the condition guarding the second
// sort, the constants and the guard of the dense table and the clause sequence of LegacyFieldOrder are normalised
// (closure parameters and := locals renamed positionally, whitespace collapsed) and compared with canonical
// shapes.  Recognised shapes become constants of lean/PbVerif/Gen/FieldOrder.lean, from which
// Model/FieldOrder.lean builds the configuration its theorems are about; an unrecognised shape yields the code 99
// (the theorems then no longer apply: the proof breaks) and a non-"ok" manifest entry.
//
// usage: gen-fieldorder -repo /repo -o <lean file> -manifest <json>
package main

import (
	"bytes"
	"crypto/sha1"
	"encoding/hex"
	"encoding/json"
	"flag"
	"fmt"
	"go/ast"
	"go/parser"
	"go/printer"
	"go/token"
	"os"
	"path/filepath"
	"regexp"
	"sort"
	"strconv"
	"strings"
)

type entry struct {
	Status string `json:"status"`
	Hash   string `json:"hash"`
}

var (
	fset     = token.NewFileSet()
	manifest = map[string]*entry{}
	repo     string
)

type fact struct{ name, typ, val, doc string }

var facts []fact

func addFact(name, typ, val, doc string) { facts = append(facts, fact{name, typ, val, doc}) }

func str(n ast.Node) string {
	if n == nil {
		return ""
	}
	var b bytes.Buffer
	printer.Fprint(&b, fset, n)
	return b.String()
}

var ws = regexp.MustCompile(`\s+`)

func norm(s string) string { return strings.TrimSpace(ws.ReplaceAllString(s, " ")) }

func hash(s string) string {
	h := sha1.Sum([]byte(s))
	return hex.EncodeToString(h[:8])
}

func report(key, src string, problems []string) {
	st := "ok"
	if len(problems) > 0 {
		st = strings.Join(problems, "; ")
	}
	manifest[key] = &entry{Status: st, Hash: hash(src)}
}

func parseFile(rel string) *ast.File {
	f, err := parser.ParseFile(fset, filepath.Join(repo, rel), nil, parser.SkipObjectResolution)
	if err != nil {
		manifest[rel] = &entry{Status: "cannot parse: " + err.Error()}
		return nil
	}
	return f
}

// renameIdents prints n with the identifiers in ren replaced.
func renameIdents(n ast.Node, ren map[string]string) string {
	s := str(n)
	for from, to := range ren {
		s = regexp.MustCompile(`\b`+regexp.QuoteMeta(from)+`\b`).ReplaceAllLiteralString(s, to)
	}
	return norm(s)
}

// normFuncLit: the statements of a closure with its parameters renamed $1, $2, … and the variables it
// defines with := renamed $a, $b, … in order of definition.
func normFuncLit(fl *ast.FuncLit) string {
	ren := map[string]string{}
	k := 0
	for _, fld := range fl.Type.Params.List {
		for _, nm := range fld.Names {
			k++
			ren[nm.Name] = "$" + strconv.Itoa(k)
		}
	}
	v := 0
	ast.Inspect(fl.Body, func(n ast.Node) bool {
		if as, ok := n.(*ast.AssignStmt); ok && as.Tok == token.DEFINE {
			for _, l := range as.Lhs {
				if id, ok := l.(*ast.Ident); ok && id.Name != "_" {
					if _, seen := ren[id.Name]; !seen {
						ren[id.Name] = "$" + string(rune('a'+v))
						v++
					}
				}
			}
		}
		return true
	})
	var parts []string
	for _, st := range fl.Body.List {
		parts = append(parts, renameIdents(st, ren))
	}
	return strings.Join(parts, " ; ")
}

const (
	canonNumberCmp = "return mi.orderedCoderFields[$1].num < mi.orderedCoderFields[$2].num"
	canonLegacyCmp = "$a := fields.ByNumber(mi.orderedCoderFields[$1].num) ; $b := fields.ByNumber(mi.orderedCoderFields[$2].num) ; return order.LegacyFieldOrder($a, $b)"
	canonCond      = "mi.Desc.Oneofs().Len() > 0"
	canonFields    = "fields := mi.Desc.Fields()"
	canonAppend    = "mi.orderedCoderFields = append(mi.orderedCoderFields, cf)"
	canonMake      = "mi.denseCoderFields = make([]*coderFieldInfo, maxDense+1)"
)

var (
	reMaxDense = regexp.MustCompile(`^for _, cf := range mi\.orderedCoderFields \{ if cf\.num >= (\d+) && cf\.num >= (\d+)\*maxDense \{ break \} maxDense = cf\.num \}$`)
	reFill     = regexp.MustCompile(`^for _, cf := range mi\.orderedCoderFields \{ if int\(cf\.num\) (>=|>) len\(mi\.denseCoderFields\) \{ break \} mi\.denseCoderFields\[cf\.num\] = cf \}$`)
)

// isSortSlice: sort.Slice(mi.orderedCoderFields, func…)
func isSortSlice(n ast.Node) (*ast.FuncLit, bool) {
	es, ok := n.(*ast.ExprStmt)
	if !ok {
		return nil, false
	}
	call, ok := es.X.(*ast.CallExpr)
	if !ok || norm(str(call.Fun)) != "sort.Slice" || len(call.Args) != 2 || norm(str(call.Args[0])) != "mi.orderedCoderFields" {
		return nil, false
	}
	fl, ok := call.Args[1].(*ast.FuncLit)
	return fl, ok
}

// mentionsWrite: does the node assign to / sort / otherwise pass X.orderedCoderFields as a call argument?
func writesOrdered(n ast.Node) (sites []string) {
	ast.Inspect(n, func(x ast.Node) bool {
		switch t := x.(type) {
		case *ast.AssignStmt:
			for _, l := range t.Lhs {
				if strings.HasSuffix(norm(str(l)), ".orderedCoderFields") {
					sites = append(sites, "assign:"+norm(str(t)))
				}
			}
		case *ast.CallExpr:
			fn := norm(str(t.Fun))
			if fn == "len" || fn == "append" || fn == "cap" {
				return true
			}
			for _, a := range t.Args {
				if strings.HasSuffix(norm(str(a)), ".orderedCoderFields") {
					sites = append(sites, "call:"+fn)
				}
			}
		case *ast.IncDecStmt:
		}
		return true
	})
	return
}

func checkCoder(prefix, rel, fn string) {
	add := func(name, typ, val, doc string) { addFact(prefix+"_"+name, typ, val, rel+" "+fn+": "+doc) }
	firstByNumber, resortLegacy, denseBetween, noOther := false, false, false, false
	cond, guardStrict, minSparse, factor := 99, false, 0, 0
	defer func() {
		add("firstSortByNumber", "Bool", fmt.Sprint(firstByNumber), "the table is first sorted, unconditionally, by `cf.num <`")
		add("resortCond", "Nat", fmt.Sprint(cond), "guard of the second sort: 0 = there is no second sort, 1 = `mi.Desc.Oneofs().Len() > 0`, 2 = unconditional, 99 = not recognised")
		add("resortByLegacyFieldOrder", "Bool", fmt.Sprint(resortLegacy), "the second sort compares `order.LegacyFieldOrder(fields.ByNumber(a.num), fields.ByNumber(b.num))` with fields = mi.Desc.Fields()")
		add("denseBetweenSorts", "Bool", fmt.Sprint(denseBetween), "maxDense and the dense table are computed from the number-sorted table, before the second sort")
		add("denseGuardStrict", "Bool", fmt.Sprint(guardStrict), "the loop filling the dense table stops at `int(cf.num) > len(dense)` (true) or `>= len(dense)` (false)")
		add("denseMinSparse", "Nat", fmt.Sprint(minSparse), "A in `cf.num >= A && cf.num >= B*maxDense`")
		add("denseFactor", "Nat", fmt.Sprint(factor), "B in `cf.num >= A && cf.num >= B*maxDense`")
		add("noOtherWrites", "Bool", fmt.Sprint(noOther), "mi.orderedCoderFields is written only by the append in the field loop and the two sorts")
	}()
	f := parseFile(rel)
	if f == nil {
		return
	}
	var fd *ast.FuncDecl
	for _, d := range f.Decls {
		if x, ok := d.(*ast.FuncDecl); ok && x.Name.Name == fn {
			fd = x
		}
	}
	key := rel + ":" + fn
	if fd == nil {
		manifest[key] = &entry{Status: "function not found"}
		return
	}
	src := str(fd)
	var problems []string
	bad := func(f string, a ...any) { problems = append(problems, fmt.Sprintf(f, a...)) }

	idxAppendLoop, idxFirst, idxMaxDense, idxMake, idxFill, idxResort, idxFields := -1, -1, -1, -1, -1, -1, -1
	nSorts := 0
	for i, st := range fd.Body.List {
		ns := norm(str(st))
		switch {
		case ns == canonFields:
			idxFields = i
		case ns == canonMake:
			idxMake = i
		}
		if m := reMaxDense.FindStringSubmatch(ns); m != nil {
			idxMaxDense = i
			minSparse, _ = strconv.Atoi(m[1])
			factor, _ = strconv.Atoi(m[2])
		}
		if m := reFill.FindStringSubmatch(ns); m != nil {
			idxFill = i
			guardStrict = m[1] == ">"
		}
		if fs, ok := st.(*ast.ForStmt); ok {
			for _, s := range writesOrdered(fs) {
				if s == "assign:"+canonAppend && idxAppendLoop < 0 {
					idxAppendLoop = i
				} else {
					bad("unexpected write in a loop: %s", s)
				}
			}
		}
		if fl, ok := isSortSlice(st); ok {
			nSorts++
			got := normFuncLit(fl)
			switch {
			case idxFirst < 0 && got == canonNumberCmp:
				idxFirst = i
				firstByNumber = true
			case got == canonLegacyCmp && idxResort < 0:
				idxResort, cond, resortLegacy = i, 2, true
			default:
				bad("top-level sort.Slice with unexpected comparator `%s`", got)
			}
		}
		if is, ok := st.(*ast.IfStmt); ok {
			var inner []*ast.FuncLit
			for _, s := range is.Body.List {
				if fl, ok := isSortSlice(s); ok {
					inner = append(inner, fl)
				}
			}
			if len(inner) == 0 {
				if w := writesOrdered(is); len(w) > 0 {
					bad("unexpected write under `if %s`: %v", norm(str(is.Cond)), w)
				}
				continue
			}
			nSorts += len(inner)
			got := normFuncLit(inner[0])
			if len(inner) != 1 || len(is.Body.List) != 1 || is.Else != nil || is.Init != nil || idxResort >= 0 {
				bad("the guarded re-sort is not a single `if cond { sort.Slice(...) }`")
				continue
			}
			idxResort = i
			if got == canonLegacyCmp {
				resortLegacy = true
			} else {
				bad("re-sort comparator is `%s`, want `%s`", got, canonLegacyCmp)
			}
			if c := norm(str(is.Cond)); c == canonCond {
				cond = 1
			} else {
				bad("the re-sort is guarded by `%s`, want `%s` (a skipped re-sort changes the order in which oneof members are emitted)", c, canonCond)
			}
		}
	}
	if idxResort < 0 && len(problems) == 0 {
		cond = 0
		bad("no second sort by order.LegacyFieldOrder")
	}
	if idxFields < 0 {
		bad("`%s` not found", canonFields)
		resortLegacy = false
	}
	if idxAppendLoop < 0 {
		bad("field loop with `%s` not found", canonAppend)
	}
	if !firstByNumber {
		bad("unconditional first sort by number not found")
	}
	if idxMaxDense < 0 || idxMake < 0 || idxFill < 0 {
		bad("dense table construction not in canonical shape (maxDense loop %d, make %d, fill loop %d)", idxMaxDense, idxMake, idxFill)
	} else if idxAppendLoop < idxFirst && idxFirst < idxMaxDense && idxMaxDense < idxMake && idxMake < idxFill && (idxResort < 0 || idxFill < idxResort) {
		denseBetween = true
	} else {
		bad("statement order changed: append loop %d, first sort %d, maxDense %d, make %d, fill %d, re-sort %d", idxAppendLoop, idxFirst, idxMaxDense, idxMake, idxFill, idxResort)
	}
	// every write of the table inside this function is one of the three known sites
	all := writesOrdered(fd.Body)
	wantSites := 1 + nSorts
	if len(all) != wantSites || nSorts > 2 {
		bad("%d writes of mi.orderedCoderFields in the function (%v), want the append and at most two sorts", len(all), all)
	} else {
		noOther = true
	}
	report(key, src, problems)
}

// checkNoOtherWriters: no other function of internal/impl writes X.orderedCoderFields.
func checkNoOtherWriters() bool {
	dir := filepath.Join(repo, "internal/impl")
	ents, err := os.ReadDir(dir)
	if err != nil {
		manifest["internal/impl:writers"] = &entry{Status: err.Error()}
		return false
	}
	var problems []string
	var all []string
	for _, e := range ents {
		if !strings.HasSuffix(e.Name(), ".go") || strings.HasSuffix(e.Name(), "_test.go") {
			continue
		}
		f, err := parser.ParseFile(fset, filepath.Join(dir, e.Name()), nil, parser.SkipObjectResolution)
		if err != nil {
			problems = append(problems, e.Name()+": "+err.Error())
			continue
		}
		for _, d := range f.Decls {
			fd, ok := d.(*ast.FuncDecl)
			if !ok || fd.Body == nil {
				continue
			}
			if (e.Name() == "codec_message.go" && fd.Name.Name == "makeCoderMethods") || (e.Name() == "codec_message_opaque.go" && fd.Name.Name == "makeOpaqueCoderMethods") {
				continue
			}
			for _, s := range writesOrdered(fd.Body) {
				problems = append(problems, fmt.Sprintf("%s %s writes the table: %s", e.Name(), fd.Name.Name, s))
			}
			all = append(all, e.Name()+":"+fd.Name.Name)
		}
	}
	sort.Strings(all)
	report("internal/impl:other-writers-of-orderedCoderFields", strings.Join(problems, "\n"), problems)
	return len(problems) == 0
}

func checkLegacyFieldOrder() {
	rel := "internal/order/order.go"
	clauses := []int{}
	excludesSynthetic := false
	defer func() {
		var cs []string
		for _, c := range clauses {
			cs = append(cs, strconv.Itoa(c))
		}
		addFact("legacyClauses", "List Nat", "["+strings.Join(cs, ", ")+"]", rel+" LegacyFieldOrder: the clauses in source order; 1 = extension fields first, 2 = fields outside a oneof before oneof members, 3 = members of different oneofs by the oneofs' declaration index, 4 = ascending field number (11..14 = the reversed clause, 99 = not recognised)")
		addFact("legacyInOneofExcludesSynthetic", "Bool", fmt.Sprint(excludesSynthetic), rel+" LegacyFieldOrder: `inOneof` is `od != nil && !od.IsSynthetic()` on `x.ContainingOneof()`")
	}()
	f := parseFile(rel)
	if f == nil {
		return
	}
	var fl *ast.FuncLit
	ast.Inspect(f, func(n ast.Node) bool {
		if vs, ok := n.(*ast.ValueSpec); ok {
			for i, nm := range vs.Names {
				if nm.Name == "LegacyFieldOrder" && i < len(vs.Values) {
					fl, _ = vs.Values[i].(*ast.FuncLit)
				}
			}
		}
		return true
	})
	key := rel + ":LegacyFieldOrder"
	if fl == nil {
		manifest[key] = &entry{Status: "LegacyFieldOrder is not a function literal"}
		clauses = []int{99}
		return
	}
	var problems []string
	ren := map[string]string{}
	k := 0
	for _, fld := range fl.Type.Params.List {
		for _, nm := range fld.Names {
			k++
			ren[nm.Name] = "$" + strconv.Itoa(k)
		}
	}
	shapes := map[string]int{
		"if $1.IsExtension() != $2.IsExtension() { return $1.IsExtension() && !$2.IsExtension() }":      1,
		"if $1.IsExtension() != $2.IsExtension() { return !$1.IsExtension() && $2.IsExtension() }":      11,
		"if inOneof(ox) != inOneof(oy) { return !inOneof(ox) && inOneof(oy) }":                          2,
		"if inOneof(ox) != inOneof(oy) { return inOneof(ox) && !inOneof(oy) }":                          12,
		"if inOneof(ox) && inOneof(oy) && ox != oy { return ox.Index() < oy.Index() }":                  3,
		"if inOneof(ox) && inOneof(oy) && ox != oy { return ox.Index() > oy.Index() }":                  13,
		"return $1.Number() < $2.Number()":                                                              4,
		"return $1.Number() > $2.Number()":                                                              14,
	}
	sawOx, sawIn := false, false
	for _, st := range fl.Body.List {
		s := renameIdents(st, ren)
		switch {
		case s == "ox, oy := $1.ContainingOneof(), $2.ContainingOneof()":
			sawOx = true
		case s == "inOneof := func(od protoreflect.OneofDescriptor) bool { return od != nil && !od.IsSynthetic() }":
			sawIn = true
		default:
			if c, ok := shapes[s]; ok {
				clauses = append(clauses, c)
			} else {
				clauses = append(clauses, 99)
				problems = append(problems, "unrecognised statement `"+s+"`")
			}
		}
	}
	excludesSynthetic = sawOx && sawIn
	if !excludesSynthetic {
		problems = append(problems, "the definitions of ox, oy / inOneof are not in canonical shape")
	}
	if fmt.Sprint(clauses) != "[1 2 3 4]" {
		problems = append(problems, fmt.Sprintf("clause sequence %v, want [1 2 3 4]", clauses))
	}
	report(key, str(fl), problems)
}

func main() {
	out := flag.String("o", "", "output Lean file")
	man := flag.String("manifest", "", "output manifest JSON")
	flag.StringVar(&repo, "repo", "/repo", "repository root")
	flag.Parse()

	checkLegacyFieldOrder()
	checkCoder("open", "internal/impl/codec_message.go", "makeCoderMethods")
	checkCoder("opaque", "internal/impl/codec_message_opaque.go", "makeOpaqueCoderMethods")
	addFact("noWritersElsewhere", "Bool", fmt.Sprint(checkNoOtherWriters()), "no other function of internal/impl assigns, sorts or passes on mi.orderedCoderFields")

	var b strings.Builder
	b.WriteString("/- GENERATED by /verif/bin/gen-fieldorder (go/gen-fieldorder) from the Go sources of the current tree. Do not edit.\n")
	b.WriteString("   Shape facts of the code that orders the coder tables; Model/FieldOrder.lean builds its configurations from them. -/\n")
	b.WriteString("namespace Gen.FieldOrder\n\n")
	for _, f := range facts {
		fmt.Fprintf(&b, "/-- %s -/\ndef %s : %s := %s\n\n", f.doc, f.name, f.typ, f.val)
	}
	b.WriteString("end Gen.FieldOrder\n")
	if *out != "" {
		old, _ := os.ReadFile(*out)
		if string(old) != b.String() {
			if err := os.WriteFile(*out, []byte(b.String()), 0o644); err != nil {
				fmt.Fprintln(os.Stderr, err)
				os.Exit(1)
			}
		}
	} else {
		fmt.Print(b.String())
	}
	if *man != "" {
		data, _ := json.MarshalIndent(manifest, "", " ")
		if err := os.WriteFile(*man, data, 0o644); err != nil {
			fmt.Fprintln(os.Stderr, err)
			os.Exit(1)
		}
	}
	keys := make([]string, 0, len(manifest))
	for k := range manifest {
		keys = append(keys, k)
	}
	sort.Strings(keys)
	badN := 0
	for _, k := range keys {
		if manifest[k].Status != "ok" {
			badN++
			fmt.Fprintf(os.Stderr, "gen-fieldorder: %s: %s\n", k, manifest[k].Status)
		}
	}
	fmt.Fprintf(os.Stderr, "gen-fieldorder: %d anchors, %d not ok, %d facts\n", len(manifest), badN, len(facts))
}
