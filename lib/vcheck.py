"""Orchestrator for /verif checks: gen -> prove -> correspond -> search -> verdict.

Every stage rebuilds from /repo's *current working tree*:
  gen        go2lean / fact extractors re-read the Go sources and rewrite lean/PbVerif/Gen/*.lean
  prove      lake build of the property's theorem module (+ model driver); axiom audit
  correspond harness compiled inside the /repo module via `go build -overlay` and run against
             the compiled Lean model (line protocol) and directly against the property predicate
  verdict    evidence/<id>.json rewritten; VIOLATION / KNOWN-FINDING lines; exit code
"""
import json, os, re, subprocess, sys, time, hashlib, shutil, glob

VERIF = os.path.dirname(os.path.dirname(os.path.abspath(__file__)))
REPO = os.environ.get('VERIF_REPO', '/repo')
LEAN = os.path.join(VERIF, 'lean')
# An alternative repository (a scratch worktree with a seeded change, say) can be checked with
# VERIF_REPO=<dir>; everything such a run writes (evidence, replays, binaries) stays under .work/alt-*/.
ALT = os.path.realpath(REPO) != '/repo'
WORK = os.path.join(VERIF, '.work') if not ALT else os.path.join(VERIF, '.work', 'alt-' + hashlib.sha1(os.path.realpath(REPO).encode()).hexdigest()[:8])
BIN = os.path.join(WORK, 'bin')
OUTDIR = VERIF if not ALT else WORK

GOENV = dict(os.environ, GOFLAGS='-mod=mod', GOPROXY='off', GOSUMDB='off', GOTOOLCHAIN='local',
             CGO_ENABLED=os.environ.get('CGO_ENABLED', '0'))

ALLOWED_AXIOMS = {'propext', 'Classical.choice', 'Quot.sound'}
FORBIDDEN = re.compile(r'\bsorry\b|\badmit\b|^\s*axiom\s|native_decide|implemented_by|\bunsafe\s|maxHeartbeats\s+0\b', re.M)


def log(*a):
    print('[check]', *a, file=sys.stderr, flush=True)


def run(cmd, cwd=None, env=None, timeout=None, stdin=None):
    t0 = time.time()
    try:
        p = subprocess.run(cmd, cwd=cwd, env=env, timeout=timeout, stdin=stdin,
                           stdout=subprocess.PIPE, stderr=subprocess.STDOUT, text=True, errors='replace')
        return p.returncode, p.stdout, time.time() - t0
    except subprocess.TimeoutExpired as e:
        out = e.stdout if isinstance(e.stdout, str) else (e.stdout or b'').decode('utf8', 'replace')
        return 124, out + '\n[timeout]', time.time() - t0


# ----------------------------------------------------------------------------- tools

def newest_mtime(paths):
    m = 0
    for p in paths:
        for root, _, files in os.walk(p) if os.path.isdir(p) else [(os.path.dirname(p), [], [os.path.basename(p)])]:
            for f in files:
                try:
                    m = max(m, os.path.getmtime(os.path.join(root, f)))
                except OSError:
                    pass
    return m


def build_tool(name):
    """Build a Go tool living in /verif/go/<name> (own module) into .work/bin/<name>."""
    src = os.path.join(VERIF, 'go', name)
    out = os.path.join(BIN, name)
    if os.path.exists(out) and os.path.getmtime(out) >= newest_mtime([src]):
        return out
    os.makedirs(BIN, exist_ok=True)
    rc, o, _ = run(['go', 'build', '-o', out, '.'], cwd=src, env=GOENV, timeout=600)
    if rc != 0:
        raise RuntimeError('building %s failed:\n%s' % (name, o))
    return out


def build_harness(engine, tags=''):
    """Compile /verif/go/harness/<engine> as the virtual package internal/zz_verif_<engine> of the
    /repo module (current working tree) and return the binary path, or (None, output) on failure."""
    os.makedirs(BIN, exist_ok=True)
    ov = {}
    for pkg in ('vh', engine):
        d = os.path.join(VERIF, 'go', 'harness', pkg)
        for f in sorted(os.listdir(d)):
            if f.endswith('.go'):
                ov[os.path.join(REPO, 'internal', 'zz_verif_' + pkg, f)] = os.path.join(d, f)
    # engines may declare extra overlay packages in overlay.json: {"virtual dir under /repo": "dir under /verif"}
    extra = os.path.join(VERIF, 'go', 'harness', engine, 'overlay.json')
    if os.path.exists(extra):
        for vdir, sdir in json.load(open(extra)).items():
            sd = os.path.join(VERIF, sdir)
            for f in sorted(os.listdir(sd)):
                if f.endswith('.go'):
                    ov[os.path.join(REPO, vdir, f)] = os.path.join(sd, f)
    tagname = tags.replace(',', '_') if tags else 'default'
    ovpath = os.path.join(WORK, 'overlay_%s.json' % engine)
    json.dump({'Replace': ov}, open(ovpath, 'w'))
    out = os.path.join(BIN, 'h_%s_%s' % (engine, tagname))
    alltags = 'verif' + (',' + tags if tags else '')
    rc, o, dt = run(['go', 'build', '-tags', alltags, '-overlay', ovpath, '-o', out,
                     './internal/zz_verif_' + engine + '/'], cwd=REPO, env=GOENV, timeout=900)
    if rc != 0:
        return None, o
    return out, o


# ----------------------------------------------------------------------------- lean

def strip_comments(src):
    src = re.sub(r'/-.*?-/', '', src, flags=re.S)
    src = re.sub(r'--.*', '', src)
    return src


def import_closure(modules):
    """PbVerif modules transitively imported by the given modules (the files a property's theorems depend on)."""
    seen, todo = set(), list(modules)
    while todo:
        m = todo.pop()
        if m in seen or not m.startswith('PbVerif'):
            continue
        path = os.path.join(LEAN, *m.split('.')) + '.lean'
        if not os.path.exists(path):
            continue
        seen.add(m)
        for line in open(path, encoding='utf8'):
            mm = re.match(r'\s*(?:public\s+)?import\s+(PbVerif[\w.]*)', line)
            if mm:
                todo.append(mm.group(1))
    return sorted(seen)


def forbidden_scan(modules):
    hits = []
    for m in import_closure(modules):
        path = os.path.join(LEAN, *m.split('.')) + '.lean' 
        code = strip_comments(open(path, encoding='utf8').read())
        for m in FORBIDDEN.finditer(code):
            hits.append('%s: %s' % (os.path.relpath(path, LEAN), m.group(0).strip()))
    return hits


def exe_roots(exe):
    """root module of a lean_exe target, from lakefile.toml"""
    try:
        txt = open(os.path.join(LEAN, 'lakefile.toml')).read()
    except OSError:
        return []
    m = re.search(r'name\s*=\s*"%s"\s*\nroot\s*=\s*"([^"]+)"' % re.escape(exe), txt)
    return [m.group(1)] if m else []


def lake_build(targets, timeout=3000):
    return run(['lake', 'build'] + targets, cwd=LEAN, timeout=timeout)


def enclosing_decl(path, line):
    try:
        lines = open(path, encoding='utf8').read().split('\n')
    except OSError:
        return None
    for i in range(min(line, len(lines)) - 1, -1, -1):
        m = re.match(r'\s*(?:private\s+|protected\s+)?(?:theorem|lemma|def|example|instance)\s+([^\s:(\[{]+)?', lines[i])
        if m:
            return m.group(1) or 'example@%d' % (i + 1)
    return None


def broken_decls(build_output):
    out = []
    for m in re.finditer(r'error: (PbVerif/[^:]+\.lean):(\d+):(\d+): (.*)', build_output):
        d = enclosing_decl(os.path.join(LEAN, m.group(1)), int(m.group(2)))
        item = '%s:%s %s — %s' % (m.group(1), m.group(2), d or '?', m.group(4)[:160])
        if item not in out:
            out.append(item)
    return out


def audit_axioms(modules, theorems, allow_bv):
    """#print axioms for every registered theorem. Returns dict name -> {'axioms': [...], 'ok': bool, 'why': str}."""
    os.makedirs(WORK, exist_ok=True)
    tmp = os.path.join(WORK, 'audit_%d.lean' % os.getpid())
    with open(tmp, 'w') as f:
        for m in modules:
            f.write('import %s\n' % m)
        for t in theorems:
            f.write('#print axioms %s\n' % t)
    rc, out, dt = run(['lake', 'env', 'lean', tmp], cwd=LEAN, timeout=900)
    os.unlink(tmp)
    res = {}
    flat = re.sub(r'\s+', ' ', out)
    for t in theorems:
        short = t
        m = re.search(r"'%s' depends on axioms: \[([^\]]*)\]" % re.escape(short), flat)
        if m:
            ax = [a.strip() for a in m.group(1).split(',') if a.strip()]
        elif re.search(r"'%s' does not depend on any axioms" % re.escape(short), flat):
            ax = []
        else:
            res[t] = {'axioms': [], 'ok': False, 'why': 'theorem missing or does not elaborate'}
            continue
        bad = [a for a in ax if a not in ALLOWED_AXIOMS and not (allow_bv and '._native.bv_decide.ax_' in a)]
        native = sorted(a for a in ax if '._native.bv_decide.ax_' in a)
        core = sorted(a for a in ax if a in ALLOWED_AXIOMS)
        res[t] = {'axioms': core + (['bv_decide native axioms x%d' % len(native)] if native else []) + bad,
                  'ok': not bad, 'why': ('disallowed axioms: ' + ', '.join(bad)) if bad else ''}
    return res, out if rc != 0 else ''


# ----------------------------------------------------------------------------- known findings

def load_known():
    path = os.path.join(VERIF, 'known-findings.txt')
    known = []
    if os.path.exists(path):
        for line in open(path, encoding='utf8'):
            line = line.strip()
            m = re.match(r'known:\s+property=(\S+)\s+sig=(\S+)\s+(.*)', line)
            if m:
                known.append({'property': m.group(1), 'sig': m.group(2), 'what': m.group(3)})
    return known


# ----------------------------------------------------------------------------- main

def load_cfg(pid):
    path = os.path.join(VERIF, 'checks', pid + '.json')
    if not os.path.exists(path):
        raise SystemExit('no such check: ' + pid)
    return json.load(open(path))


def write_evidence(pid, ev):
    os.makedirs(os.path.join(OUTDIR, 'evidence'), exist_ok=True)
    path = os.path.join(OUTDIR, 'evidence', pid + '.json')
    tmp = path + '.tmp'
    json.dump(ev, open(tmp, 'w'), indent=1, sort_keys=True, default=str)
    os.replace(tmp, path)


def main(argv):
    import argparse
    ap = argparse.ArgumentParser()
    ap.add_argument('prop')
    ap.add_argument('--tier', default=os.environ.get('VERIF_TIER') or 'quick')
    ap.add_argument('--seed', type=int, default=int(os.environ.get('VERIF_SEED') or 1))
    ap.add_argument('--replay', default='')
    ap.add_argument('--skip-lean', action='store_true', help='(development only) skip gen/prove')
    a = ap.parse_args(argv)
    if a.tier not in ('quick', 'thorough'):
        a.tier = 'quick'
    pid = a.prop
    cfg = load_cfg(pid)
    t0 = time.time()
    os.makedirs(WORK, exist_ok=True)
    broken = []        # proof obligations / ties that no longer check
    notes = []
    stage = {}

    # ---- 1. gen
    gen_manifest = {}
    if not a.skip_lean:
        for g in cfg.get('gen', []):
            try:
                g2l = build_tool('go2lean')
            except RuntimeError as e:
                broken.append('gen:%s translator does not build: %s' % (g, str(e)[-300:]))
                continue
            man = os.path.join(WORK, 'gen_%s.json' % g)
            if os.path.exists(man):
                os.unlink(man)
            rc, out, dt = run([os.path.join(VERIF, 'bin', 'gen-' + g), g2l, man], cwd=VERIF, env=GOENV, timeout=600)
            stage['gen_' + g] = round(dt, 2)
            if rc != 0 or not os.path.exists(man):
                broken.append('gen:%s failed (exit %d): %s' % (g, rc, out[-400:]))
                continue
            gm = json.load(open(man))
            gen_manifest[g] = gm
            for k, v in gm.items():
                if v.get('status') != 'ok':
                    broken.append('gen:%s %s: %s (the Go source left the translated/extracted subset or disappeared)' % (g, k, v.get('status')))

    # ---- 2. prove
    theorems = cfg.get('theorems', [])
    refuted = cfg.get('refuted', [])   # obligations proved *false* of the current tree: [{"name":..., "negation":..., "finding":...}]
    targets = cfg.get('lean_targets', [])
    exe = cfg.get('model_exe')
    audit = {}
    lean_ok = True
    exe_path = None
    if not a.skip_lean:
        rc, out, dt = lake_build(targets + ([exe] if exe else []))
        stage['lake_build'] = round(dt, 2)
        if rc != 0:
            lean_ok = False
            bd = broken_decls(out)
            if not bd:
                bd = ['lake build failed: ' + out[-600:]]
            broken.extend('prove: ' + b for b in bd)
            # the model driver may still build even if a proof broke
            if exe:
                rc2, out2, _ = lake_build([exe])
                if rc2 != 0:
                    notes.append('model driver does not build: ' + '; '.join(broken_decls(out2))[:400])
                    exe = None
        mods_ok = []
        for m in targets:
            rcm, _, _ = lake_build([m]) if not lean_ok else (0, '', 0)
            if rcm == 0:
                mods_ok.append(m)
        allnames = theorems + [r['negation'] for r in refuted if r.get('negation')]
        if mods_ok and allnames:
            audit, aerr = audit_axioms(mods_ok, allnames, cfg.get('allow_bv_decide', False))
            for t, r in audit.items():
                if not r['ok']:
                    broken.append('prove: %s — %s' % (t, r['why']))
        else:
            for t in allnames:
                audit[t] = {'axioms': [], 'ok': False, 'why': 'module does not build'}
        hits = forbidden_scan(targets + ([] if not exe else exe_roots(exe)))
        if hits:
            broken.append('prove: forbidden construct in Lean sources: ' + '; '.join(hits[:5]))
        if a.tier == 'thorough' and lean_ok and cfg.get('leanchecker', True):
            for m in targets:
                rc, out, dt = run(['lake', 'env', 'leanchecker', m], cwd=LEAN, timeout=1800)
                stage['leanchecker_' + m] = round(dt, 2)
                if rc != 0:
                    broken.append('prove: leanchecker rejected %s: %s' % (m, out[-300:]))
    if exe:
        p = os.path.join(LEAN, '.lake', 'build', 'bin', exe)
        if os.path.exists(p):
            exe_path = p
    obligations = len(theorems) + len(refuted)
    discharged = sum(1 for t in theorems if audit.get(t, {}).get('ok')) + \
        sum(1 for r in refuted if (not r.get('negation')) or audit.get(r['negation'], {}).get('ok'))

    # ---- 3./4. correspond + search (the harness does both: model-vs-impl and property-on-impl)
    hres = None
    failures = []
    if cfg.get('harness'):
        hb, hout = build_harness(cfg['harness'], cfg.get('harness_tags', ''))
        if hb is None:
            broken.append('correspond: harness for engine %s does not compile against the current tree: %s' % (cfg['harness'], hout[-500:]))
        else:
            resf = os.path.join(WORK, 'result_%s_%d.json' % (pid, os.getpid()))
            cmd = [hb, '-prop', pid, '-seed', str(a.seed), '-tier', a.tier, '-out', resf]
            if exe_path:
                cmd += ['-model', exe_path]
            if a.replay:
                cmd += ['-replay', os.path.abspath(a.replay)]
            cmd += cfg.get('harness_args', [])
            tmo = cfg.get('timeout_' + a.tier, 900 if a.tier == 'quick' else 7200)
            henv = dict(GOENV, GOMEMLIMIT='8GiB', VERIF_DIR=VERIF, VERIF_REPO=REPO, VERIF_WORK=WORK)
            if cfg.get('peer_tags'):
                # a second build of the same harness with extra tags (e.g. protoreflect), run by the harness as a peer process
                pb, pout = build_harness(cfg['harness'], cfg['peer_tags'])
                if pb is None:
                    broken.append('correspond: peer harness (-tags %s) does not compile: %s' % (cfg['peer_tags'], pout[-400:]))
                else:
                    henv['VERIF_PEER_BIN'] = pb
            rc, out, dt = run(cmd, cwd=REPO, env=henv, timeout=tmo)
            stage['harness'] = round(dt, 2)
            if os.path.exists(resf):
                hres = json.load(open(resf))
                os.unlink(resf)
                failures = hres.get('failures', [])
            if rc != 0:
                failures.append({'kind': 'panic', 'what': 'harness exited with %d: %s' % (rc, out[-800:]), 'input': None, 'sig': ''})
            if hres is not None and exe and not hres.get('model_available') :
                broken.append('correspond: model driver %s unavailable; implementation-only run' % exe)

    # ---- 5. verdict
    known = [k for k in load_known() if k['property'] == pid]
    known_hits, new_fail = {}, []
    for f in failures:
        k = next((k for k in known if f.get('sig') and k['sig'] == f['sig']), None)
        if k:
            known_hits.setdefault(k['sig'], (k, f))
        else:
            new_fail.append(f)
    for sig, (k, f) in sorted(known_hits.items()):
        print('KNOWN-FINDING: property=%s sig=%s %s' % (pid, sig, k['what']))
    violation = bool(new_fail) or bool(broken)
    replay_path = ''
    if violation:
        os.makedirs(os.path.join(OUTDIR, 'replays'), exist_ok=True)
        replay_path = os.path.join(OUTDIR, 'replays', '%s-%s-%d.json' % (pid, a.tier, a.seed))
        json.dump({'property': pid, 'seed': a.seed, 'tier': a.tier,
                   'no_longer_checks': broken, 'failures': new_fail,
                   'replay_cmd': 'bin/check %s --replay %s' % (pid, replay_path)},
                  open(replay_path, 'w'), indent=1, default=str)
    wall = time.time() - t0

    level = cfg.get('level', 'proof')
    cov = {
        'obligations': obligations, 'discharged': discharged,
        'checker_cmd': 'cd /verif/lean && lake build %s && lake env lean <#print axioms audit>%s' % (
            ' '.join(targets), ' && lake env leanchecker <module>' if a.tier == 'thorough' else ''),
        'trusted_base': cfg.get('trusted_base', []),
        'theorems': {t: audit.get(t, {}).get('axioms', []) for t in theorems},
        'refuted_obligations': refuted,
        'no_longer_checks': broken,
        'gen': {g: {k: v.get('hash', v.get('value', '')) for k, v in gm.items()} for g, gm in gen_manifest.items()},
        'stage_seconds': stage,
    }
    if hres is not None:
        cov.update({
            'evaluations': hres.get('evaluations', 0),
            'distinct_nontrivial': hres.get('distinct_nontrivial', 0),
            'rule': hres.get('rule', ''),
            'samples': hres.get('samples', [])[:12] or [{'theorems': theorems[:5]}],
            'traces_validated_against_impl': hres.get('model_compared', 0),
            'model_available': hres.get('model_available', False),
            'histogram': hres.get('histogram', {}),
            'known_findings_seen': sorted(known_hits.keys()),
        })
        if hres.get('exhaustive'):
            cov['exhaustive'] = True
        if hres.get('notes'):
            cov['notes'] = hres['notes']
    else:
        cov.update({'samples': [{'theorems': theorems[:8]}]})
    if level in ('translation_validation',):
        cov['programs'] = cov.get('evaluations', 0)
        cov['disagreements_checked'] = len(failures)
    if level == 'other':
        cov['explanation'] = cfg.get('explanation', '')
    ev = {'property_id': pid, 'tier': a.tier, 'seed': a.seed, 'level': level, 'coverage': cov,
          'assumptions': cfg.get('assumptions', []), 'wall_s': round(wall, 2),
          'violations': len(new_fail) + (1 if broken and not new_fail else 0)}
    if notes:
        cov.setdefault('notes', []).extend(notes)
    if a.skip_lean:
        log('development run (--skip-lean): evidence not written')
    else:
        write_evidence(pid, ev)

    for b in broken:
        log('NO LONGER CHECKS:', b)
    for f in new_fail[:10]:
        log('FAIL [%s] %s input=%s impl=%s model=%s' % (f.get('kind'), f.get('what'), json.dumps(f.get('input'))[:300], f.get('impl', '')[:120], f.get('model', '')[:120]))
    if violation:
        has_input = any(f.get('kind') in ('property', 'panic') for f in new_fail)
        print('VIOLATION property=%s replay=%s%s' % (pid, replay_path, '' if has_input else ' no-failing-input-found'))
        return 1
    log('%s ok: %d/%d obligations, %d cases (%d distinct non-trivial), %d model comparisons, %.1fs' % (
        pid, discharged, obligations, cov.get('evaluations', 0), cov.get('distinct_nontrivial', 0),
        cov.get('traces_validated_against_impl', 0), wall))
    return 0
