import PbVerif.Model.MsgOps
import PbVerif.Lemmas.MsgOpsInv
import PbVerif.Lemmas.MsgRound
import PbVerif.Props.C06
/-
C12 — oneof members are mutually exclusive.

Model: `Model/MsgOps.lean` (`step`, `run`, `has`, `whichOneof`) for the reflection contract,
`Model/Msg.lean` for binary decoding and merge-on-decode.

* `step_exclusive`, `run_exclusive` — after ANY operation sequence (Set of scalars, bytes, enums and
  whole messages, Mutable, Clear, list/map edits, SetUnknown, Reset) at most one member of each oneof
  is populated (`Pb.AtMostOne`);
* `decode_exclusive`, `decode_into_exclusive` — binary decoding keeps it, for ALL inputs (also when
  decoding into a populated message);
* `reachable_exclusive` — any interleaving of operation sequences and decodes;
* `whichOneof_sound`, `whichOneof_none`, `whichOneof_complete` — `WhichOneof` names the populated
  member, and only it;
* `set_selects`, `set_clears_siblings` — `Set` on a member selects it and clears its siblings;
* `decode_last_member_wins` — when the wire carries two members of one oneof, the later one wins.
JSON/text rejection of duplicate members belongs to those engines.
-/
namespace C12
open Pb Spec

/-- at most one member of each oneof is populated after every operation -/
theorem step_exclusive (d : MsgD) (m : Msg) (op : Op) (hop : OpOK d op) (h : AtMostOne d m.fields) :
    AtMostOne d (step d m op).fields := step_atMostOne d m op hop h

/-- … hence after every history from the empty message -/
theorem run_exclusive (d : MsgD) (ops : List Op) (hok : ∀ op ∈ ops, OpOK d op) :
    AtMostOne d (run d Msg.empty ops).fields :=
  (run_invariants d ops Msg.empty hok trivial (AtMostOne_nil d)).2

/-- binary decoding into any message keeps the oneofs exclusive — every input -/
theorem decode_into_exclusive (S : Schema) (hS : schemaOK S = true) (mi : Nat) (m : Msg) (b : List Byte) (limit : Int)
    (dis : Bool) (r : Msg) (hm : AtMostOne (S.msg mi) m.fields) (h : unmarshalInto S mi m b limit dis = .ok r) :
    AtMostOne (S.msg mi) r.fields := by
  unfold unmarshalInto at h
  split at h
  · cases h
  · exact decMsg_atMostOne hS _ _ _ _ _ _ _ hm h

theorem decode_exclusive (S : Schema) (hS : schemaOK S = true) (mi : Nat) (b : List Byte) (limit : Int)
    (dis : Bool) (r : Msg) (h : unmarshal S mi b limit dis = .ok r) : AtMostOne (S.msg mi) r.fields :=
  decode_into_exclusive S hS mi Msg.empty b limit dis r (AtMostOne_nil _) h

/-- states reachable by interleaving reflection histories and (successful) binary decodes -/
inductive Reachable (S : Schema) (mi : Nat) : Msg → Prop
  | empty : Reachable S mi Msg.empty
  | op {m : Msg} (o : Op) : Reachable S mi m → OpOK (S.msg mi) o → Reachable S mi (step (S.msg mi) m o)
  | decode {m r : Msg} (b : List Byte) (limit : Int) (dis : Bool) : Reachable S mi m →
      unmarshalInto S mi m b limit dis = .ok r → Reachable S mi r

theorem reachable_exclusive (S : Schema) (hS : schemaOK S = true) (mi : Nat) (m : Msg) (h : Reachable S mi m) :
    AtMostOne (S.msg mi) m.fields := by
  induction h with
  | empty => exact AtMostOne_nil _
  | op o _ hok ih => exact step_atMostOne _ _ o hok ih
  | decode b limit dis _ hd ih => exact decode_into_exclusive S hS mi _ b limit dis _ ih hd

/-! ### WhichOneof -/

/-- `WhichOneof` answers a populated member of that oneof -/
theorem whichOneof_sound (d : MsgD) (m : Msg) (o n : Nat) (h : whichOneof d m o = some n) :
    has m n = true ∧ ∃ f ∈ d.fields, f.num = n ∧ f.oneof = some o := by
  unfold whichOneof at h
  cases hf : d.fields.find? (fun f => f.oneof == some o && has m f.num) with
  | none => simp [hf] at h
  | some f =>
    simp only [hf, Option.map_some, Option.some.injEq] at h
    have hp := List.find?_some hf
    have hmem := List.mem_of_find?_eq_some hf
    simp only [Bool.and_eq_true, beq_iff_eq] at hp
    subst h
    exact ⟨hp.2, f, hmem, rfl, hp.1⟩

/-- `WhichOneof` answers nothing only if no member is populated -/
theorem whichOneof_none (d : MsgD) (m : Msg) (o : Nat) (h : whichOneof d m o = none) :
    ∀ f ∈ d.fields, f.oneof = some o → has m f.num = false := by
  unfold whichOneof at h
  simp only [Option.map_eq_none_iff, List.find?_eq_none] at h
  intro f hf ho
  have := h f hf
  simpa [ho] using this

/-- with distinct field numbers in the descriptor and exclusive oneofs, `WhichOneof` names THE member -/
theorem whichOneof_complete (d : MsgD) (m : Msg) (o : Nat) (f : Field)
    (hdist : ∀ g ∈ d.fields, d.find g.num = some g) (hex : AtMostOne d m.fields)
    (hf : f ∈ d.fields) (ho : f.oneof = some o) (hp : has m f.num = true) : whichOneof d m o = some f.num := by
  cases hw : whichOneof d m o with
  | none => have := whichOneof_none d m o hw f hf ho; rw [hp] at this; cases this
  | some n =>
    obtain ⟨hn, g, hg, hgn, hgo⟩ := whichOneof_sound d m o n hw
    subst hgn
    have := hex g.num f.num g f o (by simpa [has] using hn) (by simpa [has] using hp) (hdist g hg) (hdist f hf) hgo ho
    rw [this]

/-- `Set` on a member selects it … -/
theorem set_selects (d : MsgD) (m : Msg) (f : Field) (v : Val) (o : Nat)
    (hdist : ∀ g ∈ d.fields, d.find g.num = some g) (hf : f ∈ d.fields) (ho : f.oneof = some o)
    (hc : f.card ≠ .implicit) (hex : AtMostOne d m.fields) :
    whichOneof d (step d m (.set f.num v)) o = some f.num := by
  have hfind := hdist f hf
  apply whichOneof_complete d _ o f hdist (step_atMostOne d m (.set f.num v) trivial hex) hf ho
  cases v with
  | msg x =>
    cases m with
    | mk fs u => simp [step, hfind, has, Msg.fields, Msg.unknown, Fields.get?_set]
  | num n =>
    cases m with
    | mk fs u => simp [step, hfind, has, Msg.fields, Msg.unknown, get?_setSingular, hc]
  | bytes b =>
    cases m with
    | mk fs u => simp [step, hfind, has, Msg.fields, Msg.unknown, get?_setSingular, hc]

/-- … and clears every sibling -/
theorem set_clears_siblings (d : MsgD) (m : Msg) (f g : Field) (v : Val) (o : Nat)
    (hf : d.find f.num = some f) (hg : d.find g.num = some g) (ho : f.oneof = some o) (hgo : g.oneof = some o)
    (hne : g.num ≠ f.num) : has (step d m (.set f.num v)) g.num = false := by
  have hother : d.otherMember o f.num g.num = true := by simp [MsgD.otherMember, hg, hgo, hne]
  have hfg : ¬ f.num = g.num := fun e => hne e.symm
  cases m with
  | mk fs u =>
    cases v with
    | msg x => simp [step, hf, has, Msg.fields, Msg.unknown, Fields.get?_set, hfg, clearOneofFor, ho,
        Fields.get?_clearOneof, hother]
    | num n => simp [step, hf, has, Msg.fields, Msg.unknown, get?_setSingular, hfg, oneofOther, ho, hother]
    | bytes b => simp [step, hf, has, Msg.fields, Msg.unknown, get?_setSingular, hfg, oneofOther, ho, hother]

/-! ### binary decoding: the last member on the wire wins -/

theorem decode_last_member_wins (S : Schema) (mi : Nat) (f1 f2 : Field) (v1 v2 : Val) (o : Nat)
    (hf1 : (S.msg mi).find f1.num = some f1) (hf2 : (S.msg mi).find f2.num = some f2)
    (h11 : 1 ≤ f1.num) (h12 : f1.num ≤ maxValidNumber) (h21 : 1 ≤ f2.num) (h22 : f2.num ≤ maxValidNumber)
    (hne : f1.num ≠ f2.num) (ho1 : f1.oneof = some o) (ho2 : f2.oneof = some o)
    (hc1 : f1.card = .optional) (hc2 : f2.card = .optional)
    (hv1 : wfScalar f1 v1 = true) (hv2 : wfScalar f2 v2 = true) :
    unmarshal S mi (encVal S f1 v1 ++ encVal S f2 v2) =
      .ok (.mk (.cons f2.num (.one v2) .nil) []) := by
  have hm1 := wfScalar_not_message hv1
  have hm2 := wfScalar_not_message hv2
  unfold unmarshal unmarshalInto
  simp only [show ¬ ((10000 : Int) - 1 < 0) by omega, if_false]
  rw [encVal_scalar S f1 hv1, encVal_scalar S f2 hv2, List.append_assoc]
  have e2 : tagBytes f2.num f2.kind.wireType ++ encScalar f2.kind v2 =
      tagBytes f2.num f2.kind.wireType ++ (encScalar f2.kind v2 ++ []) := by simp
  rw [e2]
  refine DecTo_known (m' := .mk (.cons f1.num (.one v1) .nil) []) h11 h12 (wireType_lt _) hf1 ?_
    (consume_scalar hv1 _ _ _) ?_ _ (Nat.le_refl _)
  · intro fuel hf
    cases fuel with
    | zero => omega
    | succ fu =>
      rw [decField_singular_scalar fu (by simp [hc1]) (by simp [hc1]) hm1 (decScalar_enc hv1 _)]
      simp [Msg.empty, Msg.fields, Msg.unknown, setSingular, ho1, Fields.clearOneof, hc1, Fields.set]
  · refine DecTo_known (m' := .mk (.cons f2.num (.one v2) .nil) []) h21 h22 (wireType_lt _) hf2 ?_
      (consume_scalar hv2 _ _ _) (DecOK_nil S mi _ _ _)
    intro fuel hf
    cases fuel with
    | zero => omega
    | succ fu =>
      rw [decField_singular_scalar fu (by simp [hc2]) (by simp [hc2]) hm2 (decScalar_enc hv2 _)]
      simp [Msg.fields, Msg.unknown, setSingular, ho2, Fields.clearOneof, hf1, ho1, hne, hc2, Fields.set]

end C12

#print axioms C12.run_exclusive
#print axioms C12.reachable_exclusive
#print axioms C12.whichOneof_complete
#print axioms C12.decode_last_member_wins
