import PbVerif.Model.Names
import PbVerif.Lemmas.Names
/-
C42 — Go identifiers derived from schemas are valid and unique.

All statements are about `Model.Names`, the executable model of `internal/strs/strings.go`,
`protoreflect.FullName.IsValid`, the FieldMask path tests of `encoding/protojson`, and the name resolution of
`compiler/protogen` (`newMessage`, `protogen_opaque.go`); the `names` harness compares that model with the
Go code on every run.  Strings are lists of bytes (`GoSanitized`: of code points).

(State of /repo: after commits 25d16a6 "reserve ProtoReflect" and f3220dc "oneof no-release"; the two
obligations they repaired are proved positively below as `open_go_names_distinct`.)

The last clause of the property ("within a generated message all field, getter, setter, oneof and
nested-type names are pairwise distinct for any field naming") is FALSE of the current code.  For each way
in which it fails this file has the proved negation on a concrete schema (the same schemas are replayed
against the real generator by the harness) and a `…_partial` theorem under the hypothesis that excludes it.
-/
open Model.Names
namespace C42

/-! ### GoCamelCase -/

/-- `GoCamelCase` maps every valid protobuf name — an identifier `[A-Za-z_][A-Za-z0-9_]*`, or a dotted
sequence of them as used for nested types — to a non-empty string that starts with `A`–`Z` and consists of
`[A-Za-z0-9_]`, i.e. to an exported Go identifier. -/
theorem goCamelCase_exported (s : Str) (h : fullNameValid s = true) :
    ∃ c r, goCamelCase s = c :: r ∧ isUpper c = true ∧ ∀ b ∈ goCamelCase s, identByte b = true := by
  match s, h with
  | c :: r, h =>
    have hb := fullNameGo_bytes true (c :: r) h
    simp only [fullNameValid, fullNameGo, ↓reduceIte, Bool.and_eq_true] at h
    obtain ⟨d, t, e, hu⟩ := camelGo_head c r h.1
    exact ⟨d, t, e, hu, camelGo_bytes (c :: r) true false hb⟩

/-- a valid protobuf identifier (`protoreflect.Name.IsValid`) is a valid full name -/
theorem goCamelCase_exported_name (s : Str) (h : nameValid s = true) :
    ∃ c r, goCamelCase s = c :: r ∧ isUpper c = true ∧ ∀ b ∈ goCamelCase s, identByte b = true := by
  simp only [nameValid, Bool.and_eq_true] at h
  exact goCamelCase_exported s h.1

/-- what the code does with a leading `_`: it becomes `X` -/
theorem goCamelCase_leading_underscore (r : Str) :
    goCamelCase (US :: r) = CX :: camelGo false false r := by
  simp [goCamelCase, camelGo, US, DOT, isLower]

/-- the hypothesis is satisfiable … -/
example : fullNameValid (str "_foo.bar_baz") = true ∧ goCamelCase (str "_foo.bar_baz") = str "XFooBarBaz" := by decide
example : nameValid (str "foo_bar1") = true ∧ goCamelCase (str "foo_bar1") = str "FooBar1" := by decide
/-- … and needed: a name that starts with a digit stays unexported -/
example : fullNameValid (str "1a") = false ∧ goCamelCase (str "1a") = str "1A" := by decide

/-! ### GoSanitized -/

/-- For ANY string of code points, `GoSanitized` returns a Go identifier in the sense of
`go/token.IsIdentifier` (non-empty, letters/digits/`_`, not starting with a digit, not a keyword).
`isL`/`isD` stand for `unicode.IsLetter`/`unicode.IsDigit`; the only fact needed about them is that
U+FFFD (what `utf8.DecodeRuneInString("")` returns) is not a letter. -/
theorem goSanitized_ident (isL isD : Nat → Bool) (hre : isL runeError = false) (s : Str) :
    isGoIdent isL isD (goSanitized isL isD s) = true ∧ isKeyword (goSanitized isL isD s) = false := by
  have hm := identRunes_sanitizeMap isL isD s
  unfold goSanitized
  simp only
  split
  · refine ⟨?_, isKeyword_us_cons _⟩
    simp [isGoIdent, isKeyword_us_cons, identRunes, hm]
  · rename_i hc
    simp only [Bool.or_eq_true, Bool.not_eq_eq_eq_not, Bool.not_true, not_or, Bool.not_eq_true,
      Bool.not_eq_false] at hc
    refine ⟨?_, hc.1⟩
    match ht : sanitizeMap isL isD s with
    | [] => rw [ht] at hc; simp [firstRune, hre] at hc
    | c :: r =>
      rw [ht] at hc hm
      simp only [firstRune] at hc
      simp only [identRunes, Bool.and_eq_true] at hm
      simp [isGoIdent, hc.1, identRunes, hc.2, hm.2]

/-- ASCII instance: no hypothesis left. -/
theorem goSanitized_ident_ascii (s : Str) :
    isGoIdent asciiLetter asciiDigit (goSanitized asciiLetter asciiDigit s) = true ∧
    isKeyword (goSanitized asciiLetter asciiDigit s) = false :=
  goSanitized_ident asciiLetter asciiDigit (by decide) s

example : goSanitized asciiLetter asciiDigit (str "func") = str "_func" := by decide
example : goSanitized asciiLetter asciiDigit (str "1-a") = str "_1_a" := by decide
example : goSanitized asciiLetter asciiDigit [] = str "_" := by decide
/-- the hypothesis on the parameters holds for the ASCII predicates -/
example : asciiLetter runeError = false := by decide

/-! ### JSONCamelCase / JSONSnakeCase and the FieldMask paths -/

/-- the round trip holds exactly on the strings without upper-case letters in which every `_` is followed
by a lower-case letter -/
theorem snake_camel_iff (s : Str) : jsonSnakeCase (jsonCamelCase s) = s ↔ wfSnake s = true := by
  constructor
  · intro h
    have := wfSnake_jsonSnakeCase (jsonCamelCase s) (jsonCamelGo_no_us s false)
    rw [h] at this
    exact this
  · intro h
    have := snake_camel_of_wf s false h
    simpa [jsonCamelCase] using this

/-- `marshalFieldMask` accepts exactly the valid full names of that shape … -/
theorem fieldMaskAccepts_iff (s : Str) :
    fieldMaskAccepts s = true ↔ fullNameValid s = true ∧ wfSnake s = true := by
  simp only [fieldMaskAccepts, Bool.and_eq_true, beq_iff_eq, snake_camel_iff]

/-- … and on what it accepts, `JSONSnakeCase ∘ JSONCamelCase` is the identity. -/
theorem snake_camel (s : Str) (h : fieldMaskAccepts s = true) : jsonSnakeCase (jsonCamelCase s) = s := by
  simp only [fieldMaskAccepts, Bool.and_eq_true, beq_iff_eq] at h
  exact h.2

/-- the other direction: a JSON path without `_` is restored from the stored snake-case path -/
theorem camel_snake (s0 : Str) (h : ∀ c ∈ s0, c ≠ US) : jsonCamelCase (jsonSnakeCase s0) = s0 :=
  camel_snake_of_no_us s0 h

/-- what `unmarshalFieldMask` accepts is written back unchanged by `marshalFieldMask` -/
theorem fieldMaskParses_roundtrip (s0 : Str) (h : fieldMaskParses s0 = true) :
    fieldMaskAccepts (jsonSnakeCase s0) = true ∧ jsonCamelCase (jsonSnakeCase s0) = s0 := by
  simp only [fieldMaskParses, Bool.and_eq_true, Bool.not_eq_eq_eq_not, Bool.not_true] at h
  have hus : ∀ c ∈ s0, c ≠ US := by
    intro c hc e
    subst e
    have hcon : s0.contains US = true := List.contains_iff_mem.mpr hc
    rw [h.1] at hcon
    cases hcon
  have e := camel_snake s0 hus
  refine ⟨?_, e⟩
  simp only [fieldMaskAccepts, Bool.and_eq_true, beq_iff_eq]
  exact ⟨h.2, by rw [e]⟩

example : fieldMaskAccepts (str "user.display_name") = true ∧
    jsonCamelCase (str "user.display_name") = str "user.displayName" := by decide
example : fieldMaskAccepts (str "foo__bar") = false ∧ fieldMaskAccepts (str "fooBar") = false ∧
    fieldMaskAccepts (str "foo_1") = false := by decide
example : fieldMaskParses (str "user.displayName") = true ∧
    jsonSnakeCase (str "user.displayName") = str "user.display_name" := by decide

/-! ### open API: `makeNameUnique` -/

def fld (n : String) (num : Nat) (o : Option Nat) : Field := ⟨str n, num, o, true⟩

/-- the loop of `makeNameUnique` terminates (the model's fuel is never exhausted) -/
theorem resolveOps_total (used : List Str) (ops : List (Str × Kind)) :
    ∃ rs, resolveOps used ops = some rs :=
  Option.isSome_iff_exists.mp (resolveOps_isSome ops used)

/-- every resolved name is the requested name followed by `_`s, kinds are kept -/
theorem resolveOps_shape : ∀ (ops : List (Str × Kind)) (used : List Str) (rs : List (Str × Kind)),
    resolveOps used ops = some rs →
    rs.length = ops.length ∧
    ∀ p ∈ ops.zip rs, p.2.2 = p.1.2 ∧ ∃ k, p.2.1 = p.1.1 ++ List.replicate k US
  | [], _, rs, h => by simp [resolveOps] at h; subst h; simp
  | (n, k) :: ops, used, rs, h => by
    unfold resolveOps at h
    simp only [Option.bind_eq_some_iff] at h
    obtain ⟨r, hr, rs', hrs, h⟩ := h
    cases h
    obtain ⟨hl, hz⟩ := resolveOps_shape ops _ rs' hrs
    refine ⟨by simp [hl], ?_⟩
    intro p hp
    simp only [List.zip_cons_cons, List.mem_cons] at hp
    rcases hp with rfl | hp
    · exact ⟨rfl, (mkUnique_spec hr).2.2⟩
    · exact hz p hp

theorem fixedMethods_reserved : ∀ x ∈ fixedMethods, x ∈ reserved := by decide

/-- Unconditional, for ANY sequence of `makeNameUnique` calls (fields and oneofs, any names): the Go names of
the fields and oneofs of a message are pairwise distinct, none of them is the `Get` method of a field, none of
them — and no `Get` method — is a reserved name; in particular no member meets a method that the generator
puts on every message (`Reset`, `String`, `ProtoMessage`, `ProtoReflect`, `Descriptor`).
(Before /repo commits 25d16a6 and f3220dc this was false: `ProtoReflect` was not reserved, and
`makeNameUnique(name, false)` released `"Get"+name`.) -/
theorem open_go_names_distinct (ops rs : List (Str × Kind)) (h : resolveOps reserved ops = some rs) :
    (rs.map (·.1)).Nodup ∧
    (∀ p ∈ rs, ∀ q ∈ rs, q.2.hasGetter = true → p.1 ≠ GET ++ q.1) ∧
    (∀ x ∈ openMembers rs, x ∉ reserved ∧ x ∉ fixedMethods) := by
  obtain ⟨h1, h2, h3⟩ := resolveOps_spec ops reserved rs h
  refine ⟨h2, h3, ?_⟩
  have hr : ∀ x ∈ openMembers rs, x ∉ reserved := by
    intro x hx
    unfold openMembers at hx
    rcases List.mem_append.mp hx with hx | hx
    · obtain ⟨p, hp, rfl⟩ := List.mem_map.mp hx
      exact (h1 p (List.mem_filter.mp hp).1).1
    · obtain ⟨q, _, rfl⟩ := List.mem_map.mp hx
      exact get_not_reserved _
  exact fun x hx => ⟨hr x hx, fun hf => hr x hx (fixedMethods_reserved x hf)⟩

/-- in particular two fields never share a Go name or a getter -/
theorem open_field_names_distinct (ops rs : List (Str × Kind)) (h : resolveOps reserved ops = some rs) :
    ((rs.filter (·.2 == Kind.plain)).map (·.1)).Nodup :=
  List.Nodup.sublist (List.Sublist.map _ List.filter_sublist) (open_go_names_distinct ops rs h).1

/-- FULL STATEMENT (open API): "the struct field names (fields, oneofs) and the `Get` method names (fields,
oneofs) of a message are pairwise distinct and none of them is a reserved method name, for any field naming".
It is false of the current code (`open_oneof_getter_collides` below): the `Get` method of a oneof is not
reserved.  It holds under `NoGetClash`: no oneof's `Get<Name>` is itself the Go name of a field or oneof. -/
theorem open_names_distinct_partial (ops rs : List (Str × Kind))
    (h : resolveOps reserved ops = some rs) (hc : NoGetClash rs) :
    (openMembers rs).Nodup ∧ ∀ x ∈ openMembers rs, x ∉ reserved := by
  obtain ⟨h1, h2, h3⟩ := resolveOps_spec ops reserved rs h
  have hne : ∀ p ∈ rs, ∀ q ∈ rs, p.1 ≠ GET ++ q.1 := by
    intro p hp q hq
    cases hg : q.2.hasGetter
    · have : q.2 = Kind.oneof := by
        revert hg; cases q.2 <;> simp [Kind.hasGetter]
      exact hc q hq this p hp
    · exact h3 p hp q hq hg
  constructor
  · unfold openMembers
    rw [List.nodup_append]
    refine ⟨?_, ?_, ?_⟩
    · exact List.Nodup.sublist (List.Sublist.map _ List.filter_sublist) h2
    · have : rs.map (fun p => GET ++ p.1) = (rs.map (·.1)).map (GET ++ ·) := by simp [List.map_map]
      rw [this]
      exact List.Pairwise.map _ (fun a b hab e => hab (get_append_inj e)) h2
    · intro a ha b hb
      obtain ⟨p, hp, rfl⟩ := List.mem_map.mp ha
      obtain ⟨q, hq, rfl⟩ := List.mem_map.mp hb
      exact hne p (List.mem_filter.mp hp).1 q hq
  · intro x hx
    unfold openMembers at hx
    rcases List.mem_append.mp hx with hx | hx
    · obtain ⟨p, hp, rfl⟩ := List.mem_map.mp hx
      exact (h1 p (List.mem_filter.mp hp).1).1
    · obtain ⟨q, _, rfl⟩ := List.mem_map.mp hx
      exact get_not_reserved _

/-- Unconditional for messages without oneofs, for ANY list of field names (not even assumed valid or
distinct): the Go field names and their `Get` methods are pairwise distinct and avoid the reserved names. -/
theorem open_fields_getters_distinct (names : List Str) :
    ∃ rs, resolveOps reserved (names.map (·, Kind.plain)) = some rs ∧
      (rs.map (·.1) ++ rs.map (GET ++ ·.1)).Nodup ∧
      ∀ x ∈ rs.map (·.1) ++ rs.map (GET ++ ·.1), x ∉ reserved := by
  obtain ⟨rs, h⟩ := resolveOps_total reserved (names.map (·, Kind.plain))
  have hk := resolveOps_kinds _ _ _ h
  have hplain : ∀ p ∈ rs, p.2 = Kind.plain := by
    intro p hp
    have : p.2 ∈ rs.map (·.2) := List.mem_map.mpr ⟨p, hp, rfl⟩
    rw [hk] at this
    simp only [List.map_map, List.mem_map, Function.comp_apply] at this
    obtain ⟨_, _, e⟩ := this
    exact e.symm
  have hc : NoGetClash rs := fun p hp hko => by rw [hplain p hp] at hko; cases hko
  have hf : rs.filter (·.2 != Kind.member) = rs := by
    apply List.filter_eq_self.mpr
    intro p hp
    rw [hplain p hp]; rfl
  have := open_names_distinct_partial _ rs h hc
  simp only [openMembers, hf] at this
  exact ⟨rs, h, this⟩

/-- An input-level condition that implies `NoGetClash`: no camel-cased field or oneof name begins with
`Get`.  (Resolution only appends `_`s, so no resolved name begins with `Get` either.) -/
theorem noGetClash_of_no_get_prefix (ops rs : List (Str × Kind)) (used : List Str)
    (h : resolveOps used ops = some rs) (hp : ∀ op ∈ ops, op.1.take 3 ≠ GET) : NoGetClash rs := by
  intro p _ _ q hq e
  obtain ⟨op, hop, k, hk⟩ := resolveOps_origin ops used rs h q hq
  exact hp op hop (take3_underscores op.1 k p.1 (hk ▸ e))

/-- FULL open-API statement under the input-level condition. -/
theorem open_names_distinct_of_no_get_prefix (ops : List (Str × Kind))
    (hp : ∀ op ∈ ops, op.1.take 3 ≠ GET) :
    ∃ rs, resolveOps reserved ops = some rs ∧ (openMembers rs).Nodup ∧ ∀ x ∈ openMembers rs, x ∉ reserved := by
  obtain ⟨rs, h⟩ := resolveOps_total reserved ops
  exact ⟨rs, h, open_names_distinct_partial ops rs h (noGetClash_of_no_get_prefix ops rs reserved h hp)⟩

example : ∀ op ∈ opsOf [str "reset"] []
    [fld "x" 1 none, fld "has_x" 2 none, fld "X" 3 (some 0), fld "string" 4 (some 0)], op.1.take 3 ≠ GET := by
  decide

/-- message level: for a message without oneofs all member names of the generated open-API struct that
derive from fields are pairwise distinct — whatever the fields are called. -/
theorem open_message_no_oneof (m : Msg) (h : ∀ f ∈ m.fields, f.oneof = none) :
    ∃ l, openMembersOf m = some l ∧ l.Nodup ∧ ∀ x ∈ l, x ∉ reserved := by
  obtain ⟨rs, hrs, hn, hr⟩ := open_fields_getters_distinct (m.fields.map fun f => goCamelCase f.name)
  have e : opsOf m.oneofs [] m.fields = (m.fields.map fun f => goCamelCase f.name).map (·, Kind.plain) := by
    rw [opsOf_no_oneof m.oneofs m.fields [] h, List.map_map]; rfl
  have hk := resolveOps_kinds _ _ _ hrs
  have hf : rs.filter (·.2 != Kind.member) = rs := by
    apply List.filter_eq_self.mpr
    intro p hp
    have : p.2 ∈ rs.map (·.2) := List.mem_map.mpr ⟨p, hp, rfl⟩
    rw [hk] at this
    simp only [List.map_map, List.mem_map, Function.comp_apply] at this
    obtain ⟨_, _, e⟩ := this
    rw [← e]; rfl
  refine ⟨openMembers rs, ?_, ?_, ?_⟩
  · rw [openMembersOf, e, hrs]; rfl
  · simpa [openMembers, hf] using hn
  · simpa [openMembers, hf] using hr

/-- message level, with oneofs: the partial theorem. -/
theorem open_message_partial (m : Msg) :
    ∃ rs, resolveOps reserved (opsOf m.oneofs [] m.fields) = some rs ∧
      openMembersOf m = some (openMembers rs) ∧
      (NoGetClash rs → (openMembers rs).Nodup ∧ ∀ x ∈ openMembers rs, x ∉ reserved) := by
  obtain ⟨rs, h⟩ := resolveOps_total reserved (opsOf m.oneofs [] m.fields)
  exact ⟨rs, h, by simp [openMembersOf, h], open_names_distinct_partial _ rs h⟩

/-! #### witnesses: the full open-API statement is false -/

/-- `message M { optional int32 get_x = 1; oneof x { int32 a = 2; } }` -/
def wOneofGetter : Msg := ⟨str "M", [fld "get_x" 1 none, fld "a" 2 (some 0)], [str "x"], [], []⟩

/-- REFUTED (sig `oneof-getter-not-reserved`): the struct field `GetX` of `get_x` and the method `GetX()` of
oneof `x` carry one name ("this assumes that a getter method is not generated for oneofs", protogen.go). -/
theorem open_oneof_getter_collides : ∃ l, openMembersOf wOneofGetter = some l ∧ ¬ l.Nodup :=
  ⟨_, rfl, by decide⟩

/-- `message M { oneof get_x { int32 a = 1; } oneof x { int32 b = 2; } optional int32 GetX = 3; }`:
the former witness of the released `Get` name; field `GetX` is now moved out of the way -/
def wRelease : Msg :=
  ⟨str "M", [fld "a" 1 (some 0), fld "b" 2 (some 1), fld "GetX" 3 none], [str "get_x", str "x"], [], []⟩

example : ∃ rs, resolveOps reserved (opsOf wRelease.oneofs [] wRelease.fields) = some rs ∧
    rs.map (·.1) = [str "A", str "GetX", str "B", str "X", str "GetX_"] :=
  ⟨_, rfl, by decide⟩

/-- `message M { optional int32 proto_reflect = 1; }`: the former witness of the missing reserved name -/
def wProtoReflect : Msg := ⟨str "M", [fld "proto_reflect" 1 none], [], [], []⟩

example : openMembersOf wProtoReflect = some [str "ProtoReflect_", str "GetProtoReflect_"] := by decide

/-- `NoGetClash` is satisfiable by a message with a oneof whose members need renaming -/
example : ∃ rs, resolveOps reserved (opsOf [str "reset"] []
      [fld "x" 1 none, fld "get_x" 2 none, fld "X" 3 (some 0), fld "string" 4 (some 0)]) = some rs ∧
    NoGetClash rs ∧ rs.map (·.1) = [str "X", str "GetX_", str "X__", str "Reset_", str "String_"] :=
  ⟨_, rfl, by unfold NoGetClash; decide, by decide⟩

/-! ### open API: oneof wrapper types -/

/-- the rename loop terminates -/
theorem wrapperName_total (nested : List Str) (w : Str) : ∃ r, wrapperName nested w = some r :=
  Option.isSome_iff_exists.mp (wrapperAux_isSome nested _ w (by omega))

/-- what the loop guarantees: the wrapper type differs from every nested message/enum type -/
theorem wrapperName_avoids_nested (nested : List Str) (w r : Str) (h : wrapperName nested w = some r) :
    r ∉ nested :=
  (wrapperAux_spec nested _ w r h).1

/-- FULL STATEMENT: "the wrapper types of the oneof members of a message are pairwise distinct".  False
(`wrapper_collides`); true when no wrapper meets a nested type, i.e. when the loop has nothing to do. -/
theorem wrapper_distinct_partial (nested : List Str) (mi g₁ g₂ : Str) (hg : g₁ ≠ g₂)
    (h₁ : mi ++ US :: g₁ ∉ nested) (h₂ : mi ++ US :: g₂ ∉ nested) :
    wrapperName nested (mi ++ US :: g₁) ≠ wrapperName nested (mi ++ US :: g₂) := by
  obtain ⟨r₁, e₁⟩ := wrapperName_total nested (mi ++ US :: g₁)
  obtain ⟨r₂, e₂⟩ := wrapperName_total nested (mi ++ US :: g₂)
  have a := (wrapperAux_spec nested _ _ r₁ e₁).2 h₁
  have b := (wrapperAux_spec nested _ _ r₂ e₂).2 h₂
  rw [e₁, e₂, a, b]
  intro e
  have := List.append_cancel_left (Option.some.inj e)
  exact hg (List.cons.inj this).2

/-- `message M { oneof o { int32 a = 1; int32 a_ = 2; } message A {} }` (DESIGN.md finding 7) -/
def wWrapper : Msg := ⟨str "M", [fld "a" 1 (some 0), fld "a_" 2 (some 0)], [str "o"], [str "A"], []⟩

/-- REFUTED (sig `oneof-wrapper-underscore-collision`): the wrapper of `a` meets nested type `M_A`, is renamed
`M_A_`, and that is the wrapper of `a_` ("this conflict resolution is incomplete", protogen.go). -/
theorem wrapper_collides : ∃ l, wrappersOf wWrapper = some l ∧ ¬ l.Nodup :=
  ⟨_, rfl, by decide⟩

example : str "M_A" ∉ [str "M_B"] ∧ str "M_A_" ∉ [str "M_B"] := by decide

/-! ### opaque API -/

/-- The method names of the opaque API are pairwise distinct as soon as the camelCase names (fields, and
oneofs with members) are: `Get`/`Set`/`Has`/`Clear`/`Which` are prefix-free. -/
theorem opaque_methods_distinct_of_camels (m : Msg) (h : (camelSet m).Nodup) : (opaqueMethods m).Nodup :=
  methodsOf_nodup _ (camelRows_prefixes m _) h

/-- FULL STATEMENT (opaque API): "all accessor method names of a message are pairwise distinct for any
field naming".  False (`opaque_suffix_collides`, `opaque_oneof_collides`).  It holds when the camel-cased
names of the fields and of the oneofs are pairwise distinct to begin with: `resolveCamelCaseConflicts` then
changes nothing. -/
theorem opaque_methods_distinct_partial (m : Msg) (h : ((camelRows m []).map (·.2)).Nodup) :
    (opaqueMethods m).Nodup := by
  have hinit : (initCamels m).Nodup := by
    have e : (mapIdxFrom (fun i f => (fieldMethods f.presence, fieldCamel m [] i f)) 0 m.fields).map (·.2)
        = initCamels m := by
      rw [mapIdxFrom_const _ (fun f => (fieldMethods f.presence, fixBuild (goCamelCase f.name)))
        (fun i a => by simp [fieldCamel, suffixes])]
      simp [initCamels, List.map_map]
    simp only [camelRows, List.map_append, List.nodup_append] at h
    rw [e] at h
    exact h.1
  have hev : events m = [] := conflictEvents_nil _ 0 [] hinit (by simp)
  exact methodsOf_nodup _ (camelRows_prefixes m _) (by rw [hev]; exact h)

/-- `message M { optional int32 _foo = 1; optional int32 x_foo = 2; optional int32 XFoo_2 = 3; }`
(DESIGN.md finding 6) -/
def wSuffix : Msg := ⟨str "M", [fld "_foo" 1 none, fld "x_foo" 2 none, fld "XFoo_2" 3 none], [], [], []⟩

/-- REFUTED (sig `opaque-camelcase-suffix-collision`): `_foo` and `x_foo` both camel-case to `XFoo` and become
`XFoo_1`, `XFoo_2`; the latter is the camelCase of the third field. -/
theorem opaque_suffix_collides :
    (camelRows wSuffix (events wSuffix)).map (·.2) = [str "XFoo_1", str "XFoo_2", str "XFoo_2"] ∧
    ¬ (opaqueMethods wSuffix).Nodup := by
  constructor <;> decide

/-- `message M { oneof foo_bar { int32 a = 1; } optional int32 fooBar = 2; }` -/
def wOneofCamel : Msg := ⟨str "M", [fld "a" 1 (some 0), fld "fooBar" 2 none], [str "foo_bar"], [], []⟩

/-- REFUTED (sig `opaque-oneof-camelcase-collision`): `resolveCamelCaseConflicts` compares fields only; oneof
`foo_bar` and field `fooBar` both get `HasFooBar` and `ClearFooBar`. -/
theorem opaque_oneof_collides : ¬ (opaqueMethods wOneofCamel).Nodup := by decide

/-- the hypothesis of the partial theorem is satisfiable by a message with a oneof -/
example : ((camelRows ⟨str "M", [fld "foo_bar" 1 none, fld "build" 2 (some 0)], [str "kind"], [], []⟩ []).map (·.2)).Nodup := by
  decide

end C42
