import PbVerif.Lemmas.GenOrder

/-!
# C40 — code generation is deterministic (the part that is a statement about a model)

"protoc-gen-go produces a byte-identical response for the same request … independent of map iteration order"
is a statement about a Go program and is *executed* by the `gen` harness (same request in separate processes,
permuted `file_to_generate`, re-ordered `proto_file`, single-file vs batch, all parameter combinations).

What is proved here concerns the one place where Go maps are iterated on the way to the output, the import
block of `GeneratedFile.Content`, and the package-name assignment of `QualifiedGoIdent` (model:
`Model/GenOrder.lean`, written from compiler/protogen/protogen.go):

* `importBlock_perm_invariant` — the emitted import block is the same for every iteration order of the two maps;
* `importBlock_unique`         — … and for every sorting algorithm (`sort.Slice` is unstable and unspecified);
* `freshName_isSome`, `freshName_first_free`, `qualify_isSome` — the renaming loop terminates and picks the first
  unused candidate `orig, orig1, orig2, …`;
* `assign_wf`, `assign_names_injective` — distinct import paths get distinct package names, none of them a name
  that was already in use (the predeclared identifiers);
* `assign_repeat_irrelevant`, `assign_manual_irrelevant` — the assignment is a function of the order of *first*
  references only: repeating a reference, or calling `Import`, changes nothing.

That no *other* map iteration reaches the output is the genscan tie (go/gen-scan), not a theorem.
-/

namespace C40

open PbVerif.GenOrder

/-! ### the import block -/

/-- a Go map has distinct keys -/
def DistinctKeys (names : List (Str × Str)) : Prop := (names.map Prod.fst).Pairwise (· ≠ ·)

def Distinct (l : List Str) : Prop := l.Pairwise (· ≠ ·)

theorem entries_perm {n₁ n₂ : List (Str × Str)} {m₁ m₂ : List Str} (hn : n₁.Perm n₂) (hm : m₁.Perm m₂) :
    (entries n₁ m₁).Perm (entries n₂ m₂) := by
  unfold entries
  refine List.Perm.append (hn.map _) (List.Perm.map _ ?_)
  have hk : ∀ p, (!(n₁.map Prod.fst).contains p) = (!(n₂.map Prod.fst).contains p) := by
    intro p
    have : p ∈ n₁.map Prod.fst ↔ p ∈ n₂.map Prod.fst := (hn.map Prod.fst).mem_iff
    by_cases h : p ∈ n₁.map Prod.fst
    · simp [h, this.1 h]
    · simp [h, mt this.2 h]
  have : (fun p => !(n₁.map Prod.fst).contains p) = (fun p => !(n₂.map Prod.fst).contains p) := funext hk
  rw [this]
  exact hm.filter _

/-- every import path occurs once in the collected list -/
theorem entries_paths_distinct {names : List (Str × Str)} {manual : List Str}
    (hk : DistinctKeys names) (hm : Distinct manual) :
    (entries names manual).Pairwise (fun a b => a.2 ≠ b.2) := by
  unfold entries
  rw [List.pairwise_append]
  refine ⟨?_, ?_, ?_⟩
  · rw [List.pairwise_map]
    unfold DistinctKeys at hk
    rw [List.pairwise_map] at hk
    exact hk
  · rw [List.pairwise_map]
    exact (hm.sublist List.filter_sublist)
  · intro a ha b hb
    obtain ⟨e, he, rfl⟩ := List.mem_map.1 ha
    obtain ⟨p, hp, rfl⟩ := List.mem_map.1 hb
    have hp2 := (List.mem_filter.1 hp).2
    simp only [Bool.not_eq_true', ] at hp2
    intro e2
    have hmem : p ∈ names.map Prod.fst := List.mem_map.2 ⟨e, he, e2⟩
    have : (names.map Prod.fst).contains p = true := List.contains_iff_mem.2 hmem
    rw [this] at hp2
    cases hp2

theorem importBlock_perm (names : List (Str × Str)) (manual : List Str) :
    (importBlock names manual).Perm (entries names manual) := List.mergeSort_perm _ _

theorem importBlock_sorted (names : List (Str × Str)) (manual : List Str) :
    (importBlock names manual).Pairwise (fun a b => entryLe a b = true) :=
  List.pairwise_mergeSort (le := entryLe)
    (fun a b c h1 h2 => strLe_trans a.2 b.2 c.2 h1 h2) (fun a b => strLe_total a.2 b.2) _

/-- `sort.Slice` may be any algorithm: whatever sorted permutation of the collected entries it returns, it is
the model's import block. -/
theorem importBlock_unique {names : List (Str × Str)} {manual : List Str}
    (hk : DistinctKeys names) (hm : Distinct manual)
    (l : List (Str × Str)) (hp : l.Perm (entries names manual)) (hs : l.Pairwise (fun a b => entryLe a b = true)) :
    l = importBlock names manual := by
  have hd := entries_paths_distinct hk hm
  refine List.Perm.eq_of_pairwise (le := fun a b => entryLe a b = true) ?_ hs (importBlock_sorted names manual)
    (hp.trans (importBlock_perm names manual).symm)
  intro a b ha hb h1 h2
  have e : a.2 = b.2 := strLe_antisymm h1 h2
  have ha' : a ∈ entries names manual := hp.mem_iff.1 ha
  have hb' : b ∈ entries names manual := (importBlock_perm names manual).mem_iff.1 hb
  exact eq_of_mem_of_pairwise_ne (fun x : Str × Str => x.2) hd ha' hb' e

/-- **Map iteration order cannot leak into the import block**: for any two iteration orders of `packageNames`
and of `manualImports` (permutations of association lists with distinct keys) the emitted block is the same. -/
theorem importBlock_perm_invariant {n₁ n₂ : List (Str × Str)} {m₁ m₂ : List Str}
    (hn : n₁.Perm n₂) (hm : m₁.Perm m₂) (hk : DistinctKeys n₁) (hd : Distinct m₁) :
    importBlock n₁ m₁ = importBlock n₂ m₂ := by
  have hk2 : DistinctKeys n₂ := (hn.map Prod.fst).pairwise_iff (fun h => Ne.symm h) |>.1 hk
  have hd2 : Distinct m₂ := hm.pairwise_iff (fun h => Ne.symm h) |>.1 hd
  refine importBlock_unique hk2 hd2 _ ((importBlock_perm n₁ m₁).trans (entries_perm hn hm)) (importBlock_sorted n₁ m₁)

/-- the hypotheses are satisfiable by a non-trivial value: three imports (two renamed apart) and two manual
imports, one of which is also referenced; two different iteration orders; and the block itself, written out:
`pb1 "a/pb"`, `pb "goo/pb"`, `sync "sync"`, `_ "z"` -/
example :
    let a : Str × Str := ([103, 111, 111, 47, 112, 98], [112, 98])        -- "goo/pb"  ↦ pb
    let b : Str × Str := ([97, 47, 112, 98], [112, 98, 49])               -- "a/pb"    ↦ pb1
    let c : Str × Str := ([115, 121, 110, 99], [115, 121, 110, 99])       -- "sync"    ↦ sync
    importBlock [a, b, c] [[122], [115, 121, 110, 99]] = importBlock [c, a, b] [[115, 121, 110, 99], [122]] ∧
    importBlock [a, b, c] [[122], [115, 121, 110, 99]] =
      [([112, 98, 49], [97, 47, 112, 98]), ([112, 98], [103, 111, 111, 47, 112, 98]),
       ([115, 121, 110, 99], [115, 121, 110, 99]), (underscore, [122])] := by
  intro a b c
  have hk : DistinctKeys [a, b, c] := by unfold DistinctKeys; decide
  have hd : Distinct [[122], [115, 121, 110, 99]] := by unfold Distinct; decide
  refine ⟨importBlock_perm_invariant (by decide) (by decide) hk hd, ?_⟩
  exact (importBlock_unique hk hd _ (by decide) (by decide)).symm

/-! ### the renaming loop -/

/-- the Go loop `for …; g.usedPackageNames[packageName]; i++` terminates (within `len(used)+1` iterations) -/
theorem freshName_isSome (used : List Str) (orig : Str) : (freshName used orig).isSome = true := by
  obtain ⟨k, h, _, _⟩ := freshName_eq_first_free used orig
  simp [h]

/-- … and returns the first candidate of `orig, orig1, orig2, …` that is not in use -/
theorem freshName_first_free (used : List Str) (orig : Str) (n : Str) (h : freshName used orig = some n) :
    n ∉ used ∧ ∃ k, n = cand orig k ∧ ∀ j, j < k → cand orig j ∈ used := by
  obtain ⟨k, h', h1, h2⟩ := freshName_eq_first_free used orig
  rw [h] at h'
  cases h'
  exact ⟨h1, k, rfl, h2⟩

theorem qualify_isSome (clean : Str → Str) (self : Str) (g : GenFile) (p : Str) :
    (qualify clean self g p).isSome = true := by
  unfold qualify
  split
  · rfl
  · split
    · rfl
    · have := freshName_isSome g.used (clean p)
      split
      · rfl
      · rename_i h; rw [h] at this; cases this

/-! ### package names are assigned injectively, in reference order -/

/-- invariant of `packageNames` / `usedPackageNames` -/
structure WF (g : GenFile) : Prop where
  keys : DistinctKeys g.names
  vals : (g.names.map Prod.snd).Pairwise (· ≠ ·)
  sub : ∀ e, e ∈ g.names → e.2 ∈ g.used

theorem qualify_wf {clean : Str → Str} {self : Str} {g g' : GenFile} {p n : Str}
    (hw : WF g) (h : qualify clean self g p = some (g', n)) : WF g' := by
  unfold qualify at h
  by_cases hs : p = self
  · simp only [hs, if_true, Option.some.injEq, Prod.mk.injEq] at h
    obtain ⟨rfl, _⟩ := h; exact hw
  · simp only [hs, if_false] at h
    cases hl : lookup g.names p with
    | some n0 =>
      simp only [hl, Option.some.injEq, Prod.mk.injEq] at h
      obtain ⟨rfl, _⟩ := h; exact hw
    | none =>
      cases hm : freshName g.used (clean p) with
      | none => simp only [hl, hm, reduceCtorEq] at h
      | some m =>
        simp only [hl, hm, Option.some.injEq, Prod.mk.injEq] at h
        obtain ⟨rfl, _⟩ := h
        obtain ⟨hfresh, _⟩ := freshName_first_free _ _ _ hm
        have hp : p ∉ g.names.map Prod.fst := (lookup_eq_none_iff _ _).1 hl
        refine ⟨?_, ?_, ?_⟩
        · show (List.map Prod.fst (g.names ++ [(p, m)])).Pairwise (· ≠ ·)
          rw [List.map_append, List.pairwise_append]
          refine ⟨hw.keys, by simp, ?_⟩
          intro a ha b hb
          simp only [List.map_cons, List.map_nil, List.mem_singleton] at hb
          subst hb
          intro e; subst e; exact hp ha
        · show (List.map Prod.snd (g.names ++ [(p, m)])).Pairwise (· ≠ ·)
          rw [List.map_append, List.pairwise_append]
          refine ⟨hw.vals, by simp, ?_⟩
          intro a ha b hb
          simp only [List.map_cons, List.map_nil, List.mem_singleton] at hb
          subst hb
          obtain ⟨e, he, rfl⟩ := List.mem_map.1 ha
          intro e2
          exact hfresh (e2 ▸ hw.sub e he)
        · intro e he
          show e.2 ∈ m :: g.used
          rcases List.mem_append.1 he with he | he
          · exact List.mem_cons_of_mem _ (hw.sub e he)
          · simp only [List.mem_singleton] at he
            subst he
            exact List.mem_cons_self

theorem assign_wf {clean : Str → Str} {self : Str} {g g' : GenFile} {ps : List Str}
    (hw : WF g) (h : assign clean self g ps = some g') : WF g' := by
  induction ps generalizing g with
  | nil => simp only [assign] at h; cases h; exact hw
  | cons p ps ih =>
    simp only [assign] at h
    split at h
    · rename_i g1 n hq
      exact ih (qualify_wf hw hq) h
    · cases h

theorem assign_isSome (clean : Str → Str) (self : Str) (g : GenFile) (ps : List Str) :
    (assign clean self g ps).isSome = true := by
  induction ps generalizing g with
  | nil => rfl
  | cons p ps ih =>
    simp only [assign]
    have := qualify_isSome clean self g p
    split
    · exact ih _
    · rename_i h; rw [h] at this; cases this

/-- **Package-name assignment is injective**: starting from a file that has no imports yet, two different
import paths never receive the same package name, and no assigned name is one that was in use before (the
predeclared identifiers with which `NewGeneratedFile` seeds `usedPackageNames`). -/
theorem assign_names_injective (clean : Str → Str) (self : Str) (predeclared manual : List Str) (refs : List Str)
    (g' : GenFile) (h : assign clean self ⟨[], predeclared, manual⟩ refs = some g') :
    (∀ p₁ n₁ p₂ n₂, (p₁, n₁) ∈ g'.names → (p₂, n₂) ∈ g'.names → n₁ = n₂ → p₁ = p₂) ∧
    (∀ p₁ n₁ n₂, (p₁, n₁) ∈ g'.names → (p₁, n₂) ∈ g'.names → n₁ = n₂) := by
  have hw0 : WF ⟨[], predeclared, manual⟩ := ⟨by simp [DistinctKeys], by simp, by simp⟩
  have hw := assign_wf hw0 h
  constructor
  · intro p₁ n₁ p₂ n₂ h1 h2 e
    have hv : g'.names.Pairwise (fun a b => a.2 ≠ b.2) := by
      have := hw.vals; rw [List.pairwise_map] at this; exact this
    have := eq_of_mem_of_pairwise_ne (fun x : Str × Str => x.2) hv h1 h2 e
    exact congrArg Prod.fst this
  · intro p₁ n₁ n₂ h1 h2
    have hk : g'.names.Pairwise (fun a b => a.1 ≠ b.1) := by
      have := hw.keys; unfold DistinctKeys at this; rw [List.pairwise_map] at this; exact this
    have := eq_of_mem_of_pairwise_ne (fun x : Str × Str => x.1) hk h1 h2 rfl
    exact congrArg Prod.snd this

/-! ### only the order of first references matters -/

theorem qualify_known {clean : Str → Str} {self : Str} {g : GenFile} {p : Str}
    (h : p = self ∨ p ∈ g.names.map Prod.fst) : ∃ n, qualify clean self g p = some (g, n) := by
  unfold qualify
  by_cases hs : p = self
  · exact ⟨[], by simp [hs]⟩
  · rcases h with h | h
    · exact absurd h hs
    · simp only [hs, if_false]
      cases hl : lookup g.names p with
      | none => exact absurd h ((lookup_eq_none_iff _ _).1 hl)
      | some n => exact ⟨n, rfl⟩

theorem qualify_keys_mono {clean : Str → Str} {self : Str} {g g' : GenFile} {p n q : Str}
    (h : qualify clean self g p = some (g', n)) (hq : q = self ∨ q ∈ g.names.map Prod.fst) :
    q = self ∨ q ∈ g'.names.map Prod.fst := by
  unfold qualify at h
  split at h
  · cases h; exact hq
  · split at h
    · cases h; exact hq
    · split at h
      · cases h
        rcases hq with hq | hq
        · exact Or.inl hq
        · exact Or.inr (by simp only [List.map_append, List.mem_append]; exact Or.inl hq)
      · cases h

theorem qualify_adds {clean : Str → Str} {self : Str} {g g' : GenFile} {p n : Str}
    (h : qualify clean self g p = some (g', n)) : p = self ∨ p ∈ g'.names.map Prod.fst := by
  unfold qualify at h
  by_cases hs : p = self
  · exact Or.inl hs
  · simp only [hs, if_false] at h
    cases hl : lookup g.names p with
    | some m =>
      simp only [hl, Option.some.injEq, Prod.mk.injEq] at h
      obtain ⟨rfl, _⟩ := h
      exact Or.inr (List.mem_map.2 ⟨(p, m), lookup_mem hl, rfl⟩)
    | none =>
      cases hm : freshName g.used (clean p) with
      | none => simp only [hl, hm, reduceCtorEq] at h
      | some m =>
        simp only [hl, hm, Option.some.injEq, Prod.mk.injEq] at h
        obtain ⟨rfl, _⟩ := h
        exact Or.inr (by simp)

theorem assign_known_after {clean : Str → Str} {self : Str} {g g' : GenFile} {ps : List Str} {q : Str}
    (h : assign clean self g ps = some g') (hq : (q = self ∨ q ∈ g.names.map Prod.fst) ∨ q ∈ ps) :
    q = self ∨ q ∈ g'.names.map Prod.fst := by
  induction ps generalizing g with
  | nil =>
    simp only [assign] at h; cases h
    rcases hq with hq | hq
    · exact hq
    · cases hq
  | cons p ps ih =>
    simp only [assign] at h
    split at h
    · rename_i g1 n hqual
      apply ih h
      rcases hq with hq | hq
      · exact Or.inl (qualify_keys_mono hqual hq)
      · rcases List.mem_cons.1 hq with rfl | hq
        · exact Or.inl (qualify_adds hqual)
        · exact Or.inr hq
    · cases h

theorem assign_append (clean : Str → Str) (self : Str) (g : GenFile) (ps qs : List Str) :
    assign clean self g (ps ++ qs) = (assign clean self g ps).bind (fun g' => assign clean self g' qs) := by
  induction ps generalizing g with
  | nil => simp [assign]
  | cons p ps ih =>
    simp only [List.cons_append, assign]
    split
    · exact ih _
    · rfl

/-- **The assignment depends on the order of first references only**: a reference to an import path that was
referenced before (or to the file's own package) changes nothing — neither the names nor the state. -/
theorem assign_repeat_irrelevant (clean : Str → Str) (self : Str) (g : GenFile) (ps qs : List Str) (p : Str)
    (hp : p ∈ ps ∨ p = self) :
    assign clean self g (ps ++ p :: qs) = assign clean self g (ps ++ qs) := by
  rw [assign_append, assign_append]
  cases h : assign clean self g ps with
  | none => rfl
  | some g1 =>
    simp only [Option.bind_some, assign]
    have hk : p = self ∨ p ∈ g1.names.map Prod.fst := by
      rcases hp with hp | hp
      · exact assign_known_after h (Or.inr hp)
      · exact Or.inl hp
    obtain ⟨n, hn⟩ := qualify_known (clean := clean) hk
    rw [hn]

/-- `Import` (manual imports) never influences the names. -/
theorem assign_manual_irrelevant (clean : Str → Str) (self : Str) (names : List (Str × Str)) (used m₁ m₂ : List Str)
    (ps : List Str) :
    (assign clean self ⟨names, used, m₁⟩ ps).map (fun g => (g.names, g.used)) =
    (assign clean self ⟨names, used, m₂⟩ ps).map (fun g => (g.names, g.used)) := by
  induction ps generalizing names used with
  | nil => simp [assign]
  | cons p ps ih =>
    simp only [assign, qualify]
    by_cases hs : p = self
    · simp only [hs, if_true]; exact ih names used
    · simp only [hs, if_false]
      cases lookup names p with
      | some n => exact ih names used
      | none =>
        cases freshName used (clean p) with
        | none => rfl
        | some n => exact ih _ _

/-- non-trivial instance: "a/pb", "b/pb", then "a/pb" again, with `pb1` already taken: the second path gets `pb2`,
the repeated reference gets `pb` again -/
example :
    let clean : Str → Str := fun p => p.drop 2   -- path.Base for these two-segment paths
    (assign clean [120] ⟨[], [[112, 98, 49]], []⟩ [[97, 47, 112, 98], [98, 47, 112, 98], [97, 47, 112, 98]]).map (·.names) =
      some [([97, 47, 112, 98], [112, 98]), ([98, 47, 112, 98], [112, 98, 50])] := by
  decide

end C40
