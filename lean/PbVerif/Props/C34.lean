import PbVerif.Lemmas.Desc
/-
C34 — Descriptor protos and file descriptors convert losslessly.

Stated on `Model.Desc`: `newFile` (= `protodesc.FileOptions.New`, steps 0–3) and `toProto`
(= `protodesc.ToFileDescriptorProto`) on the MODELLED accessors: names, numbers, labels/cardinalities, types/kinds,
type references by full name, extendees, oneof membership incl. synthetic proto3-optional oneofs, JSON names,
proto3_optional, presence of defaults, packed/lazy/feature option bits, extension/reserved ranges, reserved names,
enum values, syntax/edition, services' method types.  NOT modelled (tied by the harness' accessor snapshot only):
option messages beyond the promoted bits, source locations, imports/public/option imports, streaming flags,
default-value literals (C39), visibility, relative (scoped) type names.
-/
namespace C34
open Desc Gen.EditionDefaults

def str (x : String) : Str := x.toList.map Char.toNat

/-! ### what a round trip must preserve: kinds and cardinalities of every top-level message's fields -/

def shape (d : FileD) : List (List (Nat × Nat)) :=
  d.messages.toList.map fun m => m.fields.map fun f => (f.kind, f.cardinality)

/-- `NewFile(ToProto(d))` reproduces `d`'s kinds and cardinalities (for a `d` that `NewFile` built from `p`). -/
def roundTripShapeOk (env : Env) (p : FileP) : Bool :=
  match newFile env p with
  | .error _ => true
  | .ok d =>
    match newFile env (toProto d) with
    | .error _ => false
    | .ok d' => shape d == shape d'

/-- editions 2023: `message M { M.G g = 1; message G {} }` with `g` spelt TYPE_GROUP and no DELIMITED feature -/
def groupWitness : FileP :=
  { path := str "w/editions_group.proto", pkg := str "w", syn := 9, edition := 1000
    messages := .cons (.mk (str "M")
      [{ name := str "g", number := some 1, label := some 1, type := 10, typeName := some (str ".w.M.G") }]
      [] (.cons (.mk (str "G") [] [] .nil [] [] [] [] [] false false {}) .nil) [] [] [] [] [] false false {}) .nil }

/-- editions 2023: `message M { int32 r = 1; }` with `r` spelt LABEL_REQUIRED and no LEGACY_REQUIRED feature -/
def requiredWitness : FileP :=
  { path := str "w/editions_required.proto", pkg := str "w", syn := 9, edition := 1000
    messages := .cons (.mk (str "M")
      [{ name := str "r", number := some 1, label := some 2, type := 5 }]
      [] .nil [] [] [] [] [] false false {}) .nil }

/-- editions 2023, file-level `message_encoding = DELIMITED`: `message M { N n = 1; } message N {}` where `n` has
NO `type` (descriptor.proto: "if type_name is set, this need not be set") -/
def untypedWitness : FileP :=
  { path := str "w/editions_untyped.proto", pkg := str "w", syn := 9, edition := 1000
    features := { messageEncoding := some evDelimited }
    messages := .cons (.mk (str "M")
      [{ name := str "n", number := some 1, label := some 1, type := 0, typeName := some (str ".w.N") }]
      [] .nil [] [] [] [] [] false false {})
      (.cons (.mk (str "N") [] [] .nil [] [] [] [] [] false false {}) .nil) }

/- FULL STATEMENT `newFile_toProto` (false of the current code):
   `∀ env p, roundTripShapeOk env p = true` — every descriptor NewFile builds is reproduced by NewFile∘ToProto. -/
set_option maxRecDepth 20000 in
theorem newFile_toProto_false : ¬ ∀ env p, roundTripShapeOk env p = true := by
  intro h
  exact absurd (h {} untypedWitness) (by decide)

set_option maxRecDepth 20000 in
/-- the two other witnesses (protoc would refuse these spellings; `NewFile` accepts them and `ToProto` rewrites them) -/
theorem newFile_toProto_false' : roundTripShapeOk {} groupWitness = false ∧ roundTripShapeOk {} requiredWitness = false := by
  decide

/-! ### toProto of a built field, clause by clause (for ALL fields) -/

/-- names, numbers, option bits and default presence are copied -/
theorem toProto_field_copied (syn : Nat) (f : FieldD) :
    (toProtoField syn f).name = f.p.name ∧ (toProtoField syn f).number = some (f.p.number.getD 0) ∧
    (toProtoField syn f).packed = f.p.packed ∧ (toProtoField syn f).lazy = f.p.lazy ∧
    (toProtoField syn f).features = f.p.features := ⟨rfl, rfl, rfl, rfl, rfl⟩

/-- outside editions the label is the cardinality and the type is the kind -/
theorem toProto_field_label_type (syn : Nat) (f : FieldD) (h : syn ≠ 9) (hk : 1 ≤ f.kind ∧ f.kind ≤ 18) :
    (toProtoField syn f).label = some f.cardinality ∧ (toProtoField syn f).type = f.kind := by
  have : (syn == 9) = false := by simpa using h
  simp [toProtoField, this, hk.1, hk.2]

/-- under editions REQUIRED is spelt OPTIONAL and GROUP is spelt MESSAGE — the information then lives ONLY in the
features, which is why the witnesses above are lossy -/
theorem toProto_field_editions (f : FieldD) :
    (f.cardinality = cRequired → (toProtoField 9 f).label = some cOptional) ∧
    (f.kind = kGroup → (toProtoField 9 f).type = kMessage) := by
  constructor
  · intro h; simp [toProtoField, h]
  · intro h; simp [toProtoField, h, kGroup, kMessage]

/-- proto3_optional is emitted exactly for proto3 fields that carry it -/
theorem toProto_field_proto3_optional (f : FieldD) :
    (toProtoField 3 f).proto3Optional = f.p.proto3Optional ∧ (toProtoField 2 f).proto3Optional = false ∧
    (toProtoField 9 f).proto3Optional = false := by
  refine ⟨?_, rfl, rfl⟩
  simp [toProtoField, hasOptionalKeyword, editionProto3, editionProto2]

/-- the JSON name of a message field is the declared one (absent stays absent) -/
theorem toProto_field_json (syn : Nat) (f : FieldD) (h : f.isExtension = false) :
    (toProtoField syn f).jsonName = f.p.jsonName := by
  simp only [toProtoField, h]
  cases f.p.jsonName <;> rfl

end C34
