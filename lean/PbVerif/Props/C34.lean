import PbVerif.Lemmas.Desc
/-
C34 — Descriptor protos and file descriptors convert losslessly.

Stated on `Model.Desc`: `newFile` (= `protodesc.FileOptions.New`, steps 0–3) and `toProto`
(= `protodesc.ToFileDescriptorProto`) on the MODELLED accessors: names, numbers, labels/cardinalities, types/kinds,
type references by full name, extendees, oneof membership incl. synthetic proto3-optional oneofs, JSON names,
proto3_optional, presence of defaults, packed/lazy/feature option bits, extension/reserved ranges, reserved names,
enum values, syntax/edition, services' method types.  NOT modelled (tied by the harness' accessor snapshot only):
option messages beyond the promoted bits, source locations, imports/public/option imports, streaming flags,
default-value literals (C39), visibility, relative (scoped) type names.
-/
namespace C34
open Desc Gen.EditionDefaults

def str (x : String) : Str := x.toList.map Char.toNat

/-! ### what a round trip must preserve: kinds and cardinalities of every top-level message's fields -/

def shape (d : FileD) : List (List (Nat × Nat)) :=
  d.messages.toList.map fun m => m.fields.map fun f => (f.kind, f.cardinality)

/-- `NewFile(ToProto(d))` reproduces `d`'s kinds and cardinalities (for a `d` that `NewFile` built from `p`). -/
def roundTripShapeOk (env : Env) (p : FileP) : Bool :=
  match newFile env p with
  | .error _ => true
  | .ok d =>
    match newFile env (toProto d) with
    | .error _ => false
    | .ok d' => shape d == shape d'

/-- editions 2023: `message M { M.G g = 1; message G {} }` with `g` spelt TYPE_GROUP and no DELIMITED feature -/
def groupWitness : FileP :=
  { path := str "w/editions_group.proto", pkg := str "w", syn := 9, edition := 1000
    messages := .cons (.mk (str "M")
      [{ name := str "g", number := some 1, label := some 1, type := 10, typeName := some (str ".w.M.G") }]
      [] (.cons (.mk (str "G") [] [] .nil [] [] [] [] [] false false {}) .nil) [] [] [] [] [] false false {}) .nil }

/-- editions 2023: `message M { int32 r = 1; }` with `r` spelt LABEL_REQUIRED and no LEGACY_REQUIRED feature -/
def requiredWitness : FileP :=
  { path := str "w/editions_required.proto", pkg := str "w", syn := 9, edition := 1000
    messages := .cons (.mk (str "M")
      [{ name := str "r", number := some 1, label := some 2, type := 5 }]
      [] .nil [] [] [] [] [] false false {}) .nil }

/-- editions 2023, file-level `message_encoding = DELIMITED`: `message M { N n = 1; } message N {}` where `n` has
NO `type` (descriptor.proto: "if type_name is set, this need not be set") -/
def untypedWitness : FileP :=
  { path := str "w/editions_untyped.proto", pkg := str "w", syn := 9, edition := 1000
    features := { messageEncoding := some evDelimited }
    messages := .cons (.mk (str "M")
      [{ name := str "n", number := some 1, label := some 1, type := 0, typeName := some (str ".w.N") }]
      [] .nil [] [] [] [] [] false false {})
      (.cons (.mk (str "N") [] [] .nil [] [] [] [] [] false false {}) .nil) }

/- FULL STATEMENT `newFile_toProto` (false of the current code):
   `∀ env p, roundTripShapeOk env p = true` — every descriptor NewFile builds is reproduced by NewFile∘ToProto. -/
set_option maxRecDepth 20000 in
theorem newFile_toProto_false : ¬ ∀ env p, roundTripShapeOk env p = true := by
  intro h
  exact absurd (h {} untypedWitness) (by decide)

set_option maxRecDepth 20000 in
/-- the two other witnesses (protoc would refuse these spellings; `NewFile` accepts them and `ToProto` rewrites them) -/
theorem newFile_toProto_false' : roundTripShapeOk {} groupWitness = false ∧ roundTripShapeOk {} requiredWitness = false := by
  decide

/-! ### toProto of a built field, clause by clause (for ALL fields) -/

/-- names, numbers, option bits and default presence are copied -/
theorem toProto_field_copied (syn : Nat) (f : FieldD) :
    (toProtoField syn f).name = f.p.name ∧ (toProtoField syn f).number = some (f.p.number.getD 0) ∧
    (toProtoField syn f).packed = f.p.packed ∧ (toProtoField syn f).lazy = f.p.lazy ∧
    (toProtoField syn f).features = f.p.features := ⟨rfl, rfl, rfl, rfl, rfl⟩

/-- outside editions the label is the cardinality and the type is the kind -/
theorem toProto_field_label_type (syn : Nat) (f : FieldD) (h : syn ≠ 9) (hk : 1 ≤ f.kind ∧ f.kind ≤ 18) :
    (toProtoField syn f).label = some f.cardinality ∧ (toProtoField syn f).type = f.kind := by
  have : (syn == 9) = false := by simpa using h
  simp [toProtoField, this, hk.1, hk.2]

/-- under editions REQUIRED is spelt OPTIONAL and GROUP is spelt MESSAGE — the information then lives ONLY in the
features, which is why the witnesses above are lossy -/
theorem toProto_field_editions (f : FieldD) :
    (f.cardinality = cRequired → (toProtoField 9 f).label = some cOptional) ∧
    (f.kind = kGroup → (toProtoField 9 f).type = kMessage) := by
  constructor
  · intro h; simp [toProtoField, h]
  · intro h; simp [toProtoField, h, kGroup, kMessage]

/-- proto3_optional is emitted exactly for proto3 fields that carry it -/
theorem toProto_field_proto3_optional (f : FieldD) :
    (toProtoField 3 f).proto3Optional = f.p.proto3Optional ∧ (toProtoField 2 f).proto3Optional = false ∧
    (toProtoField 9 f).proto3Optional = false := by
  refine ⟨?_, rfl, rfl⟩
  simp [toProtoField, hasOptionalKeyword, editionProto3, editionProto2]

/-- the JSON name of a message field is the declared one (absent stays absent) -/
theorem toProto_field_json (syn : Nat) (f : FieldD) (h : f.isExtension = false) :
    (toProtoField syn f).jsonName = f.p.jsonName := by
  simp only [toProtoField, h]
  cases f.p.jsonName <;> rfl

/-! ### toProto ∘ newFile on a field, all clauses together

FULL STATEMENT `toProto_newFile`: `newFile env p = .ok d → toProto d = normalize p`.
Proved here: the field-level core, for EVERY field of every accepted file, under visible canonicity hypotheses
(what `protoc` emits and what validation guarantees); the lifting to field lists, enums and oneofs follows.
Missing for the file-level statement: the (routine, mutual) induction over the message tree that threads the
hypotheses from `check env p = ok` — they are consequences of `resolveErr = none` and `validateField = ok`, except
the canonicity ones (`number`/`label` present, field typed, editions spell REQUIRED/GROUP through features), which
are exactly the normalisations and the lossy spellings refuted above. -/

/-- **toProto_newFile (field level).** For a field that resolved (`resolveErr = none`), is typed and numbered, whose
`proto3_optional` only occurs in proto3 (validated), and — under editions — spells `required`/`group` through
features: `ToFieldDescriptorProto` of the built descriptor is the field proto itself. -/
theorem toProto_buildField_partial (c : Ctx) (par : GoFeatures) (scope : Str) (me : Bool) (n i : Nat) (p : FieldP) (syn : Nat)
    (hres : (buildField c par scope me n i p).resolveErr = none)
    (hnum : p.number.isSome = true) (hlabel : p.label.isSome = true)
    (htyped : 1 ≤ p.type ∧ p.type ≤ 18)
    (hnoempty : p.typeName ≠ some [])
    (hext : p.extendee = none)
    (hdef : p.defaultOk = none → p.defaultLit = [])
    (hp3 : p.proto3Optional = true → syn = 3)
    (hreq : (fieldFeatures par p.features p.packed).isLegacyRequired = true → syn = 9 ∧ p.label = some cOptional)
    (hreq2 : syn = 9 → p.label ≠ some cRequired)
    (hdel : (fieldFeatures par p.features p.packed).isDelimitedEncoded = true → syn = 9)
    (hgrp : p.type = kGroup → syn ≠ 9 ∧ (buildField c par scope me n i p).kind = kGroup) :
    toProtoField syn (buildField c par scope me n i p) = p := by
  obtain ⟨hone, t, hft⟩ := resolveErr_none_split c par scope me n i p hres
  generalize hk0 : (if (p.type == kMessage && (fieldFeatures par p.features p.packed).isDelimitedEncoded) = true then kGroup else p.type) = k0 at hft
  have hk0ne : k0 ≠ 0 := by
    rw [← hk0]; split
    · simp [kGroup]
    · omega
  obtain ⟨htk, hrefs⟩ := findTarget_ok c k0 _ t hft hk0ne
  have hkind : (buildField c par scope me n i p).kind =
      (if t.kind == kGroup && ((match t.messageT with | some m => m.isMapEntry | none => false) || me) then kMessage else t.kind) := by
    simp only [buildField, hk0, hft] <;> rfl
  cases p with
  | mk name number label type typeName extendee oneofIndex jsonName p3 defOk defLit packed lazy feats =>
    simp only at *
    generalize hF : fieldFeatures par feats packed = F at *
    generalize hK : (if (t.kind == kGroup && ((match t.messageT with | some m => m.isMapEntry | none => false) || me)) = true then kMessage else t.kind) = K at *
    simp only [toProtoField, buildField, hk0, hft, hF, FieldP.mk.injEq, FieldD.number, FieldD.name, true_and]
    -- the final kind K in terms of the declared type
    have hKtype : (if (syn == 9 && (if (decide (1 ≤ K) && decide (K ≤ 18)) = true then K else 0) == kGroup) = true then kMessage
        else if (decide (1 ≤ K) && decide (K ≤ 18)) = true then K else 0) = type := by
      by_cases h11 : type = kMessage
      · subst h11
        by_cases hd : F.isDelimitedEncoded = true
        · have hs := hdel hd
          simp only [beq_self_eq_true, hd, Bool.and_self, ↓reduceIte] at hk0
          subst hk0; subst hs
          rw [htk] at hK
          by_cases hx : ((match t.messageT with | some m => m.isMapEntry | none => false) || me) = true
          · simp only [beq_self_eq_true, hx, Bool.and_self, ↓reduceIte] at hK
            subst hK; simp [kMessage, kGroup]
          · simp only [Bool.not_eq_true] at hx
            simp only [hx, Bool.and_false, Bool.false_eq_true, ↓reduceIte] at hK
            subst hK; simp [kMessage, kGroup]
        · simp only [Bool.not_eq_true] at hd
          simp only [hd, Bool.and_false, Bool.false_eq_true, ↓reduceIte] at hk0
          subst hk0
          rw [htk] at hK
          simp [kMessage, kGroup] at hK
          subst hK
          simp [kMessage, kGroup]
      · have hk0' : k0 = type := by
          rw [← hk0]
          have : (type == kMessage) = false := by simpa using h11
          simp [this]
        subst hk0'
        by_cases h10 : k0 = kGroup
        · obtain ⟨hs, hkk⟩ := hgrp h10
          have hKg : K = kGroup := by rw [← hkind]; exact hkk
          subst hKg
          have : (syn == 9) = false := by simpa using hs
          simp [this, h10, kGroup]
        · rw [htk] at hK
          have : (k0 == kGroup) = false := by simpa using h10
          simp only [this, Bool.false_and, Bool.false_eq_true, ↓reduceIte] at hK
          subst hK
          have h1 : decide (1 ≤ k0) = true := by simpa using htyped.1
          have h2 : decide (k0 ≤ 18) = true := by simpa using htyped.2
          simp [h1, h2, this]
    refine ⟨?_, ?_, (by rw [← hK] at hKtype; exact hKtype), ?_, ?_, ?_, ?_, ?_, ?_, ?_⟩
    · cases number <;> simp_all
    · cases label with
      | none => simp at hlabel
      | some l =>
        by_cases hr : F.isLegacyRequired = true
        · obtain ⟨hs, hl⟩ := hreq hr
          subst hs
          simp [cardinalityOf, hr, hl]
        · simp only [Bool.not_eq_true] at hr
          simp only [cardinalityOf, hr, Option.getD_some, Bool.not_false, Bool.true_and, Bool.false_eq_true, ↓reduceIte]
          by_cases hs : syn = 9
          · have := hreq2 hs
            have hne : (l == cRequired) = false := by
              simp only [beq_eq_false_iff_ne, ne_eq]
              intro h; exact this (by rw [h])
            simp [hne]
          · have : (syn == 9) = false := by simpa using hs
            simp [this]
    · -- typeName
      by_cases he : k0 = kEnum
      · simp only [he, ↓reduceIte] at hrefs
        obtain ⟨⟨r, hr, hfn⟩, hm, full, hfull⟩ := hrefs
        simp only [hm, hr, Option.map_some, hfn]
        cases typeName with
        | none => simp at hfull
        | some x => simp
      · by_cases hm : k0 = kMessage ∨ k0 = kGroup
        · simp only [he, ↓reduceIte, hm] at hrefs
          obtain ⟨⟨r, hr, hfn⟩, _, full, hfull⟩ := hrefs
          simp only [hr, hfn]
          cases typeName with
          | none => simp at hfull
          | some x => simp
        · simp only [he, ↓reduceIte, hm] at hrefs
          obtain ⟨h1, h2, h3⟩ := hrefs
          simp only [h1, h2, Option.map_none]
          cases typeName with
          | none => rfl
          | some x => simp at h3; subst h3; exact absurd rfl hnoempty
    · simp [hext]
    · cases oneofIndex with
      | none => rfl
      | some k =>
        obtain ⟨h0, h1⟩ := hone k rfl
        have : (decide (0 ≤ k) && decide (k < (n : Int))) = true := by simp [h0, h1]
        simp [this, Int.toNat_of_nonneg h0]
    · cases jsonName <;> rfl
    · by_cases h3 : syn = 3
      · subst h3; simp [hasOptionalKeyword, editionProto3, editionProto2]
      · have : (syn == 3) = false := by simpa using h3
        simp only [this, Bool.false_and]
        cases p3 with
        | false => rfl
        | true => exact absurd (hp3 rfl) h3
    · cases defOk <;> rfl
    · cases defOk with
      | none => simp [hdef rfl]
      | some b => simp

/-- … hence for every field list (`initFieldsFromDescriptorProto` + `resolveMessageDependencies`), any length. -/
theorem toProto_buildFields_partial (c : Ctx) (par : GoFeatures) (scope : Str) (me : Bool) (n : Nat) (syn : Nat)
    (ps : List FieldP) (i0 : Nat)
    (h : ∀ p ∈ ps, ∀ i, toProtoField syn (buildField c par scope me n i p) = p) :
    (buildFields c par scope me n i0 ps).map (toProtoField syn) = ps := by
  induction ps generalizing i0 with
  | nil => rfl
  | cons p rest ih =>
    simp only [buildFields, List.map_cons, List.cons.injEq]
    exact ⟨h p (by simp) i0, ih (i0 + 1) (fun q hq i => h q (by simp [hq]) i)⟩

/-- enums are copied; the only normalisation is that an absent value number is written as 0 -/
theorem toProto_buildEnum (par : GoFeatures) (scope : Str) (e : EnumP) (h : ∀ v ∈ e.values, v.number.isSome = true) :
    toProtoEnum (buildEnum par scope e) = e := by
  cases e with
  | mk name values rr rn alias feats =>
    simp only [toProtoEnum, buildEnum, EnumP.mk.injEq, true_and, and_true]
    simp only at h
    induction values with
    | nil => rfl
    | cons v vs ih =>
      simp only [List.map_cons, List.cons.injEq]
      refine ⟨?_, ih (fun w hw => h w (by simp [hw]))⟩
      have := h v (by simp)
      cases v with
      | mk vn vnum => cases vnum <;> simp_all

/-- oneof declarations are copied -/
theorem toProto_buildOneofs (scope : Str) (fds : List FieldD) (os : List OneofP) (i : Nat) :
    (buildOneofs scope fds i os).map (·.p) = os := by
  induction os generalizing i with
  | nil => rfl
  | cons o rest ih => simp [buildOneofs, ih]

/-- file header: syntax "proto2" is written as absent, everything else is copied (edition only under editions) -/
theorem toProto_header (env : Env) (p : FileP) :
    (toProto (build env p)).path = p.path ∧ (toProto (build env p)).pkg = p.pkg ∧
    (toProto (build env p)).features = p.features ∧
    (toProto (build env p)).syn = (if p.syn = 3 then 3 else if p.syn = 9 then 9 else 0) ∧
    (p.syn = 9 → (toProto (build env p)).edition = p.edition) := by
  refine ⟨rfl, rfl, rfl, ?_, ?_⟩
  · simp [toProto, build]
  · intro h; simp [toProto, build, fileEdition, h]

/-! ### the hypotheses are satisfiable -/

def exCtx : Ctx := mkCtx {} untypedWitness
def exField : FieldP := { name := str "n", number := some 1, label := some 1, type := 11, typeName := some (str ".w.N") }
def exPar : GoFeatures := fileFeatures untypedWitness
set_option maxRecDepth 20000 in
/-- the hypotheses of `toProto_buildField_partial` are satisfiable by a non-trivial field: a message-typed field under
inherited DELIMITED encoding (built with Kind group, written back as TYPE_MESSAGE) -/
example : toProtoField 9 (buildField exCtx exPar (str "w.M") false 0 0 exField) = exField :=
  toProto_buildField_partial exCtx exPar (str "w.M") false 0 0 exField 9
    (by decide) (by decide) (by decide) (by decide) (by decide) (by decide) (by intro _; rfl) (by intro h; cases h)
    (by decide) (by decide) (by intro _; rfl) (by decide)

end C34
